# /verif/Makefile -- builds the verification framework from files on disk only (offline).
SHELL := /bin/bash
export GOFLAGS := -mod=mod
export GOPROXY := off
export GOSUMDB := off
export GOTOOLCHAIN := local
export CGO_ENABLED := 0

REPO ?= /repo
V := /verif

.PHONY: setup consts coqproject coq harness clean audit

setup: consts coq harness

work/bin/constgen: tools/constgen/main.go
	mkdir -p work/bin
	cd tools/constgen && go build -o $(V)/work/bin/constgen .

work/bin/go2coq: tools/go2coq/main.go
	mkdir -p work/bin
	cd tools/go2coq && go build -o $(V)/work/bin/go2coq .

# Gen/Consts.v (constants) and Gen/Code.v (generated code models, tools/go2coq); both tools rewrite their
# output only when the content changed; a translator failure (source outside the subset) fails the target
consts: work/bin/constgen work/bin/go2coq
	work/bin/constgen $(REPO) coq/theories/Gen/Consts.v
	work/bin/go2coq $(REPO) coq/theories/Gen/Code.v

coqproject:
	@( echo "-Q theories GocqlV"; echo "-arg -w -arg -notation-overridden,-deprecated-hint-without-locality,-deprecated-instance-without-locality"; cd coq && find theories -name '*.v' | LC_ALL=C sort ) > coq/_CoqProject.new
	@cmp -s coq/_CoqProject.new coq/_CoqProject || ( mv coq/_CoqProject.new coq/_CoqProject && cd coq && coq_makefile -f _CoqProject -o Makefile.coq )
	@rm -f coq/_CoqProject.new
	@test -f coq/Makefile.coq || ( cd coq && coq_makefile -f _CoqProject -o Makefile.coq )

# full .vo build (never -vos); -k so that one property's broken proof does not hide the others
coq: consts coqproject
	-cd coq && timeout 3000 $(MAKE) -f Makefile.coq -k -j16 > ../work/coq_setup.log 2>&1; tail -5 work/coq_setup.log

harness:
	-python3 tools/check.py --build-harness-all

clean:
	-cd coq && test -f Makefile.coq && $(MAKE) -f Makefile.coq clean
	rm -rf work coq/Makefile.coq coq/Makefile.coq.conf coq/_CoqProject coq/.Makefile.coq.d
	find coq -name '*.vo' -o -name '*.glob' -o -name '*.vok' -o -name '*.vos' -o -name '*.aux' | xargs rm -f
