// C15 harness: paged iteration. Real gocql sessions run paged queries against the scripted in-memory
// node (gocqlverif/node); every case is one iteration with one of the four consumers (Iter.Scan,
// Scanner, Iter.MapScan, Iter.SliceMap). The node answers the successive QUERY/EXECUTE requests of a
// case from the case's script (pages with/without has_more_pages and a paging state, errors, void,
// UNPREPARED, no answer at all) and records every request it decodes. The case (configuration + script
// + what the consumer saw + the requests the node saw) is emitted as a Coq term for the model, and the
// property monitors (written from the property text, not from the model) are evaluated on the
// implementation's outputs.
package main

import (
	"bytes"
	"errors"
	"fmt"
	"io"
	"log"
	"os"
	"sort"
	"strconv"
	"strings"
	"sync"
	"time"

	"github.com/gocql/gocql"
	"gocqlverif/hlib"
	"gocqlverif/node"
)

// ---- case description ----------------------------------------------------------------------------

const (
	rPage = iota
	rErr
	rVoid
	rUnprep
)

// canonical error codes (what Coq sees); server error frames keep their protocol code
const (
	eNoReply = 1 // the node did not answer: gocql.ErrTimeoutNoResponse
	eConn    = 2 // any other error that is not a server error frame (the node closed the connection)
)

type reply struct {
	kind  int
	rows  []int32 // row ids
	more  bool
	state []byte
	code  int // rErr: protocol error code
}

type caseIn struct {
	id       int
	kind     string // generator stream
	sess     int    // index into sessions
	consumer int    // 0 Scan 1 Scanner 2 MapScan 3 SliceMap
	prepared bool
	stmt     string
	vals     []int32
	psize    int
	cons     gocql.Consistency
	noskip   bool
	serial   gocql.SerialConsistency
	tsflag   bool
	ts       int64
	manual   bool
	mstate   []byte
	pfNum    int64
	pfDen    int64
	stop     int // -1: run to completion, else: at most this many consumer calls
	script   []reply
	bind     bool          // the query is made with Session.Bind (values from a binding callback) instead of Session.Query
	retries  int           // > 0: a retry policy that retries a failed fetch on the same host up to this many times per page
	eff      []reply       // script as the paging logic sees it: a failed fetch that is retried = "the same request again"
	rtype    int           // 1 RetryNextHost, 2 Ignore, 3 Rethrow: a retry policy that is consulted (Attempt = true) and answers this type.
	                       // None of them re-sends a page request here (RetryNextHost: the one host has been used; Ignore / Rethrow return
	                       // the failed iterator), so the failed fetch must surface exactly as without a policy: retries stays 0.
	spec     int           // > 0: Idempotent(true) + SimpleSpeculativeExecution{NumAttempts: spec, TimeoutDelay: long}: the executor's
	                       // speculative path runs (the extra attempts never fire); rows and requests must be those of the plain run
	mutate   int           // > 0: what the caller does to the *Query handle right after Iter() returned (mutateHandle)
	partner  *caseIn       // a second iterator made from the SAME *Query handle (re-bound) and read side by side with this one
	second   bool          // this case is somebody's partner: it is run by its first half
	byValue  bool          // the node finds the case by the first bound value (statement shared between partners)
	delay    time.Duration // the node answers this much later (the prefetch is still in flight when the consumer catches up)
	ownSess  bool          // the script closes a connection: the case gets a session of its own
}

type obsReq struct {
	op      int
	stmt    string
	vals    [][]byte
	hasSize bool
	psize   int32
	cons    uint16
	flags   uint32
	hasSer  bool
	serial  uint16
	ts      int64
	hasPS   bool
	ps      []byte
}

// keptRow: a row exactly as it was handed to the consumer, kept to be looked at again later
type keptRow struct {
	id   int
	txt  string
	blob []byte
	m    map[string]interface{}
}

type caseOut struct {
	tags    []int // metadata tag of Iter.Columns() after each row (consumers 0 and 2)
	kept    []keptRow
	keptBad string
	rows    []int32
	ncalls  int
	err     int // -1 = nil
	errText string
	state   []byte
	reqs    []obsReq
	badRow  string
	panicked string
}

// ---- the scripted side ---------------------------------------------------------------------------

type caseState struct {
	mu     sync.Mutex
	in     *caseIn
	next   int
	reqs   []obsReq
	frozen bool // the case has been emitted: later requests are "late"
	late   int
}

var (
	casesMu sync.Mutex
	cases   = map[int]*caseState{}
)

func tagOf(stmt string) int {
	i := strings.Index(stmt, "c15_")
	if i < 0 {
		return -1
	}
	j := i + 4
	k := j
	for k < len(stmt) && stmt[k] >= '0' && stmt[k] <= '9' {
		k++
	}
	n, err := strconv.Atoi(stmt[j:k])
	if err != nil {
		return -1
	}
	return n
}

// Result metadata. The PREPARE result calls the text column "txt"; the metadata sent with answer k of a script
// calls it "t<k>": which metadata the Iter decodes a page with is thereby visible in Iter.Columns() / map keys.
var resultCols = []node.Column{node.Col("id", node.Int), node.Col("txt", node.Varchar), node.Col("b", node.Blob)}

func pageCols(k int) []node.Column {
	return []node.Column{node.Col("id", node.Int), node.Col("t"+strconv.Itoa(k), node.Varchar), node.Col("b", node.Blob)}
}

const prepMeta = -1

// metaTag reads the tag back from the columns an Iter reports (-2: no such column)
func metaTag(cols []gocql.ColumnInfo) int {
	if len(cols) < 2 {
		return -2
	}
	return nameTag(cols[1].Name)
}

func nameTag(name string) int {
	if name == "txt" {
		return prepMeta
	}
	if k, err := strconv.Atoi(strings.TrimPrefix(name, "t")); err == nil && strings.HasPrefix(name, "t") {
		return k
	}
	return -2
}

func rowBlob(id int32) []byte {
	x := uint64(uint32(id))*0x9E3779B97F4A7C15 + 0x0123456789ABCDEF
	b := make([]byte, 8+int(uint32(id)%5))
	for i := range b {
		b[i] = byte(x >> (8 * uint(i%8)))
	}
	return b
}

// textOf finds the text cell of a row map whatever metadata named it
func textOf(m map[string]interface{}) (string, int) {
	for k, v := range m {
		if k != "id" && k != "b" {
			s, _ := v.(string)
			return s, nameTag(k)
		}
	}
	return "", -2
}

func handle(c *node.ServerConn, req *node.Request) {
	stmt := req.Statement()
	id := tagOf(stmt)
	if strings.Contains(stmt, "c15h_") { // handle-reuse pairs share the statement: the first bound value names the case
		id = -1
		var vs []node.Value
		if req.Execute != nil {
			vs = req.Execute.Params.Values
		}
		if len(vs) > 0 && len(vs[0].Bytes) == 4 {
			b := vs[0].Bytes
			id = int(int32(uint32(b[0])<<24 | uint32(b[1])<<16 | uint32(b[2])<<8 | uint32(b[3])))
		}
	}
	casesMu.Lock()
	cs := cases[id]
	casesMu.Unlock()
	if cs == nil {
		c.Reply(req, node.Error{Code: node.ErrInvalid, Message: "c15: unknown case"})
		return
	}
	var p *node.QueryParams
	if req.Query != nil {
		p = &req.Query.Params
	} else {
		p = &req.Execute.Params
	}
	o := obsReq{op: int(req.Header.Opcode), stmt: stmt, hasSize: p.HasPageSize, psize: p.PageSize, cons: p.Consistency,
		flags: p.Flags &^ 0x08, hasSer: p.HasSerial, serial: p.SerialConsistency, hasPS: p.HasPagingState, ps: append([]byte(nil), p.PagingState...)}
	if cs.in.ts != 0 {
		o.ts = p.Timestamp
	}
	for _, v := range p.Values {
		o.vals = append(o.vals, append([]byte(nil), v.Bytes...))
	}
	cs.mu.Lock()
	if cs.frozen {
		cs.late++
	}
	cs.reqs = append(cs.reqs, o)
	k := cs.next
	cs.next++
	cs.mu.Unlock()
	if k >= len(cs.in.script) {
		return // no answer: the request times out
	}
	r := cs.in.script[k]
	send := func(m node.Message) {
		if cs.in.delay > 0 {
			c.ReplyAfter(cs.in.delay, req, m)
		} else {
			c.Reply(req, m)
		}
	}
	switch r.kind {
	case rErr:
		if r.code == eConn {
			c.Close()
			return
		}
		e := node.Error{Code: int32(r.code), Message: "c15 scripted error"}
		switch int32(r.code) {
		case node.ErrUnavailable:
			e.Consistency, e.Required, e.Alive = node.Quorum, 2, 1
		case node.ErrReadTimeout:
			e.Consistency, e.Received, e.BlockFor, e.DataPresent = node.Quorum, 1, 2, false
		case node.ErrWriteTimeout:
			e.Consistency, e.Received, e.BlockFor, e.WriteType = node.Quorum, 1, 2, "SIMPLE"
		}
		send(e)
	case rVoid:
		send(node.Void{})
	case rUnprep:
		var pid []byte
		if req.Execute != nil {
			pid = req.Execute.ID
		} else {
			pid = []byte{1, 2, 3, 4}
		}
		send(node.Unprepared(pid))
	case rPage:
		m := node.Rows{Columns: pageCols(k), Keyspace: "demo", Table: "pg", NoMetadata: p.SkipMetadata}
		for _, rid := range r.rows {
			m.Rows = append(m.Rows, [][]byte{node.IntV(rid), node.TextV(rowText(rid)), rowBlob(rid)})
		}
		if m.Rows == nil {
			m.Rows = [][][]byte{}
		}
		if r.more {
			m.PagingState = append([]byte{}, r.state...) // non-nil => has_more_pages
		}
		send(m)
	}
}

func rowText(id int32) string { return "r" + strconv.Itoa(int(id)) }

// ---- running one case on the real driver --------------------------------------------------------

func errCode(err error) (int, string) {
	if err == nil {
		return -1, ""
	}
	var re gocql.RequestError
	if errors.As(err, &re) {
		return re.Code(), err.Error()
	}
	if errors.Is(err, gocql.ErrTimeoutNoResponse) {
		return eNoReply, err.Error()
	}
	return eConn, err.Error()
}

func buildQuery(s *gocql.Session, in *caseIn) *gocql.Query {
	args := make([]interface{}, len(in.vals))
	for i, v := range in.vals {
		args[i] = v
	}
	var q *gocql.Query
	if in.bind {
		q = s.Bind(in.stmt, func(*gocql.QueryInfo) ([]interface{}, error) { return args, nil })
	} else {
		q = s.Query(in.stmt, args...)
	}
	if in.retries > 0 {
		q = q.RetryPolicy(sameHostRetry{in.retries}).Idempotent(true)
	} else if in.rtype > 0 {
		q = q.RetryPolicy(typedRetry{2, []gocql.RetryType{gocql.Retry, gocql.RetryNextHost, gocql.Ignore, gocql.Rethrow}[in.rtype]}).Idempotent(true)
	}
	if in.spec > 0 {
		q = q.Idempotent(true).SetSpeculativeExecutionPolicy(&gocql.SimpleSpeculativeExecution{NumAttempts: in.spec, TimeoutDelay: 30 * time.Second})
	}
	q = q.PageSize(in.psize).Consistency(in.cons).Prefetch(float64(in.pfNum) / float64(in.pfDen))
	if in.noskip {
		q = q.NoSkipMetadata()
	}
	if in.serial != 0 {
		q = q.SerialConsistency(in.serial)
	}
	q = q.DefaultTimestamp(in.tsflag)
	if in.ts != 0 {
		q = q.WithTimestamp(in.ts)
	}
	if in.manual {
		q = q.PageState(in.mstate)
	}
	return q
}

// sameHostRetry retries every failed attempt on the same host, up to n times per query object (each
// page's query has its own attempt counter: conn.go gives newQry fresh metrics).
type sameHostRetry struct{ n int }

func (p sameHostRetry) Attempt(q gocql.RetryableQuery) bool { return q.Attempts() <= p.n }
func (p sameHostRetry) GetRetryType(error) gocql.RetryType  { return gocql.Retry }

// typedRetry is consulted for up to n failures per query object and always gives the same answer
type typedRetry struct {
	n int
	t gocql.RetryType
}

func (p typedRetry) Attempt(q gocql.RetryableQuery) bool { return q.Attempts() <= p.n }
func (p typedRetry) GetRetryType(error) gocql.RetryType  { return p.t }

// effective rewrites the script the way the executor's retry loop presents it to the paging logic: an error
// answer that the policy retries is followed by the very same request, exactly like UNPREPARED
// (used by the Go-side oracle only; the Coq model has the retry budget itself: Model.exec).
func effective(script []reply, n int) []reply {
	out := make([]reply, 0, len(script))
	left := n
	for i, r := range script {
		switch r.kind {
		case rErr:
			if left > 0 {
				left--
				out = append(out, reply{kind: rUnprep})
				continue
			}
			return append(out, script[i:]...)
		case rPage:
			left = n
		case rVoid:
			return append(out, script[i:]...)
		}
		out = append(out, r)
	}
	return out
}

// mutateHandle: the caller goes on using its *Query after Iter() returned. Nothing of this may reach the
// iterator that already exists: its following pages are requested with the statement, values and options the
// query had when Iter() was called.
func mutateHandle(q *gocql.Query, in *caseIn) {
	other := make([]interface{}, len(in.vals))
	for i, v := range in.vals {
		other[i] = v ^ 0x5a5a5a
	}
	otherCons := gocql.Two
	if in.cons == gocql.Two {
		otherCons = gocql.Three
	}
	switch in.mutate {
	case 1:
		q.Bind(other...)
	case 2:
		q.Consistency(otherCons)
	case 3:
		q.PageSize(in.psize + 7)
	case 4:
		if in.serial == gocql.Serial {
			q.SerialConsistency(gocql.LocalSerial)
		} else {
			q.SerialConsistency(gocql.Serial)
		}
	case 5:
		q.PageState([]byte{0xEE, 0xEE})
	case 6:
		q.NoSkipMetadata()
	case 7:
		q.WithTimestamp(in.ts + 12345)
	case 8:
		q.DefaultTimestamp(!in.tsflag)
	case 9:
		q.RetryPolicy(sameHostRetry{2}).Idempotent(true)
	case 10:
		q.Release()
	case 11:
		q.Bind(other...).Consistency(otherCons).PageSize(in.psize + 1).Prefetch(0.5)
	}
}

const nMutations = 11

func runCase(s *gocql.Session, in *caseIn) (out caseOut) {
	defer func() {
		if r := recover(); r != nil {
			out.panicked = fmt.Sprint(r)
		}
	}()
	q := buildQuery(s, in)
	iter := q.Iter()
	if in.mutate > 0 {
		mutateHandle(q, in)
	}
	limit := in.stop
	check := func(id int, txt string, blob []byte, m map[string]interface{}) {
		if (txt != rowText(int32(id)) || !bytes.Equal(blob, rowBlob(int32(id)))) && out.badRow == "" {
			out.badRow = fmt.Sprintf("row id %d came with text %q blob %x", id, txt, blob)
		}
		out.kept = append(out.kept, keptRow{id, txt, blob, m})
		out.rows = append(out.rows, int32(id))
	}
	var err error
	switch in.consumer {
	case 0:
		for limit < 0 || out.ncalls < limit {
			var id int
			var txt string
			var blob []byte
			out.ncalls++
			if !iter.Scan(&id, &txt, &blob) {
				break
			}
			check(id, txt, blob, nil)
			out.tags = append(out.tags, metaTag(iter.Columns()))
		}
		err = iter.Close()
		out.state = iter.PageState()
	case 1:
		sc := iter.Scanner()
		for limit < 0 || out.ncalls < limit {
			out.ncalls++
			if !sc.Next() {
				break
			}
			var id int
			var txt string
			var blob []byte
			if e := sc.Scan(&id, &txt, &blob); e != nil {
				out.badRow = "Scanner.Scan: " + e.Error()
				break
			}
			check(id, txt, blob, nil)
		}
		out.state = iter.PageState() // the Iter itself is not advanced by its Scanner
		err = sc.Err()
	case 2:
		for limit < 0 || out.ncalls < limit {
			m := map[string]interface{}{}
			out.ncalls++
			if !iter.MapScan(m) {
				break
			}
			id, _ := m["id"].(int)
			blob, _ := m["b"].([]byte)
			txt, _ := textOf(m)
			check(id, txt, blob, m)
			out.tags = append(out.tags, metaTag(iter.Columns()))
		}
		err = iter.Close()
		out.state = iter.PageState()
	case 3:
		var ms []map[string]interface{}
		ms, err = iter.SliceMap()
		for _, m := range ms {
			id, _ := m["id"].(int)
			blob, _ := m["b"].([]byte)
			txt, _ := textOf(m)
			check(id, txt, blob, m)
		}
		out.state = iter.PageState()
	}
	out.err, out.errText = errCode(err)
	return out
}

// runPair: two iterators from one *Query handle, `a := q.Bind(x).Iter(); b := q.Bind(y).Iter()`, read side by
// side with Iter.Scan. Each must get its own rows and request its own following pages.
func runPair(s *gocql.Session, a, b *caseIn) (oa, ob caseOut) {
	defer func() {
		if r := recover(); r != nil {
			oa.panicked = fmt.Sprint(r)
		}
	}()
	q := buildQuery(s, a)
	ia := q.Iter()
	args := make([]interface{}, len(b.vals))
	for i, v := range b.vals {
		args[i] = v
	}
	ib := q.Bind(args...).Iter()
	step := func(it *gocql.Iter, out *caseOut, done *bool) {
		if *done {
			return
		}
		var id int
		var txt string
		var blob []byte
		out.ncalls++
		if !it.Scan(&id, &txt, &blob) {
			*done = true
			return
		}
		if (txt != rowText(int32(id)) || !bytes.Equal(blob, rowBlob(int32(id)))) && out.badRow == "" {
			out.badRow = fmt.Sprintf("row id %d came with text %q blob %x", id, txt, blob)
		}
		out.kept = append(out.kept, keptRow{id, txt, blob, nil})
		out.rows = append(out.rows, int32(id))
		out.tags = append(out.tags, metaTag(it.Columns()))
	}
	var da, db bool
	for !da || !db {
		step(ia, &oa, &da)
		step(ib, &ob, &db)
	}
	oa.err, oa.errText = errCode(ia.Close())
	ob.err, ob.errText = errCode(ib.Close())
	oa.state, ob.state = ia.PageState(), ib.PageState()
	return
}

// recheckKept looks at every row handed out earlier once more: later page switches, Close() and the end of the
// iteration must not have changed them (a row decoded into memory the driver reuses would show here)
func recheckKept(out *caseOut) {
	for i, k := range out.kept {
		bad := k.txt != rowText(int32(k.id)) || !bytes.Equal(k.blob, rowBlob(int32(k.id))) || int32(k.id) != out.rows[i]
		if k.m != nil {
			id, _ := k.m["id"].(int)
			blob, _ := k.m["b"].([]byte)
			txt, _ := textOf(k.m)
			bad = bad || id != k.id || txt != k.txt || !bytes.Equal(blob, k.blob) || len(k.m) != 3
		}
		if bad && out.keptBad == "" {
			out.keptBad = fmt.Sprintf("row %d (id %d) handed out earlier now reads text %q blob %x map %v", i, k.id, k.txt, k.blob, k.m)
		}
	}
	out.kept = nil
}

// ---- the property's oracle, in Go, on the script (from the property text) ------------------------

type oracle struct {
	rows    []int32  // every row of every page up to the first failed fetch / the last page, in order
	pageOf  []int    // for each of those rows, the index (in served pages) of its page
	rowTag  []int    // for each of those rows, the script position of the answer it came in
	pageLen []int    // rows per served page
	states  [][]byte // paging state each request must carry (nil = none), full iteration
	hasSt   []bool
	endErr  int // -1: normal end
	more    []bool // served page i says has_more_pages
}

func expect(in *caseIn) oracle {
	var o oracle
	o.endErr = -1
	cur, has := in.mstate, in.manual && len(in.mstate) > 0
	if !in.manual {
		cur, has = nil, false
	}
	i := 0
	for {
		o.states = append(o.states, cur)
		o.hasSt = append(o.hasSt, has)
		if i >= len(in.eff) {
			o.endErr = eNoReply
			for k := 0; k < in.retries; k++ { // the unanswered request is retried, every retry times out too
				o.states = append(o.states, cur)
				o.hasSt = append(o.hasSt, has)
			}
			return o
		}
		r := in.eff[i]
		i++
		pos := i - 1
		switch r.kind {
		case rUnprep:
			continue // the same request again
		case rErr:
			o.endErr = r.code
			return o
		case rVoid:
			return o
		case rPage:
			pi := len(o.pageLen)
			o.pageLen = append(o.pageLen, len(r.rows))
			o.more = append(o.more, r.more)
			for _, id := range r.rows {
				o.rows = append(o.rows, id)
				o.pageOf = append(o.pageOf, pi)
				o.rowTag = append(o.rowTag, pos)
			}
			if !r.more || in.manual {
				return o
			}
			cur, has = r.state, true
		}
	}
}

// expectedRequests: how many requests the node must eventually see when the consumer made ncalls
// calls and got nrows rows (full iteration: all of them). Used to wait for an asynchronous prefetch
// to land before the log is read, and as the "no request that nobody asked for" monitor.
func expectedRequests(in *caseIn, o oracle, nrows, ncalls int) int {
	if in.consumer == 3 || ncalls > nrows {
		return len(o.states) // ran to the end
	}
	// stopped early after nrows rows, every call returned a row; requests so far: one per script entry
	// consumed up to the page holding row nrows-1
	if nrows == 0 {
		return firstPageRequests(in)
	}
	page := o.pageOf[nrows-1]
	n := requestsUpToPage(in, page)
	if in.consumer == 1 || in.manual || !o.more[page] {
		return n
	}
	// prefetch: fired in this page iff some Scan call started with pos >= max(1, trunc((1-p)*len))
	first := 0
	for k := 0; k < page; k++ {
		first += o.pageLen[k]
	}
	inPage := nrows - first // calls that returned rows of this page; they started at pos 0..inPage-1
	np := int((1 - float64(in.pfNum)/float64(in.pfDen)) * float64(o.pageLen[page]))
	if np < 1 {
		np = 1
	}
	if inPage-1 >= np {
		n += requestsForNextPage(in, page)
	}
	return n
}

func firstPageRequests(in *caseIn) int { return requestsUpToPage(in, 0) }

// number of requests needed to obtain served page number `page` (counting UNPREPARED repeats)
func requestsUpToPage(in *caseIn, page int) int {
	n, pi := 0, -1
	for _, r := range in.eff {
		n++
		if r.kind == rPage {
			pi++
			if pi == page {
				return n
			}
			if !r.more {
				return n
			}
		} else if r.kind != rUnprep {
			return n
		}
	}
	return n + 1 + in.retries // the script ran out: one more request that is never answered (nor are its retries)
}

func requestsForNextPage(in *caseIn, page int) int {
	a := requestsUpToPage(in, page)
	n := 0
	for k := a; ; k++ {
		n++
		if k >= len(in.eff) || in.eff[k].kind != rUnprep {
			return n
		}
	}
}

// ---- Coq printing ------------------------------------------------------------------------------

func zbytes(b []byte) string { return hlib.ZList(b) }

func int32List(xs []int32) string {
	ss := make([]string, len(xs))
	for i, x := range xs {
		ss[i] = hlib.Z(int64(x))
	}
	return "[" + strings.Join(ss, ";") + "]"
}

func optZ(ok bool, v int64) string {
	if !ok {
		return "None"
	}
	return hlib.Some(hlib.Z(v))
}

func be32(v int32) []byte { return []byte{byte(v >> 24), byte(v >> 16), byte(v >> 8), byte(v)} }

func caseTerm(in *caseIn, out *caseOut) string {
	var vals []string
	for _, v := range in.vals {
		vals = append(vals, zbytes(be32(v)))
	}
	cfg := fmt.Sprintf("(mkQcfg %s %s %s %s %s %s %s %s %s)", hlib.Bool(in.prepared), zbytes([]byte(in.stmt)), hlib.List(vals),
		hlib.Z(int64(in.psize)), hlib.Z(int64(in.cons)), hlib.Bool(in.noskip), hlib.Z(int64(in.serial)), hlib.Bool(in.tsflag), hlib.Z(in.ts))
	manual := "None"
	if in.manual {
		manual = hlib.Some(zbytes(in.mstate))
	}
	var script []string
	for k, r := range in.script {
		switch r.kind {
		case rPage:
			script = append(script, fmt.Sprintf("RPage %s %s %s %d", int32List(r.rows), hlib.Bool(r.more), zbytes(r.state), k))
		case rErr:
			script = append(script, fmt.Sprintf("RErr Z Z %s", hlib.Z(int64(r.code))))
		case rVoid:
			script = append(script, "RVoid Z Z")
		case rUnprep:
			script = append(script, "RUnprep Z Z")
		}
	}
	var reqs []string
	for _, r := range out.reqs {
		var vs []string
		for _, v := range r.vals {
			vs = append(vs, zbytes(v))
		}
		ps := "None"
		if r.hasPS {
			ps = hlib.Some(zbytes(r.ps))
		}
		reqs = append(reqs, fmt.Sprintf("mkReq (mkQobs %d %s %s %s %d %d %s %s) %s", r.op, zbytes([]byte(r.stmt)), hlib.List(vs),
			optZ(r.hasSize, int64(r.psize)), r.cons, r.flags, optZ(r.hasSer, int64(r.serial)), hlib.Z(r.ts), ps))
	}
	errS := "None"
	if out.err != -1 {
		errS = hlib.Some(hlib.Z(int64(out.err)))
	}
	tags := "None"
	if in.consumer == 0 || in.consumer == 2 {
		ts := make([]int64, len(out.tags))
		for i, t := range out.tags {
			ts[i] = int64(t)
		}
		tags = hlib.Some(hlib.ZListI(ts))
	}
	return fmt.Sprintf("CIter %d %s %s (%s, %s) %s %s %s %s %s %s %s %s", in.consumer, cfg, manual, hlib.Z(in.pfNum), hlib.Z(in.pfDen),
		hlib.Nat(out.ncalls), hlib.Nat(in.retries), hlib.List(script), int32List(out.rows), tags, errS, hlib.List(reqs), zbytes(out.state))
}

// ---- generators ----------------------------------------------------------------------------------

var errCodes = []int{0x0000, 0x1000, 0x1001, 0x1002, 0x1100, 0x1200, 0x2200, 0x2000, 0x2100}

type gen struct {
	r     *hlib.Rng
	cases []*caseIn
	nsess int
}

func (g *gen) add(in *caseIn) *caseIn {
	in.id = len(g.cases)
	tbl := fmt.Sprintf("c15_%d", in.id)
	if in.byValue {
		tbl = fmt.Sprintf("c15h_%d", in.id)
		in.prepared = true
		in.vals = append([]int32{int32(in.id)}, in.vals...)
	}
	if in.prepared {
		conds := make([]string, len(in.vals))
		for i := range in.vals {
			conds[i] = fmt.Sprintf("a%d = ?", i)
		}
		in.stmt = "SELECT id, txt FROM " + tbl
		if len(conds) > 0 {
			in.stmt += " WHERE " + strings.Join(conds, " AND ")
		}
	} else {
		in.vals = nil
		in.stmt = "/* plain */ SELECT id, txt FROM " + tbl
	}
	if in.pfDen == 0 {
		in.pfDen = 1
	}
	if !in.prepared {
		in.bind = false
	}
	if in.sess == 2 && !in.ownSess { // protocol v2 has no default-timestamp flag (frame.go writeQueryParams: proto > 2)
		in.tsflag, in.ts = false, 0
	}
	if in.retries > 0 {
		in.rtype = 0
	}
	if in.mutate == 10 {
		in.spec = 0 // Release while the executor's goroutine may still hold the query is another story
	}
	if in.ownSess || in.kind == "random-noreply" || in.kind == "empty-script" {
		// (the dedicated stream retry-noreply does retry an unanswered request)
		in.retries = 0 // a retried timeout / closed connection is the executor's business (C13), not paging's
	}
	in.eff = effective(in.script, in.retries)
	for in.retries > 0 && (len(in.eff) == 0 || in.eff[len(in.eff)-1].kind == rUnprep) && len(in.script) > 0 && in.script[len(in.script)-1].kind == rErr {
		// the script would run out right after an error that is retried: let the retries fail too instead of timing out
		in.script = append(in.script, in.script[len(in.script)-1])
		in.eff = effective(in.script, in.retries)
	}
	g.cases = append(g.cases, in)
	return in
}

func (g *gen) state() []byte {
	switch g.r.Intn(8) {
	case 0:
		return []byte{0}
	case 1:
		return g.r.Bytes(1)
	case 2:
		return g.r.Bytes(40 + g.r.Intn(40))
	default:
		return g.r.Bytes(2 + g.r.Intn(14))
	}
}

// pages builds n has_more pages with the given row counts followed by a terminator
func (g *gen) pages(counts []int, term reply) []reply {
	var s []reply
	for i, c := range counts {
		s = append(s, reply{kind: rPage, rows: ids(i, c), more: true, state: g.state()})
	}
	if term.kind == rPage {
		term.rows = ids(len(counts), len(term.rows))
	}
	return append(s, term)
}

func ids(page, n int) []int32 {
	xs := make([]int32, n)
	for j := range xs {
		xs[j] = int32(page*1000 + j)
	}
	return xs
}

func make2(n int) []int {
	xs := make([]int, n)
	for i := range xs {
		xs[i] = 2
	}
	return xs
}

func lastPage(n int) reply { return reply{kind: rPage, rows: make([]int32, n)} }

var prefetches = [][2]int64{{0, 1}, {1, 4}, {1, 2}, {1, 1}, {3, 4}, {1, 8}, {5, 8}, {2, 1}, {-1, 1}, {3, 2}, {-1, 4}}

func (g *gen) randomCfg(in *caseIn) {
	r := g.r
	in.sess = r.Intn(g.nsess)
	in.prepared = !r.Chance(30)
	for k := r.Intn(3); k > 0; k-- {
		in.vals = append(in.vals, int32(r.U64()))
	}
	in.psize = int(r.Pick(1, 2, 3, 10, 50, 100, 5000, 0, -1, 2147483647))
	in.cons = gocql.Consistency(r.Pick(int64(gocql.One), int64(gocql.Quorum), int64(gocql.LocalQuorum), int64(gocql.All), int64(gocql.Any)))
	in.noskip = r.Chance(35)
	in.bind = r.Chance(40)
	if r.Chance(25) {
		in.spec = 1 + r.Intn(2)
	}
	if r.Chance(15) {
		in.rtype = 1 + r.Intn(3)
	}
	if r.Chance(20) {
		in.retries = 1 + r.Intn(3)
	}
	if r.Chance(15) {
		in.serial = gocql.SerialConsistency(r.Pick(int64(gocql.Serial), int64(gocql.LocalSerial)))
	}
	in.tsflag = r.Chance(50)
	if r.Chance(15) {
		in.tsflag, in.ts = true, 1+int64(r.U64()>>2)
	}
	pf := prefetches[r.Intn(4)]
	if r.Chance(25) {
		pf = prefetches[r.Intn(len(prefetches))]
	}
	in.pfNum, in.pfDen = pf[0], pf[1]
	in.stop = -1
	if r.Chance(12) {
		in.delay = time.Duration(1+r.Intn(3)) * time.Millisecond
	}
}

func (g *gen) term(allowNoReply bool) (reply, bool) {
	r := g.r
	switch x := r.Intn(100); {
	case x < 55:
		n := int(r.Pick(0, 0, 1, 2, 3, 5, 17, 50))
		return lastPage(n), false
	case x < 88:
		return reply{kind: rErr, code: errCodes[r.Intn(len(errCodes))]}, false
	case x < 94:
		return reply{kind: rVoid}, false
	default:
		if allowNoReply {
			return reply{}, true // no terminator: the script ends after has_more pages
		}
		return lastPage(1), false
	}
}

func (g *gen) rowCount() int {
	r := g.r
	switch r.Intn(10) {
	case 0, 1:
		return 0
	case 2:
		return 1
	case 3:
		return 2
	case 4:
		return 50
	default:
		return r.Intn(51)
	}
}

func (g *gen) sprinkleUnprep(s []reply) []reply {
	if !g.r.Chance(25) {
		return s
	}
	var t []reply
	for _, x := range s {
		if g.r.Chance(25) {
			t = append(t, reply{kind: rUnprep})
			if g.r.Chance(20) {
				t = append(t, reply{kind: rUnprep})
			}
		}
		t = append(t, x)
	}
	return t
}

func (g *gen) generate(scale int, search bool) {
	r := g.r
	// (1) systematic small grid: pages x rows-per-page x prefetch x consumer x terminator
	for _, np := range []int{0, 1, 2, 3} {
		for _, rp := range []int{0, 1, 2, 4} {
			for pfi := 0; pfi < 4; pfi++ {
				for cons := 0; cons < 4; cons++ {
					for ti := 0; ti < 3; ti++ {
						if np == 0 && rp != 0 && ti != 0 {
							continue
						}
						counts := make([]int, np)
						for i := range counts {
							counts[i] = rp
						}
						var t reply
						switch ti {
						case 0:
							t = lastPage(rp)
						case 1:
							t = lastPage(0)
						case 2:
							t = reply{kind: rErr, code: errCodes[(np+rp+pfi+cons)%len(errCodes)]}
						}
						in := &caseIn{kind: "grid", consumer: cons, prepared: (np+rp+pfi+ti)%3 != 0, psize: rp + 1, cons: gocql.Quorum,
							noskip: (np+cons+ti)%2 == 0, bind: (np+cons+pfi)%2 == 1, spec: (np + pfi + ti) % 3, pfNum: prefetches[pfi][0], pfDen: prefetches[pfi][1], stop: -1, tsflag: true,
							sess: (np + rp + cons + ti) % g.nsess}
						in.script = g.pages(counts, t)
						g.add(in)
					}
				}
			}
		}
	}
	// (2) structured random: 0..8 pages x 0..50 rows, empty pages, error at page j, UNPREPARED sprinkled
	n := 450 * scale
	if search {
		n = 600 * scale
	}
	noReplyBudget := 10 + 2*scale
	for i := 0; i < n; i++ {
		in := &caseIn{kind: "random", consumer: r.Intn(4)}
		g.randomCfg(in)
		np := r.Intn(9)
		if r.Chance(50) {
			np = r.Intn(4)
		}
		counts := make([]int, np)
		for k := range counts {
			counts[k] = g.rowCount()
		}
		t, none := g.term(noReplyBudget > 0)
		if none {
			noReplyBudget--
			in.script = g.pages(counts, lastPage(0))
			in.script = in.script[:len(in.script)-1]
			in.kind = "random-noreply"
		} else {
			in.script = g.pages(counts, t)
		}
		in.script = g.sprinkleUnprep(in.script)
		g.add(in)
	}
	// (3) early stop: the consumer abandons the iteration after k calls (prefetch position becomes visible)
	n = 400 * scale
	for i := 0; i < n; i++ {
		in := &caseIn{kind: "early-stop", consumer: r.Intn(3)}
		g.randomCfg(in)
		pf := prefetches[r.Intn(len(prefetches))]
		in.pfNum, in.pfDen = pf[0], pf[1]
		np := 1 + r.Intn(4)
		counts := make([]int, np)
		total := 0
		for k := range counts {
			counts[k] = int(r.Pick(1, 2, 3, 4, 5, 8, 16, 0, 7, 50))
			total += counts[k]
		}
		t, _ := g.term(false)
		in.script = g.pages(counts, t)
		if r.Chance(10) {
			in.script = g.sprinkleUnprep(in.script)
		}
		in.stop = r.Intn(total + 2)
		if r.Chance(30) { // right at a page boundary
			b := 0
			for k := 0; k <= r.Intn(np); k++ {
				b += counts[k]
			}
			in.stop = b + int(r.Pick(-1, 0, 0, 1))
			if in.stop < 0 {
				in.stop = 0
			}
		}
		g.add(in)
	}
	// (4) manual paging: Query.PageState(s)
	n = 120 * scale
	for i := 0; i < n; i++ {
		in := &caseIn{kind: "manual", consumer: r.Intn(4), manual: true}
		g.randomCfg(in)
		switch r.Intn(5) {
		case 0:
			in.mstate = nil
		case 1:
			in.mstate = []byte{}
		default:
			in.mstate = g.state()
		}
		first := reply{kind: rPage, rows: ids(0, g.rowCount()), more: r.Chance(70), state: g.state()}
		in.script = []reply{first}
		switch r.Intn(6) {
		case 0:
			in.script = []reply{{kind: rErr, code: errCodes[r.Intn(len(errCodes))]}}
		case 1:
			in.script = []reply{{kind: rUnprep}, first}
		}
		// what the server would say if it were (wrongly) asked again
		in.script = append(in.script, reply{kind: rPage, rows: ids(1, 3), more: true, state: []byte{9, 9}}, reply{kind: rPage, rows: ids(2, 2)})
		if r.Chance(25) {
			in.stop = r.Intn(4)
		}
		g.add(in)
	}
	// (5) boundary / malformed: has_more_pages with an empty paging state, immediate failures, empty script
	n = 40 * scale
	for i := 0; i < n; i++ {
		in := &caseIn{kind: "degenerate-empty-state", consumer: r.Intn(4)}
		g.randomCfg(in)
		np := 1 + r.Intn(3)
		counts := make([]int, np)
		for k := range counts {
			counts[k] = r.Intn(4)
		}
		t, _ := g.term(false)
		in.script = g.pages(counts, t)
		in.script[r.Intn(np)].state = []byte{}
		g.add(in)
	}
	for cons := 0; cons < 4; cons++ {
		for k := 0; k < 3; k++ {
			in := &caseIn{kind: "immediate", consumer: cons, prepared: k != 1, psize: 10, cons: gocql.One, pfNum: 1, pfDen: 4, stop: -1, sess: cons % g.nsess}
			switch k {
			case 0:
				in.script = []reply{{kind: rErr, code: 0x1200}}
			case 1:
				in.script = []reply{{kind: rVoid}}
			case 2:
				in.script = []reply{{kind: rUnprep}, {kind: rUnprep}, {kind: rPage, rows: ids(0, 2)}}
			}
			g.add(in)
		}
	}
	// (7) re-sent page requests: UNPREPARED, or an error the retry policy retries, placed on a request that
	// carries a paging state (page j >= 1, or the one page of a manual iteration); Session.Bind and Session.Query
	n = 150 * scale
	for i := 0; i < n; i++ {
		in := &caseIn{kind: "resend", consumer: r.Intn(4)}
		g.randomCfg(in)
		in.prepared = !r.Chance(15)
		in.bind = i%2 == 0
		in.retries = 0
		byRetry := i%3 == 2
		if byRetry {
			in.retries = 1 + r.Intn(2)
		}
		resend := func() []reply {
			k := 1
			if r.Chance(25) {
				k = 2
			}
			var xs []reply
			for ; k > 0; k-- {
				if byRetry && len(xs) < in.retries {
					xs = append(xs, reply{kind: rErr, code: errCodes[r.Intn(len(errCodes))]})
				} else {
					xs = append(xs, reply{kind: rUnprep})
				}
			}
			return xs
		}
		if i%5 == 4 { // manual paging with a caller state
			in.manual, in.mstate, in.kind = true, g.state(), "resend-manual"
			in.script = append(resend(), reply{kind: rPage, rows: ids(0, 1+r.Intn(4)), more: r.Chance(60), state: g.state()},
				reply{kind: rPage, rows: ids(1, 2)})
		} else {
			np := 1 + r.Intn(3)
			counts := make([]int, np)
			for k := range counts {
				counts[k] = int(r.Pick(1, 2, 2, 3, 0))
			}
			t, _ := g.term(false)
			base := g.pages(counts, t)
			j := 1 + r.Intn(np) // the request for answer j carries the state of page j-1
			in.script = append(append(append([]reply{}, base[:j]...), resend()...), base[j:]...)
			if r.Chance(20) && j+1 < len(base) {
				in.script = append(in.script[:len(in.script)-(len(base)-j-1)], append(resend(), base[j+1:]...)...)
			}
		}
		if r.Chance(30) && in.consumer != 3 {
			in.stop = r.Intn(8)
		}
		g.add(in)
	}
	// (9) the caller goes on using the *Query handle after Iter() returned: every kind of change, on scripts whose
	// later pages (and, for the retry-policy change, a later error) would show it
	n = 12 * nMutations * scale / 2
	if n < 6*nMutations {
		n = 6 * nMutations
	}
	for i := 0; i < n; i++ {
		in := &caseIn{kind: "handle-mutated", consumer: r.Intn(4), mutate: 1 + i%nMutations}
		g.randomCfg(in)
		in.prepared = in.mutate == 1 || in.mutate == 6 || in.mutate == 11 || !r.Chance(20)
		if len(in.vals) == 0 {
			in.vals = []int32{int32(r.U64()), int32(r.U64())}
		}
		in.retries = 0
		if in.mutate == 6 {
			in.noskip = false
		}
		if in.mutate == 10 { // Release zeroes the handle: keep the prefetch goroutine out of it
			in.pfNum, in.pfDen = 0, 1
		}
		np := 1 + r.Intn(3)
		counts := make([]int, np)
		for k := range counts {
			counts[k] = 1 + r.Intn(3)
		}
		t, _ := g.term(false)
		if in.mutate == 9 {
			t = reply{kind: rErr, code: errCodes[r.Intn(len(errCodes))]}
		}
		in.script = g.pages(counts, t)
		if in.mutate == 9 { // what a (wrongly) retried request would get
			in.script = append(in.script, reply{kind: rPage, rows: ids(np+1, 2)})
		}
		if r.Chance(20) && in.consumer != 3 {
			in.stop = 1 + r.Intn(5)
		}
		g.add(in)
	}
	// (10) two iterators from one handle, re-bound in between, read side by side
	n = 30 * scale
	for i := 0; i < n; i++ {
		a := &caseIn{kind: "handle-shared", consumer: 0, byValue: true}
		g.randomCfg(a)
		a.bind, a.retries, a.delay = false, 0, 0
		a.vals = []int32{int32(r.U64())}
		mk := func() []reply {
			np := 1 + r.Intn(3)
			counts := make([]int, np)
			for k := range counts {
				counts[k] = 1 + r.Intn(3)
			}
			t, _ := g.term(false)
			return g.pages(counts, t)
		}
		a.script = mk()
		g.add(a)
		b := *a
		b.vals = []int32{int32(r.U64())}
		b.script = mk()
		b.second = true
		bp := &b
		g.add(bp)
		bp.stmt = a.stmt // one handle, one statement; the bound values differ
		a.partner = bp
	}
	// (11) systematic: a retry policy answering Retry / RetryNextHost / Ignore / Rethrow x the fetch of page 1, 2 or the last
	// page fails x 4 consumers x prefetch 0 and 1/2. Only Retry re-sends; with the others the failure is the iteration's error.
	for rt := 0; rt < 4; rt++ {
		for kf := 0; kf < 3; kf++ {
			for cons := 0; cons < 4; cons++ {
				for pfi := 0; pfi < 2; pfi++ {
					in := &caseIn{kind: "retry-type", consumer: cons, prepared: (rt+kf+cons)%3 != 0, bind: (rt+cons)%2 == 0, psize: 3, cons: gocql.Quorum,
						noskip: (kf+cons)%2 == 0, pfNum: int64(pfi), pfDen: 2, stop: -1, tsflag: true, sess: (rt + kf + cons + pfi) % g.nsess, rtype: rt}
					if rt == 0 {
						in.retries = 1
					}
					code := []int{0x1001, 0x1000, 0x1200, 0x0000}[(rt+kf+cons)%4]
					failAt := []int{0, 1, 3}[kf] // number of pages delivered before the failing fetch
					in.script = g.pages(make2(failAt), reply{kind: rErr, code: code})
					// what a re-sent request gets (Retry: the iteration goes on; the others must never ask)
					in.script = append(in.script, reply{kind: rPage, rows: ids(failAt, 2), more: true, state: []byte{0x77}}, reply{kind: rPage, rows: ids(failAt+1, 1)})
					g.add(in)
				}
			}
		}
	}
	// (8) a request that is never answered, with a retry policy: every retry times out as well
	for i := 0; i < 3; i++ {
		in := &caseIn{kind: "retry-noreply", consumer: i, prepared: i != 1, bind: i == 2, psize: 5, cons: gocql.One, pfNum: 1, pfDen: 4, stop: -1, retries: 1, sess: i % g.nsess}
		in.script = g.pages([]int{2, 1}[:i%3%2+1], lastPage(0))
		in.script = in.script[:len(in.script)-1]
		g.add(in)
	}
	// (6) the connection is closed instead of an answer to the request for page j
	n = 10 + 2*scale
	for i := 0; i < n; i++ {
		in := &caseIn{kind: "conn-closed", consumer: i % 4, ownSess: true}
		g.randomCfg(in)
		in.delay = 0
		np := i % 3
		counts := make([]int, np)
		for k := range counts {
			counts[k] = 1 + r.Intn(4)
		}
		in.script = g.pages(counts, reply{kind: rErr, code: eConn})
		g.add(in)
	}
	for cons := 0; cons < 2; cons++ {
		in := &caseIn{kind: "empty-script", consumer: cons * 3, prepared: true, psize: 10, cons: gocql.One, pfNum: 1, pfDen: 4, stop: -1}
		g.add(in)
	}
}

// ---- main --------------------------------------------------------------------------------------

// newSession: proto < 0 is the session whose ClusterConfig carries the query defaults that select executor paths
// (DefaultIdempotence, a cluster-level retry policy that never retries), protocol v4
func newSession(n *node.Net, proto int, logw io.Writer) (*gocql.Session, error) {
	cfg := gocql.NewCluster("10.0.0.1")
	if proto < 0 {
		proto = 4
		cfg.DefaultIdempotence = true
		cfg.RetryPolicy = sameHostRetry{0}
	}
	cfg.Dialer = n.Dialer()
	cfg.ProtoVersion = proto
	cfg.Timeout = 700 * time.Millisecond
	cfg.ConnectTimeout = 5 * time.Second
	cfg.NumConns = 2
	cfg.Keyspace = "demo"
	cfg.Consistency = gocql.One
	cfg.MaxPreparedStmts = 100000
	cfg.Logger = log.New(logw, "gocql: ", 0)
	return gocql.NewSession(*cfg)
}

func triggerEmptyState(in *caseIn, o oracle) bool {
	// the degenerate region: automatic paging and a served has_more page with an empty (zero-length) paging state
	if in.manual {
		return false
	}
	pi := 0
	for _, r := range in.eff {
		if r.kind == rPage {
			if pi < len(o.pageLen) && r.more && len(r.state) == 0 {
				return true
			}
			pi++
			if pi >= len(o.pageLen) {
				break
			}
		} else if r.kind != rUnprep {
			break
		}
	}
	return false
}

func main() {
	o := hlib.Init("C15")
	o.Rule = "one case = one iteration of a real query against the scripted node. Streams: systematic grid (0..3 has_more pages x 0/1/2/4 rows x 4 prefetch " +
		"thresholds x 4 consumers x last page / empty last page / error), structured random (0..8 pages x 0..50 rows, empty pages, error/void/no-answer at page j, " +
		"UNPREPARED sprinkled, prepared and unprepared statements, skip-metadata on/off, page sizes incl. 0/-1/MaxInt32, consistency, serial consistency, timestamps, " +
		"prefetch incl. values outside [0,1]), early stop after k calls (also at page boundaries), manual paging (nil/empty/random state), has_more with an empty " +
		"state, immediate error/void/UNPREPARED, empty script. distinct = distinct Coq term; non-trivial = at least two requests reached the node or an error surfaced"
	var logBuf bytes.Buffer
	var logMu sync.Mutex
	logw := writerFunc(func(p []byte) (int, error) { logMu.Lock(); defer logMu.Unlock(); return logBuf.Write(p) })

	net := node.NewNet()
	defer net.Close()
	nd := net.AddNode("10.0.0.1:9042")
	net.SetKeyspace("demo", node.Keyspace{Replication: node.SimpleStrategy(1), DurableWrites: true})
	nd.AddRule(node.Rule{Match: func(r *node.Request) bool {
		return (r.Query != nil || r.Execute != nil) && (strings.Contains(r.Statement(), "c15_") || strings.Contains(r.Statement(), "c15h_"))
	}, Do: handle})

	protos := []int{4, 3, 2, -1}
	var sessions []*gocql.Session
	for _, p := range protos {
		s, err := newSession(net, p, logw)
		if err != nil {
			fmt.Fprintf(os.Stderr, "c15: NewSession(v%d): %v\n%s", p, err, logBuf.String())
			os.Exit(3)
		}
		defer s.Close()
		sessions = append(sessions, s)
	}

	g := &gen{r: o.Rng, nsess: len(sessions)}
	g.generate(o.Scale, o.Search)
	for _, in := range g.cases {
		if in.prepared {
			bind := make([]node.Column, len(in.vals))
			for i := range bind {
				bind[i] = node.Col(fmt.Sprintf("a%d", i), node.Int)
			}
			net.SetPrepared(in.stmt, node.PreparedSpec{Bind: bind, Result: resultCols, Keyspace: "demo", Table: "pg"})
		}
		casesMu.Lock()
		cases[in.id] = &caseState{in: in}
		casesMu.Unlock()
	}

	outs := make([]caseOut, len(g.cases))
	oracles := make([]oracle, len(g.cases))
	waitedOut := make([]bool, len(g.cases))
	runOne := func(in *caseIn) {
		sess := sessions[in.sess]
		if in.ownSess {
			s, err := newSession(net, 4, logw)
			if err != nil {
				fmt.Fprintf(os.Stderr, "c15: NewSession (own): %v\n", err)
				os.Exit(3)
			}
			defer s.Close()
			sess = s
		}
		if in.partner != nil {
			a, b := in, in.partner
			ora, orb := expect(a), expect(b)
			oracles[a.id], oracles[b.id] = ora, orb
			casesMu.Lock()
			csa, csb := &caseState{in: a}, &caseState{in: b}
			cases[a.id], cases[b.id] = csa, csb
			casesMu.Unlock()
			oa, ob := runPair(sess, a, b)
			for _, x := range []struct {
				in  *caseIn
				or  oracle
				cs  *caseState
				out *caseOut
			}{{a, ora, csa, &oa}, {b, orb, csb, &ob}} {
				want := len(x.or.states)
				cs := x.cs
				ok := net.WaitFor(time.Second, func() bool { cs.mu.Lock(); defer cs.mu.Unlock(); return len(cs.reqs) >= want })
				waitedOut[x.in.id] = !ok
				cs.mu.Lock()
				x.out.reqs = append([]obsReq(nil), cs.reqs...)
				cs.frozen = true
				cs.mu.Unlock()
				recheckKept(x.out)
			}
			outs[a.id], outs[b.id] = oa, ob
			return
		}
		or := expect(in)
		oracles[in.id] = or
		var out caseOut
		for attempt := 0; attempt < 3; attempt++ {
			casesMu.Lock()
			cs := &caseState{in: in}
			cases[in.id] = cs
			casesMu.Unlock()
			out = runCase(sess, in)
			// wait until every request the iteration is entitled to has reached the node (an
			// asynchronous prefetch may still be on its way when the consumer stops early)
			want := expectedRequests(in, or, len(out.rows), out.ncalls)
			ok := net.WaitFor(2*time.Second, func() bool { cs.mu.Lock(); defer cs.mu.Unlock(); return len(cs.reqs) >= want })
			waitedOut[in.id] = !ok
			if in.stop >= 0 {
				time.Sleep(2 * time.Millisecond) // grace: a request nobody is entitled to would show up now
			}
			cs.mu.Lock()
			out.reqs = append([]obsReq(nil), cs.reqs...)
			cs.frozen = true
			cs.mu.Unlock()
			recheckKept(&out) // after the iteration ended, further pages were fetched and the prefetch landed
			// a timeout that the script did not ask for (machine overloaded): run the case again
			if out.err == eNoReply && or.endErr != eNoReply {
				continue
			}
			break
		}
		outs[in.id] = out
	}
	work := make(chan *caseIn)
	var wg sync.WaitGroup
	for w := 0; w < 8; w++ {
		wg.Add(1)
		go func() {
			defer wg.Done()
			for in := range work {
				runOne(in)
			}
		}()
	}
	for _, in := range g.cases {
		if !in.ownSess && !in.second {
			work <- in
		}
	}
	close(work)
	wg.Wait()
	for _, in := range g.cases {
		if in.ownSess { // these close connections: one at a time, each on a session of its own
			runOne(in)
		}
	}
	// let stragglers (requests nobody is entitled to) arrive before the final late-request count
	time.Sleep(50 * time.Millisecond)

	hist := map[string]int{}
	for _, in := range g.cases {
		out := &outs[in.id]
		or := oracles[in.id]
		nontrivial := len(out.reqs) >= 2 || out.err != -1
		idx := o.Case(in.kind, nontrivial, caseTerm(in, out))
		hist[fmt.Sprintf("consumer%d", in.consumer)]++
		hist[fmt.Sprintf("requests=%d", min(len(out.reqs), 10))]++
		input := map[string]interface{}{"case": in.id, "consumer": in.consumer, "stmt": in.stmt, "manual": in.manual, "prefetch": fmt.Sprintf("%d/%d", in.pfNum, in.pfDen),
			"stop": in.stop, "rtype": in.rtype, "spec": in.spec, "bind": in.bind, "retries": in.retries, "script": describe(in.script), "rows_seen": len(out.rows), "err": out.errText, "requests": len(out.reqs)}
		viol := func(kind, finding, detail string) { o.Violate(idx, kind, finding, detail, input) }
		if out.panicked != "" {
			viol("panic", "", out.panicked)
			continue
		}
		if out.badRow != "" {
			viol("row-content", "", out.badRow)
		}
		if out.keptBad != "" {
			viol("retained-row-changed", "", out.keptBad)
		}
		// M6: each page is decoded with the metadata the protocol says: the PREPARE result's when the request
		// said skip_metadata, else the one that came with the page
		if in.consumer == 0 || in.consumer == 2 {
			for i, tg := range out.tags {
				if i >= len(or.rowTag) {
					break
				}
				want := or.rowTag[i]
				if in.prepared && !in.noskip {
					want = prepMeta
				}
				if tg != want {
					viol("metadata", "", fmt.Sprintf("row %d was decoded with metadata %d, expected %d (-1 = PREPARE result, k = sent with answer k)", i, tg, want))
					break
				}
			}
		}
		full := in.consumer == 3 || out.ncalls > len(out.rows)
		// M1: every row of every page exactly once, in order (a prefix when the consumer stopped early)
		wantRows := or.rows
		if in.consumer == 3 && or.endErr != -1 {
			wantRows = nil // SliceMap returns (nil, err)
		}
		if !full {
			if len(out.rows) <= len(wantRows) {
				wantRows = wantRows[:len(out.rows)]
			}
		}
		if !eqI32(out.rows, wantRows) {
			viol("rows", "", fmt.Sprintf("consumer saw %d rows %v, the pages hold %v", len(out.rows), head(out.rows), head(wantRows)))
		}
		// M4: a failed fetch surfaces as the error; a normal end has no error
		if full && out.err != or.endErr {
			viol("error-surfaces", "", fmt.Sprintf("iteration ended with error code %d (%s), the script ends with %d", out.err, out.errText, or.endErr))
		}
		firstFetchFailed := len(or.pageLen) == 0 && out.err == or.endErr // Query.Iter() fetches page one itself
		if !full && out.err != -1 && !firstFetchFailed {
			viol("error-surfaces", "", fmt.Sprintf("error %d (%s) although every call returned a row", out.err, out.errText))
		}
		// M2: request i carries exactly the paging state of the page before it, and is otherwise request 0
		emptyTrig := triggerEmptyState(in, or)
		for i, rq := range out.reqs {
			if i < len(or.states) {
				wantHas, wantSt := or.hasSt[i], or.states[i]
				if rq.hasPS != wantHas || !bytes.Equal(rq.ps, wantSt) {
					if emptyTrig && wantHas && len(wantSt) == 0 && !rq.hasPS {
						// outside the property's quantifier (no server sends has_more_pages with a zero-length state): the
						// driver then sends no paging state at all. Counted as an observation; the model (Coq) still has
						// to predict exactly this request.
						o.Count("observation:empty-state-sent-as-none")
						continue
					}
					viol("request-paging-state", "", fmt.Sprintf("request %d carries paging state (%v, %x), the previous page carried (%v, %x)", i, rq.hasPS, rq.ps, wantHas, wantSt))
				}
			}
			if i > 0 && !sameFixed(rq, out.reqs[0]) {
				viol("request-changed", "", fmt.Sprintf("request %d differs from request 0 in more than the paging state: %+v vs %+v", i, rq, out.reqs[0]))
			}
		}
		// M3: no request nobody asked for: never more requests than the whole iteration sends (none after
		// the last page; exactly one page with manual paging), and not fewer than the rows seen needed.
		// (How far ahead the prefetch runs when the consumer stops early is not the property's business:
		// that is compared with the model, in Coq.)
		most := len(or.states)
		least := most
		if !full {
			least = expectedRequests(&caseIn{consumer: 1, manual: in.manual, eff: in.eff, pfNum: 0, pfDen: 1}, or, len(out.rows), out.ncalls)
		}
		casesMu.Lock()
		cs := cases[in.id]
		casesMu.Unlock()
		cs.mu.Lock()
		late := cs.late
		cs.mu.Unlock()
		if len(out.reqs)+late > most {
			k := "request-after-last-page"
			if in.manual {
				k = "manual-paging-more-than-one-page"
			}
			viol(k, "", fmt.Sprintf("%d requests (+%d late) reached the node, the whole iteration is entitled to %d", len(out.reqs), late, most))
		}
		if len(out.reqs) < least {
			viol("request-missing", "", fmt.Sprintf("%d requests reached the node, at least %d needed (waited out: %v)", len(out.reqs), least, waitedOut[in.id]))
		}
		if late > 0 && len(out.reqs)+late <= most {
			// arrived after the case was emitted: the emitted request log is incomplete, say so rather than let it pass
			viol("request-late", "", fmt.Sprintf("%d request(s) reached the node after the iteration's log was read (%d before)", late, len(out.reqs)))
		}
		// M5: the exposed page state is the last fetched page's (manual paging: the state to continue with)
		if in.manual && full && or.endErr == -1 && len(or.more) > 0 && in.consumer != 1 {
			var st []byte
			for _, r := range in.eff {
				if r.kind == rPage {
					if r.more {
						st = r.state
					}
					break
				}
			}
			if !bytes.Equal(out.state, st) {
				viol("manual-page-state", "", fmt.Sprintf("PageState() = %x, the page carried %x", out.state, st))
			}
		}
	}
	o.Extra["histogram"] = sortedHist(hist)
	o.Extra["sessions"] = fmt.Sprintf("protocol versions %v, one node, NumConns 2, 8 concurrent cases", protos)
	o.Finish("From GocqlV Require Import Lib.Base C15.Model C15.Corr.", "C15.Corr.case", "C15.Corr.run")
}

type writerFunc func(p []byte) (int, error)

func (f writerFunc) Write(p []byte) (int, error) { return f(p) }

func min(a, b int) int {
	if a < b {
		return a
	}
	return b
}

func eqI32(a, b []int32) bool {
	if len(a) != len(b) {
		return false
	}
	for i := range a {
		if a[i] != b[i] {
			return false
		}
	}
	return true
}

func head(a []int32) []int32 {
	if len(a) > 12 {
		return a[:12]
	}
	return a
}

func sameFixed(a, b obsReq) bool {
	if a.op != b.op || a.stmt != b.stmt || a.hasSize != b.hasSize || a.psize != b.psize || a.cons != b.cons || a.flags != b.flags ||
		a.hasSer != b.hasSer || a.serial != b.serial || a.ts != b.ts || len(a.vals) != len(b.vals) {
		return false
	}
	for i := range a.vals {
		if !bytes.Equal(a.vals[i], b.vals[i]) {
			return false
		}
	}
	return true
}

func describe(s []reply) string {
	var ss []string
	for _, r := range s {
		switch r.kind {
		case rPage:
			ss = append(ss, fmt.Sprintf("page(%d rows, more=%v, state=%x)", len(r.rows), r.more, r.state))
		case rErr:
			ss = append(ss, fmt.Sprintf("error(0x%04x)", r.code))
		case rVoid:
			ss = append(ss, "void")
		case rUnprep:
			ss = append(ss, "unprepared")
		}
	}
	return strings.Join(ss, " ")
}

func sortedHist(h map[string]int) []string {
	var ks []string
	for k := range h {
		ks = append(ks, k)
	}
	sort.Strings(ks)
	out := make([]string, len(ks))
	for i, k := range ks {
		out[i] = fmt.Sprintf("%s:%d", k, h[k])
	}
	return out
}
