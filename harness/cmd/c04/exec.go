package main

// Prepared executions on a real Session: the skip-metadata path through the REAL Conn.executeQuery.
//
// A scripted node (harness/node) answers PREPARE with a RESULT prepared frame whose result metadata has tuple /
// nested / UDT columns, and EXECUTE with rows frames that carry NO_METADATA exactly when the request asked to
// skip metadata (the driver's default), split into pages (has_more_pages + paging state).  All bodies are made by
// the harness's specification encoder (c04lib), i.e. the same bytes Coq checks against Spec.enc_frame elsewhere.
//
//  (a) raw cells: Scan into recording destinations on the Iter the session returned; monitor: every row equals
//      the logical row, NumRows / PageState / Columns are those of the frames; Coq: CScanSkip (prepared body,
//      rows body, scans) resp. CScan -- the model's skip_meta_iter mirrors conn.go executeQuery's
//      `iter.meta = info.response; iter.meta.pagingState = copyBytes(x.meta.pagingState)`.
//  (b) typed rows over 1-3 pages through SliceMap, MapScan, RowData+Scan and the Scanner with automatic paging, and
//      page by page with Query.PageState: the complete result equals a decode of every cell on its own
//      (FreshDecode / ExpectedMaps), compared after iteration has finished.

import (
	"bytes"
	"fmt"
	"io/ioutil"
	"log"
	"reflect"
	"sync"
	"time"

	"github.com/gocql/gocql"
	"gocqlverif/c04lib"
	"gocqlverif/hlib"
	"gocqlverif/node"
)

type execPage struct {
	rows  [][]c04lib.SCell
	state []byte // paging state sent with this page (nil: last page)
}

type execScript struct {
	v        int
	id       []byte
	meta     c04lib.SMeta // full result metadata (as in the PREPARED response)
	pages    []execPage
	prepBody []byte

	mu       sync.Mutex
	lastRows []byte // body of the last rows frame sent
	lastSkip bool   // ... and whether it was NO_METADATA
	nSkip    int
	nFull    int
}

type execNode struct {
	// onExecute, if set, is asked first for every EXECUTE of a scripted statement; true = it has taken the request
	onExecute func(c *node.ServerConn, req *node.Request, sc *execScript) bool

	mu      sync.Mutex
	byStmt  map[string]*execScript
	byID    map[string]*execScript
	nd      *node.Node
	session *gocql.Session
}

func (sc *execScript) rowsResp(pageIdx int, skip bool) *c04lib.Response {
	p := sc.pages[pageIdx]
	m := sc.meta
	if skip {
		m = c04lib.SMeta{NoMeta: true, Count: len(sc.meta.Cols)}
	}
	m.HasPaging, m.Paging = p.state != nil, p.state
	return &c04lib.Response{Op: c04lib.OpResult, Result: c04lib.SResult{Kind: c04lib.RRows, Meta: m, Rows: p.rows}}
}

func (sc *execScript) rowsBody(pageIdx int, skip bool) []byte {
	return sc.rowsResp(pageIdx, skip).EncodeBody(sc.v)
}

func newExecNode(v int) (*execNode, error) {
	en := &execNode{byStmt: map[string]*execScript{}, byID: map[string]*execScript{}}
	n := node.NewNet()
	nd := n.AddNode("10.0.0.1:9042")
	en.nd = nd
	nd.SetHandler(func(c *node.ServerConn, req *node.Request) {
		switch {
		case req.Prepare != nil:
			en.mu.Lock()
			sc := en.byStmt[req.Prepare.Statement]
			en.mu.Unlock()
			if sc != nil {
				c.Reply(req, node.RawMessage{Opcode: node.OpResult, Body: sc.prepBody})
				return
			}
		case req.Execute != nil:
			en.mu.Lock()
			sc := en.byID[string(req.Execute.ID)]
			en.mu.Unlock()
			if sc != nil {
				en.mu.Lock()
				hook := en.onExecute
				en.mu.Unlock()
				if hook != nil && hook(c, req, sc) {
					return
				}
				if len(sc.pages) == 0 { // a statement without a result set
					c.Reply(req, node.Void{})
					return
				}
				idx := 0
				if req.Execute.Params.HasPagingState {
					idx = -1
					for i, p := range sc.pages {
						if p.state != nil && bytes.Equal(p.state, req.Execute.Params.PagingState) {
							idx = i + 1
						}
					}
					if idx < 0 || idx >= len(sc.pages) {
						c.Reply(req, node.Error{Code: 0x2200, Message: "unknown paging state"})
						return
					}
				}
				skip := req.Execute.Params.SkipMetadata
				body := sc.rowsBody(idx, skip)
				sc.mu.Lock()
				sc.lastRows, sc.lastSkip = body, skip
				if skip {
					sc.nSkip++
				} else {
					sc.nFull++
				}
				sc.mu.Unlock()
				c.Reply(req, node.RawMessage{Opcode: node.OpResult, Body: body})
				return
			}
		}
		nd.Default(c, req)
	})
	cfg := gocql.NewCluster("10.0.0.1:9042")
	cfg.Dialer = n.Dialer()
	cfg.ProtoVersion = v
	cfg.Timeout = 2 * time.Second
	cfg.ConnectTimeout = 2 * time.Second
	cfg.NumConns = 1
	cfg.DisableInitialHostLookup = true
	cfg.Consistency = gocql.One
	cfg.Logger = log.New(ioutil.Discard, "", 0)
	s, err := gocql.NewSession(*cfg)
	if err != nil {
		return nil, err
	}
	en.session = s
	return en, nil
}

func (en *execNode) add(stmt string, sc *execScript, r *hlib.Rng, g *c04lib.Gen) {
	sc.id = r.Bytes(8)
	prep := &c04lib.Response{Op: c04lib.OpResult, Result: c04lib.SResult{Kind: c04lib.RPrepared, ID: sc.id, Meta: c04lib.SMeta{Global: true, GKS: "ks", GTab: "tb"}, RespMeta: sc.meta}}
	sc.prepBody = prep.EncodeBody(sc.v)
	en.mu.Lock()
	en.byStmt[stmt] = sc
	en.byID[string(sc.id)] = sc
	en.mu.Unlock()
}

func sessionRows(o *hlib.Out, gMain *c04lib.Gen) {
	r := hlib.NewRng(o.Seed + 777)
	g := &c04lib.Gen{R: r}
	nodes := map[int]*execNode{}
	defer func() {
		for _, en := range nodes {
			en.session.Close()
		}
	}()
	nodeFor := func(v int) *execNode {
		if en, ok := nodes[v]; ok {
			return en
		}
		en, err := newExecNode(v)
		if err != nil {
			o.Violate(-1, "session-exec", "", fmt.Sprintf("NewSession (protocol %d) against the scripted node failed: %v", v, err), nil)
			return nil
		}
		nodes[v] = en
		return en
	}
	guard := func(kind string, input interface{}, f func()) {
		defer func() {
			if p := recover(); p != nil {
				o.Violate(-1, kind, "", fmt.Sprintf("panic while consuming a well-formed result on a real session: %v", p), input)
			}
		}()
		f()
	}
	nat := func(id int) *c04lib.SType { return &c04lib.SType{Kind: c04lib.KNative, ID: id} }
	stmtNo := 0
	nskip, nfull := 0, 0

	// ---- (a) raw cells ----------------------------------------------------------------------------------
	for i := 0; i < 12*o.Scale; i++ {
		v := int(r.Pick(3, 4, 4, 5))
		en := nodeFor(v)
		if en == nil {
			continue
		}
		rm := g.Meta(1+r.Intn(3), 2, false)
		rm.HasPaging, rm.Paging = false, nil
		if i%2 == 0 { // a tuple column of arity 0, 2 or 3 in a random position
			t := &c04lib.SType{Kind: c04lib.KTuple}
			for k := int(r.Pick(0, 2, 2, 3)); k > 0; k-- {
				t.Elems = append(t.Elems, nat(int(r.Pick(9, 13, 3))))
			}
			c := c04lib.SCol{Name: fmt.Sprintf("tup%d", i), Type: t}
			if !rm.Global {
				c.KS, c.Table = "ks", "tb"
			}
			at := r.Intn(len(rm.Cols) + 1)
			rm.Cols = append(rm.Cols[:at], append([]c04lib.SCol{c}, rm.Cols[at:]...)...)
			rm.Count = len(rm.Cols)
		}
		rows := g.Rows(&rm, 1+r.Intn(3))
		var state []byte
		if r.Bool() {
			state = r.Bytes(1 + r.Intn(12))
		}
		sc := &execScript{v: v, meta: rm, pages: []execPage{{rows: rows, state: state}}}
		stmtNo++
		stmt := fmt.Sprintf("SELECT * FROM ks.raw%d", stmtNo)
		en.add(stmt, sc, r, g)
		noSkip := r.Chance(25)
		input := fmt.Sprintf("protocol %d, skip-metadata %v, result metadata %s, %d rows, paging state %x", v, !noSkip, rm.Coq(), len(rows), state)
		guard("session-scan-cells", input, func() {
			q := en.session.Query(stmt).PageState(nil)
			if noSkip {
				q = q.NoSkipMetadata()
			}
			it := q.Iter()
			nd := rm.ScanWidth()
			k := len(rows) + 1
			numRows := it.NumRows()
			cols := it.Columns()
			ps := it.PageState()
			scans := c04lib.Scans(it, nd, k)
			cerr := it.Close()
			sc.mu.Lock()
			rb, skipped := sc.lastRows, sc.lastSkip
			sc.mu.Unlock()
			if rb == nil {
				o.Violate(-1, "session-exec", "", fmt.Sprintf("no EXECUTE reached the node; Iter error: %v", cerr), input)
				return
			}
			if skipped == noSkip {
				o.Violate(-1, "session-exec", "", fmt.Sprintf("NoSkipMetadata=%v but the EXECUTE had skip_metadata=%v", noSkip, skipped), input)
			}
			var idx int
			if skipped {
				nskip++
				idx = o.Case("session-scan-skip-meta", true, fmt.Sprintf("CScanSkip %d %s %s %d %s %s", v, hlib.ZList(sc.prepBody), hlib.ZList(rb), nd, hlib.Nat(k), c04lib.CoqScans(scans)))
			} else {
				nfull++
				idx = o.Case("session-scan", true, fmt.Sprintf("CScan %d %d 0 %d %s %d %s %s", v, 0x80|v, c04lib.OpResult, hlib.ZList(rb), nd, hlib.Nat(k), c04lib.CoqScans(scans)))
			}
			for j, row := range rows {
				if want := c04lib.ExpectRow(&rm, row); j >= len(scans) || scans[j].Coq() != want {
					got := "nothing"
					if j < len(scans) {
						got = scans[j].Coq()
					}
					o.Violate(idx, "session-scan-cells", "", fmt.Sprintf("row %d: Scan delivered %s, the frame encodes %s (Iter error: %v)", j, got, want, cerr), input)
					break
				}
			}
			if cerr != nil {
				o.Violate(idx, "session-scan-cells", "", fmt.Sprintf("Iter.Close reports %v for a well-formed result", cerr), input)
			}
			if numRows != len(rows) {
				o.Violate(idx, "session-numrows", "", fmt.Sprintf("NumRows %d, the frame has %d rows", numRows, len(rows)), input)
			}
			if !bytes.Equal(ps, state) {
				o.Violate(idx, "session-paging-state", "", fmt.Sprintf("PageState %x, the rows frame carries %x", ps, state), input)
			}
			// Columns(): those of the PREPARED response (skip) / of the rows frame, as parseFrame reports them
			var wantCols []gocql.ColumnInfo
			if skipped {
				po := c04lib.Parse(v, 0x80|v, 0, c04lib.OpResult, sc.prepBody)
				wantCols = po.Frame.RespMeta.Columns
			} else {
				ro := c04lib.Parse(v, 0x80|v, 0, c04lib.OpResult, rb)
				wantCols = ro.Frame.Meta.Columns
			}
			if len(cols) != len(rm.Cols) || !reflect.DeepEqual(cols, wantCols) {
				o.Violate(idx, "session-columns", "", fmt.Sprintf("Iter.Columns() = %v, the metadata describes %v", cols, wantCols), input)
			}
			for ci := range cols {
				if ci < len(rm.Cols) && cols[ci].Name != rm.Cols[ci].Name {
					o.Violate(idx, "session-columns", "", fmt.Sprintf("column %d is named %q, the metadata says %q", ci, cols[ci].Name, rm.Cols[ci].Name), input)
				}
			}
		})
	}

	// ---- (b) typed rows, pages, every consumer -----------------------------------------------------------
	for i := 0; i < 10*o.Scale; i++ {
		v := int(r.Pick(3, 4, 4, 5))
		en := nodeFor(v)
		if en == nil {
			continue
		}
		m, rows := typedRowSet(r, g, v)
		if i%2 == 0 { // make sure a tuple column is there
			t := &c04lib.SType{Kind: c04lib.KTuple, Elems: []*c04lib.SType{nat(3), nat(9)}}
			if r.Chance(30) {
				t.Elems = append(t.Elems, nat(13))
			}
			c := c04lib.SCol{Name: "tp", Type: t}
			if !m.Global {
				c.KS, c.Table = "ks", "tb"
			}
			m.Cols = append(m.Cols, c)
			m.Count = len(m.Cols)
			for ri := range rows {
				cell := c04lib.SCell{IsTuple: true}
				for _, e := range t.Elems {
					b := g.Value(v, e)
					if b == nil {
						cell.Comps = append(cell.Comps, c04lib.OptBytes{Null: true})
					} else {
						cell.Comps = append(cell.Comps, c04lib.OptBytes{Val: b})
					}
				}
				rows[ri] = append(rows[ri], cell)
			}
		}
		// pages
		var pages []execPage
		rest := rows
		for np := 1 + r.Intn(3); np > 1 && len(rest) > 1; np-- {
			k := 1 + r.Intn(len(rest)-1)
			pages = append(pages, execPage{rows: rest[:k], state: append([]byte{byte(len(pages) + 1)}, r.Bytes(r.Intn(9))...)})
			rest = rest[k:]
		}
		pages = append(pages, execPage{rows: rest})
		sc := &execScript{v: v, meta: m, pages: pages}
		stmtNo++
		stmt := fmt.Sprintf("SELECT * FROM ks.typed%d", stmtNo)
		en.add(stmt, sc, r, g)
		fullBody := (&c04lib.Response{Op: c04lib.OpResult, Result: c04lib.SResult{Kind: c04lib.RRows, Meta: m, Rows: rows}}).EncodeBody(v)
		first := c04lib.Parse(v, 0x80|v, 0, c04lib.OpResult, fullBody)
		if first.Class != "ok" {
			o.Violate(-1, "typed-rows-parse", "", "a well-formed rows frame was not parsed: "+first.ErrMsg, hlib.ZList(fullBody))
			continue
		}
		want, problem := c04lib.ExpectedMaps(first.Frame.Meta.Columns, &m, rows)
		if problem != "" {
			o.Count("session-typed-rows-skipped")
			continue
		}
		o.Count("session-typed-rows")
		input := fmt.Sprintf("protocol %d, %d rows in %d pages, columns %s", v, len(rows), len(pages), m.Coq())
		query := func() *gocql.Query {
			q := en.session.Query(stmt)
			if r.Chance(20) {
				q = q.NoSkipMetadata()
			}
			return q
		}
		report := func(kind, diff string) {
			if diff != "" {
				o.Violate(-1, kind, "", diff, input)
			}
		}
		guard("session-slicemap", input, func() {
			got, err := query().Iter().SliceMap()
			if err != nil {
				report("session-slicemap", "SliceMap returned an error: "+err.Error())
				return
			}
			report("session-slicemap", c04lib.DiffMaps(got, want))
		})
		guard("session-mapscan", input, func() {
			it := query().Iter()
			var got []map[string]interface{}
			for {
				mm := map[string]interface{}{}
				if !it.MapScan(mm) {
					break
				}
				got = append(got, mm)
			}
			if err := it.Close(); err != nil {
				report("session-mapscan", "MapScan loop ended with an error: "+err.Error())
				return
			}
			report("session-mapscan", c04lib.DiffMaps(got, want))
		})
		collect := func(names [][]string, dests [][]interface{}) []map[string]interface{} {
			var got []map[string]interface{}
			for i := range dests {
				mm := map[string]interface{}{}
				for j, d := range dests[i] {
					mm[names[i][j]] = reflectIndirect(d)
				}
				got = append(got, mm)
			}
			return got
		}
		guard("session-scan", input, func() {
			it := query().Iter()
			var names [][]string
			var dests [][]interface{}
			for {
				rd, err := it.RowData()
				if err != nil {
					report("session-scan", "RowData: "+err.Error())
					return
				}
				if !it.Scan(rd.Values...) {
					break
				}
				names, dests = append(names, rd.Columns), append(dests, rd.Values)
			}
			if err := it.Close(); err != nil {
				report("session-scan", "Scan loop ended with an error: "+err.Error())
				return
			}
			report("session-scan", c04lib.DiffMaps(collect(names, dests), want))
		})
		guard("session-scanner", input, func() {
			// the Scanner does not page: page by page
			var names [][]string
			var dests [][]interface{}
			var state []byte
			for pi := 0; ; pi++ {
				it := query().PageState(state).Iter()
				scn := it.Scanner()
				for scn.Next() {
					rd, err := it.RowData()
					if err != nil {
						report("session-scanner", "RowData: "+err.Error())
						return
					}
					if err := scn.Scan(rd.Values...); err != nil {
						report("session-scanner", "Scanner.Scan: "+err.Error())
						return
					}
					names, dests = append(names, rd.Columns), append(dests, rd.Values)
				}
				state = append([]byte{}, it.PageState()...)
				if err := scn.Err(); err != nil {
					report("session-scanner", "Scanner ended with an error: "+err.Error())
					return
				}
				if pi < len(pages) && !bytes.Equal(state, pages[pi].state) {
					report("session-paging-state", fmt.Sprintf("page %d: PageState %x, the rows frame carries %x", pi, state, pages[pi].state))
					return
				}
				if len(state) == 0 || pi > len(pages) {
					break
				}
			}
			report("session-scanner", c04lib.DiffMaps(collect(names, dests), want))
		})
		sc.mu.Lock()
		nskip, nfull = nskip+sc.nSkip, nfull+sc.nFull
		sc.mu.Unlock()
	}
	o.Extra["session_exec"] = fmt.Sprintf("%d prepared statements executed on real sessions: %d EXECUTEs answered without metadata, %d with", stmtNo, nskip, nfull)
}
