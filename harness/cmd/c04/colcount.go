package main

// The column-count boundary of the metadata readers, on every run (independent of the seed).
//
// parseResultMetadata and parsePreparedMetadata (frame.go) have two branches: below 1000 columns the ColumnInfo
// slice is preallocated, from 1000 on it is grown by append.  Both must give the same view.  Frames with 999,
// 1000 and 1001 columns -- RESULT rows, RESULT prepared with that many result columns, RESULT prepared with that
// many bind columns; global table spec on and off -- are encoded by the specification encoder; monitor: the
// driver's view equals the logical response (exactly that many columns, each with its name / keyspace / table /
// type, none blank); Coq: a CSpecView case for six of them (view of the spec = driver's report = the model's parse).
// Names are one or two characters and types native so that the Coq terms stay small.

import (
	"fmt"

	"gocqlverif/c04lib"
	"gocqlverif/hlib"
)

func colCountBoundary(o *hlib.Out) {
	meta := func(n int, global bool) c04lib.SMeta {
		m := c04lib.SMeta{Count: n, Global: global}
		if global {
			m.GKS, m.GTab = "k", "t"
		}
		for i := 0; i < n; i++ {
			c := c04lib.SCol{Name: fmt.Sprintf("%c%c", 'a'+i%26, 'a'+(i/26)%26), Type: &c04lib.SType{Kind: c04lib.KNative, ID: 1 + i%16}}
			if !global {
				c.KS, c.Table = "k", "t"
			}
			m.Cols = append(m.Cols, c)
		}
		return m
	}
	small := c04lib.SMeta{Global: true, GKS: "k", GTab: "t", Count: 1, Cols: []c04lib.SCol{{Name: "x", Type: &c04lib.SType{Kind: c04lib.KNative, ID: 9}}}}
	env := &c04lib.Envelope{}
	n := 0
	for _, v := range []int{4, 3} {
		for _, cc := range []int{999, 1000, 1001} {
			for _, global := range []bool{true, false} {
				for kind := 0; kind < 3; kind++ {
					if v == 3 && !(kind == 0 && global) {
						continue // protocol 3: the rows frame only (same code, other prepared layout)
					}
					var resp *c04lib.Response
					var label string
					switch kind {
					case 0:
						label = "rows"
						resp = &c04lib.Response{Op: c04lib.OpResult, Result: c04lib.SResult{Kind: c04lib.RRows, Meta: meta(cc, global)}}
					case 1:
						label = "prepared-result-metadata"
						resp = &c04lib.Response{Op: c04lib.OpResult, Result: c04lib.SResult{Kind: c04lib.RPrepared, ID: []byte{1, 2}, Meta: small, RespMeta: meta(cc, global)}}
					default:
						label = "prepared-bind-metadata"
						resp = &c04lib.Response{Op: c04lib.OpResult, Result: c04lib.SResult{Kind: c04lib.RPrepared, ID: []byte{1, 2}, Meta: meta(cc, global), RespMeta: small}}
					}
					wire := c04lib.EncodeFrame(v, 1, 0, env, resp)
					_, out, herr := pipeline(v, wire)
					input := fmt.Sprintf("protocol %d, %s with %d columns, global table spec %v (%d-byte frame)", v, label, cc, global, len(wire))
					if herr != nil {
						o.Violate(-1, "header-rejected", "", fmt.Sprintf("readHeader rejected a well-formed frame: %v", herr), input)
						continue
					}
					n++
					got := out.Pres(v)
					// Coq cases for six of the frames (a 1000-column view costs coqc several seconds): the three counts
					// for rows, and 1000 columns for rows without global spec and both prepared metadata blocks
					idx := -1
					if v == 4 && ((kind == 0 && global) || cc == 1000 && (kind == 0 || global)) {
						idx = o.Case("column-count-boundary:"+label, true, fmt.Sprintf("CSpecView %d 1 0 %s %s %s", v, env.Coq(), resp.Coq(), got))
					} else {
						o.Count("column-count-boundary:" + label + "(monitor-only)")
					}
					if want := c04lib.Expect(v, env, resp); got != want {
						detail := fmt.Sprintf("the driver's view differs from the frame (view %d bytes, expected %d bytes)", len(got), len(want))
						if out.Class == "ok" {
							var cols int
							switch kind {
							case 0:
								cols = len(out.Frame.Meta.Columns)
							case 1:
								cols = len(out.Frame.RespMeta.Columns)
							default:
								cols = len(out.Frame.ReqMeta.Columns)
							}
							blank := 0
							for _, c := range append(append(out.Frame.Meta.Columns, out.Frame.RespMeta.Columns...), out.Frame.ReqMeta.Columns...) {
								if c.Name == "" && c.TypeInfo == nil {
									blank++
								}
							}
							detail = fmt.Sprintf("the driver reports %d columns (%d of them blank: no name, no type); the frame describes %d", cols, blank, cc)
						} else {
							detail = fmt.Sprintf("driver outcome %s (%s %s); the frame is well-formed", out.Class, out.Err, out.ErrMsg)
						}
						o.Violate(idx, "decoded-view:column-count-boundary", "", detail, input)
					}
				}
			}
		}
	}
	o.Extra["column_count_boundary_frames"] = n
}
