package main

// Responses that arrive back to back on one connection: every caller must see ITS frame.
//
// Conn.recv reads headers and bodies on one goroutine, the callers parse the bodies on theirs: whatever recv
// keeps per connection must not leak from one frame into the decoding of another.  N queries are started
// concurrently on a session with a single pool connection; the scripted node holds all EXECUTEs and then sends
// the N responses in ONE write, shuffled, with headers that differ -- RESULT rows (skip-metadata, tuple columns) /
// RESULT void / ERROR of every code, every second one traced, some with warnings and / or a custom payload, and a
// SCHEMA_CHANGE event (stream -1) in between.  Each caller's view -- rows through SliceMap, Iter.Warnings(),
// Iter.GetCustomPayload(), the trace id handed to the Tracer, the error value -- must equal what the node sent on
// that caller's stream; the reference for the envelope and the error value is a parse of the same body on its
// own (the framer path that the frame-level C04 cases tie to the model: each body is also a CParse case).
// Afterwards more frames are sent on the connection and every retained Iter and every value handed out before is
// checked again: outputs handed to a caller must not change afterwards.

import (
	"bytes"
	"fmt"
	"reflect"
	"sync"
	"time"

	"github.com/gocql/gocql"
	"gocqlverif/c04lib"
	"gocqlverif/hlib"
	"gocqlverif/node"
)

type recTracer struct {
	mu   sync.Mutex
	ids  [][]byte // as handed over
	kept [][]byte // copies made at that moment
}

func (t *recTracer) Trace(id []byte) {
	t.mu.Lock()
	t.ids = append(t.ids, id)
	t.kept = append(t.kept, append([]byte{}, id...))
	t.mu.Unlock()
}

type pipeReq struct {
	stmt   string
	sc     *execScript
	resp   *c04lib.Response // nil: the rows of sc
	env    *c04lib.Envelope
	traced bool
	want   []map[string]interface{} // rows expected (nil for void / error)
	// filled by the node when the EXECUTE arrives
	conn   *node.ServerConn
	stream int
	op     int
	body   []byte
	pos    int // position in the burst
	// observed by the caller
	it        *gocql.Iter
	tracer    *recTracer
	rows      []map[string]interface{}
	rowsErr   error
	warnings  []string
	payload   map[string][]byte
	iterErr   error
	warnKept  []string
	payKept   map[string][]byte
	finished  bool
	describeS string
}

func copyPayload(m map[string][]byte) map[string][]byte {
	if m == nil {
		return nil
	}
	out := make(map[string][]byte, len(m))
	for k, v := range m {
		if v == nil {
			out[k] = nil
		} else {
			out[k] = append([]byte{}, v...)
		}
	}
	return out
}

func samePayload(a, b map[string][]byte) bool {
	if len(a) != len(b) {
		return false
	}
	for k, v := range a {
		w, ok := b[k]
		if !ok || !bytes.Equal(v, w) || (v == nil) != (w == nil) {
			return false
		}
	}
	return true
}

func sameStrings(a, b []string) bool {
	if len(a) != len(b) {
		return false
	}
	for i := range a {
		if a[i] != b[i] {
			return false
		}
	}
	return true
}

func pipelinedViews(o *hlib.Out) {
	r := hlib.NewRng(o.Seed + 9001)
	g := &c04lib.Gen{R: r}
	nat := func(id int) *c04lib.SType { return &c04lib.SType{Kind: c04lib.KNative, ID: id} }
	stmtNo := 0
	rounds, answered, bursts := 0, 0, 0
	nodes := map[int]*execNode{}
	defer func() {
		for _, en := range nodes {
			en.session.Close()
		}
	}()
	for round := 0; round < 6*o.Scale; round++ {
		v := int(r.Pick(4, 4, 3))
		en := nodes[v]
		if en == nil {
			var err error
			en, err = newExecNode(v)
			if err != nil {
				o.Violate(-1, "session-exec", "", fmt.Sprintf("NewSession (protocol %d) against the scripted node failed: %v", v, err), nil)
				continue
			}
			nodes[v] = en
		}
		rounds++
		const N = 12
		reqs := make([]*pipeReq, N)
		bySC := map[*execScript]*pipeReq{}
		for i := range reqs {
			pr := &pipeReq{traced: i%2 == 0, env: &c04lib.Envelope{}}
			if pr.traced {
				pr.env.HasTrace, pr.env.Trace = true, r.Bytes(16)
			}
			if v >= 4 && r.Chance(45) {
				pr.env.HasWarnings, pr.env.Warnings = true, g.Names(3)
			}
			if v >= 4 && r.Chance(45) {
				pr.env.HasPayload = true
				for k := r.Intn(3); k >= 0; k-- {
					pr.env.Payload = append(pr.env.Payload, c04lib.BytesKV{K: g.Name(), V: g.Opt(10)})
				}
			}
			pr.sc = &execScript{v: v}
			switch i % 4 {
			case 3: // ERROR, any code but UNPREPARED (which makes the driver prepare again)
				k := r.Intn(c04lib.XUnprepared)
				pr.resp = g.ResponseOfKind(v, k)
			case 1:
				pr.resp = &c04lib.Response{Op: c04lib.OpResult, Result: c04lib.SResult{Kind: c04lib.RVoid}}
			default:
				m, rows := typedRowSet(r, g, v)
				if r.Bool() {
					t := &c04lib.SType{Kind: c04lib.KTuple, Elems: []*c04lib.SType{nat(3), nat(9)}}
					c := c04lib.SCol{Name: "tp", Type: t}
					if !m.Global {
						c.KS, c.Table = "ks", "tb"
					}
					m.Cols = append(m.Cols, c)
					m.Count = len(m.Cols)
					for ri := range rows {
						cell := c04lib.SCell{IsTuple: true}
						for _, e := range t.Elems {
							cell.Comps = append(cell.Comps, c04lib.OptBytes{Val: g.Value(v, e)})
							if cell.Comps[len(cell.Comps)-1].Val == nil {
								cell.Comps[len(cell.Comps)-1] = c04lib.OptBytes{Null: true}
							}
						}
						rows[ri] = append(rows[ri], cell)
					}
				}
				pr.sc.meta, pr.sc.pages = m, []execPage{{rows: rows}}
				full := (&c04lib.Response{Op: c04lib.OpResult, Result: c04lib.SResult{Kind: c04lib.RRows, Meta: m, Rows: rows}}).EncodeBody(v)
				first := c04lib.Parse(v, 0x80|v, 0, c04lib.OpResult, full)
				want, problem := c04lib.ExpectedMaps(first.Frame.Meta.Columns, &m, rows)
				if first.Class != "ok" || problem != "" {
					// no reference values for some cell: send a void instead
					pr.sc = &execScript{v: v}
					pr.resp = &c04lib.Response{Op: c04lib.OpResult, Result: c04lib.SResult{Kind: c04lib.RVoid}}
				} else {
					pr.want = want
				}
			}
			stmtNo++
			pr.stmt = fmt.Sprintf("SELECT * FROM ks.pipe%d", stmtNo)
			en.add(pr.stmt, pr.sc, r, g)
			reqs[i] = pr
			bySC[pr.sc] = pr
		}
		// the node: hold every EXECUTE of this round, then one write with all responses
		var mu sync.Mutex
		var held []*pipeReq
		released := false
		seed := r.U64()
		release := func() {
			if released || len(held) == 0 {
				return
			}
			released = true
			sr := hlib.NewRng(seed)
			order := append([]*pipeReq{}, held...)
			for i := len(order) - 1; i > 0; i-- {
				j := sr.Intn(i + 1)
				order[i], order[j] = order[j], order[i]
			}
			var burst []byte
			for i, pr := range order {
				pr.pos = i
				burst = append(burst, node.RawFrame(byte(0x80|v), byte(pr.env.Flags()), pr.stream, byte(pr.op), pr.body)...)
				if i == len(order)/2 {
					ev := node.SchemaChangeEvent{Change: "UPDATED", Target: "TABLE", Keyspace: "ks", Name: "tb"}
					_, eb := ev.Encode(v)
					burst = append(burst, node.RawFrame(byte(0x80|v), 0, -1, node.OpEvent, eb)...)
				}
			}
			bursts++
			order[0].conn.WriteRaw(burst)
		}
		en.mu.Lock()
		en.onExecute = func(c *node.ServerConn, req *node.Request, sc *execScript) bool {
			mu.Lock()
			defer mu.Unlock()
			pr := bySC[sc]
			if pr == nil {
				return false
			}
			resp := pr.resp
			if resp == nil {
				resp = sc.rowsResp(0, req.Execute.Params.SkipMetadata)
			}
			pr.conn, pr.stream, pr.op = c, req.Header.Stream, resp.Op
			pr.body = c04lib.EncodeBody(v, pr.env, resp)
			held = append(held, pr)
			if len(held) == N {
				release()
			}
			return true
		}
		en.mu.Unlock()
		go func() { // callers that never arrive must not block the others for ever
			time.Sleep(1500 * time.Millisecond)
			mu.Lock()
			release()
			mu.Unlock()
		}()
		// the callers
		var wg sync.WaitGroup
		for _, pr := range reqs {
			wg.Add(1)
			go func(pr *pipeReq) {
				defer wg.Done()
				defer func() {
					if p := recover(); p != nil {
						pr.rowsErr = fmt.Errorf("panic: %v", p)
						pr.finished = true
					}
				}()
				q := en.session.Query(pr.stmt)
				if pr.traced {
					pr.tracer = &recTracer{}
					q = q.Trace(pr.tracer)
				}
				it := q.Iter()
				pr.it = it
				pr.iterErr = gocql.VerifC04IterErr(it)
				pr.warnings = it.Warnings()
				pr.warnKept = append([]string{}, pr.warnings...)
				pr.payload = it.GetCustomPayload()
				pr.payKept = copyPayload(pr.payload)
				if pr.iterErr == nil {
					pr.rows, pr.rowsErr = it.SliceMap()
				}
				pr.finished = true
			}(pr)
		}
		wg.Wait()
		en.mu.Lock()
		en.onExecute = nil
		en.mu.Unlock()

		// later frames on the same connection, then everything again
		later := &execScript{v: v}
		stmtNo++
		laterStmt := fmt.Sprintf("SELECT * FROM ks.later%d", stmtNo)
		en.add(laterStmt, later, r, g)
		for k := 0; k < 3; k++ {
			if err := en.session.Query(laterStmt).Exec(); err != nil {
				o.Violate(-1, "session-exec", "", fmt.Sprintf("a plain query after the burst failed: %v", err), nil)
			}
		}

		mu.Lock()
		for _, pr := range reqs {
			if pr.body == nil || !pr.finished {
				o.Violate(-1, "pipelined-view", "", fmt.Sprintf("the request did not complete (EXECUTE seen by the node: %v)", pr.body != nil), pr.stmt)
				continue
			}
			answered++
			flags := pr.env.Flags()
			ref := c04lib.Parse(v, 0x80|v, flags, pr.op, pr.body)
			idx := o.Case("pipelined-view", true, fmt.Sprintf("CParse %d %d %d %d %s %s", v, 0x80|v, flags, pr.op, hlib.ZList(pr.body), ref.Pres(v)))
			if ref.Class != "ok" {
				o.Violate(idx, "pipelined-view", "", "the reference parse of a well-formed frame failed: "+ref.ErrMsg, hlib.ZList(pr.body))
				continue
			}
			input := fmt.Sprintf("protocol %d, burst position %d of %d, stream %d, opcode %d, header flags 0x%02x, body %s", v, pr.pos, len(held), pr.stream, pr.op, flags, hlib.ZList(pr.body))
			bad := func(kind, detail string) { o.Violate(idx, kind, "", detail, input) }
			// error value / rows
			// (the error values embed the frame header, whose stream differs from the reference parse: compare the
			// Go type and the model's FError view -- code, message, code-specific fields)
			sameErr := func(a, b error) bool {
				return reflect.TypeOf(a) == reflect.TypeOf(b) && c04lib.ErrView(a) == c04lib.ErrView(b)
			}
			if !sameErr(pr.iterErr, ref.Frame.Err) {
				bad("pipelined-view:error", fmt.Sprintf("the caller got %T %s, its frame encodes %T %s", pr.iterErr, c04lib.ErrView(pr.iterErr), ref.Frame.Err, c04lib.ErrView(ref.Frame.Err)))
			}
			if ref.Frame.Err == nil && pr.iterErr == nil {
				if pr.rowsErr != nil {
					bad("pipelined-view:rows", "SliceMap: "+pr.rowsErr.Error())
				} else if d := c04lib.DiffMaps(pr.rows, pr.want); d != "" {
					bad("pipelined-view:rows", d)
				}
			}
			// envelope: at the time of the call ...
			wantW := ref.Framer.Warnings()
			wantP := ref.Framer.CustomPayload()
			if !sameStrings(pr.warnKept, wantW) {
				bad("pipelined-view:warnings", fmt.Sprintf("Iter.Warnings() = %q, the frame carries %q", pr.warnKept, wantW))
			}
			if !samePayload(pr.payKept, wantP) {
				bad("pipelined-view:payload", fmt.Sprintf("Iter.GetCustomPayload() = %v, the frame carries %v", pr.payKept, wantP))
			}
			var gotTrace [][]byte
			if pr.tracer != nil {
				gotTrace = pr.tracer.kept
			}
			wantTrace := ref.Framer.TraceID()
			switch {
			case pr.traced && (len(gotTrace) != 1 || !bytes.Equal(gotTrace[0], wantTrace)):
				bad("pipelined-view:trace", fmt.Sprintf("the Tracer received %x, the frame carries trace id %x", gotTrace, wantTrace))
			case !pr.traced && len(wantTrace) != 0:
				bad("pipelined-view:trace", "harness: trace id on an untraced request")
			}
			// ... and now, after later frames have arrived on the connection
			if w := pr.it.Warnings(); !sameStrings(w, wantW) || !sameStrings(pr.warnings, wantW) {
				bad("pipelined-view-retained", fmt.Sprintf("after later frames Iter.Warnings() = %q (slice handed out before: %q), the frame carried %q", w, pr.warnings, wantW))
			}
			if p := pr.it.GetCustomPayload(); !samePayload(p, wantP) || !samePayload(pr.payload, wantP) {
				bad("pipelined-view-retained", fmt.Sprintf("after later frames Iter.GetCustomPayload() = %v (map handed out before: %v), the frame carried %v", p, pr.payload, wantP))
			}
			if pr.tracer != nil && len(pr.tracer.ids) == 1 && !bytes.Equal(pr.tracer.ids[0], pr.tracer.kept[0]) {
				bad("pipelined-view-retained", fmt.Sprintf("the trace id slice handed to the Tracer changed afterwards: was %x, now %x", pr.tracer.kept[0], pr.tracer.ids[0]))
			}
			if e := gocql.VerifC04IterErr(pr.it); !sameErr(e, ref.Frame.Err) {
				bad("pipelined-view-retained", fmt.Sprintf("after later frames the Iter's error is %T %s, the frame encodes %T %s", e, c04lib.ErrView(e), ref.Frame.Err, c04lib.ErrView(ref.Frame.Err)))
			}
			if ref.Frame.Err == nil && pr.rowsErr == nil {
				if d := c04lib.DiffMaps(pr.rows, pr.want); d != "" {
					bad("pipelined-view-retained", "after later frames the rows handed out differ: "+d)
				}
			}
			pr.it.Close()
		}
		mu.Unlock()
	}
	o.Extra["pipelined_views"] = fmt.Sprintf("%d rounds, %d bursts in one write, %d responses checked", rounds, bursts, answered)
}
