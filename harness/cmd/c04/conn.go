package main

// The handshake frames as the application sees them: what an Authenticator's callbacks receive when a real
// session is opened against the scripted node (harness/node).
//
// The node announces an authenticator class (AUTHENTICATE), sends 0..3 AUTH_CHALLENGE tokens and an
// AUTH_SUCCESS token (null, empty, or up to a few hundred arbitrary bytes), on every connection of the session,
// optionally with snappy-compressed bodies.  A recording Authenticator keeps what Challenge / Success were given.
// Monitors: each conversation received exactly the announced class and tokens, in order, null as nil and empty
// as empty; the slices handed to the callbacks still hold the same bytes after the session has been used; the
// COMPRESSION option of STARTUP is chosen iff the driver's compressor is in the SUPPORTED list the node sent.
// For the first conversation of each session the frames are also Coq cases: the model's parse_frame on the body
// the node encoded must give the view the callback received.

import (
	"bytes"
	"fmt"
	"io/ioutil"
	"log"
	"sync"
	"time"

	"github.com/gocql/gocql"
	"gocqlverif/c04lib"
	"gocqlverif/hlib"
	"gocqlverif/node"
)

type conv struct {
	class, classKept []byte
	chal, chalKept   [][]byte
	succ, succKept   []byte
	succCalled       int
}

type recAuth struct {
	mu    sync.Mutex
	convs []*conv
}

func keep(b []byte) []byte {
	if b == nil {
		return nil
	}
	return append([]byte{}, b...)
}

func (a *recAuth) Challenge(req []byte) ([]byte, gocql.Authenticator, error) {
	c := &conv{class: req, classKept: keep(req)}
	a.mu.Lock()
	a.convs = append(a.convs, c)
	a.mu.Unlock()
	return []byte("first"), &recChal{a: a, c: c}, nil
}
func (a *recAuth) Success([]byte) error { return nil }

type recChal struct {
	a *recAuth
	c *conv
}

func (r *recChal) Challenge(data []byte) ([]byte, gocql.Authenticator, error) {
	r.a.mu.Lock()
	r.c.chal = append(r.c.chal, data)
	r.c.chalKept = append(r.c.chalKept, keep(data))
	r.a.mu.Unlock()
	return []byte(fmt.Sprintf("answer-%d", len(r.c.chal))), r, nil
}
func (r *recChal) Success(data []byte) error {
	r.a.mu.Lock()
	r.c.succ, r.c.succKept = data, keep(data)
	r.c.succCalled++
	r.a.mu.Unlock()
	return nil
}

func sameTok(a, b []byte) bool { return (a == nil) == (b == nil) && bytes.Equal(a, b) }

func tokStr(b []byte) string {
	if b == nil {
		return "null"
	}
	return fmt.Sprintf("%x", b)
}

func handshakeView(o *hlib.Out) {
	r := hlib.NewRng(o.Seed + 31337)
	token := func() []byte {
		switch r.Intn(5) {
		case 0:
			return nil
		case 1:
			return []byte{}
		case 2:
			return r.Bytes(1 + r.Intn(400))
		}
		return r.Bytes(1 + r.Intn(12))
	}
	classes := []string{"org.apache.cassandra.auth.PasswordAuthenticator", " ", "a", "com.example.Kerberosé世", "x\x00y\xff"}
	sessions, convs := 0, 0
	for i := 0; i < 10*o.Scale; i++ {
		proto := int(r.Pick(3, 4, 4, 5))
		class := classes[r.Intn(len(classes))]
		if r.Chance(30) {
			class = string(r.Bytes(1 + r.Intn(40)))
		}
		var chals [][]byte
		for j := r.Intn(4); j > 0; j-- {
			chals = append(chals, token())
		}
		succ := token()
		useSnappy := r.Chance(50)
		var offered []string
		for _, c := range []string{"lz4", "snappy", "deflate"} {
			if r.Chance(60) {
				offered = append(offered, c)
			}
		}
		input := fmt.Sprintf("proto %d class %q challenges %d success %s snappy %v offered %v", proto, class, len(chals), tokStr(succ), useSnappy, offered)

		n := node.NewNet()
		nd := n.AddNode("10.0.0.1:9042")
		nd.Update(func(cfg *node.Config) {
			cfg.Auth = &node.Auth{Class: class, Challenges: chals, SuccessToken: succ}
			cfg.Supported = map[string][]string{"CQL_VERSION": {"3.4.4"}, "COMPRESSION": offered}
		})
		cfg := gocql.NewCluster("10.0.0.1:9042")
		cfg.Dialer = n.Dialer()
		cfg.ProtoVersion = proto
		cfg.Timeout = 2 * time.Second
		cfg.ConnectTimeout = 2 * time.Second
		cfg.NumConns = 2
		cfg.DisableInitialHostLookup = true
		cfg.Logger = log.New(ioutil.Discard, "", 0)
		ra := &recAuth{}
		cfg.Authenticator = ra
		if useSnappy {
			cfg.Compressor = gocql.SnappyCompressor{}
		}
		s, err := gocql.NewSession(*cfg)
		if err != nil {
			o.Violate(-1, "handshake-not-established", "", fmt.Sprintf("NewSession against a node following the protocol failed: %v", err), input)
			continue
		}
		sessions++
		// use the session, so that read buffers are reused before the retained slices are looked at again
		for q := 0; q < 4; q++ {
			var key string
			if err := s.Query("SELECT key FROM system.local").Scan(&key); err != nil {
				o.Violate(-1, "handshake-not-established", "", fmt.Sprintf("query on the authenticated session failed: %v", err), input)
				break
			}
		}
		// what the node sent, per connection
		wantCompression := false
		for _, c := range offered {
			if c == "snappy" && useSnappy {
				wantCompression = true
			}
		}
		for _, sc := range nd.Conns() {
			so := sc.StartupOptions()
			if so == nil {
				continue
			}
			got, has := so["COMPRESSION"]
			if has != wantCompression || (has && got != "snappy") {
				o.Violate(-1, "startup-compression-choice", "", fmt.Sprintf("SUPPORTED offered %v, compressor snappy=%v, but STARTUP carried COMPRESSION=%q (present=%v)", offered, useSnappy, got, has), input)
			}
		}
		ra.mu.Lock()
		for ci, c := range ra.convs {
			convs++
			idx := -1
			emit := ci == 0
			hver := 0x80 | proto
			if emit {
				_, body := node.Authenticate{Class: class}.Encode(proto)
				idx = o.Case("handshake-view:authenticate", true, fmt.Sprintf("CParse %d %d 0 %d %s (PROk (Build_parsed (FAuthenticate %s) None None None) [])",
					proto, hver, node.OpAuthenticate, hlib.ZList(body), hlib.ZList(c.classKept)))
			}
			if !bytes.Equal(c.classKept, []byte(class)) {
				o.Violate(idx, "auth-view-class", "", fmt.Sprintf("Authenticator.Challenge received class %q, the node announced %q", c.classKept, class), input)
			}
			if len(c.chalKept) != len(chals) {
				o.Violate(idx, "auth-view-challenge", "", fmt.Sprintf("%d challenges delivered, %d sent", len(c.chalKept), len(chals)), input)
			}
			for j := range c.chalKept {
				if emit && j < len(chals) {
					_, body := node.AuthChallenge{Token: chals[j]}.Encode(proto)
					idx = o.Case("handshake-view:challenge", true, fmt.Sprintf("CParse %d %d 0 %d %s (PROk (Build_parsed (FAuthChallenge %s) None None None) [])",
						proto, hver, node.OpAuthChallenge, hlib.ZList(body), c04lib.CoqBytesOrNil(c.chalKept[j])))
				}
				if j < len(chals) && !sameTok(c.chalKept[j], chals[j]) {
					o.Violate(idx, "auth-view-challenge", "", fmt.Sprintf("challenge %d: callback received %s, the node sent %s", j, tokStr(c.chalKept[j]), tokStr(chals[j])), input)
				}
				if !sameTok(c.chal[j], c.chalKept[j]) {
					o.Violate(idx, "auth-view-retained", "", fmt.Sprintf("the slice handed to Challenge (token %d) changed after the call: was %s, now %s", j, tokStr(c.chalKept[j]), tokStr(c.chal[j])), input)
				}
			}
			if emit {
				_, body := node.AuthSuccess{Token: succ}.Encode(proto)
				idx = o.Case("handshake-view:success", true, fmt.Sprintf("CParse %d %d 0 %d %s (PROk (Build_parsed (FAuthSuccess %s) None None None) [])",
					proto, hver, node.OpAuthSuccess, hlib.ZList(body), c04lib.CoqBytesOrNil(c.succKept)))
			}
			if c.succCalled != 1 {
				o.Violate(idx, "auth-view-success", "", fmt.Sprintf("Success called %d times", c.succCalled), input)
			} else if !sameTok(c.succKept, succ) {
				o.Violate(idx, "auth-view-success", "", fmt.Sprintf("Success received %s, the node sent %s", tokStr(c.succKept), tokStr(succ)), input)
			}
			if !sameTok(c.succ, c.succKept) {
				o.Violate(idx, "auth-view-retained", "", fmt.Sprintf("the slice handed to Success changed after the call: was %s, now %s", tokStr(c.succKept), tokStr(c.succ)), input)
			}
			if !bytes.Equal(c.class, c.classKept) {
				o.Violate(idx, "auth-view-retained", "", "the slice handed to the first Challenge (class) changed after the call", input)
			}
		}
		if len(ra.convs) == 0 {
			o.Violate(-1, "auth-view-class", "", "the node demanded authentication on every connection but the Authenticator was never called", input)
		}
		ra.mu.Unlock()
		s.Close()
	}
	o.Extra["handshake_view"] = fmt.Sprintf("%d sessions, %d authentication conversations", sessions, convs)
}
