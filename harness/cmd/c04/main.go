package main

import (
	"bytes"
	"fmt"
	"runtime/debug"

	"github.com/gocql/gocql"
)

func try(proto byte, hdr gocql.VerifC04Header, body []byte) {
	defer func() {
		if r := recover(); r != nil {
			fmt.Printf("PANIC %T %v\n%s\n", r, r, debug.Stack())
		}
	}()
	f := gocql.VerifC04NewFramer(nil, proto)
	if err := f.ReadFrame(bytes.NewReader(body), hdr); err != nil {
		fmt.Println("readFrame err", err)
		return
	}
	fr, err := f.ParseFrame()
	fmt.Printf("%+v %v rest=%v\n", fr, err, f.Rest())
}

func main() {
	// EVENT STATUS_CHANGE with inet size 16 and 2 bytes
	body := []byte{0, 13}
	body = append(body, "STATUS_CHANGE"...)
	body = append(body, 0, 2, 'U', 'P', 16, 1, 2)
	try(4, gocql.VerifC04Header{Version: 0x84, Op: 0x0c, Length: len(body), Stream: -1}, body)
	// prepared pk count -5
	b2 := []byte{0, 0, 0, 4, 0, 1, 'x', 0, 0, 0, 0, 0, 0, 0, 0, 0xff, 0xff, 0xff, 0xfb}
	try(4, gocql.VerifC04Header{Version: 0x84, Op: 0x08, Length: len(b2), Stream: 1}, b2)
}
