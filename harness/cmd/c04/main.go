// C04 harness: logical responses are generated, encoded by an encoder written from the protocol
// specification (c04lib/wire.go), and fed to the real driver: readHeader, readFrame, parseFrame, and for
// rows Iter.Scan with recording destinations / Iter.RowData.  What the driver reports is
//   - compared in Go with what the logical response says (the property monitor), and
//   - emitted as Coq correspondence cases: the Coq specification encoder must produce the same bytes,
//     Spec.view must equal the driver's report, and the Coq model of the parsers must agree with the
//     driver on header, frame, leftovers and every scanned cell.
package main

import (
	"bytes"
	"compress/gzip"
	"fmt"
	"io"
	"os"
	"reflect"

	"github.com/gocql/gocql"
	"gocqlverif/c04lib"
	"gocqlverif/hlib"
)

type zeroReader struct{ n int64 }

func (z *zeroReader) Read(p []byte) (int, error) {
	if z.n <= 0 {
		return 0, io.EOF
	}
	n := int64(len(p))
	if n > z.n {
		n = z.n
	}
	for i := int64(0); i < n; i++ {
		p[i] = 0
	}
	z.n -= n
	return int(n), nil
}

func coqHeader(h gocql.VerifC04Header) string {
	return fmt.Sprintf("(Build_header %d %d %s %d %s)", h.Version, h.Flags, hlib.Z(int64(h.Stream)), h.Op, hlib.Z(int64(h.Length)))
}

// full pipeline on wire bytes: readHeader, readFrame, parseFrame
func pipeline(proto int, wire []byte) (h gocql.VerifC04Header, out c04lib.Outcome, herr error) {
	rd := bytes.NewReader(wire)
	h, herr = gocql.VerifC04ReadHeader(rd, make([]byte, 9))
	if herr != nil {
		return
	}
	body := wire[len(wire)-rd.Len():]
	out = c04lib.Parse(proto, int(h.Version), int(h.Flags), int(h.Op), body[:min(len(body), max(h.Length, 0))])
	return
}

// stypeOf: the logical type a parsed TypeInfo stands for (native and collection types)
func stypeOf(t gocql.TypeInfo) *c04lib.SType {
	switch x := t.(type) {
	case gocql.CollectionType:
		switch x.Type() {
		case gocql.TypeList:
			return &c04lib.SType{Kind: c04lib.KList, Elems: []*c04lib.SType{stypeOf(x.Elem)}}
		case gocql.TypeSet:
			return &c04lib.SType{Kind: c04lib.KSet, Elems: []*c04lib.SType{stypeOf(x.Elem)}}
		default:
			return &c04lib.SType{Kind: c04lib.KMap, Elems: []*c04lib.SType{stypeOf(x.Key), stypeOf(x.Elem)}}
		}
	case gocql.NativeType:
		if x.Type() == gocql.TypeCustom {
			return &c04lib.SType{Kind: c04lib.KCustom, Class: x.Custom()}
		}
		return &c04lib.SType{Kind: c04lib.KNative, ID: int(x.Type())}
	}
	return nil
}

// recordedFrame: an anchor that did not come from this driver or this harness -- the RESULT Rows body
// recorded from a Cassandra node in /repo/testdata/frames/bench_parse_result.gz (system.schema_columns).
// What the driver reads out of it (metadata, every cell) is turned back into a logical response and
// re-encoded by the harness's specification encoder: the bytes must be the recorded ones; the Coq
// specification encoder and the model are then checked on the same response.
func recordedFrame(o *hlib.Out) {
	repo := os.Getenv("VERIF_REPO")
	if repo == "" {
		repo = "/repo"
	}
	f, err := os.Open(repo + "/testdata/frames/bench_parse_result.gz")
	if err != nil {
		o.Count("recorded-frame-missing")
		return
	}
	defer f.Close()
	zr, err := gzip.NewReader(f)
	if err != nil {
		o.Count("recorded-frame-missing")
		return
	}
	body, err := io.ReadAll(zr)
	if err != nil {
		o.Count("recorded-frame-missing")
		return
	}
	out := c04lib.Parse(4, 0x84, 0, c04lib.OpResult, body)
	if out.Class != "ok" || out.Frame.Kind != "rows" {
		o.Violate(-1, "recorded-frame", "", "the recorded rows frame is not parsed as a rows frame: "+out.Class+" "+out.ErrMsg, nil)
		return
	}
	fm := out.Frame.Meta
	m := c04lib.SMeta{Count: fm.ColCount, HasPaging: fm.Flags&2 != 0, Paging: fm.PagingState, NoMeta: fm.Flags&4 != 0}
	if fm.Flags&1 != 0 && len(fm.Columns) > 0 {
		m.Global, m.GKS, m.GTab = true, fm.Columns[0].Keyspace, fm.Columns[0].Table
	}
	for _, c := range fm.Columns {
		st := stypeOf(c.TypeInfo)
		if st == nil {
			o.Count("recorded-frame-unsupported-type")
			return
		}
		sc := c04lib.SCol{Name: c.Name, Type: st}
		if !m.Global {
			sc.KS, sc.Table = c.Keyspace, c.Table
		}
		m.Cols = append(m.Cols, sc)
	}
	nd := fm.ActualColCount
	scans := c04lib.Scans(out.Framer.Iter(out.Frame), nd, out.Frame.NumRows+1)
	var rows [][]c04lib.SCell
	for _, sc := range scans {
		if sc.Kind != "row" {
			break
		}
		row := make([]c04lib.SCell, len(sc.Cells))
		for i, c := range sc.Cells {
			row[i] = c04lib.SCell{Val: c04lib.OptBytes{Null: c.IsNil, Val: c.Data}}
		}
		rows = append(rows, row)
	}
	resp := &c04lib.Response{Op: c04lib.OpResult, Result: c04lib.SResult{Kind: c04lib.RRows, Meta: m, Rows: rows}}
	env := &c04lib.Envelope{}
	re := resp.EncodeBody(4)
	if !bytes.Equal(re, body) || len(rows) != out.Frame.NumRows {
		i := 0
		for i < len(re) && i < len(body) && re[i] == body[i] {
			i++
		}
		o.Violate(-1, "recorded-frame", "", fmt.Sprintf("re-encoding what the driver read from the recorded frame differs from the recording at byte %d (%d rows read of %d; %d bytes against %d)", i, len(rows), out.Frame.NumRows, len(re), len(body)), nil)
		return
	}
	pre := fmt.Sprintf("4 1 0 %s %s", env.Coq(), resp.Coq())
	wire := c04lib.EncodeFrame(4, 1, 0, env, resp)
	o.Case("recorded-frame:spec-enc", true, fmt.Sprintf("CSpecEnc %s %s", pre, hlib.ZList(wire)))
	o.Case("recorded-frame:spec-view", true, fmt.Sprintf("CSpecView %s %s", pre, out.Pres(4)))
	o.Case("recorded-frame:scan", true, fmt.Sprintf("CScan 4 132 0 8 %s %d %s %s", hlib.ZList(body), nd, hlib.Nat(out.Frame.NumRows+1), c04lib.CoqScans(scans)))
	o.Extra["recorded_frame_rows"] = len(rows)
	o.Extra["recorded_frame_bytes"] = len(body)
}

// typedRowSet: 1-4 columns (the first a blob; blobs, text, numbers, collections of blobs, tuples, UDTs) and 3-5 rows
// whose cells are well-formed values of their column types, blobs of decreasing and mixed lengths.
func typedRowSet(r *hlib.Rng, g *c04lib.Gen, v int) (c04lib.SMeta, [][]c04lib.SCell) {
	nat := func(id int) *c04lib.SType { return &c04lib.SType{Kind: c04lib.KNative, ID: id} }
	menu := func() *c04lib.SType {
		switch r.Intn(12) {
		case 0, 1, 2:
			return nat(3) // blob
		case 3:
			return nat(13)
		case 4:
			return nat(int(r.Pick(2, 4, 7, 8, 9, 11, 12, 14, 16, 19, 20)))
		case 5:
			return &c04lib.SType{Kind: c04lib.KList, Elems: []*c04lib.SType{nat(3)}}
		case 6:
			return &c04lib.SType{Kind: c04lib.KSet, Elems: []*c04lib.SType{nat(int(r.Pick(9, 13, 3)))}}
		case 7:
			return &c04lib.SType{Kind: c04lib.KMap, Elems: []*c04lib.SType{nat(int(r.Pick(13, 9, 12))), nat(int(r.Pick(3, 13, 9)))}}
		case 8:
			return &c04lib.SType{Kind: c04lib.KTuple, Elems: []*c04lib.SType{nat(3), nat(int(r.Pick(9, 13)))}}
		case 9:
			return &c04lib.SType{Kind: c04lib.KUDT, KS: "k", Name: "u", Elems: []*c04lib.SType{nat(3), nat(9)}, FieldNames: []string{"a", "b"}}
		case 10:
			return &c04lib.SType{Kind: c04lib.KList, Elems: []*c04lib.SType{{Kind: c04lib.KList, Elems: []*c04lib.SType{nat(3)}}}}
		}
		return nat(int(r.Pick(1, 10, 13)))
	}
	blobLens := [][]int{{11, 3, 2}, {8, 8, 1, 5}, {5, 0, 4, -1, 3}, {1, 2, 3}, {16, 15, 14, 13}, {4, -1, 4}}
	ncols := 1 + r.Intn(4)
	m := c04lib.SMeta{Count: ncols, Global: r.Bool(), GKS: "ks", GTab: "tb"}
	for i := 0; i < ncols; i++ {
		t := menu()
		if i == 0 {
			t = nat(3)
		}
		c := c04lib.SCol{Name: fmt.Sprintf("c%d", i), Type: t}
		if !m.Global {
			c.KS, c.Table = "ks", "tb"
		}
		m.Cols = append(m.Cols, c)
	}
	pattern := blobLens[r.Intn(len(blobLens))]
	nrows := len(pattern)
	rows := make([][]c04lib.SCell, nrows)
	opt := func(b []byte) c04lib.OptBytes {
		if b == nil {
			return c04lib.OptBytes{Null: true}
		}
		return c04lib.OptBytes{Val: b}
	}
	for ri := range rows {
		for _, c := range m.Cols {
			switch {
			case c.Type.Kind == c04lib.KNative && c.Type.ID == 3:
				n := pattern[(ri+len(c.Name))%len(pattern)]
				if c.Name == "c0" {
					n = pattern[ri]
				}
				if n < 0 {
					rows[ri] = append(rows[ri], c04lib.SCell{Val: c04lib.OptBytes{Null: true}})
				} else {
					rows[ri] = append(rows[ri], c04lib.SCell{Val: c04lib.OptBytes{Val: r.Bytes(n)}})
				}
			case c.Type.Kind == c04lib.KTuple:
				cell := c04lib.SCell{IsTuple: true}
				if r.Chance(10) {
					cell.Null = true
				} else {
					for _, e := range c.Type.Elems {
						cell.Comps = append(cell.Comps, opt(g.Value(v, e)))
					}
				}
				rows[ri] = append(rows[ri], cell)
			default:
				rows[ri] = append(rows[ri], c04lib.SCell{Val: opt(g.Value(v, c.Type))})
			}
		}
	}
	return m, rows
}

// typedRows: rows whose cells are well-formed values of their column types, several rows with blobs (and
// collections of blobs) of decreasing and mixed lengths, consumed through SliceMap, through MapScan and through
// Scan into fresh canonical destinations.  Every value handed to the caller is retained and compared with the
// frame only after iteration has finished: what the caller was given must not change afterwards.
func typedRows(o *hlib.Out, g *c04lib.Gen) {
	r := o.Rng
	for it := 0; it < 14*o.Scale; it++ {
		v := int(r.Pick(2, 3, 4, 4, 5))
		m, rows := typedRowSet(r, g, v)
		nrows := len(rows)
		resp := &c04lib.Response{Op: c04lib.OpResult, Result: c04lib.SResult{Kind: c04lib.RRows, Meta: m, Rows: rows}}
		body := resp.EncodeBody(v)
		parse := func() c04lib.Outcome { return c04lib.Parse(v, 0x80|v, 0, c04lib.OpResult, body) }
		first := parse()
		if first.Class != "ok" || first.Frame.Kind != "rows" {
			o.Violate(-1, "typed-rows-parse", "", "a well-formed rows frame was not parsed: "+first.Class+" "+first.ErrMsg, hlib.ZList(body))
			continue
		}
		cols := first.Frame.Meta.Columns
		want, problem := c04lib.ExpectedMaps(cols, &m, rows)
		if problem != "" {
			if len(problem) > 5 && problem[:5] == "VALUE" {
				o.Violate(-1, "value-decode", "", problem, hlib.ZList(body))
			} else {
				o.Count("typed-rows-skipped")
			}
			continue
		}
		o.Count("typed-rows")
		report := func(kind, diff string) {
			if diff != "" {
				o.Violate(-1, kind, "", diff+fmt.Sprintf(" (protocol %d, %d rows, columns %s)", v, nrows, m.Coq()), hlib.ZList(body))
			}
		}
		guard := func(kind string, f func()) {
			defer func() {
				if p := recover(); p != nil {
					o.Violate(-1, kind, "", fmt.Sprintf("panic on a well-formed rows frame: %v", p), hlib.ZList(body))
				}
			}()
			f()
		}
		// SliceMap: the complete result
		guard("slicemap-values", func() {
			p := parse()
			got, err := p.Framer.Iter(p.Frame).SliceMap()
			if err != nil {
				report("slicemap-values", "SliceMap returned an error: "+err.Error())
				return
			}
			report("slicemap-values", c04lib.DiffMaps(got, want))
		})
		// MapScan: a new map per row, all of them kept until the end
		guard("mapscan-values", func() {
			p := parse()
			iter := p.Framer.Iter(p.Frame)
			var got []map[string]interface{}
			for {
				mm := map[string]interface{}{}
				if !iter.MapScan(mm) {
					break
				}
				got = append(got, mm)
			}
			report("mapscan-values", c04lib.DiffMaps(got, want))
		})
		// Scan into fresh canonical destinations, dereferenced only after the last row
		guard("scan-values", func() {
			p := parse()
			iter := p.Framer.Iter(p.Frame)
			var names [][]string
			var dests [][]interface{}
			for {
				rd, err := iter.RowData()
				if err != nil {
					report("scan-values", "RowData: "+err.Error())
					return
				}
				if !iter.Scan(rd.Values...) {
					break
				}
				names = append(names, rd.Columns)
				dests = append(dests, rd.Values)
			}
			var got []map[string]interface{}
			for i := range dests {
				mm := map[string]interface{}{}
				for j, d := range dests[i] {
					mm[names[i][j]] = reflectIndirect(d)
				}
				got = append(got, mm)
			}
			report("scan-values", c04lib.DiffMaps(got, want))
		})
	}
}

func reflectIndirect(p interface{}) interface{} {
	return reflect.Indirect(reflect.ValueOf(p)).Interface()
}

func min(a, b int) int {
	if a < b {
		return a
	}
	return b
}
func max(a, b int) int {
	if a > b {
		return a
	}
	return b
}

func main() {
	o := hlib.Init("C04")
	g := &c04lib.Gen{R: o.Rng}
	r := o.Rng
	o.Rule = "logical responses of all 25 families x protocol versions 1-5 x envelope flags (tracing, warnings, custom payload), " +
		"metadata flag combinations, type trees to depth 4, 0..4 (and 1000+) columns, 0..3 rows with null cells and short/null tuples; " +
		"encoded by the harness's specification encoder; distinct = distinct Coq case term; non-trivial = the body is non-empty " +
		"(every kind except READY and RESULT void without prefixes)"

	doResponse := func(v int, resp *c04lib.Response, env *c04lib.Envelope, label string) {
		stream := int(int16(r.U64()))
		if v <= 2 {
			stream = int(int8(stream))
		}
		if r.Chance(10) {
			stream = int(r.Pick(0, -1, 1, 127, -128))
		}
		extra := 0
		if v == 5 && r.Chance(50) {
			extra = 0x10 // beta flag
		}
		wire := c04lib.EncodeFrame(v, stream, extra, env, resp)
		nontriv := len(wire) > 9
		pre := fmt.Sprintf("%d %s %d %s %s", v, hlib.Z(int64(stream)), extra, env.Coq(), resp.Coq())
		o.Case("spec-enc:"+label, nontriv, fmt.Sprintf("CSpecEnc %s %s", pre, hlib.ZList(wire)))

		h, out, herr := pipeline(v, wire)
		if herr != nil {
			o.Violate(-1, "header-rejected", "", fmt.Sprintf("readHeader rejected a well-formed frame: %v", herr), hlib.ZList(wire))
			return
		}
		idx := o.Case("spec-view:"+label, nontriv, fmt.Sprintf("CSpecView %s %s", pre, out.Pres(v)))
		hs := 9
		if v <= 2 {
			hs = 8
		}
		if int(h.Version) != 0x80|v || int(h.Flags) != env.Flags()+extra || h.Stream != stream || int(h.Op) != resp.Op || h.Length != len(wire)-hs {
			o.Violate(idx, "header-fields", "", fmt.Sprintf("header %+v for version %d flags %d stream %d op %d length %d", h, v, env.Flags()+extra, stream, resp.Op, len(wire)-hs), hlib.ZList(wire))
		}
		want := c04lib.Expect(v, env, resp)
		if got := out.Pres(v); got != want {
			detail := fmt.Sprintf("driver reports %s; the frame says %s", got, want)
			if out.Class != "ok" {
				detail = fmt.Sprintf("driver outcome %s (%s %s %+v); the frame says %s", out.Class, out.Err, out.ErrMsg, out.Panic, want)
			}
			o.Violate(idx, "decoded-view:"+label, "", detail, hlib.ZList(wire))
		}
		if out.Class != "ok" || out.Frame.Kind != "rows" {
			return
		}
		// rows: Scan with recording destinations; RowData column names
		res := &resp.Result
		body := wire[hs:]
		if !res.Meta.NoMeta {
			nd := res.Meta.ScanWidth()
			k := len(res.Rows) + 2
			it := out.Framer.Iter(out.Frame)
			names, npanic := c04lib.RowDataOutcome(it)
			if npanic != nil {
				o.Violate(-1, "rowdata-panic", "", fmt.Sprintf("Iter.RowData panicked on a well-formed rows frame: %s in %s", npanic.Value, npanic.Func), hlib.ZList(wire))
			}
			scans := c04lib.Scans(it, nd, k)
			sidx := o.Case("scan:"+label, len(res.Rows) > 0, fmt.Sprintf("CScan %d %d %d %d %s %d %s %s", v, h.Version, h.Flags, h.Op,
				hlib.ZList(body), nd, hlib.Nat(k), c04lib.CoqScans(scans)))
			for i, row := range res.Rows {
				want := c04lib.ExpectRow(&res.Meta, row)
				if i >= len(scans) || scans[i].Coq() != want {
					got := "nothing"
					if i < len(scans) {
						got = scans[i].Coq()
					}
					o.Violate(sidx, "scan-cells", "", fmt.Sprintf("row %d: Scan delivered %s; the frame says %s", i, got, want), hlib.ZList(wire))
					break
				}
			}
			if len(scans) != k || scans[len(res.Rows)].Coq() != "(SFalse None)" {
				o.Violate(sidx, "scan-end", "", fmt.Sprintf("after %d rows Scan did not end cleanly: %s", len(res.Rows), c04lib.CoqScans(scans)), hlib.ZList(wire))
			}
			// the same rows through the Scanner API
			{
				o2 := c04lib.Parse(v, int(h.Version), int(h.Flags), int(h.Op), body)
				ss := c04lib.ScannerSteps(o2.Framer.Iter(o2.Frame), nd, k)
				scidx := o.Case("scanner:"+label, len(res.Rows) > 0, fmt.Sprintf("CScanner %d %d %d %d %s %d %s %s", v, h.Version, h.Flags, h.Op,
					hlib.ZList(body), nd, hlib.Nat(k), c04lib.CoqScans(ss)))
				for i, row := range res.Rows {
					want := c04lib.ExpectRow(&res.Meta, row)
					if i >= len(ss) || ss[i].Coq() != want {
						got := "nothing"
						if i < len(ss) {
							got = ss[i].Coq()
						}
						o.Violate(scidx, "scanner-cells", "", fmt.Sprintf("row %d: Scanner delivered %s; the frame says %s", i, got, want), hlib.ZList(wire))
						break
					}
				}
			}
			if env.Flags() == 0 && (npanic != nil || r.Chance(50)) {
				o.Case("names", nd > 0, fmt.Sprintf("CNames %d %s %s", v, hlib.ZList(body), names))
			}
			// a wrong number of destinations is an error, not a crash
			if r.Chance(30) {
				it2 := c04lib.Parse(v, int(h.Version), int(h.Flags), int(h.Op), body)
				sc := c04lib.Scans(it2.Framer.Iter(it2.Frame), nd+1, 2)
				o.Case("scan-wrong-count", true, fmt.Sprintf("CScan %d %d %d %d %s %d %s %s", v, h.Version, h.Flags, h.Op,
					hlib.ZList(body), nd+1, hlib.Nat(2), c04lib.CoqScans(sc)))
			}
		}
	}

	reps := 2 * o.Scale
	for rep := 0; rep < reps; rep++ {
		for v := 1; v <= 5; v++ {
			for kind := 0; kind < c04lib.NKinds; kind++ {
				resp := g.ResponseOfKind(v, kind)
				doResponse(v, resp, g.Envelope(v), resp.Describe())
			}
		}
	}

	// systematic: every metadata flag combination x version, two columns, one a tuple
	for v := 1; v <= 5; v++ {
		for flags := 0; flags < 8; flags++ {
			m := c04lib.SMeta{Count: 2, Global: flags&1 != 0, GKS: "ks", GTab: "tb", HasPaging: flags&2 != 0, Paging: r.Bytes(3), NoMeta: flags&4 != 0}
			if !m.NoMeta {
				m.Cols = []c04lib.SCol{{KS: "k1", Table: "t1", Name: "a", Type: g.Type(1)},
					{KS: "k2", Table: "t2", Name: "b", Type: &c04lib.SType{Kind: c04lib.KTuple, Elems: []*c04lib.SType{g.Type(0), g.Type(1)}}}}
			}
			resp := &c04lib.Response{Op: c04lib.OpResult, Result: c04lib.SResult{Kind: c04lib.RRows, Meta: m, Rows: g.Rows(&m, 2)}}
			doResponse(v, resp, &c04lib.Envelope{}, "rows-flags")
			pm := m
			pm.NoMeta = false
			if pm.Cols == nil {
				pm.Cols = []c04lib.SCol{{KS: "k1", Table: "t1", Name: "a", Type: g.Type(1)}, {KS: "k2", Table: "t2", Name: "b", Type: g.Type(2)}}
			}
			resp = &c04lib.Response{Op: c04lib.OpResult, Result: c04lib.SResult{Kind: c04lib.RPrepared, ID: r.Bytes(8), Meta: pm, RespMeta: m, PK: []int{1, 0}}}
			doResponse(v, resp, &c04lib.Envelope{}, "prepared-flags")
		}
	}

	// systematic: deep type trees (depth 4) in one column
	for i := 0; i < 10*o.Scale; i++ {
		v := 1 + r.Intn(5)
		m := c04lib.SMeta{Count: 1, Cols: []c04lib.SCol{{KS: "k", Table: "t", Name: g.Name(), Type: g.Type(4)}}}
		resp := &c04lib.Response{Op: c04lib.OpResult, Result: c04lib.SResult{Kind: c04lib.RRows, Meta: m, Rows: g.Rows(&m, 1)}}
		doResponse(v, resp, g.Envelope(v), "rows-deep-type")
	}

	// skip-metadata: columns from a PREPARED response, rows from a rows frame without metadata
	for i := 0; i < 10*o.Scale; i++ {
		v := 2 + r.Intn(4)
		rm := g.Meta(1+r.Intn(3), 2, false)
		prep := &c04lib.Response{Op: c04lib.OpResult, Result: c04lib.SResult{Kind: c04lib.RPrepared, ID: r.Bytes(8), Meta: g.Meta(r.Intn(3), 1, false), RespMeta: rm}}
		rowsMeta := c04lib.SMeta{NoMeta: true, Count: len(rm.Cols), HasPaging: r.Bool(), Paging: r.Bytes(4)}
		rows := g.Rows(&rm, 1+r.Intn(3))
		rowsResp := &c04lib.Response{Op: c04lib.OpResult, Result: c04lib.SResult{Kind: c04lib.RRows, Meta: rowsMeta, Rows: rows}}
		pb := prep.EncodeBody(v)
		rb := rowsResp.EncodeBody(v)
		po := c04lib.Parse(v, 0x80|v, 0, c04lib.OpResult, pb)
		ro := c04lib.Parse(v, 0x80|v, 0, c04lib.OpResult, rb)
		if po.Class != "ok" || ro.Class != "ok" {
			o.Violate(-1, "skip-meta-parse", "", fmt.Sprintf("prepared %s rows %s", po.Class, ro.Class), nil)
			continue
		}
		it := ro.Framer.IterSkipMeta(ro.Frame, po.Frame)
		nd := rm.ScanWidth()
		k := len(rows) + 1
		scans := c04lib.Scans(it, nd, k)
		idx := o.Case("scan-skip-meta", true, fmt.Sprintf("CScanSkip %d %s %s %d %s %s", v, hlib.ZList(pb), hlib.ZList(rb), nd, hlib.Nat(k), c04lib.CoqScans(scans)))
		for j, row := range rows {
			if want := c04lib.ExpectRow(&rm, row); j >= len(scans) || scans[j].Coq() != want {
				o.Violate(idx, "scan-cells-skip-meta", "", fmt.Sprintf("row %d differs from %s", j, want), nil)
				break
			}
		}
		if !bytes.Equal(it.PageState(), rowsMeta.PagingOrNil()) && !(len(it.PageState()) == 0 && len(rowsMeta.PagingOrNil()) == 0) {
			o.Violate(idx, "skip-meta-paging", "", fmt.Sprintf("paging state %x want %x", it.PageState(), rowsMeta.PagingOrNil()), nil)
		}
	}

	// readHeader: every version byte class, every truncation
	for vb := 0; vb < 256; vb += 1 {
		if o.Scale == 1 && vb&0x7f > 8 && vb%16 != 0 {
			continue
		}
		full := append([]byte{byte(vb)}, r.Bytes(10)...)
		for cut := 0; cut <= 10; cut++ {
			if o.Scale == 1 && vb&0x7f > 6 && cut != 0 && cut != 9 {
				continue
			}
			s := full[:cut]
			rd := bytes.NewReader(s)
			h, err := gocql.VerifC04ReadHeader(rd, make([]byte, 9))
			impl := ""
			if err != nil {
				impl = "(HErr " + c04lib.ErrClass(err) + ")"
			} else {
				impl = fmt.Sprintf("(HOk %s %s)", coqHeader(h), hlib.ZList(s[len(s)-rd.Len():]))
			}
			o.Case("header", cut > 0, fmt.Sprintf("CHeader %s %s", hlib.ZList(s), impl))
		}
	}

	// readFrame: declared length against available bytes, compression flag, the size limit
	for i := 0; i < 40*o.Scale; i++ {
		avail := r.Intn(40)
		length := avail + int(r.Pick(0, 0, 0, -1, 1, 5, int64(-avail), int64(-avail-1), -1000))
		flags := int(r.Pick(0, 0, 0, 1, 2, 3, 0x1f))
		s := r.Bytes(avail)
		f := gocql.VerifC04NewFramer(nil, byte(1+r.Intn(5)))
		rd := bytes.NewReader(s)
		err := f.ReadFrame(rd, gocql.VerifC04Header{Version: 0x84, Flags: byte(flags), Length: length})
		impl := ""
		if err != nil {
			impl = "(Err " + c04lib.ErrClass(err) + ")"
		} else {
			impl = fmt.Sprintf("(Ok (%s, %s))", hlib.ZList(f.Rest()), hlib.ZList(s[len(s)-rd.Len():]))
		}
		o.Case("read-frame", true, fmt.Sprintf("CReadFrame %s %d %s %s", hlib.Z(int64(length)), flags, hlib.ZList(s), impl))
	}
	for _, c := range []struct{ length, avail int64 }{
		{gocql.VerifC04MaxFrameSize + 1, gocql.VerifC04MaxFrameSize + 1}, {gocql.VerifC04MaxFrameSize + 1, gocql.VerifC04MaxFrameSize + 5},
		{gocql.VerifC04MaxFrameSize + 1, 100}, {2147483647, 0}} {
		f := gocql.VerifC04NewFramer(nil, 4)
		err := f.ReadFrame(&zeroReader{n: c.avail}, gocql.VerifC04Header{Version: 0x84, Length: int(c.length)})
		if err == nil {
			o.Violate(-1, "read-frame-big", "", fmt.Sprintf("length %d with %d available accepted", c.length, c.avail), nil)
			continue
		}
		o.Case("read-frame-big", true, fmt.Sprintf("CReadFrameBig %d 0 %d %s", c.length, c.avail, c04lib.ErrClass(err)))
	}

	recordedFrame(o)
	if o.Only < 0 {
		typedRows(o, g)
	}
	handshakeView(o)
	sessionRows(o, g)
	pipelinedViews(o)
	udtStructs(o)
	colCountBoundary(o)

	o.Finish("From GocqlV Require Import Lib.Base C04.Model C04.Spec C04.Corr.", "C04.Corr.case", "C04.Corr.run")
}
