package main

// UDT cells scanned into Go structs that map only SOME of the fields.
//
// A UDT value is a sequence of [bytes], one per field, in declaration order; a destination struct may have a
// field for any subset of them (by `cql:"name"` tag or by Go field name).  Skipping an unmapped field must still
// consume its bytes: for every subset of the fields of a generated UDT (5 fields of mixed types, one of them
// itself a UDT, one a list), with and without tags, the cell is scanned through the real Iter.Scan into a struct
// type built for that subset and every mapped field must equal a decode of THAT field's bytes on their own.
// Contexts: a UDT column, list<frozen<udt>> into a slice of structs, tuple<int, udt> (two destinations); values
// with null fields and values that stop early (a UDT value may omit trailing fields).

import (
	"fmt"
	"reflect"

	"gocqlverif/c04lib"
	"gocqlverif/hlib"
)

type ufield struct {
	name  string
	t     *c04lib.SType
	inner *udtSpec // the field is itself a UDT
}

type udtSpec struct {
	name   string
	fields []ufield
}

func (u *udtSpec) stype() *c04lib.SType {
	t := &c04lib.SType{Kind: c04lib.KUDT, KS: "ks", Name: u.name}
	for _, f := range u.fields {
		ft := f.t
		if f.inner != nil {
			ft = f.inner.stype()
		}
		t.Elems = append(t.Elems, ft)
		t.FieldNames = append(t.FieldNames, f.name)
	}
	return t
}

// uval: a generated UDT value as a tree: per field its bytes (nil = null or absent) and, for UDT fields, the subtree
type uval struct {
	data   []byte
	fields [][]byte
	inner  []*uval
}

func (u *udtSpec) value(r *hlib.Rng, g *c04lib.Gen, v int, allowShort bool) *uval {
	out := &uval{fields: make([][]byte, len(u.fields)), inner: make([]*uval, len(u.fields))}
	n := len(u.fields)
	if allowShort && r.Chance(20) {
		n = r.Intn(n + 1)
	}
	for i := 0; i < n; i++ {
		f := u.fields[i]
		var fb []byte
		switch {
		case r.Chance(15): // null
		case f.inner != nil:
			out.inner[i] = f.inner.value(r, g, v, allowShort)
			fb = out.inner[i].data
		default:
			fb = g.Value(v, f.t)
			if fb == nil && r.Bool() {
				fb = nil
			}
		}
		out.fields[i] = fb
		if fb == nil {
			out.data = append(out.data, 0xff, 0xff, 0xff, 0xff)
		} else {
			out.data = append(append(out.data, c04lib.EncInt(len(fb))...), fb...)
		}
	}
	if out.data == nil {
		out.data = []byte{}
	}
	return out
}

// goType of a field: what a decode of the field on its own yields (int, string, []byte, []int, ...)
func fieldGoType(v int, f ufield, mask uint, tags bool) (reflect.Type, bool) {
	if f.inner != nil {
		return f.inner.structType(v, mask, tags)
	}
	x, err := c04lib.FreshDecode(c04lib.TypeInfoOf(v, f.t), nil)
	if err != nil || x == nil {
		return nil, false
	}
	return reflect.TypeOf(x), true
}

// structType: a struct with a field for every i with bit i of mask set (nested UDTs use the same mask)
func (u *udtSpec) structType(v int, mask uint, tags bool) (reflect.Type, bool) {
	var sf []reflect.StructField
	for i, f := range u.fields {
		if mask&(1<<uint(i)) == 0 {
			continue
		}
		ft, ok := fieldGoType(v, f, mask, tags)
		if !ok {
			return nil, false
		}
		fld := reflect.StructField{Name: f.name, Type: ft}
		if tags {
			fld.Name = fmt.Sprintf("X%d", i)
			fld.Tag = reflect.StructTag(fmt.Sprintf(`cql:"%s"`, f.name))
		}
		sf = append(sf, fld)
	}
	return reflect.StructOf(sf), true
}

// check: every mapped field of dst equals a decode of that field's own bytes
func (u *udtSpec) check(v int, dst reflect.Value, mask uint, tags bool, val *uval) string {
	idx := 0
	for i, f := range u.fields {
		if mask&(1<<uint(i)) == 0 {
			continue
		}
		got := dst.Field(idx)
		idx++
		var fb []byte
		var in *uval
		if val != nil {
			fb, in = val.fields[i], val.inner[i]
		}
		if f.inner != nil {
			if in == nil { // null or absent: the zero struct
				if !got.IsZero() {
					return fmt.Sprintf("field %s (a null / absent UDT) holds %v", f.name, got.Interface())
				}
				continue
			}
			if d := f.inner.check(v, got, mask, tags, in); d != "" {
				return "field " + f.name + ": " + d
			}
			continue
		}
		want, err := c04lib.FreshDecode(c04lib.TypeInfoOf(v, f.t), fb)
		if err != nil {
			return ""
		}
		if !c04lib.Eqv(got.Interface(), want) {
			return fmt.Sprintf("field %s holds %#v, its bytes %x decode to %#v", f.name, got.Interface(), fb, want)
		}
	}
	return ""
}

func udtStructs(o *hlib.Out) {
	r := hlib.NewRng(o.Seed + 5150)
	g := &c04lib.Gen{R: r}
	nat := func(id int) *c04lib.SType { return &c04lib.SType{Kind: c04lib.KNative, ID: id} }
	leafMenu := []*c04lib.SType{nat(9), nat(13), nat(3), nat(2), nat(4), nat(19), nat(20), nat(7), nat(12)}
	leaf := func() *c04lib.SType { return leafMenu[r.Intn(len(leafMenu))] }
	scans, skipped := 0, 0
	for round := 0; round < 3*o.Scale; round++ {
		v := int(r.Pick(3, 4, 5))
		inner := &udtSpec{name: "in", fields: []ufield{{name: "A", t: leaf()}, {name: "B", t: leaf()}, {name: "C", t: leaf()}, {name: "D", t: leaf()}, {name: "E", t: leaf()}}}
		u := &udtSpec{name: "u", fields: []ufield{{name: "A", t: nat(9)}, {name: "B", t: nat(13)}, {name: "C", t: nat(9)}, {name: "D", inner: inner},
			{name: "E", t: &c04lib.SType{Kind: c04lib.KList, Elems: []*c04lib.SType{nat(9)}}}}}
		if round%3 == 1 {
			u.fields[0].t, u.fields[2].t = leaf(), leaf()
		}
		if round%3 == 2 { // the same type everywhere: a shifted field decodes without an error
			for i := range u.fields[:3] {
				u.fields[i].t = nat(13)
			}
			for i := range inner.fields {
				inner.fields[i].t = nat(9)
			}
		}
		ut := u.stype()
		for mask := uint(0); mask < 32; mask++ {
			for _, tags := range []bool{false, true} {
				st, ok := u.structType(v, mask, tags)
				if !ok {
					skipped++
					continue
				}
				for ctx := 0; ctx < 3; ctx++ {
					// the column type and the cell
					vals := []*uval{u.value(r, g, v, true)}
					var colType *c04lib.SType
					var cell c04lib.SCell
					switch ctx {
					case 0:
						colType = ut
						cell = c04lib.SCell{Val: c04lib.OptBytes{Val: vals[0].data}}
					case 1:
						colType = &c04lib.SType{Kind: c04lib.KList, Elems: []*c04lib.SType{ut}}
						vals = append(vals, u.value(r, g, v, true), u.value(r, g, v, false))
						b := c04lib.EncInt(len(vals))
						for _, x := range vals {
							b = append(append(b, c04lib.EncInt(len(x.data))...), x.data...)
						}
						cell = c04lib.SCell{Val: c04lib.OptBytes{Val: b}}
					case 2:
						colType = &c04lib.SType{Kind: c04lib.KTuple, Elems: []*c04lib.SType{nat(9), ut}}
						cell = c04lib.SCell{IsTuple: true, Comps: []c04lib.OptBytes{{Val: []byte{0, 0, 0, 42}}, {Val: vals[0].data}}}
					}
					m := c04lib.SMeta{Global: true, GKS: "ks", GTab: "tb", Count: 1, Cols: []c04lib.SCol{{Name: "c", Type: colType}}}
					body := (&c04lib.Response{Op: c04lib.OpResult, Result: c04lib.SResult{Kind: c04lib.RRows, Meta: m, Rows: [][]c04lib.SCell{{cell}}}}).EncodeBody(v)
					p := c04lib.Parse(v, 0x80|v, 0, c04lib.OpResult, body)
					if p.Class != "ok" {
						o.Violate(-1, "typed-rows-parse", "", "a well-formed rows frame was not parsed: "+p.ErrMsg, hlib.ZList(body))
						continue
					}
					it := p.Framer.Iter(p.Frame)
					input := fmt.Sprintf("protocol %d, column %s, destination struct %v, body %s", v, m.Coq(), st, hlib.ZList(body))
					scans++
					o.Count("udt-struct-scan")
					func() {
						defer func() {
							if pn := recover(); pn != nil {
								o.Violate(-1, "udt-struct-fields", "", fmt.Sprintf("panic while scanning a well-formed UDT into a struct: %v", pn), input)
							}
						}()
						var structs []reflect.Value
						var okScan bool
						switch ctx {
						case 0:
							d := reflect.New(st)
							okScan = it.Scan(d.Interface())
							structs = []reflect.Value{d.Elem()}
						case 1:
							d := reflect.New(reflect.SliceOf(st))
							okScan = it.Scan(d.Interface())
							for i := 0; i < d.Elem().Len(); i++ {
								structs = append(structs, d.Elem().Index(i))
							}
							if okScan && len(structs) != len(vals) {
								o.Violate(-1, "udt-struct-fields", "", fmt.Sprintf("%d list elements delivered, the frame has %d", len(structs), len(vals)), input)
								return
							}
						case 2:
							var first int
							d := reflect.New(st)
							okScan = it.Scan(&first, d.Interface())
							structs = []reflect.Value{d.Elem()}
							if okScan && first != 42 {
								o.Violate(-1, "udt-struct-fields", "", fmt.Sprintf("the tuple's first component is %d, the frame says 42", first), input)
							}
						}
						if !okScan {
							o.Violate(-1, "udt-struct-fields", "", fmt.Sprintf("Scan of a well-formed UDT cell failed: %v", it.Close()), input)
							return
						}
						for i, sv := range structs {
							if d := u.check(v, sv, mask, tags, vals[i]); d != "" {
								o.Violate(-1, "udt-struct-fields", "", fmt.Sprintf("value %d: %s (the struct maps the fields with mask %05b of A..E, tags=%v)", i, d, mask, tags), input)
								break
							}
						}
					}()
				}
			}
		}
	}
	o.Extra["udt_struct_scans"] = fmt.Sprintf("%d scans into partial structs (%d struct types skipped)", scans, skipped)
}
