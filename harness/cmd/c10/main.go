// C10 harness: builds token rings and keyspace metadata, runs the real newTokenRing / getStrategy /
// replicaMap / replicasFor / GetHostForToken of package gocql (through verif_shim_c10.go, panics
// recovered) and records (input, implementation output) as Coq correspondence cases, plus property
// monitors evaluated on the implementation's own outputs against an oracle written here from
// Cassandra's SimpleStrategy / NetworkTopologyStrategy.calculateNaturalEndpoints.
package main

import (
	"fmt"
	"math/big"
	"net"
	"sort"
	"strings"

	"github.com/gocql/gocql"
	"gocqlverif/hlib"
)

// ---- scenario ----------------------------------------------------------------------------------

type hostD struct {
	DC, Rack string
	Addr     uint32
	Tokens   []string
}

type scenario struct {
	Part    int // 0 murmur3, 1 ordered, 2 random
	PName   string
	Hosts   []hostD
	Class   string
	OptKeys []string      // sorted
	OptVals []interface{} // parallel to OptKeys
	Lookups []string
	RunMap  bool
}

func (s *scenario) opts() map[string]interface{} {
	m := make(map[string]interface{}, len(s.OptKeys))
	for i, k := range s.OptKeys {
		m[k] = s.OptVals[i]
	}
	return m
}

func (s *scenario) json() interface{} {
	vals := make([]string, len(s.OptVals))
	for i, v := range s.OptVals {
		vals[i] = fmt.Sprintf("%T:%v", v, v)
	}
	return map[string]interface{}{"partitioner": s.PName, "hosts": s.Hosts, "class": s.Class, "opt_keys": s.OptKeys, "opt_vals": vals, "lookups": s.Lookups}
}

// ---- token order of the three partitioners, written here from their definition -----------------

func numLess(a, b string) bool {
	x, ok1 := new(big.Int).SetString(a, 10)
	y, ok2 := new(big.Int).SetString(b, 10)
	if !ok1 || !ok2 {
		panic("numLess on a non-number")
	}
	return x.Cmp(y) < 0
}

func lessFor(part int) func(a, b string) bool {
	if part == 1 {
		return func(a, b string) bool { return a < b }
	}
	return numLess
}

// ---- Coq printing -------------------------------------------------------------------------------

func cs(s string) string { return hlib.ZList([]byte(s)) }

func ints(xs []int) string {
	ss := make([]string, len(xs))
	for i, x := range xs {
		ss[i] = hlib.Z(int64(x))
	}
	return "[" + strings.Join(ss, ";") + "]"
}

func optvalTerm(v interface{}) string {
	switch x := v.(type) {
	case int:
		return "OVInt " + hlib.Z(int64(x))
	case string:
		return "OVStr " + cs(x)
	}
	return "OVOther"
}

func optsTerm(s *scenario) string {
	items := make([]string, len(s.OptKeys))
	for i, k := range s.OptKeys {
		items[i] = "(" + cs(k) + ", " + optvalTerm(s.OptVals[i]) + ")"
	}
	return hlib.List(items)
}

func stratTerm(kind, rf int, dcs map[string]int) string {
	switch kind {
	case 1:
		return "(Some (SSimple " + hlib.Z(int64(rf)) + "))"
	case 2:
		keys := make([]string, 0, len(dcs))
		for k := range dcs {
			keys = append(keys, k)
		}
		sort.Strings(keys)
		items := make([]string, len(keys))
		for i, k := range keys {
			items[i] = "(" + cs(k) + ", " + hlib.Z(int64(dcs[k])) + ")"
		}
		return "(Some (SNts " + hlib.List(items) + "))"
	}
	return "None"
}

func panicCode(msg string) int {
	switch {
	case strings.HasPrefix(msg, "replica overflow"):
		return 1
	case strings.HasPrefix(msg, "no replicas for token"):
		return 2
	case strings.HasPrefix(msg, "first replica is not the primary"):
		return 3
	case strings.HasPrefix(msg, "token map different size"):
		return 4
	}
	return 99
}

var partCtor = []string{"PMurmur", "POrdered", "PRandom"}

func ringTerm(s *scenario, res *gocql.VerifC10Result) string {
	hosts := make([]string, len(s.Hosts))
	for i, h := range s.Hosts {
		toks := make([]string, len(h.Tokens))
		for j, t := range h.Tokens {
			toks[j] = cs(t)
		}
		hosts[i] = fmt.Sprintf("(%d, mkInfo %s %s %d, %s)", i, cs(h.DC), cs(h.Rack), h.Addr, hlib.List(toks))
	}
	ring := make([]string, len(res.Ring))
	for i, e := range res.Ring {
		ring[i] = "(" + cs(e.Token) + ", " + hlib.Z(int64(e.Hosts[0])) + ")"
	}
	out := "ONoStrategy"
	switch {
	case res.StrategyKind == 0:
	case res.Panic != "":
		out = fmt.Sprintf("(OPanic %d)", panicCode(res.Panic))
	case !res.HaveMap:
		out = "ONotRun"
	default:
		ents := make([]string, len(res.Map))
		for i, e := range res.Map {
			ents[i] = "(" + cs(e.Token) + ", " + ints(e.Hosts) + ")"
		}
		out = "(OMap " + hlib.List(ents) + ")"
	}
	lks := make([]string, len(res.Lookups))
	for i, l := range res.Lookups {
		rf := "None"
		if l.Found {
			rf = "(Some (" + cs(l.EndToken) + ", " + ints(l.Hosts) + "))"
		}
		ow := "None"
		if l.Owner != -1 {
			ow = "(Some (" + hlib.Z(int64(l.Owner)) + ", " + cs(l.OwnerToken) + "))"
		}
		lks[i] = "(" + cs(s.Lookups[i]) + ", " + rf + ", " + ow + ")"
	}
	return fmt.Sprintf("CRing %s %s %s %s %s %s %s %s", partCtor[s.Part], hlib.List(hosts), hlib.List(ring), cs(s.Class), optsTerm(s),
		stratTerm(res.StrategyKind, res.SimpleRF, res.NtsDCs), out, hlib.List(lks))
}

// ---- the oracle: Cassandra's placement, written from Cassandra's algorithms --------------------

type ringEnt struct {
	Tok  string
	Host int
}

// TokenMetadata.sortedTokens + tokenToEndpointMap
func sortedRing(s *scenario) []ringEnt {
	var r []ringEnt
	for i, h := range s.Hosts {
		for _, t := range h.Tokens {
			r = append(r, ringEnt{t, i})
		}
	}
	less := lessFor(s.Part)
	sort.SliceStable(r, func(i, j int) bool { return less(r[i].Tok, r[j].Tok) })
	return r
}

// TokenMetadata.ringIterator(sortedTokens, start, false): from the first token >= start, once around
func ringWalk(ring []ringEnt, less func(a, b string) bool, t string) []int {
	k := len(ring)
	for i := range ring {
		if !less(ring[i].Tok, t) {
			k = i
			break
		}
	}
	if k == len(ring) {
		k = 0
	}
	out := make([]int, 0, len(ring))
	for i := range ring {
		out = append(out, ring[(k+i)%len(ring)].Host)
	}
	return out
}

type linkedSet struct {
	order []int
	in    map[int]bool
}

func newSet() *linkedSet { return &linkedSet{in: map[int]bool{}} }
func (s *linkedSet) add(x int) bool {
	if s.in[x] {
		return false
	}
	s.in[x] = true
	s.order = append(s.order, x)
	return true
}
func (s *linkedSet) size() int { return len(s.order) }

// SimpleStrategy.calculateNaturalEndpoints
func cassSimple(walk []int, rf int) []int {
	eps := newSet()
	for _, ep := range walk {
		if eps.size() >= rf {
			break
		}
		eps.add(ep)
	}
	return append([]int{}, eps.order...)
}

type topology struct {
	endpoints map[string]map[int]bool    // dc -> token-owning endpoints
	racks     map[string]map[string]bool // dc -> racks of those endpoints
}

func topologyOf(s *scenario) topology {
	tp := topology{map[string]map[int]bool{}, map[string]map[string]bool{}}
	for i, h := range s.Hosts {
		if len(h.Tokens) == 0 {
			continue // Cassandra's topology holds token owners only
		}
		if tp.endpoints[h.DC] == nil {
			tp.endpoints[h.DC] = map[int]bool{}
			tp.racks[h.DC] = map[string]bool{}
		}
		tp.endpoints[h.DC][i] = true
		tp.racks[h.DC][h.Rack] = true
	}
	return tp
}

func minInt(a, b int) int {
	if a < b {
		return a
	}
	return b
}

// NetworkTopologyStrategy.calculateNaturalEndpoints as in Cassandra 1.2 - 2.2 (skipped endpoints kept per DC
// and appended once every rack of the DC has been used)
func cassNTS22(s *scenario, tp topology, walk []int, dcs map[string]int) []int {
	replicas := newSet()
	dcReplicas := map[string]*linkedSet{}
	seenRacks := map[string]map[string]bool{}
	skipped := map[string]*linkedSet{}
	for dc := range dcs {
		dcReplicas[dc] = newSet()
		seenRacks[dc] = map[string]bool{}
		skipped[dc] = newSet()
	}
	sufficient := func(dc string) bool {
		return dcReplicas[dc].size() >= minInt(len(tp.endpoints[dc]), dcs[dc])
	}
	allSufficient := func() bool {
		for dc := range dcs {
			if !sufficient(dc) {
				return false
			}
		}
		return true
	}
	for _, ep := range walk {
		if allSufficient() {
			break
		}
		dc := s.Hosts[ep].DC
		if _, ok := dcs[dc]; !ok || sufficient(dc) {
			continue
		}
		if len(seenRacks[dc]) == len(tp.racks[dc]) {
			dcReplicas[dc].add(ep)
			replicas.add(ep)
			continue
		}
		rack := s.Hosts[ep].Rack
		if seenRacks[dc][rack] {
			skipped[dc].add(ep)
			continue
		}
		dcReplicas[dc].add(ep)
		replicas.add(ep)
		seenRacks[dc][rack] = true
		if len(seenRacks[dc]) == len(tp.racks[dc]) {
			for _, sk := range skipped[dc].order {
				if sufficient(dc) {
					break
				}
				dcReplicas[dc].add(sk)
				replicas.add(sk)
			}
		}
	}
	return append([]int{}, replicas.order...)
}

// NetworkTopologyStrategy.calculateNaturalEndpoints as in Cassandra 3.x / 4.x (DatacenterEndpoints with
// rfLeft and acceptableRackRepeats): used as a set, the order of its list may differ from 2.2's
func cassNTS40(s *scenario, tp topology, walk []int, dcs map[string]int) []int {
	replicas := newSet()
	type locT struct{ dc, rack string }
	seenRacks := map[locT]bool{}
	type dcEnd struct{ rfLeft, repeats int }
	dcm := map[string]*dcEnd{}
	toFill := 0
	for dc, rf := range dcs {
		nodes := len(tp.endpoints[dc])
		if rf <= 0 || nodes <= 0 {
			continue
		}
		dcm[dc] = &dcEnd{minInt(rf, nodes), rf - len(tp.racks[dc])}
		toFill++
	}
	for _, ep := range walk {
		if toFill <= 0 {
			break
		}
		loc := locT{s.Hosts[ep].DC, s.Hosts[ep].Rack}
		d := dcm[loc.dc]
		if d == nil || d.rfLeft == 0 {
			continue
		}
		if !seenRacks[loc] {
			seenRacks[loc] = true
			d.rfLeft--
			replicas.add(ep)
			if d.rfLeft == 0 {
				toFill--
			}
			continue
		}
		if d.repeats <= 0 {
			continue
		}
		if !replicas.add(ep) {
			continue
		}
		d.repeats--
		d.rfLeft--
		if d.rfLeft == 0 {
			toFill--
		}
	}
	return append([]int{}, replicas.order...)
}

func sameSet(a, b []int) bool {
	if len(a) != len(b) {
		return false
	}
	x := append([]int{}, a...)
	y := append([]int{}, b...)
	sort.Ints(x)
	sort.Ints(y)
	for i := range x {
		if x[i] != y[i] {
			return false
		}
	}
	return true
}

func sameList(a, b []int) bool {
	if len(a) != len(b) {
		return false
	}
	for i := range a {
		if a[i] != b[i] {
			return false
		}
	}
	return true
}

func dupHost(l []int) (int, bool) {
	seen := map[int]bool{}
	for _, h := range l {
		if seen[h] {
			return h, true
		}
		seen[h] = true
	}
	return -1, false
}

// ---- monitors ---------------------------------------------------------------------------------

// violate records a monitor failure; at most 40 per (monitor, finding) are kept with their input, all are counted
var violationCounts = map[string]int{}

func violate(o *hlib.Out, idx int, kind, finding, detail string, input interface{}) {
	key := kind + "/" + finding
	violationCounts[key]++
	if violationCounts[key] <= 40 {
		o.Violate(idx, kind, finding, detail, input)
	}
}

// inScope: the property's quantifier (every node owns at least one token, no token owned twice,
// every token string a token of the partitioner)
func inScope(s *scenario, wellFormedTokens bool) bool {
	if !wellFormedTokens {
		return false
	}
	seen := map[string]bool{}
	for _, h := range s.Hosts {
		if len(h.Tokens) == 0 {
			return false
		}
		for _, t := range h.Tokens {
			key := t
			if s.Part != 1 {
				v, _ := new(big.Int).SetString(t, 10)
				key = v.String()
			}
			if seen[key] {
				return false
			}
			seen[key] = true
		}
	}
	return true
}

func monitors(o *hlib.Out, idx int, s *scenario, res *gocql.VerifC10Result, scoped bool) {
	if res.StrategyKind == 0 || !s.RunMap {
		return
	}
	nts := res.StrategyKind == 2
	distinct := 0
	for _, h := range s.Hosts {
		if len(h.Tokens) > 0 {
			distinct++
		}
	}
	// never a panic
	if res.Panic != "" {
		violate(o, idx, "no-panic", "", "replicaMap panicked: "+res.Panic, s.json())
		return
	}
	// never a node twice, never more than the distinct nodes
	for _, e := range res.Map {
		if h, dup := dupHost(e.Hosts); dup {
			violate(o, idx, "no-duplicate", "", fmt.Sprintf("token %q: replicas %v contain host %d twice", e.Token, e.Hosts, h), s.json())
			return
		}
		if len(e.Hosts) > distinct {
			violate(o, idx, "at-most-distinct-nodes", "", fmt.Sprintf("token %q: %d replicas, %d distinct nodes", e.Token, len(e.Hosts), distinct), s.json())
			return
		}
	}
	if !scoped {
		return
	}
	// = Cassandra's placement, for every ring token and every lookup token
	less := lessFor(s.Part)
	ring := sortedRing(s)
	tp := topologyOf(s)
	place := func(t string) (exact []int, alt []int) {
		walk := ringWalk(ring, less, t)
		if !nts {
			r := cassSimple(walk, res.SimpleRF)
			return r, r
		}
		return cassNTS22(s, tp, walk, res.NtsDCs), cassNTS40(s, tp, walk, res.NtsDCs)
	}
	holds := func(h int) bool { // does the owner's DC hold replicas?
		if !nts {
			return res.SimpleRF > 0
		}
		return res.NtsDCs[s.Hosts[h].DC] > 0
	}
	checkOne := func(what, t string, got []int, found bool) bool {
		exact, alt := place(t)
		if !found {
			got = nil
		}
		owner := ringWalk(ring, less, t)[0]
		if !sameList(got, exact) || !sameSet(got, alt) {
			violate(o, idx, "equals-cassandra-placement", "", fmt.Sprintf("%s %q: driver %v, Cassandra 2.2 order %v, Cassandra 4.0 set %v", what, t, got, exact, alt), s.json())
			return false
		}
		if holds(owner) && (len(got) == 0 || got[0] != owner) {
			violate(o, idx, "owner-first", "", fmt.Sprintf("%s %q: owner %d is not first in %v", what, t, owner, got), s.json())
			return false
		}
		if nts {
			perDC := map[string]int{}
			for _, h := range got {
				perDC[s.Hosts[h].DC]++
			}
			for dc, c := range perDC {
				if c > minInt(res.NtsDCs[dc], len(tp.endpoints[dc])) {
					violate(o, idx, "per-dc-count", "", fmt.Sprintf("%s %q: %d replicas in %s", what, t, c, dc), s.json())
					return false
				}
			}
		} else if len(got) != minInt(res.SimpleRF, distinct) {
			violate(o, idx, "simple-count", "", fmt.Sprintf("%s %q: %d replicas, rf %d, %d nodes", what, t, len(got), res.SimpleRF, distinct), s.json())
			return false
		}
		return true
	}
	inMap := map[string]bool{}
	for _, e := range res.Map {
		inMap[e.Token] = true
		if !checkOne("ring token", e.Token, e.Hosts, true) {
			return
		}
	}
	for _, e := range res.Ring { // a ring token without an entry must belong to a DC without replicas
		if !inMap[e.Token] && holds(e.Hosts[0]) {
			violate(o, idx, "entry-missing", "", fmt.Sprintf("ring token %q of host %d has no replica-map entry", e.Token, e.Hosts[0]), s.json())
			return
		}
	}
	for _, l := range res.Lookups {
		// GetHostForToken: the owner of the range (previous token, t], wrapping
		if len(ring) > 0 {
			if owner := ringWalk(ring, less, l.Token)[0]; l.Owner != owner {
				violate(o, idx, "token-owner", "", fmt.Sprintf("lookup token %q: GetHostForToken gave host %d, the owner is %d", l.Token, l.Owner, owner), s.json())
				return
			}
		}
		if !checkOne("lookup token", l.Token, l.Hosts, l.Found) {
			return
		}
	}
}

// ---- generators ---------------------------------------------------------------------------------

var partNames = [][]string{
	{"org.apache.cassandra.dht.Murmur3Partitioner", "Murmur3Partitioner"},
	{"org.apache.cassandra.dht.ByteOrderedPartitioner", "OrderedPartitioner"},
	{"org.apache.cassandra.dht.RandomPartitioner", "RandomPartitioner"},
}

var two127 = new(big.Int).Lsh(big.NewInt(1), 127)

func genToken(r *hlib.Rng, part int, small bool) string {
	switch part {
	case 0:
		if small {
			return fmt.Sprint(int64(r.Intn(61)) - 30)
		}
		switch r.Intn(8) {
		case 0:
			return fmt.Sprint(r.Pick(-9223372036854775808, 9223372036854775807, -9223372036854775807, 9223372036854775806, 0, -1, 1))
		default:
			return fmt.Sprint(r.I64())
		}
	case 1:
		n := 1 + r.Intn(4)
		if small {
			n = 1 + r.Intn(2)
		}
		b := make([]byte, n)
		for i := range b {
			if small {
				b[i] = "ab"[r.Intn(2)]
			} else {
				b[i] = []byte{0, 1, 'a', 'b', 'z', 0x7f, 0x80, 0xff, 'A', '0'}[r.Intn(10)]
			}
		}
		return string(b)
	default:
		if small {
			return fmt.Sprint(r.Intn(40))
		}
		switch r.Intn(8) {
		case 0:
			return []string{"-1", "0", "1", two127.String(), new(big.Int).Sub(two127, big.NewInt(1)).String()}[r.Intn(5)]
		default:
			v := new(big.Int).SetBytes(r.Bytes(16))
			v.Rsh(v, 1)
			return v.String()
		}
	}
}

// neighbours of a ring token: equal, just below, just above
func nearToken(r *hlib.Rng, part int, t string) string {
	d := r.Intn(3) - 1
	if part == 1 {
		switch d {
		case -1:
			if len(t) > 0 {
				return t[:len(t)-1]
			}
			return t
		case 1:
			return t + "\x00"
		}
		return t
	}
	v, ok := new(big.Int).SetString(t, 10)
	if !ok {
		return t
	}
	v.Add(v, big.NewInt(int64(d)))
	if part == 0 && !v.IsInt64() {
		return t
	}
	return v.String()
}

type genOpts struct {
	maxHosts, maxTokens, maxDCs, maxRacks int
	malformed                             bool
}

func genScenario(r *hlib.Rng, g genOpts) *scenario {
	s := &scenario{RunMap: true}
	s.Part = r.Intn(3)
	s.PName = partNames[s.Part][r.Intn(2)]
	nh := 1 + r.Intn(g.maxHosts)
	if r.Chance(55) {
		nh = 1 + r.Intn(minInt(5, g.maxHosts))
	}
	nd := 1 + r.Intn(g.maxDCs)
	small := r.Chance(55) // short tokens keep the Coq terms small; the rest spans the partitioner's full range
	vn := 1 + r.Intn(g.maxTokens)
	if r.Chance(45) {
		vn = 1
	}
	uneven := r.Bool()
	dcName := func(i int) string { return fmt.Sprintf("dc%d", i+1) }
	racksIn := make([]int, nd)
	for i := range racksIn {
		racksIn[i] = 1 + r.Intn(g.maxRacks)
	}
	used := map[string]bool{}
	for i := 0; i < nh; i++ {
		d := r.Intn(nd)
		if uneven && r.Chance(50) {
			d = 0
		}
		rk := r.Intn(racksIn[d])
		if uneven && r.Chance(40) {
			rk = 0
		}
		h := hostD{DC: dcName(d), Rack: fmt.Sprintf("r%d", rk+1), Addr: 0x0a000001 + uint32(i)}
		if g.malformed && r.Chance(8) {
			h.Addr = 0x0a000001 // shared connect address
		}
		nt := vn
		if vn > 1 && r.Chance(30) {
			nt = 1 + r.Intn(vn)
		}
		if g.malformed && r.Chance(10) {
			nt = 0
		}
		for j := 0; j < nt; j++ {
			t := genToken(r, s.Part, small)
			if g.malformed && r.Chance(6) {
				if s.Part == 0 {
					t = []string{"", "abc", "99999999999999999999", "-99999999999999999999", "+7", "-0", "007", "1_000", "12x", "9223372036854775808", "-", "+", "184467440737095516159", "99999999999999999999x"}[r.Intn(14)]
				} else if s.Part == 2 {
					t = []string{"+7", "-0", "007", "340282366920938463463374607431768211456", "-5"}[r.Intn(5)]
				} else {
					t = ""
				}
			} else if !(g.malformed && r.Chance(5)) {
				for k := 0; used[t] && k < 50; k++ { // the quantifier has every token owned once
					t = genToken(r, s.Part, small && k < 10)
				}
			}
			used[t] = true
			h.Tokens = append(h.Tokens, t)
		}
		s.Hosts = append(s.Hosts, h)
	}

	// keyspace
	rfPick := func() int {
		switch r.Intn(10) {
		case 0:
			return 0
		case 1, 2, 3:
			return 1
		case 4, 5:
			return 2
		case 6, 7:
			return 3
		case 8:
			return 5
		}
		return nh + 1 + r.Intn(3)
	}
	rfVal := func(rf int) interface{} {
		if r.Chance(60) {
			return fmt.Sprint(rf) // system_schema.keyspaces.replication is map<text,text>
		}
		return rf
	}
	opts := map[string]interface{}{}
	switch k := r.Intn(20); {
	case k < 7:
		s.Class = []string{"org.apache.cassandra.locator.SimpleStrategy", "SimpleStrategy"}[r.Intn(2)]
		opts["class"] = s.Class
		opts["replication_factor"] = rfVal(rfPick())
	case k < 18:
		s.Class = []string{"org.apache.cassandra.locator.NetworkTopologyStrategy", "NetworkTopologyStrategy", "NetworkTopologyStrategy"}[r.Intn(3)]
		opts["class"] = s.Class
		mode := r.Intn(10)
		for d := 0; d < nd; d++ {
			if mode >= 7 && r.Chance(40) {
				continue // a ring DC the keyspace does not name
			}
			opts[dcName(d)] = rfVal(rfPick())
		}
		if mode == 5 || mode == 6 || mode == 9 || (mode == 8 && r.Bool()) {
			opts[fmt.Sprintf("dc%d", nd+1+r.Intn(2))] = rfVal(rfPick()) // a DC the ring does not contain
			if r.Chance(25) {
				opts["dc9"] = rfVal(rfPick())
			}
		}
		if g.malformed && r.Chance(30) {
			opts[[]string{"dcX", "replication_factor", "dc1"}[r.Intn(3)]] = []interface{}{"abc", "-1", "", int64(2), 2.0, nil, "+2", "1e1", -3, " 2"}[r.Intn(10)]
		}
	case k < 19:
		s.Class = []string{"org.apache.cassandra.locator.LocalStrategy", "org.apache.cassandra.locator.EverywhereStrategy", "", "LocalStrategy"}[r.Intn(4)]
		opts["class"] = s.Class
	default:
		s.Class = []string{"SimpleStrategyNetworkTopologyStrategy", "xNetworkTopologyStrategySimpleStrategy", "org.apache.cassandra.locator.SimpleStrategy"}[r.Intn(3)]
		opts["class"] = s.Class
		opts["dc1"] = rfVal(rfPick())
		if r.Bool() {
			opts["replication_factor"] = []interface{}{"2", 1, "x", int64(1), nil, "-1", -1}[r.Intn(7)]
		}
	}
	for k := range opts {
		s.OptKeys = append(s.OptKeys, k)
	}
	sort.Strings(s.OptKeys)
	for _, k := range s.OptKeys {
		s.OptVals = append(s.OptVals, opts[k])
	}

	// lookup tokens: equal to / next to ring tokens, the extremes, anywhere
	var all []string
	for _, h := range s.Hosts {
		all = append(all, h.Tokens...)
	}
	nl := 3 + r.Intn(4)
	for i := 0; i < nl; i++ {
		switch k := r.Intn(10); {
		case k < 5 && len(all) > 0:
			s.Lookups = append(s.Lookups, nearToken(r, s.Part, all[r.Intn(len(all))]))
		case k < 7:
			s.Lookups = append(s.Lookups, [][]string{
				{"-9223372036854775808", "9223372036854775807", "0"},
				{"", "\xff\xff\xff\xff\xff", "\x00"},
				{"-1", "0", two127.String()}}[s.Part][r.Intn(3)])
		default:
			s.Lookups = append(s.Lookups, genToken(r, s.Part, small))
		}
	}
	if g.malformed && s.Part == 0 && r.Chance(20) {
		s.Lookups = append(s.Lookups, []string{"", "zz", "99999999999999999999"}[r.Intn(3)])
	}
	return s
}

func wellFormed(s *scenario) bool {
	ok := func(t string) bool {
		if s.Part == 1 {
			return true
		}
		v, good := new(big.Int).SetString(t, 10)
		if !good || strings.ContainsAny(t, "_") {
			return false
		}
		if s.Part == 0 && !v.IsInt64() {
			return false
		}
		return true
	}
	for _, h := range s.Hosts {
		for _, t := range h.Tokens {
			if !ok(t) {
				return false
			}
		}
	}
	for _, t := range s.Lookups {
		if !ok(t) {
			return false
		}
	}
	return true
}

func runScenario(o *hlib.Out, kind string, s *scenario) {
	hosts := make([]gocql.VerifC10Host, len(s.Hosts))
	for i, h := range s.Hosts {
		a := h.Addr
		hosts[i] = gocql.VerifC10Host{ID: fmt.Sprintf("h%d", i), DC: h.DC, Rack: h.Rack, Addr: net.IPv4(byte(a>>24), byte(a>>16), byte(a>>8), byte(a)), Tokens: h.Tokens}
	}
	ks := &gocql.KeyspaceMetadata{Name: "ks", StrategyClass: s.Class, StrategyOptions: s.opts()}
	res := gocql.VerifC10Run(s.PName, hosts, ks, s.Lookups, s.RunMap)
	if res.PartitionerErr {
		violate(o, -1, "partitioner-rejected", "", "newTokenRing rejected "+s.PName, s.json())
		return
	}
	wf := wellFormed(s)
	scoped := inScope(s, wf)
	idx := -1
	if !o.Search {
		nontrivial := len(s.Hosts) >= 2 && res.StrategyKind != 0 && len(res.Map) > 0
		k := kind
		if res.StrategyKind == 1 {
			k += "/simple"
		} else if res.StrategyKind == 2 {
			k += "/nts"
		} else {
			k += "/nil"
		}
		idx = o.Case(k, nontrivial, ringTerm(s, &res))
	} else {
		o.Count(kind)
	}
	if scoped {
		o.Count("in-quantifier")
	}
	if res.Panic != "" {
		o.Count(fmt.Sprintf("panic-%d", panicCode(res.Panic)))
	}
	monitors(o, idx, s, &res, scoped)
}

// ---- through the public policy API --------------------------------------------------------------

// policyScenario drives gocql.TokenAwareHostPolicy(RoundRobinHostPolicy()) through a history of SetPartitioner / AddHost /
// AddHosts / RemoveHost / KeyspaceChanged that ends with the scenario's hosts, then asks Pick for routing keys: what Pick
// offers first must be the replica list of the key's token (the token's owner when the keyspace has no replica map).
func policyScenario(o *hlib.Out, s *scenario) {
	r := o.Rng
	pol := gocql.TokenAwareHostPolicy(gocql.RoundRobinHostPolicy())
	haveKs := !r.Chance(10)
	var ks *gocql.KeyspaceMetadata
	if haveKs {
		ks = &gocql.KeyspaceMetadata{Name: "ks", StrategyClass: s.Class, StrategyOptions: s.opts()}
	}
	if !gocql.VerifC10InitPolicy(pol, ks, "ks") {
		violate(o, -1, "policy-type", "", "TokenAwareHostPolicy is not the token-aware policy", nil)
		return
	}
	mkHost := func(i int, h hostD) *gocql.HostInfo {
		a := h.Addr
		return gocql.VerifC10NewHost(gocql.VerifC10Host{ID: fmt.Sprintf("h%d", i), DC: h.DC, Rack: h.Rack,
			Addr: net.IPv4(byte(a>>24), byte(a>>16), byte(a>>8), byte(a)), Tokens: h.Tokens})
	}
	hosts := make([]*gocql.HostInfo, len(s.Hosts))
	index := map[*gocql.HostInfo]int{}
	for i, h := range s.Hosts {
		hosts[i] = mkHost(i, h)
		index[hosts[i]] = i
	}
	// the history
	partAt := r.Intn(len(hosts) + 1)
	extraAt := -1
	var extra *gocql.HostInfo
	if r.Chance(40) && len(hosts) > 0 {
		extraAt = r.Intn(len(hosts))
		extra = mkHost(999, hostD{DC: s.Hosts[0].DC, Rack: "rX", Addr: 0x0a00ff01, Tokens: []string{genToken(r, s.Part, false)}})
	}
	batch := r.Chance(30)
	if batch {
		if partAt%2 == 0 {
			pol.SetPartitioner(s.PName)
		}
		pol.(interface{ AddHosts([]*gocql.HostInfo) }).AddHosts(hosts)
		if partAt%2 != 0 {
			pol.SetPartitioner(s.PName)
		}
	} else {
		for i, h := range hosts {
			if i == partAt {
				pol.SetPartitioner(s.PName)
			}
			if i == extraAt {
				pol.AddHost(extra)
			}
			pol.AddHost(h)
		}
		if partAt == len(hosts) {
			pol.SetPartitioner(s.PName)
		}
		if extra != nil {
			pol.RemoveHost(extra)
		}
	}
	if r.Chance(70) {
		pol.KeyspaceChanged(gocql.KeyspaceUpdateEvent{Keyspace: "ks", Change: "UPDATED"})
	}
	// routing keys
	less := lessFor(s.Part)
	ring := sortedRing(s)
	tp := topologyOf(s)
	kind, rf, dcs := 0, 0, map[string]int(nil)
	if haveKs {
		kind, rf, dcs = gocql.VerifC10Strategy(ks)
	}
	var picks []string
	bad := ""
	for k := 0; k < 4; k++ {
		key := r.Bytes(1 + r.Intn(12))
		tok, _ := gocql.VerifC10HashToken(s.PName, key)
		it := pol.Pick(gocql.VerifC10Query("ks", key))
		var seq []int
		for h := it(); h != nil && len(seq) <= 2*len(hosts); h = it() {
			i, ok := index[h.Info()]
			if !ok {
				i = -2
			}
			seq = append(seq, i)
		}
		picks = append(picks, "("+cs(tok)+", "+ints(seq)+")")
		// monitor: the first hosts offered are Cassandra's replicas for the key's token
		if len(ring) > 0 && bad == "" {
			walk := ringWalk(ring, less, tok)
			want := []int{walk[0]}
			switch kind {
			case 1:
				want = cassSimple(walk, rf)
			case 2:
				want = cassNTS22(s, tp, walk, dcs)
			}
			if kind == 2 && len(want) == 0 { // no DC of the ring holds replicas: the map is empty and the policy falls back to the token's owner
				want = []int{walk[0]}
			}
			if len(seq) < len(want) || !sameList(seq[:len(want)], want) {
				bad = fmt.Sprintf("routing key %x (token %s): Pick offered %v, Cassandra's replicas are %v", key, tok, seq, want)
			}
		}
	}
	hostsT := make([]string, len(s.Hosts))
	for i, h := range s.Hosts {
		toks := make([]string, len(h.Tokens))
		for j, t := range h.Tokens {
			toks[j] = cs(t)
		}
		hostsT[i] = fmt.Sprintf("(%d, mkInfo %s %s %d, %s)", i, cs(h.DC), cs(h.Rack), h.Addr, hlib.List(toks))
	}
	idx := -1
	if !o.Search {
		idx = o.Case("policy-pick", len(s.Hosts) >= 2 && kind != 0, fmt.Sprintf("CPick %s %s %s %s %s %s", partCtor[s.Part], hlib.List(hostsT), cs(s.Class), optsTerm(s), hlib.Bool(haveKs), hlib.List(picks)))
	} else {
		o.Count("policy-pick")
	}
	if bad != "" {
		violate(o, idx, "policy-offers-replicas-first", "", bad, s.json())
	}
}

// policyStale is a fixed (seed-independent) multi-step stream through the real policy: replicas are computed once for a
// keyspace; then the keyspace becomes unusable (metadata lookup fails, or its strategy is one getStrategy answers nil for) and
// the ring changes (RemoveHost / AddHost / KeyspaceChanged); afterwards no replica map of the OLD ring may be in use: Pick must
// offer the owner of the routing key's token in the NEW ring first and only current hosts. Routing keys are enumerated until
// every token range of the old and of the new ring has been hit.
func policyStale(o *hlib.Out) {
	tokensFor := [][]string{
		{"-6917529027641081856", "-2305843009213693952", "2305843009213693952", "6917529027641081856", "0"},
		{"\x30", "\x70", "\xa0", "\xe0", "\x90"},
		{"21267647932558653966460912964485513216", "63802943797675961899382738893456539648", "106338239662793269832304564822427566080", "148873535527910577765226390751398592512", "85070591730234615865843651857942052864"},
	}
	variants := []struct {
		name        string
		class       string
		opts        map[string]interface{}
		failLookup  bool   // afterwards getKeyspaceMetadata fails
		laterClass  string // otherwise: the keyspace's class afterwards (getStrategy answers nil)
		remove, add bool
	}{
		{"lookup-fails/remove", "SimpleStrategy", map[string]interface{}{"replication_factor": "2"}, true, "", true, false},
		{"lookup-fails/add", "NetworkTopologyStrategy", map[string]interface{}{"dc1": "2", "dc2": 1}, true, "", false, true},
		{"strategy-nil/remove", "NetworkTopologyStrategy", map[string]interface{}{"dc1": 3}, false, "org.apache.cassandra.locator.LocalStrategy", true, false},
		{"strategy-nil/add+remove", "SimpleStrategy", map[string]interface{}{"replication_factor": 3}, false, "EverywhereStrategy", true, true},
		{"bad-factor/remove", "SimpleStrategy", map[string]interface{}{"replication_factor": 2}, false, "SimpleStrategy!bad", true, false},
	}
	for part := 0; part < 3; part++ {
		for vi, v := range variants {
			s := &scenario{Part: part, PName: partNames[part][0], RunMap: true}
			for i := 0; i < 4; i++ {
				s.Hosts = append(s.Hosts, hostD{DC: []string{"dc1", "dc2"}[i%2], Rack: fmt.Sprintf("r%d", 1+i/2), Addr: 0x0a000001 + uint32(i), Tokens: []string{tokensFor[part][i]}})
			}
			mk := func(i int, h hostD) *gocql.HostInfo {
				a := h.Addr
				return gocql.VerifC10NewHost(gocql.VerifC10Host{ID: fmt.Sprintf("h%d", i), DC: h.DC, Rack: h.Rack,
					Addr: net.IPv4(byte(a>>24), byte(a>>16), byte(a>>8), byte(a)), Tokens: h.Tokens})
			}
			opts := map[string]interface{}{"class": v.class}
			for k, x := range v.opts {
				opts[k] = x
			}
			pol := gocql.TokenAwareHostPolicy(gocql.RoundRobinHostPolicy())
			gocql.VerifC10InitPolicy(pol, &gocql.KeyspaceMetadata{Name: "ks", StrategyClass: v.class, StrategyOptions: opts}, "ks")
			pol.SetPartitioner(s.PName)
			hosts := make([]*gocql.HostInfo, len(s.Hosts))
			for i, h := range s.Hosts {
				hosts[i] = mk(i, h)
				pol.AddHost(hosts[i])
			}
			pol.KeyspaceChanged(gocql.KeyspaceUpdateEvent{Keyspace: "ks", Change: "CREATED"})
			oldRing := sortedRing(s)
			// step 1 sanity: the replica map is in use (some key is offered more than the owner first)
			// step 2: the keyspace becomes unusable
			after := &scenario{Part: part, PName: s.PName, RunMap: true}
			haveKs := !v.failLookup
			if v.failLookup {
				gocql.VerifC10InitPolicy(pol, nil, "ks")
				after.Class = v.class
				opts2 := map[string]interface{}{}
				for k, x := range opts {
					opts2[k] = x
				}
				setOpts(after, opts2)
			} else {
				opts2 := map[string]interface{}{"class": v.laterClass}
				if v.laterClass == "SimpleStrategy!bad" {
					opts2 = map[string]interface{}{"class": "SimpleStrategy", "replication_factor": "two"}
					after.Class = "SimpleStrategy"
				} else {
					after.Class = v.laterClass
				}
				setOpts(after, opts2)
				gocql.VerifC10InitPolicy(pol, &gocql.KeyspaceMetadata{Name: "ks", StrategyClass: after.Class, StrategyOptions: after.opts()}, "ks")
			}
			// step 3: the ring changes
			cur := append([]hostD{}, s.Hosts...)
			curH := append([]*gocql.HostInfo{}, hosts...)
			if v.add {
				nh := hostD{DC: "dc1", Rack: "r1", Addr: 0x0a000009, Tokens: []string{tokensFor[part][4]}}
				h := mk(4, nh)
				pol.AddHost(h)
				cur, curH = append(cur, nh), append(curH, h)
			}
			if v.remove {
				k := (vi + part) % 4
				pol.RemoveHost(curH[k])
				cur = append(cur[:k:k], cur[k+1:]...)
				curH = append(curH[:k:k], curH[k+1:]...)
			}
			if vi%2 == 0 {
				pol.KeyspaceChanged(gocql.KeyspaceUpdateEvent{Keyspace: "ks", Change: "UPDATED"})
			}
			after.Hosts = cur
			index := map[*gocql.HostInfo]int{}
			for i, h := range curH {
				index[h] = i
			}
			newRing := sortedRing(after)
			less := lessFor(part)
			// step 4: routing keys covering every range of both rings
			hitOld, hitNew := map[int]bool{}, map[int]bool{}
			var picks []string
			bad := ""
			for n := 0; n < 400 && (len(hitOld) < len(oldRing) || len(hitNew) < len(newRing) || len(picks) < 6); n++ {
				key := []byte{byte(n * 37), byte(n), byte(n >> 3), byte(7 * n)}
				if part == 1 {
					key = []byte{byte(n * 41)}
				}
				tok, _ := gocql.VerifC10HashToken(s.PName, key)
				oOld, oNew := ringWalk(oldRing, less, tok)[0], ringWalk(newRing, less, tok)[0]
				if hitOld[oOld] && hitNew[oNew] && len(picks) >= 6 {
					continue
				}
				hitOld[oOld], hitNew[oNew] = true, true
				it := pol.Pick(gocql.VerifC10Query("ks", key))
				var seq []int
				for h := it(); h != nil && len(seq) <= 2*len(curH)+2; h = it() {
					i, ok := index[h.Info()]
					if !ok {
						i = -2
					}
					seq = append(seq, i)
				}
				picks = append(picks, "("+cs(tok)+", "+ints(seq)+")")
				if bad == "" {
					for _, i := range seq {
						if i < 0 {
							bad = fmt.Sprintf("%s: routing key %x (token %q): Pick offered a host that is no longer in the ring: %v", v.name, key, tok, seq)
						}
					}
					if bad == "" && (len(seq) == 0 || seq[0] != oNew) {
						bad = fmt.Sprintf("%s: routing key %x (token %q): no usable strategy, the owner in the current ring is host %d, Pick offered %v", v.name, key, tok, oNew, seq)
					}
				}
			}
			hostsT := make([]string, len(cur))
			for i, h := range cur {
				hostsT[i] = fmt.Sprintf("(%d, mkInfo %s %s %d, [%s])", i, cs(h.DC), cs(h.Rack), h.Addr, cs(h.Tokens[0]))
			}
			idx := -1
			if !o.Search {
				idx = o.Case("policy-stale", true, fmt.Sprintf("CPick %s %s %s %s %s %s", partCtor[part], hlib.List(hostsT), cs(after.Class), optsTerm(after), hlib.Bool(haveKs), hlib.List(picks)))
			} else {
				o.Count("policy-stale")
			}
			if bad != "" {
				violate(o, idx, "policy-no-stale-replicas", "", bad, after.json())
			}
		}
	}
}

// policyShuffle is a fixed (seed-independent) retained-state recheck: TokenAwareHostPolicy(RoundRobin, ShuffleReplicas()) on a ring with
// factors >= 2; the stored replica map is read, many routing keys are picked (every Pick shuffles the replicas it offers), and the
// stored map is read again: Pick must not have changed it - it is compared with the first reading, with Cassandra's placement (owner
// first) and, as a CRing correspondence case, with the model. Every Pick must offer a permutation of the key's replicas, then the rest.
func policyShuffle(o *hlib.Out) {
	tokensFor := [][]string{
		{"-7378697629483820646", "-3689348814741910323", "0", "3689348814741910323", "7378697629483820646", "-5534023222112865484", "1844674407370955161", "5534023222112865484"},
		{"\x20", "\x50", "\x80", "\xb0", "\xe0", "\x38", "\x98", "\xc8"},
		{"17014118346046923173168730371588410572", "51042355038140769519506191114765231716", "85070591730234615865843651857942052864", "119098828422328462212181112601118874012", "153127065114422308558518573344295695160", "34028236692093846346337460743176821144", "102084710076281539039012382229530463432", "136112946768375385385349842972707284584"},
	}
	keyspaces := []struct {
		class string
		opts  map[string]interface{}
	}{
		{"SimpleStrategy", map[string]interface{}{"replication_factor": "3"}},
		{"NetworkTopologyStrategy", map[string]interface{}{"dc1": 2, "dc2": "2"}},
	}
	for part := 0; part < 3; part++ {
		for ki, k := range keyspaces {
			s := &scenario{Part: part, PName: partNames[part][0], RunMap: true, Class: k.class}
			for i := 0; i < 5; i++ {
				toks := []string{tokensFor[part][i]}
				if ki == 1 && i < 3 { // vnodes in the second layout
					toks = append(toks, tokensFor[part][5+i])
				}
				s.Hosts = append(s.Hosts, hostD{DC: []string{"dc1", "dc2"}[i%2], Rack: fmt.Sprintf("r%d", 1+i/2), Addr: 0x0a000001 + uint32(i), Tokens: toks})
			}
			opts := map[string]interface{}{"class": k.class}
			for x, y := range k.opts {
				opts[x] = y
			}
			setOpts(s, opts)
			pol := gocql.TokenAwareHostPolicy(gocql.RoundRobinHostPolicy(), gocql.ShuffleReplicas())
			ks := &gocql.KeyspaceMetadata{Name: "ks", StrategyClass: s.Class, StrategyOptions: s.opts()}
			gocql.VerifC10InitPolicy(pol, ks, "ks")
			pol.SetPartitioner(s.PName)
			index := map[*gocql.HostInfo]int{}
			for i, h := range s.Hosts {
				a := h.Addr
				hi := gocql.VerifC10NewHost(gocql.VerifC10Host{ID: fmt.Sprintf("h%d", i), DC: h.DC, Rack: h.Rack,
					Addr: net.IPv4(byte(a>>24), byte(a>>16), byte(a>>8), byte(a)), Tokens: h.Tokens})
				index[hi] = i
				pol.AddHost(hi)
			}
			pol.KeyspaceChanged(gocql.KeyspaceUpdateEvent{Keyspace: "ks", Change: "CREATED"})
			readMap := func() []gocql.VerifC10Entry {
				toks, hs, ok := gocql.VerifC10PolicyMap(pol, "ks")
				if !ok {
					return nil
				}
				out := make([]gocql.VerifC10Entry, len(toks))
				for i := range toks {
					out[i].Token = toks[i]
					for _, h := range hs[i] {
						j, known := index[h]
						if !known {
							j = -2
						}
						out[i].Hosts = append(out[i].Hosts, j)
					}
				}
				return out
			}
			before := readMap()
			less := lessFor(part)
			ring := sortedRing(s)
			bad := ""
			for n := 0; n < 60; n++ {
				key := []byte{byte(n * 37), byte(n), byte(n >> 3), byte(7 * n)}
				if part == 1 {
					key = []byte{byte(n * 41)}
				}
				tok, _ := gocql.VerifC10HashToken(s.PName, key)
				it := pol.Pick(gocql.VerifC10Query("ks", key))
				var seq []int
				for h := it(); h != nil && len(seq) <= 2*len(s.Hosts); h = it() {
					seq = append(seq, index[h.Info()])
				}
				// the key's replicas according to the FIRST reading of the map
				var reps []int
				for i := range before {
					if !less(before[i].Token, tok) {
						reps = before[i].Hosts
						break
					}
				}
				if reps == nil && len(before) > 0 {
					reps = before[0].Hosts
				}
				if bad == "" && (len(seq) != len(s.Hosts) || !sameSet(seq[:minInt(len(reps), len(seq))], reps)) {
					bad = fmt.Sprintf("routing key %x (token %q): Pick offered %v, the replicas are %v", key, tok, seq, reps)
				}
				if _, dup := dupHost(seq); dup && bad == "" {
					bad = fmt.Sprintf("routing key %x: Pick offered a host twice: %v", key, seq)
				}
			}
			after := readMap()
			if bad == "" && len(after) != len(before) {
				bad = fmt.Sprintf("the stored replica map has %d entries after the picks, %d before", len(after), len(before))
			}
			for i := range after {
				if bad != "" {
					break
				}
				if after[i].Token != before[i].Token || !sameList(after[i].Hosts, before[i].Hosts) {
					bad = fmt.Sprintf("Pick changed the stored replica map: token %q had %v, now has %v", before[i].Token, before[i].Hosts, after[i].Hosts)
				} else if owner := ringWalk(ring, less, after[i].Token)[0]; len(after[i].Hosts) == 0 || after[i].Hosts[0] != owner {
					bad = fmt.Sprintf("stored replicas of token %q are %v: the owner %d is not first", after[i].Token, after[i].Hosts, owner)
				}
			}
			// the map as stored AFTER the picks, as a correspondence case against the model
			hosts := make([]gocql.VerifC10Host, len(s.Hosts))
			for i, h := range s.Hosts {
				a := h.Addr
				hosts[i] = gocql.VerifC10Host{ID: fmt.Sprintf("h%d", i), DC: h.DC, Rack: h.Rack, Addr: net.IPv4(byte(a>>24), byte(a>>16), byte(a>>8), byte(a)), Tokens: h.Tokens}
			}
			s.Lookups = nil
			res := gocql.VerifC10Run(s.PName, hosts, ks, nil, true)
			res.Map, res.HaveMap = after, after != nil
			idx := -1
			if !o.Search {
				idx = o.Case("policy-shuffle-retained", true, ringTerm(s, &res))
			} else {
				o.Count("policy-shuffle-retained")
			}
			if bad != "" {
				violate(o, idx, "pick-keeps-replica-map", "", bad, s.json())
			}
			monitors(o, idx, s, &res, true)
		}
	}
}

func setOpts(s *scenario, opts map[string]interface{}) {
	s.OptKeys, s.OptVals = nil, nil
	for k := range opts {
		s.OptKeys = append(s.OptKeys, k)
	}
	sort.Strings(s.OptKeys)
	for _, k := range s.OptKeys {
		s.OptVals = append(s.OptVals, opts[k])
	}
}

// ---- strategy parsing and token parsing cases ---------------------------------------------------

func strategyCases(o *hlib.Out, n int) {
	r := o.Rng
	classes := []string{"org.apache.cassandra.locator.SimpleStrategy", "SimpleStrategy", "org.apache.cassandra.locator.NetworkTopologyStrategy",
		"NetworkTopologyStrategy", "LocalStrategy", "org.apache.cassandra.locator.LocalStrategy", "", "simplestrategy", "SimpleStrateg", "SimpleStrategyX",
		"NetworkTopologyStrategySimpleStrategy", "LocalStrategySimpleStrategy", "LocalStrategyNetworkTopologyStrategy", "org.apache.cassandra.locator.EverywhereStrategy", "SSimpleStrategy", "SimpleSimpleStrategy"}
	vals := []interface{}{0, 1, 3, -1, 2147483647, "0", "1", "3", "-1", "+3", "03", "", "-", "+", "abc", "3 ", " 3", "3.0", "1e2", "1_0", "0x10",
		"9223372036854775807", "9223372036854775808", "-9223372036854775808", "-9223372036854775809", "18446744073709551616", "99999999999999999999999",
		"99999999999999999999999x", "-0", "+0", "٣", int64(3), int32(3), uint(3), 3.0, nil, true, []byte("3"), "12345678901234567890", "000000000000000000000000000001"}
	for i := 0; i < n; i++ {
		s := &scenario{}
		s.Class = classes[r.Intn(len(classes))]
		opts := map[string]interface{}{}
		if r.Chance(80) {
			opts["class"] = s.Class
		}
		if r.Chance(70) {
			opts["replication_factor"] = vals[r.Intn(len(vals))]
		}
		for d := 0; d < r.Intn(4); d++ {
			opts[[]string{"dc1", "dc2", "DC1", "us-east", "", "clas", "classs"}[r.Intn(7)]] = vals[r.Intn(len(vals))]
		}
		if i < len(vals) { // every value once, in both roles
			opts = map[string]interface{}{"class": "x", "replication_factor": vals[i], "dc1": vals[i]}
			s.Class = classes[i%4]
		}
		for k := range opts {
			s.OptKeys = append(s.OptKeys, k)
		}
		sort.Strings(s.OptKeys)
		for _, k := range s.OptKeys {
			s.OptVals = append(s.OptVals, opts[k])
		}
		kind, rf, dcs := gocql.VerifC10Strategy(&gocql.KeyspaceMetadata{Name: "ks", StrategyClass: s.Class, StrategyOptions: s.opts()})
		if o.Search {
			o.Count("strategy")
			continue
		}
		idx := o.Case("strategy", kind != 0, fmt.Sprintf("CStrategy %s %s %s", cs(s.Class), optsTerm(s), stratTerm(kind, rf, dcs)))
		// a selected strategy never carries a negative factor
		if kind == 1 && rf < 0 {
			violate(o, idx, "negative-rf", "", "SimpleStrategy with a negative factor", s.json())
		}
		for dc, v := range dcs {
			if v < 0 {
				violate(o, idx, "negative-rf", "", "negative factor for "+dc, s.json())
			}
		}
	}
}

func tokenCases(o *hlib.Out, n int) {
	r := o.Rng
	fixed := []string{"", "0", "-0", "+0", "7", "+7", "-7", "007", "9223372036854775807", "9223372036854775808", "-9223372036854775808", "-9223372036854775809",
		"18446744073709551615", "18446744073709551616", "184467440737095516150", "99999999999999999999999", "99999999999999999999999x", "x", "1x", "-", "+", "--1", "1_000", " 1", "1 ", "0x1f", "1e3",
		"1844674407370955161", "1844674407370955162", "18446744073709551609", "18446744073709551610"}
	for i := 0; i < n; i++ {
		part := r.Intn(3)
		var s string
		if i < len(fixed) {
			part, s = 0, fixed[i]
		} else if part == 0 && r.Chance(30) {
			s = fixed[r.Intn(len(fixed))]
		} else {
			s = genToken(r, part, r.Chance(20))
		}
		out, ok := gocql.VerifC10ParseToken(partNames[part][0], s)
		if !ok {
			violate(o, -1, "partitioner-rejected", "", partNames[part][0], nil)
			continue
		}
		if o.Search {
			o.Count("parse-token")
			continue
		}
		o.Case("parse-token", s != "", fmt.Sprintf("CParseTok %s %s %s", partCtor[part], cs(s), cs(out)))
	}
}

// ---- exhaustive small scope (monitors only) -----------------------------------------------------

// every ring of <= maxHosts nodes, each in one of <= 2 DCs x <= 2 racks with 1..maxTok tokens, every interleaving
// of the tokens around the ring, against a fixed family of keyspaces
func exhaustive(o *hlib.Out, maxHosts, maxTok int, emitEvery int) int {
	count := 0
	type hk struct{ dc, rack, nt int }
	var kinds []hk
	for dc := 0; dc < 2; dc++ {
		for rk := 0; rk < 2; rk++ {
			for nt := 1; nt <= maxTok; nt++ {
				kinds = append(kinds, hk{dc, rk, nt})
			}
		}
	}
	keyspaces := []map[string]interface{}{
		{"class": "SimpleStrategy", "replication_factor": "2"},
		{"class": "SimpleStrategy", "replication_factor": "3"},
		{"class": "NetworkTopologyStrategy", "dc1": "1", "dc2": "1"},
		{"class": "NetworkTopologyStrategy", "dc1": "2", "dc2": "1"},
		{"class": "NetworkTopologyStrategy", "dc1": "3"},
		{"class": "NetworkTopologyStrategy", "dc1": "2", "dc2": "0"},
		{"class": "NetworkTopologyStrategy", "dc1": "1", "dc3": "1"},
		{"class": "NetworkTopologyStrategy", "dc2": "2", "dc3": "2"},
	}
	var rec func(hosts []hk)
	emit := func(hosts []hk, order []int) {
		for _, ksopts := range keyspaces {
			s := &scenario{Part: 0, PName: partNames[0][1], RunMap: true, Class: ksopts["class"].(string)}
			for _, h := range hosts {
				s.Hosts = append(s.Hosts, hostD{DC: fmt.Sprintf("dc%d", h.dc+1), Rack: fmt.Sprintf("r%d", h.rack+1), Addr: 0x0a000001 + uint32(len(s.Hosts))})
			}
			for pos, h := range order {
				s.Hosts[h].Tokens = append(s.Hosts[h].Tokens, fmt.Sprint(10*pos))
			}
			for k := range ksopts {
				s.OptKeys = append(s.OptKeys, k)
			}
			sort.Strings(s.OptKeys)
			for _, k := range s.OptKeys {
				s.OptVals = append(s.OptVals, ksopts[k])
			}
			s.Lookups = []string{"-5", "5", fmt.Sprint(10*len(order) + 5)}
			count++
			saved := o.Search
			if emitEvery == 0 || count%emitEvery != 0 {
				o.Search = true // monitors only
			}
			runScenario(o, "exhaustive", s)
			o.Search = saved
		}
	}
	// all distinct interleavings of the hosts' tokens (host 0's first token is fixed at position 0: rotations
	// of the ring are covered because every token is a starting point of a walk)
	var interleave func(hosts []hk, left []int, order []int)
	interleave = func(hosts []hk, left []int, order []int) {
		done := true
		for h, l := range left {
			if l > 0 {
				done = false
				left[h]--
				interleave(hosts, left, append(order, h))
				left[h]++
			}
		}
		if done {
			emit(hosts, order)
		}
	}
	rec = func(hosts []hk) {
		if len(hosts) > 0 {
			left := make([]int, len(hosts))
			for i, h := range hosts {
				left[i] = h.nt
			}
			left[0]--
			interleave(hosts, left, []int{0})
		}
		if len(hosts) == maxHosts {
			return
		}
		for _, k := range kinds {
			rec(append(append([]hk{}, hosts...), k))
		}
	}
	rec(nil)
	return count
}

// the inputs of the two repaired defects (nts-duplicate-replica, nts-unknown-dc-panic: Refuted.v keeps the pre-fix behaviour) and the
// examples of Spec.v / Props.v, replayed on the real code
func witnesses(o *hlib.Out) {
	mk := func(hosts []hostD, class string, kv ...interface{}) *scenario {
		s := &scenario{Part: 0, PName: partNames[0][0], Hosts: hosts, Class: class, RunMap: true}
		opts := map[string]interface{}{"class": class}
		for i := 0; i+1 < len(kv); i += 2 {
			opts[kv[i].(string)] = kv[i+1]
		}
		for k := range opts {
			s.OptKeys = append(s.OptKeys, k)
		}
		sort.Strings(s.OptKeys)
		for _, k := range s.OptKeys {
			s.OptVals = append(s.OptVals, opts[k])
		}
		s.Lookups = []string{"-60", "0", "5", "8", "35", "61", "91"}
		return s
	}
	h := func(dc, rack string, addr uint32, toks ...string) hostD {
		return hostD{DC: dc, Rack: rack, Addr: 0x0a000001 + addr, Tokens: toks}
	}
	nts := "org.apache.cassandra.locator.NetworkTopologyStrategy"
	// nts-duplicate-replica: 3 hosts x 2 adjacent tokens, one rack, dc1: 2  (Refuted.nts_duplicate_refuted)
	runScenario(o, "witness", mk([]hostD{h("dc1", "r1", 0, "0", "10"), h("dc1", "r1", 1, "20", "30"), h("dc1", "r1", 2, "40", "50")}, nts, "dc1", 2))
	// one host, two tokens, dc1: 2  (Refuted.nts_exceeds_nodes_refuted)
	runScenario(o, "witness", mk([]hostD{h("dc1", "r1", 0, "0", "10")}, nts, "dc1", "2"))
	// nts-unknown-dc-panic: ring dc1 + dc2, keyspace {dc1: 1, dc3: 1}  (Refuted.nts_unknown_dc_crash_refuted)
	runScenario(o, "witness", mk([]hostD{h("dc1", "r1", 0, "0"), h("dc2", "r1", 1, "10")}, nts, "dc1", 1, "dc3", 1))
	// Spec.SpecExamples.ring6 (nodes 1..6 -> hosts 0..5) with its three keyspaces, and SimpleStrategy
	ring6 := []hostD{h("dc1", "r1", 0, "10"), h("dc1", "r1", 1, "30"), h("dc1", "r2", 2, "50"), h("dc2", "r1", 3, "20"), h("dc2", "r2", 4, "40"), h("dc2", "r3", 5, "60")}
	runScenario(o, "witness", mk(ring6, nts, "dc1", 2, "dc2", 2))
	runScenario(o, "witness", mk(ring6, nts, "dc1", 3))
	runScenario(o, "witness", mk(ring6, nts, "dc1", 7, "dc9", 2))
	runScenario(o, "witness", mk(ring6, "org.apache.cassandra.locator.SimpleStrategy", "replication_factor", "3"))
	// Props.NonVacuous.ring7
	ring7 := []hostD{h("dc1", "r1", 0, "-50"), h("dc2", "r1", 1, "-20"), h("dc1", "r1", 2, "0"), h("dc2", "r2", 3, "7"), h("dc1", "r2", 4, "30"), h("dc2", "r3", 5, "31"), h("dc1", "r1", 6, "90")}
	runScenario(o, "witness", mk(ring7, nts, "dc1", "3", "dc2", 2))
	runScenario(o, "witness", mk(ring7, nts, "dc1", 1, "dc2", 1, "dc9", 2))
}

func main() {
	o := hlib.Init("C10")
	r := o.Rng
	o.Rule = "inputs: rings of 1..12 nodes x 0..8 tokens over 1..3 DCs x 1..4 racks (unevenly filled), three partitioners, SimpleStrategy / NetworkTopologyStrategy / " +
		"other classes with factors 0..5 and > nodes as int or string, keyspace DCs inside and outside the ring, lookup tokens equal to / next to / beyond ring tokens; " +
		"malformed stream: unparsable tokens and factors, tokenless hosts, shared tokens and addresses; distinct = distinct Coq case term; " +
		"non-trivial = at least two hosts, a strategy was selected and the replica map is non-empty"

	if o.Search {
		// failing-input search: monitors only, more and larger rings, vnode-heavy and DC-heavy
		witnesses(o)
		policyStale(o)
		policyShuffle(o)
		for i := 0; i < 4000*o.Scale/5; i++ {
			runScenario(o, "search", genScenario(r, genOpts{maxHosts: 16, maxTokens: 8, maxDCs: 4, maxRacks: 4}))
		}
		for i := 0; i < 300*o.Scale; i++ {
			if s := genScenario(r, genOpts{maxHosts: 10, maxTokens: 6, maxDCs: 3, maxRacks: 3}); inScope(s, wellFormed(s)) {
				policyScenario(o, s)
			}
		}
		n := exhaustive(o, 3, 2, 0)
		o.Extra["search_exhaustive_scenarios"] = n
		finish(o)
		return
	}

	witnesses(o)
	policyStale(o)
	policyShuffle(o)
	strategyCases(o, 120*o.Scale)
	tokenCases(o, 80*o.Scale)
	// structured: inside the property's quantifier (plus keyspace DCs outside the ring)
	for i := 0; i < 700*o.Scale; i++ {
		g := genOpts{maxHosts: 12, maxTokens: 8, maxDCs: 3, maxRacks: 4}
		if i%3 == 0 {
			g = genOpts{maxHosts: 5, maxTokens: 3, maxDCs: 2, maxRacks: 2}
		}
		runScenario(o, "ring", genScenario(r, g))
	}
	// the same placement as the application gets it: TokenAwareHostPolicy.Pick after a history of host and keyspace events
	for i, n := 0, 0; n < 120*o.Scale && i < 2000*o.Scale; i++ {
		s := genScenario(r, genOpts{maxHosts: 8, maxTokens: 4, maxDCs: 3, maxRacks: 3})
		if inScope(s, wellFormed(s)) {
			policyScenario(o, s)
			n++
		}
	}
	// boundary: single host, single token, every host in one rack, factor 0 everywhere
	for i := 0; i < 100*o.Scale; i++ {
		runScenario(o, "ring-small", genScenario(r, genOpts{maxHosts: 2, maxTokens: 2, maxDCs: 2, maxRacks: 1}))
	}
	// malformed
	for i := 0; i < 200*o.Scale; i++ {
		runScenario(o, "ring-malformed", genScenario(r, genOpts{maxHosts: 8, maxTokens: 4, maxDCs: 3, maxRacks: 3, malformed: true}))
	}
	if o.Tier == "thorough" {
		n := exhaustive(o, 4, 2, 997)
		o.Extra["exhaustive"] = true
		o.Extra["exhaustive_scenarios"] = n
		o.Extra["exhaustive_scope"] = "<= 4 nodes x <= 2 tokens x <= 2 DCs x <= 2 racks, every interleaving, 8 keyspaces: monitors on every scenario, every 997th also as a correspondence case"
	} else {
		n := exhaustive(o, 2, 2, 7)
		o.Extra["exhaustive_scenarios"] = n
		o.Extra["exhaustive_scope"] = "<= 2 nodes x <= 2 tokens x <= 2 DCs x <= 2 racks, every interleaving, 8 keyspaces"
	}
	finish(o)
}

func finish(o *hlib.Out) {
	o.Extra["monitor_failures_by_kind_and_finding"] = violationCounts
	o.Finish("From GocqlV Require Import Lib.Base C10.Model C10.Corr.", "C10.Corr.case", "C10.Corr.run")
}
