// Real-time scenarios against the shared scripted nodes (gocqlverif/node): a gocql.Session with its own
// debouncers (1 s event window, 1 s refresh window), real connection pools and the public round-robin
// policy.  EVENT frames travel over the wire, nodes join, go down (dials refused), come back and leave,
// the control connection is lost and re-established past a failing dial, a refresh fails, a status event
// arrives while a refresh is in flight.  After every step, once the session has settled, the ring, the
// pools and what the policy's public Pick offers are recorded and compared with the model (Corr.CCluster);
// the number of refreshes per burst is monitored through the nodes' request counters.
package main

import (
	"fmt"
	"net"
	"sort"
	"strconv"
	"strings"
	"time"

	"github.com/gocql/gocql"
	"gocqlverif/hlib"
	snode "gocqlverif/node"
)

type clusterRun struct {
	net     *snode.Net
	s       *gocql.Session
	rg      *gocql.VerifC16Ring
	pol     gocql.HostSelectionPolicy
	members map[int]bool // node numbers in the ring (address 10.0.0.k, host id k)
	steps   []string
	text    []string
	viol    [][2]string
}

func caddr(k int) string { return "10.0.0." + strconv.Itoa(k) + ":9042" }

func (cr *clusterRun) add(k int) *snode.Node {
	nd := cr.net.AddNode(caddr(k))
	nd.Update(func(c *snode.Config) {
		c.HostID = idStr(int64(k))
		c.Tokens = []string{strconv.Itoa(k * 100)}
	})
	cr.members[k] = true
	return nd
}

func (cr *clusterRun) nd(k int) *snode.Node { return cr.net.Node(caddr(k)) }

// the rows node ctl serves, as model terms: (local, peers in node order)
func (cr *clusterRun) rows(ctl int) (string, string) {
	local := localAt(int64(ctl), v4(ctl))
	var ks []int
	for k := range cr.members {
		if k != ctl {
			ks = append(ks, k)
		}
	}
	sort.Ints(ks)
	ps := make([]rowSpec, len(ks))
	for i, k := range ks {
		ps[i] = peerAt(int64(k), v4(k))
	}
	return local.term(true), rowTerms(ps)
}

func (cr *clusterRun) violate(kind, detail string) {
	cr.viol = append(cr.viol, [2]string{kind, detail + " | history: " + strings.Join(cr.text, " ; ")})
}

func (cr *clusterRun) poolConns(k int) int { return gocql.VerifC16PoolConns(cr.s, idStr(int64(k))) }

func (cr *clusterRun) hostUp(k int) bool {
	h := cr.rg.GetHost(idStr(int64(k)))
	return h != nil && h.IsUp()
}

// wait for a condition on the session (polling: the condition reads driver state, not only Net events)
func waitCond(d time.Duration, cond func() bool) bool {
	deadline := time.Now().Add(d)
	for !cond() {
		if time.Now().After(deadline) {
			return false
		}
		time.Sleep(5 * time.Millisecond)
	}
	return true
}

// observe: known ids with node-to-node address, ids with connections, ids offered by Pick (and connected)
func (cr *clusterRun) observe(what string, sts []string) {
	hosts, _, _ := cr.rg.Dump()
	type kv struct{ id, key int64 }
	var known []kv
	for id, h := range hosts {
		known = append(known, kv{idCode(id), keyOf(h)})
	}
	sort.Slice(known, func(i, j int) bool { return known[i].id < known[j].id })
	var pool, off []int64
	for _, id := range gocql.VerifC16PoolHosts(cr.s) {
		pool = append(pool, idCode(id))
	}
	sort.Slice(pool, func(i, j int) bool { return pool[i] < pool[j] })
	seen := map[int64]bool{}
	next := cr.pol.Pick(nil)
	for sh := next(); sh != nil; sh = next() {
		id := sh.Info().HostID()
		if !seen[idCode(id)] && gocql.VerifC16PoolConns(cr.s, id) > 0 {
			seen[idCode(id)] = true
			off = append(off, idCode(id))
		}
	}
	sort.Slice(off, func(i, j int) bool { return off[i] < off[j] })
	ks := make([]string, len(known))
	for i, k := range known {
		ks[i] = "KV " + hlib.Z(k.id) + " " + hlib.Z(k.key)
	}
	cr.text = append(cr.text, what)
	cr.steps = append(cr.steps, fmt.Sprintf("CStep %s %s %s %s", hlib.List(sts), hlib.List(ks), hlib.ZListI(pool), hlib.ZListI(off)))
}

func countPeers(nds ...*snode.Node) int {
	n := 0
	for _, nd := range nds {
		if nd != nil {
			n += nd.CountStatement("system.peers", snode.OpQuery)
		}
	}
	return n
}

func (cr *clusterRun) allNodes() []*snode.Node { return cr.net.Nodes() }

// the node holding the control connection: an open connection that REGISTERed
func (cr *clusterRun) controlNode() int {
	for k := range cr.members {
		if nd := cr.nd(k); nd != nil {
			for _, c := range nd.Conns() {
				select {
				case <-c.Done():
				default:
					if len(c.Registered()) > 0 {
						return k
					}
				}
			}
		}
	}
	return 0
}

func ev(topo bool, change string, k int) string {
	key, _ := ipCode(v4(k))
	if topo {
		return fmt.Sprintf("ETopo %s %s", hlib.Z(changeCode(change)), hlib.Z(key))
	}
	return fmt.Sprintf("EStatus %s %s", hlib.Z(changeCode(change)), hlib.Z(key))
}

func status(change string, k int) snode.StatusChangeEvent {
	return snode.StatusChangeEvent{Change: change, IP: net.IP(v4(k)), Port: 9042}
}
func topology(change string, k int) snode.TopologyChangeEvent {
	return snode.TopologyChangeEvent{Change: change, IP: net.IP(v4(k)), Port: 9042}
}

// clusterScenario returns the case term (or "") and the violations found
func clusterScenario(seed uint64, full bool) (term string, viol [][2]string) {
	cr := &clusterRun{net: snode.NewNet(), members: map[int]bool{}}
	defer cr.net.Close()
	if seed > 0 {
		cr.net.Perturb(seed, 2*time.Millisecond)
	}
	for k := 1; k <= 3; k++ {
		cr.add(k)
	}
	cl := gocql.NewCluster("10.0.0.1")
	cl.ProtoVersion = 4
	cl.HostDialer = cr.net.Dialer()
	cl.NumConns = 2
	cl.ReconnectInterval = 0
	cl.Timeout = 5 * time.Second
	cl.ConnectTimeout = 5 * time.Second
	cl.Logger = nullLogger{}
	cl.ReconnectionPolicy = &gocql.ConstantReconnectionPolicy{MaxRetries: 1, Interval: 10 * time.Millisecond}
	cl.Events.DisableSchemaEvents = true
	cr.pol = gocql.RoundRobinHostPolicy()
	cl.PoolConfig.HostSelectionPolicy = cr.pol
	s, err := gocql.NewSession(*cl)
	if err != nil {
		return "", [][2]string{{"cluster-session", "NewSession against the scripted nodes failed: " + err.Error()}}
	}
	cr.s = s
	defer func() {
		done := make(chan struct{})
		go func() { s.Close(); close(done) }()
		select {
		case <-done:
		case <-time.After(10 * time.Second):
		}
	}()
	cr.rg = gocql.VerifC16SessionRing(s)
	full3 := func() bool {
		return cr.poolConns(1) == 2 && cr.poolConns(2) == 2 && cr.poolConns(3) == 2 && gocql.VerifC16PoolIdle(s)
	}
	waitCond(8*time.Second, full3)
	l, p := cr.rows(1)
	cr.observe("NewSession(10.0.0.1) on a ring of 3", []string{fmt.Sprintf("SNew %s %s %s", ipTerm(v4(1)), l, p)})

	// 1. node 4 joins; a burst of NEW_NODE events and an UP for it: one refresh, the node is known, pooled, offered
	before := countPeers(cr.allNodes()...)
	cr.add(4)
	for i := 0; i < 6; i++ {
		cr.nd(1).PushEvent(topology("NEW_NODE", 4))
	}
	cr.nd(1).PushEvent(status("UP", 4))
	waitCond(8*time.Second, func() bool { return cr.poolConns(4) == 2 && gocql.VerifC16PoolIdle(s) })
	time.Sleep(1200 * time.Millisecond) // a second refresh, if the burst caused one, would run by now
	if n := countPeers(cr.allNodes()...) - before; n != 1 {
		cr.violate("cluster-refresh-count", fmt.Sprintf("a burst of 7 events about a joining node led to %d refreshes (expected 1)", n))
	}
	evs := []string{}
	for i := 0; i < 6; i++ {
		evs = append(evs, ev(true, "NEW_NODE", 4))
	}
	evs = append(evs, ev(false, "UP", 4))
	l, p = cr.rows(1)
	cr.observe("node 4 joins: 6 x NEW_NODE + UP", []string{"SEvents " + hlib.List(evs), fmt.Sprintf("SRefresh %s %s", l, p)})

	// 2. node 2 goes down: dials refused, its connections die, DOWN event
	cr.nd(2).SetDialFault(&snode.DialFault{Refuse: true})
	cr.nd(2).CloseConns()
	cr.nd(1).PushEvent(status("DOWN", 2))
	waitCond(8*time.Second, func() bool { return cr.poolConns(2) < 0 && !cr.hostUp(2) })
	time.Sleep(300 * time.Millisecond)
	cr.observe("node 2 down (dials refused, DOWN event)", []string{"SEvents " + hlib.List([]string{ev(false, "DOWN", 2)})})

	ctl := 1
	if full {
		// 3. a status event arrives while a refresh is in flight
		before = countPeers(cr.allNodes()...)
		cr.nd(1).AddRule(snode.Rule{Match: snode.MatchStatement("system.peers", snode.OpQuery), Times: 1, Do: func(c *snode.ServerConn, req *snode.Request) {
			cr.nd(1).PushEvent(status("DOWN", 3))
			time.Sleep(50 * time.Millisecond)
			cr.nd(1).Default(c, req)
		}})
		cr.nd(1).PushEvent(topology("NEW_NODE", 9))
		waitCond(8*time.Second, func() bool { return countPeers(cr.allNodes()...) > before })
		waitCond(8*time.Second, func() bool { return cr.poolConns(3) < 0 && !cr.hostUp(3) })
		time.Sleep(200 * time.Millisecond)
		l, p = cr.rows(1)
		cr.observe("NEW_NODE for an unknown address; DOWN for node 3 arrives during the refresh",
			[]string{"SEvents " + hlib.List([]string{ev(true, "NEW_NODE", 9)}), fmt.Sprintf("SRefresh %s %s", l, p), "SEvents " + hlib.List([]string{ev(false, "DOWN", 3)})})

		// 4. the control connection is lost; the first dial (to the old control node) fails
		var ctlConn *snode.ServerConn
		for _, c := range cr.nd(1).Conns() {
			select {
			case <-c.Done():
			default:
				if len(c.Registered()) > 0 {
					ctlConn = c
				}
			}
		}
		before = countPeers(cr.allNodes()...)
		poolHad := map[int]bool{}
		for k := range cr.members {
			poolHad[k] = cr.poolConns(k) >= 0
		}
		if ctlConn != nil {
			cr.nd(1).SetDialFault(&snode.DialFault{Refuse: true, Count: 1})
			ctlConn.Close()
		}
		waitCond(10*time.Second, func() bool { return cr.controlNode() != 0 && countPeers(cr.allNodes()...) > before })
		ctl = cr.controlNode()
		if ctl == 0 {
			cr.violate("cluster-control-lost", "the control connection was not re-established within 10 s after it was closed")
			ctl = 1
		}
		sts := []string{}
		l, p = cr.rows(ctl)
		sts = append(sts, fmt.Sprintf("SControl %s %s %s", ipTerm(v4(ctl)), l, p))
		if !poolHad[ctl] { // setupConn fills the control host's pool: it connects and is up again
			waitCond(8*time.Second, func() bool { return cr.poolConns(ctl) == 2 && cr.hostUp(ctl) })
			sts = append(sts, "SConnected "+hlib.Z(int64(ctl)))
		}
		waitCond(3*time.Second, func() bool { return gocql.VerifC16PoolIdle(s) })
		time.Sleep(200 * time.Millisecond)
		cr.observe(fmt.Sprintf("control connection closed, first dial refused; re-established on node %d", ctl), sts)

		// 5. a refresh fails (system.local answered with an error)
		lb := cr.nd(ctl).CountStatement("system.local", snode.OpQuery)
		cr.nd(ctl).AddRule(snode.Rule{Match: snode.MatchStatement("system.local", snode.OpQuery), Times: 1, Do: func(c *snode.ServerConn, req *snode.Request) {
			c.Reply(req, snode.Error{Code: snode.ErrServer, Message: "scripted"})
		}})
		cr.nd(ctl).PushEvent(topology("NEW_NODE", 9))
		waitCond(8*time.Second, func() bool { return cr.nd(ctl).CountStatement("system.local", snode.OpQuery) > lb })
		time.Sleep(300 * time.Millisecond)
		cr.observe("NEW_NODE; the refresh fails", []string{"SEvents " + hlib.List([]string{ev(true, "NEW_NODE", 9)}), "SRefreshFail"})
	}

	// 6. node 2 comes back: UP event, pool filled, connected
	cr.nd(2).SetDialFault(nil)
	cr.nd(ctl).PushEvent(status("UP", 2))
	waitCond(8*time.Second, func() bool { return cr.poolConns(2) == 2 && cr.hostUp(2) && gocql.VerifC16PoolIdle(s) })
	cr.observe("node 2 back: UP event", []string{"SEvents " + hlib.List([]string{ev(false, "UP", 2)}), "SConnected 2"})

	// 7. a node leaves the cluster
	victim := 4
	if ctl == 4 {
		victim = 3
	}
	delete(cr.members, victim)
	cr.net.RemoveNode(caddr(victim))
	cr.nd(ctl).PushEvent(topology("REMOVED_NODE", victim))
	waitCond(8*time.Second, func() bool { return cr.rg.GetHost(idStr(int64(victim))) == nil })
	time.Sleep(200 * time.Millisecond)
	l, p = cr.rows(ctl)
	cr.observe(fmt.Sprintf("node %d leaves: REMOVED_NODE", victim), []string{"SEvents " + hlib.List([]string{ev(true, "REMOVED_NODE", victim)}), fmt.Sprintf("SRefresh %s %s", l, p)})
	// the property's words on the final picture
	hosts, _, _ := cr.rg.Dump()
	for k := range cr.members {
		if hosts[idStr(int64(k))] == nil {
			cr.violate("cluster-picture", fmt.Sprintf("node %d is reported by the cluster but not known", k))
		}
	}
	if len(hosts) != len(cr.members) || cr.poolConns(victim) >= 0 {
		cr.violate("cluster-picture", fmt.Sprintf("after node %d left: %d hosts known for %d reported, pool of the vanished node: %d", victim, len(hosts), len(cr.members), cr.poolConns(victim)))
	}
	return fmt.Sprintf("CCluster (mkCfgSpec [] [] false false) %s", hlib.List(cr.steps)), cr.viol
}

// clusterScenarios runs the scenarios concurrently; the returned function records the results
func clusterScenarios(o *hlib.Out) func() {
	type res struct {
		term string
		viol [][2]string
	}
	var seeds []uint64
	var fulls []bool
	if o.Tier == "thorough" {
		for i := 0; i < 6; i++ {
			seeds = append(seeds, o.Seed*100+uint64(i)) // seed 0 (i = 0 of seed 0) would switch perturbation off; fine
			fulls = append(fulls, true)
		}
	} else {
		seeds, fulls = []uint64{0, o.Seed}, []bool{true, false}
	}
	chans := make([]chan res, len(seeds))
	for i := range seeds {
		chans[i] = make(chan res, 1)
		go func(i int) {
			t, v := clusterScenario(seeds[i], fulls[i])
			chans[i] <- res{t, v}
		}(i)
	}
	return func() {
		for i := range chans {
			r := <-chans[i]
			idx := -1
			if r.term != "" {
				idx = o.Case("cluster-realtime", true, r.term)
			}
			for _, v := range r.viol {
				o.Violate(idx, v[0], "", v[1], nil)
			}
		}
	}
}
