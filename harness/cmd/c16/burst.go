// A real-time run through the driver's own event path: EVENT frames on the control connection ->
// Session.handleEvent -> event debouncer (1 s) -> handleNodeEvent -> refresh debouncer (1 s) ->
// refreshRing.  A burst of events must lead to a bounded number of refreshes (one), after which the
// session's picture is the node's current report.  Monitor only (no correspondence case).
package main

import (
	"fmt"
	"time"

	"github.com/gocql/gocql"
	"gocqlverif/hlib"
)

func burstTest(o *hlib.Out) func() {
	type res struct {
		kind, detail string
	}
	out := make(chan []res, 1)
	go func() {
		var rs []res
		defer func() { out <- rs }()
		nd := newNode()
		pol := &recPolicy{}
		l1 := localAt(1, v4(1))
		nd.local = l1.row()
		nd.peers = []row{peerAt(2, v4(2)).row()}
		cl := gocql.NewCluster(v4(1).String())
		cl.ProtoVersion = 4
		cl.HostDialer = nd
		cl.NumConns = 1
		cl.ReconnectInterval = 0
		cl.Timeout = 10 * time.Second
		cl.ConnectTimeout = 10 * time.Second
		cl.WriteCoalesceWaitTime = 0
		cl.Logger = nullLogger{}
		cl.PoolConfig.HostSelectionPolicy = pol
		cl.Events.DisableSchemaEvents = true
		s, err := gocql.NewSession(*cl)
		if err != nil {
			rs = append(rs, res{"burst-session", "NewSession failed: " + err.Error()})
			return
		}
		defer func() {
			done := make(chan struct{})
			go func() { s.Close(); close(done) }()
			select {
			case <-done:
			case <-time.After(10 * time.Second):
			}
			nd.closeAll()
		}()
		rg := gocql.VerifC16SessionRing(s)
		nd.mu.Lock()
		base := nd.peerQueries
		nd.peers = []row{peerAt(2, v4(2)).row(), peerAt(3, v4(3)).row()}
		nd.mu.Unlock()
		for i := 0; i < 40; i++ {
			nd.sendEvent("TOPOLOGY_CHANGE", "NEW_NODE", v4(3), 9042)
			if i%4 == 0 {
				nd.sendEvent("STATUS_CHANGE", "UP", v4(3), 9042)
				nd.sendEvent("STATUS_CHANGE", "UP", v4(byte4(50+i)), 9042)
			}
		}
		// (only one status for node 2: every EVENT frame is handled on its own goroutine, conn.go:706, so the
		// order in which two statuses for one address reach the debouncer's buffer is not defined)
		nd.sendEvent("STATUS_CHANGE", "DOWN", v4(2), 9042)
		queries := func() int {
			nd.mu.Lock()
			defer nd.mu.Unlock()
			return nd.peerQueries - base
		}
		deadline := time.Now().Add(12 * time.Second)
		for queries() == 0 && time.Now().Before(deadline) {
			time.Sleep(20 * time.Millisecond)
		}
		time.Sleep(1500 * time.Millisecond)
		n := queries()
		if n < 1 || n > 2 {
			rs = append(rs, res{"burst-refresh-count", fmt.Sprintf("a burst of 62 node events led to %d ring refreshes (expected 1)", n)})
		}
		if rg.GetHost(idStr(3)) == nil {
			rs = append(rs, res{"burst-picture", "after NEW_NODE events and the refresh the reported node 3 is not in the ring"})
		}
		if h := rg.GetHost(idStr(2)); h == nil || h.IsUp() || gocql.VerifC16PoolConns(s, idStr(2)) >= 0 {
			rs = append(rs, res{"burst-down", "node 2 was last reported DOWN in the batch but is up or still has a pool"})
		}
	}()
	return func() {
		o.Count("event-burst-realtime")
		for _, r := range <-out {
			o.Violate(-1, r.kind, "", r.detail, nil)
		}
	}
}

func byte4(i int) int { return i % 200 }
