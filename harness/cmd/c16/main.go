// C16 harness: the driver's picture of the cluster.
//
// Three kinds of correspondence cases (coq/theories/C16/Corr.v):
//
//	CHostFns  HostInfo.update / nodeToNodeAddress / invalidConnectAddr / isValidPeer / hostInfoFromMap's tail
//	CRing     operation histories on the real (unexported) ring: addHostIfMissing, addOrUpdate, removeHost,
//	          with the three indexes dumped and getHost / getHostByIP probed after every operation
//	CSess     histories on a real Session (public NewSession with a HostDialer that leads to the in-memory
//	          node of node.go): topology refreshes with scripted system.local / system.peers contents,
//	          batches of node events, "connected" notifications, host removals; after every step the ring,
//	          the pool membership, the calls received by the host selection policy and whether a debounced
//	          refresh was requested are compared with the model running in lock step.
//
// Property monitors (the property's own words, evaluated on the implementation's outputs only) run
// after every step; see monitors.go.
package main

import (
	"fmt"
	"net"
	"sort"
	"strconv"
	"strings"
	"sync"

	"github.com/gocql/gocql"
	"gocqlverif/hlib"
)

type nullLogger struct{}

func (nullLogger) Print(v ...interface{})                 {}
func (nullLogger) Printf(format string, v ...interface{}) {}
func (nullLogger) Println(v ...interface{})               {}

// ---- recording host selection policy ----

type recPolicy struct {
	mu   sync.Mutex
	log  []string
	ups  int
	adds map[string]int // calls so far, by printed entry
	// what a policy that does what it is told would hold: AddHost adds, RemoveHost removes
	members map[string]bool
}

func (p *recPolicy) rec(kind string, h *gocql.HostInfo) {
	p.mu.Lock()
	e := kind + " " + hlib.Z(idCode(h.HostID()))
	p.log = append(p.log, e)
	if p.adds == nil {
		p.adds = map[string]int{}
	}
	p.adds[e]++
	if p.members == nil {
		p.members = map[string]bool{}
	}
	switch kind {
	case "PAdd":
		p.members[h.HostID()] = true
	case "PRemove":
		delete(p.members, h.HostID())
	}
	if kind == "PUp" {
		p.ups++
	}
	p.mu.Unlock()
}
func (p *recPolicy) AddHost(h *gocql.HostInfo)                 { p.rec("PAdd", h) }
func (p *recPolicy) RemoveHost(h *gocql.HostInfo)              { p.rec("PRemove", h) }
func (p *recPolicy) HostUp(h *gocql.HostInfo)                  { p.rec("PUp", h) }
func (p *recPolicy) HostDown(h *gocql.HostInfo)                { p.rec("PDown", h) }
func (p *recPolicy) SetPartitioner(string)                     {}
func (p *recPolicy) KeyspaceChanged(gocql.KeyspaceUpdateEvent) {}
func (p *recPolicy) Init(*gocql.Session)                       {}
func (p *recPolicy) IsLocal(*gocql.HostInfo) bool              { return true }
func (p *recPolicy) Pick(gocql.ExecutableQuery) gocql.NextHost {
	return func() gocql.SelectedHost { return nil }
}
func (p *recPolicy) take(dropUps bool) []string {
	p.mu.Lock()
	defer p.mu.Unlock()
	var out []string
	for _, e := range p.log {
		if dropUps && strings.HasPrefix(e, "PUp") {
			continue
		}
		out = append(out, e)
	}
	p.log = nil
	return out
}
func (p *recPolicy) count(entry string) int {
	p.mu.Lock()
	defer p.mu.Unlock()
	n := p.adds[entry]
	return n
}
func (p *recPolicy) memberIDs() []string {
	p.mu.Lock()
	defer p.mu.Unlock()
	var ids []string
	for id := range p.members {
		ids = append(ids, id)
	}
	return ids
}
func (p *recPolicy) upCount() int {
	p.mu.Lock()
	defer p.mu.Unlock()
	return p.ups
}

// ---- generators ----

type gen struct {
	r *hlib.Rng
}

// an address from the small pool, in one of its forms
func (g *gen) addr(k int) net.IP {
	if g.r.Chance(25) {
		return v4in6(k)
	}
	return v4(k)
}

func (g *gen) oddIP() net.IP {
	switch g.r.Intn(5) {
	case 0:
		return net.IPv4zero
	case 1:
		return net.IPv6unspecified
	case 2:
		return v6(1 + g.r.Intn(3))
	case 3:
		return net.IP{0, 0, 0, 0}
	}
	return nil
}

func (g *gen) tokens() []string {
	switch g.r.Intn(12) {
	case 0:
		return nil
	case 1:
		return []string{}
	}
	n := 1 + g.r.Intn(3)
	ts := make([]string, n)
	for i := range ts {
		ts[i] = strconv.FormatInt(int64(g.r.Intn(2000))-1000, 10)
	}
	return ts
}

// a HostInfo for ring-level histories: mostly well-formed, sometimes odd
func (g *gen) host(nIDs, nAddrs int) H {
	r := g.r
	a := 1 + r.Intn(nAddrs)
	h := H{Up: !r.Chance(10), Port: 9042, Version: "3.11.4"}
	h.ID = idStr(int64(1 + r.Intn(nIDs)))
	if r.Chance(4) {
		h.ID = ""
	}
	h.Peer = g.addr(a)
	if r.Chance(15) {
		h.Peer = g.oddIP()
	}
	switch r.Intn(10) {
	case 0, 1:
		h.Broadcast = g.addr(a)
	case 2:
		h.Broadcast = g.addr(1 + r.Intn(nAddrs))
	case 3:
		h.Broadcast = g.oddIP()
	}
	if r.Chance(30) {
		h.Listen = g.addr(a)
	}
	h.RPC = g.addr(a)
	if r.Chance(20) {
		h.RPC = g.oddIP()
	} else if r.Chance(10) {
		h.RPC = g.addr(1 + r.Intn(nAddrs))
	}
	if r.Chance(10) {
		h.Preferred = g.addr(1 + r.Intn(nAddrs))
	}
	switch r.Intn(10) {
	case 0, 1, 2:
	case 3:
		h.Connect = g.oddIP()
	case 4:
		h.Connect = g.addr(1 + r.Intn(nAddrs))
	default:
		h.Connect = g.addr(a)
	}
	if r.Chance(8) {
		h.Port = int(r.Pick(0, 9043, 19042))
	}
	h.DC = nameStr("dc", int64(1+r.Intn(2)))
	h.Rack = nameStr("rack", int64(1+r.Intn(2)))
	if r.Chance(5) {
		h.DC = ""
	}
	if r.Chance(5) {
		h.Rack = ""
	}
	h.Tokens = g.tokens()
	return h
}

// ---- host functions ----

func hostFnsCases(o *hlib.Out, g *gen, n int) {
	for i := 0; i < n; i++ {
		hv, fv := g.host(5, 5), g.host(5, 5)
		if g.r.Chance(30) { // sparse target so that update has something to fill in
			hv.Broadcast, hv.Listen, hv.Preferred, hv.Connect = nil, nil, nil, nil
			if g.r.Bool() {
				hv.Peer = nil
			}
			if g.r.Bool() {
				hv.DC, hv.Rack, hv.Tokens, hv.Port = "", "", nil, 0
			}
			if g.r.Chance(20) {
				hv.ID = ""
			}
		}
		h, from := gocql.VerifC16NewHost(hv), gocql.VerifC16NewHost(fv)
		n2n := gocql.VerifC16NodeToNode(h)
		invalid := gocql.VerifC16InvalidConnectAddr(h)
		validPeer := gocql.VerifC16ValidPeer(h)
		// the tail of hostInfoFromMap: connectAddress := ConnectAddress() (identity translator); panics if none
		fromRow := "None"
		func() {
			defer func() { recover() }()
			c := h.ConnectAddress()
			w := hv
			w.Connect = c
			fromRow = hlib.Some(hostTerm(w))
		}()
		gocql.VerifC16Update(h, from)
		upd := gocql.VerifC16View(h)
		k, _ := ipCode(n2n)
		idx := o.Case("host-fns", true, fmt.Sprintf("CHostFns %s %s %s %s %s %s %s", hostTerm(hv), hostTerm(fv), hostTerm(upd),
			hlib.Z(k), hlib.Bool(invalid), hlib.Bool(validPeer), fromRow))
		// monitors: update never overwrites a set field and never changes the state or the id of an identified host
		if hv.ID != "" && upd.ID != hv.ID {
			o.Violate(idx, "update-changes-id", "", fmt.Sprintf("update changed host id %q -> %q", hv.ID, upd.ID), nil)
		}
		if upd.Up != hv.Up {
			o.Violate(idx, "update-changes-state", "", "update changed the up/down state", nil)
		}
		if n2n == nil || invalid == (fromRow != "None") {
			o.Violate(idx, "address-resolution", "", "nodeToNodeAddress nil or invalidConnectAddr inconsistent with the resolved address", nil)
		}
	}
}

// ---- ring histories ----

type rop struct {
	kind int // 0 addIfMissing, 1 addOrUpdate, 2 remove
	h    H
	id   string
}

func (g *gen) ringOps(n, nIDs, nAddrs int) []rop {
	ops := make([]rop, 0, n)
	for i := 0; i < n; i++ {
		switch k := g.r.Intn(100); {
		case k < 35:
			ops = append(ops, rop{kind: 0, h: g.host(nIDs, nAddrs)})
		case k < 65:
			ops = append(ops, rop{kind: 1, h: g.host(nIDs, nAddrs)})
		default:
			id := idStr(int64(1 + g.r.Intn(nIDs)))
			if g.r.Chance(5) {
				id = ""
			}
			ops = append(ops, rop{kind: 2, id: id})
		}
	}
	return ops
}

func plain(id int64, a int) H {
	return H{ID: idStr(id), Peer: v4(a), RPC: v4(a), Connect: v4(a), Port: 9042, DC: "dc1", Rack: "rack1", Tokens: []string{"1"}, Up: true, Version: "3.11.4"}
}

// systematic histories (boundaries of the index logic)
func scriptedRingHistories() [][]rop {
	a := func(h H) rop { return rop{kind: 0, h: h} }
	u := func(h H) rop { return rop{kind: 1, h: h} }
	rm := func(id int64) rop { return rop{kind: 2, id: idStr(id)} }
	bc := func(h H, b int) H { h.Broadcast = v4(b); return h }
	nopeer := func(h H) H { h.Peer = nil; return h }
	return [][]rop{
		{a(plain(1, 1)), a(plain(2, 1)), rm(1)},                        // F-C16-1
		{a(plain(1, 1)), a(plain(2, 1)), rm(2)},                        // the newer one removed
		{a(plain(1, 1)), a(plain(2, 1)), rm(1), rm(2)},                 //
		{a(plain(1, 1)), rm(1), a(plain(2, 1)), rm(1)},                 // sequential reuse of an address
		{a(plain(1, 1)), u(bc(plain(1, 1), 2)), rm(1)},                 // update moves the node-to-node address
		{a(plain(1, 1)), u(bc(plain(1, 1), 1)), rm(1)},                 // update sets broadcast = peer
		{a(plain(1, 1)), a(plain(1, 2)), u(plain(1, 3)), rm(1), rm(1)}, // same id, other address
		{a(nopeer(plain(1, 1))), a(nopeer(plain(2, 2))), rm(1)},        // both keyed 0.0.0.0
		{a(plain(1, 1)), a(plain(2, 2)), a(plain(3, 3)), rm(2), a(plain(2, 4)), rm(1), rm(3), rm(2)},
		{rm(1), a(plain(0, 1)), u(plain(0, 2)), rm(0)}, // empty host id
		{u(plain(1, 1)), u(plain(1, 1)), a(plain(1, 1)), rm(1), u(plain(1, 2))},
	}
}

func keyOf(h *gocql.HostInfo) int64 {
	k, _ := ipCode(gocql.VerifC16NodeToNode(h))
	return k
}

// checkRingIndexes: the property's "looked up by id and by address consistently" on a dump.
// Returns violations as (monitor kind, address key or -100, detail).
type idxViolation struct {
	kind   string
	key    int64
	detail string
}

func checkRingIndexes(rg *gocql.VerifC16Ring) []idxViolation {
	hosts, ips, list := rg.Dump()
	var out []idxViolation
	for id, h := range hosts {
		if h == nil {
			out = append(out, idxViolation{"ring-nil-host", -100, "hosts[" + id + "] is nil"})
			continue
		}
		if h.HostID() != id {
			out = append(out, idxViolation{"ring-id-key", -100, fmt.Sprintf("hosts[%q] holds host id %q", id, h.HostID())})
		}
		// by address: some host of the ring with that address is found
		k := gocql.VerifC16NodeToNode(h).String()
		got, ok := rg.GetByIP(k)
		if !ok || got == nil || gocql.VerifC16NodeToNode(got).String() != k || hosts[got.HostID()] != got {
			out = append(out, idxViolation{"by-address-misses-live-host", keyCode(k),
				fmt.Sprintf("host %s is in the ring with address %s but getHostByIP(%s) = (%v, %v)", id, k, k, got != nil, ok)})
		}
		if rg.GetHost(id) != h {
			out = append(out, idxViolation{"by-id-inconsistent", -100, "getHost(" + id + ") differs from hosts[id]"})
		}
	}
	for k, id := range ips {
		h := hosts[id]
		if h == nil || gocql.VerifC16NodeToNode(h).String() != k {
			out = append(out, idxViolation{"by-address-dangling", keyCode(k),
				fmt.Sprintf("address %s maps to host id %q which is %s", k, id, map[bool]string{true: "not in the ring", false: "in the ring with another address"}[h == nil])})
		}
	}
	seen := map[string]bool{}
	for _, h := range list {
		id := h.HostID()
		if seen[id] || hosts[id] != h {
			out = append(out, idxViolation{"host-list-inconsistent", -100, "hostList entry " + id + " duplicated or not the host stored under its id"})
		}
		seen[id] = true
	}
	if len(list) != len(hosts) {
		out = append(out, idxViolation{"host-list-inconsistent", -100, fmt.Sprintf("hostList has %d entries, hosts %d", len(list), len(hosts))})
	}
	return out
}

// taints: compare the ring before and after a step
type snapshot struct {
	hosts map[string]*gocql.HostInfo
	keys  map[string]int64 // id -> node-to-node key at snapshot time
	views map[string]H     // id -> fields at snapshot time
}

func snap(rg *gocql.VerifC16Ring) snapshot {
	hosts, _, _ := rg.Dump()
	s := snapshot{hosts: hosts, keys: map[string]int64{}, views: map[string]H{}}
	for id, h := range hosts {
		s.keys[id] = keyOf(h)
		s.views[id] = gocql.VerifC16View(h)
	}
	return s
}

func opText(op rop) string {
	switch op.kind {
	case 0:
		return fmt.Sprintf("addHostIfMissing(%s)", gocql.VerifC16NewHost(op.h))
	case 1:
		return fmt.Sprintf("addOrUpdate(%s)", gocql.VerifC16NewHost(op.h))
	}
	return fmt.Sprintf("removeHost(%q)", op.id)
}

func runRingHistory(o *hlib.Out, kind string, ops []rop) {
	rg := gocql.VerifC16NewRing()
	var steps []string
	type pend struct {
		v   idxViolation
		fid string
		at  int
	}
	var pending []pend
	seen := map[string]bool{}
	type retainedHosts struct {
		at   int
		cur  map[string]*gocql.HostInfo
		all  []*gocql.HostInfo
		ids  string
		nall int
	}
	var retained []retainedHosts
	var text []string
	probeIDs := []int64{0, 1, 2, 3, 4, 5, 6}
	probeKeys := []int64{0, -1}
	for k := 1; k <= 6; k++ {
		c, _ := ipCode(v4(k))
		probeKeys = append(probeKeys, c)
	}
	for i, op := range ops {
		var opT, retT string
		text = append(text, opText(op))
		switch op.kind {
		case 0:
			opT = "OAddIfMissing " + hostTerm(op.h)
			ex, ok, p := rg.AddIfMissing(gocql.VerifC16NewHost(op.h))
			if p != "" {
				retT = "RPanicked"
			} else {
				retT = fmt.Sprintf("(RHost %s %s)", hostTerm(gocql.VerifC16View(ex)), hlib.Bool(ok))
			}
		case 1:
			opT = "OAddOrUpdate " + hostTerm(op.h)
			res, p := rg.AddOrUpdate(gocql.VerifC16NewHost(op.h))
			if p != "" {
				retT = "RPanicked"
			} else {
				retT = fmt.Sprintf("(RHost %s true)", hostTerm(gocql.VerifC16View(res)))
			}
		default:
			opT = "ORemove " + hlib.Z(idCode(op.id))
			retT = fmt.Sprintf("(RBool %s)", hlib.Bool(rg.Remove(op.id)))
		}
		var found, ipp []string
		for _, id := range probeIDs {
			found = append(found, hlib.Bool(rg.GetHost(idStr(id)) != nil))
		}
		for _, k := range probeKeys {
			h, ok := rg.GetByIP(keyIP(k).String())
			hid := int64(-9)
			if h != nil {
				hid = idCode(h.HostID())
			}
			ipp = append(ipp, fmt.Sprintf("IPP %s %s %s", hlib.Z(k), hlib.Z(hid), hlib.Bool(ok)))
		}
		// retained outputs: the copies handed out by currentHosts / allHosts must not change afterwards
		cur, all := rg.CurrentHosts(), rg.AllHosts()
		ids := make([]string, 0, len(cur))
		for id := range cur {
			ids = append(ids, id)
		}
		sort.Strings(ids)
		retained = append(retained, retainedHosts{i, cur, all, strings.Join(ids, ","), len(all)})
		_, ips, list := rg.Dump()
		steps = append(steps, fmt.Sprintf("RStep (%s) %s %s %s %s %s %s", opT, retT, ipsTerm(ips), listTerm(list), hlib.ZListI(probeIDs),
			hlib.List(found), hlib.List(ipp)))
		for _, v := range checkRingIndexes(rg) {
			fid := ""
			if !seen[v.kind+"/"+fid] {
				seen[v.kind+"/"+fid] = true
				pending = append(pending, pend{v, fid, i})
			}
		}
	}
	idx := o.Case(kind, len(ops) > 1, "CRing "+hlib.List(steps)+" "+dumpTerm(rg))
	for _, rt := range retained {
		ids := make([]string, 0, len(rt.cur))
		for id := range rt.cur {
			ids = append(ids, id)
		}
		sort.Strings(ids)
		if strings.Join(ids, ",") != rt.ids || len(rt.all) != rt.nall {
			o.Violate(idx, "retained-hosts-changed", "", fmt.Sprintf("the host map / list handed out by currentHosts / allHosts after operation %d changed afterwards: %s -> %s",
				rt.at, rt.ids, strings.Join(ids, ",")), map[string]interface{}{"history": text})
			break
		}
	}
	for _, p := range pending {
		o.Violate(idx, p.v.kind, p.fid, p.v.detail, map[string]interface{}{"history": text[:p.at+1]})
	}
}

// every history of up to 4 operations over a small alphabet (2 ids x 2 addresses; adds, updates that move the
// broadcast address, removals)
func exhaustiveRing(o *hlib.Out) {
	bc := func(h H, b int) H { h.Broadcast = v4(b); return h }
	alpha := []rop{
		{kind: 0, h: plain(1, 1)}, {kind: 0, h: plain(1, 2)}, {kind: 0, h: plain(2, 1)}, {kind: 0, h: plain(2, 2)},
		{kind: 1, h: bc(plain(1, 1), 2)}, {kind: 1, h: bc(plain(2, 2), 1)},
		{kind: 2, id: idStr(1)}, {kind: 2, id: idStr(2)},
	}
	n := 0
	var rec func(prefix []rop, depth int)
	rec = func(prefix []rop, depth int) {
		if len(prefix) > 0 {
			runRingHistory(o, "ring-exhaustive", append([]rop(nil), prefix...))
			n++
		}
		if depth == 0 {
			return
		}
		for _, a := range alpha {
			rec(append(prefix, a), depth-1)
		}
	}
	rec(nil, 4)
	o.Extra["exhaustive_ring_histories"] = fmt.Sprintf("all %d histories of 1..4 operations over an alphabet of %d operations", n, len(alpha))
}

// the event debouncer's buffer: n frames into one window, what flush hands to the callback
func windowCases(o *hlib.Out) {
	cap := gocql.VerifC16EventBufferSize
	for _, n := range []int{0, 1, 2, cap - 1, cap, cap + 1, cap + 500, 3 * cap} {
		got := gocql.VerifC16EventWindow(n)
		xs := make([]int64, len(got))
		for i, g := range got {
			xs[i] = int64(g)
		}
		idx := o.Case("event-window", n > 0, fmt.Sprintf("CWindow %s %s", hlib.Nat(n), hlib.ZListI(xs)))
		// the property's "bounded": never more than the buffer size per window, nothing lost below it, order kept
		want := n
		if want > cap {
			want = cap
		}
		ok := len(got) == want
		for i, g := range got {
			ok = ok && g == i
		}
		if !ok {
			o.Violate(idx, "event-window", "", fmt.Sprintf("%d frames in one window: %d delivered (expected the first %d in order)", n, len(got), want), nil)
		}
	}
}

// the hand-over of a batch to the callback: a window is flushed, further frames arrive before the callback
// reads its batch; what both callbacks see (retained-input recheck: the first batch must still be the first window)
func handoverCases(o *hlib.Out) {
	cap := gocql.VerifC16EventBufferSize
	for _, fs := range [][2]int{{1, 1}, {1, 3}, {3, 1}, {5, 5}, {2, 7}, {0, 2}, {2, 0}, {cap, 2}, {cap + 1, 1}, {2, cap + 1}, {cap, cap}} {
		b1, b2 := gocql.VerifC16EventHandover(fs[0], fs[1])
		toZ := func(b []int) []int64 {
			xs := make([]int64, len(b))
			for i, g := range b {
				xs[i] = int64(g)
			}
			return xs
		}
		idx := o.Case("event-handover", true, fmt.Sprintf("CHandover %s %s %s %s", hlib.Nat(fs[0]), hlib.Nat(fs[1]), hlib.ZListI(toZ(b1)), hlib.ZListI(toZ(b2))))
		min := func(a, b int) int {
			if a < b {
				return a
			}
			return b
		}
		ok := len(b1) == min(fs[0], cap) && len(b2) == min(fs[1], cap)
		for i, g := range b1 {
			ok = ok && g == i
		}
		for i, g := range b2 {
			ok = ok && g == 1000000+i
		}
		if !ok {
			o.Violate(idx, "event-batch-changed-after-handover", "", fmt.Sprintf("window of %d frames flushed, %d frames arrived before its callback read: the callbacks saw %v... and %v...",
				fs[0], fs[1], head(b1), head(b2)), nil)
		}
	}
}

func head(b []int) []int {
	if len(b) > 6 {
		return b[:6]
	}
	return b
}

func main() {
	o := hlib.Init("C16")
	// hlib.NewRng(seed) starts splitmix64 at seed*G and steps by G: the streams of consecutive seeds are the same
	// stream shifted by one draw and the generators re-synchronise after a few cases.  Derive the generator's
	// stream from the first output instead (still a function of the seed only).
	g := &gen{r: hlib.NewRng(o.Rng.U64())}
	o.Rule = "inputs: HostInfo values over a pool of 5 ids x 6 addresses (4-byte and 16-byte forms, nil, 0.0.0.0, ::, IPv6) with missing fields; " +
		"ring operation histories (scripted boundary histories + random, 3..14 operations); session histories of 2..7 steps " +
		"(refresh after joins/leaves/address changes/replacements on the same address, invalid and duplicate peer rows, rows without a usable " +
		"address, failing refresh, control-connection re-establishment possibly on a node reporting another broadcast address, " +
		"event batches of 1..50 frames for known and unknown addresses, connected notifications, removals) under host filters and " +
		"disabled event classes; 11 scripted ring histories and 11 scripted session histories at the boundaries; one real-time burst of 62 EVENT " +
		"frames through the wire and both debouncers (monitor only); distinct = distinct Coq case term; non-trivial = a history of more than one step"

	var finishBurst, finishCluster func()
	if o.Only < 0 {
		finishBurst = burstTest(o)
	}
	if !o.Search {
		finishCluster = clusterScenarios(o)
	}
	var finishHandover func()
	if o.Only < 0 {
		finishHandover = handoverSession(o)
	}
	hostFnsCases(o, g, 300*o.Scale)
	for _, h := range scriptedRingHistories() {
		runRingHistory(o, "ring-scripted", h)
	}
	maxOps := 12
	if o.Search {
		maxOps = 30
	}
	for i := 0; i < 350*o.Scale; i++ {
		nIDs, nAddrs := 2+g.r.Intn(4), 2+g.r.Intn(4)
		runRingHistory(o, "ring-random", g.ringOps(3+g.r.Intn(maxOps), nIDs, nAddrs))
	}
	if o.Tier == "thorough" && !o.Search {
		exhaustiveRing(o)
	}
	windowCases(o)
	handoverCases(o)
	refreshGateCases(o)
	refreshGateSession(o)
	scriptedSessions(o)
	for i := 0; i < 250*o.Scale; i++ {
		g.randomSession(o)
	}
	if finishBurst != nil {
		finishBurst()
	}
	if finishCluster != nil {
		finishCluster()
	}
	if finishHandover != nil {
		finishHandover()
	}
	o.Finish("From GocqlV Require Import Lib.Base C16.ZMap C16.Model C16.Corr.", "C16.Corr.case", "C16.Corr.run")
}
