// The refresh debouncer with a refresh request placed while a refresh is in flight (deterministic: the
// refresh function is gated through the shim).  Every request must be followed by a refresh that starts
// after it; at session level the picture must then follow the report the request announced.
package main

import (
	"fmt"
	"time"

	"github.com/gocql/gocql"
	"gocqlverif/hlib"
)

func traceTerm(tr []int) string {
	names := []string{"RDRequest", "RDStart", "RDEnd"}
	items := make([]string, len(tr))
	for i, k := range tr {
		items[i] = names[k]
	}
	return "CRefreshTrace " + hlib.List(items)
}

// a refresh started after the last request?
func served(tr []int) bool {
	ok := true
	for _, k := range tr {
		if k == 0 {
			ok = false
		} else if k == 1 {
			ok = true
		}
	}
	return ok
}

func refreshGateCases(o *hlib.Out) {
	const iv = 30 * time.Millisecond
	// scripts: r = request, w = wait until a refresh is in flight, e = let it end, q = wait for quiescence
	for _, script := range []string{"rweq", "rwreq", "rwrreq", "rwrewrewq", "rrwerweq", "rweqrweq"} {
		g := gocql.VerifC16NewRefreshGate(iv)
		inflight := 0
		for _, c := range script {
			switch c {
			case 'r':
				g.Request()
			case 'w':
				if g.WaitInFlight(2 * time.Second) {
					inflight++
				}
			case 'e':
				if inflight > 0 {
					g.Release()
					inflight--
				}
			case 'q':
				// quiescence: any refresh that is due starts within the interval; let each one run and end
				for ; inflight > 0; inflight-- {
					g.Release()
				}
				for g.WaitInFlight(iv + 400*time.Millisecond) {
					g.Release()
				}
			}
		}
		for ; inflight > 0; inflight-- {
			g.Release()
		}
		for g.WaitInFlight(iv + 400*time.Millisecond) {
			g.Release()
		}
		time.Sleep(5 * time.Millisecond)
		tr := g.Trace()
		g.Stop()
		idx := o.Case("refresh-debouncer-trace", true, traceTerm(tr))
		if !served(tr) {
			o.Violate(idx, "refresh-request-dropped", "", fmt.Sprintf("script %q on the real refreshDebouncer: trace %v (0 request, 1 refresh start, 2 refresh end): no refresh started after the last request", script, tr), nil)
		}
	}
}

// at session level: a refresh is in flight (it has read system.peers); node 4 joins and its NEW_NODE event is
// handled; the refresh ends.  A later refresh must start and the ring must hold node 4.
func refreshGateSession(o *hlib.Out) {
	l1 := localAt(1, v4(1))
	sr, err := newSessRun(o, sessCfg{}, 1, l1, []rowSpec{peerAt(2, v4(2))})
	if err != nil {
		o.Count("session-create-failed")
		return
	}
	const iv = 30 * time.Millisecond
	g := gocql.VerifC16GateRingRefresh(sr.s, iv)
	newNode := []gocql.VerifC16Event{{Topology: true, Change: "NEW_NODE", Host: v4(4), Port: 9042}}
	// first refresh: node 3 joined
	sr.setRows(l1, []rowSpec{peerAt(2, v4(2)), peerAt(3, v4(3))})
	g.NoteRequest()
	gocql.VerifC16NodeEvents(sr.s, []gocql.VerifC16Event{{Topology: true, Change: "NEW_NODE", Host: v4(3), Port: 9042}})
	okFlight := g.WaitInFlight(2 * time.Second) // it has read the peers and is still in flight
	// meanwhile node 4 joins and the event is handled
	sr.setRows(l1, []rowSpec{peerAt(2, v4(2)), peerAt(3, v4(3)), peerAt(4, v4(4))})
	g.NoteRequest()
	gocql.VerifC16NodeEvents(sr.s, newNode)
	g.Release()
	for g.WaitInFlight(iv + 500*time.Millisecond) {
		g.Release()
	}
	time.Sleep(5 * time.Millisecond)
	tr := g.Trace()
	sr.text = append(sr.text, fmt.Sprintf("refresh in flight (node 3 joined); node 4 joins, NEW_NODE handled; refresh ends; trace %v", tr))
	idxT := o.Case("refresh-debouncer-trace", true, traceTerm(tr))
	if !okFlight || !served(tr) {
		o.Violate(idxT, "refresh-request-dropped", "", fmt.Sprintf("session: NEW_NODE handled while a ring refresh was in flight; trace %v: no refresh started after it", tr), nil)
	}
	if sr.rg.GetHost(idStr(4)) == nil || sr.rg.GetHost(idStr(3)) == nil {
		sr.violate("refresh-request-dropped", "", "node 4 joined while a refresh was in flight and its NEW_NODE event was handled, but the session still does not know it")
	}
	// the same history for the model: two batches, two refreshes
	// for the model: the final picture is that of one refresh with the last report
	sr.steps = append(sr.steps, fmt.Sprintf("SO (SRefresh %s %s) %s", l1.term(true), rowTerms([]rowSpec{peerAt(2, v4(2)), peerAt(3, v4(3)), peerAt(4, v4(4))}), sr.obs(0, false)))
	sr.finish("session-refresh-in-flight")
}
