// Session histories: a real gocql.Session (public NewSession, HostDialer = the in-memory node of
// node.go) driven step by step; after every step the ring, the pool membership, the calls received by
// the host selection policy and "a debounced refresh is armed" are recorded for the lock-step
// comparison with the model (Corr.check_sess), and the property monitors run.
package main

import (
	"errors"
	"fmt"
	"net"
	"sort"
	"strconv"
	"strings"
	"time"

	"github.com/gocql/gocql"
	"gocqlverif/hlib"
)

// one row of system.local / system.peers as scripted
type rowSpec struct {
	id                             int64 // > 0
	peer, bcast, listen, rpc, pref net.IP
	dc, rack                       int64
	tokens                         []string
	tokensSet                      bool
	nullID                         bool // host_id column NULL
}

func (rs rowSpec) row() row {
	r := row{peer: rs.peer, broadcast: rs.bcast, listen: rs.listen, rpc: rs.rpc, preferred: rs.pref, version: "3.11.4",
		tokens: rs.tokens, tokensSet: rs.tokensSet}
	if !rs.nullID {
		r.hostID = idUUID(rs.id)
	}
	if rs.dc != 0 {
		s := nameStr("dc", rs.dc)
		r.dc = &s
	}
	if rs.rack != 0 {
		s := nameStr("rack", rs.rack)
		r.rack = &s
	}
	return r
}

// the HostInfo that hostInfoFromMap starts from, filled with the row's columns (before address resolution)
func (rs rowSpec) term(local bool) string {
	h := H{ID: idStr(rs.id), RPC: rs.rpc, Port: 9042, DC: nameStr("dc", rs.dc), Rack: nameStr("rack", rs.rack), Up: true}
	if local {
		h.Broadcast, h.Listen = rs.bcast, rs.listen
	} else {
		h.Peer, h.Preferred = rs.peer, rs.pref
	}
	if rs.tokensSet && len(rs.tokens) > 0 {
		h.Tokens = rs.tokens
	}
	if rs.nullID {
		h.ID = "" // a NULL host_id: the host has no id
	}
	return hostTerm(h)
}

func validAddr(ip net.IP) bool { return ip != nil && !ip.IsUnspecified() }

// the property's reading of a reported row: a peer is valid when it has an rpc address, a host id, a data
// centre, a rack and at least one token
func (rs rowSpec) specValidPeer() bool {
	return rs.rpc != nil && rs.id != 0 && !rs.nullID && rs.dc != 0 && rs.rack != 0 && rs.tokensSet && len(rs.tokens) > 0
}

// no column of the row holds an address one could connect to
func (rs rowSpec) noUsableAddress(local bool) bool {
	if local {
		return !validAddr(rs.rpc) && !validAddr(rs.bcast)
	}
	return !validAddr(rs.rpc) && !validAddr(rs.pref) && !validAddr(rs.peer)
}

type sessCfg struct {
	denyIDs, denyDCs []int64
	disTopo, disStat bool
}

func (c sessCfg) term() string {
	return fmt.Sprintf("(mkCfgSpec %s %s %s %s)", hlib.ZListI(c.denyIDs), hlib.ZListI(c.denyDCs), hlib.Bool(c.disTopo), hlib.Bool(c.disStat))
}
func (c sessCfg) accepts(id, dc int64) bool {
	for _, x := range c.denyIDs {
		if x == id {
			return false
		}
	}
	for _, x := range c.denyDCs {
		if x == dc {
			return false
		}
	}
	return true
}

func peerAt(id int64, a net.IP) rowSpec {
	return rowSpec{id: id, peer: a, rpc: a, dc: 1, rack: 1, tokens: []string{strconv.Itoa(int(id) * 100)}, tokensSet: true}
}
func localAt(id int64, a net.IP) rowSpec {
	return rowSpec{id: id, bcast: a, listen: a, rpc: a, dc: 1, rack: 1, tokens: []string{strconv.Itoa(int(id) * 100)}, tokensSet: true}
}

func (g *gen) peerRow(id int64, a int) rowSpec {
	r := g.r
	rs := peerAt(id, g.addr(a))
	rs.rpc = g.addr(a)
	rs.dc, rs.rack = int64(1+r.Intn(2)), int64(1+r.Intn(2))
	if r.Chance(10) {
		rs.pref = g.addr(a)
	}
	switch r.Intn(44) { // invalid / odd rows
	case 0:
		rs.rpc = nil
	case 1:
		rs.dc = 0
	case 2:
		rs.rack = 0
	case 3:
		rs.tokensSet, rs.tokens = false, nil
	case 4:
		rs.tokens = []string{}
	case 5:
		rs.rpc = net.IPv4zero // rpc_address 0.0.0.0: the row has an rpc address; the driver connects through peer
	case 6:
		rs.rpc = g.addr(1 + r.Intn(6)) // rpc address differs from peer
	case 7:
		rs.peer = v6(a)
	case 8:
		rs.nullID = true // gossip has not delivered the host id yet
	}
	return rs
}

func (g *gen) localRow(id int64, a int) rowSpec {
	rs := localAt(id, g.addr(a))
	rs.listen, rs.rpc = g.addr(a), g.addr(a)
	if g.r.Chance(10) {
		rs.rpc = net.IPv4zero
	}
	return rs
}

type sessRun struct {
	o      *hlib.Out
	nd     *node
	pol    *recPolicy
	s      *gocql.Session
	rg     *gocql.VerifC16Ring
	cfg    sessCfg
	steps  []string
	text   []string
	downed map[string]*gocql.HostInfo // hosts reported down and not connected again since
	viol   []func(idx int)
	seen   map[string]bool // (monitor kind, finding) already reported for this history
}

func errCode(err error, panicked string) int64 {
	switch {
	case panicked != "":
		return 3
	case err == nil:
		return 0
	case errors.Is(err, gocql.ErrCannotFindHost):
		return 1
	case errors.Is(err, gocql.ErrHostAlreadyExists):
		return 2
	}
	return 4
}

func (sr *sessRun) obs(code int64, dropUps bool) string {
	pending := gocql.VerifC16RefreshPending(sr.s)
	pool := gocql.VerifC16PoolHosts(sr.s)
	ids := make([]int64, len(pool))
	for i, p := range pool {
		ids[i] = idCode(p)
	}
	sort.Slice(ids, func(i, j int) bool { return ids[i] < ids[j] })
	return fmt.Sprintf("(OBS %s %s %s %s %s)", hlib.Z(code), hlib.Bool(pending), dumpTerm(sr.rg), hlib.ZListI(ids), hlib.List(sr.pol.take(dropUps)))
}

// violate: recorded now, emitted when the case index is known; one report per (kind, finding) and history
func (sr *sessRun) violate(kind, finding, detail string) {
	if sr.seen[kind+"/"+finding] {
		return
	}
	sr.seen[kind+"/"+finding] = true
	hist := append([]string(nil), sr.text...)
	sr.viol = append(sr.viol, func(idx int) {
		sr.o.Violate(idx, kind, finding, detail, map[string]interface{}{"history": hist})
	})
}

// monitors evaluated after every step
func (sr *sessRun) afterStep(before snapshot) {
	after := snap(sr.rg)
	for _, v := range checkRingIndexes(sr.rg) {
		sr.violate(v.kind, "", v.detail)
	}
	// a node reported down is not offered until it is connected again
	for id, h := range sr.downed {
		if after.hosts[id] != h {
			delete(sr.downed, id) // removed or replaced: another node object
			continue
		}
		if h.IsUp() {
			sr.violate("down-host-offered", "", "host "+id+" was reported DOWN and is marked up again without a connection")
		}
	}
	// the selection policy has been told to forget every host that is no longer known
	for _, id := range sr.pol.memberIDs() {
		if _, ok := after.hosts[id]; !ok {
			sr.violate("policy-keeps-vanished-host", "", "host "+id+" is not in the ring but the selection policy was never told to remove it")
		}
	}
	// pools only for hosts of the ring
	for _, p := range gocql.VerifC16PoolHosts(sr.s) {
		if _, ok := after.hosts[p]; !ok {
			sr.violate("pool-for-unknown-host", "", "a connection pool exists for host "+p+" which is not in the ring")
		}
	}
}

func rowsText(local rowSpec, peers []rowSpec) string {
	var sb strings.Builder
	fmt.Fprintf(&sb, "local{id=%d bcast=%v rpc=%v}", local.id, local.bcast, local.rpc)
	for _, p := range peers {
		fmt.Fprintf(&sb, " peer{id=%d peer=%v rpc=%v dc=%d rack=%d tokens=%d}", p.id, p.peer, p.rpc, p.dc, p.rack, len(p.tokens))
	}
	return sb.String()
}

func rowTerms(peers []rowSpec) string {
	ts := make([]string, len(peers))
	for i, p := range peers {
		ts[i] = p.term(false)
	}
	return hlib.List(ts)
}

// expected ids after a successful refresh, from the property text
func (sr *sessRun) expectedIDs(local rowSpec, peers []rowSpec) (ids map[string]bool, dup bool) {
	ids = map[string]bool{}
	add := func(rs rowSpec) {
		if !sr.cfg.accepts(rs.id, rs.dc) {
			return
		}
		if ids[idStr(rs.id)] {
			dup = true
		}
		ids[idStr(rs.id)] = true
	}
	add(local)
	for _, p := range peers {
		if p.specValidPeer() {
			add(p)
		}
	}
	return
}

func (sr *sessRun) refreshMonitor(code int64, local rowSpec, peers []rowSpec, before snapshot) {
	want, _ := sr.expectedIDs(local, peers)
	noAddr := local.noUsableAddress(true)
	for _, p := range peers {
		noAddr = noAddr || p.noUsableAddress(false)
	}
	hosts, _, _ := sr.rg.Dump()
	bad := ""
	switch {
	case code == 3:
		sr.violate("refresh-panics", "", "refreshRing panicked")
		return
	case noAddr:
		// a row without any usable address: the report is unreadable; the refresh must fail like any failed
		// refresh, leaving the picture as it was
		same := code == 4 && len(hosts) == len(before.hosts)
		for id, h := range before.hosts {
			same = same && hosts[id] == h
		}
		if !same {
			sr.violate("unusable-row-refresh", "", fmt.Sprintf("a report with a row without usable address: refresh code %d, ring changed or refresh did not fail", code))
		}
		return
	case code != 0:
		bad = fmt.Sprintf("refresh failed (code %d) although the control node answered", code)
	default:
		for id := range want {
			if hosts[id] == nil {
				bad += " reported host " + id + " missing from the ring;"
			}
		}
		for id := range hosts {
			if !want[id] {
				bad += " host " + id + " is in the ring but not in the accepted report;"
			}
		}
		pool := map[string]bool{}
		for _, p := range gocql.VerifC16PoolHosts(sr.s) {
			pool[p] = true
		}
		for id := range want {
			if prev, was := before.hosts[id]; (!was || prev != hosts[id]) && hosts[id] != nil && !pool[id] {
				bad += " new or replaced host " + id + " has no connection pool;"
			}
		}
		members := map[string]bool{}
		for _, id := range sr.pol.memberIDs() {
			members[id] = true
		}
		for id := range want {
			if prev, was := before.hosts[id]; (!was || prev != hosts[id]) && hosts[id] != nil && !members[id] {
				bad += " new or replaced host " + id + " was not announced to the selection policy;"
			}
		}
		// "a node whose address changed is replaced": the ring's record carries the reported addresses
		// (a host id reported twice counts once, by its first accepted report)
		checked := map[int64]bool{}
		check := func(rs rowSpec, local bool) {
			h := hosts[idStr(rs.id)]
			if h == nil || !want[idStr(rs.id)] || !sr.cfg.accepts(rs.id, rs.dc) || checked[rs.id] {
				return
			}
			checked[rs.id] = true
			n2n, conn := rs.peer, rs.rpc
			if local {
				n2n = rs.bcast
			}
			if !validAddr(conn) {
				conn = rs.pref
			}
			if !validAddr(conn) {
				conn = n2n
			}
			if validAddr(n2n) && !gocql.VerifC16NodeToNode(h).Equal(n2n) {
				bad += fmt.Sprintf(" host %s is reported at %v but the ring has it at %v;", idStr(rs.id), n2n, gocql.VerifC16NodeToNode(h))
			}
			if validAddr(conn) && !h.ConnectAddress().Equal(conn) {
				bad += fmt.Sprintf(" host %s is reported with connect address %v but the ring connects to %v;", idStr(rs.id), conn, h.ConnectAddress())
			}
		}
		check(local, true)
		for _, p := range peers {
			if p.specValidPeer() {
				check(p, false)
			}
		}
	}
	if bad != "" {
		sr.violate("refresh-host-set", "", bad)
	}
}

func (sr *sessRun) close() {
	if sr.s != nil {
		done := make(chan struct{})
		go func() { sr.s.Close(); close(done) }()
		select {
		case <-done:
		case <-time.After(10 * time.Second):
		}
	}
	sr.nd.closeAll()
}

func settle(cond func() bool) bool {
	deadline := time.Now().Add(10 * time.Second)
	for !cond() {
		if time.Now().After(deadline) {
			return false
		}
		time.Sleep(200 * time.Microsecond)
	}
	return true
}

func (sr *sessRun) setRows(local rowSpec, peers []rowSpec) {
	sr.nd.mu.Lock()
	sr.nd.local = local.row()
	sr.nd.peers = nil
	for _, p := range peers {
		sr.nd.peers = append(sr.nd.peers, p.row())
	}
	sr.nd.mu.Unlock()
}

func newSessRun(o *hlib.Out, cfg sessCfg, contact int, local rowSpec, peers []rowSpec) (*sessRun, error) {
	sr := &sessRun{o: o, nd: newNode(), pol: &recPolicy{}, cfg: cfg, downed: map[string]*gocql.HostInfo{}, seen: map[string]bool{}}
	sr.setRows(local, peers)
	cl := gocql.NewCluster(v4(contact).String())
	cl.ProtoVersion = 4
	cl.HostDialer = sr.nd
	cl.NumConns = 1
	cl.ReconnectInterval = 0
	cl.Timeout = 10 * time.Second
	cl.ConnectTimeout = 10 * time.Second
	cl.WriteCoalesceWaitTime = 0
	cl.Logger = nullLogger{}
	cl.PoolConfig.HostSelectionPolicy = sr.pol
	cl.Events.DisableSchemaEvents = true
	cl.Events.DisableTopologyEvents = cfg.disTopo
	cl.Events.DisableNodeStatusEvents = cfg.disStat
	if len(cfg.denyIDs)+len(cfg.denyDCs) > 0 {
		cl.HostFilter = gocql.HostFilterFunc(func(h *gocql.HostInfo) bool {
			return cfg.accepts(idCode(h.HostID()), nameCode("dc", h.DataCenter()))
		})
	}
	s, err := gocql.NewSession(*cl)
	if err != nil {
		sr.nd.closeAll()
		return nil, err
	}
	sr.s = s
	sr.rg = gocql.VerifC16SessionRing(s)
	// every initial pool connects once and reports "connected" asynchronously: wait for those notifications
	npools := len(gocql.VerifC16PoolHosts(s))
	if !settle(func() bool { return sr.pol.upCount() >= npools && gocql.VerifC16PoolIdle(s) }) {
		sr.close()
		return nil, errors.New("initial pools did not settle")
	}
	gocql.VerifC16SetPoolSize(s, 0)
	sr.text = append(sr.text, fmt.Sprintf("NewSession(contact=%v, deny ids %v dcs %v) with %s", v4(contact), cfg.denyIDs, cfg.denyDCs, rowsText(local, peers)))
	sr.steps = append(sr.steps, fmt.Sprintf("SO (SNew %s %s %s) %s", ipTerm(v4(contact)), local.term(true), rowTerms(peers), sr.obs(0, true)))
	sr.afterStep(snapshot{hosts: map[string]*gocql.HostInfo{}, keys: map[string]int64{}, views: map[string]H{}})
	// the initial picture is also "what the cluster reported"
	want, _ := sr.expectedIDs(local, peers)
	hosts, _, _ := sr.rg.Dump()
	for id := range want {
		if hosts[id] == nil {
			sr.violate("initial-host-set", "", "reported host "+id+" missing from the ring after NewSession")
		}
	}
	return sr, nil
}

func (sr *sessRun) refresh(local rowSpec, peers []rowSpec, viaDebouncer bool) bool {
	before := snap(sr.rg)
	sr.setRows(local, peers)
	var err error
	var panicked string
	if viaDebouncer {
		err = gocql.VerifC16Refresh(sr.s)
	} else {
		err, panicked = gocql.VerifC16RefreshDirect(sr.s)
	}
	code := errCode(err, panicked)
	sr.text = append(sr.text, "refresh with "+rowsText(local, peers)+fmt.Sprintf(" -> %v %s", err, panicked))
	sr.steps = append(sr.steps, fmt.Sprintf("SO (SRefresh %s %s) %s", local.term(true), rowTerms(peers), sr.obs(code, false)))
	sr.afterStep(before)
	sr.refreshMonitor(code, local, peers, before)
	return code != 3
}

func (sr *sessRun) refreshFail() {
	before := snap(sr.rg)
	sr.nd.mu.Lock()
	sr.nd.failLocal = true
	sr.nd.mu.Unlock()
	err, panicked := gocql.VerifC16RefreshDirect(sr.s)
	sr.nd.mu.Lock()
	sr.nd.failLocal = false
	sr.nd.mu.Unlock()
	sr.text = append(sr.text, fmt.Sprintf("refresh while the control node fails system.local -> %v %s", err, panicked))
	sr.steps = append(sr.steps, fmt.Sprintf("SO (SRefreshFail) %s", sr.obs(errCode(err, panicked), false)))
	sr.afterStep(before)
	after := snap(sr.rg)
	same := len(after.hosts) == len(before.hosts)
	for id, h := range before.hosts {
		same = same && after.hosts[id] == h
	}
	if !same {
		sr.violate("failed-refresh-changes-ring", "", "a refresh that could not read the cluster changed the ring")
	}
}

// controlReconnect: the control connection is re-established (on the previous control host's address)
// and the node now answers system.local with [local]; a refresh follows.
func (sr *sessRun) controlReconnect(local rowSpec, peers []rowSpec) {
	before := snap(sr.rg)
	sr.setRows(local, peers)
	adds := sr.pol.count("PAdd " + hlib.Z(local.id))
	gocql.VerifC16ControlReconnect(sr.s)
	// setupConn announces the control host to pool and policy on its own goroutine
	settle(func() bool { return sr.pol.count("PAdd "+hlib.Z(local.id)) > adds })
	time.Sleep(time.Millisecond)
	sr.nd.mu.Lock()
	contact := sr.nd.lastDial
	sr.nd.mu.Unlock()
	sr.text = append(sr.text, fmt.Sprintf("control connection re-established at %v; node answers %s", contact, rowsText(local, peers)))
	sr.steps = append(sr.steps, fmt.Sprintf("SO (SControl %s %s %s) %s", ipTerm(contact), local.term(true), rowTerms(peers), sr.obs(0, false)))
	sr.afterStep(before)
}

type evSpec struct {
	topo   bool
	change string
	key    int64
}

func changeCode(s string) int64 {
	switch s {
	case "UP":
		return 1
	case "DOWN":
		return 2
	}
	return 0
}

func (sr *sessRun) events(evs []evSpec) bool {
	before := snap(sr.rg)
	var ts, tx []string
	ge := make([]gocql.VerifC16Event, len(evs))
	last := map[int64]string{}
	topo := false
	for i, e := range evs {
		ip := keyIP(e.key)
		ge[i] = gocql.VerifC16Event{Topology: e.topo, Change: e.change, Host: ip, Port: 9042}
		if e.topo {
			topo = true
			ts = append(ts, fmt.Sprintf("ETopo %s %s", hlib.Z(changeCode(e.change)), hlib.Z(e.key)))
		} else {
			ts = append(ts, fmt.Sprintf("EStatus %s %s", hlib.Z(changeCode(e.change)), hlib.Z(e.key)))
			last[e.key] = e.change
		}
		tx = append(tx, fmt.Sprintf("%s %v", e.change, ip))
	}
	// which hosts does the batch finally report DOWN (by the ring's own address index, before the batch)
	type dn struct {
		id string
		h  *gocql.HostInfo
	}
	var downs []dn
	unknownUp := false
	if !sr.cfg.disStat {
		for k, ch := range last {
			known := false
			for id, h := range before.hosts {
				if before.keys[id] == k {
					known = true
					if ch == "DOWN" && sr.cfg.accepts(idCode(id), nameCode("dc", h.DataCenter())) {
						if got, ok := sr.rg.GetByIP(keyIP(k).String()); ok && got == h {
							downs = append(downs, dn{id, h})
						}
					}
				}
			}
			if ch == "UP" && !known {
				unknownUp = true
			}
		}
	}
	p := gocql.VerifC16NodeEvents(sr.s, ge)
	code := int64(0)
	if p != "" {
		code = 3
	}
	pendingBefore := len(sr.steps)
	sr.text = append(sr.text, "events ["+strings.Join(tx, ", ")+"] "+p)
	ob := sr.obs(code, false)
	sr.steps = append(sr.steps, fmt.Sprintf("SO (SEvents %s) %s", hlib.List(ts), ob))
	_ = pendingBefore
	if p != "" {
		sr.violate("event-handling-panics", "", "handleNodeEvent panicked: "+p)
		return false
	}
	// a refresh is requested iff the batch has a topology event (and they are enabled) or reports UP for an unknown address
	pending := strings.HasPrefix(ob, "(OBS 0 true")
	wantPending := (topo && !sr.cfg.disTopo) || unknownUp
	if pending != wantPending {
		sr.violate("refresh-request", "", fmt.Sprintf("after the batch a debounced refresh is armed: %v; expected %v", pending, wantPending))
	}
	pool := map[string]bool{}
	for _, id := range gocql.VerifC16PoolHosts(sr.s) {
		pool[id] = true
	}
	for _, d := range downs {
		sr.downed[d.id] = d.h
		if d.h.IsUp() || pool[d.id] {
			sr.violate("down-host-offered", "", "host "+d.id+" was reported DOWN but is still up or still has a pool")
		}
	}
	sr.afterStep(before)
	return true
}

func (sr *sessRun) connected(id int64) {
	before := snap(sr.rg)
	gocql.VerifC16NodeConnected(sr.s, idStr(id))
	delete(sr.downed, idStr(id))
	if h := sr.rg.GetHost(idStr(id)); h != nil && !h.IsUp() {
		sr.violate("connected-host-not-up", "", "host "+idStr(id)+" was reported connected but is still marked down")
	}
	sr.text = append(sr.text, fmt.Sprintf("connected(%d)", id))
	sr.steps = append(sr.steps, fmt.Sprintf("SO (SConnected %s) %s", hlib.Z(id), sr.obs(0, false)))
	sr.afterStep(before)
}

func (sr *sessRun) remove(id int64) {
	before := snap(sr.rg)
	if h := sr.rg.GetHost(idStr(id)); h != nil {
		gocql.VerifC16RemoveHost(sr.s, h)
	}
	sr.text = append(sr.text, fmt.Sprintf("removeHost(%d)", id))
	sr.steps = append(sr.steps, fmt.Sprintf("SO (SRemove %s) %s", hlib.Z(id), sr.obs(0, false)))
	sr.afterStep(before)
}

func (sr *sessRun) finish(kind string) {
	idx := sr.o.Case(kind, len(sr.steps) > 1, fmt.Sprintf("CSess %s %s", sr.cfg.term(), hlib.List(sr.steps)))
	for _, f := range sr.viol {
		f(idx)
	}
	sr.close()
}

// ---- scripted session histories (boundaries of the refresh diff and of the event handling) ----

func scriptedSessions(o *hlib.Out) {
	a := func(k int) net.IP { return v4(k) }
	run := func(cfg sessCfg, local rowSpec, peers []rowSpec, f func(sr *sessRun)) {
		sr, err := newSessRun(o, cfg, 1, local, peers)
		if err != nil {
			o.Count("session-create-failed")
			return
		}
		f(sr)
		sr.finish("session-scripted")
	}
	l1 := localAt(1, a(1))
	// a dead node replaced by a new host id on the same address (F-C16-1), then events for that address
	run(sessCfg{}, l1, []rowSpec{peerAt(2, a(2))}, func(sr *sessRun) {
		sr.refresh(l1, []rowSpec{peerAt(3, a(2))}, false)
		sr.events([]evSpec{{false, "DOWN", 2}})
		sr.events([]evSpec{{false, "UP", 2}})
	})
	// two nodes swap addresses
	run(sessCfg{}, l1, []rowSpec{peerAt(2, a(2)), peerAt(3, a(3))}, func(sr *sessRun) {
		sr.refresh(l1, []rowSpec{peerAt(2, a(3)), peerAt(3, a(2))}, false)
	})
	// address change, join and leave in one refresh; then down / up / connected
	run(sessCfg{}, l1, []rowSpec{peerAt(2, a(2)), peerAt(3, a(3))}, func(sr *sessRun) {
		sr.refresh(l1, []rowSpec{peerAt(2, a(5)), peerAt(4, a(4))}, true)
		sr.events([]evSpec{{false, "DOWN", 5}, {false, "UP", 5}, {false, "DOWN", 5}})
		sr.events([]evSpec{{false, "UP", 5}})
		sr.connected(2)
		sr.events([]evSpec{{true, "NEW_NODE", 9}, {true, "NEW_NODE", 9}, {true, "REMOVED_NODE", 4}, {false, "UP", 9}, {false, "UP", 8}})
	})
	// duplicate rows; the local node among its peers
	run(sessCfg{}, l1, []rowSpec{peerAt(2, a(2))}, func(sr *sessRun) {
		sr.refresh(l1, []rowSpec{peerAt(2, a(2)), peerAt(2, a(2)), peerAt(3, a(3))}, false)
		sr.refresh(l1, []rowSpec{peerAt(1, a(1)), peerAt(3, a(3))}, false)
		sr.refresh(l1, []rowSpec{peerAt(3, a(3))}, false)
	})
	// invalid peer rows of every kind
	run(sessCfg{}, l1, []rowSpec{peerAt(2, a(2))}, func(sr *sessRun) {
		p3, p4, p5, p6, p7 := peerAt(3, a(3)), peerAt(4, a(4)), peerAt(5, a(5)), peerAt(6, a(6)), peerAt(7, a(7))
		p3.rpc = nil
		p4.dc = 0
		p5.rack = 0
		p6.tokens, p6.tokensSet = nil, false
		p7.tokens = []string{}
		sr.refresh(l1, []rowSpec{p3, p4, p5, p6, p7, peerAt(2, a(2))}, false)
		p2 := peerAt(2, a(2))
		p2.rack = 0
		sr.refresh(l1, []rowSpec{p2}, false) // a known node turns invalid: it vanishes
	})
	// NULL host_id rows (also two of them, also after a row with an id): not valid peers
	run(sessCfg{}, l1, []rowSpec{peerAt(2, a(2))}, func(sr *sessRun) {
		n3, n4 := peerAt(3, a(3)), peerAt(4, a(4))
		n3.nullID, n4.nullID = true, true
		sr.refresh(l1, []rowSpec{peerAt(2, a(2)), n3, peerAt(5, a(5)), n4}, false)
		n2 := peerAt(2, a(2))
		n2.nullID = true
		sr.refresh(l1, []rowSpec{n2, peerAt(5, a(5))}, false) // a known node loses its id: it vanishes
	})
	// host filter: rejected nodes are not known; a node moves into a rejected data centre
	run(sessCfg{denyIDs: []int64{3}, denyDCs: []int64{2}}, l1, []rowSpec{peerAt(2, a(2)), peerAt(3, a(3))}, func(sr *sessRun) {
		p4 := peerAt(4, a(4))
		p4.dc = 2
		sr.refresh(l1, []rowSpec{peerAt(2, a(2)), peerAt(3, a(3)), p4}, false)
		sr.events([]evSpec{{false, "UP", 3}, {false, "DOWN", 4}, {false, "DOWN", 2}})
		p2 := peerAt(2, a(6))
		p2.dc = 2
		sr.refresh(l1, []rowSpec{p2}, false)
	})
	// events disabled
	run(sessCfg{disTopo: true, disStat: true}, l1, []rowSpec{peerAt(2, a(2))}, func(sr *sessRun) {
		sr.events([]evSpec{{true, "NEW_NODE", 9}, {false, "DOWN", 2}, {false, "UP", 7}})
	})
	// a row without any usable address
	run(sessCfg{}, l1, []rowSpec{peerAt(2, a(2))}, func(sr *sessRun) {
		p3 := peerAt(3, net.IPv4zero)
		p3.rpc = nil
		sr.refresh(l1, []rowSpec{peerAt(2, a(2)), p3}, false)
	})
	run(sessCfg{}, l1, []rowSpec{peerAt(2, a(2))}, func(sr *sessRun) {
		bad := localAt(1, nil)
		bad.rpc = net.IPv4zero
		sr.refresh(bad, []rowSpec{peerAt(2, a(2))}, false)
	})
	// the control connection lands on a node that reports another broadcast address than its peers see;
	// the node then leaves; a DOWN event for its old address arrives
	run(sessCfg{}, l1, []rowSpec{peerAt(2, a(2))}, func(sr *sessRun) {
		l2 := localAt(2, a(9))
		l2.rpc = a(2)
		sr.controlReconnect(l2, []rowSpec{peerAt(1, a(1))})
		sr.controlReconnect(l1, nil)
		sr.events([]evSpec{{false, "DOWN", 2}})
	})
	// control connection re-established on the same node: nothing changes
	run(sessCfg{}, l1, []rowSpec{peerAt(2, a(2))}, func(sr *sessRun) {
		sr.controlReconnect(l1, []rowSpec{peerAt(2, a(2)), peerAt(3, a(3))})
		sr.events([]evSpec{{false, "DOWN", 1}})
	})
}

// ---- random session histories ----

func (g *gen) randomSession(o *hlib.Out) {
	r := g.r
	var cfg sessCfg
	if r.Chance(25) {
		cfg.denyIDs = []int64{int64(2 + r.Intn(6))}
	}
	if r.Chance(15) {
		cfg.denyDCs = []int64{2}
	}
	cfg.disTopo = r.Chance(8)
	cfg.disStat = r.Chance(8)
	// current view of the cluster: id -> address; the control node is localID
	view := map[int64]int{1: 1}
	localID := int64(1)
	bcastOf := map[int64]int{} // nodes that report a broadcast address other than the one their peers see
	nextID := int64(2)
	share := r.Chance(30) // this history lets nodes take over addresses of other (former) nodes
	for i, n := 0, r.Intn(4); i < n; i++ {
		view[nextID] = 1 + int(nextID)
		nextID++
	}
	others := func() []int64 {
		var ids []int64
		for id := range view {
			if id != localID {
				ids = append(ids, id)
			}
		}
		sort.Slice(ids, func(i, j int) bool { return ids[i] < ids[j] })
		return ids
	}
	freeAddr := func() int {
		for {
			a := 1 + r.Intn(12)
			used := false
			for _, x := range view {
				used = used || x == a
			}
			if !used {
				return a
			}
		}
	}
	rows := func(odd bool) (rowSpec, []rowSpec) {
		local := g.localRow(localID, view[localID])
		if b, ok := bcastOf[localID]; ok {
			local.bcast = g.addr(b)
		}
		var peers []rowSpec
		for _, id := range others() {
			peers = append(peers, g.peerRow(id, view[id]))
		}
		if odd && r.Chance(8) && len(peers) > 0 { // the same row twice / the same id twice
			peers = append(peers, peers[r.Intn(len(peers))])
		}
		if odd && r.Chance(4) { // the local node listed among its own peers
			peers = append(peers, g.peerRow(localID, view[localID]))
		}
		if odd && r.Chance(2) { // a row without any usable address
			p := peerAt(nextID, net.IPv4zero)
			p.rpc = nil
			peers = append(peers, p)
		}
		if len(peers) > 1 && r.Bool() {
			i, j := r.Intn(len(peers)), r.Intn(len(peers))
			peers[i], peers[j] = peers[j], peers[i]
		}
		return local, peers
	}
	change := func() {
		for j, m := 0, 1+r.Intn(2); j < m; j++ {
			ids := others()
			switch r.Intn(5) {
			case 0, 1: // a node joins
				if len(view) < 7 {
					a := freeAddr()
					if share && r.Chance(50) { // on the address of an existing or former node
						a = 1 + r.Intn(int(nextID))
					}
					view[nextID] = a
					nextID++
				}
			case 2: // a node leaves
				if len(ids) > 0 {
					delete(view, ids[r.Intn(len(ids))])
				}
			case 3: // a node changes address
				if len(ids) > 0 {
					a := freeAddr()
					if share && r.Chance(50) {
						a = 1 + r.Intn(8)
					}
					view[ids[r.Intn(len(ids))]] = a
				}
			case 4: // a dead node is replaced: new host id on the same address
				if share && len(ids) > 0 {
					old := ids[r.Intn(len(ids))]
					view[nextID] = view[old]
					delete(view, old)
					nextID++
				}
			}
		}
	}
	local, peers := rows(true)
	for local.noUsableAddress(true) || hasNoAddr(peers) {
		local, peers = rows(false)
	}
	sr, err := newSessRun(o, cfg, 1, local, peers)
	if err != nil {
		o.Count("session-create-failed")
		return
	}
	nsteps := 2 + r.Intn(6)
	for i := 0; i < nsteps; i++ {
		switch k := r.Intn(100); {
		case k < 42: // topology change then refresh
			change()
			local, peers = rows(true)
			if !sr.refresh(local, peers, !hasNoAddr(peers) && r.Chance(15)) {
				i = nsteps
			}
		case k < 48:
			sr.refreshFail()
		case k < 56: // the control connection is re-established, possibly on another node
			if ids := others(); len(ids) > 0 && r.Chance(50) && cfg.accepts(ids[0], 1) {
				localID = ids[r.Intn(len(ids))]
				if !cfg.accepts(localID, 1) {
					localID = ids[0]
				}
				if r.Chance(40) {
					bcastOf[localID] = freeAddr()
				}
			}
			local, peers = rows(false)
			local.dc = 1
			sr.controlReconnect(local, peers)
		case k < 86: // a batch of events
			n := 1 + r.Intn(5)
			if r.Chance(10) {
				n = 20 + r.Intn(30)
			}
			evs := make([]evSpec, n)
			for j := range evs {
				key, _ := ipCode(v4(1 + r.Intn(12)))
				if r.Chance(5) {
					key = r.Pick(0, -1, 1001)
				}
				switch r.Intn(10) {
				case 0:
					evs[j] = evSpec{true, "NEW_NODE", key}
				case 1:
					evs[j] = evSpec{true, []string{"REMOVED_NODE", "MOVED_NODE"}[r.Intn(2)], key}
				case 2, 3, 4, 5:
					evs[j] = evSpec{false, "UP", key}
				case 6, 7, 8:
					evs[j] = evSpec{false, "DOWN", key}
				default:
					evs[j] = evSpec{false, "up", key} // not a status the driver knows
				}
			}
			if !sr.events(evs) {
				i = nsteps
			}
		case k < 95:
			sr.connected(int64(1 + r.Intn(int(nextID))))
		default:
			id := int64(1 + r.Intn(int(nextID)))
			if id != localID {
				sr.remove(id)
				delete(view, id)
			}
		}
	}
	sr.finish("session-history")
}

func hasNoAddr(peers []rowSpec) bool {
	for _, p := range peers {
		if p.noUsableAddress(false) {
			return true
		}
	}
	return false
}

// handoverSession: at session level, over the wire.  The node-event handler goroutine of the first window is
// held (shim gate) while a frame for the next window arrives: DOWN for node 2, window closes, DOWN for
// node 3 arrives, the first handler runs, the second window closes.  Both nodes must end up down.
func handoverSession(o *hlib.Out) func() {
	type res struct {
		sr   *sessRun
		viol []string
	}
	ch := make(chan res, 1)
	go func() {
		l1 := localAt(1, v4(1))
		sr, err := newSessRun(o, sessCfg{}, 1, l1, []rowSpec{peerAt(2, v4(2)), peerAt(3, v4(3))})
		if err != nil {
			ch <- res{nil, []string{"session creation failed: " + err.Error()}}
			return
		}
		var viol []string
		release := gocql.VerifC16GateNodeEvents(sr.s)
		down := func(k int64) bool {
			h := sr.rg.GetHost(idStr(k))
			return h != nil && !h.IsUp()
		}
		wait := func(d time.Duration, cond func() bool) {
			deadline := time.Now().Add(d)
			for !cond() && time.Now().Before(deadline) {
				time.Sleep(5 * time.Millisecond)
			}
		}
		step := func(k int64, what string) {
			key, _ := ipCode(v4(int(k)))
			sr.text = append(sr.text, what)
			sr.steps = append(sr.steps, fmt.Sprintf("SO (SEvents [EStatus 2 %s]) %s", hlib.Z(key), sr.obs(0, false)))
		}
		sr.nd.sendEvent("STATUS_CHANGE", "DOWN", v4(2), 9042)
		time.Sleep(1250 * time.Millisecond) // the window closes; its handler is held at the gate
		sr.nd.sendEvent("STATUS_CHANGE", "DOWN", v4(3), 9042)
		time.Sleep(50 * time.Millisecond)
		release()
		wait(2*time.Second, func() bool { return down(2) })
		step(2, "DOWN 10.0.0.2 over the wire; window closed, handler held; DOWN 10.0.0.3 arrives; handler released")
		wait(3*time.Second, func() bool { return down(3) })
		step(3, "second window closes")
		if !down(2) || !down(3) {
			viol = append(viol, fmt.Sprintf("DOWN was reported for nodes 2 and 3 in consecutive windows; marked down: node 2 %v, node 3 %v", down(2), down(3)))
		}
		ch <- res{sr, viol}
	}()
	return func() {
		r := <-ch
		if r.sr == nil {
			o.Count("session-create-failed")
			return
		}
		for _, v := range r.viol {
			r.sr.violate("event-batch-changed-after-handover", "", v)
		}
		r.sr.finish("session-handover")
	}
}
