// A minimal in-memory CQL node (native protocol v4) for the C16 harness: enough of the protocol for a
// gocql Session to connect (OPTIONS, STARTUP, REGISTER), to read system.local / system.peers, and to
// receive EVENT frames.  The codec here is written from the protocol specification; it does not call
// gocql's framer.  Connections are net.Pipe pairs handed out through gocql.HostDialer.
package main

import (
	"context"
	"encoding/binary"
	"errors"
	"io"
	"net"
	"strings"
	"sync"
	"time"

	"github.com/gocql/gocql"
)

// a cell of a row: nil = NULL
type cell []byte

// one row of system.local or system.peers as the node will send it
type row struct {
	peer, broadcast, listen, rpc, preferred net.IP // nil = NULL
	hostID                                  *[16]byte
	dc, rack                                *string
	tokens                                  []string // nil = NULL
	tokensSet                               bool     // tokens non-NULL (possibly empty)
	version                                 string
}

type node struct {
	mu           sync.Mutex
	local        row
	peers        []row
	failLocal    bool // answer system.local with a server error
	localQueries int
	peerQueries  int
	dials        int
	lastDial     net.IP     // connect address of the host dialled last
	conns        []net.Conn // server side ends
	registered   []net.Conn // server side ends that sent REGISTER
	wmu          map[net.Conn]*sync.Mutex
}

func newNode() *node { return &node{wmu: map[net.Conn]*sync.Mutex{}} }

type pipeConn struct {
	net.Conn
	remote net.Addr
}

func (p *pipeConn) RemoteAddr() net.Addr { return p.remote }
func (p *pipeConn) LocalAddr() net.Addr {
	return &net.TCPAddr{IP: net.IPv4(127, 0, 0, 1), Port: 50000}
}

// DialHost implements gocql.HostDialer.
func (n *node) DialHost(ctx context.Context, host *gocql.HostInfo) (*gocql.DialedHost, error) {
	c, s := net.Pipe()
	n.mu.Lock()
	n.dials++
	n.lastDial = host.ConnectAddress()
	n.conns = append(n.conns, s)
	n.wmu[s] = &sync.Mutex{}
	n.mu.Unlock()
	go n.serve(s)
	port := host.Port()
	if port == 0 {
		port = 9042
	}
	return &gocql.DialedHost{Conn: &pipeConn{Conn: c, remote: &net.TCPAddr{IP: host.ConnectAddress(), Port: port}}, DisableCoalesce: true}, nil
}

func (n *node) closeAll() {
	n.mu.Lock()
	cs := n.conns
	n.conns = nil
	n.mu.Unlock()
	for _, c := range cs {
		c.Close()
	}
}

const (
	opError     = 0x00
	opStartup   = 0x01
	opReady     = 0x02
	opOptions   = 0x05
	opSupported = 0x06
	opQuery     = 0x07
	opResult    = 0x08
	opRegister  = 0x0B
	opEvent     = 0x0C
)

func (n *node) write(c net.Conn, stream int16, op byte, body []byte) error {
	hdr := make([]byte, 9, 9+len(body))
	hdr[0] = 0x84
	hdr[1] = 0
	binary.BigEndian.PutUint16(hdr[2:], uint16(stream))
	hdr[4] = op
	binary.BigEndian.PutUint32(hdr[5:], uint32(len(body)))
	n.mu.Lock()
	m := n.wmu[c]
	n.mu.Unlock()
	if m == nil {
		return errors.New("closed")
	}
	m.Lock()
	defer m.Unlock()
	c.SetWriteDeadline(time.Now().Add(5 * time.Second))
	_, err := c.Write(append(hdr, body...))
	return err
}

func (n *node) serve(c net.Conn) {
	defer c.Close()
	hdr := make([]byte, 9)
	for {
		if _, err := io.ReadFull(c, hdr); err != nil {
			return
		}
		stream := int16(binary.BigEndian.Uint16(hdr[2:]))
		op := hdr[4]
		ln := binary.BigEndian.Uint32(hdr[5:])
		body := make([]byte, ln)
		if _, err := io.ReadFull(c, body); err != nil {
			return
		}
		var err error
		switch op {
		case opOptions:
			var b []byte
			b = putShort(b, 2)
			b = putString(b, "CQL_VERSION")
			b = putShort(b, 1)
			b = putString(b, "3.4.4")
			b = putString(b, "COMPRESSION")
			b = putShort(b, 0)
			err = n.write(c, stream, opSupported, b)
		case opStartup:
			err = n.write(c, stream, opReady, nil)
		case opRegister:
			n.mu.Lock()
			n.registered = append(n.registered, c)
			n.mu.Unlock()
			err = n.write(c, stream, opReady, nil)
		case opQuery:
			q := ""
			if len(body) >= 4 {
				l := int(binary.BigEndian.Uint32(body))
				if 4+l <= len(body) {
					q = string(body[4 : 4+l])
				}
			}
			rop, rbody := n.answer(q)
			err = n.write(c, stream, rop, rbody)
		default:
			var b []byte
			b = putInt(b, 0x000A) // protocol error
			b = putString(b, "unsupported opcode")
			err = n.write(c, stream, opError, b)
		}
		if err != nil {
			return
		}
	}
}

func serverError(msg string) (byte, []byte) {
	var b []byte
	b = putInt(b, 0x0000)
	b = putString(b, msg)
	return opError, b
}

func (n *node) answer(q string) (byte, []byte) {
	n.mu.Lock()
	defer n.mu.Unlock()
	switch {
	case strings.Contains(q, "system.local"):
		n.localQueries++
		if n.failLocal {
			return serverError("scripted failure")
		}
		return opResult, rowsResult("system", "local", localCols, [][]cell{localCells(n.local)})
	case strings.Contains(q, "system.peers_v2"):
		var b []byte
		b = putInt(b, 0x2200) // Invalid: unconfigured table
		b = putString(b, "unconfigured table peers_v2")
		return opError, b
	case strings.Contains(q, "system.peers"):
		n.peerQueries++
		var rs [][]cell
		for _, p := range n.peers {
			rs = append(rs, peerCells(p))
		}
		return opResult, rowsResult("system", "peers", peerCols, rs)
	default:
		var b []byte
		b = putInt(b, 1) // Void
		return opResult, b
	}
}

// sendEvent pushes an EVENT frame on every registered connection.
func (n *node) sendEvent(kind, change string, ip net.IP, port int) {
	var b []byte
	b = putString(b, kind)
	b = putString(b, change)
	if v4 := ip.To4(); v4 != nil {
		ip = v4
	}
	b = append(b, byte(len(ip)))
	b = append(b, ip...)
	b = putInt(b, int32(port))
	n.mu.Lock()
	regs := append([]net.Conn(nil), n.registered...)
	n.mu.Unlock()
	for _, c := range regs {
		n.write(c, -1, opEvent, b)
	}
}

// ---- result encoding ----

type col struct {
	name string
	typ  []byte // option: id (+ element type)
}

var (
	tVarchar = []byte{0x00, 0x0D}
	tInet    = []byte{0x00, 0x10}
	tUUID    = []byte{0x00, 0x0C}
	tSetText = []byte{0x00, 0x22, 0x00, 0x0D}
)

var localCols = []col{
	{"key", tVarchar}, {"broadcast_address", tInet}, {"cluster_name", tVarchar}, {"data_center", tVarchar},
	{"host_id", tUUID}, {"listen_address", tInet}, {"partitioner", tVarchar}, {"rack", tVarchar},
	{"release_version", tVarchar}, {"rpc_address", tInet}, {"schema_version", tUUID}, {"tokens", tSetText},
}

var peerCols = []col{
	{"peer", tInet}, {"data_center", tVarchar}, {"host_id", tUUID}, {"preferred_ip", tInet}, {"rack", tVarchar},
	{"release_version", tVarchar}, {"rpc_address", tInet}, {"schema_version", tUUID}, {"tokens", tSetText},
}

func inetCell(ip net.IP) cell {
	if ip == nil {
		return nil
	}
	if v4 := ip.To4(); v4 != nil && len(ip) == 4 {
		return cell(v4)
	}
	return cell(ip)
}
func strCell(s *string) cell {
	if s == nil {
		return nil
	}
	return cell([]byte(*s))
}
func uuidCell(u *[16]byte) cell {
	if u == nil {
		return nil
	}
	return cell(u[:])
}
func setCell(ts []string, set bool) cell {
	if !set {
		return nil
	}
	var b []byte
	b = putInt(b, int32(len(ts)))
	for _, t := range ts {
		b = putInt(b, int32(len(t)))
		b = append(b, t...)
	}
	if b == nil {
		b = []byte{}
	}
	return cell(b)
}

var schemaVersion = [16]byte{0xaa, 0xbb, 0, 0, 0, 0, 0x40, 0, 0x80, 0, 0, 0, 0, 0, 0, 1}

func localCells(r row) []cell {
	key, cluster, part := "local", "verif", "org.apache.cassandra.dht.Murmur3Partitioner"
	return []cell{strCell(&key), inetCell(r.broadcast), strCell(&cluster), strCell(r.dc), uuidCell(r.hostID), inetCell(r.listen),
		strCell(&part), strCell(r.rack), strCell(&r.version), inetCell(r.rpc), uuidCell(&schemaVersion), setCell(r.tokens, r.tokensSet)}
}

func peerCells(r row) []cell {
	return []cell{inetCell(r.peer), strCell(r.dc), uuidCell(r.hostID), inetCell(r.preferred), strCell(r.rack), strCell(&r.version),
		inetCell(r.rpc), uuidCell(&schemaVersion), setCell(r.tokens, r.tokensSet)}
}

func rowsResult(ks, table string, cols []col, rows [][]cell) []byte {
	var b []byte
	b = putInt(b, 2)      // Rows
	b = putInt(b, 0x0001) // global tables spec
	b = putInt(b, int32(len(cols)))
	b = putString(b, ks)
	b = putString(b, table)
	for _, c := range cols {
		b = putString(b, c.name)
		b = append(b, c.typ...)
	}
	b = putInt(b, int32(len(rows)))
	for _, r := range rows {
		for _, c := range r {
			if c == nil {
				b = putInt(b, -1)
			} else {
				b = putInt(b, int32(len(c)))
				b = append(b, c...)
			}
		}
	}
	return b
}

func putShort(b []byte, v uint16) []byte { return append(b, byte(v>>8), byte(v)) }
func putInt(b []byte, v int32) []byte {
	return append(b, byte(uint32(v)>>24), byte(uint32(v)>>16), byte(uint32(v)>>8), byte(uint32(v)))
}
func putString(b []byte, s string) []byte { return append(putShort(b, uint16(len(s))), s...) }
