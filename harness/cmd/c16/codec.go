// Encodings shared with coq/theories/C16/Model.v (see the comment at its top) and Coq term printers.
package main

import (
	"encoding/binary"
	"fmt"
	"net"
	"sort"
	"strconv"
	"strings"

	"github.com/gocql/gocql"
	"gocqlverif/hlib"
)

type H = gocql.VerifC16Host

// ---- addresses ----

func v4(k int) net.IP    { return net.IP{10, 0, 0, byte(k)} }   // 4-byte form
func v4in6(k int) net.IP { return net.IPv4(10, 0, 0, byte(k)) } // 16-byte form of the same address
func v6(k int) net.IP {
	ip := make(net.IP, 16)
	ip[0], ip[1] = 0xfd, 0x00
	binary.BigEndian.PutUint16(ip[14:], uint16(k))
	return ip
}

// ipCode: the model's integer for an address (ok=false: nil)
func ipCode(ip net.IP) (int64, bool) {
	if ip == nil {
		return 0, false
	}
	if x := ip.To4(); x != nil {
		if x[0] == 10 && x[1] == 0 && x[2] == 0 && x[3] != 0 {
			return int64(x[3]), true // the pool 10.0.0.k
		}
		if v := binary.BigEndian.Uint32(x); v != 0 {
			return 1<<33 + int64(v), true
		}
		return 0, true
	}
	if len(ip) != 16 {
		panic(fmt.Sprintf("c16 harness: unexpected address %#v", []byte(ip)))
	}
	if ip.IsUnspecified() {
		return -1, true
	}
	if ip[0] == 0xfd && ip[1] == 0 {
		for _, b := range ip[2:14] {
			if b != 0 {
				panic("c16 harness: unexpected v6 address " + ip.String())
			}
		}
		return 1000 + int64(binary.BigEndian.Uint16(ip[14:])), true
	}
	panic("c16 harness: unexpected v6 address " + ip.String())
}

func ipTerm(ip net.IP) string {
	k, ok := ipCode(ip)
	if !ok {
		return "NA"
	}
	return "(A " + hlib.Z(k) + ")"
}

// keyCode: a key of hostIPToUUID (an address printed by String()) as the model's integer
func keyCode(s string) int64 {
	ip := net.ParseIP(s)
	if ip == nil {
		panic("c16 harness: unexpected address key " + strconv.Quote(s))
	}
	k, _ := ipCode(ip)
	return k
}

func keyIP(k int64) net.IP {
	switch {
	case k == 0:
		return net.IPv4zero
	case k == -1:
		return net.IPv6unspecified
	case k >= 1<<33:
		ip := make(net.IP, 4)
		binary.BigEndian.PutUint32(ip, uint32(k-1<<33))
		return ip
	case k >= 1000:
		return v6(int(k - 1000))
	default:
		return v4(int(k))
	}
}

// ---- ids, data centres, racks ----

const zeroUUID = "00000000-0000-0000-0000-000000000000"

func idStr(k int64) string {
	switch {
	case k == 0:
		return ""
	case k == -1:
		return zeroUUID
	}
	return fmt.Sprintf("00000000-0000-0000-0000-%012d", k)
}

func idCode(s string) int64 {
	if s == "" {
		return 0
	}
	if s == zeroUUID {
		return -1
	}
	if len(s) != 36 || !strings.HasPrefix(s, "00000000-0000-0000-0000-") {
		panic("c16 harness: unexpected host id " + strconv.Quote(s))
	}
	k, err := strconv.ParseInt(s[24:], 10, 64)
	if err != nil {
		panic("c16 harness: unexpected host id " + strconv.Quote(s))
	}
	return k
}

func idUUID(k int64) *[16]byte {
	u, err := gocql.ParseUUID(idStr(k))
	if err != nil {
		panic(err)
	}
	b := [16]byte(u)
	return &b
}

func nameStr(prefix string, k int64) string {
	if k == 0 {
		return ""
	}
	return prefix + strconv.FormatInt(k, 10)
}

func nameCode(prefix, s string) int64 {
	if s == "" {
		return 0
	}
	k, err := strconv.ParseInt(strings.TrimPrefix(s, prefix), 10, 64)
	if err != nil || !strings.HasPrefix(s, prefix) {
		panic("c16 harness: unexpected name " + strconv.Quote(s))
	}
	return k
}

func tokensTerm(ts []string) string {
	if ts == nil {
		return "NT"
	}
	xs := make([]int64, len(ts))
	for i, t := range ts {
		v, err := strconv.ParseInt(t, 10, 64)
		if err != nil {
			panic("c16 harness: unexpected token " + strconv.Quote(t))
		}
		xs[i] = v
	}
	return "(TK " + hlib.ZListI(xs) + ")"
}

// hostTerm: a model hostinfo
func hostTerm(v H) string {
	return fmt.Sprintf("(mkHost %s %s %s %s %s %s %s %s %s %s %s %s)", hlib.Z(idCode(v.ID)), ipTerm(v.Peer), ipTerm(v.Broadcast),
		ipTerm(v.Listen), ipTerm(v.RPC), ipTerm(v.Preferred), ipTerm(v.Connect), hlib.Z(int64(v.Port)),
		hlib.Z(nameCode("dc", v.DC)), hlib.Z(nameCode("rack", v.Rack)), tokensTerm(v.Tokens), hlib.Bool(v.Up))
}

func optHostTerm(h *gocql.HostInfo) string {
	if h == nil {
		return "None"
	}
	return hlib.Some(hostTerm(gocql.VerifC16View(h)))
}

type kvs struct {
	k int64
	s string
}

func ipsTerm(ips map[string]string) string {
	var is []kvs
	for k, id := range ips {
		is = append(is, kvs{keyCode(k), hlib.Z(idCode(id))})
	}
	sort.Slice(is, func(i, j int) bool { return is[i].k < is[j].k })
	items := make([]string, len(is))
	for i, e := range is {
		items[i] = "KV " + hlib.Z(e.k) + " " + e.s
	}
	return hlib.List(items)
}

func listTerm(list []*gocql.HostInfo) string {
	lids := make([]int64, len(list))
	for i, h := range list {
		lids[i] = idCode(h.HostID())
	}
	return hlib.ZListI(lids)
}

// dumpTerm: (hosts sorted by id, addresses sorted by key, list ids)
func dumpTerm(rg *gocql.VerifC16Ring) string {
	hosts, ips, list := rg.Dump()
	var hs []kvs
	for id, h := range hosts {
		hs = append(hs, kvs{idCode(id), hostTerm(gocql.VerifC16View(h))})
	}
	sort.Slice(hs, func(i, j int) bool { return hs[i].k < hs[j].k })
	hitems := make([]string, len(hs))
	for i, e := range hs {
		hitems[i] = "KH " + hlib.Z(e.k) + " " + e.s
	}
	return fmt.Sprintf("(DUMP %s %s %s)", hlib.List(hitems), ipsTerm(ips), listTerm(list))
}
