package main

// Live traffic: a real gocql.Session (NewSession, Query, Bind, Batch, paged iteration, USE) talks to the
// scripted in-memory node of gocqlverif/node, which records every byte the driver writes.  Every
// recorded request frame is decoded with THIS program's spec-side decoder (decode.go, not the node's
// codec) and
//   - must be a well-formed request of the negotiated version with the header flags of theorem C03_header
//     (compression iff negotiated and never on OPTIONS/STARTUP, beta on v5, tracing / payload as asked);
//   - the handshake frames (OPTIONS, STARTUP, AUTH_RESPONSE, REGISTER, USE) and the frames of the
//     harness's own API calls must decode to what was asked for;
//   - is re-built by the Coq model from the decoded logical request and must come out byte for byte
//     (case CBuild; for a session that negotiated snappy, case CLiveZ with the body obtained from the wire
//     bytes by the real snappy library on the harness side).

import (
	"bytes"
	"encoding/binary"
	"fmt"
	"io"
	"log"
	"sort"
	"strings"
	"time"

	"github.com/gocql/gocql"
	"gocqlverif/hlib"
	"gocqlverif/node"
)

// the request struct whose fields describe exactly the decoded logical request (inverse of asked())
func fromDecoded(m *lmsg) *gocql.VerifC03Request {
	vals := func(named bool, names []string, vs []lvalue) []gocql.VerifC03Value {
		out := make([]gocql.VerifC03Value, len(vs))
		for i, x := range vs {
			if named {
				out[i].Name = names[i]
			}
			switch x.kind {
			case 1:
				out[i].IsUnset = true
			case 2:
				out[i].Value = x.b
				if out[i].Value == nil {
					out[i].Value = []byte{}
				}
			}
		}
		return out
	}
	params := func(o *lopts) gocql.VerifC03Params {
		p := gocql.VerifC03Params{Consistency: o.cons, SkipMeta: o.skipMeta, Values: vals(o.named, o.names, o.vals)}
		if o.pageSize != nil {
			p.PageSize = int(*o.pageSize)
		}
		if o.pagingState != nil {
			p.PagingState = *o.pagingState
		}
		if o.serial != nil {
			p.SerialConsistency = *o.serial
		}
		if o.ts != nil {
			p.DefaultTimestamp, p.DefaultTimestampValue = true, *o.ts
		}
		if o.keyspace != nil {
			p.Keyspace = *o.keyspace
		}
		return p
	}
	r := &gocql.VerifC03Request{}
	if m.hasPayload {
		r.CustomPayload = map[string][]byte{}
		for k, p := range m.payload {
			if p == nil {
				r.CustomPayload[k] = nil
			} else {
				x := *p
				if x == nil {
					x = []byte{}
				}
				r.CustomPayload[k] = x
			}
		}
	}
	switch m.opcode {
	case 1:
		r.Kind, r.Opts = gocql.VerifC03Startup, m.startup
	case 5:
		r.Kind = gocql.VerifC03Options
	case 15:
		r.Kind = gocql.VerifC03AuthResponse
		if m.token != nil {
			r.Data = *m.token
			if r.Data == nil {
				r.Data = []byte{}
			}
		}
	case 11:
		r.Kind, r.Events = gocql.VerifC03Register, m.events
	case 7:
		r.Kind, r.Statement, r.Params = gocql.VerifC03Query, m.stmt, params(&m.opts)
	case 9:
		r.Kind, r.Statement = gocql.VerifC03Prepare, m.stmt
		if m.prepKs != nil {
			r.Keyspace = *m.prepKs
		}
	case 10:
		r.Kind, r.PreparedID, r.Params = gocql.VerifC03Execute, m.id, params(&m.opts)
	case 13:
		r.Kind, r.BatchType, r.Consistency = gocql.VerifC03Batch, m.btype, m.bcons
		for _, q := range m.bqueries {
			s := gocql.VerifC03Stmt{Values: vals(false, nil, q.vals)}
			if q.prepared {
				s.PreparedID = q.id
			} else {
				s.Statement = q.stmt
			}
			r.Statements = append(r.Statements, s)
		}
		if m.bserial != nil {
			r.SerialCons = *m.bserial
		}
		if m.bts != nil {
			r.DefaultTS, r.DefaultTSVal = true, *m.bts
		}
	}
	return r
}

type liveVariant struct {
	auth, snappy bool
}

type liveOp struct {
	what    string
	stmt    string // statement text that identifies the frames of this call
	want    *gocql.VerifC03Request
	tracing bool
	t0, t1  int64
	done    bool
}

func be64(x uint64) []byte {
	b := make([]byte, 8)
	binary.BigEndian.PutUint64(b, x)
	return b
}

func liveCases(o *hlib.Out, g *gen) {
	variants := []liveVariant{{false, false}, {true, false}, {false, true}, {true, true}}
	for _, v := range versions {
		for _, lv := range variants {
			liveSession(o, g, v, lv, 0)
		}
	}
	// Session.ExecuteBatch around the [short] limit of the statement count
	liveBatchLimit(o, 4, []int{65535, 65536, 65537})
	if o.Scale > 1 || o.Search {
		for _, v := range []byte{2, 3, 5} {
			liveBatchLimit(o, v, []int{65534, 65535, 65536, 65537, 131072})
		}
	}
	if o.Scale > 1 || o.Search {
		// the [short] count boundary on live traffic: 65535 bound values, 65535 batch statements
		for _, v := range []byte{2, 4} {
			liveSession(o, g, v, liveVariant{false, false}, 65535)
		}
		liveSession(o, g, 3, liveVariant{false, true}, 65535)
	}
}

func liveSession(o *hlib.Out, g *gen, v byte, lv liveVariant, bigCount int) {
	r := g.r
	n := node.NewNet()
	defer n.Close()
	nd := n.AddNode("10.0.0.1:9042")
	if lv.auth {
		nd.Update(func(c *node.Config) { c.Auth = &node.Auth{Users: map[string]string{"cassandra": "s3cret"}} })
	}
	n.SetKeyspace("demo", node.Keyspace{Replication: node.SimpleStrategy(1), DurableWrites: true})
	kv := &node.Table{Keyspace: "demo", Name: "kv", PartitionKey: []string{"k"},
		Columns: []node.Column{node.Col("k", node.Varchar), node.Col("v", node.Int)}}
	for i, k := range []string{"a", "b", "c", "d", "e"} {
		kv.Rows = append(kv.Rows, [][]byte{node.TextV(k), node.IntV(int32(i))})
	}
	n.SetTable(kv)
	// statements whose bind markers are blobs: the bound bytes travel unchanged (marshalling is C02/C12)
	blobs := func(k int) []node.Column {
		cs := make([]node.Column, k)
		for i := range cs {
			cs[i] = node.Column{Keyspace: "demo", Table: "b", Name: fmt.Sprintf("c%d", i), Type: node.Blob}
		}
		return cs
	}
	tag := fmt.Sprintf("v%d_%v_%v", v, lv.auth, lv.snappy)
	stmt3 := "INSERT INTO demo.b3_" + tag + " (c0, c1, c2) VALUES (?, ?, ?)"
	stmtN := "INSERT INTO demo.bn_" + tag + " (c0, c1) VALUES (:c0, :c1)"
	stmtB := "UPDATE demo.bb_" + tag + " SET c1 = ? WHERE c0 = ?"
	stmtBatch := "INSERT INTO demo.bt_" + tag + " (c0, c1) VALUES (?, ?)"
	stmtBig := "INSERT INTO demo.big_" + tag + " (cols) VALUES (?)"
	n.SetPrepared(stmt3, node.PreparedSpec{Bind: blobs(3), Keyspace: "demo", Table: "b"})
	n.SetPrepared(stmtN, node.PreparedSpec{Bind: blobs(2), Keyspace: "demo", Table: "b"})
	n.SetPrepared(stmtB, node.PreparedSpec{Bind: blobs(2), Keyspace: "demo", Table: "b"})
	n.SetPrepared(stmtBatch, node.PreparedSpec{Bind: blobs(2), Keyspace: "demo", Table: "b"})
	if bigCount > 0 {
		n.SetPrepared(stmtBig, node.PreparedSpec{Bind: blobs(bigCount), Keyspace: "demo", Table: "b"})
	}
	stmtSel := "SELECT k, v FROM kv"

	cfg := gocql.NewCluster("10.0.0.1")
	cfg.Dialer = n.Dialer()
	cfg.ProtoVersion = int(v)
	cfg.Timeout = 10 * time.Second
	cfg.ConnectTimeout = 10 * time.Second
	cfg.NumConns = 1
	cfg.Keyspace = "demo"
	// session-level settings, varied per session (independently of what the calls below set or switch off)
	cfg.Consistency = []gocql.Consistency{gocql.One, gocql.Quorum, gocql.LocalQuorum, gocql.Two}[r.Intn(4)]
	cfg.DefaultTimestamp = (int(v)+r.Intn(2))%2 == 0 || lv.auth != lv.snappy
	cfg.PageSize = int(r.Pick(5000, 0, 7))
	cfg.SerialConsistency = []gocql.SerialConsistency{0, gocql.Serial, gocql.LocalSerial}[r.Intn(3)]
	cfg.Logger = log.New(io.Discard, "", 0)
	cfg.DisableSkipMetadata = v == 1
	if lv.auth {
		cfg.Authenticator = gocql.PasswordAuthenticator{Username: "cassandra", Password: "s3cret"}
	}
	if lv.snappy {
		cfg.Compressor = gocql.SnappyCompressor{}
	}
	kind := fmt.Sprintf("live/v%d", v)
	s, err := gocql.NewSession(*cfg)
	var ops []*liveOp
	if err != nil {
		if !(v == 1 && lv.auth) {
			o.Violate(-1, "live-session", "", fmt.Sprintf("NewSession(v%d auth=%v snappy=%v) failed: %v", v, lv.auth, lv.snappy, err), nil)
		} else {
			o.Count("note:live-v1-auth-session-refused-by-node")
		}
	} else {
		now := func() int64 { return time.Now().UnixNano() / 1000 }
		skip := v != 1
		ks5 := ""
		if v >= 5 {
			ks5 = "demo"
		}
		run := func(op *liveOp, f func() error) {
			op.t0 = now()
			err := f()
			op.t1 = now()
			if err != nil {
				o.Violate(-1, "live-call-failed", "", fmt.Sprintf("v%d %s: %v", v, op.what, err), nil)
			}
			ops = append(ops, op)
		}
		mkVals := func(xs ...[]byte) []gocql.VerifC03Value {
			out := make([]gocql.VerifC03Value, len(xs))
			for i, x := range xs {
				out[i].Value = x
			}
			return out
		}
		b1, b3 := r.Bytes(1+r.Intn(9)), r.Bytes(1+r.Intn(9))
		base := func(vals []gocql.VerifC03Value) gocql.VerifC03Params {
			p := gocql.VerifC03Params{Consistency: uint16(cfg.Consistency), SkipMeta: skip, Values: vals, SerialConsistency: uint16(cfg.SerialConsistency),
				DefaultTimestamp: cfg.DefaultTimestamp, Keyspace: ks5}
			if cfg.PageSize > 0 {
				p.PageSize = cfg.PageSize
			}
			return p
		}
		baseBatch := func(typ byte) *gocql.VerifC03Request {
			return &gocql.VerifC03Request{Kind: gocql.VerifC03Batch, BatchType: typ, Consistency: uint16(cfg.Consistency),
				SerialCons: uint16(cfg.SerialConsistency), DefaultTS: cfg.DefaultTimestamp}
		}
		if bigCount == 0 {
			// 1. positional values: bytes, null, empty; consistency set, everything else inherited from the session
			{
				w := base(mkVals(b1, nil, []byte{}))
				w.Consistency = uint16(gocql.Quorum)
				run(&liveOp{what: "Query(values)", stmt: stmt3, want: &gocql.VerifC03Request{Kind: gocql.VerifC03Execute, Params: w}},
					func() error { return s.Query(stmt3, b1, nil, []byte{}).Consistency(gocql.Quorum).Exec() })
			}
			// 2. unset (v4+), serial consistency, explicit timestamp (v3+), custom payload (v4+), tracing
			{
				q := s.Query(stmt3, b3, b1, b3).Consistency(gocql.LocalQuorum).SerialConsistency(gocql.LocalSerial).Trace(nopTracer{})
				w := base(mkVals(b3, b1, b3))
				w.Consistency, w.SerialConsistency = uint16(gocql.LocalQuorum), uint16(gocql.LocalSerial)
				var pl map[string][]byte
				if v >= 4 {
					q = s.Query(stmt3, b3, gocql.UnsetValue, b3).Consistency(gocql.LocalQuorum).SerialConsistency(gocql.LocalSerial).Trace(nopTracer{})
					w.Values[1] = gocql.VerifC03Value{IsUnset: true}
					pl = map[string][]byte{"pk": {1, 2, 3}, "nul": nil}
					q.CustomPayload(pl)
				}
				if v >= 3 {
					q.WithTimestamp(1700000000123456)
					w.DefaultTimestamp, w.DefaultTimestampValue = true, 1700000000123456
				}
				run(&liveOp{what: "Query(unset,serial,timestamp,payload,trace)", stmt: stmt3, tracing: true,
					want: &gocql.VerifC03Request{Kind: gocql.VerifC03Execute, Params: w, CustomPayload: pl}}, func() error { return q.Exec() })
			}
			// 3. named values (v3+) and "timestamp: now" switched on for this query
			if v >= 3 {
				w := base([]gocql.VerifC03Value{{Name: "c0", Value: b1}, {Name: "c1", Value: nil}})
				w.DefaultTimestamp = true
				run(&liveOp{what: "Query(named,timestamp now)", stmt: stmtN, want: &gocql.VerifC03Request{Kind: gocql.VerifC03Execute, Params: w}},
					func() error {
						return s.Query(stmtN, gocql.NamedValue("c0", b1), gocql.NamedValue("c1", nil)).DefaultTimestamp(true).Exec()
					})
			}
			// 4. Bind: every option inherited from the session
			run(&liveOp{what: "Bind", stmt: stmtB, want: &gocql.VerifC03Request{Kind: gocql.VerifC03Execute, Params: base(mkVals(b3, b1))}},
				func() error {
					return s.Bind(stmtB, func(qi *gocql.QueryInfo) ([]interface{}, error) { return []interface{}{b3, b1}, nil }).Exec()
				})
			// 4b. explicit opt-outs of everything the session may have switched on
			{
				w := base(mkVals(b1, b1, nil))
				w.DefaultTimestamp, w.PageSize, w.SerialConsistency = false, 0, 0
				run(&liveOp{what: "Query(DefaultTimestamp(false),PageSize(0),SerialConsistency(0),Trace(nil))", stmt: stmt3,
					want: &gocql.VerifC03Request{Kind: gocql.VerifC03Execute, Params: w}},
					func() error {
						return s.Query(stmt3, b1, b1, nil).DefaultTimestamp(false).PageSize(0).SerialConsistency(0).Trace(nil).Prefetch(0.9).Idempotent(true).Exec()
					})
			}
			// 5. paged iteration: page size 2 over 5 rows = 3 EXECUTEs, the later ones carry the paging state
			if v >= 2 {
				for page := 0; page < 3; page++ {
					w := base([]gocql.VerifC03Value{})
					w.PageSize = 2
					if page > 0 {
						w.PagingState = be64(uint64(2 * page))
					}
					ops = append(ops, &liveOp{what: fmt.Sprintf("paged SELECT page %d", page), stmt: stmtSel, want: &gocql.VerifC03Request{Kind: gocql.VerifC03Execute, Params: w}})
				}
				it := s.Query(stmtSel).PageSize(2).Iter()
				rows := 0
				var k string
				var x int
				for it.Scan(&k, &x) {
					rows++
				}
				if err := it.Close(); err != nil || rows != 5 {
					o.Violate(-1, "live-call-failed", "", fmt.Sprintf("v%d paged SELECT: %d rows, %v", v, rows, err), nil)
				}
			}
			// 6. Batch (v2+): a prepared entry with values, an entry without; options set / inherited / switched off
			if v >= 2 {
				del := "DELETE FROM demo.bt_" + tag + " WHERE c0 = 0x00"
				b := s.NewBatch(gocql.UnloggedBatch)
				b.Cons = gocql.Quorum
				b.Query(stmtBatch, b1, b3)
				b.Query(del)
				b.Query(stmtBatch, nil, []byte{})
				want := baseBatch(1)
				want.Consistency = uint16(gocql.Quorum)
				want.Statements = []gocql.VerifC03Stmt{{Values: mkVals(b1, b3)}, {Statement: del}, {Values: mkVals(nil, []byte{})}}
				b.SerialConsistency(gocql.Serial).WithTimestamp(-5)
				want.SerialCons, want.DefaultTS, want.DefaultTSVal = uint16(gocql.Serial), true, -5
				if v >= 4 {
					b.CustomPayload = map[string][]byte{"bk": {9}}
					want.CustomPayload = b.CustomPayload
				}
				run(&liveOp{what: "Batch(set)", stmt: "\x00batch", want: want}, func() error { return s.ExecuteBatch(b) })

				b2 := s.NewBatch(gocql.LoggedBatch)
				b2.Query(del)
				want2 := baseBatch(0)
				want2.Statements = []gocql.VerifC03Stmt{{Statement: del}}
				run(&liveOp{what: "Batch(inherited)", stmt: "\x00batch", want: want2}, func() error { return s.ExecuteBatch(b2) })

				bOff := s.NewBatch(gocql.CounterBatch).DefaultTimestamp(false).SerialConsistency(0).Trace(nil)
				bOff.Query(del)
				bOff.Query(stmtBatch, b1, nil)
				want3 := baseBatch(2)
				want3.DefaultTS, want3.SerialCons = false, 0
				want3.Statements = []gocql.VerifC03Stmt{{Statement: del}, {Values: mkVals(b1, nil)}}
				run(&liveOp{what: "Batch(DefaultTimestamp(false),SerialConsistency(0))", stmt: "\x00batch", want: want3}, func() error { return s.ExecuteBatch(bOff) })

				// the deprecated package-level constructor inherits nothing from the session
				b4 := gocql.NewBatch(gocql.UnloggedBatch)
				b4.Cons = gocql.One
				b4.Query(del)
				want4 := &gocql.VerifC03Request{Kind: gocql.VerifC03Batch, BatchType: 1, Consistency: uint16(gocql.One), Statements: []gocql.VerifC03Stmt{{Statement: del}}}
				run(&liveOp{what: "Batch(gocql.NewBatch)", stmt: "\x00batch", want: want4}, func() error { return s.ExecuteBatch(b4) })
			}
			// 7. a statement that is not prepared (QUERY)
			trunc := "TRUNCATE demo.t_" + tag
			{
				w := base(nil)
				w.SkipMeta, w.Consistency = false, uint16(gocql.All)
				run(&liveOp{what: "Query(unprepared)", stmt: trunc, want: &gocql.VerifC03Request{Kind: gocql.VerifC03Query, Statement: trunc, Params: w}},
					func() error { return s.Query(trunc).Consistency(gocql.All).Exec() })
			}
		} else {
			// [short] count boundary: 65535 bound values; 65535 batch statements (v2+)
			args := make([]interface{}, bigCount)
			vals := make([]gocql.VerifC03Value, bigCount)
			for i := range args {
				args[i] = []byte{7}
				vals[i].Value = []byte{7}
			}
			run(&liveOp{what: "Query(65535 values)", stmt: stmtBig, want: &gocql.VerifC03Request{Kind: gocql.VerifC03Execute, Params: base(vals)}},
				func() error { return s.Query(stmtBig, args...).Exec() })
			b := s.NewBatch(gocql.LoggedBatch)
			want := baseBatch(0)
			del := "DELETE FROM demo.kv WHERE k = 'zz'"
			for i := 0; i < bigCount; i++ {
				b.Query(del)
			}
			want.Statements = make([]gocql.VerifC03Stmt, bigCount)
			for i := range want.Statements {
				want.Statements[i].Statement = del
			}
			run(&liveOp{what: "Batch(65535 statements)", stmt: "\x00batch", want: want}, func() error { return s.ExecuteBatch(b) })
		}
		s.Close()
	}

	// ---- everything the node received ---------------------------------------------------------------------
	reqs := nd.Requests()
	sort.Slice(reqs, func(i, j int) bool { return reqs[i].Seq < reqs[j].Seq })
	snappyDecode := node.Snappy{}.Decode
	perConn := map[*node.ServerConn][]*lmsg{}
	hs := 8
	if v > 2 {
		hs = 9
	}
	for _, rq := range reqs {
		raw := rq.Raw
		input := map[string]interface{}{"version": v, "auth": lv.auth, "snappy": lv.snappy, "frame": fmt.Sprintf("% x", head(raw, 96))}
		m, err := decodeRequest(raw, snappyDecode)
		o.Count(kind)
		if err != nil {
			finding := ""
			if v == 1 && len(raw) > 3 && raw[3] == 15 {
				finding = "v1-auth-response-opcode"
			}
			idx := -1
			if finding != "" && !lv.snappy && !o.Search {
				// the frame the version does not define: the model reproduces it too
				idx = o.Case(kind+"/auth_response-v1", true, fmt.Sprintf("CBuild %d false false %d (RAuthResponse %s) (OBytes %s)", v, frameStream(v, raw),
					optBytesTerm([]byte("\x00cassandra\x00s3cret")), bytesTerm(raw)))
			}
			o.Violate(idx, "live-malformed-frame", finding, fmt.Sprintf("live frame is not a well-formed v%d request: %v", v, err), input)
			continue
		}
		perConn[rq.Conn] = append(perConn[rq.Conn], m)
		// header (theorem C03_header): version, flags, length
		wantFlags := byte(0)
		if lv.snappy && m.opcode != 1 && m.opcode != 5 {
			wantFlags |= 0x01
		}
		if v == 5 {
			wantFlags |= 0x10
		}
		if m.version != v || m.flags&^0x06 != wantFlags || int(m.length) != len(raw)-hs {
			o.Violate(-1, "live-header", "", fmt.Sprintf("header % x: want version %d flags 0x%02x (+tracing/payload) length %d", raw[:hs], v, wantFlags, len(raw)-hs), input)
		}
		// correspondence: the model rebuilds the frame from its decoded content
		if !o.Search {
			back := fromDecoded(m)
			if lv.snappy {
				body, zbody := []byte{}, []byte{}
				if m.flags&0x01 != 0 {
					zbody = raw[hs:]
					b, err := snappyDecode(zbody)
					if err != nil {
						o.Violate(-1, "live-snappy", "", fmt.Sprintf("body does not decode with snappy: %v", err), input)
						continue
					}
					body = b
				}
				o.Case(kind+"/snappy/"+kindName[back.Kind], true, fmt.Sprintf("CLiveZ %d %s %d %s %s %s %s", v, hlib.Bool(m.tracing), m.stream, requestTerm(back),
					bytesTerm(body), bytesTerm(zbody), bytesTerm(raw)))
			} else {
				o.Case(kind+"/"+kindName[back.Kind], true, fmt.Sprintf("CBuild %d false %s %d %s (OBytes %s)", v, hlib.Bool(m.tracing), m.stream, requestTerm(back), bytesTerm(raw)))
			}
		}
		// the harness's own calls
		var stmt string
		switch m.opcode {
		case 10:
			if p := n.Prepared(m.id); p != nil {
				stmt = p.Statement
			}
		case 7:
			stmt = m.stmt
		case 13:
			stmt = "\x00batch"
		case 9:
			for _, op := range ops {
				if op.stmt == m.stmt {
					want := &gocql.VerifC03Request{Kind: gocql.VerifC03Prepare, Statement: m.stmt}
					if v >= 5 {
						want.Keyspace = "demo"
					}
					if got, w := m.canon(), asked(want, m.tracing, 0).canon(); got != w {
						o.Violate(-1, "live-decoded-differs", "", fmt.Sprintf("PREPARE: got %s want %s", trunc(got, 600), trunc(w, 600)), input)
					}
					break
				}
			}
		}
		for _, op := range ops {
			if op.done || op.stmt != stmt || stmt == "" {
				continue
			}
			op.done = true
			want := *op.want
			// what the version has no notation for is not on the wire (C03_wire_meaning): no timestamps before v3,
			// no paging / serial consistency in v1, no batch flags (serial consistency, timestamp) in v2
			if want.Kind == gocql.VerifC03Execute || want.Kind == gocql.VerifC03Query {
				if v < 3 {
					want.Params.DefaultTimestamp, want.Params.DefaultTimestampValue = false, 0
				}
				if v < 2 {
					want.Params.PageSize, want.Params.SerialConsistency = 0, 0
				}
			}
			if want.Kind == gocql.VerifC03Batch && v < 3 {
				want.DefaultTS, want.DefaultTSVal, want.SerialCons = false, 0, 0
			}
			if want.Kind == gocql.VerifC03Execute {
				want.PreparedID = m.id
				if p := n.Prepared(m.id); p == nil || p.Statement != op.stmt {
					o.Violate(-1, "live-decoded-differs", "", op.what+": EXECUTE of an id that was not prepared for this statement", input)
				}
			}
			if want.Kind == gocql.VerifC03Batch {
				for i := range want.Statements {
					if want.Statements[i].Statement == "" && i < len(m.bqueries) {
						want.Statements[i].PreparedID = m.bqueries[i].id
						if p := n.Prepared(m.bqueries[i].id); p == nil || p.Statement != "INSERT INTO demo.bt_"+tag+" (c0, c1) VALUES (?, ?)" {
							o.Violate(-1, "live-decoded-differs", "", op.what+": batch entry with an id that was not prepared for its statement", input)
						}
					}
				}
			}
			ts, hasTS := decodedTS(m)
			if got, w := m.canon(), asked(&want, op.tracing, ts).canon(); got != w {
				o.Violate(-1, "live-decoded-differs", "", fmt.Sprintf("v%d %s: decoded request differs from what the API call asked for:\n got  %s\n want %s", v, op.what, trunc(got, 900), trunc(w, 900)), input)
			}
			usesNow := (want.Kind == gocql.VerifC03Execute || want.Kind == gocql.VerifC03Query) && want.Params.DefaultTimestamp && want.Params.DefaultTimestampValue == 0 ||
				want.Kind == gocql.VerifC03Batch && want.DefaultTS && want.DefaultTSVal == 0
			if usesNow && op.t1 != 0 && (!hasTS || ts < op.t0 || ts > op.t1) {
				o.Violate(-1, "live-timestamp-now", "", fmt.Sprintf("v%d %s: timestamp %d outside [%d,%d]", v, op.what, ts, op.t0, op.t1), input)
			}
			break
		}
	}
	for _, op := range ops {
		if !op.done {
			o.Violate(-1, "live-frame-missing", "", fmt.Sprintf("v%d auth=%v snappy=%v: no frame seen for %s", v, lv.auth, lv.snappy, op.what), nil)
		}
	}

	// ---- handshake, per connection ---------------------------------------------------------------------------
	registered := 0
	for c, ms := range perConn {
		desc := fmt.Sprintf("v%d auth=%v snappy=%v conn %d", v, lv.auth, lv.snappy, c.Index())
		bad := func(f string, a ...interface{}) {
			o.Violate(-1, "live-handshake", "", desc+": "+fmt.Sprintf(f, a...), nil)
		}
		if len(ms) < 2 || ms[0].opcode != 5 || ms[1].opcode != 1 {
			bad("connection does not start with OPTIONS, STARTUP")
			continue
		}
		st := ms[1]
		wantKeys := []string{"CQL_VERSION", "DRIVER_NAME", "DRIVER_VERSION"}
		if lv.snappy {
			wantKeys = append(wantKeys, "COMPRESSION")
		}
		sort.Strings(wantKeys)
		var keys []string
		for k := range st.startup {
			keys = append(keys, k)
		}
		sort.Strings(keys)
		if strings.Join(keys, ",") != strings.Join(wantKeys, ",") || st.startup["CQL_VERSION"] != cfg.CQLVersion || (lv.snappy && st.startup["COMPRESSION"] != "snappy") {
			bad("STARTUP options %v, want keys %v with CQL_VERSION %q", st.startup, wantKeys, cfg.CQLVersion)
		}
		next := 2
		if lv.auth && v >= 2 {
			if len(ms) < 3 || ms[2].opcode != 15 || ms[2].token == nil || !bytes.Equal(*ms[2].token, []byte("\x00cassandra\x00s3cret")) {
				bad("no AUTH_RESPONSE with the SASL PLAIN token after STARTUP")
				continue
			}
			next = 3
		}
		for _, m := range ms[next:] {
			switch {
			case m.opcode == 11:
				registered++
				if strings.Join(m.events, ",") != "TOPOLOGY_CHANGE,STATUS_CHANGE,SCHEMA_CHANGE" {
					bad("REGISTER %v", m.events)
				}
			case m.opcode == 7 && strings.HasPrefix(m.stmt, "USE "):
				if m.stmt != `USE "demo"` {
					bad("USE statement %q", m.stmt)
				}
			case m.opcode == 1 || m.opcode == 15:
				bad("opcode %d after the handshake", m.opcode)
			}
		}
	}
	if err == nil && registered != 1 {
		o.Violate(-1, "live-handshake", "", fmt.Sprintf("v%d: %d REGISTER frames (want 1, on the control connection)", v, registered), nil)
	}
}

// liveBatchLimit: batches of 65535 / 65536 / 65537 entries through Session.ExecuteBatch on a live session.
// The statement count of BATCH is a [short]: 65535 entries must go out (and decode to 65535 statements),
// more must be refused with ErrTooManyStmts before anything is written (session.go, BatchSizeMaximum).
func liveBatchLimit(o *hlib.Out, v byte, sizes []int) {
	n := node.NewNet()
	defer n.Close()
	nd := n.AddNode("10.0.0.1:9042")
	cfg := gocql.NewCluster("10.0.0.1")
	cfg.Dialer = n.Dialer()
	cfg.ProtoVersion = int(v)
	cfg.Timeout = 20 * time.Second
	cfg.ConnectTimeout = 10 * time.Second
	cfg.NumConns = 1
	cfg.DefaultTimestamp = false
	cfg.Logger = log.New(io.Discard, "", 0)
	cfg.DisableSkipMetadata = v == 1
	s, err := gocql.NewSession(*cfg)
	if err != nil {
		o.Violate(-1, "live-session", "", fmt.Sprintf("NewSession(v%d) for the batch-size probe failed: %v", v, err), nil)
		return
	}
	defer s.Close()
	kind := fmt.Sprintf("live-batch-limit/v%d", v)
	del := "DELETE FROM ks.t WHERE k = 1"
	batchFrames := func() [][]byte {
		var fs [][]byte
		for _, rq := range nd.Requests() {
			if rq.Header.Opcode == 13 {
				fs = append(fs, rq.Raw)
			}
		}
		return fs
	}
	for _, size := range sizes {
		before := len(batchFrames())
		b := s.NewBatch(gocql.UnloggedBatch)
		b.Cons = gocql.One
		for i := 0; i < size; i++ {
			b.Query(del)
		}
		err := s.ExecuteBatch(b)
		refused := err == gocql.ErrTooManyStmts
		frames := batchFrames()[before:]
		input := map[string]interface{}{"version": v, "entries": size, "error": fmt.Sprint(err), "batch_frames_written": len(frames)}
		o.Count(kind)
		idx := -1
		if !o.Search {
			idx = o.Case(kind+"/guard", true, fmt.Sprintf("CSessionBatchGuard %d %s", size, hlib.Bool(refused)))
		}
		if size >= 1<<16 {
			if !refused {
				o.Violate(idx, "live-batch-too-many", "", fmt.Sprintf("a batch of %d entries was not refused with ErrTooManyStmts (error: %v): the statement count of BATCH is a [short]", size, err), input)
			}
			for _, f := range frames {
				if _, derr := decodeRequest(f, node.Snappy{}.Decode); derr != nil {
					o.Violate(idx, "live-malformed-frame", "", fmt.Sprintf("a batch of %d entries went out as a malformed BATCH frame of %d bytes: %v; first bytes % x", size, len(f), derr, head(f, 24)), input)
				} else {
					o.Violate(idx, "live-batch-too-many", "", fmt.Sprintf("a BATCH frame was written for a batch of %d entries", size), input)
				}
			}
			continue
		}
		if err != nil || len(frames) != 1 {
			o.Violate(idx, "live-call-failed", "", fmt.Sprintf("v%d batch of %d entries: error %v, %d BATCH frames", v, size, err, len(frames)), input)
			continue
		}
		m, derr := decodeRequest(frames[0], node.Snappy{}.Decode)
		if derr != nil {
			o.Violate(idx, "live-malformed-frame", "", fmt.Sprintf("batch of %d entries: %v", size, derr), input)
			continue
		}
		want := &gocql.VerifC03Request{Kind: gocql.VerifC03Batch, BatchType: 1, Consistency: uint16(gocql.One), Statements: make([]gocql.VerifC03Stmt, size)}
		for i := range want.Statements {
			want.Statements[i].Statement = del
		}
		if got, w := m.canon(), asked(want, false, 0).canon(); got != w {
			o.Violate(idx, "live-decoded-differs", "", fmt.Sprintf("batch of %d entries: got %s want %s", size, trunc(got, 500), trunc(w, 500)), input)
		}
		if !o.Search {
			o.Case(kind+"/batch", true, fmt.Sprintf("CBuild %d false false %d %s (OBytes %s)", v, m.stream, requestTerm(fromDecoded(m)), bytesTerm(frames[0])))
		}
	}
}
