package main

import (
	"strings"

	"github.com/gocql/gocql"
	"gocqlverif/hlib"
)

type gen struct {
	r    *hlib.Rng
	o    *hlib.Out
	jobs []*job
}

// pin makes a request independent of the two inputs the harness does not control (clock, map order): used
// for the cases whose frames the spec-side decoder cannot read back (version bytes outside 1..5)
func pin(req *gocql.VerifC03Request) {
	if req.Params.DefaultTimestamp && req.Params.DefaultTimestampValue == 0 {
		req.Params.DefaultTimestampValue = 424242
	}
	if req.DefaultTS && req.DefaultTSVal == 0 {
		req.DefaultTSVal = 424242
	}
	if len(req.CustomPayload) > 1 {
		k := sortedKeysB(req.CustomPayload)[0]
		req.CustomPayload = map[string][]byte{k: req.CustomPayload[k]}
	}
	if len(req.Opts) > 1 {
		req.Opts = map[string]string{"CQL_VERSION": req.Opts["CQL_VERSION"]}
	}
}

func (g *gen) add(kind string, version byte, comp, tracing bool, stream int, req *gocql.VerifC03Request) *job {
	if kind == "odd-version" {
		pin(req)
	}
	j := &job{kind: kind, version: version, comp: comp, tracing: tracing, stream: stream, req: req}
	g.jobs = append(g.jobs, j)
	return j
}

func maxStream(v byte) int {
	if v > 2 {
		return 32767
	}
	return 127
}

// a stream id inside the version's range, boundaries favoured
func (g *gen) stream(v byte) int {
	mx := maxStream(v)
	switch g.r.Intn(6) {
	case 0:
		return 0
	case 1:
		return 1
	case 2:
		return mx
	case 3:
		if v > 2 {
			return int(g.r.Pick(255, 256, 257, 128, 0x7f00, 0x00ff))
		}
		return int(g.r.Pick(126, 64, 2))
	}
	return g.r.Intn(mx + 1)
}

func (g *gen) ident(n int) string {
	const al = "abcdefghijklmnopqrstuvwxyz_0123456789"
	b := make([]byte, n)
	for i := range b {
		b[i] = al[g.r.Intn(len(al))]
	}
	return string(b)
}

func (g *gen) blob(maxLen int) []byte {
	switch g.r.Intn(8) {
	case 0:
		return []byte{}
	case 1:
		return []byte{byte(g.r.Pick(0, 0x7f, 0x80, 0xff))}
	}
	return g.r.Bytes(1 + g.r.Intn(maxLen))
}

func (g *gen) stmt() string {
	s := []string{"SELECT * FROM ks.t WHERE k = ?", "INSERT INTO t (a, b) VALUES (?, ?)", "USE \"ks\"", "", "x",
		"SELECT \xc3\xa9 FROM \xff\x00t", "UPDATE t SET v = :v WHERE k = :k"}[g.r.Intn(7)]
	if g.r.Chance(10) {
		s += strings.Repeat("y", g.r.Intn(300))
	}
	return s
}

const (
	flavBytes = iota
	flavNull
	flavUnset
	flavNamed
	flavMixedFirstNamed
	flavMixedFirstPlain
	flavRandom
	nFlav
)

func (g *gen) value(flav, i int) gocql.VerifC03Value {
	var v gocql.VerifC03Value
	v.Value = g.blob(12)
	switch flav {
	case flavNull:
		v.Value = nil
	case flavUnset:
		v.IsUnset = true
		if g.r.Bool() {
			v.Value = nil
		}
	case flavNamed:
		v.Name = g.ident(1 + g.r.Intn(6))
	case flavMixedFirstNamed:
		if i == 0 || g.r.Bool() {
			v.Name = g.ident(2)
		}
	case flavMixedFirstPlain:
		if i != 0 && g.r.Bool() {
			v.Name = g.ident(2)
		}
	case flavRandom:
		switch g.r.Intn(5) {
		case 0:
			v.Value = nil
		case 1:
			v.IsUnset = true
		}
	}
	return v
}

func (g *gen) values(n, flav int) []gocql.VerifC03Value {
	if n == 0 {
		if g.r.Bool() {
			return nil
		}
		return []gocql.VerifC03Value{}
	}
	vs := make([]gocql.VerifC03Value, n)
	if n > 16 {
		// long lists: one repeated value (first/last may differ) so that the case term stays small
		x := g.value(flav, 1)
		if flav == flavMixedFirstNamed || flav == flavMixedFirstPlain {
			x.Name = ""
		}
		for i := range vs {
			vs[i] = x
		}
		vs[0] = g.value(flav, 0)
		if flav == flavMixedFirstPlain {
			vs[n-1].Name = "zz"
		}
		if flav == flavBytes || flav == flavRandom {
			vs[n-1] = g.value(flav, n-1)
		}
		return vs
	}
	for i := range vs {
		vs[i] = g.value(flav, i)
	}
	return vs
}

func (g *gen) cons() uint16 {
	return uint16(g.r.Pick(0, 1, 2, 3, 4, 5, 6, 7, 10, 1, 4, 6))
}

func (g *gen) payload(v byte, want bool) map[string][]byte {
	if !want {
		if g.r.Bool() {
			return nil
		}
		return map[string][]byte{}
	}
	n := 1 + g.r.Intn(3)
	m := map[string][]byte{}
	for i := 0; i < n; i++ {
		var x []byte
		if !g.r.Chance(20) {
			x = g.blob(10)
		}
		m[g.ident(1+g.r.Intn(5))] = x
	}
	return m
}

// query parameters with the optional fields selected by mask:
// 1 values, 2 skip metadata, 4 page size, 8 paging state, 16 serial consistency, 32 default timestamp, 64 keyspace
func (g *gen) params(mask, flav int) gocql.VerifC03Params {
	p := gocql.VerifC03Params{Consistency: g.cons()}
	if mask&1 != 0 {
		p.Values = g.values(1+g.r.Intn(4), flav)
	} else if g.r.Bool() {
		p.Values = []gocql.VerifC03Value{}
	}
	p.SkipMeta = mask&2 != 0
	if mask&4 != 0 {
		p.PageSize = int(g.r.Pick(1, 2, 100, 5000, 255, 256, 65536, 1<<31-1, 0x01020304))
	} else if g.r.Chance(20) {
		p.PageSize = int(g.r.Pick(0, -1, -5000))
	}
	if mask&8 != 0 {
		p.PagingState = g.r.Bytes(1 + g.r.Intn(20))
	} else if g.r.Bool() {
		p.PagingState = []byte{}
	}
	if mask&16 != 0 {
		p.SerialConsistency = uint16(g.r.Pick(8, 9))
	}
	if mask&32 != 0 {
		p.DefaultTimestamp = true
		p.DefaultTimestampValue = g.r.Pick(0, 1, -1, 1700000000000000, 1<<63-1, -(1 << 63), 0x0102030405060708, g.r.I64())
	} else if g.r.Chance(20) {
		p.DefaultTimestampValue = 12345 // ignored without the flag
	}
	if mask&64 != 0 {
		p.Keyspace = g.ident(1 + g.r.Intn(8))
	}
	return p
}

var versions = []byte{1, 2, 3, 4, 5}

func generate(o *hlib.Out) *gen {
	g := &gen{r: o.Rng, o: o}
	r := g.r
	reps := 1
	if o.Scale > 1 {
		reps = 4
	}
	if o.Search {
		reps = 6
	}

	// ---- 1. every subset of the optional query parameters, QUERY and EXECUTE, every version -----------
	for rep := 0; rep < reps; rep++ {
		for _, v := range versions {
			for mask := 0; mask < 128; mask++ {
				for _, kind := range []int{gocql.VerifC03Query, gocql.VerifC03Execute} {
					flav := flavBytes
					if mask&1 != 0 {
						flav = []int{flavBytes, flavRandom, flavNamed, flavNull, flavUnset, flavRandom}[r.Intn(6)]
					}
					req := &gocql.VerifC03Request{Kind: kind, Params: g.params(mask, flav)}
					if kind == gocql.VerifC03Query {
						req.Statement = g.stmt()
					} else {
						req.PreparedID = r.Bytes(int(r.Pick(16, 16, 1, 0, 32)))
					}
					req.CustomPayload = g.payload(v, v >= 4 && r.Chance(30))
					g.add("subsets", v, r.Chance(30), r.Chance(30), g.stream(v), req)
				}
			}
		}
	}

	// ---- 2. the other request kinds ---------------------------------------------------------------------
	for rep := 0; rep < reps; rep++ {
		for _, v := range versions {
			for _, comp := range []bool{false, true} {
				for _, tracing := range []bool{false, true} {
					for n := 0; n <= 4; n++ {
						opts := map[string]string{}
						for _, k := range []string{"CQL_VERSION", "DRIVER_NAME", "DRIVER_VERSION", "COMPRESSION"}[:n] {
							opts[k] = []string{"3.0.0", "gocql", "", "snappy", "lz4"}[r.Intn(5)]
						}
						if n == 0 && r.Bool() {
							opts = nil
						}
						g.add("kinds", v, comp, tracing, g.stream(v), &gocql.VerifC03Request{Kind: gocql.VerifC03Startup, Opts: opts})
					}
					g.add("kinds", v, comp, tracing, g.stream(v), &gocql.VerifC03Request{Kind: gocql.VerifC03Options})
					for _, d := range [][]byte{nil, {}, []byte("\x00cassandra\x00cassandra"), r.Bytes(1 + r.Intn(40))} {
						g.add("kinds", v, comp, tracing, g.stream(v), &gocql.VerifC03Request{Kind: gocql.VerifC03AuthResponse, Data: d})
					}
					for _, ev := range [][]string{nil, {}, {"TOPOLOGY_CHANGE"}, {"TOPOLOGY_CHANGE", "STATUS_CHANGE", "SCHEMA_CHANGE"}, {"", "x"}} {
						g.add("kinds", v, comp, tracing, g.stream(v), &gocql.VerifC03Request{Kind: gocql.VerifC03Register, Events: ev})
					}
					for _, ks := range []string{"", "ks1"} {
						for _, pl := range []bool{false, true} {
							if (ks != "" && v < 5) || (pl && v < 4) {
								continue // inexpressible: stream 6
							}
							g.add("kinds", v, comp, tracing, g.stream(v), &gocql.VerifC03Request{Kind: gocql.VerifC03Prepare, Statement: g.stmt(), Keyspace: ks,
								CustomPayload: g.payload(v, pl)})
						}
					}
				}
			}
		}
	}

	// ---- 3. batches: every subset of {serial consistency, timestamp, payload} x shapes -----------------------
	for rep := 0; rep < reps; rep++ {
		for _, v := range versions {
			for mask := 0; mask < 8; mask++ {
				for shape := 0; shape < 5; shape++ {
					req := &gocql.VerifC03Request{Kind: gocql.VerifC03Batch, BatchType: byte(r.Pick(0, 1, 2)), Consistency: g.cons()}
					if mask&1 != 0 {
						req.SerialCons = uint16(r.Pick(8, 9))
					}
					if mask&2 != 0 {
						req.DefaultTS = true
						req.DefaultTSVal = r.Pick(0, 1, -1, 1700000000000000, r.I64())
					}
					req.CustomPayload = g.payload(v, mask&4 != 0 && v >= 4)
					flav := []int{flavBytes, flavRandom, flavNull, flavUnset}[r.Intn(4)]
					switch shape {
					case 0:
					case 1:
						req.Statements = []gocql.VerifC03Stmt{{Statement: g.stmt()}}
					case 2:
						req.Statements = []gocql.VerifC03Stmt{{PreparedID: r.Bytes(16), Values: g.values(1+r.Intn(4), flav)}}
					case 3:
						req.Statements = []gocql.VerifC03Stmt{{Statement: g.stmt(), Values: g.values(2, flav)}, {PreparedID: r.Bytes(1 + r.Intn(20)), Statement: "ignored"},
							{Statement: g.stmt(), PreparedID: []byte{}}}
					case 4:
						n := 2 + r.Intn(6)
						for i := 0; i < n; i++ {
							s := gocql.VerifC03Stmt{Values: g.values(r.Intn(4), flavRandom)}
							if r.Bool() {
								s.PreparedID = r.Bytes(16)
							} else {
								s.Statement = g.stmt()
							}
							req.Statements = append(req.Statements, s)
						}
					}
					g.add("batch", v, r.Chance(30), r.Chance(30), g.stream(v), req)
				}
			}
		}
	}

	// ---- 4. value / statement / event counts at the boundaries of the [short] count -------------------------
	bigBudget := 24 // large cases in the quick tier (each is a 65535-element list inside coqc)
	if o.Scale > 1 || o.Search {
		bigBudget = 1 << 30
	}
	type bigcand struct {
		v     byte
		n     int
		flav  int
		shape int
	}
	var bigs []bigcand
	for _, v := range versions {
		for _, n := range []int{0, 1, 2, 255, 256, 65535, 65536} {
			for flav := 0; flav < nFlav; flav++ {
				for shape := 0; shape < 4; shape++ {
					if n >= 65535 {
						bigs = append(bigs, bigcand{v, n, flav, shape})
						continue
					}
					g.countCase(v, n, flav, shape)
				}
			}
		}
	}
	// deterministic choice of the large cases for this seed
	for i := len(bigs) - 1; i > 0; i-- {
		k := r.Intn(i + 1)
		bigs[i], bigs[k] = bigs[k], bigs[i]
	}
	for i, c := range bigs {
		if i >= bigBudget {
			break
		}
		g.countCase(c.v, c.n, c.flav, c.shape).big = true
	}
	for _, n := range []int{255, 256, 65535, 65536} {
		evs := make([]string, n)
		for i := range evs {
			evs[i] = "E"
		}
		v := versions[r.Intn(5)]
		g.add("counts", v, r.Chance(30), false, g.stream(v), &gocql.VerifC03Request{Kind: gocql.VerifC03Register, Events: evs}).big = n > 300
	}

	// ---- 5. structured random requests -----------------------------------------------------------------------
	nrand := 250 * o.Scale
	for i := 0; i < nrand; i++ {
		v := versions[r.Intn(5)]
		var req *gocql.VerifC03Request
		switch r.Intn(6) {
		case 0, 1:
			req = &gocql.VerifC03Request{Kind: gocql.VerifC03Query, Statement: g.stmt(), Params: g.params(r.Intn(128), r.Intn(nFlav)), CustomPayload: g.payload(v, r.Chance(40))}
		case 2, 3:
			req = &gocql.VerifC03Request{Kind: gocql.VerifC03Execute, PreparedID: r.Bytes(r.Intn(24)), Params: g.params(r.Intn(128), r.Intn(nFlav)), CustomPayload: g.payload(v, r.Chance(40))}
		case 4:
			req = &gocql.VerifC03Request{Kind: gocql.VerifC03Batch, BatchType: byte(r.Pick(0, 1, 2, 2, 3, 255)), Consistency: uint16(r.U64()), SerialCons: uint16(r.Pick(0, 0, 8, 9, 65535)),
				DefaultTS: r.Bool(), DefaultTSVal: r.Pick(0, r.I64()), CustomPayload: g.payload(v, r.Chance(30))}
			n := r.Intn(6)
			for k := 0; k < n; k++ {
				s := gocql.VerifC03Stmt{Values: g.values(r.Intn(5), r.Intn(nFlav))}
				if r.Bool() {
					s.PreparedID = r.Bytes(1 + r.Intn(20))
				} else {
					s.Statement = g.stmt()
				}
				req.Statements = append(req.Statements, s)
			}
		default:
			req = &gocql.VerifC03Request{Kind: gocql.VerifC03Prepare, Statement: g.stmt(), Keyspace: []string{"", "", "ks"}[r.Intn(3)], CustomPayload: g.payload(v, r.Chance(30))}
		}
		g.add("random", v, r.Chance(40), r.Chance(40), g.stream(v), req)
	}

	// ---- 6. requests a version cannot express, 2^16 overflows, out-of-range streams and version bytes ------
	for rep := 0; rep < reps; rep++ {
		for _, v := range versions {
			one := []gocql.VerifC03Value{{Value: []byte{1}}}
			pl := map[string][]byte{"k": {1, 2}}
			// custom payload below v4, keyspace below v5 (all versions are generated: the expressible ones are plain positives)
			g.add("inexpressible", v, r.Bool(), false, g.stream(v), &gocql.VerifC03Request{Kind: gocql.VerifC03Query, Statement: "q", CustomPayload: pl})
			g.add("inexpressible", v, r.Bool(), false, g.stream(v), &gocql.VerifC03Request{Kind: gocql.VerifC03Prepare, Statement: "q", CustomPayload: pl})
			g.add("inexpressible", v, r.Bool(), false, g.stream(v), &gocql.VerifC03Request{Kind: gocql.VerifC03Execute, PreparedID: []byte{9}, CustomPayload: pl})
			g.add("inexpressible", v, r.Bool(), false, g.stream(v), &gocql.VerifC03Request{Kind: gocql.VerifC03Batch, CustomPayload: pl})
			g.add("inexpressible", v, r.Bool(), false, g.stream(v), &gocql.VerifC03Request{Kind: gocql.VerifC03Query, Statement: "q", Params: gocql.VerifC03Params{Keyspace: "ks"}, CustomPayload: g.payload(v, r.Bool())})
			g.add("inexpressible", v, r.Bool(), false, g.stream(v), &gocql.VerifC03Request{Kind: gocql.VerifC03Execute, PreparedID: []byte{9}, Params: gocql.VerifC03Params{Keyspace: "ks", Values: one}})
			g.add("inexpressible", v, r.Bool(), false, g.stream(v), &gocql.VerifC03Request{Kind: gocql.VerifC03Prepare, Statement: "q", Keyspace: "ks", CustomPayload: g.payload(v, r.Bool())})
			// unset below v4, names below v3, mixed names, names in batches
			for flav := 0; flav < nFlav; flav++ {
				g.add("inexpressible", v, r.Bool(), r.Bool(), g.stream(v), &gocql.VerifC03Request{Kind: gocql.VerifC03Execute, PreparedID: []byte{1, 2}, Params: gocql.VerifC03Params{Consistency: 4, Values: g.values(3, flav)}})
				g.add("inexpressible", v, r.Bool(), r.Bool(), g.stream(v), &gocql.VerifC03Request{Kind: gocql.VerifC03Query, Statement: "q", Params: gocql.VerifC03Params{Consistency: 4, Values: g.values(3, flav)}})
				g.add("inexpressible", v, r.Bool(), r.Bool(), g.stream(v), &gocql.VerifC03Request{Kind: gocql.VerifC03Batch, Consistency: 1,
					Statements: []gocql.VerifC03Stmt{{Statement: "a", Values: g.values(2, flavBytes)}, {PreparedID: []byte{7}, Values: g.values(3, flav)}}})
			}
			// page sizes that do not fit an [int]; optional parameters on v1/v2
			for _, ps := range []int{1<<31 - 1, 1 << 31, 1<<32 + 5, 1<<32 - 1, -1 << 31, 1 << 62} {
				g.add("inexpressible", v, false, false, g.stream(v), &gocql.VerifC03Request{Kind: gocql.VerifC03Query, Statement: "q", Params: gocql.VerifC03Params{PageSize: ps}})
			}
			g.add("inexpressible", v, false, false, g.stream(v), &gocql.VerifC03Request{Kind: gocql.VerifC03Query, Statement: "q", Params: gocql.VerifC03Params{Consistency: 65535, SerialConsistency: 65535}})
			// stream ids outside the range of the version
			for _, s := range []int{128, 129, 255, 256, 32767, 32768, 65535, 65536, -1, -128, -32768, 1 << 40} {
				g.add("stream-range", v, r.Bool(), false, s, &gocql.VerifC03Request{Kind: gocql.VerifC03Options})
				g.add("stream-range", v, r.Bool(), false, s, &gocql.VerifC03Request{Kind: gocql.VerifC03Query, Statement: "q", Params: gocql.VerifC03Params{Consistency: 1}})
			}
			// [string] lengths around 2^16
			for _, n := range []int{65535, 65536, 65537} {
				long := strings.Repeat("k", n)
				g.add("short-overflow", v, false, false, 1, &gocql.VerifC03Request{Kind: gocql.VerifC03Register, Events: []string{long, "x"}}).big = true
				g.add("short-overflow", v, false, false, 1, &gocql.VerifC03Request{Kind: gocql.VerifC03Startup, Opts: map[string]string{"K": long}}).big = true
				g.add("short-overflow", v, false, false, 1, &gocql.VerifC03Request{Kind: gocql.VerifC03Execute, PreparedID: []byte(long), Params: gocql.VerifC03Params{Consistency: 1}}).big = true
				if v >= 3 {
					g.add("short-overflow", v, false, false, 1, &gocql.VerifC03Request{Kind: gocql.VerifC03Query, Statement: "q", Params: gocql.VerifC03Params{Values: []gocql.VerifC03Value{{Name: long, Value: []byte{1}}}}}).big = true
				}
				if v >= 4 {
					g.add("short-overflow", v, false, false, 1, &gocql.VerifC03Request{Kind: gocql.VerifC03Prepare, Statement: "q", CustomPayload: map[string][]byte{long: {1}}}).big = true
				}
				if v >= 5 {
					g.add("short-overflow", v, false, false, 1, &gocql.VerifC03Request{Kind: gocql.VerifC03Prepare, Statement: "q", Keyspace: long}).big = true
					g.add("short-overflow", v, false, false, 1, &gocql.VerifC03Request{Kind: gocql.VerifC03Query, Statement: "q", Params: gocql.VerifC03Params{Keyspace: long}}).big = true
				}
			}
		}
		// version bytes the driver never negotiates (newFramer masks them); correspondence only
		for _, v := range []byte{0, 6, 7, 0x7f, 0x80, 0x81, 0x83, 0x84, 0x85, 0xff} {
			g.add("odd-version", v, r.Bool(), r.Bool(), 5, &gocql.VerifC03Request{Kind: gocql.VerifC03Options})
			g.add("odd-version", v, r.Bool(), r.Bool(), 300, &gocql.VerifC03Request{Kind: gocql.VerifC03Query, Statement: "q", Params: g.params(r.Intn(128), flavNamed), CustomPayload: g.payload(v, r.Bool())})
			g.add("odd-version", v, r.Bool(), r.Bool(), 300, &gocql.VerifC03Request{Kind: gocql.VerifC03Execute, PreparedID: []byte{1}, Params: g.params(r.Intn(64), flavRandom)})
			g.add("odd-version", v, r.Bool(), r.Bool(), 7, &gocql.VerifC03Request{Kind: gocql.VerifC03Batch, SerialCons: 8, DefaultTS: true, DefaultTSVal: 5,
				Statements: []gocql.VerifC03Stmt{{Statement: "s", Values: g.values(2, flavNamed)}}})
			g.add("odd-version", v, r.Bool(), r.Bool(), 7, &gocql.VerifC03Request{Kind: gocql.VerifC03Prepare, Statement: "s", Keyspace: "k"})
		}
	}
	return g
}

// shape 0: EXECUTE with n values; 1: QUERY with n values; 2: BATCH with one statement of n values; 3: BATCH of n statements
func (g *gen) countCase(v byte, n, flav, shape int) *job {
	r := g.r
	var req *gocql.VerifC03Request
	switch shape {
	case 0:
		req = &gocql.VerifC03Request{Kind: gocql.VerifC03Execute, PreparedID: r.Bytes(16), Params: gocql.VerifC03Params{Consistency: g.cons(), Values: g.values(n, flav)}}
		if v >= 2 && r.Bool() {
			req.Params.PageSize = 100
		}
	case 1:
		req = &gocql.VerifC03Request{Kind: gocql.VerifC03Query, Statement: "INSERT ...", Params: gocql.VerifC03Params{Consistency: g.cons(), Values: g.values(n, flav)}}
		if v >= 3 && r.Bool() {
			req.Params.DefaultTimestamp = true
			req.Params.DefaultTimestampValue = 77
		}
	case 2:
		req = &gocql.VerifC03Request{Kind: gocql.VerifC03Batch, BatchType: 1, Consistency: g.cons(),
			Statements: []gocql.VerifC03Stmt{{PreparedID: []byte{1, 2, 3}, Values: g.values(n, flav)}}}
	default:
		st := make([]gocql.VerifC03Stmt, n)
		var proto gocql.VerifC03Stmt
		if flav%2 == 0 {
			proto = gocql.VerifC03Stmt{Statement: "DELETE"}
		} else {
			proto = gocql.VerifC03Stmt{PreparedID: []byte{0xAB, 0xCD}, Values: []gocql.VerifC03Value{{Value: []byte{byte(flav)}}}}
		}
		for i := range st {
			st[i] = proto
		}
		if n > 0 && flav == flavNamed {
			st[n-1].Values = []gocql.VerifC03Value{{Name: "nm", Value: []byte{1}}}
		}
		req = &gocql.VerifC03Request{Kind: gocql.VerifC03Batch, BatchType: 0, Consistency: g.cons(), Statements: st}
		if v >= 3 && r.Bool() {
			req.SerialCons = 9
		}
	}
	return g.add("counts", v, r.Chance(25), r.Chance(25), g.stream(v), req)
}
