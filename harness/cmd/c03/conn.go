package main

// Connection level: the public Query / Batch API is driven on a Conn whose writer records the frame
// (gocql.VerifC03Conn), so that the way conn.go fills the request structs is part of what is checked:
//  - correspondence: the captured bytes against the model's conn_execute_query / conn_execute_batch /
//    conn_use_keyspace / conn_prepare followed by build_frame;
//  - monitor: the spec-side decoder applied to the captured bytes must give back what was asked through
//    the API (statement or id, every bound value with null / unset / named, consistency, page size, paging
//    state, serial consistency, timestamp, keyspace of the connection on v5, payload, tracing).

import (
	"fmt"
	"strings"
	"time"

	"github.com/gocql/gocql"
	"gocqlverif/hlib"
)

type nopTracer struct{}

func (nopTracer) Trace([]byte) {}

type apiValue struct {
	name  string
	unset bool
	val   []byte // nil = null
}

func (a apiValue) arg() interface{} {
	var x interface{}
	switch {
	case a.unset:
		x = gocql.UnsetValue
	case a.val == nil:
		x = nil
	default:
		x = a.val
	}
	if a.name != "" {
		return gocql.NamedValue(a.name, x)
	}
	return x
}

func toShim(vs []apiValue) []gocql.VerifC03Value {
	if vs == nil {
		return nil
	}
	out := make([]gocql.VerifC03Value, len(vs))
	for i, a := range vs {
		out[i] = gocql.VerifC03Value{Name: a.name, IsUnset: a.unset, Value: a.val}
		if a.unset {
			out[i].Value = nil
		}
	}
	return out
}

func (g *gen) apiValues(n, flav int) []apiValue {
	vs := make([]apiValue, n)
	for i := range vs {
		sv := g.value(flav, i)
		vs[i] = apiValue{name: sv.Name, unset: sv.IsUnset, val: sv.Value}
		if sv.IsUnset {
			vs[i].val = nil
		} else if sv.Value != nil && len(sv.Value) == 0 {
			vs[i].val = []byte{} // empty, not null
		}
	}
	return vs
}

func frameStream(v byte, f []byte) int {
	if v > 2 {
		return int(int16(uint16(f[2])<<8 | uint16(f[3])))
	}
	return int(int8(f[2]))
}

type qopts struct {
	cons      uint16
	serial    uint16
	dts       bool
	dtsv      int64
	pageState []byte
	pageSize  int
	payload   map[string][]byte
	tracing   bool
	noSkip    bool
}

// session-level defaults (what NewSession takes from the ClusterConfig) ...
type sessDefaults struct {
	cons, serial uint16
	pageSize     int
	dts, trace   bool
	prefetch     float64
	idem         bool
}

func (g *gen) sessDefaults() sessDefaults {
	r := g.r
	return sessDefaults{cons: g.cons(), serial: uint16(r.Pick(0, 0, 8, 9)), pageSize: int(r.Pick(0, 0, 5000, 10)), dts: r.Bool(),
		trace: r.Chance(25), prefetch: []float64{0.25, 0.75, 0}[r.Intn(3)], idem: r.Bool()}
}

func (sd sessDefaults) shim() gocql.VerifC03SessionDefaults {
	d := gocql.VerifC03SessionDefaults{Consistency: sd.cons, PageSize: sd.pageSize, SerialConsistency: sd.serial, DefaultTimestamp: sd.dts,
		Prefetch: sd.prefetch, DefaultIdempotence: sd.idem}
	if sd.trace {
		d.Trace = nopTracer{}
	}
	return d
}

func (sd sessDefaults) String() string {
	return fmt.Sprintf("session{cons=%d serial=%d pageSize=%d defaultTimestamp=%v trace=%v prefetch=%v idempotent=%v}", sd.cons, sd.serial, sd.pageSize, sd.dts, sd.trace, sd.prefetch, sd.idem)
}

// ... and the per-Query / per-Batch settings on top of them.  Every option that exists on both levels is,
// independently of the session's value, inherited, set explicitly, or explicitly switched off; the returned
// qopts holds the resolved values (= what was asked for), the closures apply the choices to a Query / Batch.
// base is what the object inherited (the session defaults; nothing for the deprecated package-level NewBatch).
func (g *gen) qchoice(v byte, base sessDefaults) (qopts, func(*gocql.Query), func(*gocql.Batch), string) {
	r := g.r
	q := qopts{cons: base.cons, serial: base.serial, dts: base.dts, pageSize: base.pageSize, tracing: base.trace}
	var qa []func(*gocql.Query)
	var ba []func(*gocql.Batch)
	var desc []string
	if r.Bool() {
		c := g.cons()
		q.cons = c
		qa = append(qa, func(x *gocql.Query) { x.Consistency(gocql.Consistency(c)) })
		ba = append(ba, func(x *gocql.Batch) { x.Cons = gocql.Consistency(c) })
		desc = append(desc, fmt.Sprintf("Consistency(%d)", c))
	}
	switch r.Intn(3) {
	case 1:
		c := uint16(r.Pick(8, 9))
		q.serial = c
		qa = append(qa, func(x *gocql.Query) { x.SerialConsistency(gocql.SerialConsistency(c)) })
		ba = append(ba, func(x *gocql.Batch) { x.SerialConsistency(gocql.SerialConsistency(c)) })
		desc = append(desc, fmt.Sprintf("SerialConsistency(%d)", c))
	case 2:
		q.serial = 0
		qa = append(qa, func(x *gocql.Query) { x.SerialConsistency(0) })
		ba = append(ba, func(x *gocql.Batch) { x.SerialConsistency(0) })
		desc = append(desc, "SerialConsistency(0)")
	}
	switch r.Intn(4) {
	case 1:
		q.dts, q.dtsv = true, 0
		qa = append(qa, func(x *gocql.Query) { x.DefaultTimestamp(true) })
		ba = append(ba, func(x *gocql.Batch) { x.DefaultTimestamp(true) })
		desc = append(desc, "DefaultTimestamp(true)")
	case 2:
		t := r.Pick(1, -1, 1700000000000000, r.I64())
		if t == 0 {
			t = 7
		}
		q.dts, q.dtsv = true, t
		qa = append(qa, func(x *gocql.Query) { x.WithTimestamp(t) })
		ba = append(ba, func(x *gocql.Batch) { x.WithTimestamp(t) })
		desc = append(desc, fmt.Sprintf("WithTimestamp(%d)", t))
	case 3:
		q.dts, q.dtsv = false, 0
		qa = append(qa, func(x *gocql.Query) { x.DefaultTimestamp(false) })
		ba = append(ba, func(x *gocql.Batch) { x.DefaultTimestamp(false) })
		desc = append(desc, "DefaultTimestamp(false)")
	}
	switch r.Intn(3) {
	case 1:
		n := int(r.Pick(1, 100, 5000, 65536, 1<<31-1))
		q.pageSize = n
		qa = append(qa, func(x *gocql.Query) { x.PageSize(n) })
		desc = append(desc, fmt.Sprintf("PageSize(%d)", n))
	case 2:
		n := int(r.Pick(0, -1))
		q.pageSize = n
		qa = append(qa, func(x *gocql.Query) { x.PageSize(n) })
		desc = append(desc, fmt.Sprintf("PageSize(%d)", n))
	}
	switch r.Intn(3) {
	case 1:
		q.tracing = true
		qa = append(qa, func(x *gocql.Query) { x.Trace(nopTracer{}) })
		ba = append(ba, func(x *gocql.Batch) { x.Trace(nopTracer{}) })
		desc = append(desc, "Trace(t)")
	case 2:
		q.tracing = false
		qa = append(qa, func(x *gocql.Query) { x.Trace(nil) })
		ba = append(ba, func(x *gocql.Batch) { x.Trace(nil) })
		desc = append(desc, "Trace(nil)")
	}
	if r.Chance(40) {
		q.pageState = r.Bytes(1 + r.Intn(16))
	} else if r.Bool() {
		q.pageState = []byte{}
	}
	if q.pageState != nil {
		ps := q.pageState
		qa = append(qa, func(x *gocql.Query) { x.PageState(ps) })
	}
	q.payload = g.payload(v, v >= 4 && r.Chance(35))
	if q.payload != nil {
		pl := q.payload
		qa = append(qa, func(x *gocql.Query) { x.CustomPayload(pl) })
		ba = append(ba, func(x *gocql.Batch) { x.CustomPayload = pl })
	}
	q.noSkip = r.Chance(30)
	if q.noSkip {
		qa = append(qa, func(x *gocql.Query) { x.NoSkipMetadata() })
	}
	// options without any place in a request frame: they must not change it
	if r.Bool() {
		pf, idem := []float64{0, 0.5, 1}[r.Intn(3)], r.Bool()
		qa = append(qa, func(x *gocql.Query) { x.Prefetch(pf).Idempotent(idem) })
		desc = append(desc, fmt.Sprintf("Prefetch(%v).Idempotent(%v)", pf, idem))
	}
	return q, func(x *gocql.Query) {
			for _, f := range qa {
				f(x)
			}
		}, func(x *gocql.Batch) {
			for _, f := range ba {
				f(x)
			}
		}, strings.Join(desc, ".")
}

func qiTerm(q *qopts) string {
	return fmt.Sprintf("(mkqi %d %d %s %s %s %s %s)", q.cons, q.serial, hlib.Bool(q.dts), hlib.Z(q.dtsv), bytesTerm(q.pageState),
		hlib.Z(int64(q.pageSize)), payloadTerm(q.payload))
}

func (q *qopts) params(v byte, ks string, values []gocql.VerifC03Value, skipMeta bool) gocql.VerifC03Params {
	p := gocql.VerifC03Params{Consistency: q.cons, SkipMeta: skipMeta, Values: values, SerialConsistency: q.serial,
		DefaultTimestamp: q.dts, DefaultTimestampValue: q.dtsv}
	if q.pageSize > 0 {
		p.PageSize = q.pageSize
	}
	if len(q.pageState) > 0 {
		p.PagingState = q.pageState
	}
	if v >= 5 {
		p.Keyspace = ks
	}
	return p
}

// monitors shared by the connection-level cases: exactly one frame, well-formed, decodes to what was asked
func connMonitor(o *hlib.Out, idx int, what string, v byte, tracing bool, frame []byte, want *gocql.VerifC03Request, t0, t1 int64, input interface{}) {
	sc := classify(int(v), want)
	m, err := decodeRequest(frame, toyComp{}.Decode)
	if err != nil {
		o.Violate(idx, "conn-malformed-frame", "", fmt.Sprintf("%s: frame is not a well-formed v%d request: %v; bytes % x", what, v, err, head(frame, 64)), input)
		return
	}
	if !(sc.expressible && sc.onWire && sc.shortsOK) {
		o.Count("note:conn-inexpressible-sent-wellformed(" + sc.why + ")")
		return
	}
	ts, hasTS := decodedTS(m)
	w := asked(want, tracing, ts)
	if got, ws := m.canon(), w.canon(); got != ws {
		o.Violate(idx, "conn-decoded-differs", "", fmt.Sprintf("%s: decoded request differs from what the API call asked for:\n got  %s\n want %s", what, trunc(got, 900), trunc(ws, 900)), input)
	}
	usesNow := (want.Kind == gocql.VerifC03Query || want.Kind == gocql.VerifC03Execute) && want.Params.DefaultTimestamp && want.Params.DefaultTimestampValue == 0 ||
		want.Kind == gocql.VerifC03Batch && want.DefaultTS && want.DefaultTSVal == 0
	if usesNow && v >= 3 && (!hasTS || ts < t0 || ts > t1) {
		o.Violate(idx, "conn-timestamp-now", "", fmt.Sprintf("%s: default timestamp %d outside the clock window [%d,%d]", what, ts, t0, t1), input)
	}
}

func connCases(o *hlib.Out, g *gen) {
	r := g.r
	n := 30 * o.Scale
	if o.Search {
		n = 40 * o.Scale
	}
	dml := []string{"INSERT INTO t (a, b) VALUES (?, ?)", "SELECT * FROM t WHERE k = ?", "UPDATE t SET v = ? WHERE k = ?", "DELETE FROM t WHERE k = ?",
		"BEGIN BATCH INSERT INTO t (a) VALUES (?) APPLY BATCH", "  select a from t ;"}
	other := []string{"CREATE TABLE t (a int PRIMARY KEY)", "TRUNCATE t", "USE ks2", "LIST ROLES", "", "begin", "ALTER TABLE t ADD c int"}
	for _, v := range versions {
		for i := 0; i < n; i++ {
			var comp gocql.Compressor
			hasComp := r.Chance(30)
			if hasComp {
				comp = toyComp{}
			}
			ks := []string{"", "ks1", "Other_KS"}[r.Intn(3)]
			disableSkip := r.Chance(30)
			vc := gocql.VerifC03NewConn(v, comp, ks, disableSkip)
			s := vc.Session()
			sd := g.sessDefaults()
			vc.SetSessionDefaults(sd.shim())
			q, applyQ, _, choices := g.qchoice(v, sd)
			mode := r.Intn(4) // 0: unprepared statement, 1,2: prepared in the cache, 3: cache miss (PREPARE goes out)
			var stmt string
			var vals []apiValue
			id := r.Bytes(int(r.Pick(16, 16, 1, 32)))
			if mode == 0 {
				stmt = other[r.Intn(len(other))]
			} else {
				stmt = dml[r.Intn(len(dml))]
				flav := []int{flavBytes, flavRandom, flavNamed, flavNull, flavUnset, flavMixedFirstNamed}[r.Intn(6)]
				vals = g.apiValues(r.Intn(5), flav)
				if mode != 3 {
					vc.Prepared(stmt, id, len(vals))
				}
			}
			args := make([]interface{}, len(vals))
			for k, a := range vals {
				args[k] = a.arg()
			}
			qry := s.Query(stmt, args...)
			applyQ(qry)
			t0 := time.Now().UnixNano() / 1000
			frames, msg := vc.ExecQuery(qry)
			t1 := time.Now().UnixNano() / 1000
			input := map[string]interface{}{"version": v, "compressor": hasComp, "keyspace": ks, "statement": stmt, "mode": mode, "options": qiTerm(&q),
				"values": valuesTerm(toShim(vals)), "tracing": q.tracing, "session_defaults": sd.String(), "query_settings": choices, "disable_skip_metadata": disableSkip || q.noSkip, "error": msg}
			payloadRefused := len(q.payload) > 0 && v < 4
			if strings.HasPrefix(msg, "panic:") && !payloadRefused {
				o.Violate(-1, "conn-panic", "", "Conn.executeQuery panicked: "+msg, input)
				continue
			}
			if payloadRefused {
				o.Count("conn/refused-payload-below-v4")
				if len(frames) != 0 && mode != 3 {
					o.Violate(-1, "conn-payload-below-v4-sent", "", fmt.Sprintf("a frame was handed to the writer for a custom payload on v%d", v), input)
				}
				continue
			}
			if hasComp && msg == "toy compressor refuses this length" && len(frames) == 0 {
				o.Count("conn/compressor-error")
				continue
			}
			if len(frames) != 1 {
				o.Violate(-1, "conn-frame-count", "", fmt.Sprintf("Conn.executeQuery handed %d frames to the writer (want 1): %s", len(frames), msg), input)
				continue
			}
			if vc.InUse() != 0 {
				o.Violate(-1, "conn-stream-leak", "", "a stream id stayed reserved after a write that did not start", input)
			}
			f := frames[0]
			stream := frameStream(v, f)
			switch mode {
			case 3:
				want := &gocql.VerifC03Request{Kind: gocql.VerifC03Prepare, Statement: stmt}
				if v >= 5 {
					want.Keyspace = ks
				}
				idx := -1
				if !o.Search {
					idx = o.Case("conn/prepare", true, fmt.Sprintf("CConnPrepare %d %s %s %s %s %d %s", v, hlib.Bool(hasComp), hlib.Bool(q.tracing), strTerm(ks), strTerm(stmt), stream, bytesTerm(f)))
				}
				connMonitor(o, idx, "PREPARE", v, q.tracing, f, want, t0, t1, input)
			case 0:
				want := &gocql.VerifC03Request{Kind: gocql.VerifC03Query, Statement: stmt, Params: q.params(v, ks, nil, false), CustomPayload: q.payload}
				idx := -1
				if !o.Search {
					idx = o.Case("conn/query", true, fmt.Sprintf("CConnQuery %d %s %s %s %s %s None %d %s", v, hlib.Bool(hasComp), hlib.Bool(q.tracing), strTerm(ks), qiTerm(&q), strTerm(stmt), stream, bytesTerm(f)))
				}
				connMonitor(o, idx, "QUERY", v, q.tracing, f, want, t0, t1, input)
			default:
				sv := toShim(vals)
				if sv == nil {
					sv = []gocql.VerifC03Value{}
				}
				want := &gocql.VerifC03Request{Kind: gocql.VerifC03Execute, PreparedID: id, Params: q.params(v, ks, sv, !(disableSkip || q.noSkip)), CustomPayload: q.payload}
				idx := -1
				if !o.Search {
					idx = o.Case("conn/execute", true, fmt.Sprintf("CConnQuery %d %s %s %s %s %s (Some (%s, %s, %s)) %d %s", v, hlib.Bool(hasComp), hlib.Bool(q.tracing), strTerm(ks), qiTerm(&q), strTerm(stmt),
						bytesTerm(id), valuesTerm(sv), hlib.Bool(disableSkip || q.noSkip), stream, bytesTerm(f)))
				}
				connMonitor(o, idx, "EXECUTE", v, q.tracing, f, want, t0, t1, input)
			}
		}

		// batches through Session.NewBatch / Batch.Query
		for i := 0; i < n/2+1; i++ {
			var comp gocql.Compressor
			hasComp := r.Chance(30)
			if hasComp {
				comp = toyComp{}
			}
			ks := []string{"", "ks1"}[r.Intn(2)]
			vc := gocql.VerifC03NewConn(v, comp, ks, false)
			sd := g.sessDefaults()
			vc.SetSessionDefaults(sd.shim())
			base, how := sd, "Session.NewBatch"
			var b *gocql.Batch
			if r.Chance(25) {
				// the deprecated package-level constructor: nothing is inherited from the session
				b, base, how = gocql.NewBatch(gocql.BatchType(r.Pick(0, 1, 2))), sessDefaults{}, "gocql.NewBatch"
			} else {
				b = vc.Session().NewBatch(gocql.BatchType(r.Pick(0, 1, 2)))
			}
			q, _, applyB, choices := g.qchoice(v, base)
			applyB(b)
			ne := r.Intn(5)
			var entryTerms []string
			want := &gocql.VerifC03Request{Kind: gocql.VerifC03Batch, BatchType: byte(b.Type), Consistency: q.cons, SerialCons: q.serial, DefaultTS: q.dts, DefaultTSVal: q.dtsv, CustomPayload: q.payload}
			for e := 0; e < ne; e++ {
				stmt := fmt.Sprintf("INSERT INTO t%d (a) VALUES (?)", e)
				if r.Chance(40) {
					stmt = "DELETE FROM t"
					b.Query(stmt)
					entryTerms = append(entryTerms, fmt.Sprintf("(%s, None)", strTerm(stmt)))
					want.Statements = append(want.Statements, gocql.VerifC03Stmt{Statement: stmt})
					continue
				}
				flav := []int{flavBytes, flavRandom, flavNull, flavUnset, flavNamed}[r.Intn(5)]
				vals := g.apiValues(1+r.Intn(3), flav)
				id := r.Bytes(16)
				vc.Prepared(stmt, id, len(vals))
				args := make([]interface{}, len(vals))
				for k, a := range vals {
					args[k] = a.arg()
				}
				b.Query(stmt, args...)
				entryTerms = append(entryTerms, fmt.Sprintf("(%s, Some (%s, %s))", strTerm(stmt), bytesTerm(id), valuesTerm(toShim(vals))))
				want.Statements = append(want.Statements, gocql.VerifC03Stmt{PreparedID: id, Values: toShim(vals)})
			}
			t0 := time.Now().UnixNano() / 1000
			frames, msg := vc.ExecBatch(b)
			t1 := time.Now().UnixNano() / 1000
			input := map[string]interface{}{"version": v, "compressor": hasComp, "keyspace": ks, "batch": requestTerm(want), "tracing": q.tracing, "error": msg,
				"session_defaults": sd.String(), "constructor": how, "batch_settings": choices}
			payloadRefused := len(q.payload) > 0 && v < 4
			if strings.HasPrefix(msg, "panic:") && !payloadRefused {
				o.Violate(-1, "conn-panic", "", "Conn.executeBatch panicked: "+msg, input)
				continue
			}
			if payloadRefused && v > 1 {
				o.Count("conn/refused-payload-below-v4")
				if len(frames) != 0 {
					o.Violate(-1, "conn-payload-below-v4-sent", "", fmt.Sprintf("a frame was handed to the writer for a custom payload on v%d", v), input)
				}
				continue
			}
			if hasComp && msg == "toy compressor refuses this length" && len(frames) == 0 {
				o.Count("conn/compressor-error")
				continue
			}
			outT := "None"
			named := false
			for _, st := range want.Statements {
				for _, x := range st.Values {
					if x.Name != "" {
						named = true
					}
				}
			}
			switch {
			case v == 1:
				if len(frames) != 0 {
					o.Violate(-1, "conn-v1-batch-sent", "", "Conn.executeBatch handed a frame to the writer on protocol 1", input)
					continue
				}
			case named && v >= 3:
				// named values in a batch: refused with an error, nothing written
				if len(frames) != 0 {
					o.Violate(-1, "conn-batch-names-sent", "", "a batch with named values was written", input)
				}
				o.Count("conn/refused-batch-names")
				continue
			default:
				if len(frames) != 1 {
					o.Violate(-1, "conn-frame-count", "", fmt.Sprintf("Conn.executeBatch handed %d frames to the writer (want 1): %s", len(frames), msg), input)
					continue
				}
				outT = "(Some " + bytesTerm(frames[0]) + ")"
			}
			stream := 0
			if len(frames) == 1 {
				stream = frameStream(v, frames[0])
			}
			idx := -1
			if !o.Search {
				idx = o.Case("conn/batch", true, fmt.Sprintf("CConnBatch %d %s %s %d [%s] %d %d %s %s %s %d %s", v, hlib.Bool(hasComp), hlib.Bool(q.tracing), b.Type,
					strings.Join(entryTerms, "; "), q.cons, q.serial, hlib.Bool(q.dts), hlib.Z(q.dtsv), payloadTerm(q.payload), stream, outT))
			}
			if len(frames) == 1 {
				connMonitor(o, idx, "BATCH", v, q.tracing, frames[0], want, t0, t1, input)
			}
		}

		// USE "<keyspace>"
		for _, ks := range []string{"ks", "Mixed_Case", ""} {
			hasComp := r.Bool()
			var comp gocql.Compressor
			if hasComp {
				comp = toyComp{}
			}
			vc := gocql.VerifC03NewConn(v, comp, "", false)
			sd := g.sessDefaults()
			vc.SetSessionDefaults(sd.shim())
			frames, msg := vc.UseKeyspace(ks)
			if hasComp && msg == "toy compressor refuses this length" && len(frames) == 0 {
				o.Count("conn/compressor-error")
				continue
			}
			if len(frames) != 1 {
				o.Violate(-1, "conn-frame-count", "", fmt.Sprintf("Conn.UseKeyspace handed %d frames to the writer: %s", len(frames), msg), nil)
				continue
			}
			f := frames[0]
			idx := -1
			if !o.Search {
				idx = o.Case("conn/use", true, fmt.Sprintf("CConnUse %d %s %d %s %d %s", v, hlib.Bool(hasComp), sd.cons, strTerm(ks), frameStream(v, f), bytesTerm(f)))
			}
			want := &gocql.VerifC03Request{Kind: gocql.VerifC03Query, Statement: `USE "` + ks + `"`, Params: gocql.VerifC03Params{Consistency: sd.cons}}
			connMonitor(o, idx, "USE", v, false, f, want, 0, 0, map[string]interface{}{"version": v, "keyspace": ks})
		}
	}
}
