package main

// Connection level: the public Query / Batch API is driven on a Conn whose writer records the frame
// (gocql.VerifC03Conn), so that the way conn.go fills the request structs is part of what is checked:
//  - correspondence: the captured bytes against the model's conn_execute_query / conn_execute_batch /
//    conn_use_keyspace / conn_prepare followed by build_frame;
//  - monitor: the spec-side decoder applied to the captured bytes must give back what was asked through
//    the API (statement or id, every bound value with null / unset / named, consistency, page size, paging
//    state, serial consistency, timestamp, keyspace of the connection on v5, payload, tracing).

import (
	"fmt"
	"strings"
	"time"

	"github.com/gocql/gocql"
	"gocqlverif/hlib"
)

type nopTracer struct{}

func (nopTracer) Trace([]byte) {}

type apiValue struct {
	name  string
	unset bool
	val   []byte // nil = null
}

func (a apiValue) arg() interface{} {
	var x interface{}
	switch {
	case a.unset:
		x = gocql.UnsetValue
	case a.val == nil:
		x = nil
	default:
		x = a.val
	}
	if a.name != "" {
		return gocql.NamedValue(a.name, x)
	}
	return x
}

func toShim(vs []apiValue) []gocql.VerifC03Value {
	if vs == nil {
		return nil
	}
	out := make([]gocql.VerifC03Value, len(vs))
	for i, a := range vs {
		out[i] = gocql.VerifC03Value{Name: a.name, IsUnset: a.unset, Value: a.val}
		if a.unset {
			out[i].Value = nil
		}
	}
	return out
}

func (g *gen) apiValues(n, flav int) []apiValue {
	vs := make([]apiValue, n)
	for i := range vs {
		sv := g.value(flav, i)
		vs[i] = apiValue{name: sv.Name, unset: sv.IsUnset, val: sv.Value}
		if sv.IsUnset {
			vs[i].val = nil
		} else if sv.Value != nil && len(sv.Value) == 0 {
			vs[i].val = []byte{} // empty, not null
		}
	}
	return vs
}

func frameStream(v byte, f []byte) int {
	if v > 2 {
		return int(int16(uint16(f[2])<<8 | uint16(f[3])))
	}
	return int(int8(f[2]))
}

type qopts struct {
	cons      uint16
	serial    uint16
	dts       bool
	dtsv      int64
	pageState []byte
	pageSize  int
	payload   map[string][]byte
	tracing   bool
	noSkip    bool
}

func (g *gen) qopts(v byte) qopts {
	r := g.r
	q := qopts{cons: g.cons()}
	if r.Chance(40) {
		q.serial = uint16(r.Pick(8, 9))
	}
	switch r.Intn(4) {
	case 0:
		q.dts = true
	case 1:
		q.dts, q.dtsv = true, r.Pick(1, -1, 1700000000000000, r.I64())
	}
	if r.Chance(40) {
		q.pageState = r.Bytes(1 + r.Intn(16))
	} else if r.Bool() {
		q.pageState = []byte{}
	}
	if r.Chance(50) {
		q.pageSize = int(r.Pick(1, 100, 5000, 65536, 1<<31-1))
	} else if r.Chance(20) {
		q.pageSize = int(r.Pick(0, -1))
	}
	q.payload = g.payload(v, v >= 4 && r.Chance(35))
	q.tracing = r.Chance(30)
	q.noSkip = r.Chance(30)
	return q
}

func qiTerm(q *qopts) string {
	return fmt.Sprintf("(mkqi %d %d %s %s %s %s %s)", q.cons, q.serial, hlib.Bool(q.dts), hlib.Z(q.dtsv), bytesTerm(q.pageState),
		hlib.Z(int64(q.pageSize)), payloadTerm(q.payload))
}

func (q *qopts) params(v byte, ks string, values []gocql.VerifC03Value, skipMeta bool) gocql.VerifC03Params {
	p := gocql.VerifC03Params{Consistency: q.cons, SkipMeta: skipMeta, Values: values, SerialConsistency: q.serial,
		DefaultTimestamp: q.dts, DefaultTimestampValue: q.dtsv}
	if q.pageSize > 0 {
		p.PageSize = q.pageSize
	}
	if len(q.pageState) > 0 {
		p.PagingState = q.pageState
	}
	if v >= 5 {
		p.Keyspace = ks
	}
	return p
}

// monitors shared by the connection-level cases: exactly one frame, well-formed, decodes to what was asked
func connMonitor(o *hlib.Out, idx int, what string, v byte, tracing bool, frame []byte, want *gocql.VerifC03Request, t0, t1 int64, input interface{}) {
	sc := classify(int(v), want)
	m, err := decodeRequest(frame, toyComp{}.Decode)
	if err != nil {
		o.Violate(idx, "conn-malformed-frame", "", fmt.Sprintf("%s: frame is not a well-formed v%d request: %v; bytes % x", what, v, err, head(frame, 64)), input)
		return
	}
	if !(sc.expressible && sc.onWire && sc.shortsOK) {
		o.Count("note:conn-inexpressible-sent-wellformed(" + sc.why + ")")
		return
	}
	ts, hasTS := decodedTS(m)
	w := asked(want, tracing, ts)
	if got, ws := m.canon(), w.canon(); got != ws {
		o.Violate(idx, "conn-decoded-differs", "", fmt.Sprintf("%s: decoded request differs from what the API call asked for:\n got  %s\n want %s", what, trunc(got, 900), trunc(ws, 900)), input)
	}
	usesNow := (want.Kind == gocql.VerifC03Query || want.Kind == gocql.VerifC03Execute) && want.Params.DefaultTimestamp && want.Params.DefaultTimestampValue == 0 ||
		want.Kind == gocql.VerifC03Batch && want.DefaultTS && want.DefaultTSVal == 0
	if usesNow && v >= 3 && (!hasTS || ts < t0 || ts > t1) {
		o.Violate(idx, "conn-timestamp-now", "", fmt.Sprintf("%s: default timestamp %d outside the clock window [%d,%d]", what, ts, t0, t1), input)
	}
}

func connCases(o *hlib.Out, g *gen) {
	r := g.r
	n := 12 * o.Scale
	if o.Search {
		n = 40 * o.Scale
	}
	dml := []string{"INSERT INTO t (a, b) VALUES (?, ?)", "SELECT * FROM t WHERE k = ?", "UPDATE t SET v = ? WHERE k = ?", "DELETE FROM t WHERE k = ?",
		"BEGIN BATCH INSERT INTO t (a) VALUES (?) APPLY BATCH", "  select a from t ;"}
	other := []string{"CREATE TABLE t (a int PRIMARY KEY)", "TRUNCATE t", "USE ks2", "LIST ROLES", "", "begin", "ALTER TABLE t ADD c int"}
	for _, v := range versions {
		for i := 0; i < n; i++ {
			var comp gocql.Compressor
			hasComp := r.Chance(30)
			if hasComp {
				comp = toyComp{}
			}
			ks := []string{"", "ks1", "Other_KS"}[r.Intn(3)]
			disableSkip := r.Chance(30)
			vc := gocql.VerifC03NewConn(v, comp, ks, disableSkip)
			s := vc.Session()
			q := g.qopts(v)
			mode := r.Intn(4) // 0: unprepared statement, 1,2: prepared in the cache, 3: cache miss (PREPARE goes out)
			var stmt string
			var vals []apiValue
			id := r.Bytes(int(r.Pick(16, 16, 1, 32)))
			if mode == 0 {
				stmt = other[r.Intn(len(other))]
			} else {
				stmt = dml[r.Intn(len(dml))]
				flav := []int{flavBytes, flavRandom, flavNamed, flavNull, flavUnset, flavMixedFirstNamed}[r.Intn(6)]
				vals = g.apiValues(r.Intn(5), flav)
				if mode != 3 {
					vc.Prepared(stmt, id, len(vals))
				}
			}
			args := make([]interface{}, len(vals))
			for k, a := range vals {
				args[k] = a.arg()
			}
			qry := s.Query(stmt, args...).Consistency(gocql.Consistency(q.cons))
			if q.serial != 0 {
				qry.SerialConsistency(gocql.SerialConsistency(q.serial))
			}
			if q.dts {
				if q.dtsv != 0 {
					qry.WithTimestamp(q.dtsv)
				} else {
					qry.DefaultTimestamp(true)
				}
			}
			if q.pageState != nil {
				qry.PageState(q.pageState)
			}
			if q.pageSize != 0 {
				qry.PageSize(q.pageSize)
			}
			if q.payload != nil {
				qry.CustomPayload(q.payload)
			}
			if q.tracing {
				qry.Trace(nopTracer{})
			}
			if q.noSkip {
				qry.NoSkipMetadata()
			}
			t0 := time.Now().UnixNano() / 1000
			frames, msg := vc.ExecQuery(qry)
			t1 := time.Now().UnixNano() / 1000
			input := map[string]interface{}{"version": v, "compressor": hasComp, "keyspace": ks, "statement": stmt, "mode": mode, "options": qiTerm(&q),
				"values": valuesTerm(toShim(vals)), "tracing": q.tracing, "disable_skip_metadata": disableSkip || q.noSkip, "error": msg}
			payloadRefused := len(q.payload) > 0 && v < 4
			if strings.HasPrefix(msg, "panic:") && !payloadRefused {
				o.Violate(-1, "conn-panic", "", "Conn.executeQuery panicked: "+msg, input)
				continue
			}
			if payloadRefused {
				o.Count("conn/refused-payload-below-v4")
				if len(frames) != 0 && mode != 3 {
					o.Violate(-1, "conn-payload-below-v4-sent", "", fmt.Sprintf("a frame was handed to the writer for a custom payload on v%d", v), input)
				}
				continue
			}
			if hasComp && msg == "toy compressor refuses this length" && len(frames) == 0 {
				o.Count("conn/compressor-error")
				continue
			}
			if len(frames) != 1 {
				o.Violate(-1, "conn-frame-count", "", fmt.Sprintf("Conn.executeQuery handed %d frames to the writer (want 1): %s", len(frames), msg), input)
				continue
			}
			if vc.InUse() != 0 {
				o.Violate(-1, "conn-stream-leak", "", "a stream id stayed reserved after a write that did not start", input)
			}
			f := frames[0]
			stream := frameStream(v, f)
			switch mode {
			case 3:
				want := &gocql.VerifC03Request{Kind: gocql.VerifC03Prepare, Statement: stmt}
				if v >= 5 {
					want.Keyspace = ks
				}
				idx := -1
				if !o.Search {
					idx = o.Case("conn/prepare", true, fmt.Sprintf("CConnPrepare %d %s %s %s %s %d %s", v, hlib.Bool(hasComp), hlib.Bool(q.tracing), strTerm(ks), strTerm(stmt), stream, bytesTerm(f)))
				}
				connMonitor(o, idx, "PREPARE", v, q.tracing, f, want, t0, t1, input)
			case 0:
				want := &gocql.VerifC03Request{Kind: gocql.VerifC03Query, Statement: stmt, Params: q.params(v, ks, nil, false), CustomPayload: q.payload}
				idx := -1
				if !o.Search {
					idx = o.Case("conn/query", true, fmt.Sprintf("CConnQuery %d %s %s %s %s %s None %d %s", v, hlib.Bool(hasComp), hlib.Bool(q.tracing), strTerm(ks), qiTerm(&q), strTerm(stmt), stream, bytesTerm(f)))
				}
				connMonitor(o, idx, "QUERY", v, q.tracing, f, want, t0, t1, input)
			default:
				sv := toShim(vals)
				if sv == nil {
					sv = []gocql.VerifC03Value{}
				}
				want := &gocql.VerifC03Request{Kind: gocql.VerifC03Execute, PreparedID: id, Params: q.params(v, ks, sv, !(disableSkip || q.noSkip)), CustomPayload: q.payload}
				idx := -1
				if !o.Search {
					idx = o.Case("conn/execute", true, fmt.Sprintf("CConnQuery %d %s %s %s %s %s (Some (%s, %s, %s)) %d %s", v, hlib.Bool(hasComp), hlib.Bool(q.tracing), strTerm(ks), qiTerm(&q), strTerm(stmt),
						bytesTerm(id), valuesTerm(sv), hlib.Bool(disableSkip || q.noSkip), stream, bytesTerm(f)))
				}
				connMonitor(o, idx, "EXECUTE", v, q.tracing, f, want, t0, t1, input)
			}
		}

		// batches through Session.NewBatch / Batch.Query
		for i := 0; i < n/2+1; i++ {
			var comp gocql.Compressor
			hasComp := r.Chance(30)
			if hasComp {
				comp = toyComp{}
			}
			ks := []string{"", "ks1"}[r.Intn(2)]
			vc := gocql.VerifC03NewConn(v, comp, ks, false)
			b := vc.Session().NewBatch(gocql.BatchType(r.Pick(0, 1, 2)))
			q := g.qopts(v)
			b.Cons = gocql.Consistency(q.cons)
			if q.serial != 0 {
				b.SerialConsistency(gocql.SerialConsistency(q.serial))
			}
			if q.dts {
				if q.dtsv != 0 {
					b.WithTimestamp(q.dtsv)
				} else {
					b.DefaultTimestamp(true)
				}
			}
			if q.payload != nil {
				b.CustomPayload = q.payload
			}
			if q.tracing {
				b.Trace(nopTracer{})
			}
			ne := r.Intn(5)
			var entryTerms []string
			want := &gocql.VerifC03Request{Kind: gocql.VerifC03Batch, BatchType: byte(b.Type), Consistency: q.cons, SerialCons: q.serial, DefaultTS: q.dts, DefaultTSVal: q.dtsv, CustomPayload: q.payload}
			for e := 0; e < ne; e++ {
				stmt := fmt.Sprintf("INSERT INTO t%d (a) VALUES (?)", e)
				if r.Chance(40) {
					stmt = "DELETE FROM t"
					b.Query(stmt)
					entryTerms = append(entryTerms, fmt.Sprintf("(%s, None)", strTerm(stmt)))
					want.Statements = append(want.Statements, gocql.VerifC03Stmt{Statement: stmt})
					continue
				}
				flav := []int{flavBytes, flavRandom, flavNull, flavUnset, flavNamed}[r.Intn(5)]
				vals := g.apiValues(1+r.Intn(3), flav)
				id := r.Bytes(16)
				vc.Prepared(stmt, id, len(vals))
				args := make([]interface{}, len(vals))
				for k, a := range vals {
					args[k] = a.arg()
				}
				b.Query(stmt, args...)
				entryTerms = append(entryTerms, fmt.Sprintf("(%s, Some (%s, %s))", strTerm(stmt), bytesTerm(id), valuesTerm(toShim(vals))))
				want.Statements = append(want.Statements, gocql.VerifC03Stmt{PreparedID: id, Values: toShim(vals)})
			}
			t0 := time.Now().UnixNano() / 1000
			frames, msg := vc.ExecBatch(b)
			t1 := time.Now().UnixNano() / 1000
			input := map[string]interface{}{"version": v, "compressor": hasComp, "keyspace": ks, "batch": requestTerm(want), "tracing": q.tracing, "error": msg}
			payloadRefused := len(q.payload) > 0 && v < 4
			if strings.HasPrefix(msg, "panic:") && !payloadRefused {
				o.Violate(-1, "conn-panic", "", "Conn.executeBatch panicked: "+msg, input)
				continue
			}
			if payloadRefused && v > 1 {
				o.Count("conn/refused-payload-below-v4")
				if len(frames) != 0 {
					o.Violate(-1, "conn-payload-below-v4-sent", "", fmt.Sprintf("a frame was handed to the writer for a custom payload on v%d", v), input)
				}
				continue
			}
			if hasComp && msg == "toy compressor refuses this length" && len(frames) == 0 {
				o.Count("conn/compressor-error")
				continue
			}
			outT := "None"
			named := false
			for _, st := range want.Statements {
				for _, x := range st.Values {
					if x.Name != "" {
						named = true
					}
				}
			}
			switch {
			case v == 1:
				if len(frames) != 0 {
					o.Violate(-1, "conn-v1-batch-sent", "", "Conn.executeBatch handed a frame to the writer on protocol 1", input)
					continue
				}
			case named && v >= 3:
				// named values in a batch: refused with an error, nothing written
				if len(frames) != 0 {
					o.Violate(-1, "conn-batch-names-sent", "", "a batch with named values was written", input)
				}
				o.Count("conn/refused-batch-names")
				continue
			default:
				if len(frames) != 1 {
					o.Violate(-1, "conn-frame-count", "", fmt.Sprintf("Conn.executeBatch handed %d frames to the writer (want 1): %s", len(frames), msg), input)
					continue
				}
				outT = "(Some " + bytesTerm(frames[0]) + ")"
			}
			stream := 0
			if len(frames) == 1 {
				stream = frameStream(v, frames[0])
			}
			idx := -1
			if !o.Search {
				idx = o.Case("conn/batch", true, fmt.Sprintf("CConnBatch %d %s %s %d [%s] %d %d %s %s %s %d %s", v, hlib.Bool(hasComp), hlib.Bool(q.tracing), b.Type,
					strings.Join(entryTerms, "; "), q.cons, q.serial, hlib.Bool(q.dts), hlib.Z(q.dtsv), payloadTerm(q.payload), stream, outT))
			}
			if len(frames) == 1 {
				connMonitor(o, idx, "BATCH", v, q.tracing, frames[0], want, t0, t1, input)
			}
		}

		// USE "<keyspace>"
		for _, ks := range []string{"ks", "Mixed_Case", ""} {
			hasComp := r.Bool()
			var comp gocql.Compressor
			if hasComp {
				comp = toyComp{}
			}
			vc := gocql.VerifC03NewConn(v, comp, "", false)
			frames, msg := vc.UseKeyspace(ks)
			if hasComp && msg == "toy compressor refuses this length" && len(frames) == 0 {
				o.Count("conn/compressor-error")
				continue
			}
			if len(frames) != 1 {
				o.Violate(-1, "conn-frame-count", "", fmt.Sprintf("Conn.UseKeyspace handed %d frames to the writer: %s", len(frames), msg), nil)
				continue
			}
			f := frames[0]
			idx := -1
			if !o.Search {
				idx = o.Case("conn/use", true, fmt.Sprintf("CConnUse %d %s %d %s %d %s", v, hlib.Bool(hasComp), uint16(gocql.Quorum), strTerm(ks), frameStream(v, f), bytesTerm(f)))
			}
			want := &gocql.VerifC03Request{Kind: gocql.VerifC03Query, Statement: `USE "` + ks + `"`, Params: gocql.VerifC03Params{Consistency: uint16(gocql.Quorum)}}
			connMonitor(o, idx, "USE", v, false, f, want, 0, 0, map[string]interface{}{"version": v, "keyspace": ks})
		}
	}
}
