package main

// Systematic (seed-independent) stream through the real Conn path for marshalQueryValue: every combination of
// {named, positional} x {UnsetValue, nil, bytes, empty bytes} bound in a prepared EXECUTE and in a prepared
// BATCH entry, on every protocol version.  The captured frame is compared byte for byte with the model
// (which contains marshalQueryValue: cases CConnBind / CConnBatchBind) and decoded with the spec-side decoder.

import (
	"fmt"
	"strings"

	"github.com/gocql/gocql"
	"gocqlverif/hlib"
)

func apiBoundTerm(a apiValue) string {
	name := "None"
	if a.name != "" {
		name = "(Some " + strTerm(a.name) + ")"
	}
	switch {
	case a.unset:
		return fmt.Sprintf("(%s, AUnset)", name)
	case a.val == nil:
		return fmt.Sprintf("(%s, ANull)", name)
	}
	return fmt.Sprintf("(%s, ABytes %s)", name, bytesTerm(a.val))
}

func apiBoundsTerm(vs []apiValue) string {
	items := make([]string, len(vs))
	for i, a := range vs {
		items[i] = apiBoundTerm(a)
	}
	return "[" + strings.Join(items, "; ") + "]"
}

func bindStream(o *hlib.Out) {
	val := []byte{0xCA, 0xFE}
	sets := [][]apiValue{
		{{name: "a", unset: true}},
		{{name: "a"}},
		{{name: "a", val: val}},
		{{name: "a", val: []byte{}}},
		{{unset: true}},
		{{}},
		{{val: val}},
		{{val: []byte{}}},
		{{name: "a", unset: true}, {name: "b", val: val}, {name: "c"}},
		{{name: "a", val: val}, {name: "b", unset: true}},
		{{unset: true}, {val: val}, {}},
		{{val: val}, {unset: true}},
		{{name: "a", unset: true}, {unset: true}},
		{{unset: true}, {name: "b", unset: true}},
	}
	id := []byte{0xAB, 0xCD, 0xEF, 0x01}
	for _, v := range versions {
		for si, vals := range sets {
			args := make([]interface{}, len(vals))
			named := false
			for k, a := range vals {
				args[k] = a.arg()
				if a.name != "" {
					named = true
				}
			}
			stmt := fmt.Sprintf("INSERT INTO bind%d (c) VALUES (?)", si)
			input := map[string]interface{}{"version": v, "values": apiBoundsTerm(vals)}

			// prepared EXECUTE
			{
				vc := gocql.VerifC03NewConn(v, nil, "", false)
				vc.SetSessionDefaults(gocql.VerifC03SessionDefaults{Consistency: uint16(gocql.One)})
				vc.Prepared(stmt, id, len(vals))
				frames, msg := vc.ExecQuery(vc.Session().Query(stmt, args...))
				if len(frames) != 1 {
					o.Violate(-1, "bind-frame-count", "", fmt.Sprintf("Conn.executeQuery handed %d frames to the writer: %s", len(frames), msg), input)
				} else {
					f := frames[0]
					q := qopts{cons: uint16(gocql.One)}
					idx := -1
					if !o.Search {
						idx = o.Case("bind/execute", true, fmt.Sprintf("CConnBind %d false false [] %s %s %s %s false %d %s", v, qiTerm(&q), strTerm(stmt), bytesTerm(id),
							apiBoundsTerm(vals), frameStream(v, f), bytesTerm(f)))
					} else {
						o.Count("bind/execute")
					}
					want := &gocql.VerifC03Request{Kind: gocql.VerifC03Execute, PreparedID: id, Params: q.params(v, "", toShim(vals), true)}
					connMonitor(o, idx, "EXECUTE(bind)", v, false, f, want, 0, 0, input)
				}
			}

			// prepared BATCH entry
			{
				vc := gocql.VerifC03NewConn(v, nil, "", false)
				vc.SetSessionDefaults(gocql.VerifC03SessionDefaults{Consistency: uint16(gocql.One)})
				vc.Prepared(stmt, id, len(vals))
				b := vc.Session().NewBatch(gocql.LoggedBatch)
				b.Query(stmt, args...)
				frames, msg := vc.ExecBatch(b)
				outT, stream := "None", 0
				wantFrames := 1
				if v == 1 || (named && v >= 3) {
					wantFrames = 0 // no BATCH in v1; named values in a batch are refused from v3
				}
				if len(frames) != wantFrames {
					o.Violate(-1, "bind-frame-count", "", fmt.Sprintf("Conn.executeBatch handed %d frames to the writer (want %d): %s", len(frames), wantFrames, msg), input)
					continue
				}
				if len(frames) == 1 {
					outT, stream = "(Some "+bytesTerm(frames[0])+")", frameStream(v, frames[0])
				}
				idx := -1
				if !o.Search {
					idx = o.Case("bind/batch", true, fmt.Sprintf("CConnBatchBind %d false false 0 [(%s, Some (%s, %s))] %d 0 false 0 [] %d %s", v, strTerm(stmt), bytesTerm(id),
						apiBoundsTerm(vals), uint16(gocql.One), stream, outT))
				} else {
					o.Count("bind/batch")
				}
				if len(frames) == 1 {
					want := &gocql.VerifC03Request{Kind: gocql.VerifC03Batch, BatchType: 0, Consistency: uint16(gocql.One),
						Statements: []gocql.VerifC03Stmt{{PreparedID: id, Values: toShim(vals)}}}
					connMonitor(o, idx, "BATCH(bind)", v, false, frames[0], want, 0, 0, input)
				}
			}
		}
	}
}
