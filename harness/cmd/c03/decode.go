// Spec-side oracle for C03, in Go: a decoder of CQL native-protocol REQUEST frames written from the
// protocol specifications v1-v4 plus the v5-beta changes named by the property (same reading of the
// documents as coq/theories/C03/Spec.v, written separately, sharing no code with package gocql).
package main

import (
	"errors"
	"fmt"
	"sort"
	"strings"
)

type lvalue struct {
	kind int // 0 null, 1 not set, 2 bytes
	b    []byte
}

type lopts struct {
	cons        uint16
	named       bool
	names       []string
	vals        []lvalue
	skipMeta    bool
	pageSize    *int32
	pagingState *[]byte
	serial      *uint16
	ts          *int64
	keyspace    *string
}

type lbquery struct {
	prepared bool
	stmt     string
	id       []byte
	vals     []lvalue
}

type lmsg struct {
	version, flags, opcode byte
	stream                 int
	length                 int32
	tracing                bool
	hasPayload             bool
	payload                map[string]*[]byte
	payloadOrder           []string
	// body
	startup      map[string]string
	startupOrder []string
	token        *[]byte
	events       []string
	stmt         string
	id           []byte
	opts         lopts
	prepKs       *string
	btype        byte
	bqueries     []lbquery
	bcons        uint16
	bserial      *uint16
	bts          *int64
}

type rd struct {
	b   []byte
	err error
}

func (r *rd) fail(s string) {
	if r.err == nil {
		r.err = errors.New(s)
	}
}
func (r *rd) take(n int) []byte {
	if r.err != nil {
		return nil
	}
	if n < 0 || n > len(r.b) {
		r.fail(fmt.Sprintf("field of %d bytes runs past the end (%d left)", n, len(r.b)))
		return nil
	}
	x := r.b[:n]
	r.b = r.b[n:]
	return x
}
func (r *rd) byte1() byte {
	x := r.take(1)
	if x == nil {
		return 0
	}
	return x[0]
}
func (r *rd) short() uint16 {
	x := r.take(2)
	if x == nil {
		return 0
	}
	return uint16(x[0])<<8 | uint16(x[1])
}
func (r *rd) u32() uint32 {
	x := r.take(4)
	if x == nil {
		return 0
	}
	return uint32(x[0])<<24 | uint32(x[1])<<16 | uint32(x[2])<<8 | uint32(x[3])
}
func (r *rd) int4() int32 { return int32(r.u32()) }
func (r *rd) long() int64 {
	h := uint64(r.u32())
	l := uint64(r.u32())
	return int64(h<<32 | l)
}
func (r *rd) str() string { return string(r.take(int(r.short()))) }
func (r *rd) longStr() string {
	n := r.int4()
	if n < 0 {
		r.fail("negative [long string] length")
		return ""
	}
	return string(r.take(int(n)))
}
func (r *rd) bytesOpt() *[]byte {
	n := r.int4()
	if n < 0 {
		return nil
	}
	x := r.take(int(n))
	return &x
}
func (r *rd) shortBytes() []byte { return r.take(int(r.short())) }
func (r *rd) value(v byte) lvalue {
	n := r.int4()
	switch {
	case n >= 0:
		return lvalue{2, r.take(int(n))}
	case v < 4 || n == -1:
		return lvalue{0, nil}
	case n == -2:
		return lvalue{1, nil}
	}
	r.fail("value length below -2")
	return lvalue{}
}

func (r *rd) queryFlags(v byte) uint32 {
	if v >= 5 {
		return r.u32()
	}
	return uint32(r.byte1())
}

func (r *rd) queryParams(v byte) lopts {
	var o lopts
	o.cons = r.short()
	if v == 1 {
		return o
	}
	fl := r.queryFlags(v)
	mask := uint32(0xff)
	if v <= 2 {
		mask = 0x1f
	} else if v <= 4 {
		mask = 0x7f
	}
	if fl&^mask != 0 {
		r.fail(fmt.Sprintf("query flags 0x%x undefined in v%d", fl, v))
		return o
	}
	if fl&0x01 != 0 {
		n := int(r.short())
		o.named = fl&0x40 != 0
		for i := 0; i < n && r.err == nil; i++ {
			if o.named {
				o.names = append(o.names, r.str())
			}
			o.vals = append(o.vals, r.value(v))
		}
	}
	o.skipMeta = fl&0x02 != 0
	if fl&0x04 != 0 {
		x := r.int4()
		o.pageSize = &x
	}
	if fl&0x08 != 0 {
		n := r.int4()
		if n < 0 {
			r.fail("null paging state")
		}
		x := r.take(int(n))
		o.pagingState = &x
	}
	if fl&0x10 != 0 {
		x := r.short()
		o.serial = &x
	}
	if fl&0x20 != 0 {
		x := r.long()
		o.ts = &x
	}
	if fl&0x80 != 0 {
		x := r.str()
		o.keyspace = &x
	}
	return o
}

// decodeRequest: decomp is applied to the body when the compression flag is set.
func decodeRequest(frame []byte, decomp func([]byte) ([]byte, error)) (*lmsg, error) {
	r := &rd{b: frame}
	m := &lmsg{}
	m.version = r.byte1()
	if r.err == nil && (m.version < 1 || m.version > 5) {
		return nil, fmt.Errorf("version byte 0x%02x is not a request of versions 1..5", m.version)
	}
	m.flags = r.byte1()
	if m.version <= 2 {
		m.stream = int(int8(r.byte1()))
	} else {
		m.stream = int(int16(r.short()))
	}
	m.opcode = r.byte1()
	m.length = r.int4()
	if r.err != nil {
		return nil, r.err
	}
	if m.stream < 0 {
		return nil, errors.New("negative stream id in a request")
	}
	if m.length < 0 || int(m.length) != len(r.b) {
		return nil, fmt.Errorf("length field %d, body has %d bytes", m.length, len(r.b))
	}
	v, op, fl := m.version, m.opcode, m.flags
	allowed := byte(0x03)
	if v >= 4 && (op == 7 || op == 9 || op == 10 || op == 13) {
		allowed |= 0x04
	}
	if v == 5 {
		allowed |= 0x10
		if fl&0x10 == 0 {
			return nil, errors.New("v5 request without the beta flag")
		}
	}
	if fl&^allowed != 0 {
		return nil, fmt.Errorf("header flags 0x%02x not defined for v%d opcode %d", fl, v, op)
	}
	if fl&0x01 != 0 {
		if op == 1 {
			return nil, errors.New("compressed STARTUP")
		}
		body, err := decomp(r.b)
		if err != nil {
			return nil, fmt.Errorf("body does not decompress: %v", err)
		}
		r.b = body
	}
	m.tracing = fl&0x02 != 0
	if fl&0x04 != 0 {
		m.hasPayload = true
		m.payload = map[string]*[]byte{}
		n := int(r.short())
		for i := 0; i < n && r.err == nil; i++ {
			k := r.str()
			m.payload[k] = r.bytesOpt()
			m.payloadOrder = append(m.payloadOrder, k)
		}
	}
	switch op {
	case 1:
		m.startup = map[string]string{}
		n := int(r.short())
		for i := 0; i < n && r.err == nil; i++ {
			k := r.str()
			m.startup[k] = r.str()
			m.startupOrder = append(m.startupOrder, k)
		}
	case 5:
	case 7:
		m.stmt = r.longStr()
		m.opts = r.queryParams(v)
	case 9:
		m.stmt = r.longStr()
		if v >= 5 {
			f := r.u32()
			if f&^1 != 0 {
				r.fail("undefined prepare flags")
			}
			if f&1 != 0 {
				x := r.str()
				m.prepKs = &x
			}
		}
	case 10:
		m.id = r.shortBytes()
		if v == 1 {
			n := int(r.short())
			for i := 0; i < n && r.err == nil; i++ {
				m.opts.vals = append(m.opts.vals, r.value(v))
			}
			m.opts.cons = r.short()
		} else {
			m.opts = r.queryParams(v)
		}
	case 11:
		n := int(r.short())
		m.events = []string{}
		for i := 0; i < n && r.err == nil; i++ {
			m.events = append(m.events, r.str())
		}
	case 13:
		if v < 2 {
			return nil, errors.New("BATCH does not exist in v1")
		}
		m.btype = r.byte1()
		n := int(r.short())
		for i := 0; i < n && r.err == nil; i++ {
			var q lbquery
			switch k := r.byte1(); k {
			case 0:
				q.stmt = r.longStr()
			case 1:
				q.prepared = true
				q.id = r.shortBytes()
			default:
				r.fail(fmt.Sprintf("batch query kind %d", k))
			}
			nv := int(r.short())
			for j := 0; j < nv && r.err == nil; j++ {
				q.vals = append(q.vals, r.value(v))
			}
			m.bqueries = append(m.bqueries, q)
		}
		m.bcons = r.short()
		if v >= 3 {
			f := r.queryFlags(v)
			if f&^0x30 != 0 {
				r.fail(fmt.Sprintf("batch flags 0x%x", f))
			}
			if f&0x10 != 0 {
				x := r.short()
				m.bserial = &x
			}
			if f&0x20 != 0 {
				x := r.long()
				m.bts = &x
			}
		}
	case 15:
		if v < 2 {
			return nil, errors.New("AUTH_RESPONSE does not exist in v1 (v1 uses CREDENTIALS, opcode 0x04)")
		}
		m.token = r.bytesOpt()
	default:
		return nil, fmt.Errorf("opcode 0x%02x is not a request of v%d", op, v)
	}
	if r.err != nil {
		return nil, r.err
	}
	if len(r.b) != 0 {
		return nil, fmt.Errorf("%d bytes left over after the last field", len(r.b))
	}
	return m, nil
}

// ---- canonical text of a logical request (maps sorted; header fields apart) -----------------------

func canonVals(sb *strings.Builder, named bool, names []string, vals []lvalue) {
	fmt.Fprintf(sb, "vals(named=%v,n=%d)[", named, len(vals))
	// long runs of identical entries are summarised so that 65535-value requests stay cheap to compare
	prev, run := "", 0
	flush := func() {
		if run > 0 {
			fmt.Fprintf(sb, "%dx{%s}", run, prev)
		}
	}
	for i, x := range vals {
		var e string
		if named {
			e = fmt.Sprintf("%x=", names[i])
		}
		switch x.kind {
		case 0:
			e += "null"
		case 1:
			e += "unset"
		default:
			e += fmt.Sprintf("b:%x", x.b)
		}
		if e == prev {
			run++
			continue
		}
		flush()
		prev, run = e, 1
	}
	flush()
	sb.WriteString("]")
}

func canonOpts(sb *strings.Builder, o *lopts) {
	fmt.Fprintf(sb, "cons=%d ", o.cons)
	canonVals(sb, o.named, o.names, o.vals)
	fmt.Fprintf(sb, " skip=%v", o.skipMeta)
	if o.pageSize != nil {
		fmt.Fprintf(sb, " page=%d", *o.pageSize)
	}
	if o.pagingState != nil {
		fmt.Fprintf(sb, " state=%x", *o.pagingState)
	}
	if o.serial != nil {
		fmt.Fprintf(sb, " serial=%d", *o.serial)
	}
	if o.ts != nil {
		fmt.Fprintf(sb, " ts=%d", *o.ts)
	}
	if o.keyspace != nil {
		fmt.Fprintf(sb, " ks=%x", *o.keyspace)
	}
}

func (m *lmsg) canon() string {
	var sb strings.Builder
	fmt.Fprintf(&sb, "op=%d tracing=%v ", m.opcode, m.tracing)
	if m.hasPayload {
		keys := make([]string, 0, len(m.payload))
		for k := range m.payload {
			keys = append(keys, k)
		}
		sort.Strings(keys)
		fmt.Fprintf(&sb, "payload(n=%d){", len(m.payloadOrder))
		for _, k := range keys {
			if p := m.payload[k]; p == nil {
				fmt.Fprintf(&sb, "%x=null,", k)
			} else {
				fmt.Fprintf(&sb, "%x=%x,", k, *p)
			}
		}
		sb.WriteString("} ")
	}
	switch m.opcode {
	case 1:
		keys := make([]string, 0, len(m.startup))
		for k := range m.startup {
			keys = append(keys, k)
		}
		sort.Strings(keys)
		fmt.Fprintf(&sb, "startup(n=%d){", len(m.startupOrder))
		for _, k := range keys {
			fmt.Fprintf(&sb, "%x=%x,", k, m.startup[k])
		}
		sb.WriteString("}")
	case 7:
		fmt.Fprintf(&sb, "query=%s ", sumStr(m.stmt))
		canonOpts(&sb, &m.opts)
	case 9:
		fmt.Fprintf(&sb, "prepare=%s", sumStr(m.stmt))
		if m.prepKs != nil {
			fmt.Fprintf(&sb, " ks=%x", *m.prepKs)
		}
	case 10:
		fmt.Fprintf(&sb, "execute=%x ", m.id)
		canonOpts(&sb, &m.opts)
	case 11:
		fmt.Fprintf(&sb, "register(n=%d)[", len(m.events))
		for _, e := range m.events {
			fmt.Fprintf(&sb, "%s,", sumStr(e))
		}
		sb.WriteString("]")
	case 13:
		fmt.Fprintf(&sb, "batch type=%d n=%d [", m.btype, len(m.bqueries))
		prev, run := "", 0
		flush := func() {
			if run > 0 {
				fmt.Fprintf(&sb, "%dx{%s}", run, prev)
			}
		}
		for _, q := range m.bqueries {
			var e strings.Builder
			if q.prepared {
				fmt.Fprintf(&e, "id:%x ", q.id)
			} else {
				fmt.Fprintf(&e, "q:%s ", sumStr(q.stmt))
			}
			canonVals(&e, false, nil, q.vals)
			if e.String() == prev {
				run++
				continue
			}
			flush()
			prev, run = e.String(), 1
		}
		flush()
		fmt.Fprintf(&sb, "] cons=%d", m.bcons)
		if m.bserial != nil {
			fmt.Fprintf(&sb, " serial=%d", *m.bserial)
		}
		if m.bts != nil {
			fmt.Fprintf(&sb, " ts=%d", *m.bts)
		}
	case 15:
		if m.token == nil {
			sb.WriteString("token=null")
		} else {
			fmt.Fprintf(&sb, "token=%x", *m.token)
		}
	}
	return sb.String()
}

// long strings are summarised (length + a cheap checksum + head) to keep canonical forms small
func sumStr(s string) string {
	if len(s) <= 64 {
		return fmt.Sprintf("%x", s)
	}
	var h uint64 = 1469598103934665603
	for i := 0; i < len(s); i++ {
		h = (h ^ uint64(s[i])) * 1099511628211
	}
	return fmt.Sprintf("len%d:%016x:%x", len(s), h, s[:16])
}
