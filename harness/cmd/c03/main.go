// C03 harness: builds request frames with the real builders of package gocql (through the add-only
// shim verif_shim_c03.go: newFramer + trace() + buildFrame, exactly what Conn.exec does), records
// (inputs, produced bytes / error / panic) as Coq correspondence cases, and runs the property monitors
// on the produced bytes with the spec-side request decoder of decode.go.
package main

import (
	"errors"
	"fmt"
	"sort"
	"strconv"
	"strings"
	"time"

	"github.com/gocql/gocql"
	"gocqlverif/hlib"
)

// ---- the toy compressor plugged into the framer (same function as C03.Corr.test_comp) ---------------

type toyComp struct{}

func (toyComp) Name() string { return "verif-toy" }
func (toyComp) Encode(d []byte) ([]byte, error) {
	if len(d)%11 == 10 {
		return nil, errors.New("toy compressor refuses this length")
	}
	out := make([]byte, 0, len(d)+2)
	out = append(out, 0xC5)
	for _, b := range d {
		out = append(out, b^0x5A)
	}
	return append(out, byte(len(d)%256)), nil
}
func (toyComp) Decode(z []byte) ([]byte, error) {
	if len(z) < 2 || z[0] != 0xC5 {
		return nil, errors.New("bad toy frame")
	}
	d := make([]byte, len(z)-2)
	for i := range d {
		d[i] = z[i+1] ^ 0x5A
	}
	if z[len(z)-1] != byte(len(d)%256) {
		return nil, errors.New("bad toy trailer")
	}
	return d, nil
}

// ---- Coq terms ----------------------------------------------------------------------------------------

// compact byte-list expression: literal chunks and (repb n chunk) for periodic runs
func bytesTerm(b []byte) string {
	if len(b) <= 400 {
		return hlib.ZList(b)
	}
	var parts []string
	lit := 0
	flush := func(to int) {
		if to > lit {
			parts = append(parts, hlib.ZList(b[lit:to]))
		}
	}
	i := 0
	for i < len(b) {
		bestP, bestReps := 0, 0
		for p := 1; p <= 48 && i+p < len(b); p++ {
			k := 0
			for i+k+p < len(b) && b[i+k] == b[i+k+p] {
				k++
			}
			reps := k/p + 1
			if reps >= 8 && reps*p >= 200 && reps*p > bestReps*bestP {
				bestP, bestReps = p, reps
			}
			if bestP > 0 && p > bestP && p%bestP != 0 {
				break
			}
		}
		if bestP > 0 {
			flush(i)
			parts = append(parts, fmt.Sprintf("repb %d%%N %s", bestReps, hlib.ZList(b[i:i+bestP])))
			i += bestP * bestReps
			lit = i
		} else {
			i++
		}
	}
	flush(len(b))
	if len(parts) == 0 {
		return "[]"
	}
	return "(" + strings.Join(parts, " ++ ") + ")"
}

func strTerm(s string) string { return bytesTerm([]byte(s)) }

func optBytesTerm(b []byte) string {
	if b == nil {
		return "None"
	}
	return "(Some " + bytesTerm(b) + ")"
}

// list of terms with runs of identical items written as (repn n item)
func runListTerm(items []string) string {
	if len(items) == 0 {
		return "[]"
	}
	var parts []string
	var lit []string
	flush := func() {
		if len(lit) > 0 {
			parts = append(parts, "["+strings.Join(lit, "; ")+"]")
			lit = nil
		}
	}
	for i := 0; i < len(items); {
		j := i
		for j < len(items) && items[j] == items[i] {
			j++
		}
		if j-i >= 8 {
			flush()
			parts = append(parts, fmt.Sprintf("repn %d%%N %s", j-i, items[i]))
		} else {
			lit = append(lit, items[i:j]...)
		}
		i = j
	}
	flush()
	if len(parts) == 1 {
		return "(" + parts[0] + ")"
	}
	return "(" + strings.Join(parts, " ++ ") + ")"
}

func valuesTerm(vs []gocql.VerifC03Value) string {
	items := make([]string, len(vs))
	var last gocql.VerifC03Value
	lastTerm := ""
	for i, v := range vs {
		if i > 0 && v.Name == last.Name && v.IsUnset == last.IsUnset && (v.Value == nil) == (last.Value == nil) && string(v.Value) == string(last.Value) {
			items[i] = lastTerm
			continue
		}
		items[i] = fmt.Sprintf("(mkqv %s %s %s)", optBytesTerm(v.Value), strTerm(v.Name), hlib.Bool(v.IsUnset))
		last, lastTerm = v, items[i]
	}
	return runListTerm(items)
}

func paramsTerm(p *gocql.VerifC03Params) string {
	return fmt.Sprintf("(mkqp %d %s %s %s %s %d %s %s %s)", p.Consistency, hlib.Bool(p.SkipMeta), valuesTerm(p.Values),
		hlib.Z(int64(p.PageSize)), bytesTerm(p.PagingState), p.SerialConsistency, hlib.Bool(p.DefaultTimestamp),
		hlib.Z(p.DefaultTimestampValue), strTerm(p.Keyspace))
}

func sortedKeysB(m map[string][]byte) []string {
	ks := make([]string, 0, len(m))
	for k := range m {
		ks = append(ks, k)
	}
	sort.Strings(ks)
	return ks
}

func payloadTerm(m map[string][]byte) string {
	var items []string
	for _, k := range sortedKeysB(m) {
		items = append(items, fmt.Sprintf("(%s, %s)", strTerm(k), optBytesTerm(m[k])))
	}
	return "[" + strings.Join(items, "; ") + "]"
}

func requestTerm(r *gocql.VerifC03Request) string {
	switch r.Kind {
	case gocql.VerifC03Startup:
		ks := make([]string, 0, len(r.Opts))
		for k := range r.Opts {
			ks = append(ks, k)
		}
		sort.Strings(ks)
		var items []string
		for _, k := range ks {
			items = append(items, fmt.Sprintf("(%s, %s)", strTerm(k), strTerm(r.Opts[k])))
		}
		return "(RStartup [" + strings.Join(items, "; ") + "])"
	case gocql.VerifC03Options:
		return "ROptions"
	case gocql.VerifC03AuthResponse:
		return "(RAuthResponse " + optBytesTerm(r.Data) + ")"
	case gocql.VerifC03Register:
		items := make([]string, len(r.Events))
		for i, e := range r.Events {
			items[i] = strTerm(e)
		}
		return "(RRegister " + runListTerm(items) + ")"
	case gocql.VerifC03Query:
		return fmt.Sprintf("(RQuery %s %s %s)", strTerm(r.Statement), paramsTerm(&r.Params), payloadTerm(r.CustomPayload))
	case gocql.VerifC03Prepare:
		return fmt.Sprintf("(RPrepare %s %s %s)", strTerm(r.Statement), strTerm(r.Keyspace), payloadTerm(r.CustomPayload))
	case gocql.VerifC03Execute:
		return fmt.Sprintf("(RExecute %s %s %s)", bytesTerm(r.PreparedID), paramsTerm(&r.Params), payloadTerm(r.CustomPayload))
	case gocql.VerifC03Batch:
		items := make([]string, len(r.Statements))
		for i := range r.Statements {
			s := &r.Statements[i]
			if i > 0 && sameStmt(s, &r.Statements[i-1]) {
				items[i] = items[i-1]
				continue
			}
			items[i] = fmt.Sprintf("(mkbs %s %s %s)", bytesTerm(s.PreparedID), strTerm(s.Statement), valuesTerm(s.Values))
		}
		return fmt.Sprintf("(RBatch %d %s %d %d %s %s %s)", r.BatchType, runListTerm(items), r.Consistency, r.SerialCons,
			hlib.Bool(r.DefaultTS), hlib.Z(r.DefaultTSVal), payloadTerm(r.CustomPayload))
	}
	panic("kind")
}

func sameStmt(a, b *gocql.VerifC03Stmt) bool {
	if string(a.PreparedID) != string(b.PreparedID) || a.Statement != b.Statement || len(a.Values) != len(b.Values) {
		return false
	}
	for i := range a.Values {
		x, y := a.Values[i], b.Values[i]
		if x.Name != y.Name || x.IsUnset != y.IsUnset || (x.Value == nil) != (y.Value == nil) || string(x.Value) != string(y.Value) {
			return false
		}
	}
	return true
}

// ---- what was asked for (the property's reading of the struct), as an lmsg ---------------------------

var kindOpcode = map[int]byte{gocql.VerifC03Startup: 1, gocql.VerifC03Options: 5, gocql.VerifC03AuthResponse: 15, gocql.VerifC03Register: 11,
	gocql.VerifC03Query: 7, gocql.VerifC03Prepare: 9, gocql.VerifC03Execute: 10, gocql.VerifC03Batch: 13}

var kindName = map[int]string{gocql.VerifC03Startup: "startup", gocql.VerifC03Options: "options", gocql.VerifC03AuthResponse: "auth_response",
	gocql.VerifC03Register: "register", gocql.VerifC03Query: "query", gocql.VerifC03Prepare: "prepare", gocql.VerifC03Execute: "execute", gocql.VerifC03Batch: "batch"}

func askedValues(vs []gocql.VerifC03Value) (named bool, names []string, vals []lvalue) {
	for _, v := range vs {
		if v.Name != "" {
			named = true
		}
	}
	for _, v := range vs {
		if named {
			names = append(names, v.Name)
		}
		switch {
		case v.IsUnset:
			vals = append(vals, lvalue{1, nil})
		case v.Value == nil:
			vals = append(vals, lvalue{0, nil})
		default:
			vals = append(vals, lvalue{2, v.Value})
		}
	}
	return
}

func askedOpts(p *gocql.VerifC03Params, ts int64) lopts {
	var o lopts
	o.cons = p.Consistency
	o.named, o.names, o.vals = askedValues(p.Values)
	o.skipMeta = p.SkipMeta
	if p.PageSize > 0 {
		x := int32(p.PageSize)
		o.pageSize = &x
	}
	if len(p.PagingState) > 0 {
		x := p.PagingState
		o.pagingState = &x
	}
	if p.SerialConsistency > 0 {
		x := p.SerialConsistency
		o.serial = &x
	}
	if p.DefaultTimestamp {
		x := p.DefaultTimestampValue
		if x == 0 {
			x = ts
		}
		o.ts = &x
	}
	if p.Keyspace != "" {
		x := p.Keyspace
		o.keyspace = &x
	}
	return o
}

// asked: ts is used where the request says "timestamp: now" (taken from the decoded frame and range-checked apart)
func asked(r *gocql.VerifC03Request, tracing bool, ts int64) *lmsg {
	m := &lmsg{opcode: kindOpcode[r.Kind], tracing: tracing}
	pl := r.CustomPayload
	switch r.Kind {
	case gocql.VerifC03Startup:
		m.startup = r.Opts
		for k := range r.Opts {
			m.startupOrder = append(m.startupOrder, k)
		}
		pl = nil
	case gocql.VerifC03AuthResponse:
		if r.Data != nil {
			x := r.Data
			m.token = &x
		}
		pl = nil
	case gocql.VerifC03Register:
		m.events = r.Events
		pl = nil
	case gocql.VerifC03Options:
		pl = nil
	case gocql.VerifC03Query:
		m.stmt = r.Statement
		m.opts = askedOpts(&r.Params, ts)
	case gocql.VerifC03Prepare:
		m.stmt = r.Statement
		if r.Keyspace != "" {
			x := r.Keyspace
			m.prepKs = &x
		}
	case gocql.VerifC03Execute:
		m.id = r.PreparedID
		m.opts = askedOpts(&r.Params, ts)
	case gocql.VerifC03Batch:
		m.btype = r.BatchType
		for _, s := range r.Statements {
			q := lbquery{prepared: len(s.PreparedID) > 0, stmt: s.Statement, id: s.PreparedID}
			if q.prepared {
				q.stmt = ""
			} else {
				q.id = nil
			}
			_, _, q.vals = askedValues(s.Values)
			m.bqueries = append(m.bqueries, q)
		}
		m.bcons = r.Consistency
		if r.SerialCons > 0 {
			x := r.SerialCons
			m.bserial = &x
		}
		if r.DefaultTS {
			x := r.DefaultTSVal
			if x == 0 {
				x = ts
			}
			m.bts = &x
		}
	}
	if len(pl) > 0 {
		m.hasPayload = true
		m.payload = map[string]*[]byte{}
		for k, v := range pl {
			if v == nil {
				m.payload[k] = nil
			} else {
				x := v
				m.payload[k] = &x
			}
			m.payloadOrder = append(m.payloadOrder, k)
		}
	}
	return m
}

func decodedTS(m *lmsg) (int64, bool) {
	switch m.opcode {
	case 7, 10:
		if m.opts.ts != nil {
			return *m.opts.ts, true
		}
	case 13:
		if m.bts != nil {
			return *m.bts, true
		}
	}
	return 0, false
}

// ---- classification of a request against the property's quantifier ---------------------------------

type scope struct {
	expressible bool   // version v can express the request
	shortsOK    bool   // every [short] length and count < 2^16
	onWire      bool   // the message kind exists in v
	why         string // first reason it is not expressible / in bounds
}

func valuesScope(v int, vs []gocql.VerifC03Value, allowNames bool, sc *scope) {
	named, unnamed := 0, 0
	for _, x := range vs {
		if x.Name != "" {
			named++
		} else {
			unnamed++
		}
		if len(x.Name) >= 1<<16 {
			sc.shortsOK = false
		}
		if x.IsUnset && v < 4 {
			sc.expressible, sc.why = false, "unset value below v4"
		}
	}
	if named > 0 && (unnamed > 0 || v < 3 || !allowNames) {
		sc.expressible, sc.why = false, "named values not expressible (mixed, below v3, or in a batch)"
	}
	if len(vs) >= 1<<16 {
		sc.shortsOK = false
	}
}

func payloadScope(v int, pl map[string][]byte, sc *scope) {
	if len(pl) > 0 && v < 4 {
		sc.expressible, sc.why = false, "custom payload below v4"
	}
	if len(pl) >= 1<<16 {
		sc.shortsOK = false
	}
	for k := range pl {
		if len(k) >= 1<<16 {
			sc.shortsOK = false
		}
	}
}

func paramsScope(v int, execute bool, p *gocql.VerifC03Params, sc *scope) {
	valuesScope(v, p.Values, true, sc)
	if p.PageSize >= 1<<31 {
		sc.expressible, sc.why = false, "page size does not fit an [int]"
	}
	if p.Keyspace != "" && v < 5 {
		sc.expressible, sc.why = false, "keyspace below v5"
	}
	if len(p.Keyspace) >= 1<<16 {
		sc.shortsOK = false
	}
	if v < 3 && p.DefaultTimestamp {
		sc.expressible, sc.why = false, "default timestamp below v3"
	}
	if v == 1 {
		if (!execute && len(p.Values) > 0) || p.SkipMeta || p.PageSize > 0 || len(p.PagingState) > 0 || p.SerialConsistency > 0 {
			sc.expressible, sc.why = false, "query parameters do not exist in v1"
		}
	}
}

func classify(v int, r *gocql.VerifC03Request) scope {
	sc := scope{true, true, true, ""}
	switch r.Kind {
	case gocql.VerifC03Startup:
		if len(r.Opts) >= 1<<16 {
			sc.shortsOK = false
		}
		for k, x := range r.Opts {
			if len(k) >= 1<<16 || len(x) >= 1<<16 {
				sc.shortsOK = false
			}
		}
	case gocql.VerifC03AuthResponse:
		sc.onWire = v >= 2
	case gocql.VerifC03Register:
		if len(r.Events) >= 1<<16 {
			sc.shortsOK = false
		}
		for _, e := range r.Events {
			if len(e) >= 1<<16 {
				sc.shortsOK = false
			}
		}
	case gocql.VerifC03Query:
		paramsScope(v, false, &r.Params, &sc)
		payloadScope(v, r.CustomPayload, &sc)
	case gocql.VerifC03Prepare:
		if r.Keyspace != "" && v < 5 {
			sc.expressible, sc.why = false, "keyspace below v5"
		}
		if len(r.Keyspace) >= 1<<16 {
			sc.shortsOK = false
		}
		payloadScope(v, r.CustomPayload, &sc)
	case gocql.VerifC03Execute:
		paramsScope(v, true, &r.Params, &sc)
		payloadScope(v, r.CustomPayload, &sc)
		if len(r.PreparedID) >= 1<<16 {
			sc.shortsOK = false
		}
	case gocql.VerifC03Batch:
		sc.onWire = v >= 2
		if len(r.Statements) >= 1<<16 {
			sc.shortsOK = false
		}
		for i := range r.Statements {
			valuesScope(v, r.Statements[i].Values, false, &sc)
			if len(r.Statements[i].PreparedID) >= 1<<16 {
				sc.shortsOK = false
			}
		}
		if v < 3 && (r.SerialCons > 0 || r.DefaultTS) {
			sc.expressible, sc.why = false, "batch serial consistency / timestamp below v3"
		}
		payloadScope(v, r.CustomPayload, &sc)
	}
	return sc
}

// ---- one build, its correspondence case and its monitors ------------------------------------------------

type job struct {
	kind    string // generator stream
	version byte
	comp    bool
	tracing bool
	stream  int
	req     *gocql.VerifC03Request
	big     bool
}

var classNames = []string{"ok", "err-frame-too-big", "err-batch-named", "err-other", "panic-payload-version", "panic-keyspace-version", "panic-no-compressor", "panic-other"}

func inputSummary(j *job) map[string]interface{} {
	t := requestTerm(j.req)
	if len(t) > 1500 {
		t = t[:1500] + "..."
	}
	return map[string]interface{}{"version": j.version, "compressor": j.comp, "tracing": j.tracing, "stream": j.stream, "request": t}
}

func runJob(o *hlib.Out, j *job) {
	var comp gocql.Compressor
	if j.comp {
		comp = toyComp{}
	}
	t0 := time.Now().UnixNano() / 1000
	out, class, msg := gocql.VerifC03Build(j.version, comp, j.tracing, j.stream, j.req)
	t1 := time.Now().UnixNano() / 1000
	v := int(j.version)
	r := j.req
	sc := classify(v, r)
	versionOK := v >= 1 && v <= 5
	streamOK := j.stream >= 0 && ((v <= 2 && j.stream < 128) || (v > 2 && j.stream < 32768))
	inQuant := versionOK && streamOK && sc.shortsOK

	o.Count("outcome:" + classNames[class])
	nontrivial := r.Kind != gocql.VerifC03Options
	idx := -1
	if !o.Search {
		var outT string
		if class == gocql.VerifC03OK {
			outT = "(OBytes " + bytesTerm(out) + ")"
		} else {
			outT = fmt.Sprintf("(OFail %d)", class)
		}
		term := fmt.Sprintf("CBuild %d %s %s %s %s %s", j.version, hlib.Bool(j.comp), hlib.Bool(j.tracing), hlib.Z(int64(j.stream)), requestTerm(r), outT)
		idx = o.Case(j.kind+"/"+kindName[r.Kind], nontrivial, term)
	} else {
		o.Count(j.kind + "/" + kindName[r.Kind])
	}
	viol := func(mon, finding, detail string) { o.Violate(idx, mon, finding, detail, inputSummary(j)) }

	if class == gocql.VerifC03ErrOther && !(j.comp && r.Kind != gocql.VerifC03Startup && r.Kind != gocql.VerifC03Options) {
		viol("unexpected-error", "", "buildFrame returned an error no specification-conforming builder has a reason for: "+msg)
	}
	if class == gocql.VerifC03PanicOther || class == gocql.VerifC03PanicNoCompressor {
		viol("unexpected-panic", "", "buildFrame panicked: "+msg)
	}
	if !versionOK {
		return // outside the property (correspondence only)
	}
	if class != gocql.VerifC03OK {
		// refusing is only acceptable for a request the version cannot express, or for an explicit environment failure
		if sc.expressible && sc.onWire && inQuant && class != gocql.VerifC03ErrOther {
			viol("refused-expressible", "", fmt.Sprintf("an expressible request was refused (%s: %s)", classNames[class], msg))
		}
		return
	}

	// M1 header
	hs := 8
	if v > 2 {
		hs = 9
	}
	if len(out) < hs {
		viol("header", "", fmt.Sprintf("frame of %d bytes is shorter than a v%d header", len(out), v))
		return
	}
	wantFlags := byte(0)
	if j.comp && r.Kind != gocql.VerifC03Startup && r.Kind != gocql.VerifC03Options {
		wantFlags |= 0x01
	}
	if j.tracing {
		wantFlags |= 0x02
	}
	if len(r.CustomPayload) > 0 && (r.Kind == gocql.VerifC03Query || r.Kind == gocql.VerifC03Prepare || r.Kind == gocql.VerifC03Execute || r.Kind == gocql.VerifC03Batch) {
		wantFlags |= 0x04
	}
	if v == 5 {
		wantFlags |= 0x10
	}
	var gotStream, opPos int
	if v > 2 {
		gotStream, opPos = int(int16(uint16(out[2])<<8|uint16(out[3]))), 4
	} else {
		gotStream, opPos = int(int8(out[2])), 3
	}
	gotLen := int(int32(uint32(out[opPos+1])<<24 | uint32(out[opPos+2])<<16 | uint32(out[opPos+3])<<8 | uint32(out[opPos+4])))
	if streamOK {
		if out[0] != j.version || out[1] != wantFlags || gotStream != j.stream || out[opPos] != kindOpcode[r.Kind] || gotLen != len(out)-hs {
			viol("header", "", fmt.Sprintf("header % x: want version %d flags 0x%02x stream %d opcode %d length %d", out[:hs], v, wantFlags, j.stream, kindOpcode[r.Kind], len(out)-hs))
		}
	}
	if !inQuant {
		return
	}

	// M2/M3 the spec-side decoder on the produced bytes
	m, err := decodeRequest(out, toyComp{}.Decode)
	if err != nil {
		finding := ""
		if v == 1 && r.Kind == gocql.VerifC03AuthResponse {
			finding = "v1-auth-response-opcode"
		}
		if v == 1 && r.Kind == gocql.VerifC03Batch {
			// Conn.executeBatch refuses batches on protocol 1 before a frame is built (checked by the batch-guard case)
			o.Count("note:v1-batch-frame-never-sent")
			return
		}
		viol("malformed-frame", finding, fmt.Sprintf("frame is not a well-formed v%d request: %v; bytes % x", v, err, head(out, 64)))
		return
	}
	if !(sc.expressible && sc.onWire) {
		o.Count("note:inexpressible-sent-wellformed(" + sc.why + ")")
		return
	}
	ts, hasTS := decodedTS(m)
	want := asked(r, j.tracing, ts)
	if got, w := m.canon(), want.canon(); got != w {
		viol("decoded-differs", "", fmt.Sprintf("decoded request differs from the request asked for:\n got  %s\n want %s", trunc(got, 900), trunc(w, 900)))
	}
	// M4 "timestamp: now" really is the clock
	usesNow := (r.Kind == gocql.VerifC03Query || r.Kind == gocql.VerifC03Execute) && r.Params.DefaultTimestamp && r.Params.DefaultTimestampValue == 0 && v >= 3 ||
		r.Kind == gocql.VerifC03Batch && r.DefaultTS && r.DefaultTSVal == 0 && v >= 3
	if usesNow && (!hasTS || ts < t0 || ts > t1) {
		viol("timestamp-now", "", fmt.Sprintf("default timestamp %d outside the clock window [%d,%d]", ts, t0, t1))
	}
}

func head(b []byte, n int) []byte {
	if len(b) > n {
		return b[:n]
	}
	return b
}
func trunc(s string, n int) string {
	if len(s) > n {
		return s[:n] + "..."
	}
	return s
}

func main() {
	o := hlib.Init("C03")
	o.Rule = "inputs: every request kind x protocol versions 1-5 (+ out-of-range version bytes) x all 2^7 subsets of the optional query parameters x " +
		"value counts {0,1,2,255,256,65535,65536} x {bytes,null,unset,named,mixed} x stream ids {0,1,max,max+1,random} x compressor on/off x tracing x custom payload; " +
		"structured random requests; Session.Query / NewBatch / UseKeyspace / prepare driven through Conn.executeQuery etc. on a frame-capturing connection; requests a version cannot express (payload<v4, keyspace<v5, unset<v4, names<v3, batch names, v1 auth/batch) and 2^16 overflows. " +
		"distinct = distinct Coq case term; non-trivial = any request other than the body-less OPTIONS"
	g := generate(o)
	jobs := g.jobs
	// spread the large cases evenly so that the Coq shards have similar cost
	var small, big []*job
	for _, j := range jobs {
		if j.big {
			big = append(big, j)
		} else {
			small = append(small, j)
		}
	}
	every := len(small) + 1
	if len(big) > 0 {
		every = len(small)/len(big) + 1
	}
	bi := 0
	for i, j := range small {
		runJob(o, j)
		if (i+1)%every == 0 && bi < len(big) {
			runJob(o, big[bi])
			bi++
		}
	}
	for ; bi < len(big); bi++ {
		runJob(o, big[bi])
	}

	// the public Query / Batch API on a capturing connection
	connCases(o, g)
	bindStream(o)

	// live traffic of real sessions against the scripted node
	liveCases(o, g)

	// Conn.executeBatch on protocol 1: refused before any frame is built
	refused := gocql.VerifC03BatchGuard(1)
	if !o.Search {
		idx := o.Case("batch-guard", true, fmt.Sprintf("CBatchGuard 1 %s", hlib.Bool(refused)))
		if !refused {
			o.Violate(idx, "v1-batch-sent", "", "Conn.executeBatch did not refuse a batch on protocol version 1 (BATCH does not exist in v1)", nil)
		}
	}

	// finish refuses exactly the buffers above 256 MiB (one allocation-heavy probe per run)
	tooBigProbe(o)
	o.Extra["max_frame_size"] = strconv.Itoa(gocql.VerifC03MaxFrameSize)
	o.Finish("From GocqlV Require Import Lib.Base C03.Model C03.Corr.", "C03.Corr.case", "C03.Corr.run")
}

func tooBigProbe(o *hlib.Out) {
	limit := gocql.VerifC03MaxFrameSize
	// a v4 QUERY frame is 9 + 4 + len(stmt) + 2 + 1 bytes
	for _, total := range []int{limit, limit + 1} {
		stmt := strings.Repeat("x", total-16)
		r := &gocql.VerifC03Request{Kind: gocql.VerifC03Query, Statement: stmt, Params: gocql.VerifC03Params{Consistency: 1}}
		out, class, _ := gocql.VerifC03Build(4, nil, false, 1, r)
		refused := class == gocql.VerifC03ErrFrameTooBig
		idx := -1
		if !o.Search {
			idx = o.Case("too-big", true, fmt.Sprintf("CTooBig %d %s", total, hlib.Bool(refused)))
		}
		if refused != (total > 256*1024*1024) {
			o.Violate(idx, "frame-size-limit", "", fmt.Sprintf("a frame of %d bytes: refused=%v, the limit is 256 MiB", total, refused), nil)
		}
		if !refused && (class != gocql.VerifC03OK || len(out) != total) {
			o.Violate(idx, "frame-size-limit", "", fmt.Sprintf("a frame of %d bytes: class %d, %d bytes produced", total, class, len(out)), nil)
		}
		if !refused && class == gocql.VerifC03OK {
			n := int(uint32(out[5])<<24 | uint32(out[6])<<16 | uint32(out[7])<<8 | uint32(out[8]))
			sl := int(uint32(out[9])<<24 | uint32(out[10])<<16 | uint32(out[11])<<8 | uint32(out[12]))
			if n != total-9 || sl != len(stmt) {
				o.Violate(idx, "frame-size-limit", "", fmt.Sprintf("largest frame: length field %d (want %d), statement length %d (want %d)", n, total-9, sl, len(stmt)), nil)
			}
		}
	}
}
