// C09 harness: partition tokens and routing keys.
// Runs the real partitioners (through verif_shim_c09.go), token parsing/ordering, createRoutingKey and
// the public Query/Batch.GetRoutingKey (on a socket-less Session with pre-loaded caches) on generated
// inputs, records (input, implementation output) as Coq correspondence cases, and evaluates property
// monitors on the implementation's own outputs against oracles written here from Cassandra's
// algorithms (MurmurHash.hash3_x64_128, BigInteger(md5).abs(), unsigned byte order, CompositeType).
package main

import (
	"bytes"
	"crypto/md5"
	"errors"
	"fmt"
	"math"
	"math/big"
	"net"
	"sort"
	"strconv"
	"strings"
	"time"

	"github.com/gocql/gocql"
	"gocqlverif/hlib"
)

// ---- oracle: Cassandra's MurmurHash.hash3_x64_128, h1 (written on uint64, tail as a loop) --------

func orotl(v uint64, n uint) uint64 { return v<<n | v>>(64-n) }
func ofmix(k uint64) uint64 {
	k ^= k >> 33
	k *= 0xff51afd7ed558ccd
	k ^= k >> 33
	k *= 0xc4ceb9fe1a85ec53
	k ^= k >> 33
	return k
}
func cassH1(key []byte) int64 {
	const c1, c2 = uint64(0x87c37b91114253d5), uint64(0x4cf5ad432745937f)
	var h1, h2 uint64
	n := len(key)
	p := key
	for len(p) >= 16 {
		var k1, k2 uint64
		for i := 7; i >= 0; i-- {
			k1 = k1<<8 | uint64(p[i])
			k2 = k2<<8 | uint64(p[8+i])
		}
		h1 ^= orotl(k1*c1, 31) * c2
		h1 = (orotl(h1, 27)+h2)*5 + 0x52dce729
		h2 ^= orotl(k2*c2, 33) * c1
		h2 = (orotl(h2, 31)+h1)*5 + 0x38495ab5
		p = p[16:]
	}
	var k1, k2 uint64
	for i, b := range p { // (long) key.get(..): signed bytes
		v := uint64(int64(int8(b)))
		if i < 8 {
			k1 ^= v << (8 * uint(i))
		} else {
			k2 ^= v << (8 * uint(i-8))
		}
	}
	if len(p) > 8 {
		h2 ^= orotl(k2*c2, 33) * c1
	}
	if len(p) > 0 {
		h1 ^= orotl(k1*c1, 31) * c2
	}
	h1 ^= uint64(n)
	h2 ^= uint64(n)
	h1 += h2
	h2 += h1
	h1 = ofmix(h1)
	h2 = ofmix(h2)
	h1 += h2
	return int64(h1)
}

// Murmur3Partitioner.getToken for a non-empty key: normalize(h1)
func cassMurmurToken(key []byte) int64 {
	h := cassH1(key)
	if h == math.MinInt64 {
		return math.MaxInt64
	}
	return h
}

// RandomPartitioner: new BigInteger(md5).abs()
func cassRandomToken(sum [16]byte) *big.Int {
	v := new(big.Int).SetBytes(sum[:])
	if sum[0]&0x80 != 0 {
		v.Sub(v, new(big.Int).Lsh(big.NewInt(1), 128))
	}
	return v.Abs(v)
}

func selfTest() {
	exp := []uint64{0x0000000000000000, 0x2ac9debed546a380, 0x649e4eaa7fc1708e, 0xce68f60d7c353bdb, 0x0f95757ce7f38254,
		0x0f04e459497f3fc1, 0x88c0a92586be0a27, 0x13eb9fb82606f7a6, 0x8236039b7387354d, 0x4c1e87519fe738ba,
		0x3f9652ac3effeb24, 0x3f33760ded9006c6, 0xaed70a6631854cb1, 0x8a299a8f8e0e2da7, 0x624b675c779249a6,
		0xa4b203bb1d90b9a3, 0xa3293ad698ecb99a, 0xbc740023dbd50048, 0x3fe5ab9837d25cdd, 0x2d0338c1ca87d132}
	s := ""
	for i, e := range exp {
		if cassH1([]byte(s)) != int64(e) {
			panic("harness oracle cassH1 disagrees with the Java-generated vector " + strconv.Itoa(i))
		}
		s += strconv.Itoa(i % 10)
	}
	sign := []byte{0x00, 0x10, 0x43, 0x27, 0x52, 0x9f, 0xb6, 0x45, 0xdd, 0x00, 0xb8, 0x83, 0xec, 0x39, 0xae, 0x44, 0x8b, 0xb8, 0x00, 0x00, 0x04, 0x00, 0x06, 0x6a, 0x6b, 0x00}
	if cassH1(sign) != -9223371632693506265 || cassH1([]byte("hello")) != int64(-3758069500696749310) {
		panic("harness oracle cassH1 disagrees with the Cassandra sign vector")
	}
	if cassRandomToken(md5.Sum([]byte("test"))).String() != "12707736894140473154801792860916528374" {
		panic("harness oracle cassRandomToken disagrees with the python-driver reference")
	}
}

// witness of the fixed finding murmur3-min-token-not-normalized: a 16-byte key (read as a UUID:
// 653cbefb-85ec-3111-b4e3-8fa9bc7cbcae) with h1 = -2^63; its token must be Long.MAX_VALUE. Kept as a
// regression input: the defect coming back is a plain violation.
var minWitness = []byte{101, 60, 190, 251, 133, 236, 49, 17, 180, 227, 143, 169, 188, 124, 188, 174}

// ---- printers -------------------------------------------------------------------------------

func zlists(bs [][]byte) string {
	ss := make([]string, len(bs))
	for i, b := range bs {
		ss[i] = hlib.ZList(b)
	}
	return hlib.List(ss)
}
func strLists(ss []string) string {
	bs := make([][]byte, len(ss))
	for i, s := range ss {
		bs[i] = []byte(s)
	}
	return zlists(bs)
}
func optBytes(b []byte) string {
	if b == nil {
		return "None"
	}
	return hlib.Some(hlib.ZList(b))
}
func bigZ(n *big.Int) string { return hlib.ZStr(n.String()) }
func intsZ(xs []int) string {
	v := make([]int64, len(xs))
	for i, x := range xs {
		v[i] = int64(x)
	}
	return hlib.ZListI(v)
}

// zl prints a byte string as a Coq list; runs of 200 or more equal bytes become [repeat b (Z.to_nat n)]
// (a literal list of tens of thousands of elements overflows coqc's stack)
func zl(b []byte) string {
	if len(b) < 2000 {
		return hlib.ZList(b)
	}
	var parts []string
	start := 0
	flush := func(end int) {
		if end > start {
			parts = append(parts, hlib.ZList(b[start:end]))
		}
	}
	for i := 0; i < len(b); {
		j := i
		for j < len(b) && b[j] == b[i] {
			j++
		}
		if j-i >= 200 {
			flush(i)
			parts = append(parts, fmt.Sprintf("repeat %d (Z.to_nat %d)", b[i], j-i))
			start = j
		}
		i = j
	}
	flush(len(b))
	return "(" + strings.Join(parts, " ++ ") + ")"
}

type mres struct {
	b   []byte
	err bool
}

func (m mres) term() string {
	if m.err {
		return "MErr"
	}
	if m.b == nil {
		return "MNil"
	}
	return "(MOk " + zl(m.b) + ")"
}
func marshal(t gocql.TypeInfo, v interface{}) (m mres) {
	defer func() {
		if r := recover(); r != nil {
			m = mres{err: true}
		}
	}()
	b, err := gocql.Marshal(t, v)
	if err != nil {
		return mres{err: true}
	}
	return mres{b: b}
}

// outcome of a routing-key call, as the Coq constructor
func rkTerm(b []byte, err error, panicked bool) string {
	switch {
	case panicked:
		return "RKPanic"
	case err == gocql.ErrNoMetadata:
		return "RKErrNoMetadata"
	case err == gocql.ErrNoKeyspace:
		return "RKErrNoKeyspace"
	case err != nil:
		return "RKErr"
	case b == nil:
		return "RKNil"
	}
	return "(RKOk " + zl(b) + ")"
}

// ---- typed values for key columns -------------------------------------------------------------

func nt(t gocql.Type) gocql.TypeInfo { return gocql.NewNativeType(4, t, "") }

type typedVal struct {
	typ gocql.TypeInfo
	val interface{}
}

type badValue struct{ x int } // no CQL type accepts it: Marshal returns an error

func genTyped(r *hlib.Rng) typedVal {
	str := func() string {
		n := r.Intn(12)
		if r.Chance(10) {
			n = 0
		}
		b := r.Bytes(n)
		for i := range b {
			b[i] = "abcxyz019_-é\x80\xff"[int(b[i])%15]
		}
		return string(b)
	}
	switch r.Intn(18) {
	case 0:
		return typedVal{nt(gocql.TypeInt), int32(r.Pick(0, 1, -1, math.MaxInt32, math.MinInt32, int64(int32(r.U64()))))}
	case 1:
		return typedVal{nt(gocql.TypeBigInt), r.Pick(0, -1, math.MaxInt64, math.MinInt64, r.I64(), 128, 255)}
	case 2:
		return typedVal{nt(gocql.TypeVarchar), str()}
	case 3:
		return typedVal{nt(gocql.TypeText), str()}
	case 4:
		return typedVal{nt(gocql.TypeBlob), r.Bytes(r.Intn(40))}
	case 5:
		return typedVal{nt(gocql.TypeBoolean), r.Bool()}
	case 6:
		var u gocql.UUID
		copy(u[:], r.Bytes(16))
		return typedVal{nt(gocql.TypeUUID), u}
	case 7:
		return typedVal{nt(gocql.TypeTimeUUID), gocql.TimeUUIDWith(int64(r.U64()>>4), uint32(r.U64()), r.Bytes(6))}
	case 8:
		return typedVal{nt(gocql.TypeTimestamp), time.Unix(int64(r.Intn(2000000000)), int64(r.Intn(1000))*1000000).UTC()}
	case 9:
		if r.Bool() {
			return typedVal{nt(gocql.TypeInet), net.IP(r.Bytes(4))}
		}
		return typedVal{nt(gocql.TypeInet), net.IP(r.Bytes(16))}
	case 10:
		return typedVal{nt(gocql.TypeSmallInt), int16(r.U64())}
	case 11:
		return typedVal{nt(gocql.TypeTinyInt), int8(r.U64())}
	case 12:
		return typedVal{nt(gocql.TypeDouble), math.Float64frombits(r.U64())}
	case 13:
		return typedVal{nt(gocql.TypeFloat), math.Float32frombits(uint32(r.U64()))}
	case 14:
		v := new(big.Int).SetBytes(r.Bytes(r.Intn(12)))
		if r.Bool() {
			v.Neg(v)
		}
		return typedVal{nt(gocql.TypeVarint), v}
	case 15:
		l := make([]int, r.Intn(4))
		for i := range l {
			l[i] = int(int32(r.U64()))
		}
		return typedVal{gocql.CollectionType{NativeType: gocql.NewNativeType(4, gocql.TypeList, ""), Elem: nt(gocql.TypeInt)}, l}
	case 16:
		return typedVal{nt(gocql.TypeAscii), str()}
	default:
		return typedVal{nt(gocql.TypeDate), time.Unix(int64(r.Intn(2000000000)), 0).UTC()}
	}
}

// CompositeType reader written from Cassandra's layout: { u16 length, bytes, one byte } until exhausted
func compositeDecode(b []byte) ([][]byte, bool) {
	out := [][]byte{}
	for len(b) > 0 {
		if len(b) < 2 {
			return nil, false
		}
		n := int(b[0])<<8 | int(b[1])
		b = b[2:]
		if len(b) < n+1 {
			return nil, false
		}
		out = append(out, b[:n])
		b = b[n+1:]
	}
	return out, true
}

// the partition key Cassandra would hash for these serialized components
func cassPartitionKey(comps [][]byte) []byte {
	if len(comps) == 1 {
		return comps[0]
	}
	var buf []byte
	for _, c := range comps {
		buf = append(buf, byte(len(c)>>8), byte(len(c)))
		buf = append(buf, c...)
		buf = append(buf, 0)
	}
	return buf
}

type routingCall func() ([]byte, error)

func guarded(f routingCall) (b []byte, err error, panicked bool) {
	defer func() {
		if r := recover(); r != nil {
			b, err, panicked = nil, nil, true
		}
	}()
	b, err = f()
	return
}

// outputs handed to the caller must stay what they were: every returned routing key is kept (the very
// slice the driver returned, plus a private copy) and compared again at the end of the run, after
// thousands of further calls - a key that aliases driver-owned reusable memory shows up here.
type retained struct {
	idx        int
	live, copy []byte
}

var retainedKeys []retained

func retain(idx int, b []byte) {
	if len(b) > 0 {
		retainedKeys = append(retainedKeys, retained{idx, b, append([]byte(nil), b...)})
	}
}

func checkRetained(o *hlib.Out) {
	bad := 0
	for _, r := range retainedKeys {
		if !bytes.Equal(r.live, r.copy) {
			bad++
			if bad <= 3 {
				o.Violate(r.idx, "routing-key-mutated-after-return", "", fmt.Sprintf("routing key returned as %x now reads %x: later calls overwrote memory handed to the caller", r.copy, r.live), nil)
			}
		}
	}
	o.Extra["retained_keys_rechecked"] = len(retainedKeys)
}

func main() {
	selfTest()
	o := hlib.Init("C09")
	r := o.Rng
	o.Rule = "inputs: keys of every length 0..80 x byte classes {00,7f,80,ff,random} + random keys up to 300 bytes + a few KiB-sized keys + composite routing keys; " +
		"token strings across and beyond the int64 / 2^127 ranges incl. malformed; byte-string pairs sharing prefixes; prepared-statement metadata with 1..5 key columns of 18 CQL types " +
		"(v4 pk indexes and metadata-by-name, duplicates, missing columns, bad indexes, Marshal errors, nil values). " +
		"one Query / Batch handle through random sequences of Bind / RoutingKey / GetRoutingKey / token-aware Pick / Release+reuse / entry replacement, each answer compared with the key of the values bound at that time. " +
		"distinct = distinct Coq case term; non-trivial = key/string non-empty resp. a routing key with at least one component"
	n := 100 * o.Scale

	pm, e1 := gocql.VerifC09NewPartitioner("org.apache.cassandra.dht.Murmur3Partitioner")
	pr, e2 := gocql.VerifC09NewPartitioner("org.apache.cassandra.dht.RandomPartitioner")
	po, e3 := gocql.VerifC09NewPartitioner("org.apache.cassandra.dht.ByteOrderedPartitioner")
	if e1 != nil || e2 != nil || e3 != nil {
		// the standard partitioner class names are no longer recognised: every token-aware route is lost
		o.Violate(-1, "partitioner-select", "", fmt.Sprintf("standard partitioner names rejected: %v %v %v", e1, e2, e3), nil)
		checkRetained(o)
		o.Finish("From GocqlV Require Import Lib.Base C09.Model C09.Corr.", "C09.Corr.case", "C09.Corr.run")
		return
	}

	// ---------------------------------------------------------------- keys -> tokens
	doKey := func(kind string, key []byte) {
		h1 := gocql.VerifC09Murmur3H1(key)
		k, tok, _, _ := pm.Hash(key).Raw()
		idx := o.Case(kind, len(key) > 0, fmt.Sprintf("CMurmur %s %s %s", hlib.ZList(key), hlib.Z(h1), hlib.Z(tok)))
		want := cassH1(key)
		if k != 0 {
			o.Violate(idx, "murmur-token-kind", "", "murmur3Partitioner.Hash did not return a murmur3Token", hlib.ZList(key))
		}
		if h1 != want {
			o.Violate(idx, "murmur-h1-cassandra", "", fmt.Sprintf("Murmur3H1(%x) = %d, Cassandra's hash3_x64_128 h1 = %d", key, h1, want), fmt.Sprintf("%x", key))
		}
		if len(key) > 0 {
			if ct := cassMurmurToken(key); tok != ct {
				o.Violate(idx, "murmur-token-cassandra", "", fmt.Sprintf("murmur3Partitioner.Hash(%x) = %d, Cassandra's Murmur3Partitioner.getToken = %d", key, tok, ct), fmt.Sprintf("%x", key))
			}
		}
	}
	doRandom := func(kind string, key []byte) {
		sum := md5.Sum(key)
		k, _, _, tok := pr.Hash(key).Raw()
		if k != 2 {
			o.Violate(-1, "random-token-kind", "", "randomPartitioner.Hash did not return a randomToken", nil)
			return
		}
		idx := o.Case(kind, len(key) > 0, fmt.Sprintf("CRandom %s %s", hlib.ZList(sum[:]), bigZ(tok)))
		if want := cassRandomToken(sum); len(key) > 0 && tok.Cmp(want) != 0 {
			o.Violate(idx, "random-token-cassandra", "", fmt.Sprintf("randomPartitioner.Hash(%x) = %s, Cassandra's abs(BigInteger(md5)) = %s", key, tok, want), fmt.Sprintf("%x", key))
		}
	}
	doOrdered := func(kind string, key []byte) {
		k, _, tok, _ := po.Hash(key).Raw()
		if k != 1 {
			o.Violate(-1, "ordered-token-kind", "", "orderedPartitioner.Hash did not return an orderedToken", nil)
			return
		}
		idx := o.Case(kind, len(key) > 0, fmt.Sprintf("COrdered %s %s", hlib.ZList(key), hlib.ZList(tok)))
		if !bytes.Equal(tok, key) {
			o.Violate(idx, "ordered-token-is-key", "", fmt.Sprintf("orderedPartitioner.Hash(%x) = %x", key, tok), nil)
		}
	}
	classKey := func(l, class int) []byte {
		key := make([]byte, l)
		for i := range key {
			switch class {
			case 0:
				key[i] = 0x00
			case 1:
				key[i] = 0x7f
			case 2:
				key[i] = 0x80
			case 3:
				key[i] = 0xff
			default:
				key[i] = byte(r.U64())
			}
		}
		return key
	}

	// systematic: every tail length with 0..5 blocks x byte classes
	for l := 0; l <= 80; l++ {
		for class := 0; class < 5; class++ {
			doKey("murmur-systematic", classKey(l, class))
		}
	}
	// the Long.MIN_VALUE witness (regression) and the vectors quoted in the repository's tests
	doKey("murmur-fixed", minWitness)
	doKey("murmur-fixed", []byte("hello"))
	doKey("murmur-fixed", []byte("The quick brown fox jumps over the lazy dog."))
	// one high-bit byte at each tail position, after 0..2 blocks
	for blocks := 0; blocks <= 2; blocks++ {
		for pos := 0; pos < 15; pos++ {
			key := classKey(blocks*16+15, 1)
			key[blocks*16+pos] = byte(r.Pick(0x80, 0xff, 0x81, 0xc3))
			doKey("murmur-highbit-position", key[:blocks*16+pos+1+r.Intn(15-pos)])
		}
	}
	for i := 0; i < 2*n; i++ {
		l := r.Intn(300)
		if r.Chance(30) {
			l = r.Intn(40)
		}
		key := classKey(l, 4)
		if r.Chance(25) {
			for j := range key {
				key[j] |= 0x80
			}
		}
		doKey("murmur-random", key)
	}
	nlong := 2 + o.Scale/4
	for i := 0; i < nlong; i++ {
		doKey("murmur-long", classKey(1024+r.Intn(3072), 4))
	}
	for i := 0; i < n; i++ {
		key := classKey(r.Intn(64), 4)
		if i == 0 {
			key = []byte("test")
		}
		doRandom("random-hash", key)
		doOrdered("ordered-hash", key)
	}
	// digests with boundary leading bytes (the sign test is on sum[0]) are reached only through keys: search for them
	for _, want := range []byte{0x00, 0x7f, 0x80, 0x81, 0xff} {
		for c := 0; c < 100000; c++ {
			key := []byte(fmt.Sprintf("k%d-%d", want, c))
			if s := md5.Sum(key); s[0] == want {
				doRandom("random-hash-boundary", key)
				break
			}
		}
	}

	// ---------------------------------------------------------------- Less
	i64s := []int64{math.MinInt64, math.MinInt64 + 1, -1, 0, 1, 42, -42, math.MaxInt64 - 1, math.MaxInt64, 1 << 32, -(1 << 32)}
	pickI64 := func() int64 {
		if r.Chance(50) {
			return i64s[r.Intn(len(i64s))]
		}
		return r.I64()
	}
	for i := 0; i < n; i++ {
		a, b := pickI64(), pickI64()
		if r.Chance(15) {
			b = a
		}
		ta, tb := pm.ParseString(strconv.FormatInt(a, 10)), pm.ParseString(strconv.FormatInt(b, 10))
		_, ra, _, _ := ta.Raw()
		_, rb, _, _ := tb.Raw()
		out := ta.Less(tb)
		idx := o.Case("less-murmur", true, fmt.Sprintf("CLessM %s %s %s", hlib.Z(ra), hlib.Z(rb), hlib.Bool(out)))
		if out != (a < b) {
			o.Violate(idx, "murmur-token-order", "", fmt.Sprintf("token %d Less token %d = %v", a, b, out), nil)
		}
	}
	two127 := new(big.Int).Lsh(big.NewInt(1), 127)
	pickBig := func() *big.Int {
		switch r.Intn(6) {
		case 0:
			return new(big.Int).Set(two127)
		case 1:
			return big.NewInt(r.Pick(0, 1, 2, math.MaxInt64))
		case 2:
			return new(big.Int).Sub(two127, big.NewInt(int64(r.Intn(3))))
		case 3:
			return new(big.Int).SetBytes(r.Bytes(8 + r.Intn(2)))
		default:
			v := new(big.Int).SetBytes(r.Bytes(16))
			return v.Rsh(v, 1)
		}
	}
	for i := 0; i < n; i++ {
		a, b := pickBig(), pickBig()
		if r.Chance(15) {
			b = new(big.Int).Set(a)
		}
		ta, tb := pr.ParseString(a.String()), pr.ParseString(b.String())
		_, _, _, ra := ta.Raw()
		_, _, _, rb := tb.Raw()
		out := ta.Less(tb)
		idx := o.Case("less-random", true, fmt.Sprintf("CLessR %s %s %s", bigZ(ra), bigZ(rb), hlib.Bool(out)))
		if out != (a.Cmp(b) < 0) {
			o.Violate(idx, "random-token-order", "", fmt.Sprintf("token %s Less token %s = %v", a, b, out), nil)
		}
	}
	pickBytesPair := func() ([]byte, []byte) {
		a := classKey(r.Intn(12), 4)
		var b []byte
		switch r.Intn(7) {
		case 0:
			b = append([]byte{}, a...)
		case 1:
			b = append(append([]byte{}, a...), classKey(1+r.Intn(3), r.Intn(5))...)
		case 2:
			if len(a) > 0 {
				b = append([]byte{}, a[:r.Intn(len(a))]...)
			}
		case 3, 4:
			b = append([]byte{}, a...)
			if len(b) > 0 {
				p := r.Intn(len(b))
				b[p] = byte(r.Pick(0, 0x7f, 0x80, 0xff, int64(b[p])+1, int64(b[p])-1))
				if r.Bool() {
					b = append(b[:p+1], classKey(r.Intn(3), 4)...)
				}
			}
		default:
			b = classKey(r.Intn(12), r.Intn(5))
		}
		if r.Bool() {
			return b, a
		}
		return a, b
	}
	for i := 0; i < 2*n; i++ {
		a, b := pickBytesPair()
		out := po.Hash(a).Less(po.Hash(b))
		idx := o.Case("less-ordered", len(a)+len(b) > 0, fmt.Sprintf("CLessO %s %s %s", hlib.ZList(a), hlib.ZList(b), hlib.Bool(out)))
		if out != (bytes.Compare(a, b) < 0) {
			o.Violate(idx, "ordered-token-order", "", fmt.Sprintf("token %x Less token %x = %v; unsigned byte order says %v", a, b, out, bytes.Compare(a, b) < 0), nil)
		}
	}

	// ---------------------------------------------------------------- ParseString
	malformed := []string{"", "-", "+", "x", "12x", " 1", "1 ", "1_0", "0x10", "１２", "--1", "+-1", "1e3", "1.0", "-9223372036854775809x",
		"99999999999999999999999x", "18446744073709551616", "18446744073709551615", "-18446744073709551616", "9223372036854775808",
		"-9223372036854775808", "-9223372036854775809", "9223372036854775807", "+9223372036854775807", "+9223372036854775808",
		"000000000000000000000000000000000000017", "-0", "+0", "00", "\x00", "1\x00", "٣"}
	parseM := func(kind, s string) {
		t := pm.ParseString(s)
		_, v, _, _ := t.Raw()
		idx := o.Case(kind, s != "", fmt.Sprintf("CParseM %s %s", hlib.ZList([]byte(s)), hlib.Z(v)))
		// tokens as Cassandra prints them (Long.toString): must parse to the same number and print back
		if want, err := strconv.ParseInt(s, 10, 64); err == nil && strconv.FormatInt(want, 10) == s {
			if v != want || t.String() != s {
				o.Violate(idx, "murmur-parse-roundtrip", "", fmt.Sprintf("ParseString(%q) = %d (prints %q)", s, v, t.String()), s)
			}
		} else if bi, ok := new(big.Int).SetString(s, 10); ok && bi.IsInt64() && v != bi.Int64() {
			o.Violate(idx, "murmur-parse-value", "", fmt.Sprintf("ParseString(%q) = %d", s, v), s)
		}
	}
	for _, s := range malformed {
		parseM("parse-murmur-malformed", s)
	}
	for i := 0; i < n; i++ {
		v := pickI64()
		s := strconv.FormatInt(v, 10)
		switch r.Intn(8) {
		case 0:
			if v >= 0 {
				s = "+" + s
			}
		case 1:
			if v >= 0 {
				s = "00" + s
			} else {
				s = "-0" + s[1:]
			}
		case 2: // beyond the range: clamps
			s = new(big.Int).Add(big.NewInt(v), new(big.Int).Lsh(big.NewInt(int64(r.Pick(1, -1))), uint(63+r.Intn(3)))).String()
		case 3:
			b := []byte(s)
			if len(b) > 0 {
				b[r.Intn(len(b))] = " /:a-+_"[r.Intn(7)]
			}
			s = string(b)
		}
		parseM("parse-murmur", s)
	}
	parseR := func(kind, s string) {
		t := pr.ParseString(s)
		_, _, _, v := t.Raw()
		idx := o.Case(kind, true, fmt.Sprintf("CParseR %s %s", hlib.ZList([]byte(s)), bigZ(v)))
		want, ok := new(big.Int).SetString(s, 10)
		if !ok || strings.ContainsAny(s, "_") {
			panic("harness: malformed random token string generated: " + s)
		}
		if v.Cmp(want) != 0 || (want.String() == s && t.String() != s) {
			o.Violate(idx, "random-parse-roundtrip", "", fmt.Sprintf("ParseString(%q) = %s", s, v), s)
		}
	}
	for i := 0; i < n; i++ {
		v := pickBig()
		s := v.String()
		switch r.Intn(8) {
		case 0:
			s = "+" + s
		case 1:
			s = "000" + s
		case 2:
			s = "-" + s
		case 3:
			s = new(big.Int).Lsh(v, uint(r.Intn(80))).String()
		}
		parseR("parse-random", s)
	}
	for i := 0; i < n/2; i++ {
		s := string(classKey(r.Intn(20), r.Intn(5)))
		_, _, v, _ := po.ParseString(s).Raw()
		idx := o.Case("parse-ordered", s != "", fmt.Sprintf("CParseO %s %s", hlib.ZList([]byte(s)), hlib.ZList(v)))
		if !bytes.Equal(v, []byte(s)) {
			o.Violate(idx, "ordered-parse", "", fmt.Sprintf("ParseString(%q) = %x", s, v), nil)
		}
	}

	// ---------------------------------------------------------------- partitioner selection, ring order
	names := []struct {
		s    string
		want int // 0,1,2; -1 = must be rejected; -2 = no expectation
	}{
		{"org.apache.cassandra.dht.Murmur3Partitioner", 0}, {"Murmur3Partitioner", 0}, {"org.apache.cassandra.dht.RandomPartitioner", 2},
		{"RandomPartitioner", 2}, {"org.apache.cassandra.dht.ByteOrderedPartitioner", 1}, {"OrderedPartitioner", 1},
		{"org.apache.cassandra.dht.OrderPreservingPartitioner", -1}, {"", -1}, {"Murmur3Partitioner ", -1}, {"murmur3partitioner", -1},
		{"org.apache.cassandra.dht.LocalPartitioner", -1}, {"Murmur3", -1}, {"xRandomPartitionerMurmur3Partitioner", 0},
		{"Murmur3PartitionerRandomPartitioner", 2}, {"com.example.MyOrderedPartitioner", -2},
	}
	for _, nm := range names {
		p, err := gocql.VerifC09NewPartitioner(nm.s)
		out, got := "None", -1
		if err == nil {
			got, _, _, _ = p.Hash([]byte("k")).Raw()
			out = hlib.Some(hlib.Z(int64(got)))
		}
		idx := o.Case("select", true, fmt.Sprintf("CSelect %s %s %s %s", hlib.Bool(strings.HasSuffix(nm.s, "Murmur3Partitioner")),
			hlib.Bool(strings.HasSuffix(nm.s, "OrderedPartitioner")), hlib.Bool(strings.HasSuffix(nm.s, "RandomPartitioner")), out))
		if nm.want != -2 && got != nm.want {
			o.Violate(idx, "partitioner-select", "", fmt.Sprintf("partitioner %q selected kind %d, want %d", nm.s, got, nm.want), nm.s)
		}
	}
	for i := 0; i < n/4+1; i++ {
		cnt := 2 + r.Intn(9)
		// Murmur3
		toks := make([]string, cnt)
		vals := make([]*big.Int, cnt)
		for j := range toks {
			v := pickI64()
			if j > 0 && r.Chance(10) {
				v, _ = strconv.ParseInt(toks[j-1], 10, 64)
			}
			toks[j] = strconv.FormatInt(v, 10)
			vals[j] = big.NewInt(v)
		}
		ringCase(o, "CRingM", "Murmur3Partitioner", toks, vals)
		// Random
		for j := range toks {
			v := pickBig()
			toks[j] = v.String()
			vals[j] = v
		}
		ringCase(o, "CRingR", "RandomPartitioner", toks, vals)
		// Ordered: raw strings
		bs := make([][]byte, cnt)
		for j := range toks {
			bs[j] = classKey(r.Intn(6), 4)
			if j > 0 && r.Chance(30) {
				bs[j] = append(append([]byte{}, bs[j-1]...), classKey(r.Intn(2), 4)...)
			}
			toks[j] = string(bs[j])
		}
		out, err := gocql.VerifC09TokenOrder("ByteOrderedPartitioner", toks)
		if err != nil {
			o.Violate(-1, "ring-order", "", "newTokenRing(ByteOrderedPartitioner) failed: "+err.Error(), nil)
			continue
		}
		idx := o.Case("ring-ordered", true, fmt.Sprintf("CRingO %s %s", strLists(toks), strLists(out)))
		sorted := append([]string{}, toks...)
		sort.Slice(sorted, func(a, b int) bool { return bytes.Compare([]byte(sorted[a]), []byte(sorted[b])) < 0 })
		if strings.Join(sorted, "\x00|") != strings.Join(out, "\x00|") {
			o.Violate(idx, "ring-order", "", fmt.Sprintf("ordered ring %q sorted to %q", toks, out), nil)
		}
	}

	// ---------------------------------------------------------------- createRoutingKey (constructed info)
	for i := 0; i < 3*n; i++ {
		nvals := r.Intn(7)
		vals := make([]interface{}, nvals)
		tvs := make([]typedVal, nvals)
		for j := range vals {
			tvs[j] = genTyped(r)
			vals[j] = tvs[j].val
			if r.Chance(6) {
				vals[j] = nil
			} else if r.Chance(4) {
				vals[j] = badValue{1}
			}
		}
		if i%400 == 7 { // a component longer than 65535 bytes: the length prefix wraps
			nvals = 2
			vals = []interface{}{make([]byte, 65536+r.Intn(300)), int32(7)}
			tvs = []typedVal{{nt(gocql.TypeBlob), nil}, {nt(gocql.TypeInt), nil}}
		}
		isNil := r.Chance(4)
		ncomp := 1 + r.Intn(5)
		if r.Chance(5) {
			ncomp = 0
		}
		if i%400 == 7 {
			ncomp = 2
		}
		idxs := make([]int, ncomp)
		typs := make([]gocql.TypeInfo, ncomp)
		comps := make([]string, ncomp)
		var serial [][]byte
		clean := !isNil
		for c := 0; c < ncomp; c++ {
			ix := 0
			if nvals > 0 {
				ix = r.Intn(nvals)
			}
			if i%400 == 7 {
				ix = c
			}
			if r.Chance(4) && i%400 != 7 {
				ix = int(r.Pick(-1, int64(nvals), int64(nvals)+3))
			}
			idxs[c] = ix
			m := mres{err: true}
			if ix >= 0 && ix < nvals {
				typs[c] = tvs[ix].typ
				if r.Chance(10) && i%400 != 7 { // a type that is not the value's own
					typs[c] = genTyped(r).typ
				}
				m = marshal(typs[c], vals[ix])
			} else {
				typs[c] = nt(gocql.TypeInt)
				clean = false
			}
			if m.err {
				clean = false
			}
			serial = append(serial, m.b)
			comps[c] = hlib.Pair(hlib.Z(int64(ix)), m.term())
		}
		b, err, pan := guarded(func() ([]byte, error) { return gocql.VerifC09CreateRoutingKey(isNil, idxs, typs, vals) })
		info := "None"
		if !isNil {
			info = hlib.Some(hlib.List(comps))
		}
		idx := o.Case("create-routing-key", !isNil && ncomp > 0, fmt.Sprintf("CCreateRK %s %s %s", info, hlib.Z(int64(nvals)), rkTerm(b, err, pan)))
		retain(idx, b)
		if clean {
			routingMonitor(o, idx, serial, b, err, pan)
		}
	}

	// ---------------------------------------------------------------- Query / Batch GetRoutingKey
	for i := 0; i < 3*n; i++ {
		sessionCase(o, i)
	}

	// ---------------------------------------------------------------- column-name alphabets (systematic, seed-independent)
	nameVariantCases(o, pm)

	// ---------------------------------------------------------------- malformed PREPARED metadata (systematic)
	malformedPreparedCases(o)

	// ---------------------------------------------------------------- one handle, many calls
	for i := 0; i < n; i++ {
		querySeqCase(o, i)
		if i%2 == 0 {
			batchSeqCase(o, i)
		}
	}

	// ---------------------------------------------------------------- monitor-only sweeps (no Coq cases)
	if o.Only < 0 {
		// every key of one and two bytes, and every byte value at every tail position after 0..2 full blocks
		bad, cnt := 0, 0
		chk := func(key []byte) {
			cnt++
			if h := gocql.VerifC09Murmur3H1(key); h != cassH1(key) && bad < 3 {
				bad++
				o.Violate(-1, "murmur-h1-cassandra", "", fmt.Sprintf("Murmur3H1(%x) = %d, Cassandra's hash3_x64_128 h1 = %d", key, h, cassH1(key)), fmt.Sprintf("%x", key))
			}
		}
		for a := 0; a < 256; a++ {
			chk([]byte{byte(a)})
			for b := 0; b < 256; b++ {
				chk([]byte{byte(a), byte(b)})
			}
		}
		for blocks := 0; blocks <= 2; blocks++ {
			for tl := 1; tl <= 15; tl++ {
				for pos := 0; pos < tl; pos++ {
					key := classKey(blocks*16+tl, 4)
					for v := 0; v < 256; v++ {
						key[blocks*16+pos] = byte(v)
						chk(key)
					}
				}
			}
		}
		o.Extra["monitor_only_small_key_sweep"] = cnt
		o.Count("murmur-sweep-monitor-only")
	}

	// ---------------------------------------------------------------- search mode: monitors only, larger sweep
	if o.Search {
		cnt := 3000000
		for i := 0; i < cnt; i++ {
			l := r.Intn(96)
			key := classKey(l, 4)
			if i%3 == 0 {
				for j := range key {
					key[j] |= 0x80
				}
			}
			if h := gocql.VerifC09Murmur3H1(key); h != cassH1(key) {
				o.Violate(-1, "murmur-h1-cassandra", "", fmt.Sprintf("Murmur3H1(%x) = %d, Cassandra's hash3_x64_128 h1 = %d", key, h, cassH1(key)), fmt.Sprintf("%x", key))
				break
			}
			if l > 0 && i%8 == 0 {
				_, _, _, tok := pr.Hash(key).Raw()
				if want := cassRandomToken(md5.Sum(key)); tok.Cmp(want) != 0 {
					o.Violate(-1, "random-token-cassandra", "", fmt.Sprintf("randomPartitioner.Hash(%x) = %s want %s", key, tok, want), fmt.Sprintf("%x", key))
					break
				}
			}
		}
		o.Count("search-keys")
	}

	checkRetained(o)
	o.Finish("From GocqlV Require Import Lib.Base C09.Model C09.Corr.", "C09.Corr.case", "C09.Corr.run")
}

func ringCase(o *hlib.Out, ctor, part string, toks []string, vals []*big.Int) {
	out, err := gocql.VerifC09TokenOrder(part, toks)
	if err != nil {
		o.Violate(-1, "ring-order", "", "newTokenRing("+part+") failed: "+err.Error(), nil)
		return
	}
	outZ := make([]string, len(out))
	for i, s := range out {
		outZ[i] = hlib.ZStr(s)
	}
	idx := o.Case("ring-"+part, true, fmt.Sprintf("%s %s %s", ctor, strLists(toks), hlib.List(outZ)))
	sorted := append([]*big.Int{}, vals...)
	sort.Slice(sorted, func(a, b int) bool { return sorted[a].Cmp(sorted[b]) < 0 })
	ok := len(sorted) == len(out)
	for i := 0; ok && i < len(out); i++ {
		ok = sorted[i].String() == out[i]
	}
	if !ok {
		o.Violate(idx, "ring-order", "", fmt.Sprintf("%s ring %v sorted to %v", part, toks, out), nil)
	}
}

// layout monitor: with every component serialized without error, the key must be Cassandra's
func routingMonitor(o *hlib.Out, idx int, serial [][]byte, b []byte, err error, pan bool) {
	if pan || err != nil {
		o.Violate(idx, "routing-key-layout", "", fmt.Sprintf("routing key of well-formed components failed: err=%v panic=%v", err, pan), nil)
		return
	}
	for _, c := range serial {
		if len(c) > 65535 {
			return // Cassandra rejects such a key; no layout to compare with
		}
	}
	want := cassPartitionKey(serial)
	if !bytes.Equal(b, want) {
		o.Violate(idx, "routing-key-layout", "", fmt.Sprintf("routing key %x, Cassandra's partition key for these components is %x", b, want), nil)
		return
	}
	if len(serial) != 1 {
		dec, ok := compositeDecode(b)
		if !ok || len(dec) != len(serial) {
			o.Violate(idx, "routing-key-decode", "", fmt.Sprintf("composite key %x does not split into %d components", b, len(serial)), nil)
			return
		}
		for i := range dec {
			if !bytes.Equal(dec[i], serial[i]) {
				o.Violate(idx, "routing-key-decode", "", fmt.Sprintf("component %d of %x is %x, want %x", i, b, dec[i], serial[i]), nil)
			}
		}
	}
}

var errBind = errors.New("bind")

// one generated prepared statement + table metadata, exercised through Query and Batch
func sessionCase(o *hlib.Out, i int) {
	r := o.Rng
	npk := 1 + r.Intn(5)
	pkNames := make([]string, npk)
	pkTV := make([]typedVal, npk)
	for k := range pkNames {
		pkNames[k] = fmt.Sprintf("pk%d", k)
		pkTV[k] = genTyped(r)
	}
	if r.Chance(4) {
		pkNames[npk-1] = "pk0" // two partition key columns of one name cannot exist; harmless to the code under test
		if npk == 1 {
			pkNames[0] = "pk0"
		}
	}
	// bound columns: the key columns in some order, other columns, duplicates, possibly one key column missing
	type bcol struct {
		name string
		tv   typedVal
	}
	var cols []bcol
	for k := range pkNames {
		cols = append(cols, bcol{pkNames[k], pkTV[k]})
	}
	missing := r.Chance(8)
	if missing {
		cols = cols[:len(cols)-1]
	}
	for k := r.Intn(4); k > 0; k-- {
		cols = append(cols, bcol{fmt.Sprintf("c%d", k), genTyped(r)})
	}
	if r.Chance(20) && len(cols) > 0 { // the same column bound twice (a = ? AND a = ?), with another value
		d := cols[r.Intn(len(cols))]
		d.tv.val = genTyped(r).val
		cols = append(cols, d)
	}
	for k := len(cols) - 1; k > 0; k-- { // shuffle
		j := r.Intn(k + 1)
		cols[k], cols[j] = cols[j], cols[k]
	}
	colCount := len(cols)
	ks := "ks"
	ks0Empty := false
	if r.Chance(3) {
		ks, ks0Empty = "", true
	}
	cinfo := make([]gocql.ColumnInfo, len(cols))
	vals := make([]interface{}, len(cols))
	names := make([]string, len(cols))
	for k, c := range cols {
		cinfo[k] = gocql.ColumnInfo{Keyspace: ks, Table: "t", Name: c.name, TypeInfo: c.tv.typ}
		vals[k] = c.tv.val
		names[k] = c.name
		if r.Chance(3) {
			vals[k] = nil
		} else if r.Chance(3) {
			vals[k] = badValue{2}
		}
	}
	// protocol v4 partition-key indexes, or none (metadata path)
	var pkey []int
	useV4 := r.Bool()
	if useV4 && colCount > 0 {
		for _, pn := range pkNames {
			for k, c := range cols {
				if c.name == pn {
					pkey = append(pkey, k)
					break
				}
			}
		}
		if r.Chance(5) && len(pkey) > 0 {
			pkey[r.Intn(len(pkey))] = int(r.Pick(-1, int64(colCount), int64(colCount)+2))
		}
	}
	tableKnown := !r.Chance(5)
	nvals := len(vals)
	if r.Chance(6) && nvals > 0 {
		nvals = r.Intn(nvals)
		vals = vals[:nvals]
	}
	if colCount == 0 {
		cinfo = nil
	}
	stmt := fmt.Sprintf("SELECT * FROM t WHERE stmt%d = ?", i)
	tm := &gocql.TableMetadata{Keyspace: "ks", Name: "t"}
	for k, pn := range pkNames {
		tm.PartitionKey = append(tm.PartitionKey, &gocql.ColumnMetadata{Keyspace: "ks", Table: "t", Name: pn, ComponentIndex: k, Type: pkTV[k].typ})
	}
	km := &gocql.KeyspaceMetadata{Name: "ks", Tables: map[string]*gocql.TableMetadata{}}
	if tableKnown {
		km.Tables["t"] = tm
	}
	mk := func() *gocql.Session {
		other := []gocql.ColumnInfo{{Keyspace: "ks", Table: "t", Name: "x", TypeInfo: nt(gocql.TypeInt)}, {Keyspace: "ks", Table: "t", Name: "y", TypeInfo: nt(gocql.TypeInt)},
			{Keyspace: "ks", Table: "t", Name: "z", TypeInfo: nt(gocql.TypeInt)}}
		return gocql.VerifC09NewSession([]gocql.VerifC09Prepared{{Stmt: stmt, ColCount: colCount, Columns: cinfo, PKeyColumns: pkey, Keyspace: "ks", Table: "t"},
			{Stmt: "INSERT other", ColCount: 3, Columns: other, PKeyColumns: []int{0}, Keyspace: "ks", Table: "t"}},
			[]*gocql.KeyspaceMetadata{km})
	}
	per := make([]string, len(cols))
	perRes := make([]mres, len(cols))
	for k := range cols {
		perRes[k] = mres{err: true}
		if k < nvals {
			perRes[k] = marshal(cinfo[k].TypeInfo, vals[k])
		}
		per[k] = perRes[k].term()
	}
	tpk := "None"
	if tableKnown {
		tpk = hlib.Some(strLists(pkNames))
	}
	var explicit []byte
	if r.Chance(8) {
		explicit = r.Bytes(r.Intn(6)) // may be empty but not nil
	}
	binding := r.Chance(6)
	common := fmt.Sprintf("%s %s %s %s %s %s %s", hlib.Z(int64(colCount)), strLists(names), intsZ(pkey), hlib.Bool(ks0Empty), tpk, hlib.List(per), hlib.Z(int64(nvals)))

	// expected Cassandra partition key when everything is regular: every key column bound, values serialize
	var serial [][]byte
	regular := !missing && tableKnown && !ks0Empty && explicit == nil && !binding && nvals == len(cols) && colCount > 0
	if regular {
		seen := map[string]bool{}
		for _, pn := range pkNames {
			if seen[pn] {
				regular = false
			}
			seen[pn] = true
		}
		for k := range pkey {
			if pkey[k] < 0 || pkey[k] >= colCount {
				regular = false
			}
		}
	}
	if regular {
		for _, pn := range pkNames {
			for k, c := range cols {
				if c.name == pn { // the first bound occurrence
					if perRes[k].err {
						regular = false
					}
					serial = append(serial, perRes[k].b)
					break
				}
			}
		}
	}

	// Query
	{
		s := mk()
		var q *gocql.Query
		if binding {
			q = s.Bind(stmt, func(*gocql.QueryInfo) ([]interface{}, error) { return nil, errBind })
		} else {
			q = s.Query(stmt, vals...)
		}
		if explicit != nil {
			q.RoutingKey(explicit)
		}
		b, err, pan := guarded(q.GetRoutingKey)
		idx := o.Case("query-get-routing-key", colCount > 0, fmt.Sprintf("CGetRK %s %s %s %s", optBytes(explicit), hlib.Bool(binding), common, rkTerm(b, err, pan)))
		retain(idx, b)
		if regular {
			if len(serial) == 1 && serial[0] == nil && b == nil && err == nil && !pan {
				// a nil value for a single key column: no routing key; nothing to compare
			} else {
				routingMonitor(o, idx, serial, b, err, pan)
			}
		}
		if !pan { // the cached path must agree with the first answer
			b2, err2, pan2 := guarded(q.GetRoutingKey)
			if pan2 || !bytes.Equal(b, b2) || (err == nil) != (err2 == nil) {
				o.Violate(idx, "routing-key-stable", "", fmt.Sprintf("second GetRoutingKey returned %x,%v (panic %v) after %x,%v", b2, err2, pan2, b, err), nil)
			}
		}
	}
	// Batch
	{
		s := mk()
		bt := s.NewBatch(gocql.LoggedBatch)
		hasEntries := !r.Chance(5)
		if hasEntries {
			if binding {
				bt.Bind(stmt, func(*gocql.QueryInfo) ([]interface{}, error) { return nil, errBind })
			} else {
				bt.Query(stmt, vals...)
			}
			if r.Bool() { // later entries do not matter
				bt.Query("INSERT other", 1, 2, 3)
			}
		}
		if explicit != nil {
			gocql.VerifC09BatchSetRoutingKey(bt, explicit)
		}
		b, err, pan := guarded(bt.GetRoutingKey)
		idx := o.Case("batch-get-routing-key", colCount > 0, fmt.Sprintf("CBatchRK %s %s %s %s %s", optBytes(explicit), hlib.Bool(hasEntries), hlib.Bool(binding), common, rkTerm(b, err, pan)))
		retain(idx, b)
		if regular && hasEntries {
			if len(serial) == 1 && serial[0] == nil && b == nil && err == nil && !pan {
			} else {
				routingMonitor(o, idx, serial, b, err, pan)
			}
		}
	}
}

// ---- handle reuse: the same *Query / *Batch through several Bind / RoutingKey / GetRoutingKey / Pick / Release
// calls in every order; every GetRoutingKey result is compared with the key of the values bound AT THAT TIME.

// a value of a given CQL type: redraw until the generator yields that type
func genOfType(r *hlib.Rng, t gocql.TypeInfo) interface{} {
	for k := 0; k < 600; k++ {
		if tv := genTyped(r); tv.typ.Type() == t.Type() {
			return tv.val
		}
	}
	return nil
}

type seqTable struct {
	stmt    string
	names   []string
	cinfo   []gocql.ColumnInfo
	pkNames []string
	pkey    []int
	static  string // the five leading arguments of CQuerySeq / CBatchSeq
}

func newSeqTable(o *hlib.Out, tag string, i int) (*seqTable, *gocql.Session) {
	r := o.Rng
	t := &seqTable{stmt: fmt.Sprintf("SELECT * FROM t WHERE %s%d = ?", tag, i)}
	npk := 1 + r.Intn(3)
	type bcol struct {
		name string
		typ  gocql.TypeInfo
	}
	var cols []bcol
	tm := &gocql.TableMetadata{Keyspace: "ks", Name: "t"}
	for k := 0; k < npk; k++ {
		c := bcol{fmt.Sprintf("pk%d", k), genTyped(r).typ}
		cols = append(cols, c)
		t.pkNames = append(t.pkNames, c.name)
		tm.PartitionKey = append(tm.PartitionKey, &gocql.ColumnMetadata{Keyspace: "ks", Table: "t", Name: c.name, ComponentIndex: k, Type: c.typ})
	}
	for k := r.Intn(3); k > 0; k-- {
		cols = append(cols, bcol{fmt.Sprintf("c%d", k), genTyped(r).typ})
	}
	for k := len(cols) - 1; k > 0; k-- {
		j := r.Intn(k + 1)
		cols[k], cols[j] = cols[j], cols[k]
	}
	for _, c := range cols {
		t.names = append(t.names, c.name)
		t.cinfo = append(t.cinfo, gocql.ColumnInfo{Keyspace: "ks", Table: "t", Name: c.name, TypeInfo: c.typ})
	}
	if r.Bool() { // protocol v4 pk indexes; otherwise the metadata path
		for _, pn := range t.pkNames {
			for k, c := range cols {
				if c.name == pn {
					t.pkey = append(t.pkey, k)
				}
			}
		}
	}
	km := &gocql.KeyspaceMetadata{Name: "ks", Tables: map[string]*gocql.TableMetadata{"t": tm}}
	other := []gocql.ColumnInfo{{Keyspace: "ks", Table: "t", Name: "x", TypeInfo: nt(gocql.TypeInt)}, {Keyspace: "ks", Table: "t", Name: "y", TypeInfo: nt(gocql.TypeInt)},
		{Keyspace: "ks", Table: "t", Name: "z", TypeInfo: nt(gocql.TypeInt)}}
	s := gocql.VerifC09NewSession([]gocql.VerifC09Prepared{{Stmt: t.stmt, ColCount: len(cols), Columns: t.cinfo, PKeyColumns: t.pkey, Keyspace: "ks", Table: "t"},
		{Stmt: "INSERT other", ColCount: 3, Columns: other, PKeyColumns: []int{0}, Keyspace: "ks", Table: "t"}},
		[]*gocql.KeyspaceMetadata{km})
	t.static = fmt.Sprintf("%s %s %s false %s", hlib.Z(int64(len(cols))), strLists(t.names), intsZ(t.pkey), hlib.Some(strLists(t.pkNames)))
	return t, s
}

func (t *seqTable) genVals(r *hlib.Rng) []interface{} {
	vals := make([]interface{}, len(t.cinfo))
	for k, c := range t.cinfo {
		vals[k] = genOfType(r, c.TypeInfo)
	}
	if r.Chance(5) {
		vals[r.Intn(len(vals))] = nil
	} else if r.Chance(4) {
		vals[r.Intn(len(vals))] = badValue{3}
	}
	if r.Chance(4) {
		vals = vals[:r.Intn(len(vals))]
	}
	return vals
}

func (t *seqTable) per(vals []interface{}) []mres {
	per := make([]mres, len(t.cinfo))
	for k := range per {
		per[k] = mres{err: true}
		if k < len(vals) {
			per[k] = marshal(t.cinfo[k].TypeInfo, vals[k])
		}
	}
	return per
}

func perTerm(per []mres) string {
	ss := make([]string, len(per))
	for k, m := range per {
		ss[k] = m.term()
	}
	return hlib.List(ss)
}

// the serialized partition-key components for these values, when every one is bound and serializes
func (t *seqTable) expected(vals []interface{}) ([][]byte, bool) {
	if len(vals) != len(t.cinfo) {
		return nil, false
	}
	per := t.per(vals)
	var serial [][]byte
	for _, pn := range t.pkNames {
		for k, nm := range t.names {
			if nm == pn {
				if per[k].err {
					return nil, false
				}
				serial = append(serial, per[k].b)
				break
			}
		}
	}
	return serial, true
}

// what the handle must answer now
func seqMonitor(o *hlib.Out, idx int, what string, t *seqTable, explicit []byte, skip bool, vals []interface{}, b []byte, err error, pan bool) {
	switch {
	case explicit != nil:
		if pan || err != nil || !bytes.Equal(b, explicit) || b == nil {
			o.Violate(idx, "routing-key-explicit", "", fmt.Sprintf("%s: explicit routing key %x set, GetRoutingKey returned %x,%v (panic %v)", what, explicit, b, err, pan), nil)
		}
	case skip:
		if pan || err != nil || b != nil {
			o.Violate(idx, "routing-key-binding", "", fmt.Sprintf("%s: binding callback without values, GetRoutingKey returned %x,%v (panic %v)", what, b, err, pan), nil)
		}
	default:
		if serial, ok := t.expected(vals); ok {
			if len(serial) == 1 && serial[0] == nil && b == nil && err == nil && !pan {
				return
			}
			n0 := len(o.Violations)
			routingMonitor(o, idx, serial, b, err, pan)
			for k := n0; k < len(o.Violations); k++ {
				o.Violations[k].Kind = "routing-key-current-values"
				o.Violations[k].Detail = what + " (key must be built from the values bound at the time of the call): " + o.Violations[k].Detail
			}
		}
	}
}

var tokenAware = gocql.TokenAwareHostPolicy(gocql.RoundRobinHostPolicy())

func querySeqCase(o *hlib.Out, i int) {
	r := o.Rng
	t, s := newSeqTable(o, "qseq", i)
	idx := o.NCases()
	bindFn := func(*gocql.QueryInfo) ([]interface{}, error) { return nil, errBind }
	var q *gocql.Query
	var explicit []byte
	var hasBinding bool
	var vals []interface{}
	fresh := func() {
		explicit = nil
		hasBinding = r.Chance(12)
		if hasBinding {
			vals = nil
			q = s.Bind(t.stmt, bindFn)
		} else {
			vals = t.genVals(r)
			q = s.Query(t.stmt, vals...)
		}
	}
	fresh()
	init := fmt.Sprintf("(mkq None %s %s %s)", hlib.Bool(hasBinding), perTerm(t.per(vals)), hlib.Z(int64(len(vals))))
	var ops, outs []string
	step := 0
	get := func() {
		b, err, pan := guarded(q.GetRoutingKey)
		ops = append(ops, "QGet")
		outs = append(outs, rkTerm(b, err, pan))
		retain(idx, b)
		seqMonitor(o, idx, fmt.Sprintf("Query handle, call %d of %v", step, ops), t, explicit, hasBinding && len(vals) == 0, vals, b, err, pan)
	}
	bind := func() {
		switch {
		case r.Chance(10):
			vals = nil
		case r.Chance(15) && vals != nil:
			vals = append([]interface{}{}, vals...) // the same values again
		default:
			vals = t.genVals(r)
		}
		q.Bind(vals...)
		ops = append(ops, fmt.Sprintf("(QBind %s %s)", perTerm(t.per(vals)), hlib.Z(int64(len(vals)))))
	}
	nops := 3 + r.Intn(8)
	for step = 0; step < nops; step++ {
		switch c := r.Intn(100); {
		case c < 35:
			get()
		case c < 65:
			bind()
		case c < 75:
			explicit = nil
			if r.Bool() {
				explicit = r.Bytes(1 + r.Intn(5))
			}
			q.RoutingKey(explicit)
			ops = append(ops, "(QRoutingKey "+optBytes(explicit)+")")
		case c < 90:
			func() {
				defer func() { recover() }()
				tokenAware.Pick(q)
			}()
			ops = append(ops, "QPick")
		default:
			q.Release()
			fresh()
			ops = append(ops, fmt.Sprintf("(QFresh %s %s %s)", hlib.Bool(hasBinding), perTerm(t.per(vals)), hlib.Z(int64(len(vals)))))
		}
	}
	// always: ask, bind other values, ask again
	get()
	bind()
	step++
	get()
	if got := o.Case("query-handle-sequence", true, fmt.Sprintf("CQuerySeq %s %s %s %s", t.static, init, hlib.List(ops), hlib.List(outs))); got != idx {
		panic("harness: case index drifted")
	}
}

func batchSeqCase(o *hlib.Out, i int) {
	r := o.Rng
	t, s := newSeqTable(o, "bseq", i)
	idx := o.NCases()
	bt := s.NewBatch(gocql.LoggedBatch)
	bindFn := func(*gocql.QueryInfo) ([]interface{}, error) { return nil, errBind }
	var explicit []byte
	var vals []interface{}
	hasFirst, firstBinding := false, false
	var ops, outs []string
	step := 0
	get := func() {
		b, err, pan := guarded(bt.GetRoutingKey)
		ops = append(ops, "BGet")
		outs = append(outs, rkTerm(b, err, pan))
		retain(idx, b)
		what := fmt.Sprintf("Batch handle, call %d of %v", step, ops)
		if !hasFirst && explicit == nil {
			if pan || err != nil || b != nil {
				o.Violate(idx, "routing-key-empty-batch", "", fmt.Sprintf("%s: empty batch returned %x,%v (panic %v)", what, b, err, pan), nil)
			}
			return
		}
		seqMonitor(o, idx, what, t, explicit, firstBinding, vals, b, err, pan)
	}
	setFirst := func() {
		nb := r.Chance(10)
		nv := t.genVals(r)
		switch {
		case !hasFirst && nb:
			bt.Bind(t.stmt, bindFn)
			nv = nil
		case !hasFirst:
			bt.Query(t.stmt, nv...)
		case !firstBinding && r.Bool():
			bt.Entries[0].Args = nv // in place
			nb = false
		default:
			bt.Entries[0] = gocql.BatchEntry{Stmt: t.stmt, Args: nv}
			nb = false
		}
		hasFirst, firstBinding, vals = true, nb, nv
		ops = append(ops, fmt.Sprintf("(BSetFirst %s %s %s)", hlib.Bool(nb), perTerm(t.per(nv)), hlib.Z(int64(len(nv)))))
	}
	nops := 3 + r.Intn(7)
	for step = 0; step < nops; step++ {
		switch c := r.Intn(100); {
		case c < 40:
			get()
		case c < 70:
			setFirst()
		case c < 85 && hasFirst:
			bt.Query("INSERT other", 1, 2, 3)
			ops = append(ops, "BAppend")
		case c < 93:
			explicit = nil
			if r.Bool() {
				explicit = r.Bytes(1 + r.Intn(5))
			}
			gocql.VerifC09BatchSetRoutingKey(bt, explicit)
			ops = append(ops, "(BExplicit "+optBytes(explicit)+")")
		default:
			get()
		}
	}
	get()
	setFirst()
	step++
	get()
	if got := o.Case("batch-handle-sequence", true, fmt.Sprintf("CBatchSeq %s %s %s", t.static, hlib.List(ops), hlib.List(outs))); got != idx {
		panic("harness: case index drifted")
	}
}

// ---- identifier alphabets on the pre-v4 metadata path: quoted CQL identifiers are case-sensitive, so a bound
// column whose name differs from a partition-key column only by case, by a prefix/suffix or by a Unicode
// case-folding twin is ANOTHER column. Systematic (no PRNG): every run contains these cases.
func nameVariants(nm string) []string {
	seen := map[string]bool{nm: true}
	var out []string
	add := func(v string) {
		if v != "" && !seen[v] {
			seen[v] = true
			out = append(out, v)
		}
	}
	add(strings.ToUpper(nm))
	add(strings.ToLower(nm))
	add(strings.ToUpper(nm[:1]) + nm[1:])
	add(nm + "x")
	add(nm[:len(nm)-1])
	add(" " + nm)
	add(nm + " ")
	add(strings.Replace(nm, "k", "\u212a", 1)) // KELVIN SIGN folds to k
	add(strings.Replace(nm, "s", "\u017f", 1)) // LONG S folds to s
	return out
}

func nameVariantCases(o *hlib.Out, pm gocql.VerifC09Partitioner) {
	pkSets := [][]string{{"id"}, {"Id"}, {"key", "KEY"}, {"ab", "a"}, {"ks", "bucket"}}
	caseNo := 0
	for _, pk := range pkSets {
		type bcol struct {
			name string
			typ  gocql.TypeInfo
			val  interface{}
		}
		var keyCols, decoys []bcol
		isPK := map[string]bool{}
		for k, nm := range pk {
			isPK[nm] = true
			keyCols = append(keyCols, bcol{nm, nt(gocql.TypeInt), int32(1000 + 7*k)})
		}
		for k, nm := range pk {
			for j, v := range nameVariants(nm) {
				if !isPK[v] {
					isPK[v] = true // also: no decoy twice
					decoys = append(decoys, bcol{v, nt(gocql.TypeVarchar), fmt.Sprintf("decoy-%d-%d", k, j)})
				}
			}
		}
		for k := range pk {
			isPK[pk[k]] = true
		}
		rev := func(c []bcol) []bcol {
			out := make([]bcol, len(c))
			for i := range c {
				out[len(c)-1-i] = c[i]
			}
			return out
		}
		var interleaved []bcol
		for i := 0; i < len(decoys) || i < len(keyCols); i++ {
			if i < len(decoys) {
				interleaved = append(interleaved, decoys[i])
			}
			if i < len(keyCols) {
				interleaved = append(interleaved, keyCols[len(keyCols)-1-i])
			}
		}
		orders := [][]bcol{
			append(append([]bcol{}, decoys...), keyCols...), // SET "ID" = ? ... WHERE id = ?
			append(append([]bcol{}, keyCols...), decoys...), // key columns first
			interleaved, // mixed, key columns in reverse
			append(append([]bcol{}, rev(decoys)...), keyCols[1:]...), // first key column not bound, its twins are: no key
		}
		for oi, cols := range orders {
			caseNo++
			stmt := fmt.Sprintf("UPDATE t SET names%d = ?", caseNo)
			names := make([]string, len(cols))
			cinfo := make([]gocql.ColumnInfo, len(cols))
			vals := make([]interface{}, len(cols))
			per := make([]mres, len(cols))
			for k, c := range cols {
				names[k], vals[k] = c.name, c.val
				cinfo[k] = gocql.ColumnInfo{Keyspace: "ks", Table: "t", Name: c.name, TypeInfo: c.typ}
				per[k] = marshal(c.typ, c.val)
			}
			tm := &gocql.TableMetadata{Keyspace: "ks", Name: "t"}
			for k, nm := range pk {
				tm.PartitionKey = append(tm.PartitionKey, &gocql.ColumnMetadata{Keyspace: "ks", Table: "t", Name: nm, ComponentIndex: k, Type: nt(gocql.TypeInt)})
			}
			km := &gocql.KeyspaceMetadata{Name: "ks", Tables: map[string]*gocql.TableMetadata{"t": tm}}
			mk := func() *gocql.Session {
				return gocql.VerifC09NewSession([]gocql.VerifC09Prepared{{Stmt: stmt, ColCount: len(cols), Columns: cinfo, Keyspace: "ks", Table: "t"}}, []*gocql.KeyspaceMetadata{km})
			}
			// the property's reading: exact (byte-for-byte) name match, first marker wins
			var serial [][]byte
			bound := true
			for _, nm := range pk {
				found := false
				for k := range cols {
					if names[k] == nm {
						serial = append(serial, per[k].b)
						found = true
						break
					}
				}
				bound = bound && found
			}
			common := fmt.Sprintf("%s %s [] false %s %s %s", hlib.Z(int64(len(cols))), strLists(names), hlib.Some(strLists(pk)), perTerm(per), hlib.Z(int64(len(vals))))
			monitor := func(idx int, what string, b []byte, err error, pan bool) {
				if !bound {
					if pan || err != nil || b != nil {
						o.Violate(idx, "routing-key-column-name", "", fmt.Sprintf("%s: partition key column %q is not bound (only look-alikes %q are), yet a routing key %x (err %v, panic %v) was built", what, pk[0], names, b, err, pan), nil)
					}
					return
				}
				n0 := len(o.Violations)
				routingMonitor(o, idx, serial, b, err, pan)
				for k := n0; k < len(o.Violations); k++ {
					o.Violations[k].Kind = "routing-key-column-name"
					o.Violations[k].Detail = fmt.Sprintf("%s: partition key %q, bound columns %q (names match only when identical): %s", what, pk, names, o.Violations[k].Detail)
				}
				if n0 == len(o.Violations) && len(b) > 0 {
					if _, tok, _, _ := pm.Hash(b).Raw(); tok != cassMurmurToken(cassPartitionKey(serial)) {
						o.Violate(idx, "routing-token-column-name", "", fmt.Sprintf("%s: token %d, Cassandra's token for the addressed partition is %d", what, tok, cassMurmurToken(cassPartitionKey(serial))), nil)
					}
				}
			}
			{
				q := mk().Query(stmt, vals...)
				b, err, pan := guarded(q.GetRoutingKey)
				idx := o.Case("query-name-variants", true, fmt.Sprintf("CGetRK None false %s %s", common, rkTerm(b, err, pan)))
				retain(idx, b)
				monitor(idx, fmt.Sprintf("Query, order %d", oi), b, err, pan)
			}
			{
				bt := mk().NewBatch(gocql.LoggedBatch)
				bt.Query(stmt, vals...)
				b, err, pan := guarded(bt.GetRoutingKey)
				idx := o.Case("batch-name-variants", true, fmt.Sprintf("CBatchRK None true false %s %s", common, rkTerm(b, err, pan)))
				retain(idx, b)
				monitor(idx, fmt.Sprintf("Batch, order %d", oi), b, err, pan)
			}
		}
	}
}

// ---- PREPARED responses whose partition-key indexes do not designate a bind column, or that describe no bind
// columns at all: GetRoutingKey must answer with an error resp. "no routing key" - never a run-time panic
// (it runs inside TokenAwareHostPolicy.Pick on the caller's goroutine). Systematic, seed-independent.
func malformedPreparedCases(o *hlib.Out) {
	caseNo := 0
	run := func(kind string, colCount int, names []string, pkey []int, vals []interface{}, wantErr bool) {
		caseNo++
		stmt := fmt.Sprintf("SELECT malformed%d", caseNo)
		cinfo := make([]gocql.ColumnInfo, len(names))
		per := make([]mres, len(names))
		for k, nm := range names {
			cinfo[k] = gocql.ColumnInfo{Keyspace: "ks", Table: "t", Name: nm, TypeInfo: nt(gocql.TypeInt)}
			per[k] = mres{err: true}
			if k < len(vals) {
				per[k] = marshal(cinfo[k].TypeInfo, vals[k])
			}
		}
		if len(cinfo) == 0 {
			cinfo = nil
		}
		tm := &gocql.TableMetadata{Keyspace: "ks", Name: "t", PartitionKey: []*gocql.ColumnMetadata{{Keyspace: "ks", Table: "t", Name: "a", Type: nt(gocql.TypeInt)}}}
		km := &gocql.KeyspaceMetadata{Name: "ks", Tables: map[string]*gocql.TableMetadata{"t": tm}}
		mk := func() *gocql.Session {
			return gocql.VerifC09NewSession([]gocql.VerifC09Prepared{{Stmt: stmt, ColCount: colCount, Columns: cinfo, PKeyColumns: pkey, Keyspace: "ks", Table: "t"}}, []*gocql.KeyspaceMetadata{km})
		}
		common := fmt.Sprintf("%s %s %s false %s %s %s", hlib.Z(int64(colCount)), strLists(names), intsZ(pkey), hlib.Some(strLists([]string{"a"})), perTerm(per), hlib.Z(int64(len(vals))))
		monitor := func(idx int, what string, b []byte, err error, pan bool) {
			switch {
			case pan:
				o.Violate(idx, "routing-key-malformed-prepared", "", fmt.Sprintf("%s: GetRoutingKey panicked on PREPARED metadata colCount=%d columns=%q pk indexes=%v", what, colCount, names, pkey), nil)
			case wantErr && (err == nil || b != nil):
				o.Violate(idx, "routing-key-malformed-prepared", "", fmt.Sprintf("%s: pk indexes %v with %d bind columns gave key %x, err %v; an error is due", what, pkey, len(names), b, err), nil)
			case !wantErr && (err != nil || b != nil):
				o.Violate(idx, "routing-key-malformed-prepared", "", fmt.Sprintf("%s: no bind columns described (colCount=%d, %d columns) gave key %x, err %v; (nil, nil) is due", what, colCount, len(names), b, err), nil)
			}
		}
		{
			q := mk().Query(stmt, vals...)
			b, err, pan := guarded(q.GetRoutingKey)
			idx := o.Case("query-"+kind, true, fmt.Sprintf("CGetRK None false %s %s", common, rkTerm(b, err, pan)))
			monitor(idx, "Query", b, err, pan)
			if !pan { // an index error is not cached: the second call must say the same
				b2, err2, pan2 := guarded(q.GetRoutingKey)
				if pan2 || (err == nil) != (err2 == nil) || !bytes.Equal(b, b2) {
					o.Violate(idx, "routing-key-stable", "", fmt.Sprintf("second GetRoutingKey returned %x,%v (panic %v) after %x,%v", b2, err2, pan2, b, err), nil)
				}
			}
		}
		{
			bt := mk().NewBatch(gocql.LoggedBatch)
			bt.Query(stmt, vals...)
			b, err, pan := guarded(bt.GetRoutingKey)
			idx := o.Case("batch-"+kind, true, fmt.Sprintf("CBatchRK None true false %s %s", common, rkTerm(b, err, pan)))
			monitor(idx, "Batch", b, err, pan)
		}
	}
	all := []string{"a", "b", "c", "d"}
	allVals := []interface{}{int32(1), int32(2), int32(3), int32(4)}
	for ncols := 1; ncols <= 4; ncols++ {
		for _, bad := range []int{-1, ncols, ncols + 2, -1 << 31, 1<<31 - 1} {
			// the bad index alone, first, last and in the middle of otherwise valid indexes
			run("bad-pk-index", ncols, all[:ncols], []int{bad}, allVals[:ncols], true)
			run("bad-pk-index", ncols, all[:ncols], []int{bad, 0}, allVals[:ncols], true)
			run("bad-pk-index", ncols, all[:ncols], []int{0, bad}, allVals[:ncols], true)
			if ncols >= 2 {
				run("bad-pk-index", ncols, all[:ncols], []int{ncols - 1, bad, 0}, allVals[:ncols], true)
			}
		}
	}
	// a column count without column descriptions (metadata flagged absent), with and without pk indexes
	for _, cc := range []int{1, 3} {
		run("no-columns-described", cc, nil, nil, allVals[:cc], false)
		run("no-columns-described", cc, nil, []int{0}, allVals[:cc], false)
		run("no-columns-described", cc, nil, []int{2, 0}, nil, false)
	}
	// column descriptions with a zero count
	run("zero-column-count", 0, all[:2], nil, allVals[:2], false)
	run("zero-column-count", 0, all[:2], []int{0}, allVals[:2], false)
}
