package main

// Debouncer traces: harness-level operations on a real refreshDebouncer (refreshFn is a gate the
// harness opens) and a real eventDebouncer; after every operation the debouncer's goroutines run
// until everything is blocked and the observable state is recorded. The Coq side follows with the
// set of model states reachable by the debouncer's own labels (select is non-deterministic).

import (
	"fmt"
	"sync"
	"sync/atomic"
	"time"

	"github.com/gocql/gocql"
	"gocqlverif/hlib"
)

// ---- refresh debouncer -------------------------------------------------------------------------

type refreshRun struct {
	d         *gocql.VerifC17Refresh
	fires     bool // short interval: every debounce is followed by waiting for the timer
	calls     int32
	callBase  int32
	gate      chan struct{}
	released  int
	listeners []<-chan error
	lstate    []int // 0 pending, 1 served, 2 cancelled
	stops     []chan struct{}
	stopOps   int
	steps     []string
	ops       []string
	viol      []violation
	// trigger bookkeeping for F-C17-1
	pendingSinceGate bool // a refresh request (token / timer expiry) was made while the current refreshFn runs
	trigger          bool
	hung             bool
	sawBlocked       bool
	lostListener     bool
	pmu              sync.Mutex
	panics           []string
	listenersAtStop  int
}

func (r *refreshRun) inGate() bool { return int(atomic.LoadInt32(&r.calls)) > r.released }

func (r *refreshRun) observe() []int64 {
	served, cancelled := 0, 0
	for i, ch := range r.listeners {
		if r.lstate[i] == 0 {
			select {
			case _, ok := <-ch:
				if ok {
					r.lstate[i] = 1
				} else {
					r.lstate[i] = 2
				}
			default:
			}
		}
		switch r.lstate[i] {
		case 1:
			served++
		case 2:
			cancelled++
		}
	}
	blocked, done := 0, 0
	for _, s := range r.stops {
		select {
		case <-s:
			done++
		default:
			blocked++
		}
	}
	in := int64(0)
	if r.inGate() {
		in = 1
	}
	return []int64{int64(atomic.LoadInt32(&r.calls) - r.callBase), int64(served), int64(cancelled), in, int64(blocked), int64(done)}
}

func (r *refreshRun) step(op, coqOp string) {
	if !quiesce(6 * time.Second) {
		r.viol = append(r.viol, violation{"debouncer-not-quiescent", "", "goroutines still running 6 s after " + op})
	}
	o := r.observe()
	r.ops = append(r.ops, op)
	r.steps = append(r.steps, hlib.Pair(coqOp, hlib.ZListI(o)))
	if o[4] > 0 {
		r.sawBlocked = true
	}
	// stop() has returned and no refresh is running: every listener registered before stop() was called has an outcome
	if o[5] > 0 && o[4] == 0 && o[3] == 0 && !r.lostListener {
		for i := 0; i < r.listenersAtStop && i < len(r.lstate); i++ {
			if r.lstate[i] == 0 {
				r.lostListener = true
				r.viol = append(r.viol, violation{"listener-never-answered", "",
					fmt.Sprintf("after %q: stop() returned and no refresh is running, but listener %d (requested before stop) was neither sent a result nor closed: its refreshRing caller blocks for ever", op, i)})
				break
			}
		}
	}
	// a stop() call is blocked although the flusher is not inside refreshFn: nothing can ever receive from quit
	if o[4] > 0 && o[3] == 0 && !r.hung {
		r.hung = true
		// (F-C17-1, fixed: stop() must return whatever request races it)
		r.viol = append(r.viol, violation{"stop-never-returns", "",
			fmt.Sprintf("after %q: stop() is blocked sending on quit, the flusher is not running refreshFn and every goroutine is blocked (refreshFn calls %d, listeners served %d cancelled %d)", op, o[0], o[1], o[2])})
	}
}

func (r *refreshRun) stopPending() bool {
	for _, s := range r.stops {
		select {
		case <-s:
		default:
			return true
		}
	}
	return false
}

func (r *refreshRun) opDebounce() {
	if r.fires && r.stopOps == 0 {
		before := atomic.LoadInt32(&r.calls)
		wasGate := r.inGate()
		r.d.Debounce()
		deadline := time.Now().Add(5 * time.Second)
		for !r.d.TimerFired() && atomic.LoadInt32(&r.calls) == before && time.Now().Before(deadline) {
			time.Sleep(200 * time.Microsecond)
		}
		if wasGate {
			r.pendingSinceGate = true
		}
		r.step("debounce+fire", "ODebounceFire")
		return
	}
	r.d.Debounce()
	r.step("debounce", "ODebounce")
}

func (r *refreshRun) opRefreshNow() {
	wasGate := r.inGate()
	if r.stopPending() && wasGate {
		r.trigger = true // refreshNow while stop() is blocked and the flusher still has to come back to its select
	}
	ch := r.d.RefreshNow()
	r.listeners = append(r.listeners, ch)
	r.lstate = append(r.lstate, 0)
	if wasGate {
		r.pendingSinceGate = true
	}
	r.step("refreshNow", "ORefreshNow")
}

func (r *refreshRun) opStop() {
	if r.stopOps == 0 && r.inGate() && r.pendingSinceGate {
		r.trigger = true
	}
	if r.stopOps == 0 {
		r.listenersAtStop = len(r.listeners)
	}
	r.stopOps++
	done := make(chan struct{})
	r.stops = append(r.stops, done)
	go func() {
		defer func() {
			if p := recover(); p != nil {
				r.pmu.Lock()
				r.panics = append(r.panics, fmt.Sprint(p))
				r.pmu.Unlock()
			}
		}()
		r.d.Stop()
		close(done)
	}()
	r.step("stop", "OStop")
	r.pmu.Lock()
	for _, p := range r.panics {
		r.viol = append(r.viol, violation{"stop-panics", "", "refreshDebouncer.stop panicked: " + p})
	}
	r.panics = nil
	r.pmu.Unlock()
}

func (r *refreshRun) opRelease() {
	before := atomic.LoadInt32(&r.calls)
	r.released++
	r.gate <- struct{}{}
	r.step("release", "ORelease")
	if atomic.LoadInt32(&r.calls) > before {
		r.pendingSinceGate = false // the queued request was taken: a new refreshFn runs
	} else if !r.inGate() {
		r.pendingSinceGate = false
	}
}

func runRefreshTrace(rng *hlib.Rng, profile int) *refreshRun {
	r := &refreshRun{gate: make(chan struct{})}
	interval := time.Hour
	if profile == 2 || profile == 5 {
		r.fires = true
		interval = time.Millisecond
	}
	r.d = gocql.VerifC17NewRefresh(interval, func() error {
		atomic.AddInt32(&r.calls, 1)
		<-r.gate
		return nil
	})
	quiesce(2 * time.Second)
	// newRefreshDebouncer creates its timer running and stops it right away; with the 1 ms interval used
	// here it can expire in between, and the flusher then runs one refresh nobody asked for. Let it
	// finish and start counting afterwards (the session's interval is 1 s: not a concern there).
	for guard := 0; guard < 3 && r.inGate(); guard++ {
		r.released++
		r.gate <- struct{}{}
		quiesce(2 * time.Second)
	}
	r.callBase = atomic.LoadInt32(&r.calls)
	script := func(ops ...func()) {
		for _, f := range ops {
			f()
		}
	}
	switch profile {
	case 1: // the F-C17-1 trigger: request queued behind a running refresh, then stop
		script(r.opRefreshNow, r.opRefreshNow, r.opStop, r.opRelease)
	case 2: // same with the debounce timer as the queued request
		script(r.opRefreshNow, r.opDebounce, r.opStop, r.opRelease)
	case 3: // calm stop: nothing pending
		script(r.opRefreshNow, r.opRelease, r.opDebounce, r.opStop)
	case 4: // refreshNow while stop is blocked
		script(r.opRefreshNow, r.opStop, r.opRefreshNow, r.opRelease)
	default:
		n := 4 + rng.Intn(10)
		for i := 0; i < n; i++ {
			x := rng.Intn(100)
			switch {
			case x < 25:
				r.opRefreshNow()
			case x < 45:
				r.opDebounce()
			case x < 75:
				if r.inGate() {
					r.opRelease()
				} else {
					r.opRefreshNow()
				}
			case x < 88:
				if r.stopOps < 3 {
					r.opStop()
				}
			default:
				if r.inGate() {
					r.opRelease()
				}
			}
		}
	}
	// wind down: let running refreshes return, stop the debouncer
	for guard := 0; guard < 6 && r.inGate(); guard++ {
		r.opRelease()
	}
	if r.stopOps == 0 {
		r.opStop()
		for guard := 0; guard < 6 && r.inGate(); guard++ {
			r.opRelease()
		}
	}
	return r
}

func (r *refreshRun) caseTerm() string { return "CRefresh " + hlib.List(r.steps) }

// ---- event debouncer ---------------------------------------------------------------------------

type eventRun struct {
	e        *gocql.VerifC17EventDeb
	mu       sync.Mutex
	batches  []int64
	total    int64
	armed    bool
	stops    []chan int // 0 returned, 1 panicked
	stopRes  []int      // -1 pending
	steps    []string
	ops      []string
	viol     []violation
	stopOps  int
	hung     bool
	overflow bool
}

func (r *eventRun) nb() int { r.mu.Lock(); defer r.mu.Unlock(); return len(r.batches) }

func (r *eventRun) observe() []int64 {
	pending := int64(r.e.Pending())
	r.mu.Lock()
	bs := append([]int64(nil), r.batches...)
	r.mu.Unlock()
	var sum int64
	for _, b := range bs {
		sum += b
	}
	blocked, done, pan := 0, 0, 0
	for i, s := range r.stops {
		if r.stopRes[i] < 0 {
			select {
			case v := <-s:
				r.stopRes[i] = v
			default:
			}
		}
		switch r.stopRes[i] {
		case -1:
			blocked++
		case 0:
			done++
		default:
			pan++
		}
	}
	out := []int64{pending, r.total - pending - sum, int64(blocked), int64(done), int64(pan)}
	return append(out, bs...)
}

func (r *eventRun) step(op, coqOp string) {
	if !quiesce(6 * time.Second) {
		r.viol = append(r.viol, violation{"debouncer-not-quiescent", "", "goroutines still running 6 s after " + op})
	}
	o := r.observe()
	r.ops = append(r.ops, op)
	r.steps = append(r.steps, hlib.Pair(coqOp, hlib.ZListI(o)))
	for _, b := range o[5:] {
		if b > int64(gocql.VerifC17EventBufferSize) && !r.overflow {
			r.overflow = true
			r.viol = append(r.viol, violation{"event-buffer-bound", "", fmt.Sprintf("after %q: a batch of %d frames was delivered, the buffer bound is %d", op, b, gocql.VerifC17EventBufferSize)})
		}
	}
	if o[0] > int64(gocql.VerifC17EventBufferSize) && !r.overflow {
		r.overflow = true
		r.viol = append(r.viol, violation{"event-buffer-bound", "", fmt.Sprintf("after %q: %d frames buffered, the bound is %d", op, o[0], gocql.VerifC17EventBufferSize)})
	}
	if r.stopOps == 1 && o[2] > 0 && !r.hung {
		r.hung = true
		r.viol = append(r.viol, violation{"event-stop-never-returns", "", fmt.Sprintf("after %q: the only stop() call is blocked and every goroutine is blocked", op)})
	}
	if r.stopOps == 1 && o[4] > 0 {
		r.viol = append(r.viol, violation{"event-stop-panics", "", fmt.Sprintf("after %q: the only stop() call panicked", op)})
	}
}

func (r *eventRun) opDebounce(n int) {
	for i := 0; i < n; i++ {
		r.e.Debounce()
		r.total++
		r.armed = true
		r.step("debounce", "EODebounce")
	}
}

func (r *eventRun) opFire() {
	if !r.armed {
		return
	}
	before := r.nb()
	r.e.FireIn(time.Microsecond)
	deadline := time.Now().Add(5 * time.Second)
	for r.nb() == before && !r.e.TimerFired() && r.e.Pending() > 0 && time.Now().Before(deadline) {
		time.Sleep(200 * time.Microsecond)
	}
	// an empty buffer gives no sign of the expiry when the flusher handles it: give the runtime a moment
	if r.e.Pending() == 0 && r.nb() == before {
		time.Sleep(3 * time.Millisecond)
	}
	r.armed = false
	r.step("timer", "EOFire")
}

func (r *eventRun) opStop() {
	r.stopOps++
	ch := make(chan int, 1)
	r.stops = append(r.stops, ch)
	r.stopRes = append(r.stopRes, -1)
	go func() {
		defer func() {
			if recover() != nil {
				ch <- 1
			}
		}()
		r.e.Stop()
		ch <- 0
	}()
	r.step("stop", "EOStop")
}

func runEventTrace(rng *hlib.Rng, profile int) *eventRun {
	r := &eventRun{}
	r.e = gocql.VerifC17NewEventDeb(func(n int) {
		r.mu.Lock()
		r.batches = append(r.batches, int64(n))
		r.mu.Unlock()
	})
	quiesce(2 * time.Second)
	switch profile {
	case 1: // buffer bound: more frames than eventBufferSize in one window
		r.opDebounce(gocql.VerifC17EventBufferSize + 3 + rng.Intn(4))
		r.opFire()
		r.opDebounce(2)
		r.opStop()
	case 2: // stop twice (Session.Close never does this: guarded by isClosing)
		r.opDebounce(1 + rng.Intn(3))
		r.opStop()
		r.opStop()
	default:
		n := 3 + rng.Intn(9)
		for i := 0; i < n && r.stopOps == 0; i++ {
			x := rng.Intn(100)
			switch {
			case x < 50:
				r.opDebounce(1 + rng.Intn(4))
			case x < 85:
				r.opFire()
			default:
				r.opStop()
			}
		}
		if r.stopOps == 0 {
			r.opStop()
		}
		if rng.Chance(30) {
			r.opDebounce(1) // events after stop are buffered and never delivered
		}
	}
	return r
}

func (r *eventRun) caseTerm() string { return "CEvent " + hlib.List(r.steps) }

// ---- driver --------------------------------------------------------------------------------

func runDebouncers(o *hlib.Out) {
	nR, nE := 60*o.Scale, 30*o.Scale
	if o.Scale > 1 {
		nR, nE = 25*o.Scale, 10*o.Scale
	}
	hangs, trig := 0, 0
	for i := 0; i < nR; i++ {
		profile := 0
		if i%3 == 1 {
			profile = 1 + (i/3)%5
		}
		r := runRefreshTrace(o.Rng, profile)
		if r.trigger {
			trig++
		}
		if r.hung {
			hangs++
		}
		emit(o, "refresh", r.sawBlocked || len(r.listeners) > 1, r.caseTerm(), r.viol, map[string]interface{}{"profile": profile, "ops": r.ops, "trigger": r.trigger})
	}
	o.Extra["refresh_trigger_traces"] = trig
	o.Extra["refresh_hangs"] = hangs
	for i := 0; i < nE; i++ {
		profile := 0
		if i%10 == 3 {
			profile = 1
		} else if i%10 == 7 {
			profile = 2
		}
		r := runEventTrace(o.Rng, profile)
		emit(o, "event", len(r.batches) > 0 || profile > 0, r.caseTerm(), r.viol, map[string]interface{}{"profile": profile, "ops": r.ops})
	}
}
