package main

// Pool traces: the real hostConnPool is driven one atomic step at a time. The driver's goroutines
// are parked at the trace points 1701 (fill: between the first check and the write lock), 1702
// (connect: connection in hand, pool lock not yet taken) and inside the gated dialer, so that every
// harness step is a known list of model labels; after each step everything is allowed to run until
// all goroutines are blocked, and the pool is observed under its lock.

import (
	"errors"
	"fmt"
	"io/ioutil"
	"log"
	"sort"
	"strings"
	"sync/atomic"
	"time"

	"github.com/gocql/gocql"
	"gocqlverif/hlib"
	"gocqlverif/node"
)

const poolIP = "10.0.0.2"
const poolAddr = "10.0.0.2:9042"

type poolEnv struct {
	net  *node.Net
	b    *node.Node
	gd   *gateDialer
	sess *gocql.Session
}

func quietLogger() gocql.StdLogger { return log.New(ioutil.Discard, "", 0) }

func newPoolEnv() (*poolEnv, error) {
	n := node.NewNet()
	n.AddNode("10.0.0.1:9042")
	b := n.AddNode(poolAddr)
	b.Update(func(c *node.Config) { c.InRing = false })
	gd := &gateDialer{inner: n.Dialer(), gated: map[string]bool{}}
	cfg := gocql.NewCluster("10.0.0.1")
	cfg.HostDialer = gd
	cfg.ProtoVersion = 4
	cfg.NumConns = 1
	cfg.WriteCoalesceWaitTime = 0 // no timer-driven progress inside the driver: "all goroutines blocked" then means quiescent
	cfg.Timeout = 3 * time.Second
	cfg.ConnectTimeout = 3 * time.Second
	cfg.ReconnectionPolicy = &gocql.ConstantReconnectionPolicy{MaxRetries: 1, Interval: 0}
	cfg.Logger = quietLogger()
	s, err := gocql.NewSession(*cfg)
	if err != nil {
		n.Close()
		return nil, err
	}
	return &poolEnv{net: n, b: b, gd: gd, sess: s}, nil
}

func (e *poolEnv) close() {
	e.sess.Close()
	e.net.Close()
}

type violation struct {
	kind, finding, detail string
}

type poolRun struct {
	env      *poolEnv
	rng      *hlib.Rng
	size     int
	ks       string
	pool     *gocql.VerifC17Pool
	linkBase int
	nextTid  int
	// parks and dial arrivals already attributed
	seenF1, seenHave, seenDial int
	f1Of                       map[int]int  // fill thread -> index of its park at 1701 (not yet released)
	dialing                    map[int]bool // task -> waiting in the dialer
	haveOf                     map[int]int  // task -> index of its park at 1702 (not yet released)
	connOf                     map[int]int  // task -> connection id it holds
	nextConn                   int
	killedInHand               map[int]bool // connections killed while held by a connect (the former F-C17-2 situation)
	reportedDead               map[int]bool
	// the harness lost track of a goroutine (quiescence detected too early): the trace proves nothing
	imprecise bool
	steps     []string // Coq terms: (labels, observation)
	ops       []string // human-readable
	viol      []violation
	// what the trace exercised
	nKill, nFail, nWindow, nLate, nInHandKill int
}

func (r *poolRun) links() []*node.Link {
	var out []*node.Link
	for _, l := range r.env.net.Links()[r.linkBase:] {
		if l.Addr == poolAddr {
			out = append(out, l)
		}
	}
	return out
}

func (r *poolRun) connID(c *gocql.Conn) int {
	nc := gocql.VerifC17NetConn(c)
	for i, l := range r.links() {
		if l.Client() == nc {
			return i
		}
	}
	return -1
}

type poolObs struct {
	conns           []int
	filling, closed bool
	dialing, have   int
	f1              int
	opened, closedN int
	deadPooled      []int // pooled connections the driver has already closed
}

func (r *poolRun) observe() poolObs {
	var o poolObs
	cs, f, c := r.pool.Snapshot()
	ls := r.links()
	for _, x := range cs {
		id := r.connID(x)
		o.conns = append(o.conns, id)
		if id >= 0 && ls[id].ClientClosed() {
			o.deadPooled = append(o.deadPooled, id)
		}
	}
	o.filling, o.closed = f, c
	o.dialing, o.have, o.f1 = len(r.dialing), len(r.haveOf), len(r.f1Of)
	o.opened = len(ls)
	for _, l := range ls {
		if l.ClientClosed() {
			o.closedN++
		}
	}
	return o
}

func b2i(b bool) int64 {
	if b {
		return 1
	}
	return 0
}

func (o poolObs) term() string {
	xs := []int64{b2i(o.filling), b2i(o.closed), int64(o.dialing), int64(o.have), int64(o.f1), int64(o.opened), int64(o.closedN)}
	for _, c := range o.conns {
		xs = append(xs, int64(c))
	}
	return hlib.ZListI(xs)
}

// settle lets everything run until blocked, then attributes newly parked goroutines: a new park at
// 1701 to fill thread newTid, a new park at 1702 to task okTask. Parks nobody asked for are kept
// under made-up ids so that the observed counts show them.
func (r *poolRun) settle(newTid, okTask int) {
	if !quiesce(6 * time.Second) {
		r.viol = append(r.viol, violation{"pool-not-quiescent", "", "goroutines still running 6 s after a step"})
	}
	f1n, haven := hk.counts()
	for i := r.seenF1; i < f1n; i++ {
		tid := newTid
		if tid < 0 || i > r.seenF1 {
			tid = 500000 + i
			r.imprecise = true // a goroutine parked that no step accounts for: an earlier settle was premature
		}
		r.f1Of[tid] = i
	}
	r.seenF1 = f1n
	for i := r.seenHave; i < haven; i++ {
		k := okTask
		if k < 0 || i > r.seenHave {
			k = 500000 + i
			r.imprecise = true
		}
		r.haveOf[k] = i
	}
	r.seenHave = haven
	arr := r.env.gd.arrivals()
	for i := r.seenDial; i < arr; i++ {
		r.dialing[i] = true
	}
	r.seenDial = arr
}

func natList(xs ...string) string { return "[" + strings.Join(xs, "; ") + "]" }

func lab(name string, args ...int) string {
	s := name
	for _, a := range args {
		s += " " + hlib.Nat(a)
	}
	return s
}

func max0(x int) int {
	if x < 0 {
		return 0
	}
	return x
}

// record: observation + monitors after a step
func (r *poolRun) record(op string, labels []string) poolObs {
	o := r.observe()
	r.ops = append(r.ops, op)
	r.steps = append(r.steps, hlib.Pair(natList(labels...), o.term()))
	lim := max0(r.size)
	if len(o.conns) > lim {
		r.viol = append(r.viol, violation{"pool-bound", "", fmt.Sprintf("after %q: %d connections in a pool of size %d", op, len(o.conns), r.size)})
	}
	if len(o.conns)+o.dialing+o.have > lim {
		r.viol = append(r.viol, violation{"pool-overcommit", "", fmt.Sprintf("after %q: %d pooled + %d dialling + %d in hand > size %d (more than one filler, or fill count not computed under the lock)",
			op, len(o.conns), o.dialing, o.have, r.size)})
	}
	for _, id := range o.deadPooled {
		if r.reportedDead[id] {
			continue
		}
		r.reportedDead[id] = true
		// (F-C17-2, fixed: a connection killed while connect held it must not be pooled either)
		r.viol = append(r.viol, violation{"closed-conn-in-pool", "", fmt.Sprintf("after %q: connection %d is closed but still in the pool (all goroutines blocked, no HandleError pending)", op, id)})
	}
	if o.filling && o.dialing == 0 && o.have == 0 {
		r.viol = append(r.viol, violation{"filling-stuck", "", fmt.Sprintf("after %q: pool.filling is set although every goroutine is blocked and no connect is in progress: the pool will never be filled again", op)})
	}
	if o.closed && len(o.conns) > 0 {
		r.viol = append(r.viol, violation{"conn-in-closed-pool", "", fmt.Sprintf("after %q: closed pool holds %d connections", op, len(o.conns))})
	}
	return o
}

func sortedKeys(m map[int]int) []int {
	var ks []int
	for k := range m {
		ks = append(ks, k)
	}
	sort.Ints(ks)
	return ks
}
func sortedKeysB(m map[int]bool) []int {
	var ks []int
	for k := range m {
		ks = append(ks, k)
	}
	sort.Ints(ks)
	return ks
}

// ---- the steps ------------------------------------------------------------------------------

func (r *poolRun) opFill() {
	tid := r.nextTid
	r.nextTid++
	go r.pool.Fill()
	r.settle(tid, -1)
	r.record(fmt.Sprintf("fill#%d", tid), []string{lab("FillStart", tid)})
}

func (r *poolRun) opPick() {
	cs, _, closed := r.pool.Snapshot()
	var labels []string
	tid := -1
	if !closed && len(cs) < r.size {
		tid = r.nextTid
		r.nextTid++
		labels = append(labels, lab("FillStart", tid))
	}
	r.pool.Pick()
	r.settle(tid, -1)
	r.record("pick", labels)
}

func (r *poolRun) opRecheck(tid int) {
	idx := r.f1Of[tid]
	delete(r.f1Of, tid)
	_, filling, _ := r.pool.Snapshot()
	if filling || len(r.f1Of) > 0 {
		r.nWindow++
	}
	hk.releaseF1(idx)
	r.settle(-1, -1)
	r.record(fmt.Sprintf("recheck#%d", tid), []string{lab("FillDecide", tid)})
}

func (r *poolRun) opDial(k int, ok bool, ksFail bool) {
	delete(r.dialing, k)
	labels := []string{}
	if ok {
		id := r.nextConn
		r.nextConn++
		r.connOf[k] = id
		labels = append(labels, lab("DialOk", k))
		if ksFail {
			r.env.b.AddRule(node.Rule{Match: node.MatchStatement("USE", node.OpQuery), Times: 1, Do: func(c *node.ServerConn, req *node.Request) {
				c.Reply(req, node.Error{Code: node.ErrInvalid, Message: "verif: keyspace does not exist"})
			}})
			labels = append(labels, lab("KsFail", k))
			delete(r.connOf, k)
		}
	} else {
		r.nFail++
		labels = append(labels, lab("DialFail", k))
	}
	r.env.gd.req(k).release <- ok
	if ok && !ksFail {
		r.settle(-1, k)
	} else {
		r.settle(-1, -1)
	}
	r.record(fmt.Sprintf("dial#%d ok=%v ksfail=%v", k, ok, ksFail), labels)
}

func (r *poolRun) opAppend(k int) {
	idx := r.haveOf[k]
	delete(r.haveOf, k)
	_, _, closed := r.pool.Snapshot()
	if closed {
		r.nLate++
	}
	hk.releaseHave(idx)
	r.settle(-1, -1)
	r.record(fmt.Sprintf("append#%d", k), []string{lab("ConnectAdd", k)})
}

// server side closes connection c: the driver's reader fails, Conn.closeWithError closes the
// connection and calls pool.HandleError(conn, err, true)
func (r *poolRun) opKill(c int, inHand bool) {
	tid := r.nextTid
	r.nextTid++
	before := atomic.LoadInt64(&hk.heDone)
	cs, filling, closed := r.pool.Snapshot()
	pooled := false
	for _, x := range cs {
		if r.connID(x) == c {
			pooled = true
		}
	}
	l := r.links()[c]
	l.Server().Close()
	deadline := time.Now().Add(5 * time.Second)
	for atomic.LoadInt64(&hk.heDone) == before && time.Now().Before(deadline) {
		time.Sleep(100 * time.Microsecond)
	}
	if atomic.LoadInt64(&hk.heDone) == before {
		r.viol = append(r.viol, violation{"no-handle-error", "", fmt.Sprintf("connection %d was closed by the server but pool.HandleError was not called within 5 s", c)})
	}
	r.nKill++
	if inHand {
		r.killedInHand[c] = true
		r.nInHandKill++
	}
	f1Before := len(r.f1Of)
	r.settle(tid, -1)
	o := r.record(fmt.Sprintf("kill conn%d", c), []string{lab("ConnDie", c), lab("HErr", c, tid)})
	if pooled && !closed {
		for _, id := range o.conns {
			if id == c {
				r.viol = append(r.viol, violation{"closed-conn-not-removed", "", fmt.Sprintf("connection %d reported closed to HandleError is still in the pool", c)})
			}
		}
		if !filling && len(r.f1Of) == f1Before && !o.filling {
			r.viol = append(r.viol, violation{"no-refill", "", fmt.Sprintf("connection %d was removed but no fill was started", c)})
		}
	}
}

func (r *poolRun) opClose() {
	go r.pool.Close()
	r.settle(-1, -1)
	r.record("close", []string{"PClose"})
}

func (r *poolRun) opSpuriousError() {
	cs, _, _ := r.pool.Snapshot()
	if len(cs) > 0 {
		r.pool.HandleError(cs[r.rng.Intn(len(cs))], errors.New("verif: query error, connection still open"), false)
	}
	r.settle(-1, -1)
	r.record("handle-error(open)", nil)
}

// openConns: ids of connections the driver has not closed, split into pooled and in hand
func (r *poolRun) killable() (pooled, inHand []int) {
	ls := r.links()
	cs, _, _ := r.pool.Snapshot()
	for _, x := range cs {
		id := r.connID(x)
		if id >= 0 && ls[id].Open() {
			pooled = append(pooled, id)
		}
	}
	for _, k := range sortedKeys(r.haveOf) {
		if id, ok := r.connOf[k]; ok && id < len(ls) && ls[id].Open() {
			inHand = append(inHand, id)
		}
	}
	return
}

func runPoolTrace(env *poolEnv, rng *hlib.Rng, size int, ks string, nops int, profile int) *poolRun {
	r := &poolRun{env: env, rng: rng, size: size, ks: ks,
		f1Of: map[int]int{}, dialing: map[int]bool{}, haveOf: map[int]int{}, connOf: map[int]int{}, killedInHand: map[int]bool{}, reportedDead: map[int]bool{}}
	env.gd.mu.Lock()
	env.gd.gated[poolIP] = true
	env.gd.mu.Unlock()
	env.gd.reset()
	hk.reset()
	env.b.ClearRules()
	r.linkBase = len(env.net.Links())
	r.pool = gocql.VerifC17NewPool(env.sess, poolIP, 9042, size, ks)
	atomic.StoreInt32(&hk.enabled, 1)
	defer atomic.StoreInt32(&hk.enabled, 0)
	quiesce(2 * time.Second)

	closedOnce := false
	for i := 0; i < nops; i++ {
		type cand struct {
			w int
			f func()
		}
		var cs []cand
		cs = append(cs, cand{6, r.opFill}, cand{2, r.opPick})
		for _, tid := range sortedKeys(r.f1Of) {
			tid := tid
			cs = append(cs, cand{5, func() { r.opRecheck(tid) }})
		}
		for _, k := range sortedKeysB(r.dialing) {
			k := k
			failW, ksW := 1, 0
			if profile == 1 {
				failW = 3
			}
			if ks != "" {
				ksW = 1
			}
			cs = append(cs, cand{7, func() { r.opDial(k, true, false) }}, cand{failW, func() { r.opDial(k, false, false) }})
			if ksW > 0 {
				cs = append(cs, cand{ksW, func() { r.opDial(k, true, true) }})
			}
		}
		for _, k := range sortedKeys(r.haveOf) {
			k := k
			cs = append(cs, cand{7, func() { r.opAppend(k) }})
		}
		pooled, inHand := r.killable()
		for _, c := range pooled {
			c := c
			cs = append(cs, cand{2, func() { r.opKill(c, false) }})
		}
		for _, c := range inHand {
			c := c
			w := 1
			if profile == 2 {
				w = 4
			}
			cs = append(cs, cand{w, func() { r.opKill(c, true) }})
		}
		if !closedOnce || rng.Chance(30) {
			w := 1
			if profile == 3 {
				w = 4
			}
			cs = append(cs, cand{w, func() { closedOnce = true; r.opClose() }})
		}
		cs = append(cs, cand{1, r.opSpuriousError})
		tot := 0
		for _, c := range cs {
			tot += c.w
		}
		x := rng.Intn(tot)
		for _, c := range cs {
			if x < c.w {
				c.f()
				break
			}
			x -= c.w
		}
	}
	// drain: close the pool, let every parked goroutine finish, then nothing may be left open
	r.opClose()
	for guard := 0; guard < 200 && (len(r.f1Of) > 0 || len(r.dialing) > 0 || len(r.haveOf) > 0); guard++ {
		switch {
		case len(r.haveOf) > 0:
			r.opAppend(sortedKeys(r.haveOf)[0])
		case len(r.dialing) > 0:
			r.opDial(sortedKeysB(r.dialing)[0], rng.Chance(70), false)
		default:
			r.opRecheck(sortedKeys(r.f1Of)[0])
		}
	}
	o := r.observe()
	if o.opened != o.closedN {
		r.viol = append(r.viol, violation{"conn-survives-pool-close", "", fmt.Sprintf("pool closed and all its goroutines finished, but %d of %d connections are still open", o.opened-o.closedN, o.opened)})
	}
	if n, sample := gocqlGoroutines("hostConnPool"); n > 0 {
		r.viol = append(r.viol, violation{"pool-goroutine-left", "", fmt.Sprintf("%d goroutines still inside hostConnPool after close and drain, e.g.\n%s", n, sample)})

	}
	return r
}

func (r *poolRun) caseTerm() string {
	return fmt.Sprintf("CPool %s %s", hlib.Z(int64(r.size)), hlib.List(r.steps))
}
