package main

// Session-level histories against scripted in-memory nodes: Session.Close while queries, ring
// refreshes and control-connection reconnects are in flight, Close twice and concurrently. After
// the closing call returned: every connection closed (as seen by the in-memory network), no
// goroutine with a gocql frame left, new queries fail with ErrSessionClosed without touching the
// network. A Close that does not return is detected by a watchdog (the goroutine is leaked
// deliberately) and tagged with F-C17-1 only when the scenario set that finding's trigger up.

import (
	"bytes"
	"fmt"
	"strings"
	"sync"
	"sync/atomic"
	"time"

	"github.com/gocql/gocql"
	"gocqlverif/hlib"
	"gocqlverif/node"
)

type sessEnv struct {
	net   *node.Net
	nodes []*node.Node
	gd    *gateDialer
	s     *gocql.Session
	base  map[string]string // gocql goroutines before the session was created (leaked by earlier runs)
	viol  []violation
	vmu   sync.Mutex
	name  string
	info  map[string]interface{}
}

func kvTable() *node.Table {
	t := &node.Table{Keyspace: "demo", Name: "kv", PartitionKey: []string{"k"},
		Columns: []node.Column{node.Col("k", node.Varchar), node.Col("v", node.Int)}}
	for i, k := range []string{"a", "b", "c", "d", "e"} {
		t.Rows = append(t.Rows, [][]byte{node.TextV(k), node.IntV(int32(10 * (i + 1)))})
	}
	return t
}

func newSessEnv(name string, nNodes, numConns int, tweak func(cfg *gocql.ClusterConfig, e *sessEnv)) (*sessEnv, error) {
	e := &sessEnv{name: name, info: map[string]interface{}{"scenario": name}}
	e.base = gocqlGoroutineIDs()
	e.net = node.NewNet()
	for i := 0; i < nNodes; i++ {
		e.nodes = append(e.nodes, e.net.AddNode(fmt.Sprintf("10.0.1.%d:9042", i+1)))
	}
	e.net.SetKeyspace("demo", node.Keyspace{Replication: node.SimpleStrategy(1), DurableWrites: true})
	e.net.SetTable(kvTable())
	e.gd = &gateDialer{inner: e.net.Dialer(), gated: map[string]bool{}}
	cfg := gocql.NewCluster("10.0.1.1")
	cfg.HostDialer = e.gd
	cfg.ProtoVersion = 4
	cfg.NumConns = numConns
	cfg.Keyspace = "demo"
	cfg.Timeout = 1500 * time.Millisecond
	cfg.ConnectTimeout = 1500 * time.Millisecond
	cfg.ReconnectionPolicy = &gocql.ConstantReconnectionPolicy{MaxRetries: 1, Interval: 0}
	cfg.Logger = quietLogger()
	if tweak != nil {
		tweak(cfg, e)
	}
	s, err := gocql.NewSession(*cfg)
	if err != nil {
		return e, err
	}
	e.s = s
	want := 1 + nNodes*numConns
	e.net.WaitFor(3*time.Second, func() bool { return e.net.OpenConns() >= want })
	return e, nil
}

func (e *sessEnv) v(kind, finding, format string, args ...interface{}) {
	e.viol = append(e.viol, violation{kind, finding, e.name + ": " + fmt.Sprintf(format, args...)})
}

// safeClose calls Close and turns a panic into a violation
func (e *sessEnv) safeClose() {
	defer func() {
		if r := recover(); r != nil {
			e.vmu.Lock()
			e.viol = append(e.viol, violation{"close-panics", "", fmt.Sprintf("%s: Session.Close panicked: %v", e.name, r)})
			e.vmu.Unlock()
		}
	}()
	e.s.Close()
}

// closeWatch runs Close under a watchdog
func (e *sessEnv) closeWatch(d time.Duration) bool {
	done := make(chan struct{})
	go func() { e.safeClose(); close(done) }()
	select {
	case <-done:
		return true
	case <-time.After(d):
		return false
	}
}

func queryOnce(s *gocql.Session) error {
	var v int
	return s.Query(`SELECT v FROM kv WHERE k = ?`, "a").Scan(&v)
}

func totalRequests(n *node.Net) int {
	t := 0
	for _, nd := range n.Nodes() {
		t += len(nd.Requests())
	}
	return t
}

func openClientEnds(n *node.Net) (open int, which []string) {
	for _, l := range n.Links() {
		if !l.ClientClosed() {
			open++
			which = append(which, fmt.Sprintf("#%d->%s", l.ID, l.Addr))
		}
	}
	return
}

// afterClose: the postconditions of the property once the closing call has returned
func (e *sessEnv) afterClose() {
	if !e.s.Closed() {
		e.v("closed-flag", "", "Close returned but Session.Closed() is false")
	}
	// the probes use a table name nothing else uses: whatever reaches a node with it was sent after Close
	const marker = "kv_after_close"
	t0 := time.Now()
	var v int
	err := e.s.Query(`SELECT v FROM `+marker+` WHERE k = ?`, "a").Scan(&v)
	if err != gocql.ErrSessionClosed {
		e.v("query-after-close", "", "query after Close returned %v, want ErrSessionClosed", err)
	}
	if it := e.s.Query(`SELECT v FROM ` + marker).Iter(); it.Close() != gocql.ErrSessionClosed {
		e.v("query-after-close", "", "Iter after Close: want ErrSessionClosed")
	}
	b := e.s.NewBatch(gocql.LoggedBatch)
	b.Query(`INSERT INTO `+marker+` (k, v) VALUES (?, ?)`, "x", 1)
	if err := e.s.ExecuteBatch(b); err != gocql.ErrSessionClosed {
		e.v("query-after-close", "", "batch after Close returned %v, want ErrSessionClosed", err)
	}
	if d := time.Since(t0); d > 500*time.Millisecond {
		e.v("query-after-close-slow", "", "queries after Close took %v", d)
	}
	time.Sleep(2 * time.Millisecond)
	sent := 0
	for _, nd := range e.net.Nodes() {
		for _, r := range nd.Requests() {
			if bytes.Contains(r.Raw, []byte(marker)) {
				sent++
			}
		}
	}
	if sent > 0 {
		e.v("query-after-close-network", "", "queries after Close sent %d request(s) to the nodes", sent)
	}
	// a second Close returns at once
	done := make(chan struct{})
	go func() { e.safeClose(); close(done) }()
	select {
	case <-done:
	case <-time.After(3 * time.Second):
		e.v("second-close-blocks", "", "a second Close did not return within 3 s")
	}
	// every connection closed, background goroutines gone: generous bound
	deadline := time.Now().Add(4 * time.Second)
	var open int
	var which []string
	var left int
	var sample string
	for {
		open, which = openClientEnds(e.net)
		left, sample = e.newGoroutines()
		if (open == 0 && left <= 0) || time.Now().After(deadline) {
			break
		}
		time.Sleep(5 * time.Millisecond)
	}
	e.info["open_after_close"] = open
	e.info["goroutines_after_close"] = left
	if open > 0 {
		e.v("conn-open-after-close", e.leakFinding(), "%d connection(s) still open 4 s after Close returned: %s", open, strings.Join(which, " "))
	}
	if left > 0 {
		e.v("goroutine-after-close", e.leakFinding(), "%d driver goroutine(s) still alive 4 s after Close returned, e.g.\n%s", left, sample)
	}
}

// driver goroutines that did not exist before this scenario
func (e *sessEnv) newGoroutines() (n int, sample string) {
	for id, st := range gocqlGoroutineIDs() {
		if _, old := e.base[id]; !old {
			n++
			sample += st + "\n\n"
		}
	}
	if len(sample) > 3000 {
		sample = sample[:3000]
	}
	return
}

// set by scenarios that deliberately set up the trigger of a known finding
func (e *sessEnv) leakFinding() string {
	if f, ok := e.info["leak_finding"].(string); ok {
		return f
	}
	return ""
}

func (e *sessEnv) done() { e.net.Close() }

func waitGoroutine(sub string, d time.Duration) bool {
	deadline := time.Now().Add(d)
	for time.Now().Before(deadline) {
		for _, g := range dump() {
			if strings.Contains(g.stack, sub) {
				return true
			}
		}
		time.Sleep(300 * time.Microsecond)
	}
	return false
}

// ---- scenarios -------------------------------------------------------------------------------

// S1: quiet session, Close, Close again; emits the CSess correspondence case
func scenPlain(o *hlib.Out, nNodes, numConns int) {
	e, err := newSessEnv(fmt.Sprintf("plain-%dx%d", nNodes, numConns), nNodes, numConns, nil)
	if err != nil {
		e.v("harness", "", "NewSession: %v", err)
		emit(o, "session-plain", false, "", e.viol, e.info)
		e.done()
		return
	}
	defer e.done()
	obs := func() string {
		qc := int64(0)
		if queryOnce(e.s) == gocql.ErrSessionClosed {
			qc = 1
		}
		return hlib.ZListI([]int64{b2i(e.s.Closed()), qc})
	}
	var steps []string
	steps = append(steps, obs())
	pools := gocql.VerifC17SessionPools(e.s)
	for id, n := range pools {
		if n > numConns {
			e.v("pool-bound", "", "session pool %s holds %d connections, NumConns %d", id, n, numConns)
		}
	}
	e.info["pools"] = len(pools)
	for i := 0; i < 2; i++ {
		if !e.closeWatch(10 * time.Second) {
			e.v("close-never-returns", "", "Close #%d of an idle session did not return within 10 s", i+1)
			emit(o, "session-plain", true, "", e.viol, e.info)
			return
		}
		steps = append(steps, obs())
	}
	e.afterClose()
	emit(o, "session-plain", true, "CSess "+hlib.List(steps), e.viol, e.info)
}

// S2/S3: Close (one call or several at once) while queries are in flight
func scenLoad(o *hlib.Out, rng *hlib.Rng, closers int) {
	e, err := newSessEnv(fmt.Sprintf("load-close%d", closers), 3, 2, nil)
	if err != nil {
		e.v("harness", "", "NewSession: %v", err)
		emit(o, "session-load", false, "", e.viol, e.info)
		e.done()
		return
	}
	defer e.done()
	delay := time.Duration(2+rng.Intn(15)) * time.Millisecond
	for _, nd := range e.nodes {
		nd := nd
		nd.AddRule(node.Rule{Match: node.MatchStatement("FROM kv", node.OpExecute), Do: func(c *node.ServerConn, req *node.Request) {
			time.AfterFunc(delay, func() { nd.Default(c, req) })
		}})
	}
	var wg sync.WaitGroup
	var started, finished, closedErrs, inflightAtClose int64
	var closing int32
	stop := make(chan struct{})
	workers := 4 + rng.Intn(8)
	for w := 0; w < workers; w++ {
		wg.Add(1)
		go func() {
			defer wg.Done()
			for {
				select {
				case <-stop:
					return
				default:
				}
				atomic.AddInt64(&started, 1)
				err := queryOnce(e.s)
				atomic.AddInt64(&finished, 1)
				if err == gocql.ErrSessionClosed {
					atomic.AddInt64(&closedErrs, 1)
					return
				}
				_ = closing
			}
		}()
	}
	time.Sleep(time.Duration(20+rng.Intn(40)) * time.Millisecond)
	inflightAtClose = atomic.LoadInt64(&started) - atomic.LoadInt64(&finished)
	res := make(chan bool, closers)
	startClose := make(chan struct{})
	for i := 0; i < closers; i++ {
		go func() {
			<-startClose
			done := make(chan struct{})
			go func() { e.safeClose(); close(done) }()
			select {
			case <-done:
				res <- true
			case <-time.After(10 * time.Second):
				res <- false
			}
		}()
	}
	close(startClose)
	okAll := true
	for i := 0; i < closers; i++ {
		if !<-res {
			okAll = false
		}
	}
	e.info["workers"] = workers
	e.info["inflight_at_close"] = inflightAtClose
	if !okAll {
		e.v("close-never-returns", "", "Close under load (%d concurrent calls, %d queries in flight) did not return within 10 s", closers, inflightAtClose)
		close(stop)
		emit(o, "session-load", true, "", e.viol, e.info)
		return
	}
	// with several concurrent calls only one performs the close; wait for Closed()
	dl := time.Now().Add(10 * time.Second)
	for !e.s.Closed() && time.Now().Before(dl) {
		time.Sleep(time.Millisecond)
	}
	// every worker must come back (each query ends) and see ErrSessionClosed
	wdone := make(chan struct{})
	go func() { wg.Wait(); close(wdone) }()
	select {
	case <-wdone:
	case <-time.After(8 * time.Second):
		e.v("query-never-returns", "", "a query in flight during Close did not return within 8 s (started %d finished %d)", atomic.LoadInt64(&started), atomic.LoadInt64(&finished))
	}
	close(stop)
	e.info["queries"] = atomic.LoadInt64(&finished)
	e.afterClose()
	emit(o, "session-load", inflightAtClose > 0, "", e.viol, e.info)
}

// S4: Close while a ring refresh is running (slow system.peers), nothing else pending
func scenRefresh(o *hlib.Out, rng *hlib.Rng) {
	e, err := newSessEnv("close-during-refresh", 3, 1, nil)
	if err != nil {
		e.v("harness", "", "NewSession: %v", err)
		emit(o, "session-refresh", false, "", e.viol, e.info)
		e.done()
		return
	}
	defer e.done()
	delay := time.Duration(30+rng.Intn(60)) * time.Millisecond
	var slowed int32
	e.nodes[0].AddRule(node.Rule{Match: node.MatchStatement("system.peers", node.OpQuery), Do: func(c *node.ServerConn, req *node.Request) {
		atomic.AddInt32(&slowed, 1)
		time.AfterFunc(delay, func() { c.Node().Default(c, req) })
	}})
	rdone := make(chan error, 1)
	go func() { rdone <- gocql.VerifC17RefreshRing(e.s) }()
	dl := time.Now().Add(2 * time.Second)
	for atomic.LoadInt32(&slowed) == 0 && time.Now().Before(dl) {
		time.Sleep(200 * time.Microsecond)
	}
	e.info["refresh_in_flight"] = atomic.LoadInt32(&slowed) > 0
	if !e.closeWatch(10 * time.Second) {
		e.v("close-never-returns", "", "Close during a ring refresh (no second refresh requested) did not return within 10 s")
		emit(o, "session-refresh", true, "", e.viol, e.info)
		return
	}
	select {
	case <-rdone:
	case <-time.After(5 * time.Second):
		e.v("refresh-never-returns", "", "refreshRing in flight during Close did not return within 5 s")
	}
	e.afterClose()
	emit(o, "session-refresh", atomic.LoadInt32(&slowed) > 0, "", e.viol, e.info)
}

// S5: the (fixed) F-C17-1 situation through Session.Close: a ring refresh is blocked connecting to a new
// host, a second refresh is requested (token queued), then Close.
func scenRefreshRace(o *hlib.Out, trial int) (hung bool) {
	e, err := newSessEnv(fmt.Sprintf("close-refresh-queued-%d", trial), 2, 1, nil)
	if err != nil {
		e.v("harness", "", "NewSession: %v", err)
		emit(o, "session-refresh-queued", false, "", e.viol, e.info)
		e.done()
		return
	}
	defer e.done()
	// a third node joins; its dial is held by the harness
	e.gd.mu.Lock()
	e.gd.gated["10.0.1.3"] = true
	e.gd.mu.Unlock()
	e.nodes = append(e.nodes, e.net.AddNode("10.0.1.3:9042"))
	go gocql.VerifC17RefreshRing(e.s)
	dl := time.Now().Add(3 * time.Second)
	for e.gd.arrivals() == 0 && time.Now().Before(dl) {
		time.Sleep(200 * time.Microsecond)
	}
	if e.gd.arrivals() == 0 {
		e.v("harness", "", "the refresh did not start connecting to the new host")
		emit(o, "session-refresh-queued", false, "", e.viol, e.info)
		return
	}
	// refreshFn is running (inside addHost -> fill -> connect -> dial); queue a second refresh
	gocql.VerifC17SessionRefresher(e.s).RefreshNow()
	cdone := make(chan struct{})
	go func() { e.safeClose(); close(cdone) }()
	// Close cancels the session context, which ends the held dial; refreshFn returns and the flusher's
	// select sees the queued token and the closed quit channel
	triggerSet := true
	e.info["trigger_set_up"] = triggerSet
	select {
	case <-cdone:
		e.gd.req(0).release <- true
		e.afterClose()
	case <-time.After(10 * time.Second):
		hung = true
		e.gd.req(0).release <- true
		e.v("close-never-returns", "", "Session.Close did not return within 10 s (a refresh was requested while another was running, then Close: the former F-C17-1 situation)")
	}
	emit(o, "session-refresh-queued", triggerSet, "", e.viol, e.info)
	return
}

// S6: Close while the control connection is being re-established (reconnect started by the error
// callback of the lost connection); variant: phase = "dial" (Close while the reconnect is dialling)
// or "setup" (the new connection is made, its system.local query is still unanswered).
func scenReconnect(o *hlib.Out, phase string) {
	e, err := newSessEnv("close-during-reconnect-"+phase, 2, 1, nil)
	if err != nil {
		e.v("harness", "", "NewSession: %v", err)
		emit(o, "session-reconnect", false, "", e.viol, e.info)
		e.done()
		return
	}
	defer e.done()
	var ctrl *node.ServerConn
	for _, c := range e.nodes[0].Conns() {
		if len(c.Registered()) > 0 {
			ctrl = c
		}
	}
	if ctrl == nil {
		e.v("harness", "", "no control connection found")
		emit(o, "session-reconnect", false, "", e.viol, e.info)
		return
	}
	var held []func()
	var hmu sync.Mutex
	inSetup := make(chan struct{}, 8)
	if phase == "register" {
		for _, nd := range e.nodes {
			nd := nd
			nd.AddRule(node.Rule{Match: node.MatchOp(node.OpRegister), Do: func(c *node.ServerConn, req *node.Request) {
				// the new control connection's REGISTER (last step of setupConn): answered when the harness says so
				hmu.Lock()
				held = append(held, func() { nd.Default(c, req) })
				hmu.Unlock()
				inSetup <- struct{}{}
			}})
		}
	} else if phase == "setup" {
		for _, nd := range e.nodes {
			nd := nd
			nd.AddRule(node.Rule{Match: node.MatchStatement("system.local", node.OpQuery), Do: func(c *node.ServerConn, req *node.Request) {
				// answer later, when the harness says so
				hmu.Lock()
				held = append(held, func() { nd.Default(c, req) })
				hmu.Unlock()
				inSetup <- struct{}{}
			}})
		}
	} else {
		e.gd.mu.Lock()
		e.gd.gated["10.0.1.1"] = true
		e.gd.gated["10.0.1.2"] = true
		e.gd.mu.Unlock()
	}
	ctrl.Close() // the control connection is lost
	inFlight := false
	if phase == "setup" || phase == "register" {
		select {
		case <-inSetup:
			inFlight = true
		case <-time.After(3 * time.Second):
		}
	} else {
		dl := time.Now().Add(3 * time.Second)
		for e.gd.arrivals() == 0 && time.Now().Before(dl) {
			time.Sleep(200 * time.Microsecond)
		}
		inFlight = e.gd.arrivals() > 0
	}
	e.info["reconnect_in_flight"] = inFlight
	ok := e.closeWatch(10 * time.Second)
	// now let the reconnect go on
	if phase == "setup" || phase == "register" {
		hmu.Lock()
		hs := held
		hmu.Unlock()
		for _, h := range hs {
			h()
		}
	} else {
		for i := 0; i < e.gd.arrivals(); i++ {
			e.gd.req(i).release <- true
		}
	}
	if !ok {
		e.v("close-never-returns", "", "Close during a control-connection reconnect (%s phase) did not return within 10 s", phase)
		emit(o, "session-reconnect", inFlight, "", e.viol, e.info)
		return
	}
	e.afterClose()
	emit(o, "session-reconnect", inFlight, "", e.viol, e.info)
}

// S7: Close while node events keep arriving
func scenEvents(o *hlib.Out, rng *hlib.Rng) {
	e, err := newSessEnv("close-during-events", 3, 1, nil)
	if err != nil {
		e.v("harness", "", "NewSession: %v", err)
		emit(o, "session-events", false, "", e.viol, e.info)
		e.done()
		return
	}
	defer e.done()
	stop := make(chan struct{})
	var pushed int64
	go func() {
		for {
			select {
			case <-stop:
				return
			default:
			}
			for _, nd := range e.nodes {
				if nd.PushEvent(node.StatusChangeEvent{Change: "UP", IP: e.nodes[1].IP(), Port: 9042}) > 0 {
					atomic.AddInt64(&pushed, 1)
				}
				nd.PushEvent(node.SchemaChangeEvent{Change: "UPDATED", Target: "KEYSPACE", Keyspace: "demo"})
			}
			time.Sleep(300 * time.Microsecond)
		}
	}()
	time.Sleep(time.Duration(5+rng.Intn(20)) * time.Millisecond)
	ok := e.closeWatch(10 * time.Second)
	close(stop)
	e.info["events_pushed"] = atomic.LoadInt64(&pushed)
	if !ok {
		e.v("close-never-returns", "", "Close while events arrive did not return within 10 s")
		emit(o, "session-events", true, "", e.viol, e.info)
		return
	}
	e.afterClose()
	emit(o, "session-events", atomic.LoadInt64(&pushed) > 0, "", e.viol, e.info)
}

// S8: NewSession that fails after the control connection was made (NewSession calls Close itself)
func scenInitFails(o *hlib.Out) {
	e, err := newSessEnv("init-fails", 2, 1, func(cfg *gocql.ClusterConfig, e *sessEnv) {
		e.nodes[0].AddRule(node.Rule{Match: node.MatchStatement("system.peers", node.OpQuery), Do: func(c *node.ServerConn, req *node.Request) {
			c.Reply(req, node.Error{Code: node.ErrServer, Message: "verif: peers unavailable"})
		}})
	})
	defer e.done()
	e.info["newsession_error"] = fmt.Sprint(err)
	if err == nil {
		// the driver tolerated the error: an ordinary session
		if !e.closeWatch(10 * time.Second) {
			e.v("close-never-returns", "", "Close did not return within 10 s")
		} else {
			e.afterClose()
		}
		emit(o, "session-init-fails", false, "", e.viol, e.info)
		return
	}
	deadline := time.Now().Add(4 * time.Second)
	var open, left int
	var sample string
	var which []string
	for {
		open, which = openClientEnds(e.net)
		left, sample = e.newGoroutines()
		if (open == 0 && left <= 0) || time.Now().After(deadline) {
			break
		}
		time.Sleep(5 * time.Millisecond)
	}
	if open > 0 {
		e.v("conn-open-after-close", "", "NewSession failed (%v) but %d connection(s) stay open: %s", err, open, strings.Join(which, " "))
	}
	if left > 0 {
		e.v("goroutine-after-close", "", "NewSession failed (%v) but %d driver goroutine(s) stay alive, e.g.\n%s", err, left, sample)
	}
	emit(o, "session-init-fails", true, "", e.viol, e.info)
}

// S9: a host is added (ring refresh discovers it) after Session.Close has closed the pools but
// before it has finished: Close is held inside controlConn.close because the control connection's
// heartbeat goroutine is waiting for an OPTIONS answer.
func scenAddHostDuringClose(o *hlib.Out) {
	var heldOptions int32
	e, err := newSessEnv("add-host-during-close", 2, 1, func(cfg *gocql.ClusterConfig, e *sessEnv) {
		// installed before the session exists: the very first heartbeat (1 s after connect) is held
		for _, nd := range e.nodes {
			nd := nd
			nd.AddRule(node.Rule{Match: node.MatchOp(node.OpOptions), Do: func(c *node.ServerConn, req *node.Request) {
				if len(c.Registered()) > 0 {
					atomic.AddInt32(&heldOptions, 1) // the control connection's heartbeat: never answered
					return
				}
				nd.Default(c, req)
			}})
		}
	})
	if err != nil {
		e.v("harness", "", "NewSession: %v", err)
		emit(o, "session-add-host", false, "", e.viol, e.info)
		e.done()
		return
	}
	defer e.done()
	dl := time.Now().Add(6 * time.Second)
	for atomic.LoadInt32(&heldOptions) == 0 && time.Now().Before(dl) {
		time.Sleep(time.Millisecond)
	}
	if atomic.LoadInt32(&heldOptions) == 0 {
		e.info["skipped"] = "the control connection sent no heartbeat within 6 s"
		e.closeWatch(30 * time.Second)
		emit(o, "session-add-host", false, "", e.viol, e.info)
		return
	}
	third := e.net.AddNode("10.0.1.3:9042")
	cdone := make(chan struct{})
	go func() { e.safeClose(); close(cdone) }()
	// pools closed: only the control connection is left open
	e.net.WaitFor(2*time.Second, func() bool { n, _ := openClientEnds(e.net); return n <= 1 })
	open0, _ := openClientEnds(e.net)
	e.info["open_while_close_blocked"] = open0
	// a second Close that overlaps the first (which is still inside controlConn.close) returns at once
	c2 := make(chan struct{})
	go func() { e.safeClose(); close(c2) }()
	select {
	case <-c2:
	case <-time.After(3 * time.Second):
		e.v("second-close-blocks", "", "a second Close overlapping a Close in progress did not return within 3 s")
	}
	select {
	case <-cdone:
		e.info["first_close_still_running"] = false
	default:
		e.info["first_close_still_running"] = true
	}
	rdone := make(chan error, 1)
	go func() { rdone <- gocql.VerifC17RefreshRing(e.s) }()
	e.net.WaitFor(time.Second, func() bool { return third.TotalConns() > 0 })
	e.info["conns_to_new_host"] = third.TotalConns()
	select {
	case <-cdone:
	case <-time.After(10 * time.Second):
		e.v("close-never-returns", "", "Close (held behind the control heartbeat) did not return within 10 s")
		emit(o, "session-add-host", true, "", e.viol, e.info)
		return
	}
	select {
	case <-rdone:
	case <-time.After(5 * time.Second):
		e.v("refresh-never-returns", "", "refreshRing during Close did not return within 5 s")
	}
	e.afterClose()
	emit(o, "session-add-host", true, "", e.viol, e.info)
}

// S10: a host is removed (node DOWN event) while its pool is still empty: the pool's first,
// synchronous connect is held in the dialer. removeHost must close the pool whatever its size, so
// that the connect, when it completes, closes its connection; then Session.Close: every connection
// ever dialled must be closed. Variant "refill": the removed pool's connect completes only after
// Session.Close.
func scenRemoveEmptyPool(o *hlib.Out, afterClose bool) {
	name := "remove-host-empty-pool"
	if afterClose {
		name += "-late"
	}
	e, err := newSessEnv(name, 2, 1, nil)
	if err != nil {
		e.v("harness", "", "NewSession: %v", err)
		emit(o, "session-remove-empty", false, "", e.viol, e.info)
		e.done()
		return
	}
	defer e.done()
	e.gd.mu.Lock()
	e.gd.gated["10.0.1.3"] = true
	e.gd.mu.Unlock()
	third := e.net.AddNode("10.0.1.3:9042")
	go gocql.VerifC17RefreshRing(e.s) // discovers the third node: addHost -> fill -> connect -> (held) dial
	dl := time.Now().Add(3 * time.Second)
	for e.gd.arrivals() == 0 && time.Now().Before(dl) {
		time.Sleep(200 * time.Microsecond)
	}
	if e.gd.arrivals() == 0 {
		e.v("harness", "", "the refresh did not start connecting to the new host")
		emit(o, "session-remove-empty", false, "", e.viol, e.info)
		return
	}
	before := len(gocql.VerifC17SessionPools(e.s))
	// the node is reported DOWN: handleNodeDown -> policyConnPool.removeHost on a pool with 0 connections
	sent := 0
	for _, nd := range e.nodes {
		sent += nd.PushEvent(node.StatusChangeEvent{Change: "DOWN", IP: third.IP(), Port: 9042})
	}
	dl = time.Now().Add(4 * time.Second) // events are debounced for one second
	for len(gocql.VerifC17SessionPools(e.s)) >= before && time.Now().Before(dl) {
		time.Sleep(2 * time.Millisecond)
	}
	removed := len(gocql.VerifC17SessionPools(e.s)) < before
	e.info["down_events_sent"] = sent
	e.info["pool_removed_while_empty"] = removed
	time.Sleep(5 * time.Millisecond) // removeHost closes the pool on a goroutine of its own
	if !afterClose {
		e.gd.req(0).release <- true // the held connect completes on the removed pool
		e.net.WaitFor(2*time.Second, func() bool { return third.TotalConns() > 0 })
		// it must close what it dialled, now: the pool was closed by removeHost
		e.net.WaitFor(2*time.Second, func() bool { return third.TotalConns() > 0 && third.OpenConns() == 0 })
		if removed && third.TotalConns() > 0 && third.OpenConns() > 0 {
			e.v("conn-in-removed-pool", "", "the pool of a removed host (removed while empty, first connect in flight) kept the connection that connect made afterwards: removeHost did not close the pool")
		}
	}
	if !e.closeWatch(10 * time.Second) {
		e.v("close-never-returns", "", "Close did not return within 10 s")
		emit(o, "session-remove-empty", removed, "", e.viol, e.info)
		return
	}
	if afterClose {
		select {
		case e.gd.req(0).release <- true:
		default:
		}
	}
	e.afterClose()
	emit(o, "session-remove-empty", removed, "", e.viol, e.info)
}

// S11: connect attempts that fail after the transport has been dialled (AuthProvider error, ERROR in
// reply to STARTUP, USE keyspace failure) during the initial fill, a refill after a lost connection
// and a control-connection reconnect. Every early-return path between DialHost and the connection
// being owned by a pool (or the control connection) must close the transport: at quiescence the open
// links of the in-memory network are exactly the connections the driver owns, and none after Close.
func scenFailedConnects(o *hlib.Out, rng *hlib.Rng, mode string) {
	var calls int32
	var failAt sync.Map // call number -> true
	failNext := func(n int32) { failAt.Store(atomic.LoadInt32(&calls)+n, true) }
	var armed int32 // modes startup/use: the next matching request gets an error
	e, err := newSessEnv("failed-connect-"+mode, 2, 2, func(cfg *gocql.ClusterConfig, e *sessEnv) {
		if mode == "auth" {
			k := int32(2 + rng.Intn(3)) // a pool connection of the initial fill (call 1 is the control connection)
			failAt.Store(k, true)
			e.info["auth_fail_call_initial"] = k
			cfg.AuthProvider = func(h *gocql.HostInfo) (gocql.Authenticator, error) {
				n := atomic.AddInt32(&calls, 1)
				if _, bad := failAt.Load(n); bad {
					return nil, fmt.Errorf("verif: auth provider unavailable (call %d)", n)
				}
				return nil, nil
			}
		}
	})
	if err != nil {
		e.v("harness", "", "NewSession: %v", err)
		emit(o, "session-failed-connect", false, "", e.viol, e.info)
		e.done()
		return
	}
	defer e.done()
	if mode != "auth" {
		for _, nd := range e.nodes {
			nd := nd
			match := node.MatchOp(node.OpStartup)
			if mode == "use" {
				match = node.MatchStatement("USE", node.OpQuery)
			}
			nd.AddRule(node.Rule{Match: match, Do: func(c *node.ServerConn, req *node.Request) {
				if atomic.CompareAndSwapInt32(&armed, 1, 0) {
					c.Reply(req, node.Error{Code: node.ErrServer, Message: "verif: " + mode + " refused"})
					return
				}
				nd.Default(c, req)
			}})
		}
		failNext = func(int32) { atomic.StoreInt32(&armed, 1) }
	}
	// owned = connections in the session's pools + the control connection (if it is up)
	check := func(phase string) {
		var open, owned int
		var which []string
		ok := e.net.WaitFor(3*time.Second, func() bool {
			open, which = openClientEnds(e.net)
			owned = 0
			for _, n := range gocql.VerifC17SessionPools(e.s) {
				owned += n
			}
			ctrl := 0
			for _, nd := range e.nodes {
				for _, c := range nd.Conns() {
					if len(c.Registered()) > 0 && c.Open() {
						ctrl = 1
					}
				}
			}
			owned += ctrl
			return open == owned
		})
		// WaitFor only re-evaluates on network events: look once more after a pause
		if !ok {
			time.Sleep(300 * time.Millisecond)
			open, which = openClientEnds(e.net)
		}
		e.info["open_"+phase] = open
		e.info["owned_"+phase] = owned
		if open > owned {
			e.v("transport-leaked-on-failed-connect", "", "%s: %d transport(s) dialled by the driver are open but only %d connection(s) are owned by its pools / control connection (open links: %s): a connect attempt that failed after DialHost did not close what it had dialled",
				phase, open, owned, strings.Join(which, " "))
		}
	}
	check("initial-fill")
	// refill: a pool connection is lost, the connect that replaces it fails
	failNext(1)
	killed := false
	for _, nd := range e.nodes {
		for _, c := range nd.Conns() {
			if !killed && len(c.Registered()) == 0 && c.Open() {
				c.Close()
				killed = true
			}
		}
	}
	time.Sleep(250 * time.Millisecond) // fillingStopped backs off up to 130 ms after the failed connect
	check("refill")
	// control reconnect: the control connection is lost, the first reconnect attempt fails
	failNext(1)
	for _, nd := range e.nodes {
		for _, c := range nd.Conns() {
			if len(c.Registered()) > 0 && c.Open() {
				c.Close()
			}
		}
	}
	time.Sleep(100 * time.Millisecond)
	check("control-reconnect")
	e.info["provider_calls"] = atomic.LoadInt32(&calls)
	if !e.closeWatch(10 * time.Second) {
		e.v("close-never-returns", "", "Close did not return within 10 s")
		emit(o, "session-failed-connect", true, "", e.viol, e.info)
		return
	}
	e.afterClose()
	emit(o, "session-failed-connect", killed, "", e.viol, e.info)
}

// S12: Session.Close while the control connection's heartbeat goroutine is parked OUTSIDE its select:
// the node holds the answer to the heartbeat OPTIONS (rule installed before the session exists,
// request timeout far above the scenario's duration, the park is confirmed in a goroutine dump).
// Close must still stop that goroutine: after the answer is let through and Close has returned, no
// goroutine may be left in controlConn.heartBeat.
func scenCloseHeartbeatParked(o *hlib.Out) {
	var mu sync.Mutex
	var held []func()
	var heldN int32
	e, err := newSessEnv("close-heartbeat-parked", 2, 1, func(cfg *gocql.ClusterConfig, e *sessEnv) {
		cfg.Timeout = 20 * time.Second // the heartbeat waits for its OPTIONS answer for the whole scenario
		for _, nd := range e.nodes {
			nd := nd
			nd.AddRule(node.Rule{Match: node.MatchOp(node.OpOptions), Do: func(c *node.ServerConn, req *node.Request) {
				if len(c.Registered()) > 0 { // only the control connection registers for events
					mu.Lock()
					held = append(held, func() { nd.Default(c, req) })
					mu.Unlock()
					atomic.AddInt32(&heldN, 1)
					return
				}
				nd.Default(c, req)
			}})
		}
	})
	if err != nil {
		e.v("harness", "", "NewSession: %v", err)
		emit(o, "session-heartbeat-parked", false, "", e.viol, e.info)
		e.done()
		return
	}
	defer e.done()
	parked := false
	dl := time.Now().Add(8 * time.Second) // the first heartbeat is sent one second after the control connection is up
	for time.Now().Before(dl) {
		if atomic.LoadInt32(&heldN) > 0 && waitGoroutine("(*controlConn).writeFrame", 50*time.Millisecond) {
			parked = true
			break
		}
		time.Sleep(2 * time.Millisecond)
	}
	e.info["heartbeat_parked_in_writeFrame"] = parked
	if !parked {
		// nothing to judge: report it as such, not as a violation of the property
		e.info["skipped"] = "the control heartbeat did not get parked within 8 s"
		e.closeWatch(30 * time.Second)
		emit(o, "session-heartbeat-parked", false, "", e.viol, e.info)
		return
	}
	cdone := make(chan struct{})
	go func() { e.safeClose(); close(cdone) }()
	// Close either waits inside controlConn.close for the heartbeat goroutine, or has gone past it
	dl = time.Now().Add(5 * time.Second)
	for time.Now().Before(dl) {
		select {
		case <-cdone:
			dl = time.Now()
		default:
			if waitGoroutine("(*controlConn).close", 20*time.Millisecond) {
				dl = time.Now()
			}
		}
	}
	mu.Lock()
	hs := held
	mu.Unlock()
	for _, h := range hs {
		h() // the heartbeat's OPTIONS is answered now
	}
	select {
	case <-cdone:
	case <-time.After(15 * time.Second):
		e.v("close-never-returns", "", "Close called while the control heartbeat waited for its OPTIONS answer did not return within 15 s after the answer")
		emit(o, "session-heartbeat-parked", true, "", e.viol, e.info)
		return
	}
	gone := false
	dl = time.Now().Add(6 * time.Second)
	for time.Now().Before(dl) {
		if n, _ := gocqlGoroutines("(*controlConn).heartBeat"); n == 0 {
			gone = true
			break
		}
		time.Sleep(5 * time.Millisecond)
	}
	if !gone {
		_, sample := gocqlGoroutines("(*controlConn).heartBeat")
		e.v("heartbeat-after-close", "", "Close returned but the control connection's heartbeat goroutine is still running 6 s later (it was waiting for an OPTIONS answer when Close was called):\n%s", sample)
	}
	e.afterClose()
	emit(o, "session-heartbeat-parked", true, "", e.viol, e.info)
}

// S13: a pooled connection is closed because it exceeded gocql.TimeoutLimit (Conn.handleTimeout), one
// of the causes of "a connection reported closed": it must be removed from its pool and replaced.
// Systematic: TimeoutLimit = 1, NumConns 1 and 2, EXECUTEs left unanswered until connections close.
func scenTimeoutLimit(o *hlib.Out, numConns int) {
	old := gocql.TimeoutLimit
	gocql.TimeoutLimit = 1
	defer func() { gocql.TimeoutLimit = old }()
	var hold int32 = 0
	e, err := newSessEnv(fmt.Sprintf("timeout-limit-%dconn", numConns), 1, numConns, func(cfg *gocql.ClusterConfig, e *sessEnv) {
		cfg.Timeout = 150 * time.Millisecond
		cfg.RetryPolicy = nil
		for _, nd := range e.nodes {
			nd := nd
			nd.AddRule(node.Rule{Match: node.MatchStatement("FROM kv", node.OpExecute), Do: func(c *node.ServerConn, req *node.Request) {
				if atomic.LoadInt32(&hold) == 1 {
					return // never answered: the request times out on the driver's side
				}
				nd.Default(c, req)
			}})
		}
	})
	if err != nil {
		e.v("harness", "", "NewSession: %v", err)
		emit(o, "session-timeout-limit", false, "", e.viol, e.info)
		e.done()
		return
	}
	defer e.done()
	if err := queryOnce(e.s); err != nil {
		e.v("harness", "", "warm-up query failed: %v", err)
	}
	poolLinksClosed := func() int {
		n := 0
		for _, nd := range e.nodes {
			for _, c := range nd.Conns() {
				if len(c.Registered()) == 0 && c.Link().ClientClosed() {
					n++
				}
			}
		}
		return n
	}
	atomic.StoreInt32(&hold, 1)
	timeouts := 0
	for i := 0; i < 3*numConns+2 && poolLinksClosed() == 0; i++ {
		if err := queryOnce(e.s); err != nil {
			timeouts++
		}
	}
	atomic.StoreInt32(&hold, 0)
	e.net.WaitFor(2*time.Second, func() bool { return poolLinksClosed() > 0 })
	closedByLimit := poolLinksClosed()
	e.info["request_timeouts"] = timeouts
	e.info["conns_closed_by_timeout_limit"] = closedByLimit
	if closedByLimit == 0 {
		e.v("timeout-limit-not-applied", "", "%d unanswered requests with TimeoutLimit=1 closed no connection", timeouts)
	}
	// removed and replaced: the pool is back at its size and owns exactly the open transports
	var open, owned, pooled int
	var which []string
	settled := func() bool {
		open, which = openClientEnds(e.net)
		pooled = 0
		for _, n := range gocql.VerifC17SessionPools(e.s) {
			pooled += n
		}
		owned = pooled + 1 // + the control connection
		return open == owned && pooled == numConns
	}
	dl := time.Now().Add(4 * time.Second)
	for !settled() && time.Now().Before(dl) {
		time.Sleep(5 * time.Millisecond)
	}
	e.info["open_after_limit"] = open
	e.info["pooled_after_limit"] = pooled
	if owned > open {
		e.v("closed-conn-in-pool", "", "after a connection was closed for exceeding TimeoutLimit the pools count %d connection(s) but only %d pool transport(s) are open (%s): the closed connection was not removed from its pool",
			pooled, open-1, strings.Join(which, " "))
	} else if pooled < numConns {
		e.v("closed-conn-not-replaced", "", "after a connection was closed for exceeding TimeoutLimit the pool holds %d of %d connections 4 s later", pooled, numConns)
	}
	failed := 0
	var lastErr error
	for i := 0; i < 2*numConns+1; i++ {
		if err := queryOnce(e.s); err != nil {
			failed++
			lastErr = err
		}
	}
	if failed > 0 {
		e.v("query-fails-after-timeout-close", "", "%d of %d queries failed after the timed-out connection should have been replaced (last error: %v)", failed, 2*numConns+1, lastErr)
	}
	if !e.closeWatch(10 * time.Second) {
		e.v("close-never-returns", "", "Close did not return within 10 s")
		emit(o, "session-timeout-limit", true, "", e.viol, e.info)
		return
	}
	e.afterClose()
	emit(o, "session-timeout-limit", closedByLimit > 0, "", e.viol, e.info)
}

func runSessions(o *hlib.Out) {
	rng := o.Rng
	reps := 1
	if o.Scale > 1 {
		reps = 6
	}
	if o.Search {
		reps *= 2
	}
	for r := 0; r < reps; r++ {
		scenPlain(o, 1, 1)
		scenPlain(o, 3, 2)
		scenPlain(o, 2, 4)
		scenLoad(o, rng, 1)
		scenLoad(o, rng, 1)
		scenLoad(o, rng, 4)
		scenRefresh(o, rng)
		scenReconnect(o, "dial")
		scenReconnect(o, "setup")
		scenReconnect(o, "register")
		scenEvents(o, rng)
		scenInitFails(o)
		scenAddHostDuringClose(o)
		scenCloseHeartbeatParked(o)
		scenRemoveEmptyPool(o, false)
		scenTimeoutLimit(o, 1)
		scenTimeoutLimit(o, 2)
		scenFailedConnects(o, rng, "auth")
		scenFailedConnects(o, rng, "startup")
		scenFailedConnects(o, rng, "use")
	}
	hangs, trials := 0, 5*reps
	for t := 0; t < trials; t++ {
		if scenRefreshRace(o, t) {
			hangs++
		}
	}
	o.Extra["session_refresh_queued_trials"] = trials
	o.Extra["session_refresh_queued_hangs"] = hangs
}
