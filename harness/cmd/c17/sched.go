package main

// Scheduling plumbing for the C17 harness: goroutine-dump based quiescence detection, the gated
// host dialer, and the parking hooks behind the trace points 1701/1702/1703 of connectionpool.go.

import (
	"context"
	"errors"
	"net"
	"runtime"
	"strings"
	"sync"
	"sync/atomic"
	"time"

	"github.com/gocql/gocql"
)

// ---- goroutine dumps -------------------------------------------------------------------------

type gInfo struct {
	status string // "chan receive", "select", "running", ...
	stack  string
}

var dumpBuf = make([]byte, 1<<20)

// dump returns every goroutine except the calling one.
func dump() []gInfo {
	for {
		n := runtime.Stack(dumpBuf, true)
		if n < len(dumpBuf) {
			return parseDump(string(dumpBuf[:n]))
		}
		dumpBuf = make([]byte, 2*len(dumpBuf))
	}
}

func parseDump(s string) []gInfo {
	var out []gInfo
	blocks := strings.Split(s, "\n\n")
	for i, b := range blocks {
		if i == 0 { // the caller
			continue
		}
		b = strings.TrimSpace(b)
		if !strings.HasPrefix(b, "goroutine ") {
			continue
		}
		lb, rb := strings.Index(b, "["), strings.Index(b, "]")
		if lb < 0 || rb < lb {
			continue
		}
		st := b[lb+1 : rb]
		if c := strings.Index(st, ","); c >= 0 {
			st = st[:c]
		}
		out = append(out, gInfo{status: st, stack: b})
	}
	return out
}

func busy(g gInfo) bool {
	top := ""
	if lines := strings.SplitN(g.stack, "\n", 3); len(lines) > 1 {
		top = lines[1]
	}
	switch {
	case strings.HasPrefix(g.status, "running"), strings.HasPrefix(g.status, "runnable"), strings.HasPrefix(g.status, "syscall"),
		strings.HasPrefix(g.status, "preempted"), strings.HasPrefix(g.status, "copystack"), strings.HasPrefix(g.status, "GC "),
		strings.HasPrefix(g.status, "waiting"), strings.HasPrefix(g.status, "idle"), strings.HasPrefix(g.status, "dead"):
		// (prefix: the runtime appends " (scan)" while the collector looks at the goroutine)
		return true
	case strings.HasPrefix(g.status, "semacquire") && !strings.HasPrefix(top, "sync."):
		// blocked on a semaphore of the runtime itself (a goroutine that wants to start a GC cycle waits
		// for the world semaphore this very dump is holding): not a logical wait, it goes on at once.
		// Waits of the program (WaitGroup, Mutex, Cond) have a sync.* function on top.
		return true
	case g.status == "sleep":
		// time.Sleep inside the driver (fillingStopped's back-off, reconnection policy): will wake by itself
		return strings.Contains(g.stack, "github.com/gocql/gocql.")
	}
	// Conn.exec arms a zero-duration timer and receives from its channel (its only plain channel
	// receive): the goroutine is blocked for an instant only
	if g.status == "chan receive" {
		if lines := strings.SplitN(g.stack, "\n", 3); len(lines) > 1 && strings.HasPrefix(lines[1], "github.com/gocql/gocql.(*Conn).exec(") {
			return true
		}
	}
	// a writer waiting for the write coalescer's flush timer (sub-millisecond) is about to run
	if strings.Contains(g.stack, "writeCoalescer).writeContext") {
		return true
	}
	return false
}

// quiesce waits until no other goroutine can run: every one of them is blocked on a channel, a
// select, a mutex or a pipe (driver sleeps count as "can run"). Timers that are merely armed
// (heartbeats) are not waited for.
func quiesce(timeout time.Duration) bool {
	deadline := time.Now().Add(timeout)
	spins := 0
	for {
		runtime.Gosched()
		idle := true
		for _, g := range dump() {
			if busy(g) {
				idle = false
				break
			}
		}
		if idle {
			return true
		}
		if time.Now().After(deadline) {
			return false
		}
		spins++
		if spins > 20 {
			time.Sleep(200 * time.Microsecond)
		}
	}
}

// gocqlGoroutineIDs returns the ids ("goroutine N") of goroutines with a gocql frame and their stacks.
func gocqlGoroutineIDs() map[string]string {
	out := map[string]string{}
	for _, g := range dump() {
		if strings.Contains(g.stack, "github.com/gocql/gocql.") {
			out[strings.Fields(g.stack)[1]] = g.stack
		}
	}
	return out
}

// gocqlGoroutines counts goroutines that have a frame of package gocql on their stack (optionally
// only those containing sub).
func gocqlGoroutines(sub string) (n int, sample string) {
	for _, g := range dump() {
		if strings.Contains(g.stack, "github.com/gocql/gocql.") && (sub == "" || strings.Contains(g.stack, sub)) {
			n++
			if sample == "" {
				sample = g.stack
			}
		}
	}
	return
}

// ---- gated dialer ----------------------------------------------------------------------------

type dialReq struct {
	idx     int
	release chan bool // true: go on and dial; false: fail
}

type gateDialer struct {
	inner gocql.HostDialer
	mu    sync.Mutex
	gated map[string]bool
	reqs  []*dialReq // every gated dial, in arrival order
}

func (g *gateDialer) DialHost(ctx context.Context, host *gocql.HostInfo) (*gocql.DialedHost, error) {
	ip := host.ConnectAddress().String()
	g.mu.Lock()
	gated := g.gated[ip]
	var r *dialReq
	if gated {
		r = &dialReq{idx: len(g.reqs), release: make(chan bool, 1)}
		g.reqs = append(g.reqs, r)
	}
	g.mu.Unlock()
	if r != nil {
		select {
		case ok := <-r.release:
			if !ok {
				return nil, &net.OpError{Op: "dial", Net: "tcp", Err: errors.New("verif: connection refused")}
			}
		case <-ctx.Done():
			return nil, &net.OpError{Op: "dial", Net: "tcp", Err: ctx.Err()}
		}
	}
	return g.inner.DialHost(ctx, host)
}

func (g *gateDialer) arrivals() int {
	g.mu.Lock()
	defer g.mu.Unlock()
	return len(g.reqs)
}

func (g *gateDialer) req(i int) *dialReq {
	g.mu.Lock()
	defer g.mu.Unlock()
	return g.reqs[i]
}

func (g *gateDialer) reset() {
	g.mu.Lock()
	g.reqs = nil
	g.mu.Unlock()
}

// ---- trace-point hooks -----------------------------------------------------------------------

type park struct{ ch chan struct{} }

type hooks struct {
	enabled int32
	mu      sync.Mutex
	f1      []*park // goroutines parked at 1701, arrival order
	have    []*park // goroutines parked at 1702, arrival order
	heDone  int64   // HandleError(closed) calls finished
}

var hk hooks

func (h *hooks) on(kind, a, b int) {
	if atomic.LoadInt32(&h.enabled) == 0 {
		return
	}
	switch kind {
	case gocql.VerifC17KindFillWindow:
		p := &park{ch: make(chan struct{})}
		h.mu.Lock()
		h.f1 = append(h.f1, p)
		h.mu.Unlock()
		<-p.ch
	case gocql.VerifC17KindConnectHave:
		p := &park{ch: make(chan struct{})}
		h.mu.Lock()
		h.have = append(h.have, p)
		h.mu.Unlock()
		<-p.ch
	case gocql.VerifC17KindHandleErr:
		atomic.AddInt64(&h.heDone, 1)
	}
}

func (h *hooks) counts() (f1, have int) {
	h.mu.Lock()
	defer h.mu.Unlock()
	return len(h.f1), len(h.have)
}

func (h *hooks) reset() {
	h.mu.Lock()
	h.f1, h.have = nil, nil
	h.mu.Unlock()
}

func (h *hooks) releaseF1(i int)   { h.mu.Lock(); p := h.f1[i]; h.mu.Unlock(); close(p.ch) }
func (h *hooks) releaseHave(i int) { h.mu.Lock(); p := h.have[i]; h.mu.Unlock(); close(p.ch) }
