// C17 harness: pools stay within bounds; a closed connection is removed and replaced; no connection
// survives pool close; Session.Close always returns.
//
// Four families of runs against the real driver (build tag verif):
//
//	pool      step-exact traces on a real hostConnPool (trace points 1701-1703 + gated dialer + scripted node)
//	refresh   operation traces on a real refreshDebouncer with a gated refreshFn
//	event     operation traces on a real eventDebouncer
//	session   whole sessions against scripted nodes: Close while queries / refreshes / reconnects are
//	          in flight, twice, concurrently; afterwards connections, goroutines and query results
//
// Every trace becomes a Coq correspondence case (C17.Corr.case); monitors run on what was observed.
package main

import (
	"fmt"
	"os"
	"runtime/debug"

	"github.com/gocql/gocql"
	"gocqlverif/hlib"
)

var sessInfos []map[string]interface{}

func emit(o *hlib.Out, kind string, nontrivial bool, term string, viol []violation, input interface{}) {
	if m, ok := input.(map[string]interface{}); ok && m["scenario"] != nil {
		sessInfos = append(sessInfos, m)
	}
	idx := -1
	if term != "" {
		idx = o.Case(kind, nontrivial, term)
	} else {
		o.Count(kind)
	}
	if o.Only >= 0 && idx != o.Only {
		return
	}
	for _, v := range viol {
		o.Violate(idx, v.kind, v.finding, v.detail, input)
	}
}

func main() {
	o := hlib.Init("C17")
	debug.SetGCPercent(400)
	o.Rule = "pool: random step sequences (fill/pick/recheck/dial ok|fail|keyspace-fail/append/kill/close/spurious error) on pools of size 0..6 with and without keyspace, " +
		"then close+drain; refresh/event: random operation sequences incl. requests racing stop (the former F-C17-1 trigger); session: Close under load / twice / concurrently / during refresh and reconnect. " +
		"distinct = distinct Coq case term; non-trivial = the trace contains a contended recheck window, a dial failure, a killed connection, a late append or a blocked stop"
	gocql.VerifSetEventHook(hk.on)

	runPools(o)
	runDebouncers(o)
	runSessions(o)

	o.Extra["session_scenarios"] = sessInfos
	o.Finish("From GocqlV Require Import Lib.Base C17.Model C17.Corr.", "C17.Corr.case", "C17.Corr.run")
	if len(o.Violations) > 0 {
		fmt.Fprintf(os.Stderr, "c17: %d monitor violation(s)\n", len(o.Violations))
	}
}

func runPools(o *hlib.Out) {
	env, err := newPoolEnv()
	if err != nil {
		o.Violate(-1, "harness", "", "cannot create the session for pool traces: "+err.Error(), nil)
		return
	}
	defer env.close()
	n := 120 * o.Scale
	if o.Search {
		n = 200 * o.Scale / 5
	}
	stats := map[string]int{}
	for i := 0; i < n; i++ {
		r := o.Rng
		var size int
		switch x := r.Intn(20); {
		case x <= 1:
			size = 0 // newHostConnPool panics on a negative size (make with negative capacity); the property quantifies over 1..n
		case x == 2:
			size = 6
		default:
			size = 1 + r.Intn(4)
		}
		ks := ""
		if r.Chance(30) {
			ks = "ks"
		}
		nops := 8 + r.Intn(30)
		profile := r.Intn(5)
		run := runPoolTrace(env, r, size, ks, nops, profile)
		for retry := 0; run.imprecise && retry < 3; retry++ {
			// verdicts are only taken at harness-confirmed quiescent points: a trace in which a goroutine
			// turned up that no step accounts for is discarded and replaced
			stats["discarded-imprecise"]++
			run = runPoolTrace(env, r, size, ks, nops, profile)
		}
		if run.imprecise {
			stats["discarded-imprecise"]++
			continue
		}
		nontrivial := run.nWindow > 0 || run.nFail > 0 || run.nKill > 0 || run.nLate > 0
		stats["steps"] += len(run.steps)
		stats["window"] += run.nWindow
		stats["dial-fail"] += run.nFail
		stats["kill"] += run.nKill
		stats["kill-in-hand"] += run.nInHandKill
		stats["late-append"] += run.nLate
		emit(o, "pool", nontrivial, run.caseTerm(), run.viol, map[string]interface{}{"size": size, "keyspace": ks, "ops": run.ops})
	}
	if stats["discarded-imprecise"]*10 > n {
		// losing track now and then is scheduling noise; losing it this often means the pool starts
		// goroutines the harness has no step for
		o.Violate(-1, "pool-untrackable", "", fmt.Sprintf("%d of %d pool traces had goroutines parked at the trace points that no harness step accounts for", stats["discarded-imprecise"], n), nil)
	}
	o.Extra["pool_stats"] = stats
}
