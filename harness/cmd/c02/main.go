// C02 harness: gocql.Marshal followed by gocql.Unmarshal of the produced bytes, into the same Go type and
// into other documented target types; monitor "decode(encode v) means v, or encode fails"; every call is
// recorded as a correspondence case for the shared Coq model (C12/Model.v via C02/Corr.v).
package main

import (
	"fmt"

	"github.com/gocql/gocql"
	"gocqlverif/cmd/internal/mv"
	"gocqlverif/hlib"
)

func main() {
	o := hlib.Init("C02")
	r := o.Rng
	rn := mv.NewRunner(o, "C02")
	o.Rule = "inputs: (protocol version 1-5, CQL type tree to depth 3, Go value incl. named types / pointers / nil at every level, list of target Go types: " +
		"the source's own type, documented other types, pointer-to-pointer); systematic integer boundary stream (5 fixed-width integer column types + varint) x 20 Go integer types x targets; " +
		"null / empty / zero stream over every native type. distinct = distinct Coq case term; non-trivial = the call succeeded on a non-empty encoding"
	S := o.Scale
	pvOf := func() int { return 1 + r.Intn(5) }

	intTargets := func(k mv.IK) []*mv.GTy {
		ts := []*mv.GTy{mv.TInt(k, false), mv.TInt(k, true)}
		ts = append(ts, mv.TInt(mv.IK(r.Intn(10)), r.Chance(30)))
		switch r.Intn(4) {
		case 0:
			ts = append(ts, mv.TK("big"))
		case 1:
			ts = append(ts, mv.TK("str"))
		case 2:
			ts = append(ts, mv.TPtr(mv.TInt(mv.I64, false)))
		}
		return ts
	}

	// 1. systematic integer-family round trips
	for _, id := range mv.IntIDs {
		for k := mv.IK(0); k < 10; k++ {
			for named := 0; named < 2; named++ {
				bs := mv.KindBoundaries(k)
				n := 2 * S
				if n > len(bs) || o.Tier == "thorough" {
					n = len(bs)
				}
				start := r.Intn(len(bs))
				for j := 0; j < n; j++ {
					z := bs[(start+j*5)%len(bs)]
					if j == 0 {
						z = k.Max()
					} else if j == 1 {
						z = k.Min()
					}
					rn.RoundTrip("rt-int-systematic", pvOf(), mv.Native(gocql.Type(id)), mv.VInt(k, named == 1, z), intTargets(k))
				}
			}
		}
	}
	for i := 0; i < 40*S; i++ {
		id := mv.IntIDs[r.Intn(len(mv.IntIDs))]
		z := mv.RandBigInt(r)
		ts := []*mv.GTy{mv.TK("big"), mv.TInt(mv.I64, false), mv.TInt(mv.U64, false), mv.TInt(mv.IK(r.Intn(10)), r.Chance(30)), mv.TK("str")}
		rn.RoundTrip("rt-int-bigInt", pvOf(), mv.Native(gocql.Type(id)), mv.VBig(z), ts)
	}

	// varint: every byte-length boundary, from big.Int and from int64, back into int64 / big.Int / uint64
	for _, z := range mv.VarintBoundaries() {
		t := mv.Native(gocql.TypeVarint)
		ts := []*mv.GTy{mv.TInt(mv.I64, false), mv.TK("big"), mv.TInt(mv.U64, false)}
		rn.RoundTrip("rt-varint-systematic", pvOf(), t, mv.VBig(z), ts)
		if z.IsInt64() {
			rn.RoundTrip("rt-varint-systematic", pvOf(), t, mv.VInt64(mv.I64, r.Chance(30), z.Int64()), ts)
		}
	}

	// duration: vint length boundaries of the nanosecond field (and of months / days)
	{
		t := mv.Native(gocql.TypeDuration)
		i32 := mv.KindBoundaries(mv.I32)
		for j, z := range mv.KindBoundaries(mv.I64) {
			n := z.Int64()
			m, d := int32(i32[(j*3)%len(i32)].Int64()), int32(i32[(j*7+1)%len(i32)].Int64())
			ts := []*mv.GTy{mv.TK("cqldur"), mv.TPtr(mv.TK("cqldur"))}
			rn.RoundTrip("rt-duration-systematic", pvOf(), t, mv.VCqlDur(m, d, n), ts)
			if j%3 == int(o.Seed%3) {
				rn.RoundTrip("rt-duration-systematic", pvOf(), t, mv.VInt64(mv.I64, false, n), ts)
				rn.RoundTrip("rt-duration-systematic", pvOf(), t, mv.VDur(n), ts)
			}
		}
	}

	// documentation matrix: every native type x every documented source Go type x every documented target Go type
	// (value target and pointer target alternately); plus pre-epoch instants with sub-day parts
	for rep := 0; rep < S; rep++ {
		for _, id := range mv.NativeIDs {
			t := mv.Native(gocql.Type(id))
			for _, v := range mv.DocSources(r, id) {
				var ts []*mv.GTy
				for j, g := range mv.DocTargets(id) {
					if (j+rep)%3 == 2 {
						g = mv.TPtr(g)
					}
					ts = append(ts, g)
				}
				rn.RoundTrip("rt-doc-matrix", pvOf(), t, v, ts)
			}
		}
		for _, str := range []string{"127.0.0.1", "0.0.0.0", "255.255.255.255", "::ffff:127.0.0.1", "::FFFF:c0a8:0101", "0:0:0:0:0:ffff:10.1.2.3", "::ffff:0:0", "::1", "::", "2001:db8::8a2e:370:7334", "2001:0DB8:0000:0000:0000:8A2E:0370:7334", "fe80::1", "64:ff9b::192.0.2.33", "::1.2.3.4", "1:2:3:4:5:6:7:8", "01.2.3.4", "1.2.3", "fe80::1%eth0", "1:2:3:4:5:6:7:8:9", "not an ip"} {
			rn.RoundTrip("rt-inet-string", pvOf(), mv.Native(gocql.TypeInet), mv.VStr(false, str), []*mv.GTy{mv.TK("ip"), mv.TK("str"), mv.TPtr(mv.TK("ip"))})
		}
		for i := 0; i < 15; i++ {
			rn.RoundTrip("rt-inet-string", pvOf(), mv.Native(gocql.TypeInet), mv.VStr(false, mv.InetString(r)), []*mv.GTy{mv.TK("ip"), mv.TK("str")})
		}
		for _, bc := range mv.BytesCases(r) {
			rn.RoundTrip("rt-bytes-targets", pvOf(), bc.T, bc.V, bc.Gs)
		}
		for i := 0; i < 12; i++ {
			v := mv.PreEpochTime(r)
			rn.RoundTrip("rt-pre-epoch", pvOf(), mv.Native(gocql.TypeTimestamp), v, []*mv.GTy{mv.TK("time"), mv.TInt(mv.I64, false)})
			rn.RoundTrip("rt-pre-epoch", pvOf(), mv.Native(gocql.TypeDate), v, []*mv.GTy{mv.TK("time"), mv.TK("str")})
			rn.RoundTrip("rt-pre-epoch", pvOf(), &mv.Ty{K: "list", E: mv.Native(gocql.TypeDate)}, mv.VSlice(v.T, []*mv.Val{v}), []*mv.GTy{mv.TSlice(mv.TK("time"))})
		}
	}

	// deterministic systematic cases shared with the C12 harness (integer strings, vint / varint boundaries)
	for i, sc := range mv.SharedSystematic() {
		rn.RoundTrip(sc.Kind, 1+i%5, sc.T, sc.V, sc.Gs)
	}

	// 2. native columns
	for i := 0; i < 420*S; i++ {
		id := mv.NativeIDs[r.Intn(len(mv.NativeIDs))]
		t := mv.Native(gocql.Type(id))
		mode := 0
		if r.Chance(15) {
			mode = 1
		}
		v := mv.GenVal(r, t, mode, true)
		ts := []*mv.GTy{mv.SameTypeTarget(t, v, true), mv.GenTarget(r, t, 0)}
		if r.Chance(30) {
			ts = append(ts, mv.GenTarget(r, t, 1))
		}
		rn.RoundTrip(fmt.Sprintf("rt-native-mode%d", mode), pvOf(), t, v, ts)
	}

	// 3. nested types
	for i := 0; i < 330*S; i++ {
		t := mv.GenTy(r, 1+r.Intn(3))
		if t.K == "native" {
			t = &mv.Ty{K: []string{"list", "set"}[r.Intn(2)], E: t}
		}
		v := mv.GenVal(r, t, 0, true)
		ts := []*mv.GTy{mv.SameTypeTarget(t, v, true), mv.GenTarget(r, t, 0)}
		rn.RoundTrip("rt-nested-"+t.K, pvOf(), t, v, ts)
	}

	// 4. null / empty / zero: every native type, nil of several shapes, into value and pointer targets
	for rep := 0; rep < S; rep++ {
		for _, id := range mv.NativeIDs {
			t := mv.Native(gocql.Type(id))
			doc := mv.GenTarget(r, t, 0)
			for doc.K == "ptr" {
				doc = doc.E
			}
			nils := []*mv.Val{mv.VNil(), mv.VPtr(doc, nil), mv.VPtr(mv.TPtr(doc), mv.VPtr(doc, nil))}
			for _, v := range nils {
				rn.RoundTrip("rt-null", pvOf(), t, v, []*mv.GTy{doc, mv.TPtr(doc), mv.TPtr(mv.TPtr(doc))})
			}
		}
		for _, id := range []int{0x01, 0x0A, 0x0D, 0x03} {
			t := mv.Native(gocql.Type(id))
			for _, v := range []*mv.Val{mv.VStr(false, ""), mv.VStr(true, ""), mv.VBytes(false, []byte{}), mv.VBytes(false, nil), mv.VBytes(true, []byte{})} {
				rn.RoundTrip("rt-empty", pvOf(), t, v, []*mv.GTy{mv.TK("str"), mv.TPtr(mv.TK("str")), mv.TK("bytes"), mv.TPtr(mv.TK("bytes")), mv.TKN("bytes", true)})
			}
		}
		for _, id := range []int{0x0B, 0x11} {
			t := mv.Native(gocql.Type(id))
			rn.RoundTrip("rt-zero-time", pvOf(), t, mv.VTime(-62135596800, 0), []*mv.GTy{mv.TK("time"), mv.TPtr(mv.TK("time"))})
		}
		for _, t := range []*mv.Ty{{K: "list", E: mv.Native(gocql.TypeInt)}, {K: "map", Key: mv.Native(gocql.TypeText), E: mv.Native(gocql.TypeBigInt)}} {
			pv := pvOf()
			if t.K == "list" {
				e := mv.TInt(mv.I32, false)
				rn.RoundTrip("rt-empty-collection", pv, t, mv.VSlice(e, []*mv.Val{}), []*mv.GTy{mv.TSlice(e), mv.TPtr(mv.TSlice(e))})
				rn.RoundTrip("rt-empty-collection", pv, t, mv.VSlice(e, nil), []*mv.GTy{mv.TSlice(e), mv.TPtr(mv.TSlice(e))})
			} else {
				k, e := mv.TK("str"), mv.TInt(mv.I64, false)
				rn.RoundTrip("rt-empty-collection", pv, t, mv.VMapOf(k, e, nil, false), []*mv.GTy{mv.TMapOf(k, e), mv.TPtr(mv.TMapOf(k, e))})
				rn.RoundTrip("rt-empty-collection", pv, t, mv.VMapOf(k, e, nil, true), []*mv.GTy{mv.TMapOf(k, e), mv.TPtr(mv.TMapOf(k, e))})
			}
		}
	}

	for k, n := range rn.Stat {
		o.Extra[k] = n
	}
	rn.BigElementChecks()
	rn.SizeFieldBoundaryCases()
	rn.ShortUDTCases()
	rn.Recheck()
	o.Extra["coverage_matrix"] = rn.Matrix
	o.Finish("From GocqlV Require Import Lib.Base C12.Model C12.Spec C12.Corr C02.Corr.", "C02.Corr.case", "C02.Corr.run")
}
