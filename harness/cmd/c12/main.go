// C12 harness: gocql.Marshal output compared with an independently written reference serializer
// (mv.SpecEncode, from the protocol specification) applied to what the Go value means for the column
// (mv.Denote, from gocql's documentation table), and gocql.Unmarshal of reference-produced bytes.
// Every call is also recorded as a correspondence case for the Coq model (C12/Corr.v).
package main

import (
	"fmt"
	"math/big"

	"github.com/gocql/gocql"
	"gocqlverif/cmd/internal/mv"
	"gocqlverif/hlib"
)

func inKind(k mv.IK, z *big.Int, t *mv.Ty) bool {
	_, ok := mv.SpecEncode(4, t, &mv.CV{K: "int", Z: z})
	return ok
}

func main() {
	o := hlib.Init("C12")
	r := o.Rng
	rn := mv.NewRunner(o, "C12")
	o.Rule = "inputs: (protocol version 1-5, CQL type tree to depth 3, Go value of a documented or undocumented Go type incl. named types, pointers, nil at every level; " +
		"systematic integer boundary stream over 6 integer column types x 20 Go integer types; reference-encoded values decoded into generated target types; truncated / corrupted encodings). " +
		"distinct = distinct Coq case term; non-trivial = the call succeeded on a non-empty encoding"
	S := o.Scale
	pvOf := func() int { return 1 + r.Intn(5) }

	// 1. systematic integer-family stream: every column type x every Go integer type x boundary values
	for _, id := range mv.IntIDs {
		for k := mv.IK(0); k < 10; k++ {
			for named := 0; named < 2; named++ {
				bs := mv.KindBoundaries(k)
				n := 4 * S
				if n > len(bs) || o.Tier == "thorough" {
					n = len(bs)
				}
				start := r.Intn(len(bs))
				for j := 0; j < n; j++ {
					z := bs[(start+j*7)%len(bs)]
					if j == 0 {
						z = k.Max()
					} else if j == 1 {
						z = k.Min()
					}
					rn.MarshalCase("marshal-int-systematic", pvOf(), mv.Native(gocql.Type(id)), mv.VInt(k, named == 1, z), true)
				}
			}
		}
	}
	// big.Int and strings into the integer family
	for i := 0; i < 60*S; i++ {
		id := mv.IntIDs[r.Intn(len(mv.IntIDs))]
		z := mv.RandBigInt(r)
		rn.MarshalCase("marshal-int-bigInt", pvOf(), mv.Native(gocql.Type(id)), mv.VBig(z), true)
		rn.MarshalCase("marshal-int-string", pvOf(), mv.Native(gocql.Type(id)), mv.VStr(false, z.String()), true)
	}

	// deterministic systematic cases shared with the C02 harness (integer strings, vint / varint boundaries):
	// marshal side against the specification, and the reference encoding decoded into the targets
	for i, sc := range mv.SharedSystematic() {
		pv := 1 + i%5
		rn.MarshalCase(sc.Kind, pv, sc.T, sc.V, true)
		c, null, ok := mv.Denote(sc.T, sc.V)
		if !ok || null {
			continue
		}
		if data, eok := mv.SpecEncode(pv, sc.T, c); eok {
			for _, g := range sc.Gs {
				rn.DecodeCase(sc.Kind+"-decode", pv, sc.T, data, g, c, false, true, "specification-conformant encoding")
			}
		}
	}

	// 2. native columns, documented sources (mode 0) and arbitrary sources (mode 1)
	for i := 0; i < 500*S; i++ {
		id := mv.NativeIDs[r.Intn(len(mv.NativeIDs))]
		mode := 0
		if r.Chance(30) {
			mode = 1
		}
		t := mv.Native(gocql.Type(id))
		v := mv.GenVal(r, t, mode, true)
		rn.MarshalCase(fmt.Sprintf("marshal-native-mode%d", mode), pvOf(), t, v, true)
	}

	// 3. nested types
	for i := 0; i < 350*S; i++ {
		t := mv.GenTy(r, 1+r.Intn(3))
		if t.K == "native" {
			t = &mv.Ty{K: []string{"list", "set"}[r.Intn(2)], E: t}
		}
		mode := 0
		if r.Chance(15) {
			mode = 1
		}
		v := mv.GenVal(r, t, mode, true)
		rn.MarshalCase("marshal-nested-"+t.K, pvOf(), t, v, true)
	}

	// 4. reference-encoded values decoded by the implementation
	for i := 0; i < 450*S; i++ {
		var t *mv.Ty
		if r.Chance(55) {
			t = mv.Native(gocql.Type(mv.NativeIDs[r.Intn(len(mv.NativeIDs))]))
		} else {
			t = mv.GenTy(r, 1+r.Intn(2))
		}
		pv := pvOf()
		v := mv.GenVal(r, t, 0, false)
		c, null, ok := mv.Denote(t, v)
		if !ok {
			continue
		}
		if pv <= 2 && c.HasNullElem() {
			continue // not a value of a protocol 1/2 collection
		}
		var data []byte
		if !null {
			var eok bool
			data, eok = mv.SpecEncode(pv, t, c)
			if !eok {
				continue
			}
			o.Case("spec-encode", true, fmt.Sprintf("CSpec %d %s %s (Some %s)", pv, t.Coq(), c.Coq(), hlib.ZList(data)))
		}
		nt := 1 + r.Intn(2)
		for j := 0; j < nt; j++ {
			mode := 0
			if r.Chance(20) {
				mode = 1
			}
			g := mv.GenTarget(r, t, mode)
			rn.DecodeCase("unmarshal-spec-"+t.K, pv, t, data, g, c, null, true, "specification-conformant encoding")
		}
	}
	// systematic: every integer column type x every integer target kind x boundary values that fit the column,
	// reference-encoded and decoded by the implementation
	for _, id := range mv.IntIDs {
		t := mv.Native(gocql.Type(id))
		for k := mv.IK(0); k < 10; k++ {
			var vals []*big.Int
			for _, z := range append(mv.KindBoundaries(k), mv.Boundaries()...) {
				if _, ok := mv.SpecEncode(4, t, &mv.CV{K: "int", Z: z}); ok {
					vals = append(vals, z)
				}
			}
			n := 8 * S
			if n > len(vals) {
				n = len(vals)
			}
			start := r.Intn(len(vals))
			for j := 0; j < n; j++ {
				z := vals[(start+j*3)%len(vals)]
				if j == 0 && inKind(k, k.Min(), t) {
					z = k.Min()
				} else if j == 1 && inKind(k, k.Max(), t) {
					z = k.Max()
				}
				c := &mv.CV{K: "int", Z: z}
				pv := pvOf()
				data, eok := mv.SpecEncode(pv, t, c)
				if !eok {
					continue
				}
				rn.DecodeCase("unmarshal-spec-int-systematic", pv, t, data, mv.TInt(k, r.Chance(30)), c, false, true, "specification-conformant encoding")
			}
		}
		for i := 0; i < 6*S; i++ {
			z := mv.Boundaries()[r.Intn(len(mv.Boundaries()))]
			c := &mv.CV{K: "int", Z: z}
			pv := pvOf()
			data, eok := mv.SpecEncode(pv, t, c)
			if !eok {
				continue
			}
			g := mv.TK("big")
			if i%2 == 1 {
				g = mv.TK("str")
			}
			rn.DecodeCase("unmarshal-spec-int-systematic", pv, t, data, g, c, false, true, "specification-conformant encoding")
		}
	}
	// systematic: every byte-length boundary of varint, reference-encoded, into int64 / big.Int / another integer type
	vb := mv.VarintBoundaries()
	for _, z := range vb {
		t := mv.Native(gocql.TypeVarint)
		c := &mv.CV{K: "int", Z: z}
		pv := pvOf()
		data, _ := mv.SpecEncode(pv, t, c)
		for _, g := range []*mv.GTy{mv.TInt(mv.I64, r.Chance(30)), mv.TK("big"), mv.TInt(mv.IK(r.Intn(10)), false)} {
			rn.DecodeCase("unmarshal-spec-varint-systematic", pv, t, data, g, c, false, true, "specification-conformant encoding")
		}
	}

	// documentation matrix: every native type x every documented source (marshal side against the specification)
	// and its reference encoding x every documented target type (decode side)
	for rep := 0; rep < S; rep++ {
		for _, id := range mv.NativeIDs {
			t := mv.Native(gocql.Type(id))
			for _, v := range mv.DocSources(r, id) {
				pv := pvOf()
				rn.MarshalCase("marshal-doc-matrix", pv, t, v, true)
				c, null, ok := mv.Denote(t, v)
				if !ok || null {
					continue
				}
				data, eok := mv.SpecEncode(pv, t, c)
				if !eok {
					continue
				}
				for j, g := range mv.DocTargets(id) {
					if (j+rep)%3 == 2 {
						g = mv.TPtr(g)
					}
					rn.DecodeCase("unmarshal-doc-matrix", pv, t, data, g, c, false, true, "specification-conformant encoding")
				}
			}
		}
		// inet from strings: dotted IPv4, full / compressed IPv6, IPv4-mapped IPv6 in both spellings, non-addresses
		for _, str := range []string{"127.0.0.1", "0.0.0.0", "255.255.255.255", "::ffff:127.0.0.1", "::FFFF:c0a8:0101", "0:0:0:0:0:ffff:10.1.2.3", "::ffff:0:0", "::1", "::", "2001:db8::8a2e:370:7334", "2001:0DB8:0000:0000:0000:8A2E:0370:7334", "fe80::1", "64:ff9b::192.0.2.33", "::1.2.3.4", "1:2:3:4:5:6:7:8", "01.2.3.4", "1.2.3", "fe80::1%eth0", "1:2:3:4:5:6:7:8:9", "not an ip"} {
			rn.MarshalCase("marshal-inet-string", pvOf(), mv.Native(gocql.TypeInet), mv.VStr(false, str), true)
		}
		for i := 0; i < 25; i++ {
			rn.MarshalCase("marshal-inet-string", pvOf(), mv.Native(gocql.TypeInet), mv.VStr(false, mv.InetString(r)), true)
		}
		// inet values whose length is neither 4 nor 16 (not conformant: correspondence only)
		for _, n := range []int{1, 3, 5, 15, 17, 20} {
			for _, g := range []*mv.GTy{mv.TK("str"), mv.TK("ip"), mv.TPtr(mv.TK("str"))} {
				rn.DecodeCase("unmarshal-inet-odd-length", pvOf(), mv.Native(gocql.TypeInet), r.Bytes(n), g, nil, false, false, "")
			}
		}
		for _, bc := range mv.BytesCases(r) {
			pv := 3 + r.Intn(3)
			c, null, ok := mv.Denote(bc.T, bc.V)
			if !ok || null {
				continue
			}
			data, eok := mv.SpecEncode(pv, bc.T, c)
			if !eok {
				continue
			}
			for _, g := range bc.Gs {
				rn.DecodeCase("unmarshal-bytes-targets", pv, bc.T, data, g, c, false, true, "specification-conformant encoding")
			}
		}
		for i := 0; i < 12; i++ {
			v := mv.PreEpochTime(r)
			rn.MarshalCase("marshal-pre-epoch", pvOf(), mv.Native(gocql.TypeTimestamp), v, true)
			rn.MarshalCase("marshal-pre-epoch", pvOf(), mv.Native(gocql.TypeDate), v, true)
			rn.MarshalCase("marshal-pre-epoch", pvOf(), &mv.Ty{K: "tuple", Es: []*mv.Ty{mv.Native(gocql.TypeDate), mv.Native(gocql.TypeTimestamp)}}, mv.VIfaces([]*mv.Val{mv.VPtr(v.T, v), v}), true)
		}
	}

	// empty (zero-length, non-null) elements inside collections and tuples, into value and pointer element targets
	for pv := 1; pv <= 5; pv++ {
		text, blob := mv.Native(gocql.TypeText), mv.Native(gocql.TypeBlob)
		empty, a := &mv.CV{K: "bytes", S: []byte{}}, &mv.CV{K: "bytes", S: []byte("a")}
		type dc struct {
			t *mv.Ty
			c *mv.CV
			g []*mv.GTy
		}
		str, pstr, byt := mv.TK("str"), mv.TPtr(mv.TK("str")), mv.TKN("bytes", true)
		for _, d := range []dc{
			{&mv.Ty{K: "list", E: text}, &mv.CV{K: "list", L: []*mv.CV{empty, a, empty}}, []*mv.GTy{mv.TSlice(str), mv.TSlice(pstr), mv.TSlice(mv.TPtr(byt))}},
			{&mv.Ty{K: "set", E: blob}, &mv.CV{K: "list", L: []*mv.CV{empty}}, []*mv.GTy{mv.TSlice(byt), mv.TSlice(mv.TPtr(byt)), mv.TArray(1, pstr)}},
			{&mv.Ty{K: "map", Key: text, E: blob}, &mv.CV{K: "map", KV: [][2]*mv.CV{{empty, empty}, {a, empty}}}, []*mv.GTy{mv.TMapOf(str, pstr), mv.TMapOf(str, mv.TPtr(byt))}},
			{&mv.Ty{K: "tuple", Es: []*mv.Ty{text, blob}}, &mv.CV{K: "tuple", L: []*mv.CV{empty, empty}}, []*mv.GTy{mv.TIfaces([]*mv.GTy{pstr, mv.TPtr(byt)}), mv.TSlice(mv.TK("iface"))}},
			{&mv.Ty{K: "udt", Es: []*mv.Ty{text, blob}, Names: []string{"a", "b"}}, &mv.CV{K: "udt", L: []*mv.CV{empty, empty}}, []*mv.GTy{mv.TK("strmap"), mv.TStruct([]string{"G0", "G1"}, []string{"a", "b"}, []*mv.GTy{pstr, mv.TPtr(byt)})}},
		} {
			data, eok := mv.SpecEncode(pv, d.t, d.c)
			if !eok {
				continue
			}
			for _, g := range d.g {
				rn.DecodeCase("unmarshal-spec-empty-elements", pv, d.t, data, g, d.c, false, true, "specification-conformant encoding")
			}
		}
	}

	// 5. malformed encodings: truncations, extensions, corrupted length fields (correspondence only)
	for i := 0; i < 250*S; i++ {
		t := mv.GenTy(r, r.Intn(3))
		pv := pvOf()
		v := mv.GenVal(r, t, 0, false)
		data, cls, _ := mv.DoMarshal(t.Info(byte(pv)), v.Iface())
		if cls != mv.ClsOk || data == nil {
			data = r.Bytes(r.Intn(12))
		}
		data = append([]byte{}, data...)
		switch r.Intn(5) {
		case 0:
			data = data[:r.Intn(len(data)+1)]
		case 1:
			data = append(data, r.Bytes(1+r.Intn(4))...)
		case 2:
			if len(data) > 0 {
				data[r.Intn(len(data))] ^= byte(1 << uint(r.Intn(8)))
			}
		case 3:
			if len(data) >= 4 {
				p := r.Intn(len(data) - 3)
				copy(data[p:], []byte{0xff, 0xff, 0xff, byte(r.Pick(0xff, 0xfe, 0x00))})
			}
		case 4:
			data = r.Bytes(r.Intn(20))
		}
		mode := 0
		if r.Chance(30) {
			mode = 1
		}
		g := mv.GenTarget(r, t, mode)
		if !mv.SafeToDecode(pv, t, data) {
			o.Count("malformed-skipped-huge-count")
			continue
		}
		rn.DecodeCase("unmarshal-malformed", pv, t, data, g, nil, false, false, "")
	}

	for k, n := range rn.Stat {
		o.Extra[k] = n
	}
	rn.BigElementChecks()
	rn.SizeFieldBoundaryCases()
	rn.ShortUDTCases()
	rn.Recheck()
	o.Extra["coverage_matrix"] = rn.Matrix
	o.Finish("From GocqlV Require Import Lib.Base C12.Model C12.Spec C12.Corr.", "C12.Corr.case", "C12.Corr.run")
}
