package main

// Session-level histories for C14.
//
// A real gocql.Session talks to one or two scripted in-memory nodes.  Every executor (one
// Session.Query(...).Exec() or Session.ExecuteBatch call on its own goroutine) carries its own
// context.Context whose Done method tells the harness when it is evaluated from inside
// Conn.prepareStatement - i.e. right after the executor left execIfMissing - and (in stepped mode)
// parks the executor there until the harness has looked at the real cache through the shim.  The
// nodes never answer PREPARE / EXECUTE / BATCH by themselves: the harness decides when and how
// (prepared with which id and how many bind columns, an error, UNPREPARED with which id, void).
// So the harness is the scheduler: it knows a linearisation of the history, writes it down as
// labels of the Coq transition system and records everything it saw from outside.

import (
	"context"
	"fmt"
	"regexp"
	"runtime"
	"sort"
	"strconv"
	"strings"
	"sync"
	"sync/atomic"
	"time"

	"github.com/gocql/gocql"
	"gocqlverif/hlib"
	"gocqlverif/node"
)

const watchdog = 15 * time.Second

// hangs counts scenarios that ran into the watchdog; after a few the remaining scenarios are not started
// (a hang is a violation already; there is no point in waiting for it a hundred times)
var hangs int32

type evKind int

const (
	evPrepare evKind = iota
	evExecute
	evBatch
	evLookup
	evReturn
	evEvict
)

type hev struct {
	kind evKind
	node int
	conn *node.ServerConn
	req  *node.Request
	e    int
	err  error
	fl   gocql.VerifC14Flight

	retried bool
}

type hostKey struct{}

// ---- the per-executor context ---------------------------------------------------------------

type stepCtx struct {
	context.Context
	w    *world
	e    int
	step bool
	goCh chan struct{}
}

func inPrepareStatement() bool {
	var pcs [6]uintptr
	n := runtime.Callers(3, pcs[:]) // skip Callers, inPrepareStatement, Done
	frames := runtime.CallersFrames(pcs[:n])
	for i := 0; i < 2; i++ {
		fr, more := frames.Next()
		if strings.HasSuffix(fr.Function, "(*Conn).prepareStatement") {
			return true
		}
		if !more {
			break
		}
	}
	return false
}

func (c *stepCtx) Done() <-chan struct{} {
	if inPrepareStatement() {
		c.w.ev <- hev{kind: evLookup, e: c.e}
		<-c.goCh
	}
	return c.Context.Done()
}

// ---- host selection: the executor says which node it wants ------------------------------------

type pickPolicy struct {
	mu    sync.Mutex
	hosts map[string]*gocql.HostInfo
}

func (p *pickPolicy) put(h *gocql.HostInfo) {
	p.mu.Lock()
	p.hosts[h.ConnectAddress().String()] = h
	p.mu.Unlock()
}
func (p *pickPolicy) get(ip string) *gocql.HostInfo {
	p.mu.Lock()
	defer p.mu.Unlock()
	return p.hosts[ip]
}
func (p *pickPolicy) AddHost(h *gocql.HostInfo)                 { p.put(h) }
func (p *pickPolicy) RemoveHost(h *gocql.HostInfo)              {}
func (p *pickPolicy) HostUp(h *gocql.HostInfo)                  { p.put(h) }
func (p *pickPolicy) HostDown(h *gocql.HostInfo)                {}
func (p *pickPolicy) SetPartitioner(string)                     {}
func (p *pickPolicy) KeyspaceChanged(gocql.KeyspaceUpdateEvent) {}
func (p *pickPolicy) Init(*gocql.Session)                       {}
func (p *pickPolicy) IsLocal(*gocql.HostInfo) bool              { return true }

type selHost struct{ h *gocql.HostInfo }

func (s selHost) Info() *gocql.HostInfo { return s.h }
func (s selHost) Mark(error)            {}

func (p *pickPolicy) Pick(q gocql.ExecutableQuery) gocql.NextHost {
	var ctx context.Context
	switch v := q.(type) {
	case *gocql.Query:
		ctx = v.Context()
	case *gocql.Batch:
		ctx = v.Context()
	}
	var h *gocql.HostInfo
	if ctx != nil {
		if ip, ok := ctx.Value(hostKey{}).(string); ok {
			h = p.get(ip)
		}
	}
	used := false
	return func() gocql.SelectedHost {
		if used || h == nil {
			return nil
		}
		used = true
		return selHost{h}
	}
}

// ---- records ----------------------------------------------------------------------------------

type xentry struct {
	stmt  int  // index into world.stmts
	prep  bool // prepared (always for a query; for a batch entry iff it has arguments or a binding)
	bind  bool // uses Bind (binding callback) instead of literal arguments
	nvals int
}

type bindObs struct {
	stmt  int
	id    []byte
	nargs int
	names []string
}

type xrec struct {
	idx     int
	batch   bool
	host    int
	entries []xentry
	ctx     *stepCtx
	cancel  context.CancelFunc

	pos          int // harness's own bookkeeping of which entry the executor is at
	pendingWake  bool
	waitingOn    int // flight the harness saw it take at its last lookup (-1 none)
	flightOf     []int
	sentReq      *node.Request
	sentConn     *node.ServerConn
	sent         bool
	done         bool
	err          error
	scriptedErr  bool // the script gave it an error (PREPARE failure, error answer, cancel, wrong count)
	expectCode   int  // the PREPARE it waits for was answered with something that is not an ERROR frame: any error maps to this code
	unprepOld    interface{}
	unprepKey    string
	faultPending bool // set while the executor's own PREPARE is expected to fail on the write

	mu    sync.Mutex
	binds []bindObs
}

type frec struct {
	fid      int
	obj      interface{}
	key      string
	host     int
	stmt     int
	creator  int
	prepReq  *node.Request
	prepConn *node.ServerConn
	answered bool
	ok       bool
	id       []byte
	cnt      int
	errCode  int
	failKind int
	names    []string
}

type block struct {
	labs []string
	obs  []string
}

type world struct {
	rng        *hlib.Rng
	net        *node.Net
	nodes      []*node.Node
	ips        []string
	hostIDs    []string
	ks         string
	stmts      []string
	params     []int // "true" number of bind markers per statement
	sess       *gocql.Session
	policy     *pickPolicy
	max        int
	realIDs    bool     // ids are a function of (host, statement) as on a real server; otherwise unique per PREPARE answer
	collide    bool     // every PREPARE answer of a host carries the same id
	tableKS    []string // per statement: keyspace named in the PREPARE answer's metadata
	lockBudget int      // how many more PREPARE failures are delivered while the harness holds the cache's mutex
	ev         chan hev
	execs      []*xrec
	flights    []*frec
	objFid     map[interface{}]int
	running    map[string]bool
	nextErr    int
	idsFor     map[string][][]byte // host|stmt -> ids returned
	creates    map[string]int      // cache key -> PREPARE frames seen
	gones      map[string]int      // cache key -> OnEvicted calls seen

	// emission
	names     map[string]string // byte string -> let-bound name
	nameDefs  []string
	items     []string
	obs       []string
	header    block
	blocks    map[int]*block
	pendEv    []string
	faultCode int
	stashPrep []hev
	roundFail bool
	stepping  bool

	viol      []hlib.Violation
	stats     map[string]int
	answeredP int
	finished  int
	log       []string
}

func (w *world) violate(kind, detail string) {
	w.viol = append(w.viol, hlib.Violation{Case: -1, Kind: kind, Detail: detail})
}

func (w *world) logf(format string, a ...interface{}) {
	w.log = append(w.log, fmt.Sprintf(format, a...))
}

// nm returns a short Coq name for a byte string (bound once per case with let).
func (w *world) nm(s string) string {
	if n, ok := w.names[s]; ok {
		return n
	}
	n := fmt.Sprintf("b%d", len(w.names))
	w.names[s] = n
	if s == "" {
		w.nameDefs = append(w.nameDefs, fmt.Sprintf("let %s := ([] : list Z) in", n))
	} else {
		w.nameDefs = append(w.nameDefs, fmt.Sprintf("let %s := %s in", n, zkey(s)))
	}
	return n
}

func (w *world) blk(e int) *block {
	b := w.blocks[e]
	if b == nil {
		b = &block{}
		w.blocks[e] = b
	}
	return b
}

func (w *world) fidOf(obj interface{}) int {
	if f, ok := w.objFid[obj]; ok {
		return f
	}
	return -1
}

// ---- set-up -------------------------------------------------------------------------------------

func newWorld(rng *hlib.Rng, proto, nnodes, max, numConns int, ks string, stmts []string, params []int, realIDs bool, timeout time.Duration) (*world, error) {
	w := &world{rng: rng, max: max, ks: ks, stmts: stmts, params: params, realIDs: realIDs,
		ev: make(chan hev, 4096), objFid: map[interface{}]int{}, running: map[string]bool{}, nextErr: 100,
		idsFor: map[string][][]byte{}, creates: map[string]int{}, gones: map[string]int{},
		names: map[string]string{}, blocks: map[int]*block{}, stats: map[string]int{}}
	w.net = node.NewNet()
	isOurs := func(s string) bool {
		for _, t := range stmts {
			if s == t {
				return true
			}
		}
		return false
	}
	for i := 0; i < nnodes; i++ {
		addr := fmt.Sprintf("10.14.0.%d:9042", i+1)
		nd := w.net.AddNode(addr)
		w.nodes = append(w.nodes, nd)
		w.ips = append(w.ips, fmt.Sprintf("10.14.0.%d", i+1))
		w.hostIDs = append(w.hostIDs, nd.Config().HostID)
		i := i
		nd.SetHandler(func(c *node.ServerConn, req *node.Request) {
			switch {
			case req.Prepare != nil && isOurs(req.Prepare.Statement):
				w.ev <- hev{kind: evPrepare, node: i, conn: c, req: req}
			case req.Execute != nil:
				w.ev <- hev{kind: evExecute, node: i, conn: c, req: req}
			case req.Batch != nil:
				w.ev <- hev{kind: evBatch, node: i, conn: c, req: req}
			default:
				nd.Default(c, req)
			}
		})
	}
	w.net.SetKeyspace("ks1", node.Keyspace{Replication: node.SimpleStrategy(1), DurableWrites: true})
	w.net.SetKeyspace("ks2", node.Keyspace{Replication: node.SimpleStrategy(1), DurableWrites: true})
	// the keyspace the statement's table lives in, as the PREPARE answer's metadata says: the session's own,
	// or another one (a fully qualified table name; always so in a session without a default keyspace)
	for range stmts {
		tk := ks
		if ks == "" || rng.Chance(35) {
			tk = []string{"ks1", "ks2"}[rng.Intn(2)]
		}
		w.tableKS = append(w.tableKS, tk)
	}
	w.policy = &pickPolicy{hosts: map[string]*gocql.HostInfo{}}
	cfg := gocql.NewCluster(w.ips[0])
	cfg.Dialer = w.net.Dialer()
	cfg.ProtoVersion = proto
	cfg.Timeout = timeout
	cfg.ConnectTimeout = 10 * time.Second
	cfg.NumConns = numConns
	cfg.WriteCoalesceWaitTime = 0 // every frame is one Write call
	cfg.Keyspace = w.ks
	cfg.Consistency = gocql.One
	cfg.MaxPreparedStmts = max
	cfg.PoolConfig.HostSelectionPolicy = w.policy
	cfg.Logger = nullLogger{}
	s, err := gocql.NewSession(*cfg)
	if err != nil {
		w.net.Close()
		return nil, err
	}
	w.sess = s
	for i, nd := range w.nodes {
		want := numConns
		if i == 0 {
			want++
		}
		if !nd.WaitOpenConns(want, 10*time.Second) {
			w.close()
			return nil, fmt.Errorf("node %d: %d connections, want %d", i, nd.OpenConns(), want)
		}
		ok := w.net.WaitFor(10*time.Second, func() bool { return w.policy.get(w.ips[i]) != nil })
		if !ok {
			w.close()
			return nil, fmt.Errorf("host %s never reported to the policy", w.ips[i])
		}
		if got := w.policy.get(w.ips[i]).HostID(); got != w.hostIDs[i] {
			w.close()
			return nil, fmt.Errorf("host id %q, node says %q", got, w.hostIDs[i])
		}
	}
	gocql.VerifC14OnEvicted(s, func(f gocql.VerifC14Flight) { w.ev <- hev{kind: evEvict, fl: f} })
	if m := gocql.VerifC14MaxEntries(s); m != max {
		w.violate("cache-capacity", fmt.Sprintf("MaxPreparedStmts %d but the cache was created with %d", max, m))
	}
	return w, nil
}

type nullLogger struct{}

func (nullLogger) Print(v ...interface{})                 {}
func (nullLogger) Printf(format string, v ...interface{}) {}
func (nullLogger) Println(v ...interface{})               {}

func (w *world) close() {
	if w.sess != nil {
		w.sess.Close()
	}
	w.net.Close()
}

// ---- snapshots ----------------------------------------------------------------------------------

func (w *world) snapshot() []gocql.VerifC14Flight { return gocql.VerifC14Snapshot(w.sess) }

func (w *world) snapTerm(sn []gocql.VerifC14Flight) string {
	items := make([]string, len(sn))
	for i, f := range sn {
		st, id := 0, "[]"
		if f.Done {
			if f.HasPS && !f.HasErr {
				st, id = 1, w.nm(string(f.ID))
			} else {
				st = 2
			}
		}
		fid := w.fidOf(f.Obj)
		if fid < 0 {
			fid = 9999
		}
		items[i] = fmt.Sprintf("(%s, %d%%nat, %d, %s)", w.nm(f.Key), fid, st, id)
	}
	return "SSnap " + hlib.List(items)
}

// monitors on a snapshot of the real cache
func (w *world) checkSnapshot(sn []gocql.VerifC14Flight, where string) {
	if w.max > 0 && len(sn) > w.max {
		w.violate("cache-bound", fmt.Sprintf("%s: %d entries in a cache of capacity %d", where, len(sn), w.max))
	}
	seen := map[string]bool{}
	for _, f := range sn {
		if seen[f.Key] {
			w.violate("cache-duplicate-key", fmt.Sprintf("%s: key %q twice", where, f.Key))
		}
		seen[f.Key] = true
		if f.Done && (f.HasErr || !f.HasPS) {
			w.violate("failure-cached", fmt.Sprintf("%s: a finished PREPARE with error %v is still in the cache under %q", where, f.Err, f.Key))
		}
	}
	// one PREPARE per generation: PREPAREs seen for a key = times it left the cache + whether it is there
	for k, c := range w.creates {
		p := 0
		if seen[k] {
			p = 1
		}
		if c != w.gones[k]+p {
			w.violate("single-flight", fmt.Sprintf("%s: key %q: %d PREPAREs, left the cache %d times, present %d", where, k, c, w.gones[k], p))
		}
	}
	for k := range seen {
		if w.creates[k] == 0 {
			w.violate("single-flight", fmt.Sprintf("%s: key %q cached without any PREPARE", where, k))
		}
	}
}

func (w *world) keyOf(host, stmt int) string { return w.hostIDs[host] + w.ks + w.stmts[stmt] }

// ---- starting executors ---------------------------------------------------------------------------

func (w *world) newExec(batch bool, host int, entries []xentry) *xrec {
	x := &xrec{idx: len(w.execs), batch: batch, host: host, entries: entries, waitingOn: -1}
	w.execs = append(w.execs, x)
	return x
}

func (w *world) launch(x *xrec, step bool) {
	base, cancel := context.WithCancel(context.WithValue(context.Background(), hostKey{}, w.ips[x.host]))
	x.cancel = cancel
	x.ctx = &stepCtx{Context: base, w: w, e: x.idx, step: step, goCh: make(chan struct{}, 1)}
	payload := map[string][]byte{"e": []byte(strconv.Itoa(x.idx))}
	vals := func(n int) []interface{} {
		v := make([]interface{}, n)
		for i := range v {
			v[i] = fmt.Sprintf("v%d", i)
		}
		return v
	}
	binder := func(en xentry) func(*gocql.QueryInfo) ([]interface{}, error) {
		return func(info *gocql.QueryInfo) ([]interface{}, error) {
			ob := bindObs{stmt: en.stmt, id: append([]byte(nil), info.Id...), nargs: len(info.Args)}
			for _, c := range info.Args {
				ob.names = append(ob.names, c.Name)
			}
			x.mu.Lock()
			x.binds = append(x.binds, ob)
			x.mu.Unlock()
			return vals(en.nvals), nil
		}
	}
	// labels
	ens := make([]string, len(x.entries))
	for i, en := range x.entries {
		ens[i] = fmt.Sprintf("mkEntry %s %s %d", w.nm(w.stmts[en.stmt]), hlib.Bool(en.prep), en.nvals)
	}
	w.header.labs = append(w.header.labs, fmt.Sprintf("SLab (LSpawn %s %s %s %s)", hlib.Bool(x.batch), w.nm(w.hostIDs[x.host]), w.nm(w.ks), hlib.List(ens)))
	w.running[fmt.Sprintf("x%d", x.idx)] = true
	go func() {
		var err error
		defer func() {
			if p := recover(); p != nil {
				w.ev <- hev{kind: evReturn, e: x.idx, err: fmt.Errorf("PANIC: %v", p)}
			}
		}()
		if x.batch {
			b := w.sess.NewBatch(gocql.LoggedBatch).WithContext(x.ctx)
			b.CustomPayload = payload
			for _, en := range x.entries {
				if en.bind {
					b.Bind(w.stmts[en.stmt], binder(en))
				} else {
					b.Query(w.stmts[en.stmt], vals(en.nvals)...)
				}
			}
			err = w.sess.ExecuteBatch(b)
		} else {
			en := x.entries[0]
			var q *gocql.Query
			if en.bind {
				q = w.sess.Bind(w.stmts[en.stmt], binder(en))
			} else {
				q = w.sess.Query(w.stmts[en.stmt], vals(en.nvals)...)
			}
			err = q.WithContext(x.ctx).CustomPayload(payload).Exec()
		}
		w.ev <- hev{kind: evReturn, e: x.idx, err: err}
	}()
}

// ---- event processing -------------------------------------------------------------------------------

var reCountQ = regexp.MustCompile(`^gocql: expected (-?\d+) values send got (-?\d+)$`)
var reCountB = regexp.MustCompile(`^gocql: batch statement (\d+) expected (-?\d+) values send got (-?\d+)$`)
var reOurErr = regexp.MustCompile(`c14-err-(\d+)`)

func (w *world) classify(x *xrec, err error) string {
	if err == nil {
		return "ROk"
	}
	if err == context.Canceled {
		return "RCancelled"
	}
	msg := err.Error()
	if m := reCountQ.FindStringSubmatch(msg); m != nil {
		a, _ := strconv.Atoi(m[1])
		b, _ := strconv.Atoi(m[2])
		return fmt.Sprintf("(RCount 0%%nat %s %s)", hlib.Z(int64(a)), hlib.Z(int64(b)))
	}
	if m := reCountB.FindStringSubmatch(msg); m != nil {
		i, _ := strconv.Atoi(m[1])
		a, _ := strconv.Atoi(m[2])
		b, _ := strconv.Atoi(m[3])
		return fmt.Sprintf("(RCount %d%%nat %s %s)", i, hlib.Z(int64(a)), hlib.Z(int64(b)))
	}
	if m := reOurErr.FindStringSubmatch(msg); m != nil {
		return "(RErr " + m[1] + ")"
	}
	if strings.HasPrefix(msg, "PANIC: ") {
		w.violate("panic", fmt.Sprintf("an executor panicked inside the driver: %s", msg))
		return "(RErr (-2))"
	}
	if x.expectCode != 0 {
		return fmt.Sprintf("(RErr %d)", x.expectCode)
	}
	w.violate("unexpected-error", fmt.Sprintf("an executor returned %T %v", err, err))
	return "(RErr (-1))"
}

// emitPlain writes the LPlain labels for the batch entries without arguments the executor passes next
func (w *world) emitPlain(x *xrec) {
	for x.pos < len(x.entries) && !x.entries[x.pos].prep {
		w.blk(x.idx).labs = append(w.blk(x.idx).labs, fmt.Sprintf("SLab (LPlain %d%%nat)", x.idx))
		x.flightOf = append(x.flightOf, -1)
		x.pos++
	}
}

func (w *world) emitWake(x *xrec) {
	if x.pendingWake {
		w.blk(x.idx).labs = append(w.blk(x.idx).labs, fmt.Sprintf("SLab (LWake %d%%nat)", x.idx))
		x.pendingWake = false
		x.flightOf = append(x.flightOf, x.waitingOn)
		x.waitingOn = -1
		x.pos++
	}
}

func (w *world) execOfReq(req *node.Request) *xrec {
	if req.CustomPayload == nil {
		return nil
	}
	i, err := strconv.Atoi(string(req.CustomPayload["e"]))
	if err != nil || i < 0 || i >= len(w.execs) {
		return nil
	}
	return w.execs[i]
}

func (w *world) knownID(host int, stmt string, id []byte) bool {
	for _, x := range w.idsFor[w.hostIDs[host]+"|"+stmt] {
		if string(x) == string(id) {
			return true
		}
	}
	return false
}

func (w *world) handle(ev hev) {
	switch ev.kind {
	case evEvict:
		w.gones[ev.fl.Key]++
		fid := w.fidOf(ev.fl.Obj)
		if fid < 0 {
			// an object the harness has never seen in the cache: it was evicted by the very Add that
			// inserted it (MaxEntries < 0).  The executor that reports its lookup next created it.
			fid = len(w.flights)
			w.objFid[ev.fl.Obj] = fid
			w.flights = append(w.flights, &frec{fid: fid, obj: ev.fl.Obj, key: ev.fl.Key, creator: -1})
		}
		term := fmt.Sprintf("OGone %s %d%%nat", w.nm(ev.fl.Key), fid)
		if w.roundFail {
			w.header.obs = append(w.header.obs, term)
		} else {
			w.pendEv = append(w.pendEv, term)
		}

	case evLookup:
		x := w.execs[ev.e]
		if !w.running[fmt.Sprintf("x%d", x.idx)] || x.done {
			w.violate("unexpected-event", fmt.Sprintf("executor %d entered prepareStatement when the harness did not expect it to run", x.idx))
		}
		w.emitWake(x)
		w.emitPlain(x)
		b := w.blk(x.idx)
		b.labs = append(b.labs, fmt.Sprintf("SLab (LLookup %d%%nat)", x.idx))
		if !w.stepping {
			// group mode: the executors race for the cache's mutex; which flight they hold is
			// determined after all lookups of the group
			x.ctx.goCh <- struct{}{}
			return
		}
		if w.faultCode != 0 {
			// the winner's goroutine fails on its own (nothing holds it back), possibly before the harness
			// gets here: no snapshot; the flight is identified by the OnEvicted call of its removal
			x.faultPending = true
			x.ctx.goCh <- struct{}{}
			return
		}
		b.obs = append(b.obs, w.pendEv...)
		w.pendEv = nil
		sn := w.snapshot()
		w.afterLookup(x, sn)
		b.labs = append(b.labs, w.snapTerm(sn))
		x.ctx.goCh <- struct{}{}
		w.retryStashedPrepares()

	case evPrepare:
		// belongs to the one flight whose PREPARE the harness is waiting for
		var fr *frec
		for _, f := range w.flights {
			if f.prepReq == nil && w.running[fmt.Sprintf("f%d", f.fid)] && f.host == ev.node && w.stmts[f.stmt] == ev.req.Prepare.Statement {
				fr = f
				break
			}
		}
		if fr == nil && !ev.retried && w.anyExecRunning() {
			// the winner's goroutine can be faster than the executor's report of its lookup
			ev.retried = true
			w.stashPrep = append(w.stashPrep, ev)
			return
		}
		key := w.hostIDs[ev.node] + ev.conn.Keyspace() + ev.req.Prepare.Statement
		w.creates[key]++
		if fr == nil {
			w.violate("unexpected-event", fmt.Sprintf("PREPARE %q at node %d although no new flight was seen in the cache", ev.req.Prepare.Statement, ev.node))
			w.header.obs = append(w.header.obs, fmt.Sprintf("OPrepare 9999%%nat %s %s %s", w.nm(w.hostIDs[ev.node]), w.nm(ev.conn.Keyspace()), w.nm(ev.req.Prepare.Statement)))
			ev.conn.Reply(ev.req, node.Error{Code: node.ErrInvalid, Message: "c14-err-99 unexpected PREPARE"})
			return
		}
		fr.prepReq, fr.prepConn = ev.req, ev.conn
		delete(w.running, fmt.Sprintf("f%d", fr.fid))
		b := w.blk(fr.creator)
		b.labs = append(b.labs, fmt.Sprintf("SLab (LPrepSend %d%%nat)", fr.fid))
		b.obs = append(b.obs, fmt.Sprintf("OPrepare %d%%nat %s %s %s", fr.fid, w.nm(w.hostIDs[ev.node]), w.nm(ev.conn.Keyspace()), w.nm(ev.req.Prepare.Statement)))
		if ev.conn.Keyspace() != w.ks {
			w.violate("keyspace-premise", fmt.Sprintf("PREPARE on a connection using keyspace %q, session keyspace %q", ev.conn.Keyspace(), w.ks))
		}

	case evExecute, evBatch:
		x := w.execOfReq(ev.req)
		if x == nil {
			w.violate("unexpected-event", fmt.Sprintf("EXECUTE/BATCH without an executor tag at node %d", ev.node))
			ev.conn.Reply(ev.req, node.Error{Code: node.ErrInvalid, Message: "c14-err-98 untagged"})
			return
		}
		if !w.running[fmt.Sprintf("x%d", x.idx)] || x.done || x.sent {
			w.violate("unexpected-event", fmt.Sprintf("executor %d sent a frame when the harness did not expect it to run", x.idx))
		}
		w.emitWake(x)
		w.emitPlain(x)
		b := w.blk(x.idx)
		b.labs = append(b.labs, fmt.Sprintf("SLab (LSend %d%%nat)", x.idx))
		var items []string
		if ev.kind == evExecute {
			items = append(items, fmt.Sprintf("(inr %s, %d)", w.nm(string(ev.req.Execute.ID)), len(ev.req.Execute.Params.Values)))
			w.checkSentID(x, 0, ev.node, ev.req.Execute.ID, len(ev.req.Execute.Params.Values))
			if x.batch {
				w.violate("wrong-frame", fmt.Sprintf("batch executor %d sent EXECUTE", x.idx))
			}
		} else {
			if !x.batch {
				w.violate("wrong-frame", fmt.Sprintf("query executor %d sent BATCH", x.idx))
			}
			for i, st := range ev.req.Batch.Statements {
				if st.Kind == 1 {
					items = append(items, fmt.Sprintf("(inr %s, %d)", w.nm(string(st.ID)), len(st.Values)))
					w.checkSentID(x, i, ev.node, st.ID, len(st.Values))
				} else {
					items = append(items, fmt.Sprintf("(inl %s, %d)", w.nm(st.Statement), len(st.Values)))
					if i < len(x.entries) && (x.entries[i].prep || w.stmts[x.entries[i].stmt] != st.Statement) {
						w.violate("foreign-statement", fmt.Sprintf("executor %d batch entry %d went out as text %q", x.idx, i, st.Statement))
					}
				}
			}
			if len(ev.req.Batch.Statements) != len(x.entries) {
				w.violate("batch-shape", fmt.Sprintf("executor %d: %d statements on the wire, %d in the batch", x.idx, len(ev.req.Batch.Statements), len(x.entries)))
			}
		}
		if ev.node != x.host {
			w.violate("foreign-host", fmt.Sprintf("executor %d wanted node %d, frame arrived at node %d", x.idx, x.host, ev.node))
		}
		b.obs = append(b.obs, fmt.Sprintf("OSend %d%%nat %s %s %s", x.idx, hlib.Bool(ev.kind == evBatch), w.nm(w.hostIDs[ev.node]), hlib.List(items)))
		x.sent, x.sentReq, x.sentConn = true, ev.req, ev.conn
		delete(w.running, fmt.Sprintf("x%d", x.idx))

	case evReturn:
		x := w.execs[ev.e]
		if !w.running[fmt.Sprintf("x%d", x.idx)] || x.done {
			w.violate("unexpected-event", fmt.Sprintf("executor %d returned (%v) when the harness did not expect it to run", x.idx, ev.err))
		}
		w.emitWake(x)
		b := w.blk(x.idx)
		if x.faultPending {
			// the PREPARE could not be written: the winner's c.exec failed, nothing reached the node
			x.faultPending = false
			key := w.keyOf(x.host, x.entries[x.pos].stmt)
			var fr *frec
			for _, f := range w.flights {
				if f.creator == -1 && f.key == key {
					fr = f
				}
			}
			if fr == nil {
				w.violate("failure-not-removed", fmt.Sprintf("executor %d: the PREPARE of %q failed on the write and no entry was removed from the cache", x.idx, key))
			} else {
				fr.creator, fr.host, fr.stmt, fr.answered, fr.errCode = x.idx, x.host, x.entries[x.pos].stmt, true, w.faultCode
				w.creates[key]++
				b.labs = append(b.labs, fmt.Sprintf("SLab (LPrepFail %d%%nat %d)", fr.fid, fr.errCode), fmt.Sprintf("SLab (LClose %d%%nat)", fr.fid))
				x.waitingOn = fr.fid
				x.pendingWake = true
			}
		}
		w.emitWake(x)
		b.obs = append(b.obs, w.pendEv...)
		w.pendEv = nil
		b.obs = append(b.obs, fmt.Sprintf("OResult %d%%nat %s", x.idx, w.classify(x, ev.err)))
		x.done, x.err = true, ev.err
		w.finished++
		delete(w.running, fmt.Sprintf("x%d", x.idx))
		w.checkBinds(x)
	}
}

func (w *world) anyExecRunning() bool {
	for k := range w.running {
		if k[0] == 'x' {
			return true
		}
	}
	return false
}

func (w *world) retryStashedPrepares() {
	st := w.stashPrep
	w.stashPrep = nil
	for _, ev := range st {
		w.handle(ev)
	}
}

// the executor has just left execIfMissing; sn is the real cache right after
func (w *world) afterLookup(x *xrec, sn []gocql.VerifC14Flight) {
	en := x.entries[x.pos]
	key := w.keyOf(x.host, en.stmt)
	if len(sn) == 0 || sn[0].Key != key {
		front := "<empty>"
		if len(sn) > 0 {
			front = sn[0].Key
		}
		// MaxEntries < 0 evicts the new entry at once: the executor then holds a flight that is in no cache
		for _, fr := range w.flights {
			if fr.creator == -1 && fr.key == key {
				fr.creator, fr.host, fr.stmt = x.idx, x.host, en.stmt
				w.running[fmt.Sprintf("f%d", fr.fid)] = true
				w.noteFlight(x, fr.fid, false, fr.obj, key)
				return
			}
		}
		w.violate("lookup-not-front", fmt.Sprintf("executor %d looked up %q but the front of the cache is %q", x.idx, key, front))
		return
	}
	f := sn[0]
	fid := w.fidOf(f.Obj)
	if fid < 0 {
		fid = len(w.flights)
		w.objFid[f.Obj] = fid
		w.flights = append(w.flights, &frec{fid: fid, obj: f.Obj, key: key, host: x.host, stmt: en.stmt, creator: x.idx})
		w.running[fmt.Sprintf("f%d", fid)] = true
	}
	w.noteFlight(x, fid, f.Done, f.Obj, key)
}

func (w *world) noteFlight(x *xrec, fid int, done bool, obj interface{}, key string) {
	if x.unprepOld != nil && x.unprepKey == key {
		if x.unprepOld == obj {
			w.violate("reprepare", fmt.Sprintf("executor %d was told UNPREPARED for the cached id of %q and was handed the same PREPARE result again", x.idx, key))
		}
		x.unprepOld = nil
	}
	x.waitingOn = fid
	if done {
		x.pendingWake = true // it will pass <-flight.done at once
		if fr := w.flights[fid]; fr.ok && x.pos < len(x.entries) && fr.cnt != x.entries[x.pos].nvals {
			x.scriptedErr = true
		}
	} else {
		delete(w.running, fmt.Sprintf("x%d", x.idx))
	}
}

// monitors on an id seen in an EXECUTE / BATCH frame of executor x, entry i
func (w *world) checkSentID(x *xrec, i int, nodeIdx int, id []byte, nvalsOnWire int) {
	if i >= len(x.entries) {
		return
	}
	en := x.entries[i]
	stmt := w.stmts[en.stmt]
	if !w.knownID(nodeIdx, stmt, id) {
		w.violate("foreign-id", fmt.Sprintf("executor %d entry %d (%q on node %d) was sent with id %x which that node never returned for that statement", x.idx, i, stmt, nodeIdx, id))
	}
	if i < len(x.flightOf) && x.flightOf[i] >= 0 {
		fr := w.flights[x.flightOf[i]]
		if fr.ok && string(fr.id) != string(id) {
			w.violate("stale-id", fmt.Sprintf("executor %d entry %d waited for PREPARE #%d (id %x) but sent id %x", x.idx, i, fr.fid, fr.id, id))
		}
		if fr.ok && fr.cnt != en.nvals {
			w.violate("count-not-checked", fmt.Sprintf("executor %d entry %d has %d values, the statement takes %d, and a frame was sent", x.idx, i, en.nvals, fr.cnt))
		}
	}
	if nvalsOnWire != en.nvals {
		w.violate("values-on-wire", fmt.Sprintf("executor %d entry %d: %d values bound, %d on the wire", x.idx, i, en.nvals, nvalsOnWire))
	}
}

func (w *world) checkBinds(x *xrec) {
	x.mu.Lock()
	defer x.mu.Unlock()
	for _, ob := range x.binds {
		stmt := w.stmts[ob.stmt]
		var fr *frec
		for _, f := range w.flights {
			if f.ok && f.host == x.host && f.stmt == ob.stmt && string(f.id) == string(ob.id) && len(f.names) == ob.nargs {
				fr = f
			}
		}
		if fr == nil {
			w.violate("foreign-metadata", fmt.Sprintf("executor %d: binding for %q got id %x with %d columns %v: no PREPARE answer for that statement on that node looked like this", x.idx, stmt, ob.id, ob.nargs, ob.names))
			continue
		}
		if strings.Join(fr.names, ",") != strings.Join(ob.names, ",") && !w.realIDs && !w.collide {
			w.violate("foreign-metadata", fmt.Sprintf("executor %d: binding for %q got columns %v, PREPARE #%d returned %v", x.idx, stmt, ob.names, fr.fid, fr.names))
		}
	}
	x.binds = nil
}

// settle processes events until nothing the harness started is still running
func (w *world) settle() bool {
	timer := time.NewTimer(watchdog)
	defer timer.Stop()
	for len(w.running) > 0 {
		select {
		case ev := <-w.ev:
			w.handle(ev)
		case <-timer.C:
			var r []string
			for k := range w.running {
				r = append(r, k)
			}
			sort.Strings(r)
			w.violate("hang", fmt.Sprintf("no progress for %v while waiting for %v", watchdog, r))
			atomic.AddInt32(&hangs, 1)
			return false
		}
	}
	w.retryStashedPrepares()
	// nothing may be left in the queue
	for {
		select {
		case ev := <-w.ev:
			w.handle(ev)
			continue
		default:
		}
		break
	}
	return true
}

// endRound writes the round out in canonical order and appends a snapshot
func (w *world) endRound(where string) {
	w.items = append(w.items, w.header.labs...)
	w.obs = append(w.obs, w.header.obs...)
	var es []int
	for e := range w.blocks {
		es = append(es, e)
	}
	sort.Ints(es)
	for _, e := range es {
		w.items = append(w.items, w.blocks[e].labs...)
		w.obs = append(w.obs, w.blocks[e].obs...)
	}
	if len(w.pendEv) > 0 {
		w.obs = append(w.obs, w.pendEv...)
		w.pendEv = nil
	}
	w.header = block{}
	w.blocks = map[int]*block{}
	w.roundFail = false
	sn := w.snapshot()
	w.checkSnapshot(sn, where)
	w.items = append(w.items, w.snapTerm(sn))
}

// ---- actions ----------------------------------------------------------------------------------------

func (w *world) actStart(batch bool, host int, entries []xentry) bool {
	x := w.newExec(batch, host, entries)
	w.stepping = true
	w.launch(x, true)
	ok := w.settle()
	w.endRound(fmt.Sprintf("after start of executor %d", x.idx))
	return ok
}

// actStartWriteFault: the PREPARE of a statement that is not cached cannot be written (the connection's
// next Write accepts 3 bytes and fails): c.exec fails in the winner's goroutine before anything reaches the node
func (w *world) actStartWriteFault(host, stmt int) bool {
	w.stepping = true
	w.nextErr++
	code := w.nextErr
	ferr := fmt.Errorf("c14-err-%d write refused", code)
	for _, c := range w.nodes[host].Conns() {
		if c.Open() && len(c.Registered()) == 0 {
			l := c.Link()
			l.C2S.FailWriteAt(l.C2S.Written()+3, ferr)
		}
	}
	x := w.newExec(false, host, []xentry{{stmt: stmt, prep: true, nvals: w.params[stmt]}})
	x.scriptedErr = true
	x.expectCode = code
	w.faultCode = code
	w.launch(x, true)
	ok := w.settle()
	w.faultCode = 0
	w.endRound(fmt.Sprintf("after start of executor %d with a write fault", x.idx))
	return ok
}

// actGroup starts n query executors on one statement at the same moment (no stepping)
func (w *world) actGroup(n int, host int, mk func(i int) xentry) bool {
	w.stepping = false
	var xs []*xrec
	for i := 0; i < n; i++ {
		xs = append(xs, w.newExec(false, host, []xentry{mk(i)}))
	}
	for _, x := range xs {
		w.launch(x, false)
	}
	// wait for all lookups; keep everything else for afterwards
	var stash []hev
	seen := 0
	timer := time.NewTimer(watchdog)
	defer timer.Stop()
	for seen < n {
		select {
		case ev := <-w.ev:
			if ev.kind == evLookup {
				seen++
				w.handle(ev)
			} else if ev.kind == evEvict {
				w.handle(ev)
			} else {
				stash = append(stash, ev)
			}
		case <-timer.C:
			w.violate("hang", fmt.Sprintf("only %d of %d executors reached prepareStatement", seen, n))
			atomic.AddInt32(&hangs, 1)
			w.endRound("group start (hung)")
			return false
		}
	}
	sn := w.snapshot()
	key := w.keyOf(host, xs[0].entries[0].stmt)
	var fl *gocql.VerifC14Flight
	for i := range sn {
		if sn[i].Key == key {
			fl = &sn[i]
		}
	}
	if fl == nil {
		if w.max >= 0 {
			w.violate("lookup-not-cached", fmt.Sprintf("%d executors looked up %q and it is not in the cache", n, key))
		}
	} else {
		fid := w.fidOf(fl.Obj)
		if fid < 0 {
			fid = len(w.flights)
			w.objFid[fl.Obj] = fid
			w.flights = append(w.flights, &frec{fid: fid, obj: fl.Obj, key: key, host: host, stmt: xs[0].entries[0].stmt, creator: xs[0].idx})
			w.running[fmt.Sprintf("f%d", fid)] = true
			b := w.blk(xs[0].idx)
			b.obs = append(b.obs, w.pendEv...)
			w.pendEv = nil
		}
		for _, x := range xs {
			w.noteFlight(x, fid, fl.Done, fl.Obj, key)
		}
	}
	w.stepping = true
	for _, ev := range stash {
		w.handle(ev)
	}
	ok := w.settle()
	w.endRound(fmt.Sprintf("after group start of %d executors", n))
	return ok
}

func (w *world) waitersOf(fid int) []*xrec {
	var xs []*xrec
	for _, x := range w.execs {
		if !x.done && !x.sent && x.waitingOn == fid && !x.pendingWake {
			xs = append(xs, x)
		}
	}
	return xs
}

func (w *world) mkID(fr *frec) []byte {
	if w.collide {
		// a server that hands out one id per host whatever the statement (not an honest server; the
		// driver's bookkeeping - which statement a batch evicts for an id - must still be the model's)
		return []byte{0xC0, byte(fr.host)}
	}
	if w.realIDs {
		return node.PreparedID(w.ks+w.hostIDs[fr.host], w.stmts[fr.stmt])
	}
	n := 2 + w.rng.Intn(15)
	id := append([]byte{byte(fr.fid >> 8), byte(fr.fid)}, w.rng.Bytes(n)...)
	return id
}

func (w *world) actAnswerPrepare(fr *frec, ok bool, cnt int) bool {
	return w.actAnswerPrepareKind(fr, ok, cnt, -1)
}

// forceKind >= 0 picks how the PREPARE fails: 0 ERROR frame, 1 wrong frame kind, 2 undecodable RESULT,
// 4 no answer at all (the request times out), 5 the node closes the connection the PREPARE came in on
func (w *world) actAnswerPrepareKind(fr *frec, ok bool, cnt int, forceKind int) bool {
	w.stepping = true
	fr.answered = true
	w.answeredP++
	waiters := w.waitersOf(fr.fid)
	if ok {
		fr.ok, fr.cnt, fr.id = true, cnt, w.mkID(fr)
		var cols []node.Column
		for i := 0; i < cnt; i++ {
			name := fmt.Sprintf("c%d_f%d", i, fr.fid)
			fr.names = append(fr.names, name)
			cols = append(cols, node.Col(name, node.Varchar))
		}
		hs := w.hostIDs[fr.host] + "|" + w.stmts[fr.stmt]
		w.idsFor[hs] = append(w.idsFor[hs], fr.id)
		w.header.labs = append(w.header.labs, fmt.Sprintf("SLab (LPrepOk %d%%nat %s %d %d)", fr.fid, w.nm(string(fr.id)), cnt, fr.fid),
			fmt.Sprintf("SLab (LClose %d%%nat)", fr.fid))
		for _, x := range waiters {
			x.pendingWake = true
			w.running[fmt.Sprintf("x%d", x.idx)] = true
			if x.entries[x.pos].nvals != cnt {
				x.scriptedErr = true
			}
		}
		fr.prepConn.Reply(fr.prepReq, node.Prepared{ID: fr.id, Bind: cols, Keyspace: w.tableKS[fr.stmt], Table: "t", GlobalSpec: cnt > 0})
	} else {
		w.nextErr++
		fr.errCode = w.nextErr
		w.roundFail = true
		w.header.labs = append(w.header.labs, fmt.Sprintf("SLab (LPrepFail %d%%nat %d)", fr.fid, fr.errCode),
			fmt.Sprintf("SLab (LClose %d%%nat)", fr.fid))
		kind := w.rng.Intn(4)
		if forceKind >= 0 {
			kind = forceKind
		}
		for _, x := range waiters {
			x.pendingWake = true
			x.scriptedErr = true
			if kind != 0 {
				x.expectCode = fr.errCode
			}
			w.running[fmt.Sprintf("x%d", x.idx)] = true
		}
		fr.failKind = kind
		locked := w.lockBudget > 0 && len(waiters) > 0 && kind < 4 && w.rng.Chance(60)
		if locked {
			// freeze the cache: whoever needs preparedLRU.mu (the winner's remove, any lookup) waits
			w.lockBudget--
			w.stats["locked-failures"]++
			gocql.VerifC14Lock(w.sess)
		}
		switch kind {
		case 0, 3: // ERROR frame
			fr.prepConn.Reply(fr.prepReq, node.Error{Code: node.ErrInvalid, Message: fmt.Sprintf("c14-err-%d PREPARE refused", fr.errCode)})
		case 1: // a frame that is neither RESULT prepared nor ERROR
			fr.prepConn.Reply(fr.prepReq, node.Void{})
		case 2: // RESULT prepared cut short: parseFrame fails
			fr.prepConn.Reply(fr.prepReq, node.RawMessage{Opcode: node.OpResult, Body: new(node.Buf).Int(node.KindPrepared).Short(9).Raw([]byte{1, 2}).B})
		case 4: // never answered: Conn.exec gives up after ClusterConfig.Timeout
		case 5: // connection lost
			fr.prepConn.Close()
		}
		if locked {
			w.lockedWindow(fr)
		}
	}
	okS := w.settle()
	if !ok {
		// reported to everyone who was waiting
		for _, x := range waiters {
			if !x.done || x.err == nil || ((fr.failKind == 0 || fr.failKind == 3) && !strings.Contains(x.err.Error(), fmt.Sprintf("c14-err-%d ", fr.errCode))) {
				w.violate("failure-not-reported", fmt.Sprintf("executor %d was waiting for PREPARE #%d which failed with c14-err-%d; it got done=%v err=%v", x.idx, fr.fid, fr.errCode, x.done, x.err))
			}
		}
	}
	w.endRound(fmt.Sprintf("after answering PREPARE #%d ok=%v", fr.fid, ok))
	return okS
}

// lockedWindow: the PREPARE of flight fr has just been answered with a failure while the harness holds the
// cache's mutex.  The failing goroutine must remove the entry (which needs the mutex) before it closes
// flight.done, so until the harness unlocks nobody can have been told about the failure: anything that
// happens in the window while the failed flight is still cached is a remembered failure being reported.
const lockWindow = 150 * time.Millisecond

func (w *world) lockedWindow(fr *frec) {
	var early []hev
	timer := time.NewTimer(lockWindow)
	select {
	case ev := <-w.ev:
		early = append(early, ev)
		// drain what else is there right now
		for more := true; more; {
			select {
			case ev2 := <-w.ev:
				early = append(early, ev2)
			default:
				more = false
			}
		}
	case <-timer.C:
	}
	timer.Stop()
	stillCached := false
	for _, f := range gocql.VerifC14SnapshotLocked(w.sess) {
		if f.Obj == fr.obj {
			stillCached = true
		}
	}
	gocql.VerifC14Unlock(w.sess)
	for _, ev := range early {
		if ev.kind == evReturn && stillCached {
			w.violate("failure-reported-while-still-cached", fmt.Sprintf("executor %d was handed the failure of PREPARE #%d (%v) while that PREPARE is still in the cache: the next lookup of %q gets the remembered failure", ev.e, fr.fid, ev.err, fr.key))
		}
		w.handle(ev)
	}
}

// how = 0 void, 1 error, 2 unprepared(id)
func (w *world) actAnswerExec(x *xrec, how int, id []byte) bool {
	w.stepping = true
	keepObj := map[string]interface{}{}
	x.sent = false
	w.running[fmt.Sprintf("x%d", x.idx)] = true
	req, conn := x.sentReq, x.sentConn
	x.sentReq, x.sentConn = nil, nil
	switch how {
	case 0:
		w.header.labs = append(w.header.labs, fmt.Sprintf("SLab (LReplyOk %d%%nat)", x.idx))
		conn.Reply(req, node.Void{})
	case 1:
		w.nextErr++
		x.scriptedErr = true
		w.header.labs = append(w.header.labs, fmt.Sprintf("SLab (LReplyErr %d%%nat %d)", x.idx, w.nextErr))
		conn.Reply(req, node.Error{Code: node.ErrInvalid, Message: fmt.Sprintf("c14-err-%d refused", w.nextErr)})
	case 2:
		w.header.labs = append(w.header.labs, fmt.Sprintf("SLab (LReplyUnprep %d%%nat %s)", x.idx, w.nm(string(id))))
		// re-prepare monitor: if the cache holds a finished PREPARE with exactly this id under the key the
		// driver will look at, the executor must not be handed that same object again
		x.unprepOld, x.unprepKey = nil, ""
		var stmtIdx = -1
		if !x.batch {
			stmtIdx = x.entries[0].stmt
		} else {
			for i, en := range x.entries {
				if en.prep && i < len(x.flightOf) && x.flightOf[i] >= 0 && string(w.flights[x.flightOf[i]].id) == string(id) {
					stmtIdx = en.stmt
				}
			}
		}
		if stmtIdx >= 0 {
			key := w.keyOf(x.host, stmtIdx)
			for _, f := range w.snapshot() {
				if f.Key == key && f.Done && f.HasPS && string(f.ID) == string(id) {
					x.unprepOld, x.unprepKey = f.Obj, key
				}
			}
		}
		// ... and the other way round: an id that is not the cached one (or a PREPARE still in flight)
		// must leave the entries of this executor's statements alone
		for _, en := range x.entries {
			if !en.prep || x.batch {
				continue // (a batch starts over with all its statements and may push the entry out by capacity)
			}
			key := w.keyOf(x.host, en.stmt)
			for _, f := range w.snapshot() {
				if f.Key == key && !(f.Done && f.HasPS && string(f.ID) == string(id)) {
					keepObj[key] = f.Obj
				}
			}
		}
		x.pos, x.flightOf, x.waitingOn, x.pendingWake = 0, nil, -1, false
		conn.Reply(req, node.Unprepared(id))
	}
	ok := w.settle()
	if ok {
		now := map[string]interface{}{}
		for _, f := range w.snapshot() {
			now[f.Key] = f.Obj
		}
		for key, obj := range keepObj {
			if now[key] != obj {
				w.violate("evicted-without-matching-id", fmt.Sprintf("executor %d was told UNPREPARED for id %x; the cached PREPARE of %q has another id or is in flight, and it was evicted", x.idx, id, key))
			}
		}
	}
	w.endRound(fmt.Sprintf("after answering executor %d how=%d", x.idx, how))
	return ok
}

func (w *world) actCancel(x *xrec) bool {
	w.stepping = true
	x.scriptedErr = true
	w.header.labs = append(w.header.labs, fmt.Sprintf("SLab (LCancel %d%%nat)", x.idx))
	x.waitingOn = -1
	w.running[fmt.Sprintf("x%d", x.idx)] = true
	x.cancel()
	ok := w.settle()
	w.endRound(fmt.Sprintf("after cancelling executor %d", x.idx))
	return ok
}

// ---- the random driver --------------------------------------------------------------------------------

type scenCfg struct {
	proto, nnodes, max, numConns, nstmts, nsteps, maxExec int
	ks                                                    string
	lockedFails                                           int
	endMode                                               int // 0 nothing, 4 PREPARE times out, 5 connection lost while the PREPARE is in flight
	realIDs, writeFault, collide                          bool
	pFail, pUnprep, pWrongCount, pGroup, pBatch           int
	groupMax                                              int
}

func (c scenCfg) timeout() time.Duration {
	if c.endMode == 4 {
		return 1500 * time.Millisecond // everything else in such a scenario is answered within microseconds
	}
	return 120 * time.Second
}

func (w *world) pendingPrepares() []*frec {
	var fs []*frec
	for _, f := range w.flights {
		if f.prepReq != nil && !f.answered {
			fs = append(fs, f)
		}
	}
	return fs
}

func (w *world) sentExecs() []*xrec {
	var xs []*xrec
	for _, x := range w.execs {
		if x.sent && !x.done {
			xs = append(xs, x)
		}
	}
	return xs
}

// endEpisode: several executors wait for one PREPARE which then fails because the request times out
// (endMode 4) or because the connection is lost (endMode 5, the pool reconnects); afterwards the statement is
// executed again and must be prepared again and succeed.
func (w *world) endEpisode(c scenCfg) bool {
	host, stmt := -1, -1
pick:
	for h := 0; h < c.nnodes; h++ {
		for st := 0; st < c.nstmts; st++ {
			if w.absent(h, st) {
				host, stmt = h, st
				break pick
			}
		}
	}
	if host < 0 {
		return true
	}
	mk := func(int) xentry { return xentry{stmt: stmt, prep: true, nvals: w.params[stmt], bind: w.rng.Chance(35)} }
	n := 2 + w.rng.Intn(4)
	var ok bool
	if c.max >= 0 {
		ok = w.actGroup(n, host, mk)
	} else {
		ok = w.actStart(false, host, []xentry{mk(0)})
	}
	if !ok {
		return false
	}
	pp := w.pendingPrepares()
	if len(pp) != 1 {
		return true
	}
	fr := pp[0]
	before := w.nodes[host].TotalConns()
	if !w.actAnswerPrepareKind(fr, false, 0, c.endMode) {
		return false
	}
	w.stats[fmt.Sprintf("end-mode-%d", c.endMode)]++
	if c.endMode == 5 {
		// wait for the pool to have replaced the connection
		okRe := w.net.WaitFor(10*time.Second, func() bool {
			return w.nodes[host].TotalConns() > before && gocql.VerifC14PoolSize(w.sess, w.hostIDs[host]) == c.numConns
		})
		if !okRe {
			w.stats["no-reconnect"]++
			return true
		}
	}
	// the statement again: not remembered, prepared again, succeeds
	if !w.actStart(false, host, []xentry{{stmt: stmt, prep: true, nvals: w.params[stmt]}}) {
		return false
	}
	last := w.execs[len(w.execs)-1]
	for guard := 0; guard < 20; guard++ {
		pp, se := w.pendingPrepares(), w.sentExecs()
		if len(pp) > 0 {
			if !w.actAnswerPrepare(pp[0], true, w.params[pp[0].stmt]) {
				return false
			}
		} else if len(se) > 0 {
			if !w.actAnswerExec(se[0], 0, nil) {
				return false
			}
		} else {
			break
		}
	}
	if !last.done || last.err != nil {
		w.violate("eventual-success", fmt.Sprintf("after the failed PREPARE (mode %d) the next execution of the statement ended with done=%v err=%v", c.endMode, last.done, last.err))
	}
	return true
}

func (w *world) absent(host, stmt int) bool {
	key := w.keyOf(host, stmt)
	for _, f := range w.snapshot() {
		if f.Key == key {
			return false
		}
	}
	return true
}

func (w *world) liveBatch() bool {
	for _, x := range w.execs {
		if x.batch && !x.done {
			return true
		}
	}
	return false
}

func (w *world) cancellable() []*xrec {
	var xs []*xrec
	for _, x := range w.execs {
		if !x.done && !x.sent && x.waitingOn >= 0 && !x.pendingWake && !w.flights[x.waitingOn].answered && len(w.waitersOf(x.waitingOn)) >= 2 {
			xs = append(xs, x)
		}
	}
	return xs
}

func (w *world) randEntry(c scenCfg, stmt int, forBatch bool) xentry {
	r := w.rng
	en := xentry{stmt: stmt, prep: true, nvals: w.params[stmt], bind: r.Chance(35)}
	if r.Chance(c.pWrongCount) {
		en.nvals += int(r.Pick(-1, 1, 2))
		if en.nvals < 0 {
			en.nvals = 0
		}
	}
	if forBatch && r.Chance(25) {
		en.bind, en.nvals = false, 0 // a statement without arguments goes into the batch as text
	}
	if forBatch && !en.bind && en.nvals == 0 {
		en.prep = false
	}
	return en
}

func (w *world) unprepID(x *xrec) []byte {
	r := w.rng
	var own [][]byte
	if x.sentReq.Execute != nil {
		own = append(own, x.sentReq.Execute.ID)
	} else if x.sentReq.Batch != nil {
		for _, st := range x.sentReq.Batch.Statements {
			if st.Kind == 1 {
				own = append(own, st.ID)
			}
		}
	}
	switch {
	case len(own) > 0 && r.Chance(75):
		return own[r.Intn(len(own))]
	case r.Chance(50):
		return r.Bytes(1 + r.Intn(16)) // an id nobody knows
	default:
		// an id of some other PREPARE answer
		var all [][]byte
		for _, f := range w.flights {
			if f.ok {
				all = append(all, f.id)
			}
		}
		if len(all) == 0 {
			return []byte{1, 2, 3}
		}
		return all[r.Intn(len(all))]
	}
}

func (w *world) drive(c scenCfg) {
	r := w.rng
	alive := true
	unprepBudget := 3 * c.maxExec
	for step := 0; step < c.nsteps && alive; step++ {
		pp, se, ca := w.pendingPrepares(), w.sentExecs(), w.cancellable()
		canStart := len(w.execs) < c.maxExec
		var opts []int
		if canStart {
			opts = append(opts, 0, 0, 0)
		}
		if len(pp) > 0 {
			opts = append(opts, 1, 1)
		}
		if len(se) > 0 {
			opts = append(opts, 2, 2)
		}
		if len(ca) > 0 && r.Chance(30) {
			opts = append(opts, 3)
		}
		if len(opts) == 0 {
			break
		}
		switch opts[r.Intn(len(opts))] {
		case 0:
			host := r.Intn(c.nnodes)
			stmt := r.Intn(c.nstmts)
			switch {
			case r.Chance(c.pGroup) && len(w.execs)+2 <= c.maxExec && c.max >= 0:
				n := 2 + r.Intn(c.groupMax-1)
				if len(w.execs)+n > c.maxExec {
					n = c.maxExec - len(w.execs)
				}
				alive = w.actGroup(n, host, func(i int) xentry { return w.randEntry(c, stmt, false) })
			case r.Chance(c.pBatch) && !w.liveBatch():
				n := 1 + r.Intn(4)
				var ens []xentry
				for i := 0; i < n; i++ {
					st := r.Intn(c.nstmts)
					if r.Chance(25) && len(ens) > 0 {
						st = ens[r.Intn(len(ens))].stmt // the same statement twice in one batch
					}
					ens = append(ens, w.randEntry(c, st, true))
				}
				alive = w.actStart(true, host, ens)
			default:
				alive = w.actStart(false, host, []xentry{w.randEntry(c, stmt, false)})
			}
		case 1:
			fr := pp[r.Intn(len(pp))]
			if r.Chance(c.pFail) {
				alive = w.actAnswerPrepare(fr, false, 0)
			} else {
				cnt := w.params[fr.stmt]
				if r.Chance(8) {
					cnt += int(r.Pick(-1, 1))
					if cnt < 0 {
						cnt = 0
					}
				}
				alive = w.actAnswerPrepare(fr, true, cnt)
			}
		case 2:
			x := se[r.Intn(len(se))]
			switch {
			case r.Chance(c.pUnprep) && unprepBudget > 0:
				unprepBudget--
				alive = w.actAnswerExec(x, 2, w.unprepID(x))
			case r.Chance(10):
				alive = w.actAnswerExec(x, 1, nil)
			default:
				alive = w.actAnswerExec(x, 0, nil)
			}
		case 3:
			alive = w.actCancel(ca[r.Intn(len(ca))])
		}
	}
	// drain: everything outstanding is answered positively
	for guard := 0; alive && guard < 10*c.maxExec+50; guard++ {
		pp, se := w.pendingPrepares(), w.sentExecs()
		if len(pp) > 0 {
			fr := pp[0]
			alive = w.actAnswerPrepare(fr, true, w.params[fr.stmt])
		} else if len(se) > 0 {
			alive = w.actAnswerExec(se[0], 0, nil)
		} else {
			break
		}
	}
	if alive && c.writeFault {
		// the last thing the scenario does (the connection dies with the fault): a PREPARE that cannot be written
	pick:
		for host := 0; host < c.nnodes; host++ {
			for stmt := 0; stmt < c.nstmts; stmt++ {
				if w.absent(host, stmt) {
					alive = w.actStartWriteFault(host, stmt)
					w.stats["write-faults"]++
					break pick
				}
			}
		}
	}
	if alive && c.endMode >= 4 {
		alive = w.endEpisode(c)
	}
	if alive {
		for _, x := range w.execs {
			if !x.done {
				w.violate("not-finished", fmt.Sprintf("executor %d never returned although everything was answered", x.idx))
			} else if x.err != nil && !x.scriptedErr {
				w.violate("eventual-success", fmt.Sprintf("executor %d failed with %v although the script gave it no error (UNPREPARED answers must lead to a new PREPARE and success)", x.idx, x.err))
			} else if x.err == nil && x.scriptedErr && false {
				// (a scripted error can be superseded, e.g. a wrong count against a later PREPARE answer: not checked)
			}
		}
	}
	for _, id := range w.hostIDs {
		if len(id) != 36 {
			w.violate("hostid-premise", fmt.Sprintf("host id %q is not a 36-character UUID string", id))
		}
	}
}

func (w *world) term() string {
	body := fmt.Sprintf("CScen %s %s %s", hlib.Z(int64(w.max)), hlib.List(w.items), hlib.List(w.obs))
	return "(" + strings.Join(w.nameDefs, " ") + " " + body + ")"
}

var stmtPool = []struct {
	s string
	n int
}{
	{"INSERT INTO t (a, b) VALUES (?, ?)", 2},
	{"INSERT INTO t (a) VALUES (?)", 1},
	{"UPDATE t SET b = ? WHERE a = ?", 2},
	{"DELETE FROM t WHERE a = 'x'", 0},
	{"INSERT INTO t (a, b, c) VALUES (?, ?, ?)", 3},
	{"DELETE FROM t WHERE a = ?", 1},
}

type scenResult struct {
	term       string
	viol       []hlib.Violation
	nontrivial bool
	kind       string
	err        error
	log        []string
	stats      map[string]int
}

var errSkipped = fmt.Errorf("skipped: earlier scenarios hung")

func runScenario(seed uint64, c scenCfg) scenResult {
	if atomic.LoadInt32(&hangs) >= 3 {
		return scenResult{err: errSkipped}
	}
	rng := hlib.NewRng(seed)
	var stmts []string
	var params []int
	off := rng.Intn(len(stmtPool))
	for i := 0; i < c.nstmts; i++ {
		p := stmtPool[(off+i)%len(stmtPool)]
		stmts = append(stmts, p.s)
		params = append(params, p.n)
	}
	w, err := newWorld(rng, c.proto, c.nnodes, c.max, c.numConns, c.ks, stmts, params, c.realIDs, c.timeout())
	if err == nil {
		w.collide = c.collide
		w.lockBudget = c.lockedFails
	}
	if err != nil {
		return scenResult{err: err}
	}
	defer w.close()
	w.drive(c)
	kind := fmt.Sprintf("scen-max%d-n%d", c.max, c.nnodes)
	st := map[string]int{"executors": len(w.execs), "prepares": len(w.flights), "labels": len(w.items)}
	for k, v := range w.stats {
		st[k] = v
	}
	return scenResult{term: w.term(), viol: w.viol, nontrivial: w.answeredP > 0 && w.finished > 0, kind: kind, log: w.log, stats: st}
}

func scenarioCases(o *hlib.Out) []pcase {
	n := 120 * o.Scale
	if o.Search {
		n = 400 * o.Scale // Scale is already x5 in search mode; no Coq evaluation, the harness itself is fast
	}
	cfgs := make([]scenCfg, n)
	seeds := make([]uint64, n)
	for i := range cfgs {
		r := o.Rng
		c := scenCfg{proto: 4 + r.Intn(5)/4, ks: []string{"ks1", "ks1", "ks1", ""}[r.Intn(4)], lockedFails: r.Intn(3), nnodes: 1 + r.Intn(3), max: 1 + r.Intn(4), numConns: 1 + r.Intn(2), nstmts: 1 + r.Intn(4),
			nsteps: 25 + r.Intn(50), maxExec: 6 + r.Intn(20), realIDs: r.Chance(40),
			pFail: 25, pUnprep: 30, pWrongCount: 12, pGroup: 25, pBatch: 20, groupMax: 8, writeFault: r.Chance(30), collide: r.Chance(6)}
		switch i % 9 {
		case 3: // many executors on one statement
			c.nstmts, c.nnodes, c.maxExec, c.groupMax, c.pGroup, c.nsteps = 1, 1, 34, 32, 70, 30
		case 5: // eviction pressure
			c.max, c.nstmts = 1, 3+r.Intn(2)
		case 6: // batches against a server that hands out one id per host: which statement does UNPREPARED evict?
			c.collide, c.nstmts, c.pBatch, c.pUnprep, c.pGroup, c.max, c.pFail = true, 3+r.Intn(2), 70, 70, 5, 3+r.Intn(2), 10
		case 1, 4: // a PREPARE with waiters runs into the request timeout / loses its connection
			if i%2 == 0 {
				c.endMode, c.writeFault = 4+(i/2)%2, false
				if c.endMode == 4 {
					c.lockedFails, c.nsteps = 0, 10+r.Intn(15)
				}
			}
		case 7:
			c.max = 0 // no limit
		case 8:
			if r.Chance(50) {
				c.max = -1
			}
		}
		if o.Search {
			// the failing-input search leans on failures, UNPREPARED answers and tiny caches
			c.pFail, c.pUnprep, c.pWrongCount, c.pBatch = 40, 45, 20, 30
			if i%2 == 0 && c.max > 2 {
				c.max = 1 + r.Intn(2)
			}
			c.nsteps += 30
		}
		cfgs[i] = c
		seeds[i] = r.U64()
	}
	res := make([]scenResult, n)
	var wg sync.WaitGroup
	sem := make(chan struct{}, 6)
	for i := range cfgs {
		wg.Add(1)
		sem <- struct{}{}
		go func(i int) {
			defer wg.Done()
			defer func() { <-sem }()
			res[i] = runScenario(seeds[i], cfgs[i])
		}(i)
	}
	wg.Wait()
	tot := map[string]int{}
	var out []pcase
	for i, r := range res {
		if r.err == errSkipped {
			tot["skipped"]++
			continue
		}
		if r.err != nil {
			o.Violate(-1, "setup", "", fmt.Sprintf("scenario %d: session could not be set up: %v", i, r.err), nil)
			continue
		}
		pc := pcase{kind: r.kind, nontrivial: r.nontrivial, term: r.term}
		for _, v := range r.viol {
			v.Input = map[string]interface{}{"scenario": i, "seed": seeds[i], "cfg": fmt.Sprintf("%+v", cfgs[i])}
			pc.viol = append(pc.viol, v)
		}
		out = append(out, pc)
		for k, v := range r.stats {
			tot[k] += v
		}
	}
	o.Extra["scenario_totals"] = tot
	return out
}
