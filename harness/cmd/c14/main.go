// C14 harness: prepared statements.
//
//	(a) random operation sequences on the real internal/lru.Cache (through the verif shim) against the
//	    list model, exact at every step, cache sizes 1..8 (and 0 = unlimited, negative);
//	(b) preparedLRU.keyFor;
//	(c) real Sessions against scripted in-memory nodes (gocqlverif/node): the harness steps the executors
//	    one critical section at a time, places PREPARE failures and UNPREPARED answers, and writes the
//	    history down as labels of the Coq transition system together with snapshots of the real cache and
//	    everything observed at the nodes; property monitors run on the observations alone.
package main

import (
	"fmt"
	"strings"

	"github.com/gocql/gocql"
	"gocqlverif/hlib"
)

func zkey(s string) string { return hlib.ZList([]byte(s)) }

func kvList(kvs []gocql.VerifC14KV) string {
	items := make([]string, len(kvs))
	for i, kv := range kvs {
		items[i] = hlib.Pair(zkey(kv.Key), hlib.Z(kv.Val))
	}
	return hlib.List(items)
}

// refLRU: the property's own words as an oracle - a finite map with a last-use stamp per key; the
// least recently used key goes when a new key does not fit.
type refLRU struct {
	max   int
	clock int64
	val   map[string]int64
	used  map[string]int64
}

func newRef(max int) *refLRU {
	return &refLRU{max: max, val: map[string]int64{}, used: map[string]int64{}}
}
func (r *refLRU) oldest() (string, bool) {
	best, found := "", false
	for k := range r.used {
		if !found || r.used[k] < r.used[best] {
			best, found = k, true
		}
	}
	return best, found
}
func (r *refLRU) add(k string, v int64) (evicted []string) {
	r.clock++
	_, had := r.val[k]
	r.val[k], r.used[k] = v, r.clock
	if !had && r.max != 0 && len(r.val) > r.max {
		if o, ok := r.oldest(); ok {
			delete(r.val, o)
			delete(r.used, o)
			evicted = append(evicted, o)
		}
	}
	return
}
func (r *refLRU) get(k string) (int64, bool) {
	v, ok := r.val[k]
	if ok {
		r.clock++
		r.used[k] = r.clock
	}
	return v, ok
}
func (r *refLRU) remove(k string) bool {
	_, ok := r.val[k]
	delete(r.val, k)
	delete(r.used, k)
	return ok
}
func (r *refLRU) removeOldest() (string, bool) {
	o, ok := r.oldest()
	if ok {
		delete(r.val, o)
		delete(r.used, o)
	}
	return o, ok
}

var keyPool = []string{"", "a", "b", "ab", "abc", "b\x00", "\xff", "k1", "k2", "k3", "k4", "k5", "k6", "k7", "k8", "k9", "k10", "k11", "stmt one", "stmt  one"}

// pcase is a case that has been generated but not yet handed to hlib (cases of different sizes are
// interleaved so that every shard of 200 costs about the same to evaluate)
type pcase struct {
	kind       string
	nontrivial bool
	term       string
	viol       []hlib.Violation
}

func lruCase(o *hlib.Out, max int, nops int, zero bool, nkeys int) pcase {
	r := o.Rng
	c := gocql.VerifC14NewLRU(max, zero)
	ref := newRef(max)
	var ops, outs []string
	bad := ""
	maxLen := 0
	for i := 0; i < nops; i++ {
		k := keyPool[r.Intn(nkeys)]
		var op, out string
		switch x := r.Intn(20); {
		case x < 8:
			v := int64(r.Intn(7)) - 2
			if r.Chance(5) {
				v = r.I64()
			}
			c.Add(k, v)
			ev := c.TakeEvicted()
			op = fmt.Sprintf("OAdd %s %s", zkey(k), hlib.Z(v))
			out = fmt.Sprintf("mkOut None false %d %s", c.Len(), kvList(ev))
			rev := ref.add(k, v)
			if len(rev) != len(ev) || (len(ev) == 1 && ev[0].Key != rev[0]) {
				bad = fmt.Sprintf("op %d Add(%q): evicted %v, least-recently-used oracle says %v", i, k, ev, rev)
			}
		case x < 14:
			v, ok := c.Get(k)
			ev := c.TakeEvicted()
			val := "None"
			if ok {
				val = hlib.Some(hlib.Z(v))
			}
			op = fmt.Sprintf("OGet %s", zkey(k))
			out = fmt.Sprintf("mkOut %s %s %d %s", val, hlib.Bool(ok), c.Len(), kvList(ev))
			rv, rok := ref.get(k)
			if rok != ok || (ok && rv != v) || len(ev) != 0 {
				bad = fmt.Sprintf("op %d Get(%q) = %d,%v evicted %v; oracle %d,%v", i, k, v, ok, ev, rv, rok)
			}
		case x < 17:
			ok := c.Remove(k)
			ev := c.TakeEvicted()
			op = fmt.Sprintf("ORemove %s", zkey(k))
			out = fmt.Sprintf("mkOut None %s %d %s", hlib.Bool(ok), c.Len(), kvList(ev))
			rok := ref.remove(k)
			if rok != ok || (ok && (len(ev) != 1 || ev[0].Key != k)) || (!ok && len(ev) != 0) {
				bad = fmt.Sprintf("op %d Remove(%q) = %v evicted %v; oracle %v", i, k, ok, ev, rok)
			}
		case x < 19:
			c.RemoveOldest()
			ev := c.TakeEvicted()
			op = "ORemoveOldest"
			out = fmt.Sprintf("mkOut None false %d %s", c.Len(), kvList(ev))
			ro, rok := ref.removeOldest()
			if (rok && (len(ev) != 1 || ev[0].Key != ro)) || (!rok && len(ev) != 0) {
				bad = fmt.Sprintf("op %d RemoveOldest evicted %v; oracle %q,%v", i, ev, ro, rok)
			}
		default:
			op = "OLen"
			out = fmt.Sprintf("mkOut None false %d []", c.Len())
		}
		if c.Len() != len(ref.val) && bad == "" {
			bad = fmt.Sprintf("op %d (%s): Len %d, oracle %d", i, op, c.Len(), len(ref.val))
		}
		if c.Len() > maxLen {
			maxLen = c.Len()
		}
		ops = append(ops, op)
		outs = append(outs, out)
	}
	final := c.Entries()
	kind := fmt.Sprintf("lru-max%d", max)
	if zero {
		kind += "-zero"
	}
	pc := pcase{kind: kind, nontrivial: maxLen >= 1 && nops >= 3,
		term: fmt.Sprintf("CLru %s %s %s %s", hlib.Z(int64(max)), hlib.List(ops), hlib.List(outs), kvList(final))}
	in := strings.Join(ops, "; ")
	if max > 0 && maxLen > max {
		pc.viol = append(pc.viol, hlib.Violation{Kind: "lru-bound", Detail: fmt.Sprintf("cache of capacity %d reached %d entries", max, maxLen), Input: in})
	}
	if bad != "" {
		pc.viol = append(pc.viol, hlib.Violation{Kind: "lru-vs-oracle", Detail: bad, Input: in})
	}
	seen := map[string]bool{}
	for _, kv := range final {
		if seen[kv.Key] {
			pc.viol = append(pc.viol, hlib.Violation{Kind: "lru-duplicate-key", Detail: fmt.Sprintf("key %q twice in the list", kv.Key), Input: in})
		}
		seen[kv.Key] = true
	}
	return pc
}

func lruCases(o *hlib.Out) []pcase {
	r := o.Rng
	var out []pcase
	n := 400 * o.Scale
	for i := 0; i < n; i++ {
		max := 1 + i%8
		switch {
		case i%29 == 0:
			max = 0
		case i%31 == 0:
			max = -1 - r.Intn(3)
		}
		nkeys := max + 1 + r.Intn(max+3)
		if max <= 0 {
			nkeys = 3 + r.Intn(8)
		}
		if nkeys > len(keyPool) {
			nkeys = len(keyPool)
		}
		if nkeys < 2 {
			nkeys = 2
		}
		nops := 5 + r.Intn(60)
		out = append(out, lruCase(o, max, nops, i%13 == 5, nkeys))
	}
	return out
}

func keyCases(o *hlib.Out) []pcase {
	r := o.Rng
	var res []pcase
	parts := []string{"", "a", "ab", "b", "3d6e2f7a-0b1c-4d5e-8f90-a1b2c3d4e5f6", "ks", "ks1", "1", "SELECT v FROM t WHERE k = ?", "\xff\x00", " "}
	n := 40 * o.Scale
	for i := 0; i < n; i++ {
		h, ks, st := parts[r.Intn(len(parts))], parts[r.Intn(len(parts))], parts[r.Intn(len(parts))]
		if r.Chance(30) {
			st = string(r.Bytes(r.Intn(12)))
		}
		out := gocql.VerifC14KeyFor(h, ks, st)
		pc := pcase{kind: "keyfor", nontrivial: h+ks+st != "", term: fmt.Sprintf("CKey %s %s %s %s", zkey(h), zkey(ks), zkey(st), zkey(out))}
		if out != h+ks+st {
			pc.viol = append(pc.viol, hlib.Violation{Kind: "keyfor-concat", Detail: fmt.Sprintf("keyFor(%q,%q,%q) = %q", h, ks, st, out)})
		}
		res = append(res, pc)
	}
	return res
}

// emit hands the cases to hlib, the big ones (scenarios) spread evenly among the small ones
func emit(o *hlib.Out, small, big []pcase) {
	put := func(pc pcase) {
		idx := o.Case(pc.kind, pc.nontrivial, pc.term)
		for _, v := range pc.viol {
			o.Violate(idx, v.Kind, "", v.Detail, v.Input)
		}
	}
	total := len(small) + len(big)
	bi, si := 0, 0
	for k := 0; k < total; k++ {
		// position k gets a big case when the big ones are behind their share
		if bi < len(big) && (si >= len(small) || bi*total <= k*len(big)) {
			put(big[bi])
			bi++
		} else {
			put(small[si])
			si++
		}
	}
}

// mix64 is the splitmix64 finaliser.  hlib.NewRng(seed) starts the one splitmix64 stream at offset
// seed (consecutive seeds give the same stream shifted by one draw, and the generators re-synchronise
// after a few cases), so the harness re-seeds with a hashed seed: still a function of -seed only.
func mix64(z uint64) uint64 {
	z += 0x9E3779B97F4A7C15
	z = (z ^ (z >> 30)) * 0xBF58476D1CE4E5B9
	z = (z ^ (z >> 27)) * 0x94D049BB133111EB
	return z ^ (z >> 31)
}

func main() {
	o := hlib.Init("C14")
	o.Rng = hlib.NewRng(mix64(o.Seed))
	o.Rule = "lru: random op sequences (add/get/remove/removeOldest/len) over a key pool slightly larger than the capacity, capacities 1..8, 0 and negative, " +
		"non-trivial = the cache held something and >= 3 ops; scenarios: see scen.go, non-trivial = at least one PREPARE was answered and one executor finished; " +
		"distinct = distinct Coq case term"
	small := append(lruCases(o), keyCases(o)...)
	big := scenarioCases(o)
	emit(o, small, big)
	o.Finish("From GocqlV Require Import Lib.Base C14.Corr.", "C14.Corr.case", "C14.Corr.run")
}
