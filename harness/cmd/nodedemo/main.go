// nodedemo: self-test of gocqlverif/node. It opens real gocql sessions against in-memory scripted
// nodes in every protocol version the driver speaks, exercises the fault and scripting features once
// each, cross-checks the package's response codec against what the driver decodes, and exits 0 only
// if everything behaved as expected.
package main

import (
	"bytes"
	"context"
	"crypto/ecdsa"
	"crypto/elliptic"
	"crypto/rand"
	"crypto/tls"
	"crypto/x509"
	"crypto/x509/pkix"
	"errors"
	"fmt"
	"log"
	"math/big"
	"net"
	"os"
	"reflect"
	"sort"
	"strings"
	"sync"
	"time"

	"github.com/gocql/gocql"
	"gocqlverif/node"
)

var (
	failed  bool
	logBuf  lockedBuf
	verbose = len(os.Args) > 1 && os.Args[1] == "-v"
)

type lockedBuf struct {
	mu sync.Mutex
	b  bytes.Buffer
}

func (l *lockedBuf) Write(p []byte) (int, error) {
	l.mu.Lock()
	defer l.mu.Unlock()
	if verbose {
		os.Stderr.Write(p)
	}
	return l.b.Write(p)
}

func check(ok bool, format string, args ...interface{}) bool {
	msg := fmt.Sprintf(format, args...)
	if ok {
		fmt.Printf("  ok    %s\n", msg)
	} else {
		fmt.Printf("  FAIL  %s\n", msg)
		failed = true
	}
	return ok
}

// newCluster: 3 nodes, 2 data centres, keyspace demo (NetworkTopologyStrategy), table demo.kv.
func newCluster() *node.Net {
	n := node.NewNet()
	a := n.AddNode("10.0.0.1:9042")
	b := n.AddNode("10.0.0.2:9042")
	c := n.AddNode("10.0.0.3:9042")
	a.Update(func(cfg *node.Config) { cfg.DataCenter, cfg.Rack = "dc1", "rack1" })
	b.Update(func(cfg *node.Config) { cfg.DataCenter, cfg.Rack = "dc1", "rack2" })
	c.Update(func(cfg *node.Config) { cfg.DataCenter, cfg.Rack = "dc2", "rack1" })
	n.SetKeyspace("demo", node.Keyspace{Replication: node.NetworkTopologyStrategy(map[string]int{"dc1": 2, "dc2": 1}), DurableWrites: true})
	n.SetTable(kvTable())
	return n
}

func kvTable() *node.Table {
	t := &node.Table{Keyspace: "demo", Name: "kv", PartitionKey: []string{"k"},
		Columns: []node.Column{node.Col("k", node.Varchar), node.Col("v", node.Int)}}
	for i, k := range []string{"a", "b", "c", "d", "e"} {
		t.Rows = append(t.Rows, [][]byte{node.TextV(k), node.IntV(int32(10 * (i + 1)))})
	}
	return t
}

func clusterConfig(n *node.Net, proto int, hosts ...string) *gocql.ClusterConfig {
	cfg := gocql.NewCluster(hosts...)
	cfg.Dialer = n.Dialer()
	cfg.ProtoVersion = proto
	cfg.Timeout = 2 * time.Second
	cfg.ConnectTimeout = 2 * time.Second
	cfg.NumConns = 2
	cfg.Keyspace = "demo"
	cfg.Consistency = gocql.One
	cfg.Logger = log.New(&logBuf, "gocql: ", 0)
	return cfg
}

func summary(n *node.Net) {
	for _, nd := range n.Nodes() {
		cnt := nd.Counters()
		var ops []string
		for _, k := range []string{"OPTIONS", "STARTUP", "AUTH_RESPONSE", "REGISTER", "QUERY", "PREPARE", "EXECUTE", "BATCH"} {
			if cnt[k] > 0 {
				ops = append(ops, fmt.Sprintf("%s=%d", k, cnt[k]))
			}
		}
		fmt.Printf("        node %s: conns total=%d open=%d; %s\n", nd.Addr(), nd.TotalConns(), nd.OpenConns(), strings.Join(ops, " "))
	}
}

func allRequests(n *node.Net) []*node.Request {
	var all []*node.Request
	for _, nd := range n.Nodes() {
		all = append(all, nd.Requests()...)
	}
	sort.Slice(all, func(i, j int) bool { return all[i].Seq < all[j].Seq })
	return all
}

func countReq(n *node.Net, match func(*node.Request) bool) int {
	c := 0
	for _, r := range allRequests(n) {
		if match(r) {
			c++
		}
	}
	return c
}

// ---------------------------------------------------------------------------------------------
// (a) + (b): a session in every protocol version
// ---------------------------------------------------------------------------------------------

func sessionScenario(proto int) {
	fmt.Printf("== session, protocol version %d: 3 nodes / 2 DCs, token-aware policy\n", proto)
	n := newCluster()
	defer n.Close()
	if proto <= 2 {
		// the era of these protocol versions: schema in system.schema_* tables
		for _, nd := range n.Nodes() {
			nd.Update(func(c *node.Config) { c.ReleaseVersion = "2.1.22" })
		}
	}
	cfg := clusterConfig(n, proto, "10.0.0.1")
	cfg.PoolConfig.HostSelectionPolicy = gocql.TokenAwareHostPolicy(gocql.RoundRobinHostPolicy())
	if proto == 1 {
		// v1 PREPARE results carry no result metadata and v1 EXECUTE has no skip-metadata flag, but
		// the driver still relies on the (empty) prepared result metadata unless told otherwise
		cfg.DisableSkipMetadata = true
	}
	s, err := gocql.NewSession(*cfg)
	if !check(err == nil, "NewSession: %v", err) {
		return
	}
	// all three hosts discovered and connected
	n.WaitFor(3*time.Second, func() bool {
		return n.Node("10.0.0.1:9042").OpenConns() >= 3 && n.Node("10.0.0.2:9042").OpenConns() >= 2 && n.Node("10.0.0.3:9042").OpenConns() >= 2
	})
	check(n.Node("10.0.0.2:9042").OpenConns() == 2 && n.Node("10.0.0.3:9042").OpenConns() == 2,
		"peers discovered from system.peers and pools filled (open conns %d/%d/%d)",
		n.Node("10.0.0.1:9042").OpenConns(), n.Node("10.0.0.2:9042").OpenConns(), n.Node("10.0.0.3:9042").OpenConns())
	n.WaitFor(2*time.Second, func() bool { return countReq(n, node.MatchOp(node.OpStartup)) == 7 })
	wrong := 0
	for _, nd := range n.Nodes() {
		for _, c := range nd.Conns() {
			if c.Proto() != proto {
				wrong++
			}
		}
	}
	check(wrong == 0 && countReq(n, node.MatchOp(node.OpStartup)) == 7, "7 connections, all speaking v%d", proto)

	// simple query (no values: QUERY)
	var k string
	var v int
	err = s.Query(`SELECT k, v FROM demo.kv WHERE k = 'a'`).Scan(&k, &v)
	check(err == nil && k == "a" && v == 10, "simple query: k=%q v=%d err=%v", k, v, err)

	// keyspace metadata through the schema tables
	km, err := s.KeyspaceMetadata("demo")
	check(err == nil && km != nil && strings.HasSuffix(km.StrategyClass, "NetworkTopologyStrategy") && fmt.Sprint(km.StrategyOptions["dc1"]) == "2" &&
		km.Tables["kv"] != nil && len(km.Tables["kv"].PartitionKey) == 1,
		"KeyspaceMetadata(demo): err=%v", err)

	// prepared query with values (PREPARE + EXECUTE)
	err = s.Query(`SELECT k, v FROM kv WHERE k = ?`, "b").Scan(&k, &v)
	check(err == nil && k == "b" && v == 20, "prepared query: k=%q v=%d err=%v", k, v, err)
	execs := countReq(n, func(r *node.Request) bool {
		return r.Execute != nil && strings.Contains(r.Statement(), "FROM kv WHERE k = ?") && len(r.Execute.Params.Values) == 1 &&
			string(r.Execute.Params.Values[0].Bytes) == "b"
	})
	check(execs == 1, "nodes saw exactly one EXECUTE of it with value 'b' (saw %d)", execs)

	if proto >= 2 {
		// paged query over 3 pages
		iter := s.Query(`SELECT k, v FROM kv`).PageSize(2).Iter()
		var keys []string
		for iter.Scan(&k, &v) {
			keys = append(keys, k)
		}
		err = iter.Close()
		check(err == nil && strings.Join(keys, "") == "abcde", "paged query: rows %v err=%v", keys, err)
		pages := countReq(n, func(r *node.Request) bool {
			return r.Execute != nil && strings.HasSuffix(r.Statement(), "FROM kv") && r.Execute.Params.PageSize == 2
		})
		withState := countReq(n, func(r *node.Request) bool {
			return r.Execute != nil && strings.HasSuffix(r.Statement(), "FROM kv") && r.Execute.Params.HasPagingState
		})
		check(pages == 3 && withState == 2, "nodes saw 3 page requests, 2 with a paging state (saw %d, %d)", pages, withState)

		// batch
		b := s.NewBatch(gocql.LoggedBatch)
		b.Query(`INSERT INTO kv (k, v) VALUES (?, ?)`, "x", 1)
		b.Query(`INSERT INTO kv (k, v) VALUES (?, ?)`, "y", 2)
		b.Query(`DELETE FROM kv WHERE k = 'z'`)
		err = s.ExecuteBatch(b)
		var seen *node.Batch
		for _, r := range allRequests(n) {
			if r.Batch != nil {
				seen = r.Batch
			}
		}
		okb := seen != nil && len(seen.Statements) == 3 && seen.Statements[0].Kind == 1 && seen.Statements[2].Kind == 0 &&
			len(seen.Statements[1].Values) == 2 && string(seen.Statements[1].Values[0].Bytes) == "y" &&
			bytes.Equal(seen.Statements[1].Values[1].Bytes, node.IntV(2)) && seen.Type == 0
		check(err == nil && okb, "batch of 2 prepared + 1 plain statement: err=%v decoded=%v", err, okb)
	} else {
		fmt.Println("        (protocol 1 has neither paging nor BATCH: skipped)")
	}
	for _, r := range allRequests(n) {
		if r.ParseErr != nil || r.Trailing != 0 {
			check(false, "request not decoded cleanly: %v trailing=%d", r, r.Trailing)
		}
	}
	summary(n)
	s.Close()
	n.WaitFor(2*time.Second, func() bool { return n.OpenConns() == 0 })
	check(n.OpenConns() == 0, "after Session.Close: %d open connections", n.OpenConns())
}

// protocol discovery: ProtoVersion 0 against nodes that accept v3..v4 only
func discoveryScenario() {
	fmt.Println("== protocol discovery (ProtoVersion 0) and a refused version")
	n := newCluster()
	defer n.Close()
	for _, nd := range n.Nodes() {
		nd.Update(func(c *node.Config) { c.MinProto, c.MaxProto = 3, 3 })
	}
	cfg := clusterConfig(n, 0, "10.0.0.1")
	s, err := gocql.NewSession(*cfg)
	if check(err == nil, "NewSession with discovery: %v", err) {
		p := 0
		for _, c := range n.Node("10.0.0.1:9042").Conns() {
			if len(c.Registered()) > 0 { // the control connection
				p = c.Proto()
			}
		}
		check(p == 3, "driver settled on protocol version %d (nodes accept only 3)", p)
		s.Close()
	}
	cfg = clusterConfig(n, 5, "10.0.0.1")
	_, err = gocql.NewSession(*cfg)
	check(err != nil, "ProtoVersion 5 against a v3-only node is refused: %v", err)
}

// authentication and compression negotiation
func authCompressionScenario() {
	fmt.Println("== authentication (PasswordAuthenticator) and snappy compression")
	n := newCluster()
	defer n.Close()
	for _, nd := range n.Nodes() {
		nd.Update(func(c *node.Config) { c.Auth = &node.Auth{Users: map[string]string{"cassandra": "secret"}} })
	}
	cfg := clusterConfig(n, 4, "10.0.0.1")
	cfg.Authenticator = gocql.PasswordAuthenticator{Username: "cassandra", Password: "secret"}
	cfg.Compressor = gocql.SnappyCompressor{}
	s, err := gocql.NewSession(*cfg)
	if check(err == nil, "NewSession with credentials + snappy: %v", err) {
		var k string
		var v int
		err = s.Query(`SELECT k, v FROM kv WHERE k = ?`, "c").Scan(&k, &v)
		check(err == nil && v == 30, "query over compressed frames: v=%d err=%v", v, err)
		comp, compressedReq := "", 0
		for _, c := range n.Node("10.0.0.1:9042").Conns() {
			comp = c.Compression()
		}
		for _, r := range allRequests(n) {
			if r.Header.Flags&node.FlagCompression != 0 {
				compressedReq++
			}
		}
		check(comp == "snappy" && compressedReq > 0, "negotiated %q, %d compressed request frames decoded", comp, compressedReq)
		s.Close()
	}
	cfg.Authenticator = gocql.PasswordAuthenticator{Username: "cassandra", Password: "wrong"}
	_, err = gocql.NewSession(*cfg)
	check(err != nil, "wrong password is refused: %v", err)
}

// TLS on the node side, the driver's HostDialer path, and seeded schedule perturbation
func tlsPerturbScenario() {
	fmt.Println("== TLS node + seeded perturbation (frames split at pseudo-random offsets) + HostDialer")
	key, _ := ecdsa.GenerateKey(elliptic.P256(), rand.Reader)
	tmpl := &x509.Certificate{SerialNumber: big.NewInt(1), Subject: pkix.Name{CommonName: "node"}, NotBefore: time.Now().Add(-time.Hour),
		NotAfter: time.Now().Add(time.Hour), IPAddresses: []net.IP{net.ParseIP("10.0.0.1"), net.ParseIP("10.0.0.2"), net.ParseIP("10.0.0.3")},
		KeyUsage: x509.KeyUsageDigitalSignature | x509.KeyUsageCertSign, IsCA: true, BasicConstraintsValid: true,
		ExtKeyUsage: []x509.ExtKeyUsage{x509.ExtKeyUsageServerAuth}}
	der, err := x509.CreateCertificate(rand.Reader, tmpl, tmpl, &key.PublicKey, key)
	if !check(err == nil, "self-signed certificate: %v", err) {
		return
	}
	cert, _ := x509.ParseCertificate(der)
	pool := x509.NewCertPool()
	pool.AddCert(cert)
	n := newCluster()
	defer n.Close()
	n.Perturb(42, 2*time.Millisecond)
	for _, nd := range n.Nodes() {
		nd.Update(func(c *node.Config) {
			c.TLS = &tls.Config{Certificates: []tls.Certificate{{Certificate: [][]byte{der}, PrivateKey: key}}}
		})
	}
	cfg := clusterConfig(n, 4, "10.0.0.1")
	cfg.SslOpts = &gocql.SslOptions{Config: &tls.Config{RootCAs: pool}, EnableHostVerification: true}
	s, err := gocql.NewSession(*cfg)
	if check(err == nil, "NewSession over TLS (host verification on), perturbed delivery: %v", err) {
		var v int
		err = s.Query(`SELECT v FROM kv WHERE k = ?`, "e").Scan(&v)
		check(err == nil && v == 50, "query: v=%d err=%v", v, err)
		first := n.Links()[0].C2S.Bytes()
		check(len(first) > 0 && first[0] == 0x16, "the wire carries TLS records (first client byte 0x%02x)", first[0])
		s.Close()
	}
	// plain nodes through the HostDialer interface, still perturbed
	n2 := newCluster()
	defer n2.Close()
	n2.Perturb(7, time.Millisecond)
	cfg = clusterConfig(n2, 4, "10.0.0.1")
	cfg.Dialer = nil
	d := n2.Dialer()
	d.DisableCoalesce = true
	cfg.HostDialer = d
	s, err = gocql.NewSession(*cfg)
	if check(err == nil, "NewSession through HostDialer: %v", err) {
		var v int
		for i := 0; i < 50 && err == nil; i++ {
			err = s.Query(`SELECT v FROM kv WHERE k = ?`, "c").Scan(&v)
		}
		check(err == nil && v == 30, "50 queries over perturbed connections: v=%d err=%v", v, err)
		s.Close()
	}
}

// ---------------------------------------------------------------------------------------------
// (c) scripted behaviour and faults, one node, one pool connection
// ---------------------------------------------------------------------------------------------

func oneNode() (*node.Net, *node.Node) {
	n := node.NewNet()
	nd := n.AddNode("10.0.0.1:9042")
	n.SetKeyspace("demo", node.Keyspace{Replication: node.SimpleStrategy(1), DurableWrites: true})
	n.SetTable(kvTable())
	return n, nd
}

func oneNodeSession(n *node.Net, timeout time.Duration) (*gocql.Session, error) {
	cfg := clusterConfig(n, 4, "10.0.0.1")
	cfg.NumConns = 1
	cfg.Timeout = timeout
	cfg.WriteCoalesceWaitTime = 0 // every frame is one Write call
	return gocql.NewSession(*cfg)
}

func outOfOrderScenario() {
	fmt.Println("== delayed, out-of-order replies")
	n, nd := oneNode()
	defer n.Close()
	// the answer to the "slow" query leaves after one further request on its connection
	nd.AddRule(node.Rule{Match: node.MatchStatement("k = 'a'", node.OpExecute), Do: func(c *node.ServerConn, req *node.Request) {
		c.ReplyAfterRequests(1, req, node.Rows{Keyspace: "demo", Table: "kv", GlobalSpec: true,
			Columns: []node.Column{node.Col("v", node.Int)}, Rows: [][][]byte{{node.IntV(10)}}})
	}})
	s, err := oneNodeSession(n, 2*time.Second)
	if !check(err == nil, "NewSession: %v", err) {
		return
	}
	defer s.Close()
	// have the fast statement prepared beforehand: its PREPARE would otherwise be the "one further
	// request" that releases the slow answer
	s.Query(`SELECT v FROM kv WHERE k = 'b'`).Exec()
	type res struct {
		v   int
		err error
	}
	slow := make(chan res, 1)
	go func() {
		var v int
		err := s.Query(`SELECT v FROM kv WHERE k = 'a'`).Scan(&v)
		slow <- res{v, err}
	}()
	check(nd.WaitRequests(1, node.MatchStatement("k = 'a'", node.OpExecute), 2*time.Second), "node has the slow query, holds its answer")
	var v int
	err = s.Query(`SELECT v FROM kv WHERE k = 'b'`).Scan(&v)
	check(err == nil && v == 20, "fast query answered while the slow one is outstanding: v=%d err=%v", v, err)
	r := <-slow
	check(r.err == nil && r.v == 10, "slow query got its own answer: v=%d err=%v", r.v, r.err)
	var order []string
	for _, sent := range nd.Sent() {
		if sent.Request != nil && sent.Request.Execute != nil && strings.Contains(sent.Request.Statement(), "FROM kv WHERE k =") {
			st := sent.Request.Statement()
			order = append(order, st[len(st)-2:len(st)-1])
		}
	}
	check(strings.Join(order, "") == "bba", "EXECUTE responses left in order %v (warm-up b, then b before a) on one connection", order)

	// ReplyAfter (time) and Hold/Release
	nd.ClearRules()
	var held *node.Held
	var mu sync.Mutex
	nd.AddRule(node.Rule{Match: node.MatchStatement("k = 'c'", node.OpExecute), Times: 1, Do: func(c *node.ServerConn, req *node.Request) {
		mu.Lock()
		held = c.Hold(req, node.Void{})
		mu.Unlock()
	}})
	nd.AddRule(node.Rule{Match: node.MatchStatement("k = 'd'", node.OpExecute), Times: 1, Do: func(c *node.ServerConn, req *node.Request) {
		c.ReplyAfter(150*time.Millisecond, req, node.Void{})
	}})
	t0 := time.Now()
	err = s.Query(`SELECT v FROM kv WHERE k = 'd'`).Exec()
	check(err == nil && time.Since(t0) >= 140*time.Millisecond, "ReplyAfter(150ms): answered after %v err=%v", time.Since(t0).Round(10*time.Millisecond), err)
	done := make(chan error, 1)
	go func() { done <- s.Query(`SELECT v FROM kv WHERE k = 'c'`).Exec() }()
	nd.WaitRequests(1, node.MatchStatement("k = 'c'", node.OpExecute), 2*time.Second)
	select {
	case <-done:
		check(false, "held answer was delivered early")
	case <-time.After(100 * time.Millisecond):
	}
	mu.Lock()
	h := held
	mu.Unlock()
	if check(h != nil, "answer is held") {
		h.Release()
		check(<-done == nil, "Hold / Release: answered on release")
	}
}

func unpreparedScenario() {
	fmt.Println("== UNPREPARED followed by re-prepare")
	n, nd := oneNode()
	defer n.Close()
	s, err := oneNodeSession(n, 2*time.Second)
	if !check(err == nil, "NewSession: %v", err) {
		return
	}
	defer s.Close()
	const stmt = `SELECT k, v FROM kv WHERE k = ?`
	var k string
	var v int
	err = s.Query(stmt, "e").Scan(&k, &v)
	check(err == nil && v == 50, "first execution: v=%d err=%v", v, err)
	nd.ForgetPrepared()
	err = s.Query(stmt, "d").Scan(&k, &v)
	check(err == nil && v == 40, "execution after the node forgot the statement: v=%d err=%v", v, err)
	unprep := 0
	for _, sent := range nd.Sent() {
		if e, ok := sent.Msg.(node.Error); ok && e.Code == node.ErrUnprepared {
			unprep++
		}
	}
	id := fmt.Sprintf("%x", node.PreparedID("demo", stmt))
	check(nd.Count("PREPARE:"+stmt) == 2 && nd.Count("EXECUTE:"+id) == 3 && unprep == 1,
		"node saw PREPARE x%d, EXECUTE x%d and sent UNPREPARED x%d (want 2, 3, 1)", nd.Count("PREPARE:"+stmt), nd.Count("EXECUTE:"+id), unprep)
}

func stallScenario() {
	fmt.Println("== mid-body stall across read timeouts")
	n, nd := oneNode()
	defer n.Close()
	nd.AddRule(node.Rule{Match: node.MatchStatement("k = 'a'", node.OpExecute), Times: 1, Do: func(c *node.ServerConn, req *node.Request) {
		// v4 header (9 bytes) + 4 body bytes, then the client must hit 3 read timeouts
		c.ReplySplit(req, node.Rows{Keyspace: "demo", Table: "kv", GlobalSpec: true,
			Columns: []node.Column{node.Col("v", node.Int)}, Rows: [][][]byte{{node.IntV(10)}}},
			node.Split{After: 13, Gate: node.Gate{Timeouts: 3}})
	}})
	s, err := oneNodeSession(n, 120*time.Millisecond)
	if !check(err == nil, "NewSession: %v", err) {
		return
	}
	defer s.Close()
	pool := nd.Conns()[len(nd.Conns())-1]
	var v int
	t0 := time.Now()
	err = s.Query(`SELECT v FROM kv WHERE k = 'a'`).Scan(&v)
	check(errors.Is(err, gocql.ErrTimeoutNoResponse), "the stalled query times out after %v: %v", time.Since(t0).Round(10*time.Millisecond), err)
	var stalled *node.ServerConn
	for _, c := range nd.Conns() {
		for _, r := range c.Requests() {
			if r.Execute != nil && strings.Contains(r.Statement(), "k = 'a'") {
				stalled = c
			}
		}
	}
	if !check(stalled != nil && stalled == pool, "the query went over the pool connection") {
		return
	}
	ok := stalled.Link().S2C.WaitReadTimeouts(3, 2*time.Second)
	check(ok, "client ran into %d read timeouts inside the frame body", stalled.Link().S2C.ReadTimeouts())
	n.WaitFor(time.Second, func() bool { return stalled.Link().S2C.Consumed() == stalled.Link().S2C.Written() })
	check(stalled.Link().S2C.Consumed() == stalled.Link().S2C.Written() && stalled.Open(),
		"after the third timeout the rest of the body was read; connection still open")
	err = s.Query(`SELECT v FROM kv WHERE k = 'b'`).Scan(&v)
	check(err == nil && v == 20, "next query on the same connection: v=%d err=%v", v, err)
}

func shortWriteScenario() {
	fmt.Println("== short write with error")
	n, nd := oneNode()
	defer n.Close()
	s, err := oneNodeSession(n, time.Second)
	if !check(err == nil, "NewSession: %v", err) {
		return
	}
	defer s.Close()
	conns := nd.Conns()
	pool := conns[len(conns)-1] // the control connection is dialled first
	boom := errors.New("injected: connection reset by peer")
	off := pool.Link().C2S.Written()
	pool.Link().C2S.FailWriteAt(off+3, boom)
	err = s.Query(`SELECT v FROM kv WHERE k = 'a'`).Exec()
	check(err != nil, "query fails: %v", err)
	ws := pool.Link().C2S.Writes()
	last := ws[len(ws)-1]
	check(last.Offset == off && last.N == 3 && last.Len > 3 && last.Err == boom, "recorded write: offset=%d len=%d accepted=%d err=%v", last.Offset, last.Len, last.N, last.Err)
	pool.WaitDone(time.Second)
	check(!pool.Open() && len(pool.Unparsed()) == 3, "driver closed the connection; node holds %d torn bytes % x", len(pool.Unparsed()), pool.Unparsed())

	// refused and slow dials
	nd.SetDialFault(&node.DialFault{Refuse: true})
	_, err = n.Dialer().DialContext(context.Background(), "tcp", "10.0.0.1:9042")
	check(err != nil && strings.Contains(err.Error(), "refused"), "refused dial: %v", err)
	nd.SetDialFault(&node.DialFault{Delay: 80 * time.Millisecond, Err: errors.New("no route to host"), Count: 1})
	t0 := time.Now()
	_, err = n.Dialer().DialContext(context.Background(), "tcp", "10.0.0.1:9042")
	check(err != nil && time.Since(t0) >= 70*time.Millisecond, "dial failing after a delay: %v after %v", err, time.Since(t0).Round(10*time.Millisecond))
	c, err := n.Dialer().DialContext(context.Background(), "tcp", "10.0.0.1:9042")
	check(err == nil, "dial fault with Count 1 is used up: %v", err)
	if c != nil {
		c.Close()
	}
}

func eventScenario() {
	fmt.Println("== STATUS_CHANGE events")
	n := newCluster()
	defer n.Close()
	cfg := clusterConfig(n, 4, "10.0.0.1")
	s, err := gocql.NewSession(*cfg)
	if !check(err == nil, "NewSession: %v", err) {
		return
	}
	defer s.Close()
	n3 := n.Node("10.0.0.3:9042")
	check(n3.WaitOpenConns(2, 3*time.Second), "node 3 has %d pool connections", n3.OpenConns())
	var ctl *node.Node
	for _, nd := range n.Nodes() {
		for _, c := range nd.Conns() {
			if len(c.Registered()) > 0 {
				ctl = nd
			}
		}
	}
	if !check(ctl != nil && ctl.Addr() == "10.0.0.1:9042", "control connection REGISTERed on node 1") {
		return
	}
	sent := ctl.PushEvent(node.StatusChangeEvent{Change: "DOWN", IP: net.ParseIP("10.0.0.3"), Port: 9042})
	check(sent == 1, "STATUS_CHANGE DOWN pushed on %d connection(s)", sent)
	check(n3.WaitOpenConns(0, 4*time.Second), "driver dropped its connections to node 3 (open: %d)", n3.OpenConns())
	ctl.PushEvent(node.StatusChangeEvent{Change: "UP", IP: net.ParseIP("10.0.0.3"), Port: 9042})
	check(n3.WaitOpenConns(2, 4*time.Second), "after UP the driver reconnected (open: %d)", n3.OpenConns())
}

// ---------------------------------------------------------------------------------------------
// (e) the response codec against the driver's decoder
// ---------------------------------------------------------------------------------------------

func codecScenario(proto int) {
	fmt.Printf("== response codec cross-check against the driver, protocol version %d\n", proto)
	n, nd := oneNode()
	defer n.Close()
	var mu sync.Mutex
	var next node.Message
	nd.AddRule(node.Rule{Match: node.MatchStatement("probe", node.OpExecute), Do: func(c *node.ServerConn, req *node.Request) {
		mu.Lock()
		m := next
		mu.Unlock()
		c.Reply(req, m)
	}})
	cfg := clusterConfig(n, proto, "10.0.0.1")
	cfg.NumConns = 1
	cfg.DisableSkipMetadata = true // the probe's result metadata is what is being checked
	s, err := gocql.NewSession(*cfg)
	if !check(err == nil, "NewSession: %v", err) {
		return
	}
	defer s.Close()
	probe := func(m node.Message) *gocql.Iter {
		mu.Lock()
		next = m
		mu.Unlock()
		return s.Query(`SELECT probe FROM nowhere`).Iter()
	}

	// every error code with its fields
	ip := net.ParseIP("10.1.2.3")
	type ec struct {
		msg  node.Error
		want func(err error) bool
	}
	cases := []ec{
		{node.Error{Code: node.ErrUnavailable, Message: "m", Consistency: node.Quorum, Required: 3, Alive: 1}, func(err error) bool {
			e, ok := err.(*gocql.RequestErrUnavailable)
			return ok && e.Consistency == gocql.Quorum && e.Required == 3 && e.Alive == 1 && e.Message() == "m"
		}},
		{node.Error{Code: node.ErrWriteTimeout, Message: "m", Consistency: node.LocalQuorum, Received: 1, BlockFor: 2, WriteType: "BATCH_LOG"}, func(err error) bool {
			e, ok := err.(*gocql.RequestErrWriteTimeout)
			return ok && e.Consistency == gocql.LocalQuorum && e.Received == 1 && e.BlockFor == 2 && e.WriteType == "BATCH_LOG"
		}},
		{node.Error{Code: node.ErrReadTimeout, Message: "m", Consistency: node.One, Received: 0, BlockFor: 1, DataPresent: true}, func(err error) bool {
			e, ok := err.(*gocql.RequestErrReadTimeout)
			return ok && e.Consistency == gocql.One && e.Received == 0 && e.BlockFor == 1 && e.DataPresent == 1
		}},
		{node.Error{Code: node.ErrAlreadyExists, Message: "m", Keyspace: "ks", Table: "tb"}, func(err error) bool {
			e, ok := err.(*gocql.RequestErrAlreadyExists)
			return ok && e.Keyspace == "ks" && e.Table == "tb"
		}},
		{node.Error{Code: node.ErrFunctionFailure, Message: "m", Keyspace: "ks", Function: "f", ArgTypes: []string{"int", "text"}}, func(err error) bool {
			e, ok := err.(*gocql.RequestErrFunctionFailure)
			return ok && e.Keyspace == "ks" && e.Function == "f" && reflect.DeepEqual(e.ArgTypes, []string{"int", "text"})
		}},
		{node.Error{Code: node.ErrReadFailure, Message: "m", Consistency: node.Two, Received: 1, BlockFor: 2, NumFailures: 1, DataPresent: true,
			Reasons: []node.FailureReason{{IP: ip, Code: 7}}}, func(err error) bool {
			e, ok := err.(*gocql.RequestErrReadFailure)
			return ok && e.Consistency == gocql.Two && e.Received == 1 && e.BlockFor == 2 && e.NumFailures == 1 && e.DataPresent &&
				(proto < 5 || e.ErrorMap["10.1.2.3"] == 7)
		}},
		{node.Error{Code: node.ErrWriteFailure, Message: "m", Consistency: node.All, Received: 1, BlockFor: 3, NumFailures: 1, WriteType: "SIMPLE",
			Reasons: []node.FailureReason{{IP: ip, Code: 9}}}, func(err error) bool {
			e, ok := err.(*gocql.RequestErrWriteFailure)
			return ok && e.Consistency == gocql.All && e.Received == 1 && e.BlockFor == 3 && e.NumFailures == 1 && e.WriteType == "SIMPLE" &&
				(proto < 5 || e.ErrorMap["10.1.2.3"] == 9)
		}},
		{node.Error{Code: node.ErrCASWriteUnknown, Message: "m", Consistency: node.Serial, Received: 1, BlockFor: 2}, func(err error) bool {
			e, ok := err.(*gocql.RequestErrCASWriteUnknown)
			return ok && e.Consistency == gocql.Consistency(node.Serial) && e.Received == 1 && e.BlockFor == 2
		}},
		{node.Error{Code: node.ErrCDCWriteFailure, Message: "m"}, func(err error) bool {
			_, ok := err.(*gocql.RequestErrCDCWriteFailure)
			return ok
		}},
	}
	for _, code := range []int32{node.ErrServer, node.ErrProtocol, node.ErrBadCredentials, node.ErrOverloaded, node.ErrBootstrapping, node.ErrTruncate,
		node.ErrSyntax, node.ErrUnauthorized, node.ErrInvalid, node.ErrConfig} {
		code := code
		cases = append(cases, ec{node.Error{Code: code, Message: "plain"}, func(err error) bool {
			e, ok := err.(gocql.RequestError)
			return ok && e.Code() == int(code) && e.Message() == "plain"
		}})
	}
	bad := 0
	for _, c := range cases {
		err := probe(c.msg).Close()
		if err == nil || !c.want(err) {
			bad++
			check(false, "ERROR 0x%04x decoded as %T %v", c.msg.Code, err, err)
		}
	}
	check(bad == 0, "%d ERROR bodies (every code, code-specific fields) decoded as sent", len(cases))

	// a rows result with every kind of column type, nulls, per-column table spec, warnings, tracing id, payload
	udt := node.UDT("demo", "addr", node.Field{Name: "street", Type: node.Varchar}, node.Field{Name: "zip", Type: node.Int})
	colsSpec := []node.Column{
		{Keyspace: "ks1", Table: "t1", Name: "c_text", Type: node.Varchar},
		{Keyspace: "ks1", Table: "t1", Name: "c_int", Type: node.Int},
		{Keyspace: "ks2", Table: "t2", Name: "c_list", Type: node.List(node.Int)},
		{Keyspace: "ks2", Table: "t2", Name: "c_map", Type: node.Map(node.Varchar, node.List(node.Bigint))},
		{Keyspace: "ks2", Table: "t2", Name: "c_set", Type: node.Set(node.UUID)},
		{Keyspace: "ks2", Table: "t2", Name: "c_udt", Type: udt},
		{Keyspace: "ks2", Table: "t2", Name: "c_null", Type: node.Boolean},
		{Keyspace: "ks2", Table: "t2", Name: "c_tuple", Type: node.Tuple(node.Int, node.Varchar)},
	}
	if proto < 3 {
		// UDT and tuple types exist from v3 on
		colsSpec = append(colsSpec[:5:5], colsSpec[6])
	}
	u1 := "123e4567-e89b-12d3-a456-426614174000"
	row := [][]byte{node.TextV("héllo"), node.IntV(-7), node.ListV(proto, node.IntV(1), node.IntV(2)),
		node.MapV(proto, node.TextV("k"), node.ListV(proto, node.BigintV(5))), node.ListV(proto, node.UUIDV(u1)),
		node.TupleV(node.TextV("main st"), node.IntV(12345)), nil, node.TupleV(node.IntV(3), node.TextV("x"))}
	if proto < 3 {
		row = append(row[:5:5], row[6])
	}
	msg := node.Message(node.Rows{Columns: colsSpec, Rows: [][][]byte{row}})
	if proto >= 4 {
		msg = node.Envelope{Msg: msg, Warnings: []string{"careful", "again"}, Payload: map[string][]byte{"p": {9}}}
	}
	iter := probe(msg)
	gotCols := iter.Columns()
	m := map[string]interface{}{}
	okScan := iter.MapScan(m)
	warn := iter.Warnings()
	payload := iter.GetCustomPayload()
	err = iter.Close()
	typesOK := len(gotCols) == len(colsSpec)
	for i := range gotCols {
		if !typesOK {
			break
		}
		typesOK = gotCols[i].Keyspace == colsSpec[i].Keyspace && gotCols[i].Table == colsSpec[i].Table && gotCols[i].Name == colsSpec[i].Name
	}
	check(err == nil && okScan && typesOK, "rows metadata: %d columns with their own keyspace/table specs: err=%v", len(gotCols), err)
	valsOK := m["c_text"] == "héllo" && m["c_int"] == -7 && reflect.DeepEqual(m["c_list"], []int{1, 2}) &&
		reflect.DeepEqual(m["c_map"], map[string][]int64{"k": {5}}) && m["c_null"] == false
	if set, ok := m["c_set"].([]gocql.UUID); !ok || len(set) != 1 || set[0].String() != u1 {
		valsOK = false
	}
	if proto >= 3 {
		u, _ := m["c_udt"].(map[string]interface{})
		valsOK = valsOK && u["street"] == "main st" && u["zip"] == 12345
		// tuples are flattened by the driver into c_tuple[0], c_tuple[1]
		valsOK = valsOK && m["c_tuple[0]"] == 3 && m["c_tuple[1]"] == "x"
	}
	check(valsOK, "cells (nested collections, UDT, tuple, null) decoded as sent: %v", m)
	// a custom type (class name in the metadata)
	iter = probe(node.Rows{Keyspace: "ks", Table: "tb", Columns: []node.Column{node.Col("c", node.Custom("org.example.Thing"))}, Rows: [][][]byte{{{1, 2, 3}}}})
	gotCols = iter.Columns()
	err = iter.Close()
	ct := ""
	if len(gotCols) == 1 {
		if nt, ok := gotCols[0].TypeInfo.(gocql.NativeType); ok {
			ct = nt.Custom()
		}
	}
	check(err == nil && ct == "org.example.Thing", "custom type %q in the metadata, err=%v", ct, err)
	if proto >= 4 {
		check(reflect.DeepEqual(warn, []string{"careful", "again"}) && bytes.Equal(payload["p"], []byte{9}), "warnings %v and custom payload %v", warn, payload)
	}
	// global table spec + has_more_pages with a paging state
	iter = probe(node.Rows{Keyspace: "ks", Table: "tb", GlobalSpec: true, Columns: []node.Column{node.Col("a", node.Int), node.Col("b", node.Int)},
		Rows: [][][]byte{{node.IntV(1), node.IntV(2)}}, PagingState: []byte{0xCA, 0xFE}})
	gotCols = iter.Columns()
	ps := iter.PageState()
	check(len(gotCols) == 2 && gotCols[1].Keyspace == "ks" && gotCols[1].Table == "tb" && (proto < 2 || bytes.Equal(ps, []byte{0xCA, 0xFE})),
		"global table spec and paging state % x", ps)
	// closing this iterator would fetch the next page: the probe answers it with a last page
	mu.Lock()
	next = node.Rows{Keyspace: "ks", Table: "tb", GlobalSpec: true, Columns: []node.Column{node.Col("a", node.Int), node.Col("b", node.Int)}}
	mu.Unlock()
	iter.Close()
	// tracing id in the envelope
	tid := node.UUIDV("00112233-4455-6677-8899-aabbccddeeff")
	tr := &captureTracer{}
	mu.Lock()
	next = node.Envelope{Msg: node.Void{}, TracingID: tid}
	mu.Unlock()
	err = s.Query(`SELECT probe FROM nowhere`).Trace(tr).Exec()
	check(err == nil && bytes.Equal(tr.id, tid), "tracing id delivered: % x", tr.id)
	// schema change result, all targets (the driver then runs its schema agreement queries)
	if proto >= 3 {
		for _, sc := range []node.SchemaChange{
			{Change: "CREATED", Target: "KEYSPACE", Keyspace: "k"},
			{Change: "UPDATED", Target: "TABLE", Keyspace: "k", Name: "t"},
			{Change: "DROPPED", Target: "TYPE", Keyspace: "k", Name: "ty"},
			{Change: "CREATED", Target: "FUNCTION", Keyspace: "k", Name: "f", Args: []string{"int"}},
			{Change: "CREATED", Target: "AGGREGATE", Keyspace: "k", Name: "a", Args: []string{"int", "text"}},
		} {
			if err := probe(sc).Close(); err != nil {
				check(false, "schema change %v: %v", sc, err)
			}
		}
	} else {
		if err := probe(node.SchemaChange{Change: "CREATED", Keyspace: "k", Name: "t"}).Close(); err != nil {
			check(false, "schema change v%d: %v", proto, err)
		}
	}
	check(true, "RESULT schema_change for every target accepted")
	// events of every shape on the control connection do not upset the driver
	for _, ev := range []node.Message{
		node.TopologyChangeEvent{Change: "NEW_NODE", IP: net.ParseIP("10.0.0.9"), Port: 9042},
		node.StatusChangeEvent{Change: "UP", IP: net.ParseIP("fe80::1"), Port: 9042},
		node.SchemaChangeEvent{Change: "CREATED", Target: "KEYSPACE", Keyspace: "k2"},
		node.SchemaChangeEvent{Change: "UPDATED", Target: "TABLE", Keyspace: "k2", Name: "t"},
		node.SchemaChangeEvent{Change: "CREATED", Target: "FUNCTION", Keyspace: "k2", Name: "f", Args: []string{"int"}},
	} {
		nd.PushEvent(ev)
	}
	var v int
	err = s.Query(`SELECT v FROM kv WHERE k = 'a'`).Scan(&v)
	check(err == nil && v == 10, "session healthy after EVENT frames of every shape: v=%d err=%v", v, err)
}

type captureTracer struct{ id []byte }

func (t *captureTracer) Trace(id []byte) { t.id = append([]byte(nil), id...) }

func main() {
	start := time.Now()
	for _, proto := range []int{4, 3, 5, 2, 1} {
		sessionScenario(proto)
	}
	discoveryScenario()
	authCompressionScenario()
	tlsPerturbScenario()
	outOfOrderScenario()
	unpreparedScenario()
	stallScenario()
	shortWriteScenario()
	eventScenario()
	for _, proto := range []int{4, 5, 3, 2} {
		codecScenario(proto)
	}
	fmt.Printf("nodedemo finished in %v\n", time.Since(start).Round(time.Millisecond))
	if failed {
		fmt.Println("RESULT: FAILED")
		if !verbose {
			logBuf.mu.Lock()
			os.Stderr.Write(logBuf.b.Bytes())
			logBuf.mu.Unlock()
		}
		os.Exit(1)
	}
	fmt.Println("RESULT: OK")
}
