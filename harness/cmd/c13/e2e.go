// End-to-end variant: the same sequential scripts, but through the public API only -- a real
// gocql.Session over gocqlverif/node's in-memory scripted CQL nodes.  Query.Iter() runs the real
// Session.executeQuery -> queryExecutor -> Conn.executeQuery -> wire; the scripted nodes answer the
// n-th EXECUTE of the test statement with the n-th scripted outcome (server error frames, success,
// or cancelling the query's context and never answering).  Host order, Mark calls and policy
// consultations are observed through the public HostSelectionPolicy / SelectedHost / RetryPolicy
// interfaces, the attempts and their consistency level at the nodes.  The result is a CSeq case like
// the shim-driven ones (same model function, same monitors).
package main

import (
	"context"
	"errors"
	"fmt"
	"io"
	"log"
	"net"
	"strconv"
	"strings"
	"sync"
	"sync/atomic"
	"time"

	"github.com/gocql/gocql"
	"gocqlverif/node"
)

const e2eStmt = "SELECT v FROM c13kv WHERE k = ?"
const e2eBatchStmt = "INSERT INTO c13kv (k, v) VALUES (?, ?)"
const e2eNodes = 5

type ctxKey struct{}

// trigCtx is a context the harness ends with the error of its choice (cancellation or deadline)
type trigCtx struct {
	context.Context
	mu   sync.Mutex
	done chan struct{}
	err  error
}

func newTrigCtx(parent context.Context) *trigCtx {
	return &trigCtx{Context: parent, done: make(chan struct{})}
}
func (c *trigCtx) Done() <-chan struct{} { return c.done }
func (c *trigCtx) Err() error {
	c.mu.Lock()
	defer c.mu.Unlock()
	return c.err
}
func (c *trigCtx) trigger(err error) {
	c.mu.Lock()
	defer c.mu.Unlock()
	if c.err == nil {
		c.err = err
		close(c.done)
	}
}

// clusterRetry is the session's ClusterConfig.RetryPolicy: it does what the current case says the cluster
// default is (and records the consultation in the case's log)
type clusterRetry struct{ e *e2e }

func (c *clusterRetry) cur() gocql.RetryPolicy {
	c.e.mu.Lock()
	defer c.e.mu.Unlock()
	if c.e.cur == nil {
		return nil
	}
	return c.e.cur.clusterRec
}
func (c *clusterRetry) Attempt(q gocql.RetryableQuery) bool {
	if p := c.cur(); p != nil {
		return p.Attempt(q)
	}
	return false
}
func (c *clusterRetry) GetRetryType(err error) gocql.RetryType {
	if p := c.cur(); p != nil {
		return p.GetRetryType(err)
	}
	return gocql.Rethrow
}

type e2eCase struct {
	clusterRec gocql.RetryPolicy // what the cluster default policy is for this case
	sc         *script
	rc         *runCtx
	cancel     context.CancelFunc
	tctx       *trigCtx // sequential cases: ended by the scripted nodes
	// cancellation bookkeeping
	stmt        string // the statement of this case
	prepStage   bool   // context errors strike while the PREPARE is outstanding (statement unknown to the host)
	triggered   error  // the context error the case was ended with
	afterCancel int    // requests of this case that reached a node after that
	held        []*node.Held
	byTag       map[int64]*outSpec
	pos         int
	delays      []time.Duration // free-running speculative mode
	key         string          // the value bound to the statement: identifies the case at the nodes

	// controlled speculative mode: which execution picked which host (hosts are distinct)
	controlled bool
	hostThread map[int]int
	inflight   map[int]bool // thread -> its attempt is outstanding at a node

	// fault scenarios
	connloss       *outSpec // the scripted "connection lost" outcome of this case, if any
	heldTimeouts   int      // requests the nodes deliberately left unanswered
	driverTimeouts int      // ErrTimeoutNoResponse seen by the driver
}

type e2e struct {
	h           *harness
	net         *node.Net
	sess        *gocql.Session
	mu          sync.Mutex
	seq         int
	hosts       map[string]*gocql.HostInfo // by connect address
	cur         *e2eCase
	ghost       *gocql.HostInfo // a host the session has no pool for
	defaultIdem bool            // ClusterConfig.DefaultIdempotence of the session
	downs       chan int        // HostDown / HostUp notifications (host id)
	ups         chan int
}

func hostNum(h *gocql.HostInfo) int {
	a := h.ConnectAddress().To4()
	if a != nil && a[0] == 10 && a[1] == 0 && a[2] == 0 {
		return int(a[3])
	}
	return -1
}

// ---- the host selection policy (public interface) ---------------------------------------------

func (e *e2e) AddHost(h *gocql.HostInfo) {
	e.mu.Lock()
	e.hosts[h.ConnectAddress().String()] = h
	e.mu.Unlock()
}
func (e *e2e) RemoveHost(*gocql.HostInfo) {}
func (e *e2e) HostUp(h *gocql.HostInfo) {
	select {
	case e.ups <- hostNum(h):
	default:
	}
}
func (e *e2e) HostDown(h *gocql.HostInfo) {
	select {
	case e.downs <- hostNum(h):
	default:
	}
}
func (e *e2e) SetPartitioner(string)                     {}
func (e *e2e) KeyspaceChanged(gocql.KeyspaceUpdateEvent) {}
func (e *e2e) Init(*gocql.Session)                       {}
func (e *e2e) IsLocal(*gocql.HostInfo) bool              { return true }

type e2eSelected struct {
	info *gocql.HostInfo
	id   int
	c    *e2eCase
}

func (s *e2eSelected) Info() *gocql.HostInfo { return s.info }
func (s *e2eSelected) Mark(err error) {
	if s.c != nil {
		if err == gocql.ErrTimeoutNoResponse {
			s.c.rc.mu.Lock()
			s.c.driverTimeouts++
			s.c.rc.mu.Unlock()
		}
		if s.c.controlled && (err == nil) {
			// Mark(nil) of an attempt the node has not answered: the connection gave it up on ctx.Done()
			rc := s.c.rc
			rc.mu.Lock()
			t := rc.threads[gid()]
			if s.c.inflight[t] && !rc.closed {
				s.c.inflight[t] = false
				cn := mkOut(0, 0, 0, 0)
				rc.labels = append(rc.labels, lbl{kind: 1, t: t, o: cn, still: true})
				rc.traces[t] = append(rc.traces[t], ev{kind: evDone, host: s.id, o: cn, still: true})
			}
			rc.mu.Unlock()
		}
		s.c.rc.onMark(s.id, err)
	}
}

func (e *e2e) Pick(q gocql.ExecutableQuery) gocql.NextHost {
	e.mu.Lock()
	c := e.cur
	e.mu.Unlock()
	if v, ok := q.Context().Value(ctxKey{}).(int); ok && v < 0 {
		// probe: only host -v
		e.mu.Lock()
		h := e.hosts[fmt.Sprintf("10.0.0.%d", -v)]
		e.mu.Unlock()
		done := false
		return func() gocql.SelectedHost {
			if done || h == nil {
				return nil
			}
			done = true
			return &e2eSelected{info: h}
		}
	}
	if c == nil || q.Context().Value(ctxKey{}) == nil {
		// the session's own traffic: every known host in address order
		e.mu.Lock()
		var hs []*gocql.HostInfo
		for i := 1; i <= e2eNodes; i++ {
			if h := e.hosts[fmt.Sprintf("10.0.0.%d", i)]; h != nil {
				hs = append(hs, h)
			}
		}
		e.mu.Unlock()
		i := 0
		return func() gocql.SelectedHost {
			if i >= len(hs) {
				return nil
			}
			i++
			return &e2eSelected{info: hs[i-1]}
		}
	}
	return func() gocql.SelectedHost {
		if c.pos >= len(c.sc.hosts) {
			c.rc.onPick(-1)
			return nil
		}
		h := c.sc.hosts[c.pos]
		c.pos++
		c.rc.onPick(h.ID)
		if c.controlled {
			c.rc.mu.Lock()
			c.hostThread[h.ID] = c.rc.threads[gid()]
			c.rc.mu.Unlock()
		}
		sel := &e2eSelected{id: h.ID, c: c}
		switch {
		case h.InfoNil:
		case h.NoPool:
			sel.info = e.ghost
		default:
			e.mu.Lock()
			sel.info = e.hosts[fmt.Sprintf("10.0.0.%d", h.ID)]
			e.mu.Unlock()
		}
		return sel
	}
}

// ---- the scripted nodes ------------------------------------------------------------------------

func (e *e2e) handle(id int, nd *node.Node) node.Handler {
	return func(c *node.ServerConn, req *node.Request) {
		e.mu.Lock()
		cs := e.cur
		e.mu.Unlock()
		// requests of an earlier case's stragglers carry that case's key, not this one's
		key, cons := reqKey(req)
		if cs == nil || key != cs.key {
			nd.Default(c, req)
			return
		}
		rc := cs.rc
		if cs.controlled {
			e.handleControlled(cs, id, nd, c, req)
			return
		}
		rc.mu.Lock()
		if cs.triggered != nil {
			cs.afterCancel++
		}
		if rc.started >= maxExecs {
			rc.runaway = true
		}
		run := rc.runaway
		rc.mu.Unlock()
		if run {
			// hard cap: a success ends the execution
			c.Reply(req, node.Void{})
			return
		}
		rc.mu.Lock()
		out := rc.nextOutcomeLocked()
		rc.started++
		rc.mu.Unlock()
		rc.logNode(ev{kind: evExec, host: id, cons: int64(cons)})
		rc.logNode(ev{kind: evDone, host: id, o: out.o, still: true})
		o := out.o
		if cs.delays != nil {
			// free-running speculative mode: answers come after scripted delays
			d := time.Duration(0)
			rc.mu.Lock()
			if rc.started-1 < len(cs.delays) {
				d = cs.delays[rc.started-1]
			}
			rc.mu.Unlock()
			var msg node.Message = node.Void{}
			if o != nil {
				switch o.kind {
				case 3:
					msg = node.Error{Code: node.ErrUnavailable, Message: tagMsg(o.tag), Consistency: node.Quorum, Required: 2, Alive: int32(o.a)}
				case 4:
					msg = node.Error{Code: node.ErrWriteTimeout, Message: tagMsg(o.tag), Consistency: node.Quorum, Received: int32(o.b), BlockFor: 2, WriteType: writeTypes[o.a]}
				case 5:
					msg = node.Error{Code: node.ErrReadTimeout, Message: tagMsg(o.tag), Consistency: node.Quorum, Received: 1, BlockFor: 2, DataPresent: true}
				default:
					msg = node.Error{Code: o.wire, Message: tagMsg(o.tag)}
				}
			}
			c.ReplyAfter(d, req, msg)
			return
		}
		switch {
		case o == nil:
			nd.Default(c, req)
		case o.kind <= 1:
			// the application cancels the query (or its deadline passes) while the request is outstanding;
			// the answer never comes
			e.mu.Lock()
			cs.held = append(cs.held, c.Hold(req, node.Void{}))
			e.mu.Unlock()
			cs.endContext(o)
		case o.kind == 6 && o.a == 0:
			// request timeout: the answer never comes (released when the case is over)
			e.mu.Lock()
			cs.held = append(cs.held, c.Hold(req, node.Void{}))
			e.mu.Unlock()
			rc.mu.Lock()
			cs.heldTimeouts++
			rc.mu.Unlock()
		case o.kind == 6 && o.a == 200:
			// the connection is lost while the request is outstanding
			c.Close()
		case o.kind == 3:
			c.Reply(req, node.Error{Code: node.ErrUnavailable, Message: tagMsg(o.tag), Consistency: node.Quorum, Required: 2, Alive: int32(o.a)})
		case o.kind == 4:
			c.Reply(req, node.Error{Code: node.ErrWriteTimeout, Message: tagMsg(o.tag), Consistency: node.Quorum, Received: int32(o.b), BlockFor: 2, WriteType: writeTypes[o.a]})
		case o.kind == 5:
			c.Reply(req, node.Error{Code: node.ErrReadTimeout, Message: tagMsg(o.tag), Consistency: node.Quorum, Received: 1, BlockFor: 2, DataPresent: true})
		default:
			c.Reply(req, node.Error{Code: o.wire, Message: tagMsg(o.tag)})
		}
	}
}

// reqKey: the case key bound to the test statement (EXECUTE) or to the first statement of a BATCH, and
// the consistency level of the request
func reqKey(req *node.Request) (string, uint16) {
	switch {
	case req.Execute != nil && len(req.Execute.Params.Values) == 1:
		return string(req.Execute.Params.Values[0].Bytes), req.Execute.Params.Consistency
	case req.Batch != nil && len(req.Batch.Statements) > 0 && len(req.Batch.Statements[0].Values) > 0:
		return string(req.Batch.Statements[0].Values[0].Bytes), req.Batch.Consistency
	}
	return "", 0
}

func (cs *e2eCase) endContext(o *outSpec) {
	cs.rc.mu.Lock()
	cs.triggered = o.err
	cs.rc.mu.Unlock()
	if cs.tctx != nil {
		cs.tctx.trigger(o.err)
	} else {
		cs.cancel()
	}
}

// handlePrepare: in a prepare-stage case the statement is new to every host, so every attempt starts
// with a PREPARE; when the attempt's scripted outcome is a context error, it strikes now: the PREPARE is
// never answered and the context ends
func (e *e2e) handlePrepare(id int, nd *node.Node) node.Handler {
	return func(c *node.ServerConn, req *node.Request) {
		e.mu.Lock()
		cs := e.cur
		e.mu.Unlock()
		if cs == nil || !cs.prepStage || req.Prepare == nil || req.Prepare.Statement != cs.stmt {
			nd.Default(c, req)
			return
		}
		rc := cs.rc
		rc.mu.Lock()
		if cs.triggered != nil {
			cs.afterCancel++
			rc.mu.Unlock()
			nd.Default(c, req)
			return
		}
		next := rc.sc.dflt
		if rc.nDone < len(rc.sc.outs) {
			next = rc.sc.outs[rc.nDone]
		}
		if next.o == nil || next.o.kind > 1 {
			rc.mu.Unlock()
			nd.Default(c, req)
			return
		}
		rc.nextOutcomeLocked()
		rc.started++
		rc.mu.Unlock()
		rc.logNode(ev{kind: evExec, host: id, cons: rc.sc.cons0})
		rc.logNode(ev{kind: evDone, host: id, o: next.o, still: true})
		e.mu.Lock()
		cs.held = append(cs.held, c.Hold(req, node.Error{Code: node.ErrServer, Message: "held prepare"}))
		e.mu.Unlock()
		cs.endContext(next.o)
	}
}

// clusterRecFor: the recording policy standing for the cluster default of this case (a default that
// would retry, when the script does not say)
func clusterRecFor(sc *script, rc *runCtx) gocql.RetryPolicy {
	if sc.cluster != nil {
		if sc.cluster.kind == 0 {
			return nil
		}
		return rc.retryPolicyFor(*sc.cluster)
	}
	return rc.retryPolicyFor(polDesc{kind: 1, n: 3})
}

// setRetryOption applies the caller's choice to a statement made by the session
func (sc *script) retryOption(rc *runCtx, set func(gocql.RetryPolicy)) {
	if sc.cluster == nil {
		set(rc.retryPolicy())
		return
	}
	switch sc.rtOpt {
	case 1:
		set(rc.retryPolicyFor(sc.explicit))
	case 2:
		set(nil)
	}
}

// chooseRetryOption turns a script's (effective) policy into a cluster default plus the caller's option
func (h *harness) chooseRetryOption(sc *script, sessionMade bool) {
	if sc.cluster != nil || !sessionMade {
		return
	}
	r := h.o.Rng
	other := polDesc{kind: 1, n: int(r.Pick(2, 3, 5))}
	if r.Chance(30) {
		other = polDesc{kind: 3, levels: []int64{6, 1}}
	}
	switch {
	case sc.pol.kind == 0:
		sc.cluster, sc.rtOpt = &other, 2 // retries switched off on the statement
	case r.Chance(40):
		c := sc.pol
		sc.cluster, sc.rtOpt = &c, 0 // inherits the cluster default
	default:
		sc.cluster, sc.rtOpt, sc.explicit = &other, 1, sc.pol
	}
}

func tagMsg(tag int64) string { return "c13-tag-" + strconv.FormatInt(tag, 10) }

// server error codes without a special case in the executor or the built-in policies
var e2eOtherCodes = []int32{node.ErrOverloaded, node.ErrServer, node.ErrTruncate, 0x1002, 0x2200, 0x2100, 0x2000, 0x2300}

// errors the driver built from the nodes' answers -> the scripted outcome they came from
func (cs *e2eCase) errSpec(err error) *outSpec {
	if _, ok := err.(gocql.RequestError); !ok && cs.connloss != nil && err != gocql.ErrTimeoutNoResponse &&
		err != context.Canceled && err != context.DeadlineExceeded && err != gocql.ErrNoConnections && err != gocql.ErrUnknownRetryType {
		return cs.connloss
	}
	if re, ok := err.(gocql.RequestError); ok {
		m := re.Message()
		if strings.HasPrefix(m, "c13-tag-") {
			if t, e := strconv.ParseInt(m[len("c13-tag-"):], 10, 64); e == nil {
				if s := cs.byTag[t]; s != nil {
					// the driver's error type must be the one the code calls for
					okType := false
					switch err.(type) {
					case *gocql.RequestErrUnavailable:
						okType = s.kind == 3 && int64(err.(*gocql.RequestErrUnavailable).Alive) == s.a
					case *gocql.RequestErrWriteTimeout:
						x := err.(*gocql.RequestErrWriteTimeout)
						okType = s.kind == 4 && x.WriteType == writeTypes[s.a] && int64(x.Received) == s.b
					case *gocql.RequestErrReadTimeout:
						okType = s.kind == 5
					default:
						okType = s.kind == 6
					}
					if okType {
						return s
					}
				}
			}
		}
	}
	return nil
}

func newE2E(h *harness, timeout time.Duration, defaultIdem bool) (*e2e, error) {
	e := &e2e{h: h, defaultIdem: defaultIdem, hosts: map[string]*gocql.HostInfo{}, downs: make(chan int, 64), ups: make(chan int, 64)}
	e.net = node.NewNet()
	var contact []string
	for i := 1; i <= e2eNodes; i++ {
		nd := e.net.AddNode(fmt.Sprintf("10.0.0.%d:9042", i))
		nd.AddRule(node.Rule{Match: node.MatchStatement("FROM c13kv", node.OpExecute), Do: e.handle(i, nd)})
		nd.AddRule(node.Rule{Match: func(r *node.Request) bool { return r.Batch != nil }, Do: e.handle(i, nd)})
		nd.AddRule(node.Rule{Match: func(r *node.Request) bool {
			return r.Prepare != nil && strings.Contains(r.Prepare.Statement, "FROM c13kv WHERE k = ? LIMIT")
		}, Do: e.handlePrepare(i, nd)})
		contact = append(contact, fmt.Sprintf("10.0.0.%d", i))
	}
	e.net.SetKeyspace("demo", node.Keyspace{Replication: node.NetworkTopologyStrategy(map[string]int{"dc1": 1}), DurableWrites: true})
	e.net.SetTable(&node.Table{Keyspace: "demo", Name: "c13kv", PartitionKey: []string{"k"},
		Columns: []node.Column{node.Col("k", node.Varchar), node.Col("v", node.Int)},
		Rows:    [][][]byte{{node.TextV("a"), node.IntV(10)}}})
	cfg := gocql.NewCluster(contact[0])
	cfg.Dialer = e.net.Dialer()
	cfg.ProtoVersion = 4
	cfg.Timeout = timeout
	cfg.ConnectTimeout = 20 * time.Second
	cfg.NumConns = 1
	cfg.DefaultIdempotence = defaultIdem
	cfg.RetryPolicy = &clusterRetry{e: e}
	cfg.ReconnectionPolicy = &gocql.ConstantReconnectionPolicy{MaxRetries: 1, Interval: 10 * time.Millisecond}
	cfg.Keyspace = "demo"
	cfg.Consistency = gocql.One
	cfg.PoolConfig.HostSelectionPolicy = e
	cfg.Logger = log.New(io.Discard, "", 0)
	e.ghost = (&gocql.HostInfo{}).SetConnectAddress(net.IPv4(10, 9, 9, 9))
	s, err := gocql.NewSession(*cfg)
	if err != nil {
		e.net.Close()
		return nil, err
	}
	e.sess = s
	// every node has a pool with a connection before the cases start
	ok := e.net.WaitFor(10*time.Second, func() bool {
		for _, nd := range e.net.Nodes() {
			if nd.OpenConns() < 1 {
				return false
			}
		}
		e.mu.Lock()
		defer e.mu.Unlock()
		return len(e.hosts) == e2eNodes
	})
	if !ok {
		e.close()
		return nil, fmt.Errorf("scripted cluster did not come up: %d hosts known", len(e.hosts))
	}
	return e, nil
}

func (e *e2e) close() {
	if e.sess != nil {
		e.sess.Close()
	}
	e.net.Close()
}

// e2eScript restricts a random script to what the public path can express
func (g *gen) e2eScript() *script {
	r := g.r
	sc := g.randomScript()
	sc.batch, sc.direct = r.Chance(35), false
	n := r.Intn(7)
	sc.hosts = make([]gocql.VerifC13Host, n)
	for i := range sc.hosts {
		h := gocql.VerifC13Host{ID: 1 + r.Intn(e2eNodes)}
		if r.Chance(12) {
			if r.Bool() {
				h.InfoNil = true
			} else {
				h.NoPool = true
			}
		}
		sc.hosts[i] = h
	}
	mk := func(uniq int64, successPct int) oc {
		if r.Chance(successPct) {
			return oc{nil, true}
		}
		var o *outSpec
		switch x := r.Intn(100); {
		case x < 6:
			o = mkOut(r.Intn(2), 0, 0, uniq)
		case x < 22:
			o = mkOut(3, r.Pick(0, 1, 2), 0, uniq)
		case x < 46:
			o = mkOut(4, int64(r.Intn(len(writeTypes)-2)), r.Pick(0, 1, 2), uniq)
		case x < 58:
			o = mkOut(5, 0, 0, uniq)
		default:
			k := r.Intn(len(e2eOtherCodes))
			o = &outSpec{kind: 6, a: int64(100 + k), tag: uniq, wire: e2eOtherCodes[k]}
		}
		return oc{o, true}
	}
	sc.outs = make([]oc, r.Intn(9))
	for i := range sc.outs {
		sc.outs[i] = mk(int64(i+1), int(r.Pick(0, 10, 25)))
	}
	sc.dflt = mk(500, int(r.Pick(0, 30, 100)))
	sc.a0 = int(r.Pick(0, 0, 0, 1, 2))
	if r.Chance(75) {
		sc.idem, sc.spk = false, int(r.Pick(0, 1, 3))
	} else {
		sc.idem, sc.spk = true, 0
	}
	return sc
}

func (e *e2e) run(sc *script, kind string) {
	e.runCase(sc, kind)
}

// runCase returns false when the case had to be discarded (a request timed out that no node left unanswered)
func (e *e2e) runCase(sc *script, kind string) bool {
	return e.runCaseAt(sc, kind, false)
}

// runCaseAt: prepStage = context errors strike during the PREPARE round trip (queries only)
func (e *e2e) runCaseAt(sc *script, kind string, prepStage bool) bool {
	if prepStage {
		sc.batch = false
	}
	e.h.realise(sc, !sc.batch, true, e.defaultIdem)
	if sc.src.batch && len(sc.src.entries) == 0 {
		sc.src.entries = []gocql.VerifC13Entry{{Set: true, Idempotent: true}} // an empty BATCH carries no case key
	}
	e.h.chooseRetryOption(sc, !sc.src.batch || sc.src.sessionBatch)
	if !sc.src.batch && !sc.bindSet {
		sc.useBind = e.h.o.Rng.Chance(25)
	}
	rc := newRunCtx(sc, 0)
	ctx := newTrigCtx(context.WithValue(context.Background(), ctxKey{}, 1))
	defer ctx.trigger(context.Canceled)
	e.seq++
	cs := &e2eCase{sc: sc, rc: rc, tctx: ctx, byTag: map[int64]*outSpec{}, key: fmt.Sprintf("case-%d", e.seq), stmt: e2eStmt, prepStage: prepStage}
	if prepStage {
		cs.stmt = fmt.Sprintf("SELECT v FROM c13kv WHERE k = ? LIMIT %d", 100000+e.seq) // unknown to every host
	}
	for _, c := range sc.outs {
		if c.o != nil {
			cs.byTag[c.o.tag] = c.o
		}
	}
	if sc.dflt.o != nil {
		cs.byTag[sc.dflt.o.tag] = sc.dflt.o
	}
	for _, sp := range cs.byTag {
		if sp.kind == 6 && sp.a == 200 {
			cs.connloss = sp
		}
	}
	rc.errSpec = cs.errSpec
	cs.clusterRec = clusterRecFor(sc, rc)
	e.mu.Lock()
	e.cur = cs
	any := e.hosts["10.0.0.1"]
	e.mu.Unlock()

	caller := gid()
	var res gocql.VerifC13Result
	var pan interface{}
	if sc.src.batch {
		// a multi-entry batch through Session.ExecuteBatch
		var b *gocql.Batch
		if sc.src.sessionBatch {
			b = e.sess.NewBatch(gocql.LoggedBatch)
		} else {
			b = gocql.NewBatch(gocql.LoggedBatch)
		}
		for i, en := range sc.src.entries {
			key, n := cs.key, i
			if en.Bind {
				b.Bind(e2eBatchStmt, func(*gocql.QueryInfo) ([]interface{}, error) { return []interface{}{key, n}, nil })
			} else {
				b.Query(e2eBatchStmt, key, n)
			}
			if en.Set {
				b.Entries[i].Idempotent = en.Idempotent
			}
		}
		b = b.WithContext(ctx)
		b.SetConsistency(gocql.Consistency(sc.cons0))
		sc.retryOption(rc, func(p gocql.RetryPolicy) { b.RetryPolicy(p) })
		if sc.observer {
			b.Observer(nopObserver{})
		}
		if sc.spk != 0 {
			b.SpeculativeExecutionPolicy(&specPolicy{k: sc.spk, delay: 50 * time.Microsecond})
		}
		if sc.a0 != 0 {
			b.AddAttempts(sc.a0, any)
		}
		func() {
			defer func() { pan = recover() }()
			res.Host = -1
			res.Err = e.sess.ExecuteBatch(b)
			res.Attempts = b.Attempts()
			res.Consistency = b.GetConsistency()
		}()
		// ExecuteBatch hands back only the error: which host's Iter it was (or that it is the last error after
		// the hosts ran out) is read off the log; the error value itself is the driver's
		rc.mu.Lock()
		if res.Host < 0 && len(rc.traces) > 0 {
			if exp := expectedResult(sc.pol.kind != 0, rc.traces[0]); exp != nil && exp.kind == "iter" {
				res.Host = exp.host
			}
		}
		rc.mu.Unlock()
	} else {
		var q *gocql.Query
		if sc.useBind {
			key := cs.key
			q = e.sess.Bind(cs.stmt, func(*gocql.QueryInfo) ([]interface{}, error) { return []interface{}{key}, nil })
		} else {
			q = e.sess.Query(cs.stmt, cs.key)
		}
		q = q.WithContext(ctx).Consistency(gocql.Consistency(sc.cons0))
		if sc.src.override != nil {
			q.Idempotent(*sc.src.override)
		}
		sc.retryOption(rc, func(p gocql.RetryPolicy) { q.RetryPolicy(p) })
		if sc.observer {
			q.Observer(nopObserver{})
		}
		if sc.spk != 0 {
			q.SetSpeculativeExecutionPolicy(&specPolicy{k: sc.spk, delay: 50 * time.Microsecond})
		}
		if sc.a0 != 0 {
			q.AddAttempts(sc.a0, any)
		}
		func() {
			defer func() { pan = recover() }()
			it := q.Iter()
			res.Host = -1
			if hh := it.Host(); hh != nil {
				res.Host = hostNum(hh)
			}
			res.Err = it.Close()
			res.Attempts = q.Attempts()
			res.Consistency = q.GetConsistency()
		}()
	}
	e.mu.Lock()
	e.cur = nil
	held := cs.held
	e.mu.Unlock()
	for _, hd := range held {
		hd.Release()
	}
	rc.mu.Lock()
	spurious := cs.driverTimeouts != cs.heldTimeouts || (res.Err == gocql.ErrTimeoutNoResponse && cs.heldTimeouts == 0)
	rc.mu.Unlock()
	if spurious {
		e.h.o.Count("end-to-end-discarded-spurious-timeout")
		return false
	}
	e.h.evalSeq(sc, rc, res, pan, caller, kind)
	// context cancellation stops further attempts: nothing of this query reaches any node afterwards, and
	// the caller gets the context's own error value
	rc.mu.Lock()
	trig, after := cs.triggered, cs.afterCancel
	rc.mu.Unlock()
	if trig != nil {
		idx := e.h.o.NCases() - 1
		if after > 0 {
			e.h.o.Violate(idx, "ctx-stops", "", fmt.Sprintf("%d request(s) (PREPARE/EXECUTE/BATCH) of the query reached the nodes after its context ended with %v", after, trig), sc.describe())
		}
		if res.Err != trig {
			e.h.o.Violate(idx, "ctx-error-identity", "", fmt.Sprintf("the context ended with %v but the caller got %v (errors.Is: %v); Attempts() = %d", trig, res.Err, errors.Is(res.Err, trig), res.Attempts), sc.describe())
		}
	}
	return true
}

// runFree: an idempotent query with the driver's own SimpleSpeculativeExecution through the real
// session; the nodes answer after scripted delays.  Monitors only.
func (e *e2e) runFree(sc *script) {
	o := e.h.o
	e.h.realise(sc, true, true, e.defaultIdem)
	rc := newRunCtx(sc, 1)
	ctx, cancel := context.WithCancel(context.WithValue(context.Background(), ctxKey{}, 1))
	defer cancel()
	e.seq++
	cs := &e2eCase{sc: sc, rc: rc, cancel: cancel, byTag: map[int64]*outSpec{}, key: fmt.Sprintf("case-%d", e.seq)}
	for _, c := range sc.outs {
		if c.o != nil {
			cs.byTag[c.o.tag] = c.o
		}
	}
	if sc.dflt.o != nil {
		cs.byTag[sc.dflt.o.tag] = sc.dflt.o
	}
	cs.delays = make([]time.Duration, 24)
	for i := range cs.delays {
		cs.delays[i] = time.Duration(o.Rng.Intn(500)) * time.Microsecond
	}
	delay := time.Duration(30+o.Rng.Intn(300)) * time.Microsecond
	rc.errSpec = cs.errSpec
	cs.clusterRec = clusterRecFor(sc, rc)
	e.mu.Lock()
	e.cur = cs
	e.mu.Unlock()
	q := e.sess.Query(e2eStmt, cs.key).WithContext(ctx).Consistency(gocql.Consistency(sc.cons0))
	if sc.src.override != nil {
		q.Idempotent(*sc.src.override)
	}
	q.RetryPolicy(rc.retryPolicy())
	q.SetSpeculativeExecutionPolicy(&gocql.SimpleSpeculativeExecution{NumAttempts: sc.spk, TimeoutDelay: delay})
	if sc.a0 != 0 {
		e.mu.Lock()
		any := e.hosts["10.0.0.1"]
		e.mu.Unlock()
		q.AddAttempts(sc.a0, any)
	}
	var err error
	var pan interface{}
	func() {
		defer func() { pan = recover() }()
		err = q.Iter().Close()
	}()
	// every execution ends soon after the result is in (the context is cancelled); then no new attempt appears
	last, quiet := -1, 0
	for i := 0; i < 2000 && quiet < 4; i++ {
		time.Sleep(300 * time.Microsecond)
		rc.mu.Lock()
		if rc.started == last {
			quiet++
		} else {
			quiet, last = 0, rc.started
		}
		rc.mu.Unlock()
	}
	e.mu.Lock()
	e.cur = nil
	e.mu.Unlock()
	rc.mu.Lock()
	defer rc.mu.Unlock()
	o.Count("speculative-end-to-end")
	in := sc.describe()
	in["delay_us"] = delay.Microseconds()
	if pan != nil {
		o.Violate(-1, "panic", "", fmt.Sprintf("executor panicked: %v", pan), in)
		return
	}
	if rc.runaway {
		o.Violate(-1, "budget", "", runawayMsg(sc), in)
		return
	}
	if err != nil && rc.specOf(err) == nil && err != gocql.ErrNoConnections && err != gocql.ErrUnknownRetryType {
		o.Violate(-1, "one-result", "", fmt.Sprintf("the result's error %v is no attempt's error", err), in)
	}
	if atomic.LoadInt32(&rc.pickRaced) != 0 {
		o.Violate(-1, "iterator-concurrent", "", "the host iterator was entered by two executions at once", in)
	}
	runs := sc.spk + 1
	if len(rc.threads) > runs {
		o.Violate(-1, "speculation-budget", "", fmt.Sprintf("%d executions for SpeculativeExecutionPolicy.Attempts() = %d", len(rc.threads), sc.spk), in)
	}
	total := rc.started // EXECUTE requests that reached the nodes
	if th, ok := sc.pol.threshold(); ok {
		allow := th - int64(sc.a0)
		if allow < 0 {
			allow = 0
		}
		if int64(total) > int64(runs)+allow {
			o.Violate(-1, "budget", "", fmt.Sprintf("%d requests reached the nodes, %d executions with policy %s allow %d after %d earlier attempts; logs %v", total, runs, sc.pol, int64(runs)+allow, sc.a0, rc.traces), in)
		}
	}
	if sc.pol.kind == 0 && total > runs {
		o.Violate(-1, "once-without-policy", "", fmt.Sprintf("%d requests by %d executions without a retry policy", total, runs), in)
	}
}

func errorMsg(o *outSpec) node.Message {
	switch o.kind {
	case 3:
		return node.Error{Code: node.ErrUnavailable, Message: tagMsg(o.tag), Consistency: node.Quorum, Required: 2, Alive: int32(o.a)}
	case 4:
		return node.Error{Code: node.ErrWriteTimeout, Message: tagMsg(o.tag), Consistency: node.Quorum, Received: int32(o.b), BlockFor: 2, WriteType: writeTypes[o.a]}
	case 5:
		return node.Error{Code: node.ErrReadTimeout, Message: tagMsg(o.tag), Consistency: node.Quorum, Received: 1, BlockFor: 2, DataPresent: true}
	}
	return node.Error{Code: o.wire, Message: tagMsg(o.tag)}
}

// handleControlled: the request stays unanswered until the harness releases it with an outcome; the
// release is the execution's next step in the schedule
func (e *e2e) handleControlled(cs *e2eCase, id int, nd *node.Node, c *node.ServerConn, req *node.Request) {
	rc := cs.rc
	rc.mu.Lock()
	if rc.started >= maxExecs {
		rc.runaway = true
	}
	if rc.closed || rc.runaway {
		rc.mu.Unlock()
		c.Reply(req, node.Void{})
		return
	}
	t := cs.hostThread[id]
	_, cons := reqKey(req)
	rc.traces[t] = append(rc.traces[t], ev{kind: evExec, host: id, cons: int64(cons)})
	rc.started++
	cs.inflight[t] = true
	ch := make(chan release, 1)
	rc.blocked[t] = ch
	rc.blockGen[t]++
	rc.cond.Broadcast()
	rc.mu.Unlock()
	rel := <-ch
	rc.mu.Lock()
	if !cs.inflight[t] || (rel.c.o != nil && rel.c.o.kind == 0) {
		// given up by the driver already (context done), or released after the query was over
		rc.mu.Unlock()
		c.Reply(req, node.Void{})
		return
	}
	cs.inflight[t] = false
	rc.labels = append(rc.labels, lbl{kind: 1, t: t, o: rel.c.o, still: true})
	rc.traces[t] = append(rc.traces[t], ev{kind: evDone, host: id, o: rel.c.o, still: true})
	rc.mu.Unlock()
	if rel.c.o == nil {
		nd.Default(c, req)
	} else {
		c.Reply(req, errorMsg(rel.c.o))
	}
}

// controlledScript: distinct hosts, enough usable ones for every execution's first attempt
func (g *gen) controlledE2EScript() *script {
	r := g.r
	sc := g.e2eScript()
	perm := []int{1, 2, 3, 4, 5}
	for i := len(perm) - 1; i > 0; i-- {
		j := r.Intn(i + 1)
		perm[i], perm[j] = perm[j], perm[i]
	}
	sc.idem = true
	sc.spk = int(r.Pick(1, 1, 2, 3))
	sc.hosts = nil
	for _, id := range perm {
		sc.hosts = append(sc.hosts, gocql.VerifC13Host{ID: id})
	}
	if r.Chance(30) {
		k := r.Intn(len(sc.hosts))
		if r.Bool() {
			sc.hosts[k].InfoNil = true
		} else {
			sc.hosts[k].NoPool = true
		}
	}
	for i := range sc.outs {
		if sc.outs[i].o != nil && sc.outs[i].o.kind <= 1 {
			sc.outs[i].o = nil
		}
	}
	if sc.dflt.o != nil && sc.dflt.o.kind <= 1 {
		sc.dflt.o = nil
	}
	sc.a0 = int(r.Pick(0, 0, 1))
	return sc
}

// runControlled: a speculative execution through the real session on a schedule the harness controls
// by holding the nodes' answers; emitted as a CSpec case like the shim-driven ones
func (e *e2e) runControlled(sc *script, sched []int, cancelAt int, kind string) {
	e.h.realise(sc, true, true, e.defaultIdem)
	launch := func(ctx context.Context, rc *runCtx, sp gocql.SpeculativeExecutionPolicy) gocql.VerifC13Result {
		e.mu.Lock()
		e.seq++
		cs := &e2eCase{sc: sc, rc: rc, byTag: map[int64]*outSpec{}, key: fmt.Sprintf("case-%d", e.seq), controlled: true,
			hostThread: map[int]int{}, inflight: map[int]bool{}}
		e.mu.Unlock()
		for _, c := range sc.outs {
			if c.o != nil {
				cs.byTag[c.o.tag] = c.o
			}
		}
		if sc.dflt.o != nil {
			cs.byTag[sc.dflt.o.tag] = sc.dflt.o
		}
		rc.errSpec = cs.errSpec
		cs.clusterRec = clusterRecFor(sc, rc)
		cs.clusterRec = clusterRecFor(sc, rc)
		e.mu.Lock()
		e.cur = cs
		any := e.hosts["10.0.0.1"]
		e.mu.Unlock()
		q := e.sess.Query(e2eStmt, cs.key).WithContext(ctx).Consistency(gocql.Consistency(sc.cons0))
		if sc.src.override != nil {
			q.Idempotent(*sc.src.override)
		}
		q.RetryPolicy(rc.retryPolicy())
		q.SetSpeculativeExecutionPolicy(sp)
		if sc.a0 != 0 {
			q.AddAttempts(sc.a0, any)
		}
		var res gocql.VerifC13Result
		it := q.Iter()
		res.Host = -1
		if hh := it.Host(); hh != nil {
			res.Host = hostNum(hh)
		}
		res.Err = it.Close()
		res.Attempts = q.Attempts()
		res.Consistency = q.GetConsistency()
		res.AttemptsNow = q.Attempts
		return res
	}
	e.h.runControlledWith(sc, sched, true, cancelAt, kind, launch)
	e.mu.Lock()
	e.cur = nil
	e.mu.Unlock()
}

// prepCancelScript: a few failing attempts on distinct hosts (RetryNextHost), then the context ends while
// the PREPARE of the next attempt is outstanding; a budget that would allow going on
func (g *gen) prepCancelScript() *script {
	r := g.r
	sc := g.e2eScript()
	perm := []int{1, 2, 3, 4, 5}
	for i := len(perm) - 1; i > 0; i-- {
		j := r.Intn(i + 1)
		perm[i], perm[j] = perm[j], perm[i]
	}
	sc.hosts = nil
	for _, id := range perm[:3+r.Intn(3)] {
		sc.hosts = append(sc.hosts, gocql.VerifC13Host{ID: id})
	}
	sc.pol = polDesc{kind: int(r.Pick(1, 1, 2)), n: int(r.Pick(2, 4, 6))}
	if r.Chance(10) {
		sc.pol = polDesc{kind: 0}
	}
	sc.a0 = 0
	j := r.Intn(3)
	sc.outs = nil
	for i := 0; i < j; i++ {
		k := r.Intn(len(e2eOtherCodes))
		sc.outs = append(sc.outs, oc{&outSpec{kind: 6, a: int64(100 + k), tag: int64(i + 1), wire: e2eOtherCodes[k]}, true})
	}
	sc.outs = append(sc.outs, oc{mkOut(r.Intn(2), 0, 0, 0), true})
	k := r.Intn(len(e2eOtherCodes))
	sc.dflt = oc{&outSpec{kind: 6, a: int64(100 + k), tag: 500, wire: e2eOtherCodes[k]}, true}
	return sc
}

// retryOptionScripts: the statement's retry-policy option in its three states on statements made by the
// session (Session.Query, Session.Bind, Session.NewBatch) under a cluster default that retries; every
// attempt fails, so the number of attempts shows which policy was in force.  Independent of the seed.
func (e *e2e) runRetryOptions() {
	g := e.h.g
	for stmtKind := 0; stmtKind < 3; stmtKind++ {
		for opt := 0; opt < 3; opt++ {
			for ci, cl := range []polDesc{{kind: 1, n: 3}, {kind: 3, levels: []int64{6, 1}}} {
				sc := &script{cons0: 4, a0: 0, spk: 0}
				for _, id := range []int{1 + (stmtKind+opt+ci)%5, 1 + (stmtKind+opt+ci+1)%5, 1 + (stmtKind+opt+ci+2)%5, 1 + (stmtKind+opt+ci+3)%5} {
					sc.hosts = append(sc.hosts, gocql.VerifC13Host{ID: id})
				}
				k := (stmtKind + opt) % len(e2eOtherCodes)
				sc.dflt = oc{&outSpec{kind: 6, a: int64(100 + k), tag: 500, wire: e2eOtherCodes[k]}, true}
				if ci == 1 {
					sc.dflt = oc{mkOut(5, 0, 0, 500), true} // read timeouts: the downgrading default retries on the same host
				}
				c := cl
				sc.cluster, sc.rtOpt, sc.explicit = &c, opt, polDesc{kind: 1, n: 1}
				switch opt {
				case 0:
					sc.pol = cl
				case 1:
					sc.pol = sc.explicit
				default:
					sc.pol = polDesc{kind: 0}
				}
				f := false
				switch stmtKind {
				case 0:
					sc.src, sc.bindSet = &idemSrc{clusterDefault: e.defaultIdem, override: &f}, true
				case 1:
					sc.src, sc.bindSet, sc.useBind = &idemSrc{clusterDefault: e.defaultIdem, override: &f}, true, true
				default:
					sc.batch = true
					sc.src = &idemSrc{batch: true, sessionBatch: true, entries: []gocql.VerifC13Entry{{Set: true, Idempotent: true}, {Bind: true}}}
				}
				_ = g
				e.runCase(sc, "seq-end-to-end-retry-option")
			}
		}
	}
}

type nopObserver struct{}

func (nopObserver) ObserveQuery(context.Context, gocql.ObservedQuery) {}
func (nopObserver) ObserveBatch(context.Context, gocql.ObservedBatch) {}

// runAttemptCounting: the attempt counter the policies consult, on real statements with and without an
// observer: SimpleRetryPolicy{0,1,2}, five failing hosts (more than NumRetries+1).  Independent of the seed.
func (e *e2e) runAttemptCounting() {
	for stmtKind := 0; stmtKind < 4; stmtKind++ {
		for n := 0; n <= 2; n++ {
			sc := &script{cons0: 4, pol: polDesc{kind: 1, n: n}, observer: stmtKind%2 == 1, bindSet: true}
			for i := 0; i < 5; i++ {
				sc.hosts = append(sc.hosts, gocql.VerifC13Host{ID: 1 + (i+stmtKind+n)%5})
			}
			k := (stmtKind + n) % len(e2eOtherCodes)
			sc.dflt = oc{&outSpec{kind: 6, a: int64(100 + k), tag: 500, wire: e2eOtherCodes[k]}, true}
			t := true
			if stmtKind >= 2 {
				sc.batch = true
				sc.src = &idemSrc{batch: true, sessionBatch: true, entries: []gocql.VerifC13Entry{{Set: true, Idempotent: true}, {Set: true, Idempotent: true, Bind: true}}}
			} else {
				sc.src = &idemSrc{clusterDefault: e.defaultIdem, override: &t}
			}
			e.runCase(sc, "seq-end-to-end-attempt-counting")
		}
	}
}
