// End-to-end fault scenarios over the scripted nodes: request timeouts (a node never answers),
// connections lost while a request is outstanding, hosts without any connection (dials refused) and
// hosts reported DOWN by a STATUS_CHANGE event.  Sequential executions, compared exactly like every
// other CSeq case.
package main

import (
	"context"
	"fmt"
	"net"
	"time"

	"github.com/gocql/gocql"
	"gocqlverif/node"
)

func (e *e2e) probe(id int) error {
	ctx := context.WithValue(context.Background(), ctxKey{}, -id)
	return e.sess.Query(e2eStmt, "probe").WithContext(ctx).Iter().Close()
}

// waitProbe waits until a query sent to host id alone ends as wanted
func (e *e2e) waitProbe(id int, want func(error) bool, d time.Duration) bool {
	deadline := time.Now().Add(d)
	for time.Now().Before(deadline) {
		if want(e.probe(id)) {
			return true
		}
		time.Sleep(2 * time.Millisecond)
	}
	return false
}

func isNil(err error) bool    { return err == nil }
func isNoConn(err error) bool { return err == gocql.ErrNoConnections }

// faultScript: distinct hosts (a host that lost its connection is not offered again within the case)
func (g *gen) faultScript(noConn map[int]bool, down map[int]bool, timeouts, connloss bool) *script {
	r := g.r
	sc := g.e2eScript()
	perm := []int{1, 2, 3, 4, 5}
	for i := len(perm) - 1; i > 0; i-- {
		j := r.Intn(i + 1)
		perm[i], perm[j] = perm[j], perm[i]
	}
	n := 2 + r.Intn(4)
	sc.hosts = nil
	for _, id := range perm[:n] {
		sc.hosts = append(sc.hosts, gocql.VerifC13Host{ID: id, NoConn: noConn[id], Down: down[id]})
	}
	// no cancellation here; faults instead
	for i := range sc.outs {
		if sc.outs[i].o != nil && sc.outs[i].o.kind <= 1 {
			sc.outs[i].o = nil
		}
	}
	if sc.dflt.o != nil && sc.dflt.o.kind <= 1 {
		sc.dflt.o = nil
	}
	if len(sc.outs) == 0 {
		sc.outs = []oc{{nil, true}}
	}
	// faults early in the script, where attempts actually happen
	early := func() int {
		k := r.Intn(3)
		for len(sc.outs) <= k {
			sc.outs = append(sc.outs, oc{nil, true})
		}
		return k
	}
	if timeouts && r.Chance(50) {
		sc.outs[early()] = oc{mkOut(6, 0, 0, 0), true} // ErrTimeoutNoResponse, tag 900
	}
	if connloss && r.Chance(70) {
		sc.outs[early()] = oc{&outSpec{kind: 6, a: 200, tag: 950}, true}
		// whether the same host is still usable right after it lost its connection is a race between the
		// executor and the pool's error handler / refill; the built-in policies go to the next host
		if sc.pol.kind == 4 {
			sc.pol = polDesc{kind: int(r.Pick(1, 2, 3)), n: int(r.Pick(1, 2, 4)), levels: []int64{6, 1}}
		}
	}
	if sc.pol.kind == 0 && r.Chance(70) {
		sc.pol = polDesc{kind: 1, n: int(r.Pick(1, 2, 4))}
	}
	return sc
}

func (h *harness) runFaults(n int) {
	o := h.o
	g := h.g
	t0 := time.Now()
	e, err := newE2E(h, 400*time.Millisecond, o.Seed%2 == 1)
	if err != nil {
		o.Violate(-1, "e2e-setup", "", fmt.Sprintf("session over scripted nodes could not be opened: %v", err), nil)
		return
	}
	defer e.close()
	notes := map[string]int{}
	allUp := func() bool {
		for id := 1; id <= e2eNodes; id++ {
			if !e.waitProbe(id, isNil, 10*time.Second) {
				return false
			}
		}
		return true
	}
	if !allUp() {
		o.Extra["end_to_end_faults"] = "skipped: the cluster did not become usable"
		return
	}
	// (a) request timeouts and lost connections
	for i := 0; i < n; i++ {
		sc := g.faultScript(nil, nil, true, true)
		if e.runCase(sc, "seq-end-to-end-faults") {
			notes["timeout/connection-loss cases"]++
		}
		if !allUp() { // pools refill asynchronously after a lost connection
			o.Extra["end_to_end_faults"] = "stopped: a host did not get its connection back"
			return
		}
	}
	// (b) hosts without any connection: dials refused, connections closed
	for round := 0; round < 2; round++ {
		noConn := map[int]bool{}
		for id := 2; id <= e2eNodes; id++ {
			if o.Rng.Chance(45) {
				noConn[id] = true
			}
		}
		ok := true
		for id := range noConn {
			nd := e.net.Node(fmt.Sprintf("10.0.0.%d:9042", id))
			nd.SetDialFault(&node.DialFault{Refuse: true})
			nd.CloseConns()
		}
		for id := 2; id <= e2eNodes; id++ {
			if noConn[id] {
				ok = ok && e.waitProbe(id, isNoConn, 10*time.Second)
			}
		}
		if ok {
			for i := 0; i < n/2+1; i++ {
				if e.runCase(g.faultScript(noConn, nil, false, false), "seq-end-to-end-faults") {
					notes["no-connection-host cases"]++
				}
			}
		}
		for id := range noConn {
			e.net.Node(fmt.Sprintf("10.0.0.%d:9042", id)).SetDialFault(nil)
		}
		// the driver convicted these hosts (pool gone, state DOWN): the cluster announces them again
		for id := range noConn {
			for _, nd := range e.net.Nodes() {
				nd.PushEvent(node.StatusChangeEvent{Change: "UP", IP: net.IPv4(10, 0, 0, byte(id)), Port: 9042})
			}
		}
		if !allUp() {
			o.Extra["end_to_end_faults"] = "stopped: a host did not reconnect after its dial fault was lifted"
			return
		}
	}
	// (c) a host reported DOWN by the cluster (STATUS_CHANGE event on the control connection): state DOWN, pool removed
	{
		id := 2 + o.Rng.Intn(e2eNodes-1)
		ip := net.IPv4(10, 0, 0, byte(id))
		for len(e.downs) > 0 {
			<-e.downs
		}
		sent := 0
		for _, nd := range e.net.Nodes() {
			sent += nd.PushEvent(node.StatusChangeEvent{Change: "DOWN", IP: ip, Port: 9042})
		}
		got := false
		deadline := time.After(15 * time.Second)
	waitDown:
		for sent > 0 {
			select {
			case x := <-e.downs:
				if x == id {
					got = true
					break waitDown
				}
			case <-deadline:
				break waitDown
			}
		}
		if got && e.waitProbe(id, isNoConn, 10*time.Second) {
			for i := 0; i < n/2+1; i++ {
				if e.runCase(g.faultScript(nil, map[int]bool{id: true}, false, false), "seq-end-to-end-faults") {
					notes["down-host cases"]++
				}
			}
			for _, nd := range e.net.Nodes() {
				nd.PushEvent(node.StatusChangeEvent{Change: "UP", IP: ip, Port: 9042})
			}
			e.waitProbe(id, isNil, 15*time.Second)
		} else {
			notes["down-host scenario skipped (event not delivered in time)"]++
		}
	}
	o.Extra["end_to_end_faults"] = fmt.Sprintf("%v in %.1fs", notes, time.Since(t0).Seconds())
}
