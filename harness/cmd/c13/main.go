// C13 harness: drives the real queryExecutor (executeQuery / speculate / run / do) of package gocql
// through the add-only shim verif_shim_c13.go with a real *Query or *Batch whose execute step is
// scripted, a scripted host iterator and scripted per-attempt outcomes.  It records what the
// executor did (host iterator calls, execute calls, attempt outcomes, Mark calls, policy
// consultations, the Iter that came back, the attempt counter) and emits
//   - CSeq cases: sequential executions, compared exactly with the model's do_run;
//   - CSpec cases: speculative executions on a schedule the harness controls by blocking the
//     scripted attempts, compared exactly with the model's transition system run on the observed
//     label sequence;
//   - free-running speculative executions (timers, sleeps): monitors only.
//
// The monitors (contract recogniser of C13/Spec.v re-implemented here, budgets, result provenance,
// idempotence gates) are evaluated on the implementation's outputs only.
package main

import (
	"context"
	"fmt"
	"io"
	"net"
	"runtime"
	"sort"
	"strconv"
	"strings"
	"sync"
	"sync/atomic"
	"time"

	"github.com/gocql/gocql"
	"gocqlverif/hlib"
)

// ---- scripted outcomes ------------------------------------------------------------------------

// outSpec is one failing outcome: kind 0 canceled, 1 deadline, 2 not found, 3 unavailable(a=alive),
// 4 write timeout(a=write type code, b=received), 5 read timeout, 6 other(a=class).
type outSpec struct {
	kind int
	a, b int64
	tag  int64
	err  error
	wire int32 // end-to-end mode: the error code the scripted node answers with (other classes)
}

var writeTypes = []string{"SIMPLE", "BATCH", "COUNTER", "UNLOGGED_BATCH", "BATCH_LOG", "CAS", "VIEW", "CDC", "", "simple"}

const nOtherClasses = 12

func mkOut(kind int, a, b int64, uniq int64) *outSpec {
	o := &outSpec{kind: kind, a: a, b: b, tag: uniq}
	switch kind {
	case 0:
		o.err, o.tag = context.Canceled, 0
	case 1:
		o.err, o.tag = context.DeadlineExceeded, 0
	case 2:
		o.err, o.tag = gocql.ErrNotFound, 0
	case 3:
		o.err = &gocql.RequestErrUnavailable{Alive: int(a), Required: 2, Consistency: gocql.Quorum}
	case 4:
		o.err = &gocql.RequestErrWriteTimeout{WriteType: writeTypes[a], Received: int(b), BlockFor: 2}
	case 5:
		o.err = &gocql.RequestErrReadTimeout{Received: 1, BlockFor: 2}
	default:
		o.kind = 6
		switch a {
		case 0:
			o.err, o.tag = gocql.ErrTimeoutNoResponse, 900
		case 1:
			o.err, o.tag = gocql.ErrConnectionClosed, 901
		case 2:
			o.err, o.tag = gocql.ErrNoStreams, 902
		case 3:
			o.err, o.tag = io.EOF, 903
		case 4:
			o.err = fmt.Errorf("wrapped: %w", context.Canceled)
		case 5:
			o.err = &gocql.RequestErrReadFailure{Received: 1, BlockFor: 2, NumFailures: 1}
		case 6:
			o.err = &gocql.RequestErrWriteFailure{WriteType: "SIMPLE"}
		case 7:
			o.err, o.tag = gocql.ErrUnavailable, 907
		case 8:
			o.err = &net.OpError{Op: "read", Net: "tcp", Err: io.ErrUnexpectedEOF}
		case 9:
			o.err, o.tag = gocql.ErrTooManyTimeouts, 909
		case 10:
			o.err = fmt.Errorf("wrapped: %w", context.DeadlineExceeded)
		default:
			o.err = &gocql.RequestErrFunctionFailure{Keyspace: "k", Function: "f"}
		}
	}
	return o
}

func (o *outSpec) errTerm() string {
	switch o.kind {
	case 0:
		return "ECanceled"
	case 1:
		return "EDeadline"
	case 2:
		return "ENotFound"
	case 3:
		return fmt.Sprintf("(EUnavailable %s)", hlib.Z(o.a))
	case 4:
		return fmt.Sprintf("(EWriteTimeout %s %s)", hlib.Z(o.a), hlib.Z(o.b))
	case 5:
		return "EReadTimeout"
	}
	return fmt.Sprintf("(EOther %s)", hlib.Z(o.a))
}

// err_code of C13/Corr.v
func (o *outSpec) code() int64 {
	if o.kind == 6 {
		return 6 + o.a
	}
	return int64(o.kind)
}

func (o *outSpec) logical() bool { return o.kind <= 2 }

func outTerm(o *outSpec) string {
	if o == nil {
		return "None"
	}
	return fmt.Sprintf("(Some (%s, %s))", o.errTerm(), hlib.Z(o.tag))
}

type oc struct {
	o     *outSpec // nil: success
	still bool
}

func ocTerm(c oc) string { return hlib.Pair(outTerm(c.o), hlib.Bool(c.still)) }

// ---- events -----------------------------------------------------------------------------------

const (
	evPick = iota
	evExec
	evDone
	evMark
	evAsk
	evType
)

type ev struct {
	kind    int
	host    int   // pick/exec/done/mark; -1: nil host (pick)
	usable  bool  // pick
	cons    int64 // exec
	o       *outSpec
	still   bool
	markTag int64 // mark: -1 = Mark(nil)
	att     int64 // ask
	ans     bool
	tag     int64 // type: tag of the error asked about
	rt      int64 // type
}

func (e ev) term() string {
	switch e.kind {
	case evPick:
		if e.host < 0 {
			return "EvPick None"
		}
		return fmt.Sprintf("EvPick (Some (%d, %s))", e.host, hlib.Bool(e.usable))
	case evExec:
		return fmt.Sprintf("EvExec %d %s", e.host, hlib.Z(e.cons))
	case evDone:
		return fmt.Sprintf("EvDone %d %s %s", e.host, outTerm(e.o), hlib.Bool(e.still))
	case evMark:
		if e.markTag == -1 {
			return fmt.Sprintf("EvMark %d None", e.host)
		}
		return fmt.Sprintf("EvMark %d (Some %s)", e.host, hlib.Z(e.markTag))
	case evAsk:
		return fmt.Sprintf("EvAsk %s %s", hlib.Z(e.att), hlib.Bool(e.ans))
	}
	return fmt.Sprintf("EvType %s %s", hlib.Z(e.tag), hlib.Z(e.rt))
}

func traceTerm(tr []ev) string {
	ss := make([]string, len(tr))
	for i, e := range tr {
		ss[i] = e.term()
	}
	return hlib.List(ss)
}

func (e ev) String() string { return e.term() }

// ---- policies -----------------------------------------------------------------------------------

type ans struct {
	yes  bool
	set  bool
	cons int64
}

// polDesc: kind 0 none, 1 simple, 2 exponential, 3 downgrading, 4 custom (scripted)
type polDesc struct {
	kind    int
	n       int
	levels  []int64
	answers []ans
	types   []int64
}

func (p polDesc) term() string {
	switch p.kind {
	case 0:
		return "PdNone"
	case 1:
		return fmt.Sprintf("(PdSimple %s)", hlib.Z(int64(p.n)))
	case 2:
		return fmt.Sprintf("(PdExpo %s)", hlib.Z(int64(p.n)))
	case 3:
		return fmt.Sprintf("(PdDown %s)", hlib.ZListI(p.levels))
	}
	as := make([]string, len(p.answers))
	for i, a := range p.answers {
		c := "None"
		if a.set {
			c = hlib.Some(hlib.Z(a.cons))
		}
		as[i] = hlib.Pair(hlib.Bool(a.yes), c)
	}
	return fmt.Sprintf("(PdCustom %s %s)", hlib.List(as), hlib.ZListI(p.types))
}

func (p polDesc) String() string { return p.term() }

// threshold of the built-in policies (C13/Spec.v: threshold)
func (p polDesc) threshold() (int64, bool) {
	switch p.kind {
	case 1, 2:
		return int64(p.n), true
	case 3:
		return int64(len(p.levels)), true
	}
	return 0, false
}

// customPolicy: the scripted "arbitrary decision function"
type customPolicy struct {
	mu    sync.Mutex
	d     polDesc
	dec   int
	specs func(error) *outSpec
}

func (c *customPolicy) Attempt(q gocql.RetryableQuery) bool {
	c.mu.Lock()
	d := c.dec
	c.dec++
	c.mu.Unlock()
	if d >= len(c.d.answers) {
		return false
	}
	a := c.d.answers[d]
	if a.set {
		q.SetConsistency(gocql.Consistency(a.cons))
	}
	return a.yes
}

func (c *customPolicy) GetRetryType(err error) gocql.RetryType {
	c.mu.Lock()
	d := c.dec - 1
	c.mu.Unlock()
	if len(c.d.types) == 0 {
		return gocql.Rethrow
	}
	code := int64(0)
	if s := c.specs(err); s != nil {
		code = s.code()
	}
	return gocql.RetryType(c.d.types[(int64(d)+code)%int64(len(c.d.types))])
}

// recPolicy logs the consultations of whatever policy it wraps
type recPolicy struct {
	inner gocql.RetryPolicy
	rc    *runCtx
}

// attemptsProxy records the attempt count the wrapped policy actually read (its decision is based on
// the first read), so that the logged consultation is exact under concurrency too
type attemptsProxy struct {
	gocql.RetryableQuery
	seen []int
}

func (p *attemptsProxy) Attempts() int {
	a := p.RetryableQuery.Attempts()
	p.seen = append(p.seen, a)
	return a
}

func (p *recPolicy) Attempt(q gocql.RetryableQuery) bool {
	p.rc.beforeAsk()
	px := &attemptsProxy{RetryableQuery: q}
	r := p.inner.Attempt(px)
	a := 0
	if len(px.seen) > 0 {
		a = px.seen[0]
	} else {
		a = q.Attempts()
	}
	p.rc.logEv(ev{kind: evAsk, att: int64(a), ans: r})
	return r
}

func (p *recPolicy) GetRetryType(err error) gocql.RetryType {
	t := p.inner.GetRetryType(err)
	tag := int64(-7)
	sp := p.rc.specOf(err)
	if sp != nil {
		tag = sp.tag
	}
	p.rc.logEv(ev{kind: evType, tag: tag, rt: int64(t), o: sp})
	return t
}

type specPolicy struct {
	k     int
	delay time.Duration
}

func (s *specPolicy) Attempts() int        { return s.k }
func (s *specPolicy) Delay() time.Duration { return s.delay }

// ---- scripts ------------------------------------------------------------------------------------

type script struct {
	hosts  []gocql.VerifC13Host
	pol    polDesc
	idem   bool
	spk    int
	a0     int
	cons0  int64
	outs   []oc
	dflt   oc
	direct bool
	batch  bool
	src    *idemSrc // how the query / batch is marked; generated from idem and batch when nil

	// statements made by a real Session: the cluster's default retry policy and what the caller did with the
	// statement's own option (0: left alone = inherits the default, 1: RetryPolicy(explicit), 2: RetryPolicy(nil));
	// pol is always the effective policy by the documented rule (the option if set, else the default)
	cluster  *polDesc
	rtOpt    int
	explicit polDesc
	useBind  bool // query made with Session.Bind instead of Session.Query
	observer bool // a QueryObserver / BatchObserver is installed
	bindSet  bool
}

// polTerm: the policy as the correspondence case states it
func (sc *script) polTerm() string {
	if sc.cluster == nil {
		return sc.pol.term()
	}
	switch sc.rtOpt {
	case 0:
		return fmt.Sprintf("(PdOpt %s None)", sc.cluster.term())
	case 1:
		return fmt.Sprintf("(PdOpt %s (Some %s))", sc.cluster.term(), sc.explicit.term())
	}
	return fmt.Sprintf("(PdOpt %s (Some PdNone))", sc.cluster.term())
}

// idemSrc: the inputs of IsIdempotent as the application writes them
type idemSrc struct {
	batch          bool
	entries        []gocql.VerifC13Entry
	sessionBatch   bool
	clusterDefault bool
	override       *bool
}

// spec side: a batch is idempotent when every entry is marked so, a query when its override (else the
// cluster default) says so
func (s *idemSrc) spec() bool {
	if s.batch {
		for _, e := range s.entries {
			if !(e.Set && e.Idempotent) {
				return false
			}
		}
		return true
	}
	if s.override != nil {
		return *s.override
	}
	return s.clusterDefault
}

func (s *idemSrc) term() string {
	if s.batch {
		fs := make([]string, len(s.entries))
		for i, e := range s.entries {
			fs[i] = hlib.Bool(e.Set && e.Idempotent)
		}
		return "(IBatch " + hlib.List(fs) + ")"
	}
	ov := "None"
	if s.override != nil {
		ov = hlib.Some(hlib.Bool(*s.override))
	}
	return fmt.Sprintf("(IQuery %s %s)", hlib.Bool(s.clusterDefault), ov)
}

func (s *idemSrc) shim() *gocql.VerifC13Idem {
	return &gocql.VerifC13Idem{Entries: s.entries, SessionBatch: s.sessionBatch, ClusterDefault: s.clusterDefault, Override: s.override}
}

// realise picks a way of marking the query / batch that gives the intended idempotence: batches of 0..5
// entries made with Query or Bind with the non-idempotent entries at any position, queries through the
// cluster default with or without an override
func (h *harness) realise(sc *script, forceQuery bool, haveDefault bool, sessDefault bool) {
	if sc.src != nil {
		sc.idem = sc.src.spec()
		return
	}
	r := h.o.Rng
	src := &idemSrc{batch: sc.batch && !forceQuery}
	if src.batch {
		n := 1 + r.Intn(5)
		if sc.idem && r.Chance(10) {
			n = 0
		}
		src.sessionBatch = r.Bool()
		src.clusterDefault = r.Bool()
		src.entries = make([]gocql.VerifC13Entry, n)
		for i := range src.entries {
			src.entries[i] = gocql.VerifC13Entry{Bind: r.Chance(30), Set: true, Idempotent: true}
		}
		if !sc.idem {
			// at least one entry is not idempotent: a single one at any position (often not the last), or several
			k := r.Intn(n)
			if n > 1 && r.Chance(60) {
				k = r.Intn(n - 1)
			}
			mark := func(i int) {
				src.entries[i].Idempotent = false
				if r.Chance(40) {
					src.entries[i].Set = false // left at the default
				}
			}
			mark(k)
			if r.Chance(25) {
				for i := range src.entries {
					if r.Chance(40) {
						mark(i)
					}
				}
			}
		}
	} else {
		src.clusterDefault = r.Bool()
		if haveDefault {
			src.clusterDefault = sessDefault
		}
		if src.clusterDefault != sc.idem || r.Chance(40) {
			v := sc.idem
			src.override = &v
		}
	}
	sc.src = src
}

func srcTerm(sc *script) string {
	if sc.src == nil {
		return ""
	}
	return sc.src.term()
}

func hostUsable(h gocql.VerifC13Host) bool { return !h.InfoNil && !h.Down && !h.NoPool && !h.NoConn }

func hostTerm(h gocql.VerifC13Host) string {
	return fmt.Sprintf("(mkHost %d %s %s %s %s)", h.ID, hlib.Bool(!h.InfoNil), hlib.Bool(!h.Down), hlib.Bool(!h.NoPool), hlib.Bool(!h.NoConn))
}

func hostsTerm(hs []gocql.VerifC13Host) string {
	ss := make([]string, len(hs))
	for i, h := range hs {
		ss[i] = hostTerm(h)
	}
	return hlib.List(ss)
}

func outsTerm(cs []oc) string {
	ss := make([]string, len(cs))
	for i, c := range cs {
		ss[i] = ocTerm(c)
	}
	return hlib.List(ss)
}

func (sc *script) describe() map[string]interface{} {
	return map[string]interface{}{"hosts": hostsTerm(sc.hosts), "policy": sc.polTerm(), "idempotent": sc.idem, "marking": srcTerm(sc), "speculative_attempts": sc.spk,
		"initial_attempts": sc.a0, "consistency": sc.cons0, "outcomes": outsTerm(sc.outs), "default_outcome": ocTerm(sc.dflt), "direct": sc.direct, "batch": sc.batch}
}

// ---- one run of the implementation ---------------------------------------------------------------

func gid() uint64 {
	var b [64]byte
	n := runtime.Stack(b[:], false)
	f := strings.Fields(string(b[:n]))
	if len(f) < 2 {
		return 0
	}
	g, _ := strconv.ParseUint(f[1], 10, 64)
	return g
}

type lbl struct {
	kind  int // 0 tick, 1 run step, 2 cancel, 3 return marker
	t     int
	o     *outSpec
	still bool
}

func (l lbl) term() string {
	switch l.kind {
	case 0:
		return "LTick"
	case 1:
		return fmt.Sprintf("LRun %d%%nat %s %s", l.t, outTerm(l.o), hlib.Bool(l.still))
	}
	return "LCancel"
}

type release struct {
	c oc
}

// runCtx collects what the implementation does during one VerifC13Run
type runCtx struct {
	sc   *script
	mode int // 0 sequential, 1 free-running speculative, 2 controlled speculative
	mu   sync.Mutex
	cond *sync.Cond

	threads   map[uint64]int
	traces    [][]ev
	labels    []lbl
	errSpecs  map[error]*outSpec
	pickPos   int
	inPick    int32
	pickRaced int32
	nDone     int // completed attempts (sequential/free: index into outs)
	started   int
	inflight  int
	maxInfl   int
	closed    bool // controlled mode: snapshot taken, ignore late events
	runaway   bool // more than maxExecs attempts: the script is cut short with a context error

	// controlled mode
	blocked  map[int]chan release
	blockGen map[int]int
	markGen  map[int]int
	returned bool

	// free-running mode
	sleeps []time.Duration

	// end-to-end mode: errors are made by the driver from what the scripted node sent
	errSpec    func(error) *outSpec
	viaSession bool
}

// logNode appends an event observed at a scripted node to the (only) execution's log
func (rc *runCtx) logNode(e ev) {
	rc.mu.Lock()
	defer rc.mu.Unlock()
	if len(rc.traces) == 0 {
		rc.traces = append(rc.traces, nil)
	}
	rc.traces[0] = append(rc.traces[0], e)
}

func newRunCtx(sc *script, mode int) *runCtx {
	rc := &runCtx{sc: sc, mode: mode, threads: map[uint64]int{}, errSpecs: map[error]*outSpec{}, blocked: map[int]chan release{},
		blockGen: map[int]int{}, markGen: map[int]int{}}
	rc.cond = sync.NewCond(&rc.mu)
	for _, c := range sc.outs {
		if c.o != nil {
			rc.errSpecs[c.o.err] = c.o
		}
	}
	if sc.dflt.o != nil {
		rc.errSpecs[sc.dflt.o.err] = sc.dflt.o
	}
	return rc
}

func (rc *runCtx) specOf(err error) *outSpec {
	if err == nil {
		return nil
	}
	if rc.errSpec != nil {
		if s := rc.errSpec(err); s != nil {
			return s
		}
	}
	defer func() { recover() }() // unhashable error values cannot be ours
	if s, ok := rc.errSpecs[err]; ok {
		return s
	}
	switch err {
	case context.Canceled:
		return mkOut(0, 0, 0, 0)
	case context.DeadlineExceeded:
		return mkOut(1, 0, 0, 0)
	}
	return nil
}

// thread index of the calling goroutine (must hold rc.mu)
func (rc *runCtx) threadLocked() int {
	g := gid()
	t, ok := rc.threads[g]
	if !ok {
		t = len(rc.threads)
		rc.threads[g] = t
		rc.traces = append(rc.traces, nil)
		if t > 0 {
			rc.labels = append(rc.labels, lbl{kind: 0})
		}
	}
	return t
}

func (rc *runCtx) logEv(e ev) {
	rc.mu.Lock()
	defer rc.mu.Unlock()
	if rc.closed {
		return
	}
	t := rc.threadLocked()
	rc.traces[t] = append(rc.traces[t], e)
	if e.kind == evMark {
		rc.markGen[t]++
		rc.cond.Broadcast()
	}
}

// a policy consultation is a step of the execution
func (rc *runCtx) beforeAsk() {
	rc.mu.Lock()
	defer rc.mu.Unlock()
	if rc.closed {
		return
	}
	t := rc.threadLocked()
	rc.labels = append(rc.labels, lbl{kind: 1, t: t, still: true})
}

func (rc *runCtx) onPick(host int) {
	// the iterator must never be entered by two executions at once (executeQuery wraps it in a mutex)
	if atomic.AddInt32(&rc.inPick, 1) > 1 {
		atomic.StoreInt32(&rc.pickRaced, 1)
	}
	defer atomic.AddInt32(&rc.inPick, -1)
	if rc.mode == 1 {
		runtime.Gosched()
	}
	rc.mu.Lock()
	defer rc.mu.Unlock()
	if !rc.closed {
		t := rc.threadLocked()
		rc.labels = append(rc.labels, lbl{kind: 1, t: t, still: true})
		e := ev{kind: evPick, host: host}
		if host >= 0 && rc.pickPos < len(rc.sc.hosts) {
			e.usable = hostUsable(rc.sc.hosts[rc.pickPos])
		}
		rc.traces[t] = append(rc.traces[t], e)
	}
	rc.pickPos++
}

func (rc *runCtx) onMark(host int, err error) {
	tag := int64(-1)
	if err != nil {
		tag = -7
		if s := rc.specOf(err); s != nil {
			tag = s.tag
		}
	}
	rc.logEv(ev{kind: evMark, host: host, markTag: tag})
}

func (rc *runCtx) nextOutcomeLocked() oc {
	c := rc.sc.dflt
	if rc.nDone < len(rc.sc.outs) {
		c = rc.sc.outs[rc.nDone]
	}
	rc.nDone++
	return c
}

const maxExecs = 64

// runawayMsg: the statement reached servers maxExecs times (the script is cut short there)
func runawayMsg(sc *script) string {
	allowed := "no bound (scripted policy)"
	if th, ok := sc.pol.threshold(); ok {
		a := th - int64(sc.a0)
		if a < 0 {
			a = 0
		}
		runs := int64(1)
		if sc.idem && sc.spk > 0 {
			runs = int64(sc.spk) + 1
		}
		allowed = fmt.Sprintf("at most %d", runs+a)
	} else if sc.pol.kind == 0 {
		allowed = "at most 1 per execution"
	} else {
		allowed = fmt.Sprintf("at most 1 + %d answers", len(sc.pol.answers))
	}
	return fmt.Sprintf("the statement reached servers %d times and was still being retried, policy %s allows %s (Attempts() stuck?); the script was cut short", maxExecs, sc.pol, allowed)
}

func (rc *runCtx) execute(ctx context.Context, host int, cons gocql.Consistency) (error, bool) {
	rc.mu.Lock()
	if rc.started >= maxExecs {
		rc.runaway = true
	}
	if rc.closed || rc.runaway {
		rc.mu.Unlock()
		return context.Canceled, true
	}
	t := rc.threadLocked()
	rc.traces[t] = append(rc.traces[t], ev{kind: evExec, host: host, cons: int64(cons)})
	rc.started++
	rc.inflight++
	if rc.inflight > rc.maxInfl {
		rc.maxInfl = rc.inflight
	}
	var c oc
	switch rc.mode {
	case 0:
		c = rc.nextOutcomeLocked()
	case 1:
		idx := rc.started - 1
		d := time.Duration(0)
		if idx < len(rc.sleeps) {
			d = rc.sleeps[idx]
		}
		rc.mu.Unlock()
		canceled := false
		select {
		case <-time.After(d):
		case <-ctx.Done():
			canceled = true
		}
		rc.mu.Lock()
		if canceled {
			c = oc{mkOut(0, 0, 0, 0), true}
			if ctx.Err() == context.DeadlineExceeded {
				c = oc{mkOut(1, 0, 0, 0), true}
			}
		} else {
			c = rc.nextOutcomeLocked()
		}
	case 2:
		ch := make(chan release, 1)
		rc.blocked[t] = ch
		rc.blockGen[t]++
		rc.cond.Broadcast()
		rc.mu.Unlock()
		rel := <-ch
		rc.mu.Lock()
		c = rel.c
		rc.labels = append(rc.labels, lbl{kind: 1, t: t, o: c.o, still: c.still})
	}
	rc.inflight--
	if !rc.closed {
		rc.traces[t] = append(rc.traces[t], ev{kind: evDone, host: host, o: c.o, still: c.still})
	}
	rc.mu.Unlock()
	if c.o == nil {
		return nil, c.still
	}
	return c.o.err, c.still
}

func (rc *runCtx) retryPolicy() gocql.RetryPolicy { return rc.retryPolicyFor(rc.sc.pol) }

func (rc *runCtx) retryPolicyFor(p polDesc) gocql.RetryPolicy {
	var inner gocql.RetryPolicy
	switch p.kind {
	case 0:
		return nil
	case 1:
		inner = &gocql.SimpleRetryPolicy{NumRetries: p.n}
	case 2:
		inner = &gocql.ExponentialBackoffRetryPolicy{NumRetries: p.n, Min: 1, Max: 1}
	case 3:
		ls := make([]gocql.Consistency, len(p.levels))
		for i, l := range p.levels {
			ls[i] = gocql.Consistency(l)
		}
		inner = &gocql.DowngradingConsistencyRetryPolicy{ConsistencyLevelsToTry: ls}
	default:
		inner = &customPolicy{d: p, specs: rc.specOf}
	}
	return &recPolicy{inner: inner, rc: rc}
}

func (rc *runCtx) shimScript(ctx context.Context, sp gocql.SpeculativeExecutionPolicy) *gocql.VerifC13Script {
	sc := rc.sc
	return &gocql.VerifC13Script{
		Hosts: sc.hosts, Batch: sc.batch, Idempotent: sc.idem, Retry: rc.retryPolicy(), Spec: sp, InitialAttempts: sc.a0,
		Consistency: gocql.Consistency(sc.cons0), Ctx: ctx, Direct: sc.direct,
		Execute: rc.execute, OnPick: rc.onPick, OnMark: rc.onMark,
	}
}

// ---- result classification -------------------------------------------------------------------------

// kind: "iter" (Iter of an attempt), "last", "noconn", "unknown", "ctx", "foreign"
type resView struct {
	kind string
	host int
	o    *outSpec // iter/last: nil = success
}

func (rc *runCtx) classify(r gocql.VerifC13Result) resView {
	if r.Err == nil {
		if r.Host >= 0 {
			return resView{kind: "iter", host: r.Host}
		}
		return resView{kind: "foreign"}
	}
	if r.Host >= 0 {
		if s := rc.specOf(r.Err); s != nil {
			return resView{kind: "iter", host: r.Host, o: s}
		}
		return resView{kind: "foreign", host: r.Host}
	}
	switch r.Err {
	case gocql.ErrNoConnections:
		return resView{kind: "noconn"}
	case gocql.ErrUnknownRetryType:
		return resView{kind: "unknown"}
	case context.Canceled, context.DeadlineExceeded:
		return resView{kind: "ctx"}
	}
	if s := rc.specOf(r.Err); s != nil {
		return resView{kind: "last", o: s}
	}
	return resView{kind: "foreign"}
}

func (v resView) resultTerm() string {
	switch v.kind {
	case "iter":
		return fmt.Sprintf("(RIter %d %s)", v.host, outTerm(v.o))
	case "last":
		return fmt.Sprintf("(RLast (%s, %s))", v.o.errTerm(), hlib.Z(v.o.tag))
	case "noconn":
		return "RNoConn"
	case "unknown":
		return "RUnknown"
	}
	return "RUnknown"
}

func (v resView) String() string {
	if v.kind == "iter" || v.kind == "last" {
		return v.kind + " " + v.resultTerm()
	}
	return v.kind
}

func sameOut(a, b *outSpec) bool {
	if a == nil || b == nil {
		return a == nil && b == nil
	}
	return a.kind == b.kind && a.a == b.a && a.b == b.b && a.tag == b.tag
}

func sameRes(a, b resView) bool {
	if a.kind != b.kind {
		return false
	}
	switch a.kind {
	case "iter":
		return a.host == b.host && sameOut(a.o, b.o)
	case "last":
		return sameOut(a.o, b.o)
	}
	return true
}

// ---- the contract recogniser (C13/Spec.v mon_step), on the implementation's event log --------------

const (
	qPick = iota
	qExec
	qFlight
	qMark
	qPost
	qAsked
	qEnd
)

type mst struct {
	q     int
	h     int
	o     *outSpec
	still bool
}

func monStep(hasPolicy bool, s mst, e ev) (mst, bool) {
	switch s.q {
	case qPick:
		if e.kind != evPick {
			return s, false
		}
		if e.host < 0 {
			return mst{q: qEnd}, true
		}
		if e.usable {
			return mst{q: qExec, h: e.host}, true
		}
		return mst{q: qPick}, true
	case qExec:
		if e.kind == evExec && e.host == s.h {
			return mst{q: qFlight, h: s.h}, true
		}
	case qFlight:
		if e.kind == evDone && e.host == s.h {
			return mst{q: qMark, h: s.h, o: e.o, still: e.still}, true
		}
	case qMark:
		if e.kind != evMark || e.host != s.h {
			return s, false
		}
		if s.o == nil || s.o.logical() {
			if e.markTag == -1 {
				return mst{q: qEnd}, true
			}
			return s, false
		}
		if e.markTag != s.o.tag {
			return s, false
		}
		if hasPolicy {
			return mst{q: qPost, h: s.h, o: s.o, still: s.still}, true
		}
		return mst{q: qEnd}, true
	case qPost:
		if e.kind == evAsk {
			if e.ans {
				return mst{q: qAsked, h: s.h, o: s.o, still: s.still}, true
			}
			return mst{q: qEnd}, true
		}
	case qAsked:
		if e.kind == evType && e.tag == s.o.tag {
			switch e.rt {
			case 0: // documented: Retry = retry on the same connection/host
				if s.still {
					return mst{q: qExec, h: s.h}, true
				}
				return mst{q: qPick}, true
			case 1: // RetryNextHost
				return mst{q: qPick}, true
			}
			return mst{q: qEnd}, true
		}
	}
	return s, false
}

// monRun returns the final state, and the index of the first offending event (-1: none)
func monRun(hasPolicy bool, tr []ev) (mst, int) {
	s := mst{q: qPick}
	for i, e := range tr {
		n, ok := monStep(hasPolicy, s, e)
		if !ok {
			return s, i
		}
		s = n
	}
	return s, -1
}

func countExec(tr []ev) int {
	n := 0
	for _, e := range tr {
		if e.kind == evExec {
			n++
		}
	}
	return n
}

// the result a complete log entitles the caller to (C13/Spec.v result_ok), nil if the log is not complete
func expectedResult(hasPolicy bool, tr []ev) *resView {
	if len(tr) == 0 {
		return nil
	}
	if st, bad := monRun(hasPolicy, tr); bad >= 0 || st.q != qEnd {
		return nil
	}
	var lastDone *ev
	for i := range tr {
		if tr[i].kind == evDone {
			lastDone = &tr[i]
		}
	}
	last := tr[len(tr)-1]
	switch last.kind {
	case evPick:
		if last.host >= 0 {
			return nil
		}
		if lastDone == nil {
			return &resView{kind: "noconn"}
		}
		return &resView{kind: "last", o: lastDone.o}
	case evMark, evAsk:
		if lastDone == nil {
			return nil
		}
		return &resView{kind: "iter", host: lastDone.host, o: lastDone.o}
	case evType:
		if lastDone == nil {
			return nil
		}
		if last.rt == 2 || last.rt == 3 {
			return &resView{kind: "iter", host: lastDone.host, o: lastDone.o}
		}
		if last.rt == 0 || last.rt == 1 {
			return nil
		}
		return &resView{kind: "unknown"}
	}
	return nil
}

// ---- generators -----------------------------------------------------------------------------------

type gen struct {
	r *hlib.Rng
}

func (g *gen) hosts(n int, badPct int) []gocql.VerifC13Host {
	hs := make([]gocql.VerifC13Host, n)
	for i := range hs {
		h := gocql.VerifC13Host{ID: i + 1}
		if g.r.Chance(8) && i > 0 {
			h.ID = g.r.Intn(i) + 1 // the iterator offers a host again
		}
		if g.r.Chance(badPct) {
			switch g.r.Intn(4) {
			case 0:
				h.InfoNil = true
			case 1:
				h.Down = true
			case 2:
				h.NoPool = true
			default:
				h.NoConn = true
			}
		}
		hs[i] = h
	}
	return hs
}

func (g *gen) outcome(uniq int64, successPct int) oc {
	r := g.r
	still := !r.Chance(12)
	if r.Chance(successPct) {
		return oc{nil, still}
	}
	var o *outSpec
	switch x := r.Intn(100); {
	case x < 12:
		o = mkOut(r.Intn(3), 0, 0, uniq)
	case x < 24:
		o = mkOut(3, r.Pick(0, 1, 2, -1), 0, uniq)
	case x < 44:
		o = mkOut(4, int64(r.Intn(len(writeTypes))), r.Pick(0, 1, 2, -1), uniq)
	case x < 54:
		o = mkOut(5, 0, 0, uniq)
	default:
		o = mkOut(6, int64(r.Intn(nOtherClasses)), 0, uniq)
	}
	return oc{o, still}
}

func (g *gen) outcomes(n int, successPct int) []oc {
	cs := make([]oc, n)
	for i := range cs {
		cs[i] = g.outcome(int64(i+1), successPct)
	}
	return cs
}

func (g *gen) policy() polDesc {
	r := g.r
	switch x := r.Intn(100); {
	case x < 10:
		return polDesc{kind: 0}
	case x < 35:
		return polDesc{kind: 1, n: int(r.Pick(-1, 0, 1, 2, 3, 5))}
	case x < 47:
		return polDesc{kind: 2, n: int(r.Pick(-1, 0, 1, 2, 4))}
	case x < 72:
		n := r.Intn(5)
		ls := make([]int64, n)
		for i := range ls {
			ls[i] = r.Pick(1, 2, 3, 4, 6, 10)
		}
		return polDesc{kind: 3, levels: ls}
	}
	na := r.Intn(7)
	as := make([]ans, na)
	for i := range as {
		as[i] = ans{yes: !r.Chance(15)}
		if r.Chance(25) {
			as[i].set, as[i].cons = true, r.Pick(0, 1, 4, 5, 6, 9)
		}
	}
	nt := r.Intn(5)
	ts := make([]int64, nt)
	for i := range ts {
		if r.Chance(12) {
			ts[i] = r.Pick(4, 7, 255, 65535)
		} else {
			ts[i] = int64(r.Intn(4))
		}
	}
	return polDesc{kind: 4, answers: as, types: ts}
}

func (g *gen) randomScript() *script {
	r := g.r
	sc := &script{}
	sc.hosts = g.hosts(r.Intn(7), int(r.Pick(0, 10, 25, 60)))
	sc.pol = g.policy()
	sc.outs = g.outcomes(r.Intn(9), int(r.Pick(0, 10, 25)))
	sc.dflt = g.outcome(500, int(r.Pick(0, 30, 100)))
	sc.a0 = int(r.Pick(0, 0, 0, 0, 1, 2, 5, -1))
	sc.cons0 = r.Pick(1, 4, 6, 10)
	sc.batch = r.Chance(30)
	return sc
}

// ---- running and checking -----------------------------------------------------------------------

type harness struct {
	o *hlib.Out
	g *gen
}

func scheduleTerm(ls []lbl) string {
	ss := make([]string, len(ls))
	for i, l := range ls {
		ss[i] = l.term()
	}
	return hlib.List(ss)
}

// knownRetryFinding: the narrow trigger of the open finding "non-idempotent-retried":
// the query is not idempotent, a retry policy is installed, an attempt failed with a retryable
// error, the policy answered yes and chose Retry or RetryNextHost, and a second attempt was sent.
func knownRetryTrigger(sc *script, tr []ev) bool {
	if sc.idem || sc.pol.kind == 0 || countExec(tr) < 2 {
		return false
	}
	for i, e := range tr {
		if e.kind == evType && (e.rt == 0 || e.rt == 1) && i > 0 && tr[i-1].kind == evAsk && tr[i-1].ans {
			return true
		}
	}
	return false
}

// docDowngrading: the decisions the documentation comment of DowngradingConsistencyRetryPolicy states
// (C13/Spec.v doc_downgrading); -1 where it is silent
func docDowngrading(o *outSpec) int64 {
	switch o.kind {
	case 5:
		return 0 // read timeout: retried
	case 3:
		if o.a > 0 {
			return 0 // unavailable with a live replica: retried
		}
	case 4:
		if o.b > 0 {
			if o.a == 3 {
				return 0 // UNLOGGED_BATCH acknowledged by a replica: retried
			}
			if o.a <= 2 {
				return 2 // SIMPLE / BATCH / COUNTER acknowledged by a replica: ignored
			}
		}
	}
	return -1
}

// monitors common to every execution log of one run of do
func (h *harness) checkRunLog(idx int, sc *script, tr []ev, what string) {
	o := h.o
	st, bad := monRun(sc.pol.kind != 0, tr)
	if bad >= 0 {
		o.Violate(idx, "contract", "", fmt.Sprintf("%s: event %d (%s) is not allowed by the retry contract in state %d; log %v", what, bad, tr[bad], st.q, tr), sc.describe())
	}
	th, hasTh := sc.pol.threshold()
	for i, e := range tr {
		// the built-in policies answer yes exactly while the attempt count is within NumRetries / the level list
		if e.kind == evAsk && hasTh && e.ans != (e.att <= th) {
			o.Violate(idx, "policy-answer", "", fmt.Sprintf("%s: policy %s answered %v at Attempts() = %d", what, sc.pol, e.ans, e.att), sc.describe())
		}
		if e.kind == evType && sc.pol.kind == 3 && e.o != nil {
			if want := docDowngrading(e.o); want >= 0 && want != e.rt {
				o.Violate(idx, "downgrading-table", "", fmt.Sprintf("%s: DowngradingConsistencyRetryPolicy classified %s as %d, documented %d", what, e.o.errTerm(), e.rt, want), sc.describe())
			}
		}
		if e.kind == evType && (sc.pol.kind == 1 || sc.pol.kind == 2) && e.rt != 1 {
			o.Violate(idx, "policy-answer", "", fmt.Sprintf("%s: policy %s chose retry type %d, not RetryNextHost", what, sc.pol, e.rt), sc.describe())
		}
		_ = i
	}
}

// sequential only: the downgrading policy's i-th retry runs at the i-th listed level
func (h *harness) checkLevels(idx int, sc *script, tr []ev) {
	if sc.pol.kind != 3 {
		return
	}
	want := int64(-1)
	for _, e := range tr {
		if e.kind == evAsk && e.ans && e.att > 0 && e.att <= int64(len(sc.pol.levels)) {
			want = sc.pol.levels[e.att-1]
		}
		if e.kind == evExec && want >= 0 && e.cons != want {
			h.o.Violate(idx, "downgrading-level", "", fmt.Sprintf("retry sent at consistency %d, the policy's next level is %d; log %v", e.cons, want, tr), sc.describe())
		}
	}
}

func (h *harness) runSeq(sc *script, kind string) {
	o := h.o
	h.realise(sc, false, false, false)
	rc := newRunCtx(sc, 0)
	var sp gocql.SpeculativeExecutionPolicy
	if sc.spk != 0 || o.Rng.Chance(50) {
		sp = &specPolicy{k: sc.spk, delay: 50 * time.Microsecond}
	}
	caller := gid()
	var res gocql.VerifC13Result
	var pan interface{}
	func() {
		defer func() { pan = recover() }()
		res = gocql.VerifC13Run2(rc.shimScript(nil, sp), sc.src.shim())
	}()
	h.evalSeq(sc, rc, res, pan, caller, kind)
}

// evalSeq emits the CSeq case for one sequential execution and runs the monitors on what was observed
func (h *harness) evalSeq(sc *script, rc *runCtx, res gocql.VerifC13Result, pan interface{}, caller uint64, kind string) {
	o := h.o
	rc.mu.Lock()
	defer rc.mu.Unlock()
	var tr []ev
	if len(rc.traces) > 0 {
		tr = rc.traces[0]
	}
	view := rc.classify(res)
	nontrivial := countExec(tr) >= 2 || (countExec(tr) == 1 && len(tr) > 4)
	term := fmt.Sprintf("CSeq %s %s %s %s %s %s %s %s %s %s %s %s %s", hlib.Bool(sc.direct), hostsTerm(sc.hosts), sc.polTerm(), sc.src.term(),
		hlib.Z(int64(sc.spk)), hlib.Z(int64(sc.a0)), hlib.Z(sc.cons0), outsTerm(sc.outs), ocTerm(sc.dflt), traceTerm(tr), view.resultTerm(),
		hlib.Z(int64(res.Attempts)), hlib.Z(int64(res.Consistency)))
	idx := o.Case(kind, nontrivial, term)
	in := sc.describe()
	if pan != nil {
		o.Violate(idx, "panic", "", fmt.Sprintf("executor panicked: %v", pan), in)
		return
	}
	if rc.runaway {
		o.Violate(idx, "budget", "", runawayMsg(sc), in)
		return
	}
	// exactly one result
	if res.ExecErr != nil || view.kind == "foreign" || view.kind == "ctx" {
		o.Violate(idx, "one-result", "", fmt.Sprintf("unexpected result err=%v host=%d execErr=%v", res.Err, res.Host, res.ExecErr), in)
	}
	// sequential executions run on the caller's goroutine, one attempt at a time
	_, onCaller := rc.threads[caller]
	if len(rc.threads) > 1 || rc.maxInfl > 1 || (len(rc.threads) == 1 && !onCaller) {
		mk := "speculated-without-policy"
		if !sc.idem {
			mk = "non-idempotent-speculated"
		}
		o.Violate(idx, mk, "", fmt.Sprintf("the query was executed on %d goroutine(s) other than the caller's, %d attempts in flight at once", len(rc.threads), rc.maxInfl), in)
	}
	h.checkRunLog(idx, sc, tr, "sequential")
	h.checkLevels(idx, sc, tr)
	// the caller's result is the last attempt's
	if exp := expectedResult(sc.pol.kind != 0, tr); exp == nil || !sameRes(*exp, view) {
		o.Violate(idx, "last-error", "", fmt.Sprintf("result %v but the log entitles the caller to %v; log %v", view, exp, tr), in)
	}
	// budgets
	n := countExec(tr)
	if sc.pol.kind == 0 && n > 1 {
		o.Violate(idx, "once-without-policy", "", fmt.Sprintf("%d attempts without a retry policy", n), in)
	}
	if th, ok := sc.pol.threshold(); ok {
		allow := th - int64(sc.a0)
		if allow < 0 {
			allow = 0
		}
		if int64(n) > 1+allow {
			o.Violate(idx, "budget", "", fmt.Sprintf("%d attempts, policy %s allows %d after %d earlier attempts", n, sc.pol, 1+allow, sc.a0), in)
		}
	}
	if sc.pol.kind == 4 {
		yes := 0
		for _, e := range tr {
			if e.kind == evAsk && e.ans {
				yes++
			}
		}
		if n > 1+yes {
			o.Violate(idx, "budget", "", fmt.Sprintf("%d attempts but the policy said yes %d times", n, yes), in)
		}
	}
	// the attempt counter the policies consult
	if res.Attempts != sc.a0+n {
		o.Violate(idx, "attempt-metrics", "", fmt.Sprintf("q.Attempts() = %d after %d attempts starting from %d", res.Attempts, n, sc.a0), in)
	}
	done := 0
	for _, e := range tr {
		if e.kind == evDone {
			done++
		}
		if e.kind == evAsk && e.att != int64(sc.a0+done) {
			o.Violate(idx, "attempt-metrics", "", fmt.Sprintf("policy consulted with Attempts() = %d after %d attempts starting from %d", e.att, done, sc.a0), in)
		}
	}
	// documentation: a query not marked idempotent is never retried
	if !sc.idem && n > 1 {
		fid := ""
		if knownRetryTrigger(sc, tr) {
			fid = "non-idempotent-retried"
		}
		o.Violate(idx, "non-idempotent-retried", fid, fmt.Sprintf("non-idempotent query executed %d times (hosts %v)", n, execHosts(tr)), in)
	}
}

func execHosts(tr []ev) []int {
	var hs []int
	for _, e := range tr {
		if e.kind == evExec {
			hs = append(hs, e.host)
		}
	}
	return hs
}

// free-running speculative execution: timers and sleeps, monitors only
func (h *harness) runFree(sc *script, cancelAfter time.Duration) {
	o := h.o
	h.realise(sc, false, false, false)
	rc := newRunCtx(sc, 1)
	rc.sleeps = make([]time.Duration, 24)
	for i := range rc.sleeps {
		rc.sleeps[i] = time.Duration(o.Rng.Intn(400)) * time.Microsecond
	}
	delay := time.Duration(20+o.Rng.Intn(300)) * time.Microsecond
	sp := &specPolicy{k: sc.spk, delay: delay}
	var ctx context.Context
	cancel := func() {}
	if cancelAfter > 0 {
		ctx, cancel = context.WithTimeout(context.Background(), cancelAfter)
	}
	defer cancel()
	var res gocql.VerifC13Result
	var pan interface{}
	func() {
		defer func() { pan = recover() }()
		res = gocql.VerifC13Run2(rc.shimScript(ctx, sp), sc.src.shim())
	}()
	// snapshot at return: the winner's log is complete by now
	rc.mu.Lock()
	snap := make([][]ev, len(rc.traces))
	for i := range rc.traces {
		snap[i] = append([]ev(nil), rc.traces[i]...)
	}
	rc.mu.Unlock()
	// drain: every attempt still in flight sees its context cancelled
	deadline := time.Now().Add(3 * time.Second)
	quiet := 0
	for time.Now().Before(deadline) && quiet < 3 {
		time.Sleep(300 * time.Microsecond)
		rc.mu.Lock()
		if rc.inflight == 0 {
			quiet++
		} else {
			quiet = 0
		}
		rc.mu.Unlock()
	}
	rc.mu.Lock()
	defer rc.mu.Unlock()
	o.Count("speculative-free")
	in := sc.describe()
	in["delay_us"] = delay.Microseconds()
	idx := -1
	if pan != nil {
		o.Violate(idx, "panic", "", fmt.Sprintf("executor panicked: %v", pan), in)
		return
	}
	if rc.runaway {
		o.Violate(idx, "budget", "", runawayMsg(sc), in)
		return
	}
	view := rc.classify(res)
	if res.ExecErr != nil || view.kind == "foreign" || (view.kind == "ctx" && cancelAfter == 0) {
		o.Violate(idx, "one-result", "", fmt.Sprintf("unexpected result err=%v host=%d execErr=%v", res.Err, res.Host, res.ExecErr), in)
	}
	if atomic.LoadInt32(&rc.pickRaced) != 0 {
		o.Violate(idx, "iterator-concurrent", "", "the host iterator was entered by two executions at once", in)
	}
	runs := sc.spk + 1
	if sc.spk < 0 {
		runs = 1
	}
	if len(rc.threads) > runs {
		o.Violate(idx, "speculation-budget", "", fmt.Sprintf("%d executions for SpeculativeExecutionPolicy.Attempts() = %d", len(rc.threads), sc.spk), in)
	}
	total := 0
	for t, tr := range rc.traces {
		h.checkRunLog(idx, sc, tr, fmt.Sprintf("execution %d", t))
		total += countExec(tr)
	}
	if th, ok := sc.pol.threshold(); ok {
		allow := th - int64(sc.a0)
		if allow < 0 {
			allow = 0
		}
		if int64(total) > int64(runs)+allow {
			o.Violate(idx, "budget", "", fmt.Sprintf("%d attempts, %d executions with policy %s allow %d after %d earlier attempts", total, runs, sc.pol, int64(runs)+allow, sc.a0), in)
		}
	}
	if sc.pol.kind == 0 && total > runs {
		o.Violate(idx, "once-without-policy", "", fmt.Sprintf("%d attempts by %d executions without a retry policy", total, runs), in)
	}
	// the result is that of an execution that had completed when executeQuery returned
	if view.kind != "ctx" {
		found := false
		for _, tr := range snap {
			if exp := expectedResult(sc.pol.kind != 0, tr); exp != nil && sameRes(*exp, view) {
				found = true
			}
		}
		if !found {
			o.Violate(idx, "last-error", "", fmt.Sprintf("result %v is not the result of any execution that had completed; logs %v", view, snap), in)
		}
	}
	// the counter is incremented just after the scripted attempt returns: give a straggler a moment
	got := res.AttemptsNow()
	for try := 0; try < 200 && got != sc.a0+total; try++ {
		rc.mu.Unlock()
		time.Sleep(250 * time.Microsecond)
		rc.mu.Lock()
		total = 0
		for _, tr := range rc.traces {
			total += countExec(tr)
		}
		got = res.AttemptsNow()
	}
	if got != sc.a0+total {
		o.Violate(idx, "attempt-metrics", "", fmt.Sprintf("q.Attempts() = %d after %d attempts starting from %d", got, total, sc.a0), in)
	}
}

// controlled speculative execution: every scripted attempt blocks until the harness releases it, so
// the interleaving is the harness's choice and the observed order of steps is a label sequence of
// the model's transition system.
// launchFn starts the execution under control: through the shim (nil) or through a real session
type launchFn func(ctx context.Context, rc *runCtx, sp gocql.SpeculativeExecutionPolicy) gocql.VerifC13Result

func (h *harness) runControlled(sc *script, sched []int, ticks bool, cancelAt int, kind string) {
	h.realise(sc, false, false, false)
	h.runControlledWith(sc, sched, ticks, cancelAt, kind, nil)
}

func (h *harness) runControlledWith(sc *script, sched []int, ticks bool, cancelAt int, kind string, launch launchFn) {
	o := h.o
	rc := newRunCtx(sc, 2)
	rc.viaSession = launch != nil
	delay := 500 * time.Microsecond
	if !ticks {
		delay = time.Hour
	}
	sp := &specPolicy{k: sc.spk, delay: delay}
	ctx, cancel := context.WithCancel(context.WithValue(context.Background(), ctxKey{}, 1))
	defer cancel()
	var res gocql.VerifC13Result
	var pan interface{}
	go func() {
		defer func() {
			pan = recover()
			rc.mu.Lock()
			rc.returned = true
			rc.cond.Broadcast()
			rc.mu.Unlock()
		}()
		if launch != nil {
			res = launch(ctx, rc, sp)
		} else {
			res = gocql.VerifC13Run2(rc.shimScript(ctx, sp), sc.src.shim())
		}
	}()
	stuck := false
	watchdog := time.AfterFunc(10*time.Second, func() {
		rc.mu.Lock()
		stuck = true
		rc.cond.Broadcast()
		rc.mu.Unlock()
	})
	defer watchdog.Stop()
	want := 1
	if ticks && sc.spk > 0 {
		want = sc.spk + 1
	}
	rc.mu.Lock()
	// phase 1: every execution that will be launched is blocked in its first attempt (or the query is over)
	for !rc.returned && !stuck && len(rc.blocked) < want {
		rc.cond.Wait()
	}
	// phase 2: release one attempt at a time
	canceled := false
	lastT := -1 // the execution whose attempt was released last: if the query returns then, it is the first to complete
	for step := 0; !rc.returned && !stuck; step++ {
		if step == cancelAt {
			rc.labels = append(rc.labels, lbl{kind: 2})
			canceled = true
			rc.mu.Unlock()
			cancel()
			rc.mu.Lock()
			for !rc.returned && !stuck {
				rc.cond.Wait()
			}
			break
		}
		var bs []int
		for t := range rc.blocked {
			bs = append(bs, t)
		}
		if len(bs) == 0 {
			rc.cond.Wait()
			continue
		}
		sort.Ints(bs)
		pick := 0
		if step < len(sched) {
			pick = sched[step]
		}
		t := bs[pick%len(bs)]
		lastT = t
		ch := rc.blocked[t]
		delete(rc.blocked, t)
		gen := rc.blockGen[t]
		ch <- release{rc.nextOutcomeLocked()}
		for !rc.returned && !stuck && rc.blockGen[t] == gen {
			rc.cond.Wait()
		}
	}
	rc.labels = append(rc.labels, lbl{kind: 3})
	// phase 3: the context is cancelled now; the remaining attempts end with its error, one at a time;
	// executions that were still looking for a host finish on their own; wait until every log is complete
	for !stuck {
		if len(rc.blocked) > 0 {
			var bs []int
			for t := range rc.blocked {
				bs = append(bs, t)
			}
			sort.Ints(bs)
			t := bs[0]
			ch := rc.blocked[t]
			delete(rc.blocked, t)
			mg := rc.markGen[t]
			ch <- release{oc{mkOut(0, 0, 0, 0), true}}
			// through a real session the connection has already given the attempt up when the context was
			// cancelled (its Mark is logged then); through the shim the attempt ends now
			for !stuck && !rc.viaSession && rc.markGen[t] == mg {
				rc.cond.Wait()
			}
			continue
		}
		all := true
		for _, tr := range rc.traces {
			if st, bad := monRun(sc.pol.kind != 0, tr); bad < 0 && st.q != qEnd {
				all = false
			}
		}
		if all {
			break
		}
		rc.mu.Unlock()
		time.Sleep(50 * time.Microsecond)
		rc.mu.Lock()
	}
	rc.closed = true
	defer rc.mu.Unlock()
	in := sc.describe()
	in["schedule"] = sched
	in["ticks"] = ticks
	in["cancel_at"] = cancelAt
	if rc.runaway {
		o.Count(kind + "-runaway")
		o.Violate(-1, "budget", "", runawayMsg(sc), in)
		return
	}
	if stuck || pan != nil {
		o.Count(kind + "-stuck")
		o.Violate(-1, "controlled-run-stuck", "", fmt.Sprintf("controlled execution did not finish (panic=%v)", pan), in)
		return
	}
	// label sequence: ticks observed late (the goroutine had been launched before executeQuery returned) are moved before the return
	var ls1, ls2 []lbl
	seenRet := false
	for _, l := range rc.labels {
		switch {
		case l.kind == 3:
			seenRet = true
		case !seenRet || l.kind == 0:
			ls1 = append(ls1, l)
		default:
			ls2 = append(ls2, l)
		}
	}
	view := rc.classify(res)
	ret := "MCtx"
	if view.kind != "ctx" {
		ret = fmt.Sprintf("(MIter %s)", view.resultTerm())
	}
	runs := make([]string, len(rc.traces))
	total := 0
	for i, tr := range rc.traces {
		r := "None"
		if exp := expectedResult(sc.pol.kind != 0, tr); exp != nil {
			r = hlib.Some(exp.resultTerm())
		}
		runs[i] = hlib.Pair(traceTerm(tr), r)
		total += countExec(tr)
	}
	att := res.AttemptsNow()
	term := fmt.Sprintf("CSpec %s %s %s %s %s %s %s %s %s %s %s", hostsTerm(sc.hosts), sc.polTerm(), sc.src.term(), hlib.Z(int64(sc.spk)), hlib.Z(int64(sc.a0)), hlib.Z(sc.cons0),
		scheduleTerm(ls1), ret, scheduleTerm(ls2), hlib.List(runs), hlib.Z(int64(att)))
	idx := o.Case(kind, total >= 2, term)
	// monitors
	if res.ExecErr != nil || view.kind == "foreign" || (view.kind == "ctx" && !canceled) {
		o.Violate(idx, "one-result", "", fmt.Sprintf("unexpected result err=%v host=%d execErr=%v", res.Err, res.Host, res.ExecErr), in)
	}
	nruns := 1
	if sc.spk > 0 {
		nruns = sc.spk + 1
	}
	if len(rc.threads) > nruns {
		o.Violate(idx, "speculation-budget", "", fmt.Sprintf("%d executions for SpeculativeExecutionPolicy.Attempts() = %d", len(rc.threads), sc.spk), in)
	}
	for t, tr := range rc.traces {
		h.checkRunLog(idx, sc, tr, fmt.Sprintf("execution %d", t))
	}
	if th, ok := sc.pol.threshold(); ok {
		allow := th - int64(sc.a0)
		if allow < 0 {
			allow = 0
		}
		if int64(total) > int64(nruns)+allow {
			o.Violate(idx, "budget", "", fmt.Sprintf("%d attempts, %d executions with policy %s allow %d after %d earlier attempts", total, nruns, sc.pol, int64(nruns)+allow, sc.a0), in)
		}
	}
	if sc.pol.kind == 0 && total > nruns {
		o.Violate(idx, "once-without-policy", "", fmt.Sprintf("%d attempts by %d executions without a retry policy", total, nruns), in)
	}
	if view.kind != "ctx" {
		found := false
		for _, tr := range rc.traces {
			if exp := expectedResult(sc.pol.kind != 0, tr); exp != nil && sameRes(*exp, view) {
				found = true
			}
		}
		if !found {
			o.Violate(idx, "last-error", "", fmt.Sprintf("result %v is not the result of any execution; logs %v", view, rc.traces), in)
		}
	}
	if att != sc.a0+total {
		o.Violate(idx, "attempt-metrics", "", fmt.Sprintf("q.Attempts() = %d after %d attempts starting from %d", att, total, sc.a0), in)
	}
	// every other execution was still waiting for its attempt when the query returned: the result must be
	// that of the execution whose attempt completed last
	if !canceled && lastT >= 0 && lastT < len(rc.traces) && view.kind != "ctx" {
		if exp := expectedResult(sc.pol.kind != 0, rc.traces[lastT]); exp == nil || !sameRes(*exp, view) {
			o.Violate(idx, "first-to-complete", "", fmt.Sprintf("result %v, but the first execution to complete was %d with %v; logs %v", view, lastT, exp, rc.traces), in)
		}
	}
}

func main() {
	o := hlib.Init("C13")
	h := &harness{o: o, g: &gen{r: o.Rng}}
	r := o.Rng
	g := h.g
	o.Rule = "scripts: host sequences (0..6 offers; down / no pool / no connection / nil Info / repeated hosts) x retry policy (none, simple, exponential, " +
		"downgrading, scripted decision tables incl. unknown retry types) x idempotent flag x speculative attempts x earlier attempts x per-attempt outcomes " +
		"(success, cancelled, deadline, not found, unavailable, write timeout by write type, read timeout, 12 other error classes; host lost after the attempt); " +
		"distinct = distinct Coq case term; non-trivial = at least two attempts were sent, or one attempt followed by a policy consultation"
	n := 220 * o.Scale

	// 1. systematic budget boundaries: threshold policies x earlier attempts x number of (failing) hosts
	for _, pk := range []int{1, 2, 3} {
		for nn := -1; nn <= 3; nn++ {
			if pk == 3 && nn < 0 {
				continue
			}
			for _, a0 := range []int{0, 1, nn, nn + 1} {
				for nh := 0; nh <= 5; nh++ {
					if o.Scale == 1 && !o.Search && (nh == 2 || nh == 4) && a0 != 0 {
						continue
					}
					sc := &script{hosts: g.hosts(nh, 0), a0: a0, cons0: 4, idem: true, dflt: oc{mkOut(6, int64(r.Intn(nOtherClasses)), 0, 500), true}}
					sc.pol = polDesc{kind: pk, n: nn}
					if pk == 3 {
						sc.pol = polDesc{kind: 3, levels: []int64{6, 1, 10}[:nn]}
						// read timeouts are retried on the same host by this policy
						sc.dflt = oc{mkOut(5, 0, 0, 500), true}
						if nh%2 == 1 {
							sc.dflt = oc{mkOut(6, 0, 0, 500), true}
						}
					}
					sc.idem = nh%2 == 0
					sc.direct = !sc.idem && nh == 3
					h.runSeq(sc, "seq-budget-boundary")
				}
			}
		}
	}
	// 2. systematic decision table of the downgrading policy: every error kind x write type x acknowledgements
	for _, alive := range []int64{0, 1} {
		for wt := 0; wt < len(writeTypes); wt++ {
			for _, rec := range []int64{0, 1} {
				for _, kind := range []int{3, 4, 5, 6, 0, 2} {
					if kind != 4 && (wt > 0 || rec > 0) {
						continue
					}
					if kind != 3 && alive > 0 && kind != 4 {
						continue
					}
					if kind == 4 && alive > 0 {
						continue
					}
					a, b := alive, int64(0)
					if kind == 4 {
						a, b = int64(wt), rec
					}
					sc := &script{hosts: g.hosts(3, 0), cons0: 4, idem: true, pol: polDesc{kind: 3, levels: []int64{6, 1}},
						outs: []oc{{mkOut(kind, a, b, 1), true}}, dflt: oc{nil, true}}
					h.runSeq(sc, "seq-downgrading-table")
				}
			}
		}
	}
	// 2b. systematic idempotence gate: the non-idempotent entry at every position of batches of 1..5 entries
	//     (made with Query / Bind, flag assigned or left at its default), queries under both cluster defaults
	//     with and without an override; a speculative policy is installed, no retry policy, first attempt succeeds
	for size := 1; size <= 5; size++ {
		for pos := 0; pos <= size; pos++ { // pos == size: every entry idempotent
			for variant := 0; variant < 2; variant++ {
				src := &idemSrc{batch: true, sessionBatch: variant == 1, clusterDefault: variant == 1}
				for i := 0; i < size; i++ {
					e := gocql.VerifC13Entry{Bind: (i+variant)%3 == 0, Set: true, Idempotent: i != pos}
					if i == pos && variant == 1 {
						e.Set = false
					}
					src.entries = append(src.entries, e)
				}
				sc := &script{hosts: g.hosts(4, 0), cons0: 4, batch: true, src: src, dflt: oc{nil, true}, spk: int(r.Pick(1, 3))}
				if pos == size {
					sc.spk = 0
				}
				h.runSeq(sc, "seq-idempotence-gate")
			}
		}
	}
	for _, d := range []bool{false, true} {
		for ov := 0; ov < 3; ov++ {
			src := &idemSrc{clusterDefault: d}
			if ov > 0 {
				v := ov == 2
				src.override = &v
			}
			sc := &script{hosts: g.hosts(4, 0), cons0: 4, src: src, dflt: oc{nil, true}, spk: 2}
			if src.spec() {
				sc.spk = 0
			}
			h.runSeq(sc, "seq-idempotence-gate")
		}
	}
	// 3. structured random sequential executions (through executeQuery: non-idempotent with any
	//    speculative policy, or idempotent without speculation; and do called directly)
	for i := 0; i < 3*n; i++ {
		sc := g.randomScript()
		switch r.Intn(5) {
		case 0:
			sc.idem, sc.spk = true, 0
		case 1:
			sc.direct, sc.idem, sc.spk = true, r.Bool(), int(r.Pick(0, 1, 3))
		default:
			sc.idem, sc.spk = false, int(r.Pick(0, 1, 2, 5, -1))
		}
		h.runSeq(sc, "seq-random")
	}
	// 4. malformed / hostile: policies answering only unknown retry types, hosts that are never usable,
	//    iterators offering the same host repeatedly, negative counters
	for i := 0; i < n/2; i++ {
		sc := g.randomScript()
		switch r.Intn(5) {
		case 0:
			sc.pol = polDesc{kind: 4, answers: []ans{{yes: true}, {yes: true}, {yes: true}}, types: []int64{r.Pick(4, 5, 100, 65535)}}
		case 1:
			sc.hosts = g.hosts(r.Intn(6), 100)
		case 2:
			for j := range sc.hosts {
				sc.hosts[j].ID = 1
			}
		case 3:
			sc.a0 = int(r.Pick(-3, -1, 100))
			sc.pol = polDesc{kind: int(r.Pick(1, 2, 3)), n: int(r.Pick(-2, 0, 2)), levels: []int64{1, 1}}
		default:
			sc.pol = polDesc{kind: 3, levels: nil}
		}
		sc.idem = r.Chance(30)
		if sc.idem {
			sc.spk = 0
		} else {
			sc.spk = int(r.Pick(0, 2))
		}
		h.runSeq(sc, "seq-malformed")
	}
	// 5. controlled speculative executions
	for i := 0; i < n; i++ {
		sc := g.randomScript()
		sc.idem = true
		sc.spk = int(r.Pick(1, 1, 2, 2, 3, 4))
		if len(sc.hosts) < 2 && r.Chance(70) {
			sc.hosts = g.hosts(3+r.Intn(4), 10)
		}
		if r.Chance(50) {
			// long runs: many hosts, mostly failing attempts, policies that keep retrying
			sc.hosts = g.hosts(5+r.Intn(4), 10)
			sc.outs = g.outcomes(6+r.Intn(6), 5)
			sc.dflt = g.outcome(500, 10)
			if sc.pol.kind == 0 || r.Chance(40) {
				sc.pol = polDesc{kind: int(r.Pick(1, 2, 3)), n: int(r.Pick(2, 3, 5)), levels: []int64{6, 4, 1, 10}[:r.Intn(5)]}
			}
		}
		sched := make([]int, 12)
		for j := range sched {
			sched[j] = r.Intn(6)
		}
		ticks := !r.Chance(20)
		if ticks && !r.Chance(25) {
			// enough usable hosts for every execution's first attempt: the launch phase is then reproducible
			us := 0
			for _, hh := range sc.hosts {
				if hostUsable(hh) {
					us++
				}
			}
			for ; us < sc.spk+1; us++ {
				sc.hosts = append(sc.hosts, gocql.VerifC13Host{ID: len(sc.hosts) + 1})
			}
		}
		cancelAt := -1
		if r.Chance(20) {
			cancelAt = r.Intn(5)
		}
		h.runControlled(sc, sched, ticks, cancelAt, "spec-controlled")
	}
	// 6. free-running speculative executions (monitors only; not replayed for -only)
	if o.Only < 0 {
		nf := n / 2
		for i := 0; i < nf; i++ {
			sc := g.randomScript()
			sc.idem = true
			sc.spk = int(r.Pick(1, 2, 3, 4))
			if len(sc.hosts) < 2 {
				sc.hosts = g.hosts(3+r.Intn(4), 10)
			}
			ca := time.Duration(0)
			if r.Chance(15) {
				ca = time.Duration(100+r.Intn(600)) * time.Microsecond
			}
			h.runFree(sc, ca)
		}
	}
	// 7. end to end through the public API: a real Session over scripted in-memory nodes
	{
		t0 := time.Now()
		e, err := newE2E(h, 20*time.Second, o.Seed%2 == 0)
		if err != nil {
			o.Violate(-1, "e2e-setup", "", fmt.Sprintf("session over scripted nodes could not be opened: %v", err), nil)
		} else {
			for i := 0; i < n/2; i++ {
				e.run(g.e2eScript(), "seq-end-to-end")
			}
			e.runRetryOptions()
			e.runAttemptCounting()
			// the context ends while a PREPARE is outstanding (statement new to the host), retries still allowed
			np := 16
			if o.Scale > 1 {
				np = 100
			}
			for i := 0; i < np; i++ {
				e.runCaseAt(g.prepCancelScript(), "seq-end-to-end-prepare-cancel", true)
			}
			// speculative executions through the session on controlled schedules (answers held at the nodes)
			for i := 0; i < n/4; i++ {
				sched := make([]int, 12)
				for j := range sched {
					sched[j] = r.Intn(6)
				}
				cancelAt := -1
				if r.Chance(15) {
					cancelAt = r.Intn(4)
				}
				e.runControlled(g.controlledE2EScript(), sched, cancelAt, "spec-controlled-end-to-end")
			}
			if o.Only < 0 {
				for i := 0; i < n/5; i++ {
					sc := g.e2eScript()
					sc.idem, sc.spk = true, int(o.Rng.Pick(1, 2, 3))
					for j := range sc.outs {
						if sc.outs[j].o != nil && sc.outs[j].o.kind <= 1 {
							sc.outs[j].o = nil
						}
					}
					if sc.dflt.o != nil && sc.dflt.o.kind <= 1 {
						sc.dflt.o = nil
					}
					e.runFree(sc)
				}
			}
			e.close()
		}
		o.Extra["end_to_end_seconds"] = fmt.Sprintf("%.1f", time.Since(t0).Seconds())
	}
	// 9. the exponential backoff's nap: the real getExponentialTime against the model's jitter-free bounds
	{
		mins := []int64{0, -5, 1, 3, 1000, 1000000, 100000000}
		maxs := []int64{0, -1, 1, 50, 1000000, 1000000000, 10000000000}
		as := []int{1, 2, 3, 4, 5, 8, 10, 16, 24, 32, 40, 64}
		if o.Scale == 1 && !o.Search {
			mins = []int64{0, 1, 3, 1000000}
			maxs = []int64{0, 50, 1000000, 10000000000}
			as = []int{1, 2, 3, 5, 10, 24, 40, 64}
		}
		for _, mn := range mins {
			for _, mx := range maxs {
				prev := int64(-1)
				for _, a := range as {
					obs := int64(gocql.VerifC13ExpTime(time.Duration(mn), time.Duration(mx), a))
					idx := o.Case("backoff-nap", a > 1, fmt.Sprintf("CNap %s %s %s %s", hlib.Z(mn), hlib.Z(mx), hlib.Z(int64(a)), hlib.Z(obs)))
					em, ex := mn, mx
					if em <= 0 {
						em = 100 * int64(time.Millisecond)
					}
					if ex <= 0 {
						ex = 10 * int64(time.Second)
					}
					if obs < 0 || obs > ex {
						o.Violate(idx, "backoff-range", "", fmt.Sprintf("getExponentialTime(%d, %d, %d) = %d outside [0, max]", mn, mx, a, obs), nil)
					}
					// non-decreasing up to the jitter (one min wide)
					if prev >= 0 && obs+em < prev {
						o.Violate(idx, "backoff-monotone", "", fmt.Sprintf("getExponentialTime(%d, %d, %d) = %d after %d for fewer attempts", mn, mx, a, obs, prev), nil)
					}
					prev = obs
				}
			}
		}
	}
	// 8. end-to-end fault scenarios (timeouts, lost connections, hosts without connections, hosts reported down)
	{
		nf := 12
		if o.Scale > 1 {
			nf = 60
		}
		if o.Search {
			nf = 30
		}
		h.runFaults(nf)
	}
	o.Extra["note"] = "speculative-free runs are timing dependent in their interleaving but not in their verdicts (monitors hold for every interleaving)"
	o.Finish("From GocqlV Require Import Lib.Base C13.Model C13.Corr.", "C13.Corr.case", "C13.Corr.run")
}
