package main

// Real TCP (thorough tier): the coalescer over a loopback *net.TCPConn, where net.Buffers.WriteTo takes the writev
// path (buffersWriter) that the in-memory connection cannot exercise.  The peer stops reading, the small socket
// buffers fill up, the write deadline expires in the middle of a writev: a genuinely partial vectored write.

import (
	"bytes"
	"context"
	"fmt"
	"io"
	"net"
	"os"
	"sync/atomic"
	"time"

	"github.com/gocql/gocql"
	"gocqlverif/hlib"
	"gocqlverif/node"
)

func bigFrame(sc, t, size int) []byte {
	body := make([]byte, size)
	for i := range body {
		body[i] = byte((i*7 + t*13 + sc) % 251)
	}
	copy(body, fmt.Sprintf("big%04d.%02d", sc%10000, t))
	return node.RawFrame(4, 0, t+1, node.OpQuery, body)
}

type tcpPair struct {
	ln     net.Listener
	client *net.TCPConn
	server *net.TCPConn
}

func newTCPPair() (*tcpPair, error) {
	ln, err := net.Listen("tcp", "127.0.0.1:0")
	if err != nil {
		return nil, err
	}
	acc := make(chan net.Conn, 1)
	go func() {
		c, _ := ln.Accept()
		acc <- c
	}()
	c, err := net.DialTimeout("tcp", ln.Addr().String(), 2*time.Second)
	if err != nil {
		ln.Close()
		return nil, err
	}
	var s net.Conn
	select {
	case s = <-acc:
	case <-time.After(2 * time.Second):
	}
	if s == nil {
		c.Close()
		ln.Close()
		return nil, fmt.Errorf("accept failed")
	}
	p := &tcpPair{ln: ln, client: c.(*net.TCPConn), server: s.(*net.TCPConn)}
	p.client.SetWriteBuffer(4096)
	p.server.SetReadBuffer(4096)
	p.client.SetNoDelay(true)
	return p, nil
}

func (p *tcpPair) close() {
	p.client.Close()
	p.server.Close()
	p.ln.Close()
}

// tcpScenario: k writers with frames of about size bytes through the real coalescer (window) over TCP; the server
// reads readFirst bytes and then stops until the writers are done; write timeout to.  Returns false if TCP is unusable.
func tcpScenario(o *hlib.Out, id, k, size int, window, to time.Duration, readFirst int, manual bool) bool {
	p, err := newTCPPair()
	if err != nil {
		o.Extra["tcp_unavailable"] = err.Error()
		return false
	}
	defer p.close()
	frames := make([][]byte, k)
	for t := range frames {
		frames[t] = bigFrame(id, t, size+17*t)
	}
	var got bytes.Buffer
	readDone := make(chan struct{})
	resume := make(chan struct{})
	go func() {
		defer close(readDone)
		io.CopyN(&got, p.server, int64(readFirst))
		<-resume
		io.Copy(&got, p.server) // until the client closes
	}()
	quit := make(chan struct{})
	var w *gocql.VerifC07Writer
	timerC := make(chan time.Time)
	var enq int32
	if manual {
		w = gocql.VerifC07NewCoalescerManual(p.client, to, quit, timerC, func() {}, func() { atomic.AddInt32(&enq, 1) }, nil)
	} else {
		w = gocql.VerifC07NewCoalescer(p.client, to, window, quit, nil, nil)
	}
	results := make([]result, k)
	done := make(chan int, k)
	for t := 0; t < k; t++ {
		go func(t int) {
			n, err := w.WriteContext(context.Background(), frames[t])
			results[t] = result{n: n, err: err, done: true}
			done <- t
		}(t)
		if manual { // one by one, so that the batch order is the request order
			for i := 0; atomic.LoadInt32(&enq) <= int32(t) && i < 100000; i++ {
				time.Sleep(20 * time.Microsecond)
			}
		}
	}
	if manual {
		select {
		case timerC <- time.Now():
		case <-time.After(5 * time.Second):
		}
	}
	hung := false
	for i := 0; i < k; i++ {
		select {
		case <-done:
		case <-time.After(to + 10*time.Second):
			hung = true
		}
	}
	close(quit)
	p.client.CloseWrite()
	close(resume)
	select {
	case <-readDone:
	case <-time.After(10 * time.Second):
		hung = true
	}
	wire := got.Bytes()
	in := map[string]interface{}{"scenario": "tcp-writev", "writers": k, "frame_size": size, "window": window.String(), "write_timeout": to.String(),
		"server_read_first": readFirst, "bytes_received": len(wire), "manual_timer": manual}
	if hung {
		o.Violate(-1, "hang", "", "TCP scenario: a writer or the reader never finished", in)
		return true
	}
	o.Count("tcp-writev")
	// monitors on the received stream
	fs, tail := splitWire(wire)
	used := map[int]bool{}
	okShape := true
	for _, f := range fs {
		t := frameIndex(frames, f)
		if t < 0 || used[t] {
			okShape = false
			break
		}
		used[t] = true
	}
	tornT := -1
	if okShape && len(tail) > 0 {
		for t, f := range frames {
			if !used[t] && len(tail) < len(f) && bytes.Equal(f[:len(tail)], tail) {
				tornT = t
			}
		}
		okShape = tornT >= 0
	}
	if !okShape {
		o.Violate(-1, "wire-shape", "", fmt.Sprintf("TCP/writev: the received stream is not <whole frames><at most one torn frame>: %d whole frames parsed, %d unparsable bytes", len(fs), len(tail)), in)
		return true
	}
	nerr, partial := 0, 0
	for t, r := range results {
		want := 0
		if used[t] {
			want = len(frames[t])
		} else if t == tornT {
			want = len(tail)
		}
		if r.err == nil && (r.n != len(frames[t]) || !used[t]) {
			o.Violate(-1, "success-without-whole-frame", "", fmt.Sprintf("TCP/writev: writer %d told (%d, nil), frame of %d bytes, whole frame received: %v", t, r.n, len(frames[t]), used[t]), in)
		}
		if r.n != want {
			o.Violate(-1, "count-mismatch", "", fmt.Sprintf("TCP/writev: writer %d told n=%d, the peer received %d bytes of its frame", t, r.n, want), in)
		}
		if r.n < len(frames[t]) && r.err == nil {
			o.Violate(-1, "short-without-error", "", fmt.Sprintf("TCP/writev: writer %d n=%d < %d with nil error", t, r.n, len(frames[t])), in)
		}
		if r.err != nil {
			nerr++
			if r.n > 0 {
				partial++
			}
		}
	}
	if partial > 0 {
		o.Extra["tcp_partial_vectored_writes"] = intExtra(o, "tcp_partial_vectored_writes") + 1
	}
	if nerr > 0 {
		o.Extra["tcp_runs_with_write_timeout"] = intExtra(o, "tcp_runs_with_write_timeout") + 1
	}
	// correspondence for the deterministic (manual timer) small runs: one flush, the deadline expired after len(wire) bytes
	if manual && k*size <= 10000 {
		s := &scen{id: id, kind: "tcp-writev-flush", coalesce: true, hasTo: true, frames: frames}
		s.results = results
		s.ctxEver = make([]bool, k)
		var cs []string
		for t := 0; t < k; t++ {
			s.evs = append(s.evs, fmt.Sprintf("WEnq %d", t))
			if used[t] {
				cs = append(cs, hlib.Pair(hlib.Z(int64(t)), hlib.Z(int64(len(frames[t])))))
			} else if t == tornT || (nerr > 0 && tornT < 0 && len(cs) == len(fs) && !used[t] && t == len(fs)) {
				cs = append(cs, hlib.Pair(hlib.Z(int64(t)), hlib.Z(int64(len(tail)))))
			}
		}
		s.evs = append(s.evs, "WFlush")
		var fl []fault
		if nerr > 0 {
			fl = []fault{{off: int64(len(wire)), kind: fkErr, code: codeTimeout}}
		}
		term := fmt.Sprintf("CCoal true %s [] %s [] %s %s %s %s", framesTerm(frames), faultsTerm(fl), hlib.List(s.evs), resultsTerm(results), hlib.ZList(wire), hlib.List(cs))
		o.Case("tcp-writev-flush", true, term)
	}
	return true
}

func intExtra(o *hlib.Out, k string) int {
	if v, ok := o.Extra[k].(int); ok {
		return v
	}
	return 0
}

func tcpLevel(o *hlib.Out) {
	if o.Tier != "thorough" && !o.Search && os.Getenv("C07_TCP") == "" {
		return
	}
	id := 0
	// deterministic small runs (manual timer, one batch): frames of ~1.5 KB, the peer reads a little and stops
	for _, k := range []int{2, 6, 12, 24} {
		for _, rf := range []int{0, 700, 5000} {
			id++
			if !tcpScenario(o, id, k, 1500, 0, 150*time.Millisecond, rf, true) {
				return
			}
		}
	}
	// the real timer, big frames, 1..16 writers
	for i := 0; i < 12; i++ {
		id++
		tcpScenario(o, id, 1+(i*5)%16, 30000+i*1111, 200*time.Microsecond, 150*time.Millisecond, 20000*(i%4), false)
	}
	// and runs in which nothing goes wrong (the peer keeps reading)
	for i := 0; i < 4; i++ {
		id++
		tcpScenario(o, id, 4+i*4, 20000, 200*time.Microsecond, 5*time.Second, 1<<30, false)
	}
}
