package main

// Large batches: "every number of concurrent writers".  Over a thousand body-less frames are handed to the flusher
// one by one (harness-owned timer, so all of a round lands in one batch), with a write fault somewhere, followed by
// further rounds.  The correspondence case is written compactly (CCoalBig): the frames are generated on the Coq side.

import (
	"bytes"
	"fmt"

	"gocqlverif/hlib"
)

// runCoalBig: requests 0..k-1 in rounds of the given sizes; after each round the timer fires (if anything is queued).
func (s *scen) runCoalBig(rounds []int) {
	s.setup()
	s.rounds = rounds
	m := s.newManual()
	t := 0
	for _, n := range rounds {
		for i := 0; i < n; i++ {
			m.launch(t)
			t++
			if s.anomaly != "" {
				return
			}
		}
		m.fire()
		if s.anomaly != "" {
			return
		}
	}
	m.finish()
}

func (s *scen) bigTerm() string {
	// results, run-length encoded in id order
	var rl []string
	for i := 0; i < len(s.results); {
		j := i
		key := func(r result) string { return fmt.Sprintf("%v|%d|%s", r.done, r.n, errTerm(r.err)) }
		for j < len(s.results) && key(s.results[j]) == key(s.results[i]) {
			j++
		}
		r := s.results[i]
		n := int64(r.n)
		if !r.done {
			n = -1 // never returned: no result can match
		}
		rl = append(rl, hlib.Pair(hlib.Z(int64(j-i)), hlib.Pair(hlib.Z(n), errTerm(r.err))))
		i = j
	}
	// the wire: leading whole frames 0, 1, 2, ... then the raw rest
	wire := s.link.C2S.Bytes()
	fs, _ := splitWire(wire)
	whole, off := 0, 0
	for whole < len(fs) && whole < len(s.frames) && bytes.Equal(fs[whole], s.frames[whole]) {
		off += len(fs[whole])
		whole++
	}
	// Write calls as runs of consecutive request ids with the same accepted count
	type call struct{ t, n int }
	var cs []call
	idx := map[string]int{}
	for t, f := range s.frames {
		idx[string(f)] = t
	}
	for _, c := range s.rc.calls() {
		if c.isDl {
			continue
		}
		t, ok := idx[string(c.p)]
		if !ok {
			t = 999999 // not a frame of this scenario: cannot match
		}
		cs = append(cs, call{t, c.n})
	}
	var cl []string
	for i := 0; i < len(cs); {
		j := i + 1
		for j < len(cs) && cs[j].n == cs[i].n && cs[j].t == cs[i].t+(j-i) {
			j++
		}
		cl = append(cl, hlib.Pair(hlib.Z(int64(cs[i].t)), hlib.Pair(hlib.Z(int64(j-i)), hlib.Z(int64(cs[i].n)))))
		i = j
	}
	var rs []string
	for _, r := range s.rounds {
		rs = append(rs, hlib.Z(int64(r)))
	}
	return fmt.Sprintf("CCoalBig %s %d %s %s %s %d %s %s", hlib.Bool(s.hasTo), len(s.frames), faultsTerm(s.faults), hlib.List(rs),
		hlib.List(rl), whole, hlib.ZList(wire[off:]), hlib.List(cl))
}

func bigLevel(o *hlib.Out) {
	type bs struct {
		k      int
		rounds []int
		foff   int // -1: no fault
		kind   int
	}
	// The model appends to its wire and history lists, so a case costs time quadratic in the number of frames actually
	// written: in the quick tier the long complete batches are of 1100 frames and the 2500-frame batches are cut early.
	var list []bs
	list = append(list,
		bs{1100, []int{1060, 40}, -1, fkErr},               // nothing goes wrong
		bs{1100, []int{1060, 40}, 500*9 + 4, fkErr},        // cut inside frame 500
		bs{1100, []int{1060, 40}, 1057*9 + 8, fkErr},       // cut inside one of the last frames of the batch
		bs{1100, []int{1060, 40}, 700 * 9, fkErr},          // error at a frame boundary: nothing torn, the follow-ups are written
		bs{1100, []int{530, 530, 40}, 540*9 + 1, fkSticky}, // three rounds, cut in the second
		bs{2500, []int{2460, 40}, 300*9 + 4, fkErr},        // 2500 queued, cut early
		bs{2500, []int{1230, 1230, 40}, 100*9 + 8, fkErr},  // cut in the first of three rounds
		bs{1500, []int{1025, 475}, 1024*9 + 3, fkErr},      // cut inside frame 1024
	)
	if o.Scale > 1 || o.Search {
		list = append(list,
			bs{2500, []int{2460, 40}, -1, fkErr}, bs{2500, []int{2460, 40}, 2457*9 + 8, fkErr}, bs{2500, []int{2460, 40}, 700 * 9, fkErr},
			bs{5000, []int{4900, 100}, 1500*9 + 2, fkErr}, bs{1034, []int{1024, 10}, 1023*9 + 5, fkErr},
			bs{1035, []int{1025, 10}, 1024*9 + 5, fkErr}, bs{2058, []int{2048, 10}, 2047*9 + 1, fkErr})
	}
	for i, b := range list {
		sum := 0
		for _, r := range b.rounds {
			sum += r
		}
		if sum != b.k {
			panic("bigLevel: rounds do not add up")
		}
		s := newScen("coal-big-batch", true, i%2 == 0)
		for t := 0; t < b.k; t++ {
			s.frames = append(s.frames, mkFrame(0, t, -1))
		}
		if b.foff >= 0 {
			s.faults = []fault{{off: int64(b.foff), kind: b.kind, code: 30}}
		}
		s.big = true
		s.runCoalBig(b.rounds)
		s.emit(o)
	}
}
