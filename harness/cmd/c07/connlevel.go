package main

// Connection-level scenarios: whole gocql sessions (public API only) against the scripted in-memory
// node; the bytes the driver wrote on the pool connection are taken from the node package's record
// of the client-to-server stream (every byte and every Write call) and parsed with its codec.

import (
	"context"
	"fmt"
	"io"
	"log"
	"net"
	"os"
	"sync"
	"time"

	"github.com/gocql/gocql"
	"gocqlverif/hlib"
	"gocqlverif/node"
)

const stmt = `SELECT v FROM kv WHERE k = ?`

type connEnv struct {
	net  *node.Net
	nd   *node.Node
	s    *gocql.Session
	pool *node.ServerConn
	tc   *tconn // the pool connection as the driver sees it (records SetWriteDeadline / Write calls)
}

func (e *connEnv) close() {
	if e.s != nil {
		e.s.Close()
	}
	e.net.Close()
}

func newConnEnv(window time.Duration) (*connEnv, error) { return newConnEnvWT(window, 0) }

// newConnEnvWT: writeTimeout > 0 sets ClusterConfig.WriteTimeout (otherwise the write timeout is cfg.Timeout).
func newConnEnvWT(window, writeTimeout time.Duration) (*connEnv, error) {
	n := node.NewNet()
	nd := n.AddNode("10.0.0.1:9042")
	n.SetKeyspace("demo", node.Keyspace{Replication: node.SimpleStrategy(1), DurableWrites: true})
	t := &node.Table{Keyspace: "demo", Name: "kv", PartitionKey: []string{"k"},
		Columns: []node.Column{node.Col("k", node.Varchar), node.Col("v", node.Int)}}
	for i := 0; i < 20; i++ {
		t.Rows = append(t.Rows, [][]byte{node.TextV(keyOf(i)), node.IntV(int32(i))})
	}
	n.SetTable(t)
	cfg := gocql.NewCluster("10.0.0.1")
	td := &tdialer{inner: n.Dialer()}
	cfg.Dialer = td
	cfg.ProtoVersion = 4
	cfg.Timeout = 3 * time.Second
	cfg.ConnectTimeout = 3 * time.Second
	cfg.NumConns = 1
	cfg.Keyspace = "demo"
	cfg.Consistency = gocql.One
	cfg.Logger = log.New(io.Discard, "", 0)
	cfg.WriteCoalesceWaitTime = window
	cfg.WriteTimeout = writeTimeout
	cfg.DefaultTimestamp = false // keeps the frames free of wall-clock bytes
	s, err := gocql.NewSession(*cfg)
	if err != nil {
		n.Close()
		return nil, err
	}
	e := &connEnv{net: n, nd: nd, s: s}
	conns := nd.Conns()
	if len(conns) < 2 {
		e.close()
		return nil, fmt.Errorf("expected a control and a pool connection, have %d", len(conns))
	}
	e.pool = conns[len(conns)-1]
	e.tc = td.last()
	// prepare the statement so that every later query is exactly one EXECUTE frame
	var v int
	if err := s.Query(stmt, keyOf(0)).Scan(&v); err != nil {
		e.close()
		return nil, fmt.Errorf("warm-up query: %v", err)
	}
	return e, nil
}

var errHang = fmt.Errorf("harness watchdog: the query never returned")

// query runs one query with a watchdog.
func (e *connEnv) query(key string) error {
	ch := make(chan error, 1)
	go func() {
		var v int
		ch <- e.s.Query(stmt, key).Scan(&v)
	}()
	select {
	case err := <-ch:
		return err
	case <-time.After(15 * time.Second):
		return errHang
	}
}

// waitWG waits for wg with a watchdog.
func waitWG(wg *sync.WaitGroup, d time.Duration) bool {
	ch := make(chan struct{})
	go func() { wg.Wait(); close(ch) }()
	select {
	case <-ch:
		return true
	case <-time.After(d):
		return false
	}
}

func keyOf(i int) string { return fmt.Sprintf("key%02d%s", i, "abcdefghijklmnop"[:i%16]) }

// writesFrom: the Write calls recorded on the pool connection's client-to-server stream from offset off on.
func writesFrom(l *node.Link, off int64) []node.WriteRecord {
	var ws []node.WriteRecord
	for _, w := range l.C2S.Writes() {
		if w.Offset >= off {
			ws = append(ws, w)
		}
	}
	return ws
}

// wireMonitor judges the byte stream the driver put on the pool connection (all of it, from the first
// byte of the connection): it must parse, with the node package's codec, into whole frames, followed by an
// incomplete frame only if some Write call was cut short - and then nothing may follow the cut, and the driver
// must close the connection.
func wireMonitor(o *hlib.Out, idx int, what string, e *connEnv, off int64, _ bool, input interface{}) (torn bool, late int) {
	l := e.pool.Link()
	cut := int64(-1) // end of the first Write call that accepted a proper, non-empty part of its buffer
	var cutRec node.WriteRecord
	for _, w := range writesFrom(l, off) {
		if w.N < w.Len && w.Err == nil {
			o.Violate(idx, "env-short-write-nil", "", what+": pipe returned a short count without error", input)
		}
		if cut < 0 && w.N > 0 && w.N < w.Len {
			cut, cutRec = w.Offset+int64(w.N), w
		}
	}
	if cut >= 0 {
		// give a late writer the time to show up, and the closer the time to close
		closed := e.net.WaitFor(2*time.Second, func() bool { return l.ClientClosed() })
		if !closed {
			o.Violate(idx, "torn-frame-connection-left-open", "", what+": a frame was left incomplete on the wire and the driver did not close the connection", input)
		}
	}
	all := l.C2S.Bytes()
	torn = cut >= 0
	if !torn {
		if _, tail := splitWire(all); len(tail) != 0 {
			o.Violate(idx, "wire-shape", "", fmt.Sprintf("%s: no Write was cut short, yet %d bytes at the end of the stream are no whole frame", what, len(tail)), input)
		}
		return torn, 0
	}
	if _, tail := splitWire(all[:cut]); len(tail) == 0 {
		o.Violate(idx, "wire-shape", "", fmt.Sprintf("%s: a Write was cut short at stream offset %d but the stream up to there parses into whole frames", what, cut), input)
	}
	if extra := int64(len(all)) - cut; extra > 0 {
		for _, w := range writesFrom(l, cut) {
			if w.N > 0 {
				late++
			}
		}
		o.Violate(idx, "frame-after-torn-frame", "", fmt.Sprintf("%s: %d bytes (%d Write calls) were put on the connection after a torn frame (the cut Write accepted %d of %d bytes)", what, extra, late, cutRec.N, cutRec.Len), input)
	}
	return torn, late
}

// followUp: a request that starts after the failed write has been reported to its caller.  If the failed write
// left part of a frame on the wire (k > 0), nothing more may ever be written on that connection; this one
// starts after the failure has been reported.
func followUp(o *hlib.Out, idx int, e *connEnv, k int, in interface{}) {
	l := e.pool.Link()
	before := l.C2S.Written()
	e.query(keyOf(4))
	if k > 0 && l.C2S.Written() != before {
		o.Violate(idx, "frame-after-torn-frame", "", fmt.Sprintf("a request started after the partial write (%d bytes of a frame) had been reported put %d more bytes on the same connection", k, l.C2S.Written()-before), in)
	}
}

func connLevel(o *hlib.Out) {
	gocql.VerifConnTraceStart(0)
	defer gocql.VerifConnTraceStop()
	r := o.Rng
	sc := o.Scale
	stats := map[string]int{}

	// ---- N1: one request, its write fails after k bytes with error e: is the connection closed? ----
	type ek struct {
		name string
		err  error
	}
	// the last two are what a net.Conn returns when the write deadline passes: a *net.OpError wrapping
	// os.ErrDeadlineExceeded (Timeout() == true), and a bare os.ErrDeadlineExceeded
	netTimeout := &net.OpError{Op: "write", Net: "tcp", Err: os.ErrDeadlineExceeded}
	kinds := []ek{{"(EOther 5)", codeErr{5}}, {"ECanceled", context.Canceled}, {"EDeadlineExceeded", context.DeadlineExceeded}, {"(EOther 6)", fmt.Errorf("wrapped: %w", codeErr{6})},
		{fmt.Sprintf("(EOther %d)", codeTimeout), netTimeout}, {fmt.Sprintf("(EOther %d)", codeTimeout), os.ErrDeadlineExceeded},
		{fmt.Sprintf("(EOther %d)", codeNetClosed), &net.OpError{Op: "write", Net: "tcp", Err: net.ErrClosed}}, {"EEOF", io.EOF}, {"EConnClosed", gocql.ErrConnectionClosed}}
	for _, window := range []time.Duration{0, 200 * time.Microsecond} {
		for _, kind := range kinds {
			// k: 0, 1, inside the header, at the header end, in the body, last byte
			for pos := 0; pos < 6; pos++ {
				e, err := newConnEnv(window)
				if err != nil {
					o.Violate(-1, "conn-setup", "", err.Error(), nil)
					continue
				}
				l := e.pool.Link()
				// learn the frame: run the same query once
				off0 := l.C2S.Written()
				e.query(keyOf(3))
				frame := append([]byte(nil), l.C2S.Bytes()[off0:]...)
				flen := len(frame)
				ks := []int{0, 1, 5, 9, flen / 2, flen - 1}
				k := ks[pos]
				off := l.C2S.Written()
				l.C2S.AddWriteFault(node.WriteFault{Offset: off + int64(k), Err: kind.err})
				qerr := e.query(keyOf(3))
				if qerr == errHang {
					o.Violate(-1, "hang", "", "single request with a failing write never returned", nil)
					hangs++
					if hangs >= 3 {
						finish(o)
						os.Exit(0)
					}
					continue
				}
				closed := l.ClientClosed()
				time.Sleep(500 * time.Microsecond)
				closed2 := l.ClientClosed()
				idx := o.Case("conn-must-close", true, fmt.Sprintf("CMustClose %s %s %d %s %s", hlib.Bool(window > 0), hlib.ZList(frame), k, kind.name, hlib.Bool(closed)))
				in := map[string]interface{}{"window": window.String(), "k": k, "error": kind.name, "frame_len": flen, "query_error": fmt.Sprint(qerr)}
				if closed != closed2 {
					o.Violate(idx, "close-not-synchronous", "", "the connection was closed only after the failing request had returned", in)
				}
				if qerr == nil {
					o.Violate(idx, "failed-write-reported-success", "", "the request whose frame was cut returned no error", in)
				}
				if got := int(l.C2S.Written() - off); closed && got != k {
					o.Violate(idx, "write-after-close", "", fmt.Sprintf("%d bytes on the connection after the failed write of %d", got, k), in)
				}
				wireMonitor(o, idx, "single request", e, off, false, in) // nothing else is in flight here
				followUp(o, idx, e, k, in)
				e.close()
			}
		}
	}

	// ---- N1b: the same with a real write deadline: the Write stalls after k bytes until cfg.WriteTimeout passes ----
	for _, window := range []time.Duration{0, 200 * time.Microsecond} {
		for pos := 0; pos < 3; pos++ {
			e, err := newConnEnvWT(window, 40*time.Millisecond)
			if err != nil {
				o.Count("env-anomaly-skipped")
				continue
			}
			l := e.pool.Link()
			off0 := l.C2S.Written()
			if e.query(keyOf(3)) != nil {
				o.Count("env-anomaly-skipped")
				e.close()
				continue
			}
			frame := append([]byte(nil), l.C2S.Bytes()[off0:]...)
			flen := len(frame)
			k := []int{0, 4, flen - 1}[pos]
			off := l.C2S.Written()
			l.C2S.AddWriteFault(node.WriteFault{Offset: off + int64(k), Stall: true})
			qerr := e.query(keyOf(3))
			closed := l.ClientClosed()
			ws := writesFrom(l, off)
			if qerr == errHang || len(ws) == 0 || ws[0].N != k || ws[0].Err == nil || errName(ws[0].Err) != fmt.Sprintf("(EOther %d)", codeTimeout) {
				o.Count("env-anomaly-skipped")
				e.close()
				continue
			}
			idx := o.Case("conn-must-close-deadline", true, fmt.Sprintf("CMustClose %s %s %d (EOther %d) %s", hlib.Bool(window > 0), hlib.ZList(frame), k, codeTimeout, hlib.Bool(closed)))
			in := map[string]interface{}{"window": window.String(), "k": k, "error": "write deadline expired (real timer, WriteTimeout 40ms)", "frame_len": flen, "query_error": fmt.Sprint(qerr)}
			if qerr == nil {
				o.Violate(idx, "failed-write-reported-success", "", "the request whose frame was cut returned no error", in)
			}
			wireMonitor(o, idx, "single request, write deadline", e, off, false, in)
			followUp(o, idx, e, k, in)
			e.close()
		}
	}

	// ---- N2: F-C07-1 through the public API, deterministically (direct writer) ----
	for i := 0; i < 2+sc/4; i++ {
		e, err := newConnEnv(0)
		if err != nil {
			o.Violate(-1, "conn-setup", "", err.Error(), nil)
			continue
		}
		l := e.pool.Link()
		off := l.C2S.Written()
		k := 3 + i
		l.C2S.AddWriteFault(node.WriteFault{Offset: off + int64(k), Stall: true})
		l.C2S.AddWriteFault(node.WriteFault{Offset: off + int64(k) + 1, Err: codeErr{21}})
		var wg sync.WaitGroup
		errs := make([]error, 3)
		run := func(j int) {
			defer wg.Done()
			var v int
			errs[j] = e.s.Query(stmt, keyOf(j+1)).Scan(&v)
		}
		wg.Add(1)
		go run(0)
		l.C2S.WaitWritten(off+int64(k), 5*time.Second) // request 0 is inside Write, holding the semaphore
		wg.Add(2)
		go run(1)
		go run(2)
		time.Sleep(3 * time.Millisecond) // requests 1 and 2 have registered and wait for the semaphore
		l.C2S.ReleaseStall()
		if !waitWG(&wg, 15*time.Second) {
			o.Violate(-1, "hang", "", "requests never returned (F-C07-1 scenario)", nil)
			continue
		}
		in := map[string]interface{}{"scenario": "stall at byte k of request 0, two more requests queue up, then the write fails", "k": k,
			"errors": fmt.Sprint(errs)}
		o.Count("conn-f1-direct")
		_, late := wireMonitor(o, -1, "F-C07-1 direct", e, off, true, in)
		stats["f1_direct_late_frames"] += late
		e.close()
	}

	// ---- N3: m concurrent requests over one pool connection, one write fault somewhere ----
	for _, window := range []time.Duration{0, 200 * time.Microsecond, 5 * time.Millisecond} {
		reps := 16 * sc
		if window > time.Millisecond && sc > 4 {
			reps = 16 * 4
		}
		for i := 0; i < reps; i++ {
			m := 2 + (i*5+int(window/time.Microsecond))%15
			e, err := newConnEnv(window)
			if err != nil {
				o.Violate(-1, "conn-setup", "", err.Error(), nil)
				continue
			}
			l := e.pool.Link()
			off := l.C2S.Written()
			foff := off + int64(r.Intn(m*45))
			l.C2S.AddWriteFault(node.WriteFault{Offset: foff, Err: codeErr{22}})
			e.tc.rc.clear()
			gocql.VerifConnTraces(e.s, true) // forget the startup / warm-up events
			var wg sync.WaitGroup
			errs := make([]error, m)
			start := make(chan struct{})
			for j := 0; j < m; j++ {
				wg.Add(1)
				go func(j int) {
					defer wg.Done()
					<-start
					var v int
					errs[j] = e.s.Query(stmt, keyOf(j)).Scan(&v)
				}(j)
			}
			close(start)
			if !waitWG(&wg, 15*time.Second) {
				o.Violate(-1, "hang", "", fmt.Sprintf("%d concurrent requests: some never returned", m), nil)
				hangs++
				if hangs >= 3 {
					finish(o)
					os.Exit(0)
				}
				continue
			}
			nerr := 0
			for _, x := range errs {
				if x != nil {
					nerr++
				}
			}
			in := map[string]interface{}{"window": window.String(), "requests": m, "fault_offset_in_traffic": foff - off, "failed_requests": nerr}
			// replay the whole scenario through the writer model (before anything else touches the connection)
			idx := -1
			if term, why := connReplay(e, off, window > 0, []fault{{off: foff, kind: fkErr, code: 22}}); term != "" {
				idx = o.Case(fmt.Sprintf("conn-replay-%v", window), true, term)
			} else if len(why) > 4 && why[:4] == "env:" {
				o.Count("env-anomaly-skipped")
			} else {
				o.Violate(-1, "conn-replay-impossible", "", why, in)
			}
			_ = idx
			o.Count(fmt.Sprintf("conn-concurrent-%v", window))
			torn, late := wireMonitor(o, -1, fmt.Sprintf("%d concurrent requests, window %v", m, window), e, off, true, in)
			if torn {
				stats["concurrent_torn"]++
				// a request issued now must not touch the dead connection
				before := l.C2S.Written()
				e.query(keyOf(1))
				if l.C2S.Written() != before {
					o.Violate(-1, "write-after-close", "", "a request issued after the failure put bytes on the closed connection", in)
				}
			}
			if late > 0 {
				stats["concurrent_late"]++
			}
			e.close()
		}
	}
	for k, v := range stats {
		o.Extra["conn_"+k] = v
	}
}
