package main

// Connection-level replay: a whole-session scenario (several requests in flight on one pool connection) is turned
// into a correspondence case for the writer model.  The order of registration and exec's view of every
// writeContext call come from the connection event log of the C01 trace points (vConn calls in conn.go, build tag
// verif); the order in which the writers reached the connection, the frames and the batches come from the recorded
// SetWriteDeadline / Write calls of the connection wrapper; the bytes from the node package's stream record.

import (
	"fmt"
	"sort"

	"github.com/gocql/gocql"
	"gocqlverif/hlib"
)

// kinds of the trace points used here (verif_conn_kinds.go in /repo)
const (
	vcAlloc    = 1
	vcAddCall  = 2
	vcWriteEnd = 7
)

type cinfo struct {
	stream   int
	tid      int // position among the registered calls, -1 if addCall refused it
	hasEnd   bool
	class, n int
	assigned bool
	written  bool
}

// connReplay builds the CConn case of the scenario that ran on e's pool connection since the wrapper's log and the
// event log were cleared.  faults: the script, offsets relative to base.  Returns the term, or "" with a reason.
func connReplay(e *connEnv, base int64, coalesce bool, faults []fault) (term string, why string) {
	var tr *gocql.VerifConnTrace
	for _, t := range gocql.VerifConnTraces(e.s, true) {
		t := t
		if gocql.VerifConnNetConn(t.Conn) == e.tc {
			tr = &t
		}
	}
	if tr == nil {
		return "", "no event log for the pool connection"
	}
	calls := map[int]*cinfo{}
	get := func(id int) *cinfo {
		if calls[id] == nil {
			calls[id] = &cinfo{tid: -1, stream: -1}
		}
		return calls[id]
	}
	var reg []*cinfo
	for _, ev := range tr.Events {
		switch ev.Kind {
		case vcAlloc:
			get(ev.Call).stream = ev.A
		case vcAddCall:
			if ev.A == 0 {
				c := get(ev.Call)
				c.tid = len(reg)
				reg = append(reg, c)
			}
		case vcWriteEnd:
			c := get(ev.Call)
			c.hasEnd, c.class, c.n = true, ev.A, ev.B
		}
	}
	byStream := map[int]*cinfo{}
	for _, c := range reg {
		byStream[c.stream] = c
	}
	frames := make([][]byte, len(reg))
	for i := range frames {
		frames[i] = []byte{0} // never handed to the connection
	}
	log := e.tc.rc.calls()
	var callTerms []string
	dlFail := map[int]int64{}
	dlN := 0
	type flush struct {
		members  []int
		dlFailed bool
		failed   bool // a Write of this flush returned an error
	}
	var flushes []*flush
	var devs []string
	unassigned := func() []*cinfo {
		var u []*cinfo
		for _, c := range reg {
			if c.hasEnd && c.class == 2 && c.n == 0 && !c.assigned && !c.written {
				u = append(u, c)
			}
		}
		return u
	}
	for _, c := range log {
		if c.isDl {
			fl := &flush{}
			flushes = append(flushes, fl)
			if c.dlErr != nil {
				dlFail[dlN] = errNum(c.dlErr)
				fl.dlFailed = true
			}
			dlN++
			continue
		}
		if c.err != nil && errNum(c.err) == codeNetClosed {
			return "", "env: a Write raced with the closing of the connection"
		}
		if len(c.p) < 9 {
			return "", "a Write call with less than a frame header"
		}
		ci := byStream[int(int16(uint16(c.p[2])<<8|uint16(c.p[3])))]
		tid := 9999
		if ci != nil {
			tid = ci.tid
			ci.written = true
			frames[tid] = c.p
		}
		callTerms = append(callTerms, hlib.Pair(hlib.Z(int64(tid)), hlib.Z(int64(c.n))))
		if len(flushes) == 0 {
			flushes = append(flushes, &flush{})
		}
		fl := flushes[len(flushes)-1]
		fl.members = append(fl.members, tid)
		if c.err != nil {
			fl.failed = true
		}
	}
	var cevs []string
	if !coalesce {
		// every SetWriteDeadline (+ Write) is one writer
		for _, fl := range flushes {
			if fl.dlFailed {
				u := unassigned()
				who := 9999
				if len(u) > 0 {
					u[0].assigned = true
					who = u[0].tid
				}
				devs = append(devs, fmt.Sprintf("VWrite %d", who))
				continue
			}
			for _, t := range fl.members {
				devs = append(devs, fmt.Sprintf("VWrite %d", t))
			}
		}
		for _, c := range unassigned() { // refused after a torn write
			c.assigned = true
			devs = append(devs, fmt.Sprintf("VWrite %d", c.tid))
		}
	} else {
		// one thread for every flush whose SetWriteDeadline failed, the rest of the unwritten ones to the flush
		// that failed in a Write (they were behind the failing buffer, or were refused afterwards: same result)
		for _, fl := range flushes {
			if fl.dlFailed {
				if u := unassigned(); len(u) > 0 {
					u[0].assigned = true
					fl.members = append(fl.members, u[0].tid)
				}
			}
		}
		var tail []int
		rest := unassigned()
		for _, c := range rest {
			c.assigned = true
		}
		placed := false
		for _, fl := range flushes {
			if fl.failed && !placed {
				for _, c := range rest {
					fl.members = append(fl.members, c.tid)
				}
				placed = true
			}
		}
		if !placed {
			var lastDl *flush
			for _, fl := range flushes {
				if fl.dlFailed {
					lastDl = fl
				}
			}
			for _, c := range rest {
				if lastDl != nil {
					lastDl.members = append(lastDl.members, c.tid)
				} else {
					tail = append(tail, c.tid)
				}
			}
		}
		for _, fl := range flushes {
			for _, t := range fl.members {
				cevs = append(cevs, fmt.Sprintf("WEnq %d", t))
			}
			cevs = append(cevs, "WFlush")
		}
		for _, t := range tail {
			cevs = append(cevs, fmt.Sprintf("WEnq %d", t))
		}
	}
	var results []string
	for _, c := range reg {
		if !c.hasEnd {
			results = append(results, "None")
		} else {
			results = append(results, hlib.Some(hlib.Pair(hlib.Z(int64(c.n)), hlib.Z(int64(c.class)))))
		}
	}
	var rel []fault
	for _, f := range faults {
		f.off -= base
		rel = append(rel, f)
	}
	sort.Slice(rel, func(i, j int) bool { return rel[i].off < rel[j].off })
	wire := e.pool.Link().C2S.Bytes()[base:]
	closed := e.pool.Link().ClientClosed()
	return fmt.Sprintf("CConn %s %s %s %s %s %s %s %s %s %s", hlib.Bool(coalesce), framesTerm(frames), faultsTerm(rel), dlFailTerm(dlFail),
		hlib.List(devs), hlib.List(cevs), hlib.List(results), hlib.ZList(wire), hlib.List(callTerms), hlib.Bool(closed)), ""
}
