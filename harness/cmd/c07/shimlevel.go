package main

// Writer-level scenarios: the real deadlineContextWriter / writeCoalescer (through the add-only shim
// verif_shim_c07.go) over an in-memory connection with scripted write behaviour.

import (
	"bytes"
	"context"
	"fmt"
	"os"
	"strings"
	"sync/atomic"
	"time"

	"github.com/gocql/gocql"
	"gocqlverif/hlib"
	"gocqlverif/node"
)

const longTimeout = 30 * time.Second

var clock int64 // logical clock for "was launched before that call returned"

func tick() int64 { return atomic.AddInt64(&clock, 1) }

type scen struct {
	id       int
	kind     string
	coalesce bool
	hasTo    bool
	frames   [][]byte
	preDone  []bool // context already cancelled when writeContext is called
	faults   []fault
	dlFail   map[int]int64

	// filled by the runner
	link         *node.Link
	rc           *recConn
	results      []result
	launched     []int64 // logical time of launch per writer
	ctxEver      []bool  // context was cancelled at some point (before or while waiting)
	evs          []string
	quit         bool // direct: quit channel closed before the calls
	callEnd      []int64
	anomaly      string
	emptyFlushes int  // the timer fired with nothing queued
	big          bool // written as a compact CCoalBig case
	rounds       []int
	doneCh       []chan struct{} // per writer: closed when its result is in
	nilFaults    bool
}

func (s *scen) setup() {
	s.link = node.NewLink(nil, nil)
	s.rc = newRecConn(s.link.Client(), s.dlFail)
	applyFaults(s.link.C2S, s.faults)
	s.results = make([]result, len(s.frames))
	s.doneCh = make([]chan struct{}, len(s.frames))
	for i := range s.doneCh {
		s.doneCh[i] = make(chan struct{})
	}
	s.launched = make([]int64, len(s.frames))
	s.ctxEver = make([]bool, len(s.frames))
	if s.preDone == nil {
		s.preDone = make([]bool, len(s.frames))
	}
	for i := range s.frames {
		s.ctxEver[i] = s.preDone[i]
	}
	for _, f := range s.faults {
		if f.kind == fkNil {
			s.nilFaults = true
		}
	}
}

func (s *scen) timeout() time.Duration {
	if s.hasTo {
		return longTimeout
	}
	return 0
}

type writerCtl struct {
	cancel context.CancelFunc
	done   chan struct{}
}

// start launches writer t in its own goroutine.
func (s *scen) start(w *gocql.VerifC07Writer, t int) *writerCtl {
	ctx, cancel := context.WithCancel(context.Background())
	if s.preDone[t] {
		cancel()
	}
	wc := &writerCtl{cancel: cancel, done: make(chan struct{})}
	s.launched[t] = tick()
	go func() {
		n, err := w.WriteContext(ctx, s.frames[t])
		s.results[t] = result{n: n, err: err, done: true}
		close(s.doneCh[t])
		close(wc.done)
	}()
	return wc
}

func waitDone(wc *writerCtl, d time.Duration) bool {
	select {
	case <-wc.done:
		return true
	case <-time.After(d):
		return false
	}
}

const watchdog = 5 * time.Second

var hangs int

// ---- direct writer -----------------------------------------------------------------------------

func (s *scen) newDirect(quit chan struct{}) *gocql.VerifC07Writer {
	return gocql.VerifC07NewDirect(s.rc, s.timeout(), quit)
}

// runDirectSeq: the writers call one after the other, in the given order.
func (s *scen) runDirectSeq(order []int) {
	s.setup()
	quit := make(chan struct{})
	if s.quit {
		close(quit)
	}
	w := s.newDirect(quit)
	for _, t := range order {
		wc := s.start(w, t)
		if !waitDone(wc, watchdog) {
			s.anomaly = "writer never returned"
			return
		}
	}
}

// runDirectConc: all writers at once.
func (s *scen) runDirectConc() {
	s.setup()
	w := s.newDirect(make(chan struct{}))
	var ws []*writerCtl
	for t := range s.frames {
		ws = append(ws, s.start(w, t))
	}
	for _, wc := range ws {
		if !waitDone(wc, watchdog) {
			s.anomaly = "writer never returned"
			return
		}
	}
}

// runDirectStall: writer 0 stalls inside Write at byte stallOff of its frame while holding the
// semaphore; the others are launched meanwhile and wait; those in cancelWaiting have their context
// cancelled while waiting; then the stall is released (and, if a fault sits right behind it, the
// Write fails one byte later).
func (s *scen) runDirectStall(stallOff int, cancelWaiting []int) {
	s.setup()
	s.link.C2S.AddWriteFault(node.WriteFault{Offset: int64(stallOff), Stall: true})
	w := s.newDirect(make(chan struct{}))
	ws := make([]*writerCtl, len(s.frames))
	ws[0] = s.start(w, 0)
	need := 1
	if s.hasTo {
		need = 2
	}
	if !s.rc.waitCalls(need, watchdog) {
		s.anomaly = "first writer never reached Write"
		return
	}
	for t := 1; t < len(s.frames); t++ {
		ws[t] = s.start(w, t)
	}
	time.Sleep(300 * time.Microsecond)
	for _, t := range cancelWaiting {
		s.ctxEver[t] = true
		ws[t].cancel()
		if !waitDone(ws[t], watchdog) {
			s.anomaly = "cancelled waiter never returned"
			return
		}
	}
	s.link.C2S.ReleaseStall()
	for _, wc := range ws {
		if !waitDone(wc, watchdog) {
			s.anomaly = "writer never returned"
			return
		}
	}
}

// runDirectTimeout: writer 0 stalls at stallOff for good; its write deadline (short) expires.
func (s *scen) runDirectTimeout(stallOff int, to time.Duration) {
	s.setup()
	s.link.C2S.AddWriteFault(node.WriteFault{Offset: int64(stallOff), Stall: true})
	w := gocql.VerifC07NewDirect(s.rc, to, make(chan struct{}))
	ws := make([]*writerCtl, len(s.frames))
	ws[0] = s.start(w, 0)
	if !s.rc.waitCalls(2, watchdog) {
		s.anomaly = "first writer never reached Write"
		return
	}
	for t := 1; t < len(s.frames); t++ {
		ws[t] = s.start(w, t)
	}
	for _, wc := range ws {
		if !waitDone(wc, watchdog) {
			s.anomaly = "writer never returned"
			return
		}
	}
	// environment check: the only timeout must be the scripted one
	nto := 0
	for _, c := range s.rc.calls() {
		if !c.isDl && c.err != nil && errName(c.err) == fmt.Sprintf("(EOther %d)", codeTimeout) {
			nto++
		}
	}
	if nto != 1 {
		s.anomaly = "env: unscripted write timeout"
	}
}

// directEvents reads the order of the writers off the recorded connection calls.
func (s *scen) directEvents() {
	var evs []string
	for t, r := range s.results {
		if !r.done {
			continue
		}
		if r.n == 0 && r.err != nil && frameWritten(s, t) < 0 {
			switch errName(r.err) {
			case "ECanceled", "EDeadlineExceeded":
				evs = append(evs, fmt.Sprintf("VCtx %d %s", t, errName(r.err)))
			case "EConnClosed":
				evs = append(evs, fmt.Sprintf("VQuit %d", t))
			}
		}
	}
	for _, c := range s.rc.calls() {
		if c.isDl {
			if c.dlErr != nil {
				// the writer whose result carries this code
				who := 9999
				for t, r := range s.results {
					if r.done && r.err != nil && errCode(r.err) == errCode(c.dlErr) && frameWritten(s, t) < 0 {
						who = t
					}
				}
				evs = append(evs, fmt.Sprintf("VWrite %d", who))
			}
			continue
		}
		who := frameIndex(s.frames, c.p)
		if who < 0 {
			who = 9999
		}
		evs = append(evs, fmt.Sprintf("VWrite %d", who))
	}
	// writers that got the semaphore and were refused (an earlier write was torn): no connection call at all
	dlCodes := map[int64]bool{}
	for _, c := range s.dlFail {
		dlCodes[c] = true
	}
	for t, r := range s.results {
		if !r.done || r.n != 0 || r.err == nil || frameWritten(s, t) >= 0 {
			continue
		}
		switch errName(r.err) {
		case "ECanceled", "EDeadlineExceeded", "EConnClosed":
			continue
		}
		if dlCodes[errCode(r.err)] {
			continue
		}
		evs = append(evs, fmt.Sprintf("VWrite %d", t))
	}
	s.evs = evs
}

// tornReported: some writer has been told 0 < n < len(frame) so far.  That is exactly when the flusher has
// noticed a torn buffer (the attribution loop's else branch with n > 0) and refuses everything that follows; with
// a connection that breaks the io.Writer contract this can differ from what really happened on the wire.
func (s *scen) tornReported() bool {
	for t := range s.frames {
		select {
		case <-s.doneCh[t]:
			if r := s.results[t]; r.done && r.n > 0 && r.n < len(s.frames[t]) {
				return true
			}
		default:
		}
	}
	return false
}

// frameWritten: index of the Write call that was handed frame t, or -1.
func frameWritten(s *scen, t int) int {
	for i, c := range s.rc.calls() {
		if !c.isDl && bytes.Equal(c.p, s.frames[t]) {
			return i
		}
	}
	return -1
}

// ---- coalescer ---------------------------------------------------------------------------------

// runFlush: one writeCoalescer.flush over the frames, in order.
func (s *scen) runFlush() {
	s.setup()
	for t := range s.frames {
		s.launched[t] = tick()
	}
	rs := gocql.VerifC07Flush(s.rc, s.timeout(), s.frames)
	for t, r := range rs {
		s.results[t] = result{n: r.N, err: r.Err, done: r.N >= 0}
	}
	for t := range s.frames {
		s.evs = append(s.evs, fmt.Sprintf("WEnq %d", t))
	}
	s.evs = append(s.evs, "WFlush")
}

type manualCoal struct {
	s        *scen
	w        *gocql.VerifC07Writer
	timerC   chan time.Time
	quit     chan struct{}
	enq      chan struct{}
	flushed  chan struct{}
	armed    int32
	ws       []*writerCtl
	queued   []int // enqueued, not yet flushed
	fquit    bool
	quitDone bool
}

func (s *scen) newManual() *manualCoal {
	m := &manualCoal{s: s, timerC: make(chan time.Time), quit: make(chan struct{}), enq: make(chan struct{}, 64), flushed: make(chan struct{}, 64)}
	m.ws = make([]*writerCtl, len(s.frames))
	m.w = gocql.VerifC07NewCoalescerManual(s.rc, s.timeout(), m.quit, m.timerC,
		func() { atomic.AddInt32(&m.armed, 1) },
		func() { m.enq <- struct{}{} },
		func() { m.flushed <- struct{}{} })
	return m
}

// launch starts writer t and waits until it is either enqueued or has returned.
func (m *manualCoal) launch(t int) {
	s := m.s
	refused := s.preDone[t] || s.tornReported() // the flusher will answer at once instead of queueing the request
	m.ws[t] = s.start(m.w, t)
	hooked := false
	select {
	case <-m.enq:
		hooked = true
	case <-m.ws[t].done:
	case <-time.After(watchdog):
		s.anomaly = "writer neither handed to the flusher nor returned"
		return
	}
	if hooked && refused {
		if !waitDone(m.ws[t], time.Second) {
			// the flusher queued a request whose context was done, or after a torn flush: it is going to write it
			s.anomaly = fmt.Sprintf("writer %d was queued for writing although its context was done or an earlier flush had left a torn frame", t)
			return
		}
	}
	isDone := false
	select {
	case <-m.ws[t].done:
		isDone = true
		if !hooked {
			// the hook runs before the writer reads its result, so its signal is there by now if it ran at all
			select {
			case <-m.enq:
				hooked = true
			default:
			}
		}
	default:
	}
	switch {
	case hooked && !isDone:
		s.evs = append(s.evs, fmt.Sprintf("WEnq %d", t))
		m.queued = append(m.queued, t)
		if m.quitDone && !m.fquit {
			// the flusher had not noticed quit yet; it will now
			m.awaitQueuedEOF()
		}
	case hooked && isDone:
		// received by the flusher and answered at once (context done / an earlier flush was torn), or
		// received and released by quit
		s.evs = append(s.evs, fmt.Sprintf("WEnq %d", t))
		if errName(s.results[t].err) == "EEOF" && m.quitDone && !m.fquit {
			m.queued = append(m.queued, t)
			m.awaitQueuedEOF()
		}
	default:
		m.noteReturned(t)
	}
}

func (m *manualCoal) noteReturned(t int) {
	s := m.s
	r := s.results[t]
	switch errName(r.err) {
	case "ECanceled", "EDeadlineExceeded":
		s.evs = append(s.evs, fmt.Sprintf("WCtx %d %s", t, errName(r.err)))
	case "EEOF":
		s.evs = append(s.evs, fmt.Sprintf("WQuit %d", t))
	default:
		s.evs = append(s.evs, fmt.Sprintf("WEnq %d", t)) // answered by the flusher (refused): the model must agree
	}
}

// fire ends the coalescing window and waits for the flush to finish.
// The harness plays the timer faithfully: it fires exactly when the flusher has armed it (resetTimer) since the
// last time it fired - also when, to the harness's knowledge, nothing is queued (then the flusher armed it for a
// request it did not queue; what follows from that shows in the later rounds).
func (m *manualCoal) fire() {
	if len(m.queued) > 0 {
		// the flusher arms the timer while handling the receive; the writer's hook may have run first
		for i := 0; atomic.LoadInt32(&m.armed) == 0 && i < 200000; i++ {
			time.Sleep(10 * time.Microsecond)
		}
	}
	if atomic.SwapInt32(&m.armed, 0) == 0 {
		if len(m.queued) > 0 {
			m.s.anomaly = "the flusher queued a request without arming its timer"
		}
		return
	}
	empty := len(m.queued) == 0
	select {
	case m.timerC <- time.Now():
	case <-time.After(watchdog):
		m.s.anomaly = "flusher did not take the timer"
		return
	}
	select {
	case <-m.flushed:
	case <-time.After(watchdog):
		m.s.anomaly = "flush never finished"
		return
	}
	if empty {
		m.s.emptyFlushes++ // a window that ended with nothing queued: no WFlush for the model
		return
	}
	m.s.evs = append(m.s.evs, "WFlush")
	for _, t := range m.queued {
		if !waitDone(m.ws[t], watchdog) {
			m.s.anomaly = "flushed writer never returned"
		}
	}
	m.queued = nil
}

func (m *manualCoal) armedNow() int32 { return atomic.LoadInt32(&m.armed) }
func (m *manualCoal) disarm()         { atomic.StoreInt32(&m.armed, 0) }

// fireAsync ends the window without waiting (the flush is expected to stall).
func (m *manualCoal) fireAsync() bool {
	select {
	case m.timerC <- time.Now():
		return true
	case <-time.After(watchdog):
		m.s.anomaly = "flusher did not take the timer"
		return false
	}
}

func (m *manualCoal) closeQuit() {
	close(m.quit)
	m.quitDone = true
	m.s.evs = append(m.s.evs, "WCancel")
	if len(m.queued) > 0 {
		m.awaitQueuedEOF()
	}
}

func (m *manualCoal) awaitQueuedEOF() {
	for _, t := range m.queued {
		if !waitDone(m.ws[t], watchdog) {
			m.s.anomaly = "queued writer not released by quit"
		}
	}
	m.queued = nil
	m.fquit = true
	m.s.evs = append(m.s.evs, "WFQuit")
}

func (m *manualCoal) finish() {
	for t, wc := range m.ws {
		if wc != nil && !waitDone(wc, watchdog) {
			m.s.anomaly = fmt.Sprintf("writer %d never returned", t)
		}
	}
	if !m.quitDone {
		close(m.quit)
	}
}

// runCoalManual: rounds of writers, each round enqueued one by one and flushed by the harness's timer;
// quitAfter >= 0: the quit channel is closed after that round's writers are enqueued (instead of a flush).
func (s *scen) runCoalManual(rounds [][]int, quitAfter int) {
	s.setup()
	m := s.newManual()
	for i, round := range rounds {
		for _, t := range round {
			m.launch(t)
			if s.anomaly != "" {
				return
			}
		}
		if i == quitAfter {
			m.closeQuit()
		} else if !m.quitDone {
			m.fire()
		}
		if s.anomaly != "" {
			return
		}
	}
	m.finish()
}

// runCoalStall: round 0 is flushed and stalls inside the Write at absolute offset stallOff; the
// writers of round 1 are launched meanwhile (they block on writeCh), those in cancelWaiting are
// cancelled while blocked; the stall is released; round 1 is enqueued and flushed.
func (s *scen) runCoalStall(round0, round1 []int, stallOff int, cancelWaiting []int) {
	s.setup()
	s.link.C2S.AddWriteFault(node.WriteFault{Offset: int64(stallOff), Stall: true})
	m := s.newManual()
	for _, t := range round0 {
		m.launch(t)
	}
	if s.anomaly != "" || len(m.queued) == 0 {
		m.finish()
		return
	}
	if !m.fireAsync() {
		return
	}
	// wait for the Write that stalls: total bytes before stallOff decide how many calls that is; simply
	// wait until the stream has accepted stallOff bytes and a call is in progress
	if !s.link.C2S.WaitWritten(int64(stallOff), watchdog) {
		s.anomaly = "flush never reached the stall"
		return
	}
	time.Sleep(200 * time.Microsecond)
	for _, t := range round1 {
		m.ws[t] = s.start(m.w, t)
	}
	time.Sleep(300 * time.Microsecond)
	cancelled := map[int]bool{}
	for _, t := range cancelWaiting {
		s.ctxEver[t] = true
		cancelled[t] = true
		m.ws[t].cancel()
		if !waitDone(m.ws[t], watchdog) {
			s.anomaly = "cancelled blocked writer never returned"
			return
		}
		s.evs = append(s.evs, fmt.Sprintf("WCtx %d %s", t, errName(s.results[t].err)))
	}
	// writers whose context was done from the start can only take the ctx branch while the flusher is busy
	for _, t := range round1 {
		if s.preDone[t] && !cancelled[t] {
			if !waitDone(m.ws[t], watchdog) {
				s.anomaly = "writer with a finished context never returned"
				return
			}
			cancelled[t] = true
			s.evs = append(s.evs, fmt.Sprintf("WCtx %d %s", t, errName(s.results[t].err)))
		}
	}
	s.link.C2S.ReleaseStall()
	select {
	case <-m.flushed:
	case <-time.After(watchdog):
		s.anomaly = "stalled flush never finished"
		return
	}
	// the flush event belongs before the cancellations in program order, but the two commute in the
	// model (a blocked writer's ctx branch does not touch the flusher); keep WFlush right here
	s.evs = append(s.evs, "WFlush")
	for _, t := range m.queued {
		waitDone(m.ws[t], watchdog)
	}
	m.queued = nil
	// now every remaining blocked writer is received by the flusher (one hook signal each), which either queues
	// it or - if the flush was torn - answers it at once
	pending := 0
	for _, t := range round1 {
		if !cancelled[t] {
			pending++
		}
	}
	for i := 0; i < pending; i++ {
		select {
		case <-m.enq:
		case <-time.After(watchdog):
			s.anomaly = "blocked writers were not received by the flusher"
			return
		}
	}
	torn := s.tornReported()
	var enq []int
	for _, t := range round1 {
		if cancelled[t] {
			continue
		}
		if torn {
			if !waitDone(m.ws[t], time.Second) {
				s.anomaly = fmt.Sprintf("writer %d was queued for writing although an earlier flush had left a torn frame", t)
				return
			}
			s.evs = append(s.evs, fmt.Sprintf("WEnq %d", t))
		} else {
			enq = append(enq, t)
		}
	}
	if len(enq) > 0 {
		before := len(s.rc.calls())
		m.queued = enq
		evAt := len(s.evs)
		m.fire()
		// order of the batch: written ones in call order, then the rest
		order := batchOrder(s, enq, s.rc.calls()[before:])
		var ins []string
		for _, t := range order {
			ins = append(ins, fmt.Sprintf("WEnq %d", t))
		}
		s.evs = append(s.evs[:evAt], append(ins, s.evs[evAt:]...)...)
	}
	m.finish()
}

// batchOrder: the order of a flushed batch as far as it matters: frames in the order their Write
// calls appear, then the members that were never handed to Write.
func batchOrder(s *scen, members []int, calls []*callRec) []int {
	var order []int
	seen := map[int]bool{}
	for _, c := range calls {
		if c.isDl {
			continue
		}
		t := frameIndex(s.frames, c.p)
		if t < 0 {
			t = 9999
		}
		if !seen[t] {
			order = append(order, t)
			seen[t] = true
		}
	}
	for _, t := range members {
		if !seen[t] {
			order = append(order, t)
		}
	}
	return order
}

// runCoalTimed: the real flusher with a real timer of the given window; all writers at once.
func (s *scen) runCoalTimed(window time.Duration) {
	s.setup()
	quit := make(chan struct{})
	w := gocql.VerifC07NewCoalescer(s.rc, s.timeout(), window, quit, nil, nil)
	var ws []*writerCtl
	for t := range s.frames {
		ws = append(ws, s.start(w, t))
	}
	for _, wc := range ws {
		if !waitDone(wc, watchdog) {
			s.anomaly = "writer never returned"
			return
		}
	}
	close(quit)
	// reconstruct the batches: the SetWriteDeadline calls separate the flushes (hasTo is always on here)
	assigned := map[int]bool{}
	for t, r := range s.results {
		if r.done && r.n == 0 && r.err != nil && (errName(r.err) == "ECanceled" || errName(r.err) == "EDeadlineExceeded") && frameWritten(s, t) < 0 {
			s.evs = append(s.evs, fmt.Sprintf("WCtx %d %s", t, errName(r.err)))
			assigned[t] = true
		}
	}
	calls := s.rc.calls()
	var flushes [][]*callRec
	for _, c := range calls {
		if c.isDl {
			flushes = append(flushes, nil)
			continue
		}
		if len(flushes) == 0 {
			flushes = append(flushes, nil)
		}
		flushes[len(flushes)-1] = append(flushes[len(flushes)-1], c)
	}
	for fi, fl := range flushes {
		var members []int
		var failCode int64 = -1
		for _, c := range fl {
			t := frameIndex(s.frames, c.p)
			if t < 0 {
				t = 9999
			}
			members = append(members, t)
			assigned[t] = true
			if c.err != nil {
				failCode = errCode(c.err)
			}
		}
		// members never handed to Write: they carry the failing call's error with n = 0
		if failCode >= 0 {
			for t, r := range s.results {
				if !assigned[t] && r.done && r.n == 0 && r.err != nil && errCode(r.err) == failCode {
					members = append(members, t)
					assigned[t] = true
				}
			}
		}
		if len(members) == 0 && fi == len(flushes)-1 {
			// a flush of nothing cannot happen; let the model disagree
			members = append(members, 9999)
		}
		for _, t := range members {
			s.evs = append(s.evs, fmt.Sprintf("WEnq %d", t))
		}
		s.evs = append(s.evs, "WFlush")
	}
	for t := range s.frames {
		if !assigned[t] {
			// no Write call and not a member of a failing flush: received by the flusher after a torn flush and
			// refused - or unaccounted for, then the model disagrees
			s.evs = append(s.evs, fmt.Sprintf("WEnq %d", t))
		}
	}
}

// ---- emitting the case and the monitors ------------------------------------------------------

func (s *scen) callsTerm() string {
	var cs []string
	for _, c := range s.rc.calls() {
		if c.isDl {
			continue
		}
		t := frameIndex(s.frames, c.p)
		if t < 0 {
			t = 9999
		}
		cs = append(cs, hlib.Pair(hlib.Z(int64(t)), hlib.Z(int64(c.n))))
	}
	return hlib.List(cs)
}

func (s *scen) term() string {
	var cd []string
	for t, b := range s.ctxEver {
		if b {
			cd = append(cd, hlib.Pair(hlib.Z(int64(t)), "ECanceled")) // the harness only ever cancels
		}
	}
	if s.big {
		return s.bigTerm()
	}
	wire := s.link.C2S.Bytes()
	evs := hlib.List(s.evs)
	if s.coalesce {
		return fmt.Sprintf("CCoal %s %s %s %s %s %s %s %s %s", hlib.Bool(s.hasTo), framesTerm(s.frames), hlib.List(cd),
			faultsTerm(s.faults), dlFailTerm(s.dlFail), evs, resultsTerm(s.results), hlib.ZList(wire), s.callsTerm())
	}
	return fmt.Sprintf("CDirect %s %s %s %s %s %s %s %s %s %s", hlib.Bool(s.hasTo), framesTerm(s.frames), hlib.List(cd), hlib.Bool(s.quit),
		faultsTerm(s.faults), dlFailTerm(s.dlFail), evs, resultsTerm(s.results), hlib.ZList(wire), s.callsTerm())
}

func (s *scen) describe() map[string]interface{} {
	var fl []string
	for _, f := range s.faults {
		fl = append(fl, f.term())
	}
	var lens []int
	for _, f := range s.frames {
		lens = append(lens, len(f))
	}
	if s.big {
		return map[string]interface{}{"scenario": s.kind, "id": s.id, "coalesce": s.coalesce, "has_timeout": s.hasTo,
			"frames": fmt.Sprintf("%d body-less frames of %d bytes", len(s.frames), len(s.frames[0])), "rounds": s.rounds, "faults": fl}
	}
	return map[string]interface{}{"scenario": s.kind, "id": s.id, "coalesce": s.coalesce, "has_timeout": s.hasTo, "frame_lens": lens,
		"faults": fl, "events": s.evs, "pre_cancelled": s.preDone}
}

// emit records the case and runs the property monitors on what the implementation did.
func (s *scen) emit(o *hlib.Out) {
	if s.anomaly != "" && len(s.anomaly) > 4 && s.anomaly[:4] == "env:" {
		o.Count("env-anomaly-skipped")
		return
	}
	if !s.coalesce && s.evs == nil {
		s.directEvents()
	}
	nontrivial := len(s.faults) > 0 || len(s.frames) > 1 || len(s.dlFail) > 0
	idx := o.Case(s.kind, nontrivial, s.term())
	if s.anomaly != "" {
		kind := "hang"
		if strings.Contains(s.anomaly, "queued for writing") {
			kind = "queued-after-torn-frame-or-done-context"
		}
		o.Violate(idx, kind, "", s.anomaly, s.describe())
		hangs++
		if hangs >= 3 {
			// something is badly wrong (a writer that never returns): report what we have instead of
			// waiting out the watchdog in every remaining scenario
			finish(o)
			os.Exit(0)
		}
		return
	}
	s.monitors(o, idx)
}

// monitors: the property, evaluated on what the implementation did.  Everything is judged on the recorded
// byte stream and the callers' return values; the Write-call records are used only to know how many bytes of
// which frame the connection accepted (when every call carried exactly one frame - otherwise those checks are
// left to the correspondence) and to tell "began after the torn write had returned" from "overlapped it".
func (s *scen) monitors(o *hlib.Out, idx int) {
	calls := s.rc.calls()
	wire := s.link.C2S.Bytes()
	viol := func(kind, finding, detail string) { o.Violate(idx, kind, finding, detail, s.describe()) }

	callsClean := true
	seen := map[int]int{}
	callOf := map[int]*callRec{}
	for _, c := range calls {
		if c.isDl {
			continue
		}
		t := frameIndex(s.frames, c.p)
		if t < 0 {
			callsClean = false
			continue
		}
		seen[t]++
		callOf[t] = c
		if seen[t] > 1 {
			callsClean = false
		}
	}
	// per writer
	for t, r := range s.results {
		if !r.done || s.nilFaults {
			continue
		}
		f := s.frames[t]
		if r.err == nil && (r.n != len(f) || !bytes.Contains(wire, f)) {
			viol("success-without-whole-frame", "", fmt.Sprintf("writer %d was told (%d, nil) for a %d-byte frame; whole frame on the wire: %v", t, r.n, len(f), bytes.Contains(wire, f)))
		}
		if r.n < len(f) && r.err == nil {
			viol("short-without-error", "", fmt.Sprintf("writer %d: n=%d < %d with a nil error", t, r.n, len(f)))
		}
		if !callsClean {
			continue
		}
		c := callOf[t]
		accepted := 0
		if c != nil {
			accepted = c.n
		}
		if r.n != accepted {
			viol("count-mismatch", "", fmt.Sprintf("writer %d was told n=%d but the connection accepted %d bytes of its frame", t, r.n, accepted))
		}
		if r.err != nil && (errName(r.err) == "ECanceled" || errName(r.err) == "EDeadlineExceeded") && accepted > 0 {
			viol("cancelled-but-wrote", "", fmt.Sprintf("writer %d returned %v although %d bytes of its frame are on the wire", t, r.err, accepted))
		}
		if s.preDone[t] && accepted > 0 {
			viol("ctx-done-before-start-wrote", "", fmt.Sprintf("writer %d: context was already done when writeContext was called, yet %d bytes of its frame were written (result %d, %v)", t, accepted, r.n, r.err))
		}
	}
	// the wire is whole frames, each once, then at most one torn frame
	if s.nilFaults {
		return // the connection itself broke the io.Writer contract in this scenario
	}
	s.wireShape(o, idx, wire, calls)
}

func (s *scen) wireShape(o *hlib.Out, idx int, wire []byte, calls []*callRec) {
	frames, tail := splitWire(wire)
	ok := true
	used := map[int]bool{}
	for _, f := range frames {
		t := frameIndex(s.frames, f)
		if t < 0 || used[t] {
			ok = false
			break
		}
		used[t] = true
	}
	if ok && len(tail) > 0 {
		pre := false
		for t, f := range s.frames {
			if !used[t] && len(tail) < len(f) && bytes.Equal(f[:len(tail)], tail) {
				pre = true
			}
		}
		ok = pre
	}
	if ok {
		return
	}
	detail := fmt.Sprintf("bytes on the wire are not <whole frames><at most one torn frame>: %d whole frame(s) parsed, %d unparsable bytes follow", len(frames), len(tail))
	// a torn Write followed by more bytes is reported under its own name (it used to be known finding F-C07-1,
	// fixed: both writers now refuse to write after a torn Write)
	var torn *callRec
	for _, c := range calls {
		if c.isDl {
			continue
		}
		if torn != nil && c.n > 0 && c.start > torn.end {
			o.Violate(idx, "frame-after-torn-frame", "", detail, s.describe())
			return
		}
		if torn == nil && c.n > 0 && c.n < len(c.p) {
			torn = c
		}
	}
	o.Violate(idx, "wire-shape", "", detail, s.describe())
}
