package main

import (
	"bytes"
	"context"
	"errors"
	"fmt"
	"io"
	"net"
	"os"
	"strings"
	"sync"
	"time"

	"github.com/gocql/gocql"
	"gocqlverif/hlib"
	"gocqlverif/node"
)

// codeErr is an injected error with a number the model can name (EOther code).
type codeErr struct{ code int64 }

func (e codeErr) Error() string { return fmt.Sprintf("injected error %d", e.code) }

const (
	codeTimeout   = 1000 // a net timeout error (write deadline passed)
	codeNetClosed = 1001 // net.ErrClosed / broken pipe
	codeUnknown   = 9999
)

// errTerm maps an error to the model's [err] (as a Coq term of type option err).
func errTerm(err error) string {
	if err == nil {
		return "None"
	}
	return hlib.Some(errName(err))
}

func errName(err error) string {
	var ce codeErr
	switch {
	case errors.Is(err, context.Canceled):
		return "ECanceled"
	case errors.Is(err, context.DeadlineExceeded):
		return "EDeadlineExceeded"
	case errors.Is(err, gocql.ErrConnectionClosed):
		return "EConnClosed"
	case errors.Is(err, io.ErrShortWrite):
		return "EShortWrite"
	case errors.Is(err, io.EOF):
		return "EEOF"
	case errors.As(err, &ce):
		return fmt.Sprintf("(EOther %d)", ce.code)
	case errors.Is(err, os.ErrDeadlineExceeded):
		return fmt.Sprintf("(EOther %d)", codeTimeout)
	case errors.Is(err, net.ErrClosed):
		return fmt.Sprintf("(EOther %d)", codeNetClosed)
	}
	return fmt.Sprintf("(EOther %d)", codeUnknown)
}

func errCode(err error) int64 {
	var ce codeErr
	if errors.As(err, &ce) {
		return ce.code
	}
	return -1
}

// ---- recording connection: wraps the client end of a node.Link --------------------------------

type callRec struct {
	isDl    bool
	dlErr   error
	p       []byte // copy of the buffer handed to Write
	n       int
	err     error
	overlap bool  // another call of this connection was in progress when this one entered
	start   int64 // logical time at which the call entered
	end     int64 // logical time at which the call returned
}

func (c *callRec) endTick() int64 { return c.end }

type recConn struct {
	inner net.Conn
	mu    sync.Mutex
	log   []*callRec
	dlN   int
	dlErr map[int]int64 // ordinal of the SetWriteDeadline call -> code it fails with
	busy  int
	cond  *sync.Cond
}

func newRecConn(inner net.Conn, dlFail map[int]int64) *recConn {
	c := &recConn{inner: inner, dlErr: dlFail}
	c.cond = sync.NewCond(&c.mu)
	return c
}

func (c *recConn) SetWriteDeadline(t time.Time) error {
	c.mu.Lock()
	r := &callRec{isDl: true, overlap: c.busy > 0}
	k := c.dlN
	c.dlN++
	if code, ok := c.dlErr[k]; ok {
		r.dlErr = codeErr{code}
	}
	c.log = append(c.log, r)
	c.cond.Broadcast()
	c.mu.Unlock()
	if r.dlErr != nil {
		return r.dlErr
	}
	err := c.inner.SetWriteDeadline(t)
	if err != nil {
		c.mu.Lock()
		r.dlErr = err // e.g. the connection has been closed meanwhile
		c.mu.Unlock()
	}
	return err
}

// clear forgets what has been recorded so far (connection-level scenarios: startup traffic).
func (c *recConn) clear() {
	c.mu.Lock()
	c.log = nil
	c.dlN = 0
	c.mu.Unlock()
}

// errNum is the number the model knows an error of the connection by (EOther n).
func errNum(err error) int64 {
	var ce codeErr
	switch {
	case errors.As(err, &ce):
		return ce.code
	case errors.Is(err, os.ErrDeadlineExceeded):
		return codeTimeout
	case errors.Is(err, net.ErrClosed):
		return codeNetClosed
	}
	return codeUnknown
}

// tconn is a net.Conn whose SetWriteDeadline / Write calls are recorded (whole sessions: handed out by tdialer).
type tconn struct {
	net.Conn
	rc *recConn
}

func (t *tconn) Write(p []byte) (int, error)        { return t.rc.Write(p) }
func (t *tconn) SetWriteDeadline(d time.Time) error { return t.rc.SetWriteDeadline(d) }
func (t *tconn) SetDeadline(d time.Time) error      { return t.Conn.SetDeadline(d) }

type tdialer struct {
	inner interface {
		DialContext(ctx context.Context, network, addr string) (net.Conn, error)
	}
	mu    sync.Mutex
	conns []*tconn
}

func (d *tdialer) DialContext(ctx context.Context, network, addr string) (net.Conn, error) {
	c, err := d.inner.DialContext(ctx, network, addr)
	if err != nil {
		return nil, err
	}
	t := &tconn{Conn: c, rc: newRecConn(c, nil)}
	d.mu.Lock()
	d.conns = append(d.conns, t)
	d.mu.Unlock()
	return t, nil
}

func (d *tdialer) last() *tconn {
	d.mu.Lock()
	defer d.mu.Unlock()
	if len(d.conns) == 0 {
		return nil
	}
	return d.conns[len(d.conns)-1]
}

func (c *recConn) Write(p []byte) (int, error) {
	c.mu.Lock()
	r := &callRec{p: append([]byte(nil), p...), overlap: c.busy > 0, n: -1, start: tick()}
	c.busy++
	c.log = append(c.log, r)
	c.cond.Broadcast()
	c.mu.Unlock()
	n, err := c.inner.Write(p)
	c.mu.Lock()
	r.n, r.err = n, err
	r.end = tick()
	c.busy--
	c.cond.Broadcast()
	c.mu.Unlock()
	return n, err
}

func (c *recConn) calls() []*callRec {
	c.mu.Lock()
	defer c.mu.Unlock()
	return append([]*callRec(nil), c.log...)
}

// waitCalls waits until at least n calls have been recorded (or d passed).
func (c *recConn) waitCalls(n int, d time.Duration) bool {
	deadline := time.Now().Add(d)
	c.mu.Lock()
	defer c.mu.Unlock()
	for len(c.log) < n {
		if time.Now().After(deadline) {
			return false
		}
		c.mu.Unlock()
		time.Sleep(50 * time.Microsecond)
		c.mu.Lock()
	}
	return true
}

// ---- frames ----------------------------------------------------------------------------------

// mkFrame builds a well-formed protocol-4 request frame for request t of scenario sc: a QUERY whose
// text carries (sc, t) and pad bytes of padding, or (pad < 0) a body-less OPTIONS frame.
func mkFrame(sc, t, pad int) []byte {
	if pad < 0 {
		return node.RawFrame(4, 0, t+1, node.OpOptions, nil)
	}
	q := fmt.Sprintf("q%03d.%02d", sc%1000, t%100) + strings.Repeat("x", pad)
	b := (&node.Buf{}).LongString(q).Short(1).Byte(0)
	return node.RawFrame(4, 0, t+1, node.OpQuery, b.B)
}

// splitWire is the independent parser: whole frames by the header's length field, then the rest.
func splitWire(w []byte) (frames [][]byte, tail []byte) {
	for len(w) > 0 {
		h, err := node.ParseHeader(w)
		if err != nil {
			return frames, w
		}
		total := node.HeaderSize(h.Proto()) + int(h.Length)
		if h.Length < 0 || total > len(w) {
			return frames, w
		}
		frames = append(frames, w[:total])
		w = w[total:]
	}
	return frames, nil
}

func frameIndex(frames [][]byte, p []byte) int {
	for i, f := range frames {
		if bytes.Equal(f, p) {
			return i
		}
	}
	return -1
}

// ---- fault scripts ---------------------------------------------------------------------------

type fault struct {
	off  int64
	kind int // 0 one-shot error, 1 short count with nil error, 2 sticky error
	code int64
}

const (
	fkErr = iota
	fkNil
	fkSticky
)

func (f fault) term() string {
	switch f.kind {
	case fkNil:
		return hlib.Pair(hlib.Z(f.off), "FkNil")
	case fkSticky:
		return hlib.Pair(hlib.Z(f.off), fmt.Sprintf("(FkSticky %d)", f.code))
	}
	return hlib.Pair(hlib.Z(f.off), fmt.Sprintf("(FkErr %d)", f.code))
}

func applyFaults(st *node.Stream, fs []fault) {
	for _, f := range fs {
		switch f.kind {
		case fkNil:
			st.AddWriteFault(node.WriteFault{Offset: f.off, NilErr: true})
		case fkSticky:
			st.AddWriteFault(node.WriteFault{Offset: f.off, Err: codeErr{f.code}, Sticky: true})
		default:
			st.AddWriteFault(node.WriteFault{Offset: f.off, Err: codeErr{f.code}})
		}
	}
}

func faultsTerm(fs []fault) string {
	var s []string
	for _, f := range fs {
		s = append(s, f.term())
	}
	return hlib.List(s)
}

func dlFailTerm(m map[int]int64) string {
	var s []string
	for k := 0; k < 64; k++ {
		if c, ok := m[k]; ok {
			s = append(s, hlib.Pair(hlib.Z(int64(k)), hlib.Z(c)))
		}
	}
	return hlib.List(s)
}

type result struct {
	n    int
	err  error
	done bool
}

func resultsTerm(rs []result) string {
	var s []string
	for _, r := range rs {
		if !r.done {
			s = append(s, "None")
		} else {
			s = append(s, hlib.Some(hlib.Pair(hlib.Z(int64(r.n)), errTerm(r.err))))
		}
	}
	return hlib.List(s)
}

func framesTerm(fs [][]byte) string {
	var s []string
	for _, f := range fs {
		s = append(s, hlib.ZList(f))
	}
	return hlib.List(s)
}

func intsTerm(xs []int) string {
	var s []string
	for _, x := range xs {
		s = append(s, hlib.Z(int64(x)))
	}
	return hlib.List(s)
}
