package main

// A context that ends after the flusher has accepted the frame: inside the coalescing window, or while the flush that
// carries the frame is blocked in Write.  writeContext must keep waiting for the flush result ("context is ignored
// after we start writing"): a caller told (0, err) must have none of its frame's bytes on the wire at any later time.
// The schedule is forced: harness-owned timer, the cancellation happens strictly between hand-off and flush result.

import (
	"fmt"
	"time"

	"gocqlverif/hlib"
	"gocqlverif/node"
)

// runCoalCancelQueued: all writers are handed to the flusher one by one; the contexts of those in cancel end; then the
// timer fires.  stallOff >= 0: the flush is started first and blocks in Write at that offset, the contexts end while
// it is blocked, then the stall is released.
func (s *scen) runCoalCancelQueued(cancel []int, stallOff int) {
	s.setup()
	if stallOff >= 0 {
		s.link.C2S.AddWriteFault(node.WriteFault{Offset: int64(stallOff), Stall: true})
	}
	m := s.newManual()
	for t := range s.frames {
		m.launch(t)
		if s.anomaly != "" {
			return
		}
	}
	end := func() {
		for _, t := range cancel {
			m.ws[t].cancel()
			s.evs = append(s.evs, fmt.Sprintf("WCtxEnd %d ECanceled", t))
			// nothing to wait for on the correct code (the writer keeps waiting for its result); a writer that
			// gives up here shows within microseconds
			waitDone(m.ws[t], 10*time.Millisecond)
		}
	}
	if stallOff < 0 {
		end()
		m.fire()
	} else {
		for i := 0; len(m.queued) > 0 && m.armedNow() == 0 && i < 200000; i++ {
			time.Sleep(10 * time.Microsecond)
		}
		m.disarm()
		if !m.fireAsync() {
			return
		}
		if !s.link.C2S.WaitWritten(int64(stallOff), watchdog) {
			s.anomaly = "flush never reached the stall"
			return
		}
		time.Sleep(200 * time.Microsecond)
		end()
		s.link.C2S.ReleaseStall()
		select {
		case <-m.flushed:
		case <-time.After(watchdog):
			s.anomaly = "stalled flush never finished"
			return
		}
		s.evs = append(s.evs, "WFlush")
		for _, t := range m.queued {
			waitDone(m.ws[t], watchdog)
		}
		m.queued = nil
	}
	m.finish()
}

func cancelQueuedLevel(o *hlib.Out) {
	r := o.Rng
	n := 0
	for k := 1; k <= 6; k++ {
		for v := 0; v < 3; v++ {
			s := newScen("coal-cancel-after-handoff", true, (k+v)%2 == 0).withFrames(randPads(r, k)...)
			var cancel []int
			switch v {
			case 0:
				cancel = []int{k - 1}
			case 1:
				cancel = []int{0}
			default:
				for t := 0; t < k; t += 2 {
					cancel = append(cancel, t)
				}
			}
			stall := -1
			if n%2 == 1 {
				stall = 1 + r.Intn(total(s.frames)-1) // the flush blocks somewhere inside the batch
			}
			if n%3 == 2 && stall < 0 {
				s.faults = []fault{{off: int64(r.Intn(total(s.frames))), kind: fkErr, code: 16}}
			}
			n++
			s.runCoalCancelQueued(cancel, stall)
			s.emit(o)
		}
	}
}
