// C07 harness: frames are written whole.
//
// Writer level: the real deadlineContextWriter and writeCoalescer (add-only shim verif_shim_c07.go) write
// request frames to an in-memory connection (gocqlverif/node pipe) whose write behaviour is scripted:
// an error / a short count / a persistent error at every byte offset of every frame of a batch,
// failing SetWriteDeadline calls, stalls, expiring write deadlines, contexts that end before the call or
// while waiting, a closed quit channel; 1..16 concurrent writers; coalescing window none / harness-owned
// timer / 200us / 5ms.  Every scenario becomes one correspondence case (inputs, the order in which the
// writers reached the connection as read off the recorded Write calls, and what the implementation
// returned / put on the wire) that the Coq model is evaluated on, and is checked by property monitors
// written against the recorded bytes (parsed back into frames with the node package's codec).
//
// Connection level: whole gocql sessions against the scripted node; see connlevel.go.
package main

import (
	"fmt"
	"time"

	"gocqlverif/hlib"
)

var scenN int

func newScen(kind string, coalesce, hasTo bool) *scen {
	scenN++
	return &scen{id: scenN, kind: kind, coalesce: coalesce, hasTo: hasTo}
}

// frames of the given paddings (-1: header-only OPTIONS frame)
func (s *scen) withFrames(pads ...int) *scen {
	for t, p := range pads {
		s.frames = append(s.frames, mkFrame(s.id, t, p))
	}
	return s
}

func total(fs [][]byte) int {
	n := 0
	for _, f := range fs {
		n += len(f)
	}
	return n
}

func randPads(r *hlib.Rng, k int) []int {
	pads := make([]int, k)
	for i := range pads {
		if r.Chance(10) {
			pads[i] = -1
		} else {
			pads[i] = r.Intn(10)
		}
	}
	return pads
}

func randFaults(r *hlib.Rng, tot int, max int, allowSticky bool) []fault {
	var fs []fault
	n := r.Intn(max + 1)
	last := int64(-1)
	for i := 0; i < n; i++ {
		off := last + 1 + int64(r.Intn(tot+2))
		if off > int64(tot)+3 {
			break
		}
		k := fkErr
		switch r.Intn(6) {
		case 0:
			k = fkNil
		case 1:
			if allowSticky {
				k = fkSticky
			}
		}
		fs = append(fs, fault{off: off, kind: k, code: int64(100 + i)})
		last = off
	}
	return fs
}

func perm(r *hlib.Rng, k int) []int {
	p := make([]int, k)
	for i := range p {
		p[i] = i
	}
	for i := k - 1; i > 0; i-- {
		j := r.Intn(i + 1)
		p[i], p[j] = p[j], p[i]
	}
	return p
}

func main() {
	o := hlib.Init("C07")
	r := o.Rng
	o.Rule = "one case = one scenario (writer kind, frames, fault script, cancellations, observed writer order, results, wire, Write calls); " +
		"distinct = distinct Coq case term; non-trivial = has a scripted fault or a failing SetWriteDeadline or more than one writer"
	sc := o.Scale

	// ---------------------------------------------------------------- G1: one flush, every offset
	shapes := [][]int{{-1}, {3}, {0, 5}, {2, -1, 7}, {1, 4, 0, 3}}
	if o.Tier == "thorough" || o.Search {
		shapes = append(shapes, []int{6, 6, 6}, []int{-1, -1, 2, -1}, []int{0, 1, 2, 3, 4, 5})
	}
	for si, pads := range shapes {
		tot := total(newScen("x", true, true).withFrames(pads...).frames)
		for off := 0; off <= tot; off++ {
			for kind := 0; kind < 3; kind++ {
				if kind != fkErr && off%3 != si%3 {
					continue
				}
				s := newScen("flush-offset-sweep", true, (off+kind)%2 == 0).withFrames(pads...)
				s.faults = []fault{{off: int64(off), kind: kind, code: 7}}
				s.runFlush()
				s.emit(o)
			}
		}
	}
	// G2: flush, other shapes: failing SetWriteDeadline, two faults, an empty buffer, random
	for k := 1; k <= 5; k++ {
		s := newScen("flush-deadline-fails", true, true).withFrames(randPads(r, k)...)
		s.dlFail = map[int]int64{0: 55}
		s.runFlush()
		s.emit(o)
	}
	for i := 0; i < 6; i++ {
		s := newScen("flush-empty-buffer", true, i%2 == 0).withFrames(2, 0, 1)
		s.frames[i%3] = []byte{}
		if i >= 3 {
			s.faults = []fault{{off: int64(len(s.frames[0]) + i - 3), kind: fkErr, code: 8}}
		}
		s.runFlush()
		s.emit(o)
	}
	for i := 0; i < 150*sc; i++ {
		k := 1 + r.Intn(16)
		s := newScen("flush-random", true, r.Bool()).withFrames(randPads(r, k)...)
		s.faults = randFaults(r, total(s.frames), 2, true)
		s.runFlush()
		s.emit(o)
	}

	// ---------------------------------------------------------------- G3: direct writer, sequential calls
	{
		pads := []int{2, 5, -1}
		tot := total(newScen("x", false, true).withFrames(pads...).frames)
		for off := 0; off <= tot; off++ {
			for kind := 0; kind < 3; kind++ {
				if kind != fkErr && off%3 != 1 {
					continue
				}
				s := newScen("direct-seq-offset-sweep", false, (off+kind)%2 == 1).withFrames(pads...)
				s.faults = []fault{{off: int64(off), kind: kind, code: 9}}
				s.runDirectSeq(perm(r, 3))
				s.emit(o)
			}
		}
	}
	for i := 0; i < 100*sc; i++ {
		k := 1 + r.Intn(6)
		s := newScen("direct-seq-random", false, r.Bool()).withFrames(randPads(r, k)...)
		s.faults = randFaults(r, total(s.frames), 2, true)
		s.preDone = make([]bool, k)
		for t := range s.preDone {
			s.preDone[t] = r.Chance(20)
		}
		if s.hasTo && r.Chance(30) {
			s.dlFail = map[int]int64{r.Intn(k): 60, r.Intn(k) + k: 61}
		}
		s.quit = r.Chance(10)
		s.runDirectSeq(perm(r, k))
		s.emit(o)
	}
	// G4: direct writer, all writers at once, 1..16
	for i := 0; i < 96*sc; i++ {
		k := 1 + i%16
		s := newScen("direct-concurrent", false, r.Bool()).withFrames(randPads(r, k)...)
		s.faults = randFaults(r, total(s.frames), 2, i%3 == 0)
		s.preDone = make([]bool, k)
		for t := range s.preDone {
			s.preDone[t] = r.Chance(10)
		}
		s.runDirectConc()
		s.emit(o)
	}
	// G5: direct writer: the first writer stalls mid-frame holding the semaphore, the others queue up behind it
	{
		la := len(mkFrame(0, 0, 3))
		step := 1
		if sc == 1 {
			step = 2
		}
		for off := 0; off < la; off += step {
			for fail := 0; fail < 2; fail++ {
				k := 2 + (off+fail)%3
				pads := append([]int{3}, randPads(r, k-1)...)
				s := newScen("direct-stall", false, off%2 == 0).withFrames(pads...)
				if fail == 1 {
					s.faults = []fault{{off: int64(off + 1), kind: fkErr, code: 11}}
				}
				s.preDone = make([]bool, k)
				var cw []int
				if k >= 3 && off%3 == 0 {
					cw = []int{k - 1}
				}
				if k >= 4 {
					s.preDone[k-2] = true
				}
				s.runDirectStall(off, cw)
				s.emit(o)
			}
		}
	}
	// G6: direct writer: the write deadline expires in the middle of a frame
	for i := 0; i < 2+sc/4; i++ {
		for attempt := 0; attempt < 3; attempt++ {
			s := newScen("direct-deadline-expires", false, true).withFrames(4, 1, 2)
			off := 1 + (i*7)%(len(s.frames[0])-1)
			s.faults = []fault{{off: int64(off), kind: fkErr, code: codeTimeout}}
			// the script entry stands for the deadline expiry; nothing is injected for it
			saved := s.faults
			s.faults = nil
			s.runDirectTimeout(off, 25*time.Millisecond)
			s.faults = saved
			if s.anomaly == "" || s.anomaly[:4] != "env:" || attempt == 2 {
				s.emit(o)
				break
			}
		}
	}

	// ---------------------------------------------------------------- G7: coalescer with the harness's timer
	{
		pads := []int{1, -1, 4}
		tot := total(newScen("x", true, true).withFrames(pads...).frames)
		for off := 0; off <= tot; off++ {
			s := newScen("coal-manual-offset-sweep", true, off%2 == 0).withFrames(pads...)
			s.faults = []fault{{off: int64(off), kind: off % 3 % 2 * 2, code: 12}} // error, error, sticky error ...
			if off%3 == 1 {
				s.faults[0].kind = fkNil
			}
			s.runCoalManual([][]int{{2, 0, 1}}, -1)
			s.emit(o)
		}
		// two rounds: what the second flush does after the first one failed
		pads = []int{0, 3, 2, -1}
		tot = total(newScen("x", true, true).withFrames(pads...).frames)
		for off := 0; off <= tot; off += 2 {
			s := newScen("coal-manual-two-rounds", true, off%4 == 0).withFrames(pads...)
			s.faults = []fault{{off: int64(off), kind: fkErr, code: 13}}
			s.runCoalManual([][]int{{0, 1}, {2, 3}}, -1)
			s.emit(o)
		}
	}
	// several coalescing windows after a torn flush: request -> timer -> request -> timer -> request, windows with
	// 0, 1 and 2 requests; everything after the torn flush must be refused with zero bytes, in every window
	{
		layouts := [][][]int{
			{{0, 1}, {2}, {3}, {4}, {5}},
			{{0, 1}, {}, {2, 3}, {}, {4, 5}},
			{{0}, {1, 2}, {3, 4}, {5}},
			{{0, 1, 2}, {3}, {}, {}, {4}, {5}},
		}
		pads := []int{1, -1, 4, 0, 2, 3}
		for li, rounds := range layouts {
			first := 0
			fr := newScen("x", true, true).withFrames(pads...).frames
			for _, t := range rounds[0] {
				first += len(fr[t])
			}
			step := 3
			if sc > 1 {
				step = 1
			}
			for off := 0; off <= first; off += step {
				s := newScen("coal-manual-windows", true, (off+li)%2 == 0).withFrames(pads...)
				s.faults = []fault{{off: int64(off), kind: fkErr, code: 15}}
				if off%4 == 3 {
					s.faults[0].kind = fkSticky
				}
				s.runCoalManual(rounds, -1)
				s.emit(o)
			}
		}
	}
	for i := 0; i < 144*sc; i++ {
		k := 1 + i%16
		s := newScen("coal-manual-random", true, r.Bool()).withFrames(randPads(r, k)...)
		s.faults = randFaults(r, total(s.frames), 2, true)
		s.preDone = make([]bool, k)
		for t := range s.preDone {
			s.preDone[t] = r.Chance(12)
		}
		if s.hasTo && r.Chance(20) {
			s.dlFail = map[int]int64{r.Intn(2): 62}
		}
		p := perm(r, k)
		var rounds [][]int
		for len(p) > 0 {
			n := 1 + r.Intn(len(p))
			rounds = append(rounds, p[:n])
			p = p[n:]
		}
		quitAfter := -1
		if r.Chance(25) {
			quitAfter = r.Intn(len(rounds))
		}
		s.runCoalManual(rounds, quitAfter)
		s.emit(o)
	}
	// G8: coalescer: the flush stalls mid-frame, more writers arrive and block, then the flush fails / completes
	{
		pads := []int{2, 0, 1, 3, -1}
		f0 := newScen("x", true, true).withFrames(pads...).frames
		tot0 := len(f0[0]) + len(f0[1])
		step := 2
		if sc > 1 {
			step = 1
		}
		for off := 0; off < tot0; off += step {
			for fail := 0; fail < 2; fail++ {
				s := newScen("coal-stall", true, (off/step)%2 == 0).withFrames(pads...)
				if fail == 1 {
					s.faults = []fault{{off: int64(off + 1), kind: fkErr, code: 14}}
				}
				s.preDone = make([]bool, 5)
				var cw []int
				if off%3 == 0 {
					cw = []int{4}
				}
				if off%5 == 0 {
					s.preDone[3] = true
				}
				s.runCoalStall([]int{0, 1}, []int{2, 3, 4}, off, cw)
				s.emit(o)
			}
		}
	}
	// G9: coalescer with its real timer: 200us and 5ms windows, 1..16 writers at once
	for _, win := range []time.Duration{200 * time.Microsecond, 5 * time.Millisecond} {
		reps := 32 * sc
		if win > time.Millisecond && sc > 4 {
			reps = 32 * 4
		}
		for i := 0; i < reps; i++ {
			k := 1 + i%16
			s := newScen(fmt.Sprintf("coal-timed-%v", win), true, true).withFrames(randPads(r, k)...)
			s.faults = randFaults(r, total(s.frames), 2, false)
			s.preDone = make([]bool, k)
			for t := range s.preDone {
				s.preDone[t] = r.Chance(8)
			}
			s.runCoalTimed(win)
			s.emit(o)
		}
	}

	cancelQueuedLevel(o)
	bigLevel(o)

	connLevel(o)
	tcpLevel(o)

	finish(o)
}

func finish(o *hlib.Out) {
	o.Finish("From GocqlV Require Import Lib.Base C07.Model C07.Corr.", "C07.Corr.case", "C07.Corr.run")
}
