// End to end: a real gocql.Session on the scripted in-memory cluster (harness/node) with a token-aware
// policy over the DC-aware / rack-aware / round-robin policies.  Every node answers the EXECUTE of the
// test statement with an Overloaded error and the retry policy says "next host", so one query walks the
// whole host sequence of its Pick: the order in which the nodes see the EXECUTE is the sequence the
// query executor consumed.  The routing key comes from the prepared statement's metadata (bound value of
// the partition key), the replica map from the keyspace the nodes report, the hosts and their tokens
// from system.local / system.peers.  The observed order is replayed through the Coq model like any
// other history (policy state read back through the shim just before the query) and checked by the
// same spec-side monitors.
package main

import (
	"context"
	"fmt"
	"net"
	"sort"
	"strings"
	"time"

	"github.com/gocql/gocql"
	"gocqlverif/hlib"
	"gocqlverif/node"
)

// retry on the next host, for ever (the host sequence ends the query)
type nextHostRetry struct{}

func (nextHostRetry) Attempt(gocql.RetryableQuery) bool  { return true }
func (nextHostRetry) GetRetryType(error) gocql.RetryType { return gocql.RetryNextHost }

type discardLog struct{}

func (discardLog) Print(v ...interface{})                 {}
func (discardLog) Printf(format string, v ...interface{}) {}
func (discardLog) Println(v ...interface{})               {}

// the session's default keyspace is demo; the second table lives in another keyspace with a different
// replication, so that a Pick which resolves the query's keyspace wrongly walks the wrong replicas
const e2eStmt = `SELECT k, v FROM kv WHERE k = ?`
const e2eStmtOther = `SELECT k, v FROM other.kv2 WHERE k = ?`

func e2eOne(o *hlib.Out, r *hlib.Rng, stats map[string]int, variant int) {
	nNodes := 4 + r.Intn(4)
	nDC := 1 + r.Intn(3)
	cfgp := polCfg{kind: 1 + variant%2, ldc: 1, lrack: 1, ta: true, nlrf: variant%4 >= 2}
	if variant%7 == 6 {
		cfgp.kind = 0
	}
	n := node.NewNet()
	defer n.Close()
	type nd struct {
		addr string
		h    *hostT
		n    *node.Node
	}
	var nodes []*nd
	rfs := map[string]int{}
	for i := 0; i < nNodes; i++ {
		addr := fmt.Sprintf("10.0.0.%d:9042", i+1)
		x := &nd{addr: addr, n: n.AddNode(addr)}
		x.h = &hostT{id: i + 1, addr: i + 1, dc: 1 + r.Intn(nDC), rack: 1 + r.Intn(2), up: true}
		if i == 0 {
			x.h.dc, x.h.rack = 1, 1
		}
		h := x.h
		x.n.Update(func(c *node.Config) { c.DataCenter, c.Rack = dcName(h.dc), rackName(h.rack) })
		rfs[dcName(h.dc)] = 1 + r.Intn(2)
		nodes = append(nodes, x)
	}
	simple := r.Chance(35)
	simpleRF := 1 + r.Intn(3)
	if simple {
		n.SetKeyspace("demo", node.Keyspace{Replication: node.SimpleStrategy(simpleRF), DurableWrites: true})
	} else {
		n.SetKeyspace("demo", node.Keyspace{Replication: node.NetworkTopologyStrategy(rfs), DurableWrites: true})
	}
	// the other keyspace: replicated differently from demo, to at least two hosts
	otherSimple, otherRF := true, 3
	otherRfs := map[string]int{}
	if simple && simpleRF == 3 {
		otherSimple = false
		for dc := range rfs {
			otherRfs[dc] = 2
		}
		n.SetKeyspace("other", node.Keyspace{Replication: node.NetworkTopologyStrategy(otherRfs), DurableWrites: true})
	} else {
		n.SetKeyspace("other", node.Keyspace{Replication: node.SimpleStrategy(otherRF), DurableWrites: true})
	}
	n.SetTable(&node.Table{Keyspace: "other", Name: "kv2", PartitionKey: []string{"k"},
		Columns: []node.Column{node.Col("k", node.Varchar), node.Col("v", node.Int)}})
	n.SetTable(&node.Table{Keyspace: "demo", Name: "kv", PartitionKey: []string{"k"},
		Columns: []node.Column{node.Col("k", node.Varchar), node.Col("v", node.Int)}})
	// every node refuses the test statement: the query moves on to the next host
	for _, x := range nodes {
		x.n.AddRule(node.Rule{Match: node.MatchStatement("WHERE k = ?", node.OpExecute), Do: func(c *node.ServerConn, req *node.Request) {
			c.Reply(req, node.Error{Code: node.ErrOverloaded, Message: "verif: try the next host"})
		}})
	}

	pol := cfgp.build()
	cc := gocql.NewCluster("10.0.0.1")
	cc.Dialer = n.Dialer()
	cc.ProtoVersion = 4
	cc.Timeout = 5 * time.Second
	cc.ConnectTimeout = 5 * time.Second
	cc.NumConns = 1
	cc.Keyspace = "demo"
	cc.Consistency = gocql.One
	cc.Logger = discardLog{}
	cc.PoolConfig.HostSelectionPolicy = pol
	cc.RetryPolicy = nextHostRetry{}
	sess, err := gocql.NewSession(*cc)
	if err != nil {
		o.Violate(-1, "e2e-setup", "", fmt.Sprintf("NewSession on the scripted cluster failed: %v", err), nil)
		return
	}
	defer sess.Close()
	// the session learns about the other keyspace (what a schema change event does)
	pol.KeyspaceChanged(gocql.KeyspaceUpdateEvent{Keyspace: "other", Change: "UPDATED"})
	// all hosts discovered, their pools filled (one connection each, plus the control connection)
	okc := n.WaitFor(10*time.Second, func() bool {
		for i, x := range nodes {
			want := 1
			if i == 0 {
				want = 2
			}
			if x.n.OpenConns() < want {
				return false
			}
		}
		return true
	})
	if !okc {
		stats["e2e-pools-incomplete"]++
		return
	}

	s := &scen{r: r, cfg: cfgp, byInfo: map[*gocql.HostInfo]*hostT{}, ks: "demo", stats: stats, part: "Murmur3Partitioner", rf: map[int]int{},
		lookupAll: true, simpleRF: simpleRF, strat: "NetworkTopologyStrategy"}
	if simple {
		s.strat = "SimpleStrategy"
	}
	for d := 1; d <= nDC; d++ {
		if rf, ok := rfs[dcName(d)]; ok {
			s.rf[d] = rf
		}
	}
	byAddr := map[string]*nd{}
	for _, x := range nodes {
		byAddr[x.addr] = x
		s.pool = append(s.pool, x.h)
	}
	bind := func() bool { // the session's HostInfo objects, found in the policy's own lists
		ls := gocql.VerifC11Lists(pol)
		s.mirror = make([][]*hostT, len(ls))
		cnt := 0
		for t, l := range ls {
			for _, hi := range l {
				x := byAddr[net.JoinHostPort(hi.ConnectAddress().String(), "9042")]
				if x == nil {
					return false
				}
				x.h.info = hi
				s.byInfo[hi] = x.h
				s.mirror[t] = append(s.mirror[t], x.h)
				cnt++
			}
		}
		return cnt == len(nodes)
	}
	if !n.WaitFor(5*time.Second, bind) && !bind() {
		stats["e2e-hosts-missing"]++
		return
	}

	nq := 3 + r.Intn(3)
	for q := 0; q < nq; q++ {
		if q > 0 && r.Chance(40) { // take a host down (its state only: the policy keeps it, the generator must skip it)
			x := nodes[r.Intn(len(nodes))]
			x.h.up = !x.h.up
			gocql.VerifC11SetUp(x.h.info, x.h.up)
		}
		key := fmt.Sprintf("key-%d-%d", variant, r.Intn(1000))
		// a fresh Query object every time; every other one on the table outside the default keyspace: its keyspace
		// is known to the Query only from the prepared statement's metadata, resolved inside GetRoutingKey
		qks, stmt := "demo", e2eStmt
		if q%2 == 0 {
			qks, stmt = "other", e2eStmtOther
		}
		s.ks = qks
		for d := range s.rf {
			delete(s.rf, d)
		}
		if qks == "demo" {
			s.simpleRF, s.strat = simpleRF, "NetworkTopologyStrategy"
			if simple {
				s.strat = "SimpleStrategy"
			}
			for d := 1; d <= nDC; d++ {
				if rf, ok := rfs[dcName(d)]; ok {
					s.rf[d] = rf
				}
			}
		} else {
			s.simpleRF, s.strat = otherRF, "SimpleStrategy"
			if !otherSimple {
				s.strat = "NetworkTopologyStrategy"
				for d := 1; d <= nDC; d++ {
					if rf, ok := otherRfs[dcName(d)]; ok {
						s.rf[d] = rf
					}
				}
			}
		}
		// the state the Pick of this query will see
		s.evs = s.evs[:0]
		s.viol = s.viol[:0]
		s.open = nil
		s.nIter = 0
		bind()
		for _, h := range s.pool {
			h.up = h.info.IsUp()
		}
		s.initialStates()
		for _, l := range s.mirror {
			for _, h := range l {
				s.ev("EL (LOp (OAdd %s))", h.coq())
			}
		}
		ctr := gocql.VerifC11Counter(pol)
		s.ev("EL (LSetCtr %s)", hlib.ZU(ctr))
		haveRing, reps, haveReps, prim := gocql.VerifC11Lookup(pol, qks, []byte(key))
		if !haveRing {
			o.Violate(-1, "e2e-setup", "", "the session's token-aware policy has no token ring", nil)
			return
		}
		it := &iterT{n: 0, quiet: true, pickSeq: s.pickSeq, inScope: true, haveHT: haveReps}
		ht, order, pr := "None", "[]", "None"
		if haveReps {
			for _, hi := range reps {
				it.reps = append(it.reps, s.byInfo[hi])
			}
			ht = hlib.Some(coqHosts(it.reps))
			order = coqHosts(it.reps)
		} else if prim != nil {
			it.reps = []*hostT{s.byInfo[prim]}
		} else {
			it.rrType = true
		}
		if prim != nil {
			pr = hlib.Some(s.byInfo[prim].coq())
		}
		s.taHosts = s.taHosts[:0]
		for _, l := range s.mirror {
			s.taHosts = append(s.taHosts, l...)
		}
		s.lookupEvent([]byte(key), qks, fmt.Sprintf("(QKey %s %s %s)", ht, pr, order))
		s.ev("EL (LPick 0%%nat (QKey %s %s %s))", ht, pr, order)
		for _, l := range s.mirror {
			it.lists = append(it.lists, append([]*hostT(nil), l...))
		}
		// the query
		seqBefore := int64(-1)
		for _, x := range nodes {
			for _, rq := range x.n.Requests() {
				if rq.Seq > seqBefore {
					seqBefore = rq.Seq
				}
			}
		}
		ctx, cancel := context.WithTimeout(context.Background(), 20*time.Second)
		var k string
		var v int
		qerr := sess.Query(stmt, key).WithContext(ctx).Idempotent(true).Scan(&k, &v)
		timedOut := ctx.Err() != nil
		cancel()
		// who saw the EXECUTE, in arrival order
		type seen struct {
			seq int64
			h   *hostT
		}
		var got []seen
		for _, x := range nodes {
			for _, rq := range x.n.Requests() {
				if rq.Seq > seqBefore && rq.Execute != nil && strings.Contains(rq.Statement(), "WHERE k = ?") {
					if len(rq.Execute.Params.Values) != 1 || string(rq.Execute.Params.Values[0].Bytes) != key {
						s.violate("e2e-values", "", fmt.Sprintf("EXECUTE with unexpected values on %s", x.addr))
					}
					got = append(got, seen{rq.Seq, x.h})
				}
			}
		}
		sort.Slice(got, func(i, j int) bool { return got[i].seq < got[j].seq })
		if qerr == nil || timedOut {
			s.violate("e2e-query", "", fmt.Sprintf("the query should have failed on every host and ended; err=%v", qerr))
		}
		for _, g := range got {
			s.ev("ENext 0%%nat (OHost %d)", g.h.id)
			if !g.h.up {
				s.violate("only-up", "", fmt.Sprintf("%v was tried while down", g.h))
			}
			for _, x := range it.offered {
				if x == g.h {
					s.violate("no-dup", "", fmt.Sprintf("%v was tried twice by one query: %s", g.h, names(it.offered)))
				}
			}
			it.offered = append(it.offered, g.h)
		}
		s.ev("ENext 0%%nat ONil") // the query ended: the generator was exhausted
		if len(it.offered) > s.maxOff {
			s.maxOff = len(it.offered)
		}
		it.done = true
		s.open = []*iterT{it}
		s.finish(it)
		s.pickSeq++
		stats["e2e-queries"]++
		stats["e2e-queries-keyspace-"+qks]++
		stats["e2e-hosts-tried"] += len(it.offered)
		emit(o, "e2e-session", s)
	}
}

func e2e(o *hlib.Out, stats map[string]int) {
	n := 6
	if o.Tier == "thorough" {
		n = 40
	}
	if o.Search {
		n = 20
	}
	r := hlib.NewRng(o.Seed*7777 + 13)
	for i := 0; i < n; i++ {
		e2eOne(o, r, stats, i)
	}
}
