// C11 harness: drives the real host selection policies of package gocql (RoundRobinHostPolicy,
// DCAwareRoundRobinPolicy, RackAwareRoundRobinPolicy, TokenAwareHostPolicy over each of them, with
// and without ShuffleReplicas / NonLocalReplicasFallback) through generated histories of AddHost /
// RemoveHost / HostUp / HostDown / host state changes / Pick / single NextHost calls, and records
// every observation as one Coq correspondence case per history (C11.Corr.case).  Property monitors
// (written from the property text, not from the code) are evaluated on the implementation's outputs.
package main

import (
	"fmt"
	"math/big"
	"net"
	"strings"
	"sync"
	"time"

	"github.com/gocql/gocql"
	"gocqlverif/hlib"
)

// ---- hosts and configurations ------------------------------------------------------------------

type hostT struct {
	id, addr, dc, rack int
	tokens             []string
	info               *gocql.HostInfo
	up                 bool
}

// Data-centre and rack names.  The model compares integer codes; the codes stand for these strings, which are
// pairwise different but adversarially close: case variants of each other (also non-ASCII case folds: Kelvin
// sign / k, long s / s), prefixes of each other, the empty string, surrounding blanks, non-ASCII letters.  The
// policies must tell them apart exactly (Go string equality); expected tiers are computed from the codes only.
var dcNames = []string{"", "dc1", "DC1", "dc", "dc10", "d\u00e71", "Dc1", "dc1 ", "\u212a1", "k1", "K1"}
var rackNames = []string{"", "1a", "1A", "1", "1aa", "1\u00e1", "\u017f1", "s1", "S1", " 1a"}

func dcName(i int) string {
	if i >= 0 && i < len(dcNames) {
		return dcNames[i]
	}
	return fmt.Sprintf("dc-%d", i)
}
func rackName(i int) string {
	if i >= 0 && i < len(rackNames) {
		return rackNames[i]
	}
	return fmt.Sprintf("rack-%d", i)
}

// the code of a data-centre name (for the tier function handed to the tier-generic policy)
func dcCode(name string) uint {
	for i, n := range dcNames {
		if n == name {
			return uint(i)
		}
	}
	var n uint
	fmt.Sscanf(name, "dc-%d", &n)
	return n
}

func (h *hostT) coq() string { return fmt.Sprintf("(H %d %d %d %d)", h.id, h.addr, h.dc, h.rack) }
func (h *hostT) String() string {
	if h == nil {
		return "<nil>"
	}
	return fmt.Sprintf("h%d", h.id)
}

func coqHosts(hs []*hostT) string {
	ss := make([]string, len(hs))
	for i, h := range hs {
		ss[i] = h.coq()
	}
	return "[" + strings.Join(ss, ";") + "]"
}

func names(hs []*hostT) string {
	ss := make([]string, len(hs))
	for i, h := range hs {
		ss[i] = h.String()
	}
	return "[" + strings.Join(ss, " ") + "]"
}

type polCfg struct {
	kind              int // 0 round-robin, 1 DC-aware, 2 rack-aware, 3 tier = min(data centre number, maxT) (maxT+1 tiers)
	maxT              int
	ldc, lrack        int
	ta, shuffle, nlrf bool
}

func (c polCfg) ntiers() int {
	if c.kind == 3 {
		return c.maxT + 1
	}
	return c.kind + 1
}

// distance class of a host as the documentation of the three policies describes it
func (c polCfg) tier(h *hostT) int {
	switch c.kind {
	case 1:
		if h.dc == c.ldc {
			return 0
		}
		return 1
	case 2:
		if h.dc != c.ldc {
			return 2
		}
		if h.rack != c.lrack {
			return 1
		}
		return 0
	case 3:
		if h.dc < c.maxT {
			return h.dc
		}
		return c.maxT
	}
	return 0
}

func (c polCfg) coq() string {
	k := "PRR"
	switch c.kind {
	case 1:
		k = fmt.Sprintf("(PDC %d)", c.ldc)
	case 2:
		k = fmt.Sprintf("(PRack %d %d)", c.ldc, c.lrack)
	case 3:
		k = fmt.Sprintf("(PByDC %d%%nat)", c.maxT)
	}
	return fmt.Sprintf("(mkCfg %s %s %s %s)", k, hlib.Bool(c.ta), hlib.Bool(c.shuffle), hlib.Bool(c.nlrf))
}

func (c polCfg) String() string {
	return fmt.Sprintf("kind=%s localDC=%q localRack=%q tokenAware=%v shuffle=%v nonLocalFallback=%v",
		[]string{"round-robin", "dc-aware", "rack-aware", fmt.Sprintf("%d-tier-by-dc", c.maxT+1)}[c.kind], dcName(c.ldc), rackName(c.lrack), c.ta, c.shuffle, c.nlrf)
}

func (c polCfg) build() gocql.HostSelectionPolicy {
	var fb gocql.HostSelectionPolicy
	switch c.kind {
	case 0:
		fb = gocql.RoundRobinHostPolicy()
	case 1:
		fb = gocql.DCAwareRoundRobinPolicy(dcName(c.ldc))
	case 2:
		fb = gocql.RackAwareRoundRobinPolicy(dcName(c.ldc), rackName(c.lrack))
	default:
		fb = gocql.VerifC11TieredPolicy(uint(c.maxT), func(h *gocql.HostInfo) uint { return dcCode(h.DataCenter()) })
	}
	if !c.ta {
		return fb
	}
	switch {
	case c.shuffle && c.nlrf:
		return gocql.TokenAwareHostPolicy(fb, gocql.ShuffleReplicas(), gocql.NonLocalReplicasFallback())
	case c.shuffle:
		return gocql.TokenAwareHostPolicy(fb, gocql.ShuffleReplicas())
	case c.nlrf:
		return gocql.TokenAwareHostPolicy(fb, gocql.NonLocalReplicasFallback())
	}
	return gocql.TokenAwareHostPolicy(fb)
}

// ---- one history ----------------------------------------------------------------------------------

type iterT struct {
	n        int
	next     gocql.NextHost
	rrType   bool // a plain round-robin generator (no token-aware phases)
	haveHT   bool
	reps     []*hostT // the replica list the generator walks, in its order (nil entry = nil primary)
	nilPrim  bool
	offered  []*hostT
	calls    int
	done     bool
	panicked bool
	quiet    bool // nothing else happened between Pick and exhaustion
	pickSeq  int
	lists    [][]*hostT // mirror lists at Pick
	inScope  bool       // counter far from 2^63
}

type pend struct{ kind, finding, detail string }

type scen struct {
	r         *hlib.Rng
	cfg       polCfg
	pool      []*hostT
	byInfo    map[*gocql.HostInfo]*hostT
	pol       gocql.HostSelectionPolicy
	mirror    [][]*hostT // spec side: per tier, hosts added and not removed, in insertion order
	taHosts   []*hostT   // ring membership of the token-aware policy (for avoiding C10's panics)
	partOK    bool       // a supported partitioner is installed
	part      string
	ks        string
	strat     string
	rf        map[int]int // NetworkTopologyStrategy: dc -> rf
	evs       []string
	open      []*iterT
	nIter     int
	pickSeq   int
	lastRR    *iterT
	viol      []pend
	maxOff    int
	stats     map[string]int
	simpleRF  int
	injected  bool // the replica map was replaced by hand (VerifC11SetReplicas) and not yet recomputed
	lookupAll bool // emit the C10 cross-check for every Pick (else for a sample)
	lookupPct int  // the sample: percent of the Picks (0: 25)
	aborted   bool // a policy operation panicked: its mutex may be held, nothing more can be done
}

func (s *scen) ev(f string, a ...interface{}) { s.evs = append(s.evs, fmt.Sprintf(f, a...)) }

func (s *scen) violate(kind, finding, detail string) {
	s.viol = append(s.viol, pend{kind, finding, detail})
}

func (s *scen) disturb() {
	for _, it := range s.open {
		it.quiet = false
	}
	s.lastRR = nil
}

func sameHost(a, b *hostT) bool { return a == b || a.addr == b.addr }

func addTo(l []*hostT, h *hostT) []*hostT {
	for _, x := range l {
		if sameHost(x, h) {
			return l
		}
	}
	out := append([]*hostT(nil), l...)
	return append(out, h)
}

func removeFrom(l []*hostT, addr int) []*hostT {
	var out []*hostT
	for _, x := range l {
		if x.addr != addr {
			out = append(out, x)
		}
	}
	return out
}

func (s *scen) op(kind int, h *hostT) {
	t := s.cfg.tier(h)
	switch kind {
	case 0: // AddHost, RemoveHost also change the token-aware policy's ring (and recompute the replica map)
		if nh := addTo(s.taHosts, h); len(nh) != len(s.taHosts) {
			s.taHosts, s.injected = nh, false
		}
	case 1:
		if nh := removeFrom(s.taHosts, h.addr); len(nh) != len(s.taHosts) {
			s.taHosts, s.injected = nh, false
		}
	}
	s.disturb()
	defer func() {
		if r := recover(); r != nil {
			s.aborted = true
			s.violate("panic", "", fmt.Sprintf("policy operation %d on %v panicked: %v", kind, h, r))
		}
	}()
	switch kind {
	case 0:
		s.pol.AddHost(h.info)
		s.mirror[t] = addTo(s.mirror[t], h)
		s.ev("EL (LOp (OAdd %s))", h.coq())
	case 1:
		s.pol.RemoveHost(h.info)
		s.mirror[t] = removeFrom(s.mirror[t], h.addr)
		s.ev("EL (LOp (ORemove %s))", h.coq())
	case 2:
		s.pol.HostUp(h.info)
		s.mirror[t] = addTo(s.mirror[t], h)
		s.ev("EL (LOp (OUp %s))", h.coq())
	case 3:
		s.pol.HostDown(h.info)
		s.mirror[t] = removeFrom(s.mirror[t], h.addr)
		s.ev("EL (LOp (ODown %s))", h.coq())
	}
}

// the states the hosts are created with
func (s *scen) initialStates() {
	for _, h := range s.pool {
		st := int64(gocql.NodeDown)
		if h.up {
			st = int64(gocql.NodeUp)
		}
		s.ev("EL (LSetState %d %d)", h.id, st)
	}
}

func (s *scen) setState(h *hostT, up bool) {
	s.disturb()
	gocql.VerifC11SetUp(h.info, up)
	h.up = up
	st := int64(gocql.NodeDown)
	if up {
		st = int64(gocql.NodeUp)
	}
	s.ev("EL (LSetState %d %d)", h.id, st)
}

func (s *scen) setCounter(v uint64) {
	s.disturb()
	for _, it := range s.open {
		it.inScope = it.inScope && v < 1<<62
	}
	gocql.VerifC11SetCounter(s.pol, v)
	s.ev("EL (LSetCtr %s)", hlib.ZU(v))
}

func (s *scen) readBack() {
	ls := gocql.VerifC11Lists(s.pol)
	var tiers []string
	for t, l := range ls {
		var ids []int64
		for _, hi := range l {
			if h := s.byInfo[hi]; h != nil {
				ids = append(ids, int64(h.id))
			} else {
				ids = append(ids, -1)
			}
		}
		tiers = append(tiers, hlib.ZListI(ids))
		// spec: the list is exactly the hosts added and not removed, in insertion order, none twice
		if t < len(s.mirror) {
			ok := len(l) == len(s.mirror[t])
			for i := 0; ok && i < len(l); i++ {
				ok = l[i] == s.mirror[t][i].info
			}
			if !ok {
				s.violate("tier-lists", "", fmt.Sprintf("tier %d holds %v, the hosts added and not removed are %s", t, tiers[len(tiers)-1], names(s.mirror[t])))
			}
		}
	}
	if len(ls) != s.cfg.ntiers() {
		s.violate("tier-lists", "", fmt.Sprintf("%d tier lists for %s", len(ls), s.cfg))
	}
	s.ev("ELists [%s]", strings.Join(tiers, ";"))
	s.ev("ECtr %s", hlib.ZU(gocql.VerifC11Counter(s.pol)))
}

func (s *scen) installRing(part string) {
	if !s.cfg.ta {
		return
	}
	ok := strings.HasSuffix(part, "Murmur3Partitioner") || strings.HasSuffix(part, "OrderedPartitioner") || strings.HasSuffix(part, "RandomPartitioner")
	s.partOK = s.partOK || ok
	s.disturb()
	defer func() {
		if r := recover(); r != nil {
			s.aborted = true
			s.violate("panic", "", fmt.Sprintf("SetPartitioner/KeyspaceChanged panicked: %v", r))
		}
	}()
	s.pol.SetPartitioner(part)
	s.pol.KeyspaceChanged(gocql.KeyspaceUpdateEvent{Keyspace: s.ks})
	s.injected = false
}

// Pick.  qk: 0 nil query, 1 query without routing key, 2 query with routing key [key] in keyspace [qks]
func (s *scen) pick(qk int, key []byte, qks string) *iterT {
	it := &iterT{n: s.nIter, quiet: true, rrType: true, pickSeq: s.pickSeq}
	s.nIter++
	s.pickSeq++
	var qry gocql.ExecutableQuery
	switch qk {
	case 1:
		qry = gocql.VerifC11Query(qks, nil, 1)
	case 2:
		qry = gocql.VerifC11Query(qks, key, 0)
	}
	q := "QFallback"
	if s.cfg.ta && qk == 2 {
		haveRing, reps, haveReps, prim := gocql.VerifC11Lookup(s.pol, qks, key)
		if haveRing {
			it.rrType = false
			it.haveHT = haveReps
			ht := "None"
			order := "[]"
			if haveReps {
				var rl []*hostT
				for _, hi := range reps {
					rl = append(rl, s.byInfo[hi])
				}
				ht = hlib.Some(coqHosts(rl))
				if s.cfg.shuffle {
					seed := s.r.I64()
					gocql.VerifC11SeedShuffle(seed)
					sh := gocql.VerifC11Shuffle(reps)
					gocql.VerifC11SeedShuffle(seed)
					rl = rl[:0:0]
					for _, hi := range sh {
						rl = append(rl, s.byInfo[hi])
					}
				}
				order = coqHosts(rl)
				it.reps = rl
			} else if prim != nil {
				it.reps = []*hostT{s.byInfo[prim]}
			} else {
				// a ring without tokens: no routing information, Pick must hand out the fallback's generator
				it.nilPrim = true
				it.rrType = true
			}
			pr := "None"
			if prim != nil {
				pr = hlib.Some(s.byInfo[prim].coq())
			}
			q = fmt.Sprintf("(QKey %s %s %s)", ht, pr, order)
			s.lookupEvent(key, qks, q)
		}
	}
	for _, l := range s.mirror {
		it.lists = append(it.lists, append([]*hostT(nil), l...))
	}
	c := gocql.VerifC11Counter(s.pol)
	it.inScope = c < 1<<62
	func() {
		defer func() {
			if r := recover(); r != nil {
				s.violate("panic", "", fmt.Sprintf("Pick panicked: %v", r))
			}
		}()
		it.next = s.pol.Pick(qry)
	}()
	s.ev("EL (LPick %d%%nat %s)", it.n, q)
	if it.next == nil {
		it.done = true
		s.violate("nil-iterator", "", "Pick returned a nil NextHost")
		return it
	}
	for _, o := range s.open {
		o.quiet = false // its lazily created fallback generator would see a moved counter
	}
	s.open = append(s.open, it)
	return it
}

// the cross-check with C10's model: the replica list and primary owner the real Pick looks up must be what
// C10.Model computes (newTokenRing, replicaMap, replicasFor, GetHostForToken) from the tokens the HostInfo
// objects carry, the keyspace's strategy and the hashed routing key.  Integer tokens only (Murmur3, Random).
func (s *scen) lookupEvent(key []byte, qks, q string) {
	if s.injected || !(strings.HasSuffix(s.part, "Murmur3Partitioner") || strings.HasSuffix(s.part, "RandomPartitioner")) {
		return
	}
	pct := s.lookupPct
	if pct == 0 {
		pct = 25
	}
	if !s.lookupAll && !s.r.Chance(pct) {
		return
	}
	tok := gocql.VerifC11Token(s.pol, key)
	if tok == "" {
		return
	}
	var hs []string
	for _, h := range s.taHosts {
		var toks []string
		for _, t := range h.info.Tokens() {
			b, ok := new(big.Int).SetString(t, 10)
			if !ok {
				return
			}
			toks = append(toks, hlib.ZStr(b.String()))
		}
		hs = append(hs, fmt.Sprintf("(%d, [%s], (%s, %s, %d))", h.id, strings.Join(toks, ";"),
			hlib.ZList([]byte(h.info.DataCenter())), hlib.ZList([]byte(h.info.Rack())), h.addr))
	}
	strat := "None"
	if qks == s.ks {
		switch s.strat {
		case "SimpleStrategy":
			strat = fmt.Sprintf("(Some (C10.Model.SSimple %d))", s.simpleRF)
		case "NetworkTopologyStrategy":
			var ds []string
			for d := 0; d <= 16; d++ {
				if rf, ok := s.rf[d]; ok {
					ds = append(ds, fmt.Sprintf("(%s, %d)", hlib.ZList([]byte(dcName(d))), rf))
				}
			}
			strat = "(Some (C10.Model.SNts [" + strings.Join(ds, ";") + "]))"
		}
	}
	s.stats["lookups-checked-against-C10-model"]++
	s.ev("ELookup [%s] %s %s %s", strings.Join(hs, ";"), strat, hlib.ZStr(tok), q)
}

func (s *scen) bound() int { return 2*len(s.pool) + 8 }

// one call of the generator; returns false when it is exhausted (nil or panic)
func (s *scen) callNext(it *iterT) bool {
	if it.panicked {
		return false
	}
	if it.pickSeq != s.pickSeq-1 {
		s.lastRR = nil // an older generator may advance the counter (lazy fallback Pick)
	}
	it.calls++
	var sel gocql.SelectedHost
	var pv interface{}
	func() {
		defer func() { pv = recover() }()
		sel = it.next()
	}()
	if pv != nil {
		it.panicked, it.done = true, true
		s.ev("ENext %d%%nat OPanic", it.n)
		if it.inScope {
			s.violate("panic", "", fmt.Sprintf("NextHost panicked at call %d: %v", it.calls, pv))
		} else {
			s.stats["panic-counter-beyond-2^62"]++
		}
		s.finish(it)
		return false
	}
	if sel == nil {
		s.ev("ENext %d%%nat ONil", it.n)
		if !it.done {
			it.done = true
			s.finish(it)
		}
		return false
	}
	if it.done {
		s.violate("not-finite", "", fmt.Sprintf("generator %d returned a host after it had returned nil", it.n))
	}
	hi := sel.Info()
	h := s.byInfo[hi]
	if h == nil {
		s.ev("ENext %d%%nat (OHost (-1))", it.n)
		s.violate("nil-host", "", "SelectedHost with nil or unknown HostInfo")
		return true
	}
	s.ev("ENext %d%%nat (OHost %d)", it.n, h.id)
	if !h.up || !hi.IsUp() {
		s.violate("only-up", "", fmt.Sprintf("%v was offered while down (call %d of generator %d)", h, it.calls, it.n))
	}
	for _, x := range it.offered {
		if x == h {
			s.violate("no-dup", "", fmt.Sprintf("%v offered twice by generator %d: %s then again", h, it.n, names(it.offered)))
			break
		}
	}
	it.offered = append(it.offered, h)
	if len(it.offered) > s.maxOff {
		s.maxOff = len(it.offered)
	}
	if it.calls > s.bound() {
		s.violate("not-finite", "", fmt.Sprintf("generator %d still returns hosts after %d calls (%d hosts exist)", it.n, it.calls, len(s.pool)))
		it.done = true
		return false
	}
	return true
}

func (s *scen) drain(it *iterT) {
	for s.callNext(it) {
	}
	if !it.panicked && s.r.Chance(30) {
		s.callNext(it) // stays exhausted
	}
}

func rot(l []*hostT, r int) []*hostT {
	if len(l) == 0 {
		return nil
	}
	r %= len(l)
	return append(append([]*hostT(nil), l[r:]...), l[:r]...)
}

func eqHosts(a, b []*hostT) bool {
	if len(a) != len(b) {
		return false
	}
	for i := range a {
		if a[i] != b[i] {
			return false
		}
	}
	return true
}

func samePerm(a, b []*hostT) bool {
	if len(a) != len(b) {
		return false
	}
	cnt := map[*hostT]int{}
	for _, x := range a {
		cnt[x]++
	}
	for _, x := range b {
		cnt[x]--
	}
	for _, v := range cnt {
		if v != 0 {
			return false
		}
	}
	return true
}

// seg must be: some rotation of list, restricted to hosts that are up and not in skip
func rotationShaped(seg, list []*hostT, skip map[*hostT]bool) bool {
	if len(list) == 0 {
		return len(seg) == 0
	}
	for r := 0; r < len(list); r++ {
		var w []*hostT
		for _, h := range rot(list, r) {
			if h.up && !skip[h] {
				w = append(w, h)
			}
		}
		if eqHosts(w, seg) {
			return true
		}
	}
	return false
}

// the static monitors: only for a generator that ran alone (nothing changed between Pick and nil)
func (s *scen) finish(it *iterT) {
	// remove from open
	for i, o := range s.open {
		if o == it {
			s.open = append(append([]*iterT(nil), s.open[:i]...), s.open[i+1:]...)
			break
		}
	}
	if !it.quiet || it.panicked {
		if !it.panicked {
			s.stats["generators-interleaved"]++
		}
		return
	}
	s.stats["generators-quiet"]++
	c := s.cfg
	off := it.offered
	inOff := map[*hostT]bool{}
	for _, h := range off {
		inOff[h] = true
	}
	// complete: every up host the policy knows is offered
	for t, l := range it.lists {
		for _, h := range l {
			if h.up && !inOff[h] {
				s.violate("complete", "", fmt.Sprintf("%v (tier %d, up) was never offered: %s", h, t, names(off)))
			}
		}
	}
	skip := map[*hostT]bool{}
	rest := off
	if !it.rrType {
		// replicas first: local up replicas in replica order (any order when shuffling), then - with
		// non-local fallback - the up replicas of farther tiers, nearest tier first
		var want []*hostT
		var segs [][]*hostT
		seen := map[*hostT]bool{}
		maxT := 0
		if c.nlrf {
			maxT = c.ntiers() - 1
		}
		for t := 0; t <= maxT; t++ {
			var sg []*hostT
			for _, h := range it.reps {
				if c.tier(h) == t && h.up && !seen[h] {
					seen[h] = true
					sg = append(sg, h)
				}
			}
			segs = append(segs, sg)
			want = append(want, sg...)
		}
		for _, h := range want {
			if !inOff[h] {
				s.violate("complete", "", fmt.Sprintf("replica %v (up) was never offered: %s", h, names(off)))
			}
		}
		ok := len(off) >= len(want)
		pos := 0
		for _, sg := range segs {
			if !ok {
				break
			}
			got := off[pos : pos+len(sg)]
			if c.shuffle && it.haveHT {
				ok = samePerm(got, sg)
			} else {
				ok = eqHosts(got, sg)
			}
			pos += len(sg)
		}
		if !ok {
			s.violate("replica-order", "", fmt.Sprintf("replicas %s (tiers %v): expected the offered sequence to start with %s, got %s", names(it.reps), s.tiersOf(it.reps), names(want), names(off)))
			return
		}
		for _, h := range want {
			skip[h] = true
		}
		rest = off[len(want):]
	}
	// the remaining hosts: tier by tier, each tier a rotation of its list
	pos := 0
	for t, l := range it.lists {
		n := 0
		for _, h := range l {
			if h.up && !skip[h] {
				n++
			}
		}
		if pos+n > len(rest) {
			s.violate("tier-order", "", fmt.Sprintf("tier %d: %d up hosts expected after position %d, sequence %s", t, n, pos, names(off)))
			return
		}
		if !rotationShaped(rest[pos:pos+n], l, skip) {
			s.violate("tier-order", "", fmt.Sprintf("tier %d (%s): offered part %s is not a rotation of the tier's up hosts; whole sequence %s", t, names(l), names(rest[pos:pos+n]), names(off)))
			return
		}
		pos += n
	}
	if pos != len(rest) {
		s.violate("tier-order", "", fmt.Sprintf("unexpected extra hosts at the end: %s", names(off)))
		return
	}
	// rotation: the next pick starts every tier one host further
	if it.rrType && it.inScope {
		if p := s.lastRR; p != nil && p.pickSeq+1 == it.pickSeq {
			same := len(p.lists) == len(it.lists)
			allUp := true
			for t := 0; same && t < len(p.lists); t++ {
				same = eqHosts(p.lists[t], it.lists[t])
				for _, h := range it.lists[t] {
					allUp = allUp && h.up
				}
			}
			if same && allUp {
				s.stats["rotation-checked"]++
				a, b := p.offered, it.offered
				pos := 0
				for t, l := range it.lists {
					n := len(l)
					if n > 0 && pos+n <= len(a) && pos+n <= len(b) && !eqHosts(rot(a[pos:pos+n], 1), b[pos:pos+n]) {
						s.violate("rotation", "", fmt.Sprintf("tier %d: pick k offered %s, pick k+1 offered %s (expected the same rotated by one)", t, names(a[pos:pos+n]), names(b[pos:pos+n])))
					}
					pos += n
				}
			}
		}
		s.lastRR = it
	}
}

func (s *scen) tiersOf(hs []*hostT) []int {
	out := make([]int, len(hs))
	for i, h := range hs {
		out[i] = s.cfg.tier(h)
	}
	return out
}

// ---- generators -------------------------------------------------------------------------------------

type shape struct {
	nHosts, nDC, nRack int
	vnodes             int  // max tokens per host
	upPct              int  // percentage of hosts up
	dupAddr            bool // malformed: two HostInfo objects with one address
	noTokens           bool // malformed: hosts without tokens
	part               string
	strat              string
	rfMax              int
	dynamic            bool // interleave operations with open generators
	counters           bool // exercise counter boundaries
	steps              int
}

func randToken(r *hlib.Rng, part string, used map[string]bool) string {
	for {
		var t string
		switch {
		case strings.HasSuffix(part, "OrderedPartitioner"):
			t = fmt.Sprintf("%02d", r.Intn(100))
		case strings.HasSuffix(part, "RandomPartitioner"):
			b := new(big.Int).SetBytes(r.Bytes(16))
			b.Rsh(b, 1)
			t = b.String()
		default:
			if r.Chance(10) {
				t = fmt.Sprint(r.Pick(-1<<63, 1<<63-1, 0, -1, 1))
			} else {
				t = fmt.Sprint(r.I64())
			}
		}
		if !used[t] {
			used[t] = true
			return t
		}
	}
}

func (s *scen) randKey() []byte {
	r := s.r
	if strings.HasSuffix(s.part, "OrderedPartitioner") {
		return []byte(fmt.Sprintf("%02d", r.Intn(101)))
	}
	if r.Chance(5) {
		return []byte{}
	}
	return r.Bytes(1 + r.Intn(12))
}

func newScen(r *hlib.Rng, cfg polCfg, sh shape, stats map[string]int) *scen {
	s := &scen{r: r, cfg: cfg, byInfo: map[*gocql.HostInfo]*hostT{}, ks: "ks", stats: stats, part: sh.part, strat: sh.strat, rf: map[int]int{}}
	s.mirror = make([][]*hostT, cfg.ntiers())
	usedTok := map[string]bool{}
	for i := 0; i < sh.nHosts; i++ {
		h := &hostT{id: i + 1, addr: i + 1, dc: 1 + r.Intn(sh.nDC), rack: 1 + r.Intn(sh.nRack), up: r.Chance(sh.upPct)}
		if r.Chance(3) {
			h.dc = 0 // a host whose data centre is unknown ("")
		}
		if r.Chance(3) {
			h.rack = 0
		}
		if sh.dupAddr && i > 0 && r.Chance(25) {
			h.addr = 1 + r.Intn(i)
		}
		if !sh.noTokens || r.Chance(30) {
			nt := 1
			if sh.vnodes > 1 {
				nt = 1 + r.Intn(sh.vnodes)
			}
			for k := 0; k < nt; k++ {
				h.tokens = append(h.tokens, randToken(r, sh.part, usedTok))
			}
		}
		h.info = gocql.VerifC11Host(fmt.Sprintf("host-%d", h.id), net.IPv4(10, 0, byte(h.addr>>8), byte(h.addr)), dcName(h.dc), rackName(h.rack), h.tokens, h.up)
		s.byInfo[h.info] = h
		s.pool = append(s.pool, h)
	}
	s.initialStates()
	s.pol = cfg.build()
	if cfg.ta {
		opts := map[string]interface{}{}
		switch sh.strat {
		case "SimpleStrategy":
			s.simpleRF = 1 + r.Intn(sh.rfMax)
			opts["replication_factor"] = s.simpleRF
		case "NetworkTopologyStrategy":
			for d := 0; d <= sh.nDC+1; d++ { // nDC+1: a data centre no host is in
				if d == sh.nDC+1 && r.Bool() {
					continue
				}
				rf := 1 + r.Intn(sh.rfMax)
				if r.Chance(15) {
					rf = 0
				}
				s.rf[d] = rf
				if r.Bool() {
					opts[dcName(d)] = rf
				} else {
					opts[dcName(d)] = fmt.Sprint(rf)
				}
			}
		}
		gocql.VerifC11InitTokenAware(s.pol, s.ks, sh.strat, opts)
	}
	return s
}

func (s *scen) randHost() *hostT {
	if len(s.pool) == 0 {
		return nil
	}
	return s.pool[s.r.Intn(len(s.pool))]
}

func (s *scen) randPick() *iterT {
	r := s.r
	qk := 2
	if !s.cfg.ta {
		qk = r.Intn(3)
	} else if r.Chance(15) {
		qk = r.Intn(2)
	}
	qks := s.ks
	if r.Chance(5) {
		qks = "other"
	}
	return s.pick(qk, s.randKey(), qks)
}

func (s *scen) run(sh shape) {
	r := s.r
	// bring the cluster up: hosts first, then the partitioner (the order a session uses), or mixed
	partAt := len(s.pool)
	if r.Chance(25) {
		partAt = r.Intn(len(s.pool) + 1)
	}
	for i, h := range s.pool {
		if s.aborted {
			return
		}
		if i == partAt {
			s.installRing(sh.part)
		}
		if r.Chance(10) {
			continue // never added
		}
		if r.Chance(85) {
			s.op(0, h)
		} else {
			s.op(2, h)
		}
	}
	if partAt >= len(s.pool) {
		s.installRing(sh.part)
	}
	if s.aborted {
		return
	}
	s.readBack()
	for step := 0; step < sh.steps && !s.aborted; step++ {
		x := r.Intn(100)
		switch {
		case x < 40: // a burst of 1..5 successive picks, each drained alone
			n := 1 + r.Intn(5)
			for k := 0; k < n; k++ {
				s.drain(s.randPick())
			}
		case x < 55 && sh.dynamic: // open a generator, take a few hosts, leave it open
			it := s.randPick()
			for k := r.Intn(4); k > 0 && s.callNext(it); k-- {
			}
		case x < 70 && sh.dynamic && len(s.open) > 0: // continue an open generator
			it := s.open[r.Intn(len(s.open))]
			if r.Bool() {
				s.drain(it)
			} else {
				s.callNext(it)
			}
		case x < 80:
			if h := s.randHost(); h != nil {
				s.setState(h, !h.up)
			}
		case x < 92:
			if h := s.randHost(); h != nil {
				s.op(r.Intn(4), h)
				if r.Chance(30) {
					s.readBack()
				}
			}
		case x < 96 && s.cfg.ta && len(s.pool) > 0:
			// a hand-made replica list for every token (repetitions, any tier mix, hosts the policy was never
			// given): whatever the placement strategies produce, Pick must cope with it
			n := 1 + r.Intn(4)
			var hs []*gocql.HostInfo
			for k := 0; k < n; k++ {
				if k > 0 && r.Chance(35) {
					hs = append(hs, hs[r.Intn(len(hs))])
				} else {
					hs = append(hs, s.randHost().info)
				}
			}
			if gocql.VerifC11SetReplicas(s.pol, s.ks, hs) {
				s.injected = true
				s.disturb()
				s.stats["replica-lists-injected"]++
				for k := 1 + r.Intn(3); k > 0; k-- {
					s.drain(s.pick(2, s.randKey(), s.ks))
				}
			}
		case x < 97 && sh.counters:
			cv := []uint64{0, 1, 1<<31 - 1, 1 << 31, 1<<32 - 1, 1 << 32, 1<<62 - 1, 1 << 62, 1<<63 - 4, 1<<63 - 3, 1<<63 - 2, 1<<63 - 1, 1 << 63, 1<<63 + 1, 1<<64 - 3, 1<<64 - 2, 1<<64 - 1}
			s.setCounter(cv[r.Intn(len(cv))])
			s.readBack()
		default:
			s.readBack()
		}
	}
	if s.aborted {
		return
	}
	for len(s.open) > 0 {
		s.drain(s.open[0])
	}
	s.readBack()
}

func randCfg(r *hlib.Rng, nDC, nRack int, search bool) polCfg {
	c := polCfg{kind: r.Intn(3)}
	if search && r.Chance(50) {
		c.kind = 2
	}
	if r.Chance(15) {
		c.kind, c.maxT = 3, r.Intn(6)
	}
	c.ldc = 1 + r.Intn(nDC)
	if r.Chance(5) {
		c.ldc = nDC + 1 // a local data centre no host is in
	}
	c.lrack = 1 + r.Intn(nRack)
	if r.Chance(4) {
		c.lrack = 0 // configured with an empty rack / data-centre name
	}
	if r.Chance(3) {
		c.ldc = 0
	}
	c.ta = r.Chance(65)
	if c.ta {
		c.shuffle = r.Chance(35)
		c.nlrf = r.Chance(50)
	}
	return c
}

func randShape(r *hlib.Rng, search bool) shape {
	sh := shape{nHosts: 1 + r.Intn(12), nDC: 1 + r.Intn(3), nRack: 1 + r.Intn(3), vnodes: 1, upPct: 80, rfMax: 3, steps: 6 + r.Intn(10)}
	if r.Chance(25) {
		sh.nDC = 1 + r.Intn(9) // many data centres (tier-generic policies, the whole name alphabet)
	}
	if r.Chance(25) {
		sh.nRack = 1 + r.Intn(9)
	}
	if search {
		sh.nHosts = 2 + r.Intn(15)
		sh.steps = 12 + r.Intn(20)
	}
	switch r.Intn(8) {
	case 0:
		sh.nHosts = r.Intn(3)
	case 1:
		sh.nHosts = 12 + r.Intn(5)
	}
	switch r.Intn(6) {
	case 0:
		sh.upPct = 100
	case 1:
		sh.upPct = 30
	case 2:
		sh.upPct = r.Intn(101)
	}
	if r.Chance(30) {
		sh.vnodes = 2 + r.Intn(3)
	}
	sh.part = []string{"Murmur3Partitioner", "org.apache.cassandra.dht.Murmur3Partitioner", "OrderedPartitioner", "OrderedPartitioner", "RandomPartitioner"}[r.Intn(5)]
	sh.strat = []string{"SimpleStrategy", "SimpleStrategy", "NetworkTopologyStrategy", "NetworkTopologyStrategy", "NetworkTopologyStrategy"}[r.Intn(5)]
	sh.dynamic = r.Chance(45)
	sh.counters = r.Chance(15)
	return sh
}

func malformShape(r *hlib.Rng, sh shape) shape {
	switch r.Intn(6) {
	case 0:
		sh.dupAddr = true
	case 1:
		sh.noTokens = true
	case 2:
		sh.part = "ByteOrderedPartitionerX" // unsupported: no ring is ever installed
	case 3:
		sh.strat = "" // keyspace metadata lookup fails: no replica map, primary owner only
	case 4:
		sh.strat = "LocalStrategy"
	case 5:
		sh.nHosts = 0
	}
	return sh
}

func emit(o *hlib.Out, kind string, s *scen) {
	nontriv := s.maxOff >= 2
	idx := o.Case(kind, nontriv, fmt.Sprintf("Case %s [%s]", s.cfg.coq(), strings.Join(s.evs, "; ")))
	for _, v := range s.viol {
		o.Violate(idx, v.kind, v.finding, v.detail+" | policy: "+s.cfg.String(), s.describe())
	}
}

func (s *scen) describe() interface{} {
	var hs []string
	for _, h := range s.pool {
		hs = append(hs, fmt.Sprintf("h%d addr=%d dc=%q rack=%q tokens=%v", h.id, h.addr, dcName(h.dc), rackName(h.rack), h.tokens))
	}
	return map[string]interface{}{"policy": s.cfg.String(), "hosts": hs, "partitioner": s.part, "strategy": s.strat, "rf": fmt.Sprint(s.rf), "events": len(s.evs)}
}

// the systematic stream: a fixed five-host topology (tiers 0,0,1,2,2 for the rack-aware policy), every
// placement of the ring start, replication factor, up-mask and option combination (sampled in the quick tier)
func systematic(o *hlib.Out, stats map[string]int) {
	r := o.Rng
	type topo struct{ dc, rack int }
	tp := []topo{{1, 1}, {1, 1}, {1, 2}, {2, 1}, {2, 2}}
	total, taken := 0, 0
	for kind := 0; kind < 3; kind++ {
		for opt := 0; opt < 4; opt++ { // shuffle x nlrf
			for rfv := 1; rfv <= 3; rfv++ {
				for perm := 0; perm < 6; perm++ {
					for mask := 0; mask < 32; mask++ {
						total++
						// the quick tier takes a seeded 1-in-9 sample of the space, the thorough tier all of it
						keep := o.Tier == "thorough" || o.Search || r.Intn(9) == 0
						if !keep {
							continue
						}
						taken++
						cfg := polCfg{kind: kind, ldc: 1, lrack: 1, ta: true, shuffle: opt&1 == 1, nlrf: opt&2 == 2}
						s := &scen{r: r, cfg: cfg, byInfo: map[*gocql.HostInfo]*hostT{}, ks: "ks", stats: stats, part: "OrderedPartitioner", strat: "SimpleStrategy", rf: map[int]int{}}
						s.mirror = make([][]*hostT, cfg.ntiers())
						// ring order: rotate / interleave the five hosts so that replica sets of every tier mix occur
						order := [][]int{{0, 1, 2, 3, 4}, {3, 0, 4, 1, 2}, {2, 3, 0, 4, 1}, {4, 3, 2, 1, 0}, {0, 3, 1, 4, 2}, {3, 4, 0, 1, 2}}[perm]
						for i := 0; i < 5; i++ {
							h := &hostT{id: i + 1, addr: i + 1, dc: tp[i].dc, rack: tp[i].rack, up: mask>>uint(i)&1 == 1}
							for pos, who := range order {
								if who == i {
									h.tokens = []string{fmt.Sprintf("%02d", 10*(pos+1))}
								}
							}
							h.info = gocql.VerifC11Host(fmt.Sprintf("host-%d", h.id), net.IPv4(10, 0, 0, byte(h.addr)), dcName(h.dc), rackName(h.rack), h.tokens, h.up)
							s.byInfo[h.info] = h
							s.pool = append(s.pool, h)
						}
						s.initialStates()
						s.pol = cfg.build()
						gocql.VerifC11InitTokenAware(s.pol, s.ks, "SimpleStrategy", map[string]interface{}{"replication_factor": rfv})
						for _, h := range s.pool {
							s.op(0, h)
						}
						s.installRing("OrderedPartitioner")
						for k := 0; k < 5; k++ {
							s.drain(s.pick(2, []byte(fmt.Sprintf("%02d", 10*k+5)), s.ks))
						}
						s.readBack()
						emit(o, "systematic-5-hosts", s)
					}
				}
			}
		}
	}
	o.Extra["systematic_space"] = total
	o.Extra["systematic_taken"] = taken
	o.Extra["exhaustive"] = taken == total
}

// real concurrency (goroutines, no scheduler control): mutators add/remove/mark hosts while pickers Pick and
// walk generators.  Only schedule-independent monitors are evaluated: no panic, no nil host, no host twice
// in one generator, bounded length.  Every host can be removed, so the ring is at times empty.
// (SimpleStrategy: C10's NetworkTopologyStrategy panics are not this property's business.)
func soak(o *hlib.Out, stats map[string]int) {
	nOps, nPicks := 400*o.Scale, 250*o.Scale
	for variant := 0; variant < 6; variant++ {
		cfg := polCfg{kind: variant % 3, ldc: 1, lrack: 1, ta: true, shuffle: variant >= 3, nlrf: variant%2 == 0}
		pol := cfg.build()
		gocql.VerifC11InitTokenAware(pol, "ks", "SimpleStrategy", map[string]interface{}{"replication_factor": 3})
		var pool []*gocql.HostInfo
		for i := 0; i < 10; i++ {
			h := gocql.VerifC11Host(fmt.Sprintf("host-%d", i+1), net.IPv4(10, 0, 0, byte(i+1)), dcName(1+i%2), rackName(1+(i/2)%2),
				[]string{fmt.Sprint(int64(i)*1844674407370955161 - 9000000000000000000)}, true)
			pool = append(pool, h)
			pol.AddHost(h)
		}
		pol.SetPartitioner("Murmur3Partitioner")
		pol.KeyspaceChanged(gocql.KeyspaceUpdateEvent{Keyspace: "ks"})
		var mu sync.Mutex
		var wg sync.WaitGroup
		report := func(kind, detail string) {
			mu.Lock()
			o.Violate(-1, kind, "", detail+" | concurrent soak, policy: "+cfg.String(), nil)
			mu.Unlock()
		}
		for g := 0; g < 2; g++ {
			wg.Add(1)
			go func(g int) {
				defer wg.Done()
				defer func() {
					if r := recover(); r != nil {
						report("panic", fmt.Sprintf("policy operation panicked under concurrency: %v", r))
					}
				}()
				r := hlib.NewRng(o.Seed*1000 + uint64(variant*10+g))
				for i := 0; i < nOps; i++ {
					h := pool[r.Intn(len(pool))]
					switch r.Intn(6) {
					case 0:
						pol.AddHost(h)
					case 1:
						pol.RemoveHost(h)
					case 2:
						pol.HostUp(h)
					case 3:
						pol.HostDown(h)
					default:
						gocql.VerifC11SetUp(pool[r.Intn(len(pool))], r.Bool())
					}
				}
			}(g)
		}
		for g := 0; g < 3; g++ {
			wg.Add(1)
			go func(g int) {
				defer wg.Done()
				r := hlib.NewRng(o.Seed*1000 + uint64(variant*10+5+g))
				for i := 0; i < nPicks; i++ {
					var qry gocql.ExecutableQuery
					if r.Chance(85) {
						qry = gocql.VerifC11Query("ks", r.Bytes(1+r.Intn(8)), 0)
					}
					func() {
						defer func() {
							if rv := recover(); rv != nil {
								report("panic", fmt.Sprintf("Pick/NextHost panicked under concurrency: %v", rv))
							}
						}()
						it := pol.Pick(qry)
						seen := map[*gocql.HostInfo]bool{}
						for n := 0; ; n++ {
							sel := it()
							if sel == nil {
								break
							}
							hi := sel.Info()
							if hi == nil {
								report("nil-host", "SelectedHost with nil HostInfo")
								break
							}
							if seen[hi] {
								report("no-dup", fmt.Sprintf("%s offered twice by one generator", hi.HostID()))
								break
							}
							seen[hi] = true
							if n > 3*len(pool) {
								report("not-finite", "generator did not end")
								break
							}
						}
					}()
				}
			}(g)
		}
		done := make(chan struct{})
		go func() { wg.Wait(); close(done) }()
		select {
		case <-done:
		case <-time.After(120 * time.Second): // generous: a run takes well under a second; only guards "never returns"
			report("hang", "concurrent soak did not finish: a goroutine is blocked for ever (a mutex left locked?)")
			return
		}
		stats["soak-picks"] += 3 * nPicks
		stats["soak-ops"] += 2 * nOps
	}
}

func main() {
	o := hlib.Init("C11")
	r := o.Rng
	o.Rule = "one case = one history on one policy (0..16 hosts, 1..3 data centres, 1..3 racks, 1..4 tokens per host, any up/down assignment; round-robin / DC-aware / rack-aware, " +
		"token-aware off/on x shuffle x non-local fallback; nil query / no routing key / routing key; bursts of 1..5 successive picks; optional interleaving of open generators with " +
		"AddHost/RemoveHost/HostUp/HostDown/state changes; counter boundaries); distinct = distinct Coq case term; non-trivial = some generator of the history offered at least two hosts"
	stats := map[string]int{}

	systematic(o, stats)

	n := 700 * o.Scale
	for i := 0; i < n; i++ {
		sh := randShape(r, o.Search)
		kind := "random-history"
		if i%7 == 6 {
			sh = malformShape(r, sh)
			kind = "malformed"
		} else if sh.dynamic {
			kind = "random-history-interleaved"
		}
		cfg := randCfg(r, sh.nDC, sh.nRack, o.Search)
		s := newScen(r, cfg, sh, stats)
		if o.Tier == "thorough" {
			s.lookupPct = 8 // each cross-check costs ~35 ms of vm_compute
		}
		s.run(sh)
		emit(o, kind, s)
	}
	e2e(o, stats)
	unexplained := 0
	for _, v := range o.Violations {
		if v.Finding == "" {
			unexplained++
		}
	}
	if unexplained == 0 { // otherwise the check already fails, and a broken policy may have left a mutex locked
		soak(o, stats)
	}
	for k, v := range stats {
		o.Extra[k] = v
	}
	o.Finish("From GocqlV Require C10.Model.\nFrom GocqlV Require Import Lib.Base C11.Model C11.Corr.", "C11.Corr.case", "C11.Corr.run")
}
