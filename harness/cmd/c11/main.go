// C11 harness: drives the real host selection policies of package gocql (RoundRobinHostPolicy,
// DCAwareRoundRobinPolicy, RackAwareRoundRobinPolicy, TokenAwareHostPolicy over each of them, with
// and without ShuffleReplicas / NonLocalReplicasFallback) through generated histories of AddHost /
// RemoveHost / HostUp / HostDown / host state changes / Pick / single NextHost calls, and records
// every observation as one Coq correspondence case per history (C11.Corr.case).  Property monitors
// (written from the property text, not from the code) are evaluated on the implementation's outputs.
package main

import (
	"fmt"
	"math/big"
	"net"
	"strings"

	"github.com/gocql/gocql"
	"gocqlverif/hlib"
)

// ---- hosts and configurations ------------------------------------------------------------------

type hostT struct {
	id, addr, dc, rack int
	tokens             []string
	info               *gocql.HostInfo
	up                 bool
}

func dcName(i int) string {
	if i == 0 {
		return ""
	}
	return fmt.Sprintf("dc%d", i)
}
func rackName(i int) string {
	if i == 0 {
		return ""
	}
	return fmt.Sprintf("r%d", i)
}

func (h *hostT) coq() string { return fmt.Sprintf("(H %d %d %d %d)", h.id, h.addr, h.dc, h.rack) }

func coqHosts(hs []*hostT) string {
	ss := make([]string, len(hs))
	for i, h := range hs {
		ss[i] = h.coq()
	}
	return "[" + strings.Join(ss, ";") + "]"
}

type polCfg struct {
	kind               int // 0 round-robin, 1 DC-aware, 2 rack-aware
	ldc, lrack         int
	ta, shuffle, nlrf  bool
}

func (c polCfg) ntiers() int { return c.kind + 1 }

// distance class of a host as the documentation of the three policies describes it
func (c polCfg) tier(h *hostT) int {
	switch c.kind {
	case 1:
		if h.dc == c.ldc {
			return 0
		}
		return 1
	case 2:
		if h.dc != c.ldc {
			return 2
		}
		if h.rack != c.lrack {
			return 1
		}
		return 0
	}
	return 0
}

func (c polCfg) coq() string {
	k := "PRR"
	switch c.kind {
	case 1:
		k = fmt.Sprintf("(PDC %d)", c.ldc)
	case 2:
		k = fmt.Sprintf("(PRack %d %d)", c.ldc, c.lrack)
	}
	return fmt.Sprintf("(mkCfg %s %s %s %s)", k, hlib.Bool(c.ta), hlib.Bool(c.shuffle), hlib.Bool(c.nlrf))
}

func (c polCfg) String() string {
	return fmt.Sprintf("kind=%d localDC=%q localRack=%q tokenAware=%v shuffle=%v nonLocalFallback=%v", c.kind, dcName(c.ldc), rackName(c.lrack), c.ta, c.shuffle, c.nlrf)
}

func (c polCfg) build() gocql.HostSelectionPolicy {
	var fb gocql.HostSelectionPolicy
	switch c.kind {
	case 0:
		fb = gocql.RoundRobinHostPolicy()
	case 1:
		fb = gocql.DCAwareRoundRobinPolicy(dcName(c.ldc))
	default:
		fb = gocql.RackAwareRoundRobinPolicy(dcName(c.ldc), rackName(c.lrack))
	}
	if !c.ta {
		return fb
	}
	var opts []func(*gocql.TokenAwareHostPolicy)
	_ = opts
	switch {
	case c.shuffle && c.nlrf:
		return gocql.TokenAwareHostPolicy(fb, gocql.ShuffleReplicas(), gocql.NonLocalReplicasFallback())
	case c.shuffle:
		return gocql.TokenAwareHostPolicy(fb, gocql.ShuffleReplicas())
	case c.nlrf:
		return gocql.TokenAwareHostPolicy(fb, gocql.NonLocalReplicasFallback())
	}
	return gocql.TokenAwareHostPolicy(fb)
}
