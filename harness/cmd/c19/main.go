// C19 harness: runs the public UUID API of package gocql on generated inputs and records
// (input, implementation output) as Coq correspondence cases, plus property monitors evaluated on
// the implementation's own outputs.
package main

import (
	"fmt"
	"strings"
	"sync"
	"time"

	"github.com/gocql/gocql"
	"gocqlverif/hlib"
)

func isHex(r rune) bool {
	return (r >= '0' && r <= '9') || (r >= 'a' && r <= 'f') || (r >= 'A' && r <= 'F')
}

// the property's own words, as an oracle on strings: exactly 32 hex digits plus optional hyphens
func specAccepts(s string) (ok bool, strict bool) {
	digits := 0
	evenOK := true
	for _, r := range s {
		if r == '-' {
			if digits%2 != 0 {
				evenOK = false
			}
			continue
		}
		if !isHex(r) {
			return false, false
		}
		digits++
	}
	return digits == 32, evenOK
}

func fieldsCase(u gocql.UUID) string {
	nd := "None"
	if n := u.Node(); n != nil {
		nd = hlib.Some(hlib.ZList(n))
	}
	tm := "None"
	if t := u.Time(); !t.IsZero() || u.Version() == 1 {
		tm = hlib.Some(hlib.Pair(hlib.Z(t.Unix()), hlib.Z(int64(t.Nanosecond()))))
	}
	return fmt.Sprintf("CFields %s %s %s %s %s %s %s", hlib.ZList(u[:]), hlib.Z(int64(u.Version())), hlib.Z(int64(u.Variant())),
		hlib.Z(int64(u.Clock())), hlib.Z(u.Timestamp()), nd, tm)
}

func main() {
	o := hlib.Init("C19")
	r := o.Rng
	o.Rule = "inputs: boundary + random 128-bit values, grammar-generated strings (valid, hyphenated, wrong length, non-hex, non-ASCII), " +
		"times across 1582..5236 and outside, clock/node values; distinct = distinct Coq case term; non-trivial = not the all-zero UUID / not the empty string"
	n := 150 * o.Scale

	randUUID := func() gocql.UUID {
		var u gocql.UUID
		switch r.Intn(6) {
		case 0:
			for i := range u {
				u[i] = byte(r.Pick(0, 0x7f, 0x80, 0xff, 0x0f, 0xf0, 0x10))
			}
		case 1:
			copy(u[:], r.Bytes(16))
			u[6] = u[6]&0x0f | 0x10
			u[8] = u[8]&0x3f | 0x80
		default:
			copy(u[:], r.Bytes(16))
		}
		return u
	}

	// String / Parse round trip and fields
	reusedText := gocql.UUID{0xff, 0xff, 0xff, 0xff, 0xff, 0xff, 0xff, 0xff, 0xff, 0xff, 0xff, 0xff, 0xff, 0xff, 0xff, 0xff}
	reusedJSON := reusedText
	for i := 0; i < n; i++ {
		u := randUUID()
		if i == 0 {
			u = gocql.UUID{}
		}
		s := u.String()
		o.Case("string", i != 0, fmt.Sprintf("CString %s %s", hlib.ZList(u[:]), hlib.ZList([]byte(s))))
		p, err := gocql.ParseUUID(s)
		idx := o.Case("parse-valid", i != 0, fmt.Sprintf("CParse %s %s", hlib.RuneList(s), hlib.OptBytes(p[:], err == nil)))
		if err != nil || p != u {
			o.Violate(idx, "parse-print-roundtrip", "", fmt.Sprintf("ParseUUID(%q) = %v, %v; want %v", s, p, err, u), nil)
		}
		o.Case("fields", i != 0, fieldsCase(u))
		// the text and JSON forms are the same print/parse pair; the destination is reused from one
		// iteration to the next (a decoder loop), so the result must not depend on what it held
		if txt, e := u.MarshalText(); e != nil || string(txt) != s {
			o.Violate(idx, "marshaltext-differs-from-string", "", fmt.Sprintf("MarshalText(%v) = %q, %v; String = %q", u, txt, e, s), nil)
		} else if e := reusedText.UnmarshalText(txt); e != nil || reusedText != u {
			o.Violate(idx, "text-roundtrip-into-reused-destination", "", fmt.Sprintf("UnmarshalText(%q) into a UUID holding an earlier value = %v, %v; want %v", txt, reusedText, e, u), nil)
		}
		if js, e := u.MarshalJSON(); e != nil || string(js) != `"`+s+`"` {
			o.Violate(idx, "marshaljson-differs-from-string", "", fmt.Sprintf("MarshalJSON(%v) = %q, %v; String = %q", u, js, e, s), nil)
		} else if e := reusedJSON.UnmarshalJSON(js); e != nil || reusedJSON != u {
			o.Violate(idx, "json-roundtrip-into-reused-destination", "", fmt.Sprintf("UnmarshalJSON(%q) into a UUID holding an earlier value = %v, %v; want %v", js, reusedJSON, e, u), nil)
		}
	}

	// strings from a grammar
	hexd := "0123456789abcdefABCDEF"
	for i := 0; i < 2*n; i++ {
		var sb strings.Builder
		nd := 32
		switch r.Intn(8) {
		case 0:
			nd = r.Intn(40)
		case 1:
			nd = 31 + r.Intn(3)
		}
		mode := r.Intn(6)
		for d := 0; d < nd; d++ {
			if r.Chance(12) && (mode == 1 || mode == 2) {
				sb.WriteByte('-')
				if mode == 2 && r.Chance(30) {
					sb.WriteByte('-')
				}
			}
			if mode == 3 && r.Chance(4) {
				sb.WriteString([]string{"g", "G", "/", ":", "@", "`", " ", "é", "\xff", "０", "{", "x"}[r.Intn(12)])
				continue
			}
			sb.WriteByte(hexd[r.Intn(len(hexd))])
		}
		if mode == 4 {
			sb.WriteByte('-')
		}
		s := sb.String()
		if mode == 5 && len(s) == 32 { // canonical hyphen positions
			s = s[:8] + "-" + s[8:12] + "-" + s[12:16] + "-" + s[16:20] + "-" + s[20:]
		}
		p, err := gocql.ParseUUID(s)
		idx := o.Case("parse-grammar", s != "", fmt.Sprintf("CParse %s %s", hlib.RuneList(s), hlib.OptBytes(p[:], err == nil)))
		ok, even := specAccepts(s)
		if err == nil && !ok {
			o.Violate(idx, "parse-accepts-invalid", "", fmt.Sprintf("ParseUUID(%q) accepted a string that is not 32 hex digits plus hyphens", s), nil)
		}
		if err != nil && ok && even {
			o.Violate(idx, "parse-rejects-valid", "", fmt.Sprintf("ParseUUID(%q) rejected 32 hex digits with byte-separating hyphens: %v", s, err), nil)
		}
	}

	// systematic: every code point 0..0x17f (and some beyond) substituted for one digit of, and inserted
	// into, an otherwise valid string - the accepted alphabet is exactly [0-9a-fA-F-]
	{
		base := "0123456789abcdefABCDEF0123456789"
		extra := []rune{0x2010, 0x2212, 0xff10, 0xff21, 0xfffd, 0x10ffff, 0x660, 0x1d7ce}
		var rs []rune
		for c := rune(0); c < 0x180; c++ {
			rs = append(rs, c)
		}
		rs = append(rs, extra...)
		for k, c := range rs {
			pos := k % 32
			for variant := 0; variant < 2; variant++ {
				var s string
				if variant == 0 {
					s = base[:pos] + string(c) + base[pos+1:]
				} else {
					s = base[:pos] + string(c) + base[pos:]
				}
				p, err := gocql.ParseUUID(s)
				idx := o.Case("parse-alphabet", true, fmt.Sprintf("CParse %s %s", hlib.RuneList(s), hlib.OptBytes(p[:], err == nil)))
				ok, even := specAccepts(s)
				if err == nil && !ok {
					o.Violate(idx, "parse-accepts-invalid", "", fmt.Sprintf("ParseUUID(%q) accepted a string that is not 32 hex digits plus hyphens", s), nil)
				}
				if err != nil && ok && even {
					o.Violate(idx, "parse-rejects-valid", "", fmt.Sprintf("ParseUUID(%q) rejected 32 hex digits with byte-separating hyphens: %v", s, err), nil)
				}
			}
		}
	}

	// systematic: a valid UUID text decorated with the prefixes / suffixes / wrappers other UUID parsers accept
	// (RFC 4122 URN form, braces, quotes, 0x, blanks, BOM) - ParseUUID must reject all of them
	{
		core := "486f3a88-775b-11e3-ae07-d231feb1dc81"
		plain := "486f3a88775b11e3ae07d231feb1dc81"
		pre := []string{"urn:uuid:", "URN:UUID:", "urn:", "uuid:", "{", "(", "[", "\"", "'", "0x", "0X", " ", "\t", "\n", "\ufeff", "+", "--", "#"}
		suf := []string{"}", ")", "]", "\"", "'", " ", "\n", "\r\n", "\x00", ";", ","}
		var ss []string
		for _, b := range []string{core, plain} {
			for _, p := range pre {
				ss = append(ss, p+b)
			}
			for _, q := range suf {
				ss = append(ss, b+q)
			}
			ss = append(ss, "{"+b+"}", "urn:uuid:"+b+"}", "\""+b+"\"", b+b, b[:len(b)-1], b+"0")
		}
		for _, s := range ss {
			p, err := gocql.ParseUUID(s)
			idx := o.Case("parse-decorated", true, fmt.Sprintf("CParse %s %s", hlib.RuneList(s), hlib.OptBytes(p[:], err == nil)))
			ok, even := specAccepts(s)
			if err == nil && !ok {
				o.Violate(idx, "parse-accepts-invalid", "", fmt.Sprintf("ParseUUID(%q) accepted a string that is not 32 hex digits plus hyphens", s), nil)
			}
			if err != nil && ok && even {
				o.Violate(idx, "parse-rejects-valid", "", fmt.Sprintf("ParseUUID(%q) rejected 32 hex digits with byte-separating hyphens: %v", s, err), nil)
			}
			var u gocql.UUID
			if e2 := u.UnmarshalText([]byte(s)); (e2 == nil) != (err == nil) || (e2 == nil && u != p) {
				o.Violate(idx, "unmarshaltext-differs-from-parse", "", fmt.Sprintf("UnmarshalText(%q) = %v, %v but ParseUUID = %v, %v", s, u, e2, p, err), nil)
			}
		}
	}

	// TimeUUIDWith / timestamps
	for i := 0; i < n; i++ {
		var t int64
		switch r.Intn(5) {
		case 0:
			t = r.Pick(0, 1, (1<<60)-1, 1<<60, -1, 1<<59, 0x0123456789abcdef, (1<<63)-1, -(1 << 62))
		case 1:
			t = r.I64()
		default:
			t = int64(r.U64() >> 4)
		}
		clock := uint32(r.U64())
		if r.Chance(30) {
			clock = uint32(r.Pick(0, 1, 0x3fff, 0x4000, 0x8080, 0x7f7f, 0xffff, 0xffffffff))
		}
		node := r.Bytes([]int{6, 6, 6, 0, 3, 8}[r.Intn(6)])
		u := gocql.TimeUUIDWith(t, clock, node)
		idx := o.Case("time-with", true, fmt.Sprintf("CTimeWith %s %s %s %s", hlib.Z(t), hlib.Z(int64(clock)), hlib.ZList(node), hlib.ZList(u[:])))
		o.Case("fields", true, fieldsCase(u))
		if t >= 0 && t < 1<<60 {
			if u.Timestamp() != t || u.Version() != 1 || u.Variant() != gocql.VariantIETF {
				o.Violate(idx, "time-uuid-fields", "", fmt.Sprintf("TimeUUIDWith(%d,%d,%x) = %v: timestamp %d version %d variant %d", t, clock, node, u, u.Timestamp(), u.Version(), u.Variant()), nil)
			}
		}
	}

	// times -> Min/Max/FromTime
	lo := time.Date(1582, 10, 15, 0, 0, 0, 0, time.UTC).Unix()
	hi := lo + (1<<60)/10000000 - 1
	for i := 0; i < n; i++ {
		var sec int64
		switch r.Intn(6) {
		case 0:
			sec = r.Pick(lo, lo+1, hi, hi-1, 0, -1, 1, 1700000000, lo-1, hi+1, hi+100)
		case 1:
			sec = lo - int64(r.Intn(1000000))
		default:
			sec = lo + int64(r.U64()%uint64(hi-lo))
		}
		nsec := int64(r.Intn(1000000000))
		if r.Chance(20) {
			nsec = r.Pick(0, 99, 100, 999999999, 999999900, 1)
		}
		tm := time.Unix(sec, nsec)
		if r.Bool() {
			tm = tm.In(time.FixedZone("x", int(r.Pick(3600, -7200, 19800))))
		}
		mn, mx := gocql.MinTimeUUID(tm), gocql.MaxTimeUUID(tm)
		o.Case("minmax", true, fmt.Sprintf("CMinMax %s %s %s %s", hlib.Z(sec), hlib.Z(nsec), hlib.ZList(mn[:]), hlib.ZList(mx[:])))
		u := gocql.UUIDFromTime(tm)
		idx := o.Case("from-time", true, fmt.Sprintf("CFromTime %s %s %s", hlib.Z(sec), hlib.Z(nsec), hlib.ZList(u[:])))
		if sec >= lo && sec <= hi {
			want := time.Unix(sec, nsec/100*100).UTC()
			if !u.Time().Equal(want) || u.Version() != 1 || u.Variant() != gocql.VariantIETF {
				o.Violate(idx, "time-roundtrip", "", fmt.Sprintf("UUIDFromTime(%v).Time() = %v want %v", tm.UTC(), u.Time(), want), nil)
			}
			// Cassandra order: min <= u <= max
			if cassCmp(mn, u) > 0 || cassCmp(u, mx) > 0 {
				o.Violate(idx, "min-max-bound", "", fmt.Sprintf("min %v u %v max %v not ordered", mn, u, mx), nil)
			}
		}
	}

	// random UUIDs
	for i := 0; i < n/3+1; i++ {
		u, err := gocql.RandomUUID()
		if err != nil {
			continue
		}
		idx := o.Case("random", true, fmt.Sprintf("CRandom %s", hlib.ZList(u[:])))
		if u.Version() != 4 || u.Variant() != gocql.VariantIETF {
			o.Violate(idx, "random-v4", "", fmt.Sprintf("RandomUUID %v version %d variant %d", u, u.Version(), u.Variant()), nil)
		}
	}

	// concurrent generation: pairwise distinct (monitor only; not a correspondence case).
	// Each generator takes at most 200 per burst so that fewer than 2^14 share one 100 ns tick.
	if o.Only < 0 {
		gens, per := 16, 500*o.Scale
		if per > 20000 {
			per = 20000
		}
		res := make([][]gocql.UUID, gens)
		var wg sync.WaitGroup
		for g := 0; g < gens; g++ {
			wg.Add(1)
			go func(g int) {
				defer wg.Done()
				l := make([]gocql.UUID, per)
				for i := range l {
					l[i] = gocql.TimeUUID()
				}
				res[g] = l
			}(g)
		}
		wg.Wait()
		seen := make(map[gocql.UUID]bool, gens*per)
		dups := 0
		// a duplicate is only a violation when fewer than 2^14 UUIDs were generated within the same
		// 100 ns tick (the field has 14 bits); count per tick.
		perTick := map[int64]int{}
		for _, l := range res {
			for _, u := range l {
				perTick[u.Timestamp()]++
			}
		}
		for _, l := range res {
			for _, u := range l {
				if seen[u] && perTick[u.Timestamp()] <= 1<<14 {
					dups++
				}
				seen[u] = true
			}
		}
		o.Extra["concurrent_generated"] = gens * per
		o.Extra["concurrent_duplicates"] = dups
		o.Count("concurrent-batch")
		if dups > 0 {
			o.Violate(-1, "concurrent-unique", "", fmt.Sprintf("%d duplicate time UUIDs among %d generated by %d goroutines", dups, gens*per, gens), nil)
		}
	}

	o.Finish("From GocqlV Require Import Lib.Base C19.Corr.", "C19.Corr.case", "C19.Corr.run")
}

// Cassandra's TimeUUIDType order: timestamp, then the low 8 bytes as signed bytes.
func cassCmp(a, b gocql.UUID) int {
	ta, tb := rfcTimestamp(a), rfcTimestamp(b)
	if ta != tb {
		if ta < tb {
			return -1
		}
		return 1
	}
	for i := 8; i < 16; i++ {
		x, y := int8(a[i]), int8(b[i])
		if x != y {
			if x < y {
				return -1
			}
			return 1
		}
	}
	return 0
}

func rfcTimestamp(u gocql.UUID) uint64 {
	low := uint64(u[0])<<24 | uint64(u[1])<<16 | uint64(u[2])<<8 | uint64(u[3])
	mid := uint64(u[4])<<8 | uint64(u[5])
	hi := (uint64(u[6])<<8 | uint64(u[7])) & 0x0fff
	return low | mid<<32 | hi<<48
}
