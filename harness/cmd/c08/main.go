// C08 harness: drives the real stream-id allocator (internal/streams, reached through the verif shim
// in package gocql) under a deterministic token-passing scheduler over the ten yield points, records
// every atomic step (thread, yield point before/after, shared memory after, return values) as a Coq
// correspondence case, and evaluates the property monitors (uniqueness, range, never 0, no false
// exhaustion, Clear reports, count at quiescence, no panic) on the implementation's own outputs.
// Also: plain sequential histories, malformed calls, and a free-running multi-goroutine stress.
package main

import (
	"fmt"
	"math/bits"
	"runtime"
	"strings"
	"sync"
	"sync/atomic"
	"time"

	"github.com/gocql/gocql"
	"gocqlverif/hlib"
)

const findingABA = "double-clear-racing-acquire"

const (
	kGet = iota
	kClear
)

// classification of a Clear call at the moment it is made (client discipline)
const (
	cProper    = iota // the id is handed out and this call is its single release
	cStale            // the id is free (double release / never acquired), in range, not 0
	cUndisc           // the id is being acquired or released by somebody else right now
	cMalformed        // id 0, negative or >= NumStreams: outside the allocator's contract
)

const (
	oFree = iota
	oAcquiring
	oOwned
	oReleasing
)

type thread struct {
	id      int
	kind    int
	arg     int
	cls     int
	point   int // yield point the goroutine is parked at; 0 = returned
	resume  chan struct{}
	r       int
	ok      bool
	panicv  string // "" | "panic" | "crash"
	ever    []uint64
	acq     int  // id whose bit this Get set (-1 none)
	wrote   bool // this Clear cleared its bit
	raced   bool // stale Clear: its id was acquired by somebody during the call
	logical int
}

type pviol struct {
	kind, detail string
}

type hist struct {
	proto    int
	g        *gocql.VerifC08Gen
	n        int // NumStreams
	evs      []string
	threads  []*thread
	active   []*thread
	cur      *thread
	evch     chan struct{}
	nextTid  int
	off      uint32
	inuse    int32
	words    []uint64
	own      []uint8
	ownT     []int
	held     map[int]bool // client level: returned by GetStream, Clear not yet called
	tainted  bool         // a malformed call happened: monitors are off from here on
	finding  bool         // an undisciplined Clear's CAS succeeded: inside the known-finding region
	viol     []pviol
	steps    int
	contend  bool
	maxAct   int
	failed   bool
	dead     bool
	pendGets []int64
}

var theHist atomic.Value // *hist

func hook(n int) {
	h, _ := theHist.Load().(*hist)
	if h == nil || h.cur == nil {
		return
	}
	t := h.cur
	t.point = n
	h.evch <- struct{}{}
	<-t.resume
}

func newHist(proto int) *hist {
	h := &hist{proto: proto, g: gocql.VerifC08New(proto), evch: make(chan struct{}), held: map[int]bool{}}
	h.n = h.g.NumStreams()
	h.off, h.inuse, h.words = h.g.Snapshot()
	h.own = make([]uint8, len(h.words)*64)
	h.ownT = make([]int, len(h.words)*64)
	theHist.Store(h)
	return h
}

// events are appended through ev(); consecutive successful sequential Gets are folded into EGets chunks
func (h *hist) flushGets() {
	if len(h.pendGets) > 0 {
		h.evs = append(h.evs, "EGets "+hlib.ZListI(h.pendGets))
		h.pendGets = nil
	}
}

func (h *hist) ev(s string) {
	h.flushGets()
	h.evs = append(h.evs, s)
}

func (h *hist) violate(kind, detail string) {
	if h.tainted {
		return
	}
	if len(h.viol) < 8 {
		h.viol = append(h.viol, pviol{kind, detail})
	}
}

func opTerm(kind, arg int) string {
	if kind == kGet {
		return "OGet"
	}
	return "(OClear " + hlib.Z(int64(arg)) + ")"
}

func (t *thread) resTerm() string {
	if t.point != 0 {
		return "RNone"
	}
	switch {
	case t.panicv == "panic":
		return "RPanic"
	case t.panicv == "crash":
		return "RCrash"
	case t.kind == kGet:
		return fmt.Sprintf("(RGet %s %s)", hlib.Z(int64(t.r)), hlib.Bool(t.ok))
	default:
		return fmt.Sprintf("(RClear %s)", hlib.Bool(t.ok))
	}
}

// wait for the running goroutine to park or finish
func (h *hist) wait() bool {
	select {
	case <-h.evch:
		return true
	case <-time.After(20 * time.Second):
		h.violate("no-progress", "a goroutine neither reached a yield point nor returned within 20 s")
		h.dead = true
		return false
	}
}

func (h *hist) spawn(kind, arg int, record bool) *thread {
	t := &thread{id: h.nextTid, kind: kind, arg: arg, resume: make(chan struct{}), acq: -1, point: -1}
	h.nextTid++
	h.threads = append(h.threads, t)
	if kind == kGet {
		t.ever = append([]uint64(nil), h.words...)
	} else {
		switch {
		case arg <= 0 || arg >= h.n:
			t.cls = cMalformed
			h.tainted = true
		case h.own[arg] == oOwned:
			t.cls = cProper
			h.own[arg], h.ownT[arg] = oReleasing, t.id
			delete(h.held, arg)
		case h.own[arg] == oFree:
			t.cls = cStale
		default:
			t.cls = cUndisc
		}
	}
	h.cur = t
	go func() {
		defer func() {
			if e := recover(); e != nil {
				if _, isRt := e.(runtime.Error); isRt {
					t.panicv = "crash"
				} else {
					t.panicv = "panic"
				}
			}
			t.point = 0
			h.evch <- struct{}{}
		}()
		if kind == kGet {
			t.r, t.ok = h.g.GetStream()
		} else {
			t.ok = h.g.Clear(arg)
		}
	}()
	if !h.wait() {
		return t
	}
	h.cur = nil
	h.active = append(h.active, t)
	if len(h.active) > h.maxAct {
		h.maxAct = len(h.active)
	}
	if record {
		h.ev(fmt.Sprintf("ESpawn %s %d %d", opTerm(kind, arg), t.id, t.point))
	}
	if t.point == 0 { // returned without reaching a yield point (cannot happen with the hooks in place)
		h.finish(t)
	}
	return t
}

func (h *hist) finish(t *thread) {
	for i, a := range h.active {
		if a == t {
			h.active = append(h.active[:i], h.active[i+1:]...)
			break
		}
	}
}

// one atomic step of thread t; all monitors run here
func (h *hist) step(t *thread, record bool) {
	if h.dead || t.point == 0 {
		return
	}
	ptb := t.point
	h.cur = t
	t.resume <- struct{}{}
	if !h.wait() {
		return
	}
	h.cur = nil
	h.steps++
	pta := t.point
	off, inuse, words := h.g.Snapshot()
	var diff []string
	nchanged, ci := 0, -1
	for i := range words {
		if words[i] != h.words[i] {
			nchanged++
			ci = i
			diff = append(diff, hlib.Pair(hlib.Z(int64(i)), hlib.ZU(words[i])))
		}
	}
	tog := -1
	if nchanged == 1 && bits.OnesCount64(words[ci]^h.words[ci]) == 1 {
		tog = ci*64 + bits.LeadingZeros64(words[ci]^h.words[ci])
	}
	if (ptb == 4 && pta == 6) || (ptb == 8 && pta == 9) || (ptb == 2 && pta == 1) {
		h.contend = true
	}
	// ---- monitors on what the implementation did -------------------------------------------
	dInuse := int(inuse) - int(h.inuse)
	if t.kind == kGet {
		if nchanged > 0 {
			old, nw := h.words[ci], words[ci]
			set := nw &^ old
			if nchanged != 1 || ptb != 4 || pta != 5 || old&^nw != 0 || bits.OnesCount64(set) != 1 {
				h.violate("get-unexpected-write", fmt.Sprintf("GetStream thread %d at point %d changed word %d from %x to %x", t.id, ptb, ci, old, nw))
			} else {
				id := ci*64 + bits.LeadingZeros64(set)
				t.acq = id
				if id == 0 {
					h.violate("never-zero", "GetStream marked the reserved id 0 as acquired")
				} else if h.own[id] != oFree {
					h.violate("unique", fmt.Sprintf("GetStream thread %d acquired id %d while it is handed out (state %d, thread %d)", t.id, id, h.own[id], h.ownT[id]))
				}
				h.own[id], h.ownT[id] = oAcquiring, t.id
				for _, a := range h.active {
					if a.kind == kClear && a.cls == cStale && a.arg == id && a.point != 0 {
						a.raced = true
					}
				}
			}
		} else if ptb == 4 && pta == 5 {
			h.violate("get-cas-no-write", "GetStream went on to the counter add without setting a bit")
		}
		if (ptb == 5) != (dInuse == 1) || (ptb != 5 && dInuse != 0) {
			h.violate("count-step", fmt.Sprintf("GetStream thread at point %d changed inuse by %d", ptb, dInuse))
		}
		if pta == 0 {
			if t.panicv != "" {
				h.violate("get-panic", "GetStream panicked: "+t.panicv)
			} else if t.ok {
				if t.r < 1 || t.r >= h.n {
					h.violate("range", fmt.Sprintf("GetStream returned id %d outside 1..%d", t.r, h.n-1))
				} else {
					if t.r != t.acq {
						h.violate("returned-not-acquired", fmt.Sprintf("GetStream returned %d but marked %d", t.r, t.acq))
					}
					if h.held[t.r] {
						h.violate("unique", fmt.Sprintf("GetStream returned id %d which is currently handed out", t.r))
					}
					h.held[t.r] = true
					if t.acq >= 0 && h.own[t.acq] == oAcquiring && h.ownT[t.acq] == t.id {
						h.own[t.acq] = oOwned
					}
				}
			} else {
				h.failed = true
				if t.r != 0 {
					h.violate("fail-value", fmt.Sprintf("GetStream returned (%d,false)", t.r))
				}
				for i, w := range t.ever {
					if w != ^uint64(0) {
						h.violate("false-exhaustion", fmt.Sprintf("GetStream reported exhaustion although id %d stayed free during the whole call", i*64+bits.LeadingZeros64(^w)))
						break
					}
				}
			}
		}
	} else {
		if nchanged > 0 {
			old, nw := h.words[ci], words[ci]
			clr := old &^ nw
			if nchanged != 1 || ptb != 8 || pta != 10 || nw&^old != 0 || bits.OnesCount64(clr) != 1 || ci*64+bits.LeadingZeros64(clr) != t.arg {
				if t.cls != cMalformed {
					h.violate("clear-unexpected-write", fmt.Sprintf("Clear(%d) thread %d at point %d changed word %d from %x to %x", t.arg, t.id, ptb, ci, old, nw))
				}
			} else {
				t.wrote = true
				switch {
				case t.cls == cProper && h.own[t.arg] == oReleasing && h.ownT[t.arg] == t.id:
					h.own[t.arg] = oFree
				case t.cls == cMalformed:
				default:
					// a Clear that is not the holder's release took the bit away from its holder
					// (the ghost is left alone: at client level the holder still holds the id)
					h.finding = true
				}
			}
		}
		if dInuse != 0 && !(ptb == 10 && dInuse == -1) {
			h.violate("count-step", fmt.Sprintf("Clear thread at point %d changed inuse by %d", ptb, dInuse))
		}
		if pta == 0 {
			switch {
			case t.panicv != "":
				h.violate("clear-panic", fmt.Sprintf("Clear(%d) panicked (%s); inuse=%d", t.arg, t.panicv, inuse))
			case t.cls == cProper && !t.ok:
				h.violate("clear-reports", fmt.Sprintf("Clear(%d) by the holder returned false", t.arg))
			case t.cls == cStale && !t.raced && (t.ok || t.wrote):
				h.violate("double-clear", fmt.Sprintf("Clear(%d) of a free id returned %v / wrote %v", t.arg, t.ok, t.wrote))
			}
		}
	}
	if inuse < 0 {
		h.violate("count-negative", fmt.Sprintf("inuseStreams = %d", inuse))
	}
	if nchanged > 0 {
		for _, a := range h.active {
			if a.kind == kGet && a.point != 0 {
				for i := range words {
					if words[i] != h.words[i] {
						a.ever[i] |= words[i]
					}
				}
			}
		}
	}
	if record {
		switch {
		case nchanged == 0 && pta != 0 && off == h.off && inuse == h.inuse:
			h.ev(fmt.Sprintf("ES %d %d %d", t.id, ptb, pta))
		case nchanged == 0 || tog >= 0:
			h.ev(fmt.Sprintf("EStep %d %d %d %d %s %s %s", t.id, ptb, pta, off, hlib.Z(int64(inuse)), hlib.Z(int64(tog)), t.resTerm()))
		default:
			h.ev(fmt.Sprintf("EStepD %d %d %d %d %s %s %s", t.id, ptb, pta, off, hlib.Z(int64(inuse)), hlib.List(diff), t.resTerm()))
		}
	}
	h.off, h.inuse, h.words = off, inuse, words
	if pta == 0 {
		h.finish(t)
	}
}

// a whole call with nobody else moving: one ERun event
func (h *hist) solo(kind, arg int) *thread {
	t := h.spawn(kind, arg, false)
	for t.point != 0 && !h.dead && h.steps < 4000000 {
		h.step(t, false)
	}
	if kind == kGet && t.point == 0 && t.ok && t.panicv == "" {
		h.pendGets = append(h.pendGets, int64(t.r))
		if len(h.pendGets) >= 400 {
			h.flushGets()
		}
	} else {
		h.ev(fmt.Sprintf("ERun %s %s %d %s", opTerm(kind, arg), t.resTerm(), h.off, hlib.Z(int64(h.inuse))))
	}
	return t
}

func (h *hist) quiescent() bool { return len(h.active) == 0 }

func (h *hist) avail() {
	v := h.g.Available()
	h.ev("EAvail " + hlib.Z(int64(v)))
	if h.quiescent() && !h.finding {
		if want := h.n - 1 - len(h.held); v != want {
			h.violate("count", fmt.Sprintf("Available() = %d at quiescence with %d ids handed out of %d (want %d)", v, len(h.held), h.n-1, want))
		}
	}
}

func (h *hist) snap() {
	off, inuse, words := h.g.Snapshot()
	var set, clr []int64
	for i, w := range words {
		for j := 0; j < 64; j++ {
			if w>>(63-uint(j))&1 == 1 {
				set = append(set, int64(i*64+j))
			} else {
				clr = append(clr, int64(i*64+j))
			}
		}
	}
	if len(set) <= len(clr) {
		h.ev(fmt.Sprintf("ESnap %d %s false %s", off, hlib.Z(int64(inuse)), hlib.ZListI(set)))
	} else {
		h.ev(fmt.Sprintf("ESnap %d %s true %s", off, hlib.Z(int64(inuse)), hlib.ZListI(clr)))
	}
	if h.quiescent() && !h.finding && !h.tainted {
		// bits = {0} + ids handed out
		cnt := 0
		for _, w := range words {
			cnt += bits.OnesCount64(w)
		}
		if cnt != 1+len(h.held) || words[0]>>63 != 1 {
			h.violate("bits", fmt.Sprintf("%d bits set at quiescence, %d ids handed out", cnt, len(h.held)))
		}
	}
}

// run everything still active to the end (seeded order), then final observations
func (h *hist) drain(r *hlib.Rng) {
	for len(h.active) > 0 && !h.dead && h.steps < 200000 {
		h.step(h.active[r.Intn(len(h.active))], true)
	}
	if len(h.active) > 0 && !h.dead {
		h.violate("no-progress", "calls did not finish within 200000 atomic steps")
		h.dead = true
	}
	if !h.dead {
		h.avail()
		h.snap()
	}
}

func (h *hist) heldList() []int {
	var l []int
	for id := 1; id < h.n; id++ {
		if h.held[id] {
			l = append(l, id)
		}
	}
	return l
}

func (h *hist) emit(o *hlib.Out, kind string) {
	theHist.Store((*hist)(nil))
	h.flushGets()
	term := fmt.Sprintf("CSched %d [%s]", h.proto, strings.Join(h.evs, "; "))
	nontrivial := h.maxAct >= 2 || h.failed || h.contend
	idx := o.Case(kind, nontrivial, term)
	if h.contend {
		o.Count("histories-with-failed-cas")
	}
	if h.failed {
		o.Count("histories-with-exhaustion")
	}
	for _, v := range h.viol {
		f := ""
		if h.finding {
			f = findingABA
		}
		o.Violate(idx, v.kind, f, v.detail, map[string]interface{}{"proto": h.proto, "events": len(h.evs), "kind": kind})
	}
}

// ---- generators -------------------------------------------------------------------------------

func pickProto(r *hlib.Rng, big bool) int {
	if big {
		return int(r.Pick(3, 4, 5))
	}
	return int(r.Pick(1, 2))
}

// random disciplined history: Gets, releases by the holder, random interleaving with bursts
func genRandom(o *hlib.Out, r *hlib.Rng, big bool, prefill int, nact, maxActive int, stalePct int) *hist {
	h := newHist(pickProto(r, big))
	for i := 0; i < prefill; i++ {
		h.solo(kGet, 0)
	}
	// punch a few holes so that free ids sit in the middle of full words
	if prefill > 0 {
		hl := h.heldList()
		for k := r.Intn(4); k > 0 && len(hl) > 0; k-- {
			h.solo(kClear, hl[r.Intn(len(hl))])
			hl = h.heldList()
		}
	}
	var last *thread
	for a := 0; a < nact && !h.dead; a++ {
		c := r.Intn(100)
		switch {
		case len(h.active) > 0 && last != nil && last.point != 0 && c < 25:
			h.step(last, true)
		case len(h.active) < maxActive && c < 45:
			last = h.spawn(kGet, 0, true)
		case len(h.active) < maxActive && c < 60 && len(h.held) > 0:
			hl := h.heldList()
			last = h.spawn(kClear, hl[r.Intn(len(hl))], true)
		case len(h.active) < maxActive && c < 60+stalePct:
			// double release of a free id (harmless unless it races an acquire of the same id)
			id := 1 + r.Intn(h.n-1)
			if h.own[id] == oFree {
				last = h.spawn(kClear, id, true)
			}
		case stalePct > 0 && len(h.active) < maxActive && c < 66+stalePct:
			// a second Clear of an id whose release is in progress (client error; benign unless its CAS wins the ABA race)
			for _, a := range h.active {
				if a.kind == kClear && a.cls == cProper && a.point != 0 && a.point != 10 {
					last = h.spawn(kClear, a.arg, true)
					break
				}
			}
		case len(h.active) > 0:
			last = h.active[r.Intn(len(h.active))]
			h.step(last, true)
		case c < 80:
			h.avail()
		default:
			last = h.spawn(kGet, 0, true)
		}
	}
	h.drain(r)
	return h
}

// cap 128: leave f ids free, then k concurrent Gets (+ releases on the same words) fight for them
func genExhaust(o *hlib.Out, r *hlib.Rng) *hist {
	h := newHist(pickProto(r, false))
	free := r.Intn(4)
	for i := 0; i < h.n-1-free; i++ {
		h.solo(kGet, 0)
	}
	if r.Chance(50) { // move the holes
		hl := h.heldList()
		for k := 1 + r.Intn(3); k > 0; k-- {
			h.solo(kClear, hl[r.Intn(len(hl))])
			hl = h.heldList()
		}
		for k := r.Intn(3); k > 0; k-- {
			h.solo(kGet, 0)
		}
	}
	k := 2 + r.Intn(5)
	for i := 0; i < k; i++ {
		if r.Chance(25) && len(h.held) > 0 {
			hl := h.heldList()
			h.spawn(kClear, hl[r.Intn(len(hl))], true)
		} else {
			h.spawn(kGet, 0, true)
		}
		for s := r.Intn(4); s > 0 && len(h.active) > 0; s-- {
			h.step(h.active[r.Intn(len(h.active))], true)
		}
	}
	h.drain(r)
	// afterwards, sequentially: everything that is free can still be obtained, then failure
	if !h.dead {
		left := h.n - 1 - len(h.held)
		for i := 0; i < left+1; i++ {
			t := h.solo(kGet, 0)
			if i < left && !t.ok {
				h.violate("sequential-all-ids", fmt.Sprintf("sequential GetStream failed with %d ids still free", left-i))
				break
			}
			if i == left && t.ok {
				h.violate("sequential-all-ids", "GetStream succeeded with every id handed out")
			}
		}
		h.avail()
	}
	return h
}

// Clear and Get hammering one word: a holder releases while others acquire
func genClearVsGet(o *hlib.Out, r *hlib.Rng) *hist {
	h := newHist(pickProto(r, false))
	n := 100 + r.Intn(27)
	for i := 0; i < n; i++ {
		h.solo(kGet, 0)
	}
	for round := 0; round < 3 && !h.dead; round++ {
		hl := h.heldList()
		w := r.Intn(2)
		var inw []int
		for _, id := range hl {
			if id/64 == w {
				inw = append(inw, id)
			}
		}
		for k := 1 + r.Intn(3); k > 0 && len(inw) > 0; k-- {
			i := r.Intn(len(inw))
			h.spawn(kClear, inw[i], true)
			inw = append(inw[:i], inw[i+1:]...)
		}
		for k := 1 + r.Intn(3); k > 0; k-- {
			h.spawn(kGet, 0, true)
		}
		for s := 3 + r.Intn(25); s > 0 && len(h.active) > 0; s-- {
			h.step(h.active[r.Intn(len(h.active))], true)
		}
	}
	h.drain(r)
	return h
}

// sequential op sequences (no concurrency): the allocator as a plain data structure
func genSeq(o *hlib.Out, r *hlib.Rng, big bool, nops int) *hist {
	h := newHist(pickProto(r, big))
	for i := 0; i < nops; i++ {
		c := r.Intn(100)
		switch {
		case c < 55:
			h.solo(kGet, 0)
		case c < 85 && len(h.held) > 0:
			hl := h.heldList()
			h.solo(kClear, hl[r.Intn(len(hl))])
		case c < 92:
			id := 1 + r.Intn(h.n-1)
			if h.own[id] == oFree {
				h.solo(kClear, id) // double release
			}
		default:
			h.avail()
		}
	}
	h.avail()
	h.snap()
	return h
}

// every id handed out in turn, then failure, then release/reacquire
func genSeqExhaust(o *hlib.Out, r *hlib.Rng, big bool) *hist {
	h := newHist(pickProto(r, big))
	seen := map[int]bool{}
	for i := 0; i < h.n-1; i++ {
		t := h.solo(kGet, 0)
		if !t.ok {
			h.violate("sequential-all-ids", fmt.Sprintf("GetStream failed after %d of %d ids", i, h.n-1))
			break
		}
		if seen[t.r] {
			h.violate("unique", fmt.Sprintf("id %d handed out twice", t.r))
		}
		seen[t.r] = true
	}
	h.avail()
	if t := h.solo(kGet, 0); t.ok {
		h.violate("sequential-all-ids", "GetStream succeeded with every id handed out")
	}
	for k := 0; k < 5; k++ {
		id := 1 + r.Intn(h.n-1)
		if h.held[id] {
			h.solo(kClear, id)
			if t := h.solo(kGet, 0); !t.ok || t.r != id {
				h.violate("sequential-all-ids", fmt.Sprintf("after releasing %d GetStream returned (%d,%v)", id, t.r, t.ok))
			}
		}
	}
	h.avail()
	h.snap()
	return h
}

// the known finding: a second Clear of an id whose CAS lands after somebody re-acquired the id
func genABA(o *hlib.Out, r *hlib.Rng, variant int) *hist {
	h := newHist(pickProto(r, false))
	if variant == 1 {
		for k := r.Intn(3) * 2; k > 0; k-- { // an even number of earlier calls keeps the rotation aligned
			h.solo(kGet, 0)
		}
	}
	a := h.solo(kGet, 0) // holder A gets id x
	x := a.r
	c1 := h.spawn(kClear, x, true) // A releases
	c2 := h.spawn(kClear, x, true) // ... twice (the second call is the client's error)
	h.step(c1, true)               // both load the word while the bit is set
	h.step(c2, true)
	h.step(c1, true) // c1 clears the bit
	h.step(c1, true) // and decrements
	// new holders arrive; whoever lands on x's word re-sets the same bit: the word is back to c2's snapshot
	var gs []*thread
	for i := 0; i < 2; i++ {
		g := h.spawn(kGet, 0, true)
		gs = append(gs, g)
		for g.point != 0 && g.point != 5 {
			h.step(g, true)
		}
		if variant == 1 { // let the adds happen: the count stays non-negative but an id is handed out twice
			h.step(g, true)
		}
	}
	h.step(c2, true) // c2's CAS succeeds (ABA) and takes the bit away from its new holder
	for c2.point != 0 {
		h.step(c2, true) // decrement: with the adds still pending this drives the counter negative -> panic
	}
	for _, g := range gs {
		for g.point != 0 {
			h.step(g, true)
		}
	}
	if variant == 1 {
		h.solo(kGet, 0)
		h.solo(kGet, 0) // one of these returns x again while its second holder still has it
	}
	h.drain(r)
	return h
}

// calls outside the contract: Clear of id 0, negative ids, ids >= NumStreams (index panic)
func genMalformed(o *hlib.Out, r *hlib.Rng, big bool) *hist {
	h := newHist(pickProto(r, big))
	for k := r.Intn(6); k > 0; k-- {
		h.solo(kGet, 0)
	}
	n := h.n
	ids := []int{0, -1, -63, -64, -65, -128, n, n + 1, n + 63, n - 1, 2 * n, -n, 1 << 20, -(1 << 20), 64, 63}
	for k := 1 + r.Intn(4); k > 0; k-- {
		id := ids[r.Intn(len(ids))]
		if r.Chance(50) {
			h.solo(kClear, id)
		} else {
			t := h.spawn(kClear, id, true)
			g := h.spawn(kGet, 0, true)
			for (t.point != 0 || g.point != 0) && !h.dead {
				if t.point != 0 && (g.point == 0 || r.Bool()) {
					h.step(t, true)
				} else {
					h.step(g, true)
				}
			}
		}
		h.solo(kGet, 0)
		h.avail()
	}
	h.drain(r)
	return h
}

// ---- exhaustive enumeration of interleavings ---------------------------------------------------

type script struct{ ops []int } // per logical thread: kGet, or -1 = release what my last Get returned, or 1000+id = Clear(id)

// runs one schedule; choices[i] = index into the enabled logical threads at decision i (beyond the end: 0).
// returns the number of alternatives seen at each decision.
func runSchedule(proto, prefill int, holes []int, scripts []script, choices []int) (*hist, []int) {
	h := newHist(proto)
	for i := 0; i < prefill; i++ {
		h.solo(kGet, 0)
	}
	for _, id := range holes {
		h.solo(kClear, id)
	}
	type lt struct {
		pc   int
		cur  *thread
		last int
	}
	lts := make([]lt, len(scripts))
	var widths []int
	for d := 0; !h.dead; d++ {
		var en []int
		for i := range lts {
			if (lts[i].cur != nil && lts[i].cur.point != 0) || lts[i].pc < len(scripts[i].ops) {
				en = append(en, i)
			}
		}
		if len(en) == 0 {
			break
		}
		c := 0
		if d < len(choices) {
			c = choices[d]
		}
		widths = append(widths, len(en))
		l := &lts[en[c]]
		if l.cur == nil || l.cur.point == 0 {
			if l.cur != nil && l.cur.kind == kGet && l.cur.ok {
				l.last = l.cur.r
			}
			op := scripts[en[c]].ops[l.pc]
			l.pc++
			switch {
			case op == kGet:
				l.cur = h.spawn(kGet, 0, true)
			case op == -1:
				if l.last == 0 {
					l.cur = nil
					continue
				}
				l.cur = h.spawn(kClear, l.last, true)
				l.last = 0
			default:
				l.cur = h.spawn(kClear, op-1000, true)
			}
		}
		h.step(l.cur, true)
		if l.cur.point == 0 && l.cur.kind == kGet && l.cur.ok {
			l.last = l.cur.r
		}
	}
	if !h.dead {
		h.avail()
		h.snap()
	}
	return h, widths
}

// depth-first enumeration of all schedules of a configuration, up to budget; emits every emitEvery-th as a case
func enumerate(o *hlib.Out, name string, proto, prefill int, holes []int, scripts []script, budget, emitEvery int) (int, bool) {
	var choices []int
	count := 0
	for {
		h, widths := runSchedule(proto, prefill, holes, scripts, choices)
		count++
		if len(h.viol) > 0 || count%emitEvery == 1 || emitEvery == 1 {
			h.emit(o, name)
		} else {
			theHist.Store((*hist)(nil))
			o.Count(name + "-monitor-only")
		}
		// next schedule: increment the last decision that has an untried alternative
		full := make([]int, len(widths))
		copy(full, choices)
		i := len(widths) - 1
		for ; i >= 0; i-- {
			if full[i]+1 < widths[i] {
				break
			}
		}
		if i < 0 {
			return count, true
		}
		choices = append(full[:i:i], full[i]+1)
		if count >= budget {
			return count, false
		}
	}
}

// ---- free-running stress -----------------------------------------------------------------------

func stress(o *hlib.Out, proto, workers, hold, iters int) {
	theHist.Store((*hist)(nil))
	gocql.VerifC08SetYield(nil)
	defer gocql.VerifC08SetYield(hook)
	g := gocql.VerifC08New(proto)
	n := g.NumStreams()
	owner := make([]int32, n+64)
	var dup, rng, clr, pan int64
	var wg sync.WaitGroup
	for w := 0; w < workers; w++ {
		wg.Add(1)
		go func(w int) {
			defer wg.Done()
			defer func() {
				if recover() != nil {
					atomic.AddInt64(&pan, 1)
				}
			}()
			var mine []int
			x := uint64(w)*0x9E3779B97F4A7C15 + 1
			for i := 0; i < iters; i++ {
				x ^= x << 13
				x ^= x >> 7
				x ^= x << 17
				if len(mine) < hold && x&3 != 0 {
					s, ok := g.GetStream()
					if !ok {
						continue
					}
					if s < 1 || s >= n {
						atomic.AddInt64(&rng, 1)
						continue
					}
					if !atomic.CompareAndSwapInt32(&owner[s], 0, int32(w+1)) {
						atomic.AddInt64(&dup, 1)
					}
					mine = append(mine, s)
				} else if len(mine) > 0 {
					k := int(x>>8) % len(mine)
					s := mine[k]
					mine = append(mine[:k], mine[k+1:]...)
					atomic.StoreInt32(&owner[s], 0)
					if !g.Clear(s) {
						atomic.AddInt64(&clr, 1)
					}
				}
				if x&0xff == 0 {
					runtime.Gosched()
				}
			}
			for _, s := range mine {
				atomic.StoreInt32(&owner[s], 0)
				if !g.Clear(s) {
					atomic.AddInt64(&clr, 1)
				}
			}
		}(w)
	}
	wg.Wait()
	o.Count("stress-runs")
	in := map[string]interface{}{"proto": proto, "workers": workers, "hold": hold, "iters": iters}
	if dup > 0 {
		o.Violate(-1, "stress-unique", "", fmt.Sprintf("%d times an id was handed out while handed out", dup), in)
	}
	if rng > 0 {
		o.Violate(-1, "stress-range", "", fmt.Sprintf("%d ids out of range", rng), in)
	}
	if clr > 0 {
		o.Violate(-1, "stress-clear-reports", "", fmt.Sprintf("%d releases by the holder returned false", clr), in)
	}
	if pan > 0 {
		o.Violate(-1, "stress-panic", "", fmt.Sprintf("%d panics", pan), in)
	}
	if a := g.Available(); a != n-1 {
		o.Violate(-1, "stress-count", "", fmt.Sprintf("Available() = %d after everything was released, want %d", a, n-1), in)
	}
	// and, sequentially, every id can be obtained again exactly once
	seen := make([]bool, n)
	for i := 0; i < n-1; i++ {
		s, ok := g.GetStream()
		if !ok || s < 1 || s >= n || seen[s] {
			o.Violate(-1, "stress-drain", "", fmt.Sprintf("after the stress, sequential GetStream #%d returned (%d,%v)", i, s, ok), in)
			return
		}
		seen[s] = true
	}
	if s, ok := g.GetStream(); ok {
		o.Violate(-1, "stress-drain", "", fmt.Sprintf("GetStream returned %d with every id handed out", s), in)
	}
}

func main() {
	o := hlib.Init("C08")
	r := o.Rng
	gocql.VerifC08SetYield(hook)
	o.Rule = "a case is one recorded history (schedule of atomic steps of concurrent GetStream/Clear calls + what the real allocator did at each); " +
		"distinct = distinct Coq term; non-trivial = at least two calls in flight at once, or a failed CAS, or an exhaustion result"
	sc := o.Scale

	// streams.New for every protocol version the driver knows and the boundary around 2
	for _, p := range []int{0, 1, 2, 3, 4, 5, 6, -1} {
		g := gocql.VerifC08New(p)
		off, inu, ws := g.Snapshot()
		w := make([]string, len(ws))
		for i := range ws {
			w[i] = hlib.ZU(ws[i])
		}
		idx := o.Case("new", true, fmt.Sprintf("CNew %s %d %d %d %d %s", hlib.Z(int64(p)), g.NumStreams(), g.Available(), off, inu, hlib.List(w)))
		want := 128
		if p > 2 {
			want = 32768
		}
		if g.NumStreams() != want || g.Available() != want-1 {
			o.Violate(idx, "capacity", "", fmt.Sprintf("New(%d): NumStreams=%d Available=%d", p, g.NumStreams(), g.Available()), nil)
		}
	}

	for i := 0; i < 120*sc; i++ {
		genExhaust(o, r).emit(o, "sched-exhaust-128")
	}
	for i := 0; i < 120*sc; i++ {
		genClearVsGet(o, r).emit(o, "sched-clear-vs-get-128")
	}
	for i := 0; i < 100*sc; i++ {
		genRandom(o, r, false, []int{0, 0, 60, 120, 126}[r.Intn(5)], 40+r.Intn(160), 2+r.Intn(5), 0).emit(o, "sched-random-128")
	}
	for i := 0; i < 60*sc; i++ {
		genRandom(o, r, true, r.Intn(3)*r.Intn(600), 30+r.Intn(100), 2+r.Intn(5), 0).emit(o, "sched-random-32768")
	}
	for i := 0; i < 40*sc; i++ {
		genRandom(o, r, false, []int{0, 100, 125}[r.Intn(3)], 40+r.Intn(100), 2+r.Intn(4), 8).emit(o, "sched-stale-clear-128")
	}
	for i := 0; i < 60*sc; i++ {
		genSeq(o, r, r.Chance(30), 20+r.Intn(200)).emit(o, "seq-ops")
	}
	for i := 0; i < 4*sc; i++ {
		genSeqExhaust(o, r, false).emit(o, "seq-exhaust-128")
	}
	nbig := 1
	if sc > 1 {
		nbig = 3
	}
	for i := 0; i < nbig; i++ {
		genSeqExhaust(o, r, true).emit(o, "seq-exhaust-32768")
	}
	for i := 0; i < 30*sc; i++ {
		genMalformed(o, r, r.Chance(30)).emit(o, "malformed-clear")
	}
	for i := 0; i < 4; i++ {
		genABA(o, r, i%2).emit(o, "double-clear-racing-acquire")
	}

	// exhaustive interleavings near exhaustion (cap 128: 126 of 127 ids taken, hole moved into word 0 or 1)
	budget, every := 1500, 15
	if o.Tier == "thorough" {
		budget, every = 60000, 40
	}
	if o.Search {
		every = 1 << 30
	}
	exh := map[string]interface{}{}
	cfgs := []struct {
		name    string
		prefill int
		holes   []int
		scripts []script
	}{
		{"enum-get-get-1free", 126, nil, []script{{[]int{kGet}}, {[]int{kGet}}}},
		{"enum-get-get-0free", 127, nil, []script{{[]int{kGet}}, {[]int{kGet}}}},
		{"enum-get-clear", 127, nil, []script{{[]int{kGet}}, {[]int{1000 + 70}}}},
		{"enum-get-clear-get", 127, nil, []script{{[]int{kGet}}, {[]int{1000 + 5}}, {[]int{kGet}}}},
		{"enum-3get-2free", 127, []int{9, 77}, []script{{[]int{kGet}}, {[]int{kGet}}, {[]int{kGet}}}},
		{"enum-2x(get;release)", 126, nil, []script{{[]int{kGet, -1}}, {[]int{kGet, -1}}}},
	}
	allDone := true
	for _, c := range cfgs {
		n, done := enumerate(o, c.name, 2, c.prefill, c.holes, c.scripts, budget, every)
		exh[c.name] = map[string]interface{}{"schedules": n, "complete": done}
		if !done {
			allDone = false
		}
	}
	o.Extra["enumerations"] = exh
	o.Extra["exhaustive"] = allDone

	// free-running goroutines (real concurrency, no hook): uniqueness / range / release / count monitors
	for i := 0; i < 3*sc; i++ {
		stress(o, 2, 8, 15, 20000)   // 8*15 = 120 of 127: permanent contention on the last ids
		stress(o, 2, 16, 9, 20000)   // over-subscribed: exhaustion results occur
		stress(o, 4, 16, 200, 20000) // large capacity
	}
	if o.Search {
		for i := 0; i < 40; i++ {
			stress(o, 2, 4+r.Intn(28), 1+r.Intn(40), 50000)
		}
	}
	o.Finish("From GocqlV Require Import Lib.Base C08.Model C08.Corr.", "C08.Corr.case", "C08.Corr.run")
}
