package mv

// Case runners shared by cmd/c12 and cmd/c02: run the implementation, emit the correspondence case,
// evaluate the property monitors, tag known findings by their narrow triggers.

import (
	"bytes"
	"fmt"
	"math/big"
	"strings"

	"github.com/gocql/gocql"

	"gocqlverif/hlib"
)

// ids of the OPEN findings (tools/props/C12.findings.json, C02.findings.json).  The findings repaired in
// /repo (big.Int into bigint, named int64 into duration, pre-epoch / out-of-range dates, null tuple
// components, untyped nil for a tuple, null into *inf.Dec / *net.IP / *[16]byte / *time.Time) are not
// tagged any more: a violation in their regions is a plain VIOLATION.
const (
	FUnsignedWrap = "unsigned-reinterpreted-as-signed"
	FVarint9      = "varint-9-byte-only-into-uint64"
	FNullArray    = "null-into-array-target-rejected"
)

type Runner struct {
	O    *hlib.Out
	Prop string // "C12" or "C02"
	Stat map[string]int
	// Matrix: native column type -> "source Go type -> target Go type" (or "spec -> target") -> number of
	// decodes that succeeded and were compared; printed into the evidence as the coverage matrix
	Matrix map[string]map[string]int
	// retained: every decoded value handed back by Unmarshal is kept until the end of the run and read again
	retained []retainedOut
	// retainedEnc: every byte slice Marshal returned (the slice itself and a private copy)
	retainedEnc []retainedEnc
}

type retainedEnc struct {
	idx   int
	slice []byte // the very slice gocql.Marshal returned
	first []byte // private copy taken immediately
}

// perturb makes further Marshal calls after the one under test: two fresh values of the same CQL type, a map,
// a list of blobs and a blob, in this goroutine; every eighth case also from a second goroutine.  The values
// come from an auxiliary PRNG derived from the seed and the case index (the main stream is not disturbed).
func (rn *Runner) perturb(pv int, t *Ty, idx int) {
	run := func(salt uint64) {
		aux := hlib.NewRng(rn.O.Seed*1000003 + uint64(idx)*7919 + salt)
		for i := 0; i < 2; i++ {
			DoMarshal(t.Info(byte(pv)), GenVal(aux, t, 0, true).Iface())
		}
		mt := &Ty{K: "map", Key: Native(gocql.TypeText), E: Native(gocql.TypeBigInt)}
		mvv := VMapOf(TK("str"), TInt(I64, false), [][2]*Val{{VStr(false, randUTF8(aux)+"k"), VInt64(I64, false, aux.I64())}, {VStr(false, "z"), VInt64(I64, false, aux.I64())}}, false)
		DoMarshal(mt.Info(byte(pv)), mvv.Iface())
		lt := &Ty{K: "list", E: Native(gocql.TypeBlob)}
		DoMarshal(lt.Info(byte(pv)), VSlice(TK("bytes"), []*Val{VBytes(false, aux.Bytes(1+aux.Intn(40))), VBytes(false, aux.Bytes(3))}).Iface())
		DoMarshal(Native(gocql.TypeBlob).Info(byte(pv)), VBytes(false, aux.Bytes(1+aux.Intn(40))).Iface())
	}
	run(1)
	if idx%8 == 0 {
		done := make(chan struct{})
		go func() { defer close(done); run(2) }()
		<-done
		run(3)
	}
}

type retainedOut struct {
	idx    int
	reread func() *Val
	coq    string
}

func (rn *Runner) retain(idx int, reread func() *Val, res *Val) {
	if reread != nil && res != nil {
		rn.retained = append(rn.retained, retainedOut{idx, reread, res.Coq()})
	}
}

// Recheck: the retained-output recheck.  Every value decoded during the run is read from its target again
// (after all the other calls, after the input buffers were overwritten) and must still be what it was.
func (rn *Runner) Recheck() {
	bad := 0
	for _, r := range rn.retained {
		now := r.reread().Coq()
		if now != r.coq {
			bad++
			if bad <= 5 {
				rn.O.Violate(r.idx, "retained-output-changed", "", fmt.Sprintf("decoded value was %s, at the end of the run it is %s", r.coq, now), nil)
			}
		}
	}
	ebad := 0
	for _, e := range rn.retainedEnc {
		if !bytes.Equal(e.slice, e.first) {
			ebad++
			if ebad <= 5 {
				rn.O.Violate(e.idx, "retained-marshal-output-changed", "", fmt.Sprintf("Marshal returned %x, at the end of the run the same slice holds %x", e.first, e.slice), nil)
			}
		}
	}
	rn.O.Extra["retained_marshal_outputs_rechecked"] = len(rn.retainedEnc)
	rn.O.Extra["retained_marshal_outputs_changed"] = ebad
	rn.O.Extra["retained_outputs_rechecked"] = len(rn.retained)
	rn.O.Extra["retained_outputs_changed"] = bad
}

func (rn *Runner) count(t *Ty, src string, g *GTy) {
	if t.K != "native" {
		return
	}
	name := gocqlType(t.ID).String()
	if rn.Matrix[name] == nil {
		rn.Matrix[name] = map[string]int{}
	}
	rn.Matrix[name][src+" -> "+g.Coq()]++
}

// SrcName: the Go type of a source value, for the coverage matrix
func SrcName(v *Val) string {
	if v.K == "nil" || v.K == "unset" {
		return v.K
	}
	return v.T.RType().String()
}

func NewRunner(o *hlib.Out, prop string) *Runner {
	return &Runner{O: o, Prop: prop, Stat: map[string]int{}, Matrix: map[string]map[string]int{}}
}

func signedMaxOfColumn(id int) *big.Int {
	switch id {
	case 0x14:
		return big.NewInt(127)
	case 0x13:
		return big.NewInt(32767)
	case 0x09:
		return big.NewInt(2147483647)
	case 0x02, 0x05:
		return big.NewInt(9223372036854775807)
	}
	return nil
}

func minimal2cLen(z *big.Int) int { return size2c(z) }

// MarshalFindings: the open-finding triggers present in (t, v), walking the value along the type.
func MarshalFindings(t *Ty, v *Val, out map[string]bool) {
	v = peel(v)
	if v == nil {
		return
	}
	switch t.K {
	case "native":
		if mx := signedMaxOfColumn(t.ID); mx != nil {
			if v.K == "int" && !v.T.IK.Signed() && v.Z.Cmp(mx) > 0 {
				out[FUnsignedWrap] = true
			}
		}
	case "list", "set":
		switch v.K {
		case "slice", "array", "ifaces", "setmap":
			for _, e := range v.L {
				MarshalFindings(t.E, e, out)
			}
		}
	case "map":
		if v.K == "map" {
			for _, kv := range v.KV {
				MarshalFindings(t.Key, kv[0], out)
				MarshalFindings(t.E, kv[1], out)
			}
		}
	case "tuple":
		switch v.K {
		case "ifaces", "struct", "slice", "array":
			for i, e := range v.L {
				if i >= len(t.Es) {
					break
				}
				MarshalFindings(t.Es[i], e, out)
			}
		}
	case "udt":
		for i, name := range t.Names {
			switch v.K {
			case "strmap":
				for j, k := range v.SK {
					if k == name {
						MarshalFindings(t.Es[i], v.L[j], out)
					}
				}
			case "struct":
				for j := range v.L {
					if v.T.Tags[j] == name || v.T.Names[j] == name {
						MarshalFindings(t.Es[i], v.L[j], out)
					}
				}
			}
		}
	}
}

func firstFinding(m map[string]bool, order ...string) string {
	for _, k := range order {
		if m[k] {
			return k
		}
	}
	return ""
}

// OrderMapLikeOutput: for a top-level map value with several entries, reorder v.KV to the order in which
// the implementation emitted the keys (Go map iteration order is random).
func OrderMapLikeOutput(pv int, t *Ty, v *Val, out []byte) {
	m := peel(v)
	if m == nil || t.K != "map" || m.K != "map" || len(m.KV) < 2 || out == nil {
		return
	}
	type ent struct {
		kv [2]*Val
		kb []byte
	}
	var es []ent
	for _, kv := range m.KV {
		kb, cls, _ := DoMarshal(t.Key.Info(byte(pv)), kv[0].Iface())
		if cls != ClsOk {
			return
		}
		es = append(es, ent{kv, kb})
	}
	w := 2
	if pv > 2 {
		w = 4
	}
	pos := w
	var ordered [][2]*Val
	used := make([]bool, len(es))
	readLen := func() (int, bool) {
		if pos+w > len(out) {
			return 0, false
		}
		n := 0
		for i := 0; i < w; i++ {
			n = n<<8 | int(out[pos+i])
		}
		pos += w
		if w == 4 && n >= 1<<31 {
			n -= 1 << 32
		}
		return n, true
	}
	for range es {
		n, ok := readLen()
		if !ok || n < 0 || pos+n > len(out) {
			return
		}
		kb := out[pos : pos+n]
		pos += n
		found := false
		for i, e := range es {
			if !used[i] && bytes.Equal(e.kb, kb) {
				used[i], found = true, true
				ordered = append(ordered, e.kv)
				break
			}
		}
		if !found {
			return
		}
		n, ok = readLen()
		if !ok {
			return
		}
		if n > 0 {
			pos += n
		}
	}
	m.KV = ordered
}

func cvEq(a, b *CV) bool {
	if a == nil || b == nil {
		return a == b
	}
	if a.K != b.K {
		return false
	}
	switch a.K {
	case "int", "float":
		return a.Z.Cmp(b.Z) == 0
	case "bool":
		return a.B == b.B
	case "bytes":
		return bytes.Equal(a.S, b.S)
	case "dec":
		return a.Z.Cmp(b.Z) == 0 && a.Scale == b.Scale
	case "dur":
		return a.M == b.M && a.D == b.D && a.N == b.N
	case "list", "tuple", "udt":
		if len(a.L) != len(b.L) {
			return false
		}
		for i := range a.L {
			if !cvEq(a.L[i], b.L[i]) {
				return false
			}
		}
		return true
	case "map":
		if len(a.KV) != len(b.KV) {
			return false
		}
		for _, x := range a.KV {
			ok := false
			for _, y := range b.KV {
				if cvEq(x[0], y[0]) && cvEq(x[1], y[1]) {
					ok = true
				}
			}
			if !ok {
				return false
			}
		}
		return true
	}
	return false
}

// cvMatch: decoded value dec agrees with the original orig.  A null original matches anything (a null
// stored into a non-pointer target becomes the zero value, as documented); the nullable targets are
// checked separately by NullKept.
func cvMatch(orig, dec *CV) bool {
	if orig == nil || dec != nil && dec.K == "absent" {
		return true
	}
	if dec == nil {
		return false // a value came back as null
	}
	if orig.K != dec.K {
		return false
	}
	switch orig.K {
	case "list", "tuple", "udt":
		if orig.K == "udt" {
			// a UDT value may stop early / a struct may lack fields
			n := len(orig.L)
			if len(dec.L) < n {
				n = len(dec.L)
			}
			for i := 0; i < n; i++ {
				if !cvMatch(orig.L[i], dec.L[i]) {
					return false
				}
			}
			return true
		}
		if len(orig.L) != len(dec.L) {
			return false
		}
		for i := range orig.L {
			if !cvMatch(orig.L[i], dec.L[i]) {
				return false
			}
		}
		return true
	case "map":
		if len(orig.KV) != len(dec.KV) {
			return false
		}
		for _, x := range orig.KV {
			ok := false
			for _, y := range dec.KV {
				if cvMatch(x[0], y[0]) && cvMatch(x[1], y[1]) {
					ok = true
				}
			}
			if !ok {
				return false
			}
		}
		return true
	}
	if orig.K == "float" && orig.W == 32 && dec.W == 32 {
		// NaNs: Go's float32 <-> float64 conversions (reflect path of defined float32 types) return the quiet
		// NaN with the same payload, as IEEE 754 prescribes; a NaN is compared up to its signalling bit
		a, b := uint32(orig.Z.Uint64()), uint32(dec.Z.Uint64())
		if a&0x7f800000 == 0x7f800000 && a&0x007fffff != 0 && a|0x00400000 == b {
			return true
		}
	}
	return cvEq(orig, dec)
}

func (c *CV) short() string {
	if c == nil {
		return "null"
	}
	s := c.Coq()
	if len(s) > 300 {
		s = s[:300] + "..."
	}
	return s
}

// MarshalCase runs gocql.Marshal on (pv, t, v), emits the CMarshal case and evaluates the C12 monitor:
// produced bytes = the specification's serialization of what the value means.
// Returns the output and class.
func (rn *Runner) MarshalCase(kind string, pv int, t *Ty, v *Val, specMonitor bool) ([]byte, int, int) {
	o := rn.O
	out, cls, msg := DoMarshal(t.Info(byte(pv)), v.Iface())
	// the private copy of what Marshal returned, taken before anything else is marshalled
	var first []byte
	if out != nil {
		first = append([]byte{}, out...)
	}
	OrderMapLikeOutput(pv, t, v, first)
	term := fmt.Sprintf("CMarshal %d %s %s %s", pv, t.Coq(), v.Coq(), MResCoq(first, cls))
	idx := o.Case(kind, cls == ClsOk && len(out) > 0, term)
	rn.Stat[fmt.Sprintf("marshal-class-%d", cls)]++
	if cls == ClsOk && out != nil {
		// outputs handed to the caller must not change afterwards: further Marshal calls (same type and others,
		// same goroutine and concurrently), then the very slice Marshal returned is compared with the copy; it is
		// kept and compared again at the end of the run.  Everything below (reference serializer, decoding for
		// the round trip) uses the retained slice.
		rn.perturb(pv, t, idx)
		if !bytes.Equal(out, first) {
			o.Violate(idx, "marshal-output-changed-by-later-marshal", "",
				fmt.Sprintf("Marshal returned %x; after further Marshal calls the same slice holds %x", first, out),
				map[string]string{"pv": fmt.Sprint(pv), "type": t.String(), "value": v.Coq()})
		}
		rn.retainedEnc = append(rn.retainedEnc, retainedEnc{idx, out, first})
	}
	if !specMonitor {
		return out, cls, idx
	}
	fm := map[string]bool{}
	MarshalFindings(t, v, fm)
	input := map[string]string{"pv": fmt.Sprint(pv), "type": t.String(), "value": v.Coq()}
	c, null, ok := Denote(t, v)
	if cls == ClsPanic {
		o.Violate(idx, "marshal-panics", "", "Marshal panicked: "+msg, input)
		return out, cls, idx
	}
	if !ok {
		rn.Stat["marshal-no-denotation"]++
		// "formatted as base 10 number" / "value of number in decimal notation": a string that is not one must be rejected
		if pv0 := peel(v); t.K == "native" && isIntID(t.ID) && pv0 != nil && pv0.K == "str" && !pv0.T.Named && cls == ClsOk && out != nil {
			o.Violate(idx, "accepts-string-that-is-not-a-decimal-number", "", fmt.Sprintf("Marshal(%s, %q) returned %x instead of an error", t.String(), string(pv0.S), out), input)
		}
		return out, cls, idx
	}
	if cls == ClsErr {
		rn.Stat["marshal-error-on-denoted"]++
		return out, cls, idx
	}
	if null {
		if out != nil {
			o.Violate(idx, "null-not-null", "", fmt.Sprintf("value denotes CQL null but Marshal returned %x", out), input)
		}
		return out, cls, idx
	}
	exp, eok := SpecEncode(pv, t, c)
	if !eok {
		o.Violate(idx, "encodes-unrepresentable-value", firstFinding(fm, FUnsignedWrap),
			fmt.Sprintf("value %s is not a value of %s, yet Marshal returned %x instead of an error", c.short(), t.String(), out), input)
		return out, cls, idx
	}
	if out == nil || !bytes.Equal(out, exp) {
		o.Violate(idx, "not-the-specified-bytes", firstFinding(fm, FUnsignedWrap),
			fmt.Sprintf("Marshal returned %x (nil=%v), the specification's encoding of %s is %x", out, out == nil, c.short(), exp), input)
	}
	return out, cls, idx
}

// intTargetHolds: can integer target type g hold z exactly
func intTargetHolds(g *GTy, z *big.Int) bool {
	switch g.K {
	case "int":
		return inRange(g.IK, z)
	case "big":
		return true
	case "str":
		return !g.Named && inRange(I64, z)
	case "dur":
		return inRange(I64, z)
	}
	return false
}

// Compatible: g is a documented Unmarshal target type for column type t (pointers peeled).
func Compatible(t *Ty, g *GTy) bool {
	for g.K == "ptr" {
		g = g.E
	}
	switch t.K {
	case "native":
		id := t.ID
		switch {
		case isIntID(id):
			return g.K == "int" || g.K == "big" || g.K == "str" && !g.Named
		case IsTextID(id):
			return g.K == "str" || g.K == "bytes"
		case id == 0x04:
			return g.K == "bool"
		case id == 0x08:
			return g.K == "f32"
		case id == 0x07:
			return g.K == "f64"
		case id == 0x06:
			return g.K == "dec"
		case id == 0x12:
			return g.K == "dur" || g.K == "int" && g.IK == I64
		case id == 0x0B:
			return g.K == "int" && g.IK == I64 || g.K == "time"
		case id == 0x11:
			return g.K == "time"
		case id == 0x15:
			return g.K == "cqldur"
		case id == 0x0C || id == 0x0F:
			return g.K == "uuid" || g.K == "arr16" || g.K == "str" && !g.Named || g.K == "bytes" && !g.Named || id == 0x0F && g.K == "time"
		case id == 0x10:
			return g.K == "ip"
		}
		return false
	case "list", "set":
		return (g.K == "slice" || g.K == "array") && Compatible(t.E, g.E)
	case "map":
		return g.K == "map" && Compatible(t.Key, g.Key) && Compatible(t.E, g.E)
	case "tuple":
		switch g.K {
		case "ifaces":
			if len(g.Ts) != len(t.Es) {
				return false
			}
			for i := range t.Es {
				if !Compatible(t.Es[i], g.Ts[i]) {
					return false
				}
			}
			return true
		case "struct":
			return len(g.Ts) == len(t.Es)
		case "slice":
			return g.E.K == "iface"
		}
		return false
	case "udt":
		switch g.K {
		case "strmap":
			return true
		case "struct":
			for i, name := range t.Names {
				for j := range g.Ts {
					if (g.Tags[j] == name || g.Tags[j] == "" && g.Names[j] == name) && !Compatible(t.Es[i], g.Ts[j]) {
						return false
					}
				}
			}
			return true
		}
	}
	return false
}

// Fits: the (compatible) target g can hold value c exactly.
func Fits(t *Ty, c *CV, g *GTy) bool {
	for g.K == "ptr" {
		g = g.E
	}
	if c == nil {
		return true
	}
	switch t.K {
	case "native":
		if isIntID(t.ID) {
			return c.K == "int" && intTargetHolds(g, c.Z)
		}
		return true
	case "list", "set":
		if c.K != "list" || g.K == "array" && g.N != len(c.L) {
			return false
		}
		for _, e := range c.L {
			if !Fits(t.E, e, g.E) {
				return false
			}
		}
		return true
	case "map":
		if c.K != "map" {
			return false
		}
		for _, kv := range c.KV {
			if !Fits(t.Key, kv[0], g.Key) || !Fits(t.E, kv[1], g.E) {
				return false
			}
		}
		return true
	case "tuple":
		if c.K != "tuple" {
			return false
		}
		if g.K == "ifaces" {
			for i, e := range c.L {
				if !Fits(t.Es[i], e, g.Ts[i]) {
					return false
				}
			}
		}
		return true
	case "udt":
		if c.K != "udt" {
			return false
		}
		if g.K == "struct" {
			for i, name := range t.Names {
				if i >= len(c.L) {
					break
				}
				for j := range g.Ts {
					if (g.Tags[j] == name || g.Tags[j] == "" && g.Names[j] == name) && !Fits(t.Es[i], c.L[i], g.Ts[j]) {
						return false
					}
				}
			}
		}
		return true
	}
	return false
}

func Representable(t *Ty, c *CV, g *GTy) bool { return Compatible(t, g) && Fits(t, c, g) }

// nullIntoArray: null data for a list / set column read into a Go array (kept finding: explicit error)
func nullRejectedPair(t *Ty, g *GTy) bool {
	return (t.K == "list" || t.K == "set") && g.K == "array"
}

// DecodeFindings: known-finding triggers on the decode side for value c of type t into target g.
func DecodeFindings(t *Ty, c *CV, g *GTy, out map[string]bool) {
	if g != nil && g.K == "ptr" && c == nil {
		return // a pointer target takes null
	}
	for g != nil && g.K == "ptr" {
		g = g.E
	}
	if g == nil {
		return
	}
	if c == nil {
		if nullRejectedPair(t, g) {
			out[FNullArray] = true
		}
		if t.K == "tuple" && g.K == "ifaces" { // a null tuple hands nil to every component target
			for i := range t.Es {
				if i < len(g.Ts) {
					DecodeFindings(t.Es[i], nil, g.Ts[i], out)
				}
			}
		}
		return
	}
	switch t.K {
	case "native":
		if c.K != "int" {
			return
		}
		if isIntID(t.ID) && g.K == "int" && !g.IK.Signed() && c.Z.Sign() < 0 {
			out[FUnsignedWrap] = true
		}
		if t.ID == 0x0E && !inRange(I64, c.Z) && !(g.K == "big") && !(g.K == "int" && g.IK == U64 && !g.Named) {
			out[FVarint9] = true
		}
	case "list", "set":
		if c.K == "list" && (g.K == "slice" || g.K == "array") {
			for _, e := range c.L {
				DecodeFindings(t.E, e, g.E, out)
			}
		}
	case "map":
		if c.K == "map" && g.K == "map" {
			for _, kv := range c.KV {
				DecodeFindings(t.Key, kv[0], g.Key, out)
				DecodeFindings(t.E, kv[1], g.E, out)
			}
		}
	case "tuple":
		if c.K == "tuple" {
			for i, e := range c.L {
				if i >= len(t.Es) {
					break
				}
				switch g.K {
				case "ifaces":
					if i < len(g.Ts) {
						DecodeFindings(t.Es[i], e, g.Ts[i], out)
					}
				case "struct", "slice", "array":
					DecodeFindings(t.Es[i], e, GoTypeOf(t.Es[i]), out)
				}
			}
		}
	case "udt":
		if c.K == "udt" {
			for i, e := range c.L {
				switch g.K {
				case "strmap":
					DecodeFindings(t.Es[i], e, GoTypeOf(t.Es[i]), out)
				case "struct":
					for j := range g.Ts {
						if g.Tags[j] == t.Names[i] || g.Names[j] == t.Names[i] {
							DecodeFindings(t.Es[i], e, g.Ts[j], out)
						}
					}
				}
			}
		}
	}
}

// nullKept: a null original decoded into a pointer target must give a nil pointer
func nullKept(g *GTy, res *Val) bool {
	if g.K == "ptr" {
		return res.K == "ptr" && res.P == nil
	}
	return true
}

// DecodeCase runs gocql.Unmarshal of data (the encoding of value c of type t; isnull = CQL null) into
// target type g, emits the CUnmarshal case and evaluates the monitor "decodes to that value".
// orig is what the value is compared with (nil: no monitor, correspondence only).
func (rn *Runner) DecodeCase(kind string, pv int, t *Ty, data []byte, g *GTy, c *CV, isnull bool, monitor bool, what string) (*Val, int) {
	o := rn.O
	res, cls, msg, reread := DoUnmarshal(t.Info(byte(pv)), data, g)
	term := fmt.Sprintf("CUnmarshal %d %s %s %s %s", pv, t.Coq(), OptBytesCoq(data), g.Coq(), UResCoq(res, cls))
	idx := o.Case(kind, cls == ClsOk && len(data) > 0, term)
	rn.retain(idx, reread, res)
	if cls == ClsOk {
		rn.DestinationState(idx, pv, t, data, g, res)
	}
	rn.Stat[fmt.Sprintf("unmarshal-class-%d", cls)]++
	if !monitor {
		return res, cls
	}
	input := map[string]string{"pv": fmt.Sprint(pv), "type": t.String(), "data": fmt.Sprintf("%x", data), "null": fmt.Sprint(isnull),
		"target": g.Coq(), "value": c.short()}
	fm := map[string]bool{}
	if isnull {
		DecodeFindings(t, nil, g, fm)
	} else {
		DecodeFindings(t, c, g, fm)
	}
	if cls != ClsOk {
		if Representable(t, c, g) {
			k := "unmarshal-rejects-" + what
			if cls == ClsPanic {
				k = "unmarshal-panics-on-" + what
			}
			o.Violate(idx, k, firstFinding(fm, FVarint9, FNullArray), fmt.Sprintf("Unmarshal into %s failed (%s) though the target can hold %s", g.Coq(), msg, c.short()), input)
		} else {
			rn.Stat["unmarshal-error-not-representable"]++
		}
		return res, cls
	}
	if isnull {
		if !nullKept(g, res) {
			o.Violate(idx, "null-not-kept", "", fmt.Sprintf("null decoded into %s gave %s", g.Coq(), res.Coq()), input)
		}
		return res, cls
	}
	rn.count(t, "spec", g)
	dc, _, dok := DenoteDecoded(t, res)
	if !dok {
		rn.Stat["decoded-no-denotation"]++
		return res, cls
	}
	if !cvMatch(c, dc) {
		o.Violate(idx, "decodes-to-a-different-value", firstFinding(fm, FUnsignedWrap, FVarint9),
			fmt.Sprintf("%s %x decoded into %s gave %s, which means %s, not %s", what, data, g.Coq(), res.Coq(), dc.short(), c.short()), input)
	}
	return res, cls
}

// SafeToDecode: walking data with the framing of t, no collection count exceeds 4096 (a corrupted
// count makes the implementation allocate count-sized slices / maps before reading anything: that
// allocation behaviour belongs to property C05, here such inputs are skipped).
func SafeToDecode(pv int, t *Ty, data []byte) bool {
	if data == nil {
		return true
	}
	w := 2
	if pv > 2 {
		w = 4
	}
	rd := func(p []byte, w int) (int, []byte, bool) {
		if len(p) < w {
			return 0, nil, false
		}
		n := 0
		for i := 0; i < w; i++ {
			n = n<<8 | int(p[i])
		}
		if w == 4 && n >= 1<<31 {
			n -= 1 << 32
		}
		return n, p[w:], true
	}
	switch t.K {
	case "list", "set", "map":
		n, p, ok := rd(data, w)
		if !ok {
			return true
		}
		if n > 4096 {
			return false
		}
		per := 1
		if t.K == "map" {
			per = 2
		}
		for i := 0; i < n*per; i++ {
			m, q, ok := rd(p, w)
			if !ok {
				return true
			}
			p = q
			if m < 0 {
				continue
			}
			if m > len(p) {
				return true
			}
			et := t.E
			if t.K == "map" && i%2 == 0 {
				et = t.Key
			}
			if !SafeToDecode(pv, et, p[:m]) {
				return false
			}
			p = p[m:]
		}
	case "tuple", "udt":
		p := data
		for _, et := range t.Es {
			if len(p) < 4 {
				return true
			}
			m, q, _ := rd(p, 4)
			p = q
			if m < 0 {
				continue
			}
			if m > len(p) {
				return true
			}
			if !SafeToDecode(pv, et, p[:m]) {
				return false
			}
			p = p[m:]
		}
	}
	return true
}

// SameTypeTarget: an Unmarshal target type with the Go type of the (pointer-peeled) source value, when
// that type can be a target; nil otherwise.
func SameTypeTarget(t *Ty, v *Val, top bool) *GTy {
	v = peel(v)
	if v == nil {
		return nil
	}
	switch v.K {
	case "int", "str", "bytes", "bool", "f32", "f64", "big", "dec", "time", "dur", "cqldur", "uuid", "arr16", "ip":
		return v.T
	case "slice", "array", "setmap":
		if t.K == "tuple" {
			return nil
		}
		if t.K != "list" && t.K != "set" {
			return nil
		}
		var e *GTy
		if len(v.L) > 0 {
			e = SameTypeTarget(t.E, v.L[0], false)
		}
		if e == nil {
			e = GoTypeOf(t.E)
		}
		if e == nil {
			return nil
		}
		if v.T.E != nil && v.T.E.K == "ptr" {
			e = TPtr(e)
		}
		if v.K == "array" {
			return TArray(len(v.L), e)
		}
		return TSlice(e)
	case "ifaces":
		if t.K == "tuple" && top && len(v.L) == len(t.Es) {
			ts := make([]*GTy, len(v.L))
			for i, e := range v.L {
				ts[i] = SameTypeTarget(t.Es[i], e, false)
				if ts[i] == nil {
					ts[i] = GoTypeOf(t.Es[i])
				}
				if ts[i] == nil {
					return nil
				}
				if ts[i].K != "ptr" {
					ts[i] = TPtr(ts[i]) // nullable, so that nil components are distinguishable
				}
			}
			return TIfaces(ts)
		}
		if t.K == "list" || t.K == "set" {
			if e := GoTypeOf(t.E); e != nil {
				return TSlice(TPtr(e))
			}
		}
		return nil
	case "map":
		if t.K != "map" || len(v.KV) == 0 {
			return nil
		}
		k, e := SameTypeTarget(t.Key, v.KV[0][0], false), SameTypeTarget(t.E, v.KV[0][1], false)
		if k == nil || e == nil || !hashable(k) {
			return nil
		}
		return TMapOf(k, e)
	case "strmap":
		if t.K == "udt" {
			return TK("strmap")
		}
	}
	return nil
}

// RoundTrip: Marshal v, then Unmarshal the produced bytes into each target; correspondence cases for both
// calls; monitor: the decoded value means what v meant (or Marshal returned an error).
func (rn *Runner) RoundTrip(kind string, pv int, t *Ty, v *Val, targets []*GTy) {
	o := rn.O
	out, cls, midx := rn.MarshalCase(kind+"-marshal", pv, t, v, false)
	if cls == ClsPanic {
		pf := map[string]bool{}
		MarshalFindings(t, v, pf)
		o.Violate(midx, "marshal-panics", "", "Marshal panicked instead of returning bytes or an error",
			map[string]string{"pv": fmt.Sprint(pv), "type": t.String(), "value": v.Coq()})
	}
	if cls != ClsOk {
		return
	}
	c, null, ok := Denote(t, v)
	mf := map[string]bool{}
	MarshalFindings(t, v, mf)
	for _, g := range targets {
		if g == nil || !SafeToDecode(pv, t, out) {
			continue
		}
		res, dcls, msg, reread := DoUnmarshal(t.Info(byte(pv)), out, g)
		term := fmt.Sprintf("CUnmarshal %d %s %s %s %s", pv, t.Coq(), OptBytesCoq(out), g.Coq(), UResCoq(res, dcls))
		idx := o.Case(kind+"-unmarshal", dcls == ClsOk && len(out) > 0, term)
		rn.retain(idx, reread, res)
		if dcls == ClsOk {
			rn.DestinationState(idx, pv, t, out, g, res)
		}
		rn.Stat[fmt.Sprintf("rt-unmarshal-class-%d", dcls)]++
		if !ok {
			rn.Stat["rt-no-denotation"]++
			continue
		}
		input := map[string]string{"pv": fmt.Sprint(pv), "type": t.String(), "value": v.Coq(), "bytes": fmt.Sprintf("%x", out),
			"nil": fmt.Sprint(out == nil), "target": g.Coq()}
		fm := map[string]bool{}
		for k := range mf {
			fm[k] = true
		}
		var cc *CV
		if !null {
			cc = c
		}
		DecodeFindings(t, cc, g, fm)
		order := []string{FUnsignedWrap, FVarint9, FNullArray}
		if pv <= 2 && cc.HasNullElem() {
			rn.Stat["rt-null-element-on-protocol-1-2"]++ // not expressible there; written as the empty value
			continue
		}
		if out == nil != null && len(mf) == 0 {
			o.Violate(idx, "null-confused-with-value", "", fmt.Sprintf("value null=%v but Marshal returned nil=%v", null, out == nil), input)
			continue
		}
		if dcls != ClsOk {
			if Representable(t, cc, g) {
				o.Violate(idx, "roundtrip-decode-fails", firstFinding(fm, order...),
					fmt.Sprintf("Marshal gave %x but Unmarshal into %s failed: %s", out, g.Coq(), msg), input)
			}
			continue
		}
		if null {
			if !nullKept(g, res) {
				o.Violate(idx, "null-not-kept", "", fmt.Sprintf("null decoded into %s gave %s", g.Coq(), res.Coq()), input)
			}
			continue
		}
		rn.count(t, SrcName(v), g)
		dc, _, dok := DenoteDecoded(t, res)
		if !dok {
			rn.Stat["rt-decoded-no-denotation"]++
			continue
		}
		if !cvMatch(c, dc) {
			o.Violate(idx, "roundtrip-different-value", firstFinding(fm, order...),
				fmt.Sprintf("%s -> %x -> %s: means %s, was %s", v.Coq(), out, res.Coq(), dc.short(), c.short()), input)
		}
		// same Go integer type back: exact (theorem C02_rt_int_same_type)
		pv0 := peel(v)
		if t.K == "native" && signedMaxOfColumn(t.ID) != nil && pv0 != nil && pv0.K == "int" && g.K == "int" && g.IK == pv0.T.IK {
			if res.Z.Cmp(pv0.Z) != 0 {
				o.Violate(idx, "same-integer-type-not-exact", "", fmt.Sprintf("%s -> %x -> %s", v.Coq(), out, res.Coq()), input)
			}
		}
	}
}

// BigElementChecks: collection elements and counts at and above 2^15 on the 2-byte framing of protocol 1/2 (and,
// for comparison, on protocol 3): reference-encoded, compared with Marshal's output, decoded and compared.
// Monitor only (no Coq case: the terms would be hundreds of kilobytes); the boundary of the size fields is
// covered on the Coq side by small truncated inputs (SizeFieldBoundaryCases).
func (rn *Runner) BigElementChecks() {
	o := rn.O
	blob, text := Native(gocql.TypeBlob), Native(gocql.TypeText)
	// one big case: Marshal outcome against the reference (an error exactly when the value does not fit the
	// framing of this protocol version), bytes, decode of the reference encoding, and the round trip of what
	// Marshal itself returned.  orderFree: a multi-entry map (emission order unknown): class, total length and
	// count field only.
	check := func(label string, pv int, t *Ty, v *Val, g *GTy, orderFree bool) {
		o.Count("big-size-monitor")
		input := map[string]string{"pv": fmt.Sprint(pv), "type": t.String(), "case": label}
		cv, _, _ := Denote(t, v)
		exp, ok := SpecEncode(pv, t, cv)
		out, cls, msg := DoMarshal(t.Info(byte(pv)), v.Iface())
		if cls == ClsPanic {
			o.Violate(-1, "marshal-panics", "", label+": "+msg, input)
			return
		}
		if !ok {
			// not a value of this protocol version's framing (a 2-byte size field cannot hold it)
			if cls == ClsOk {
				o.Violate(-1, "encodes-unrepresentable-value", "", fmt.Sprintf("%s on protocol %d does not fit the size fields, yet Marshal returned %d bytes (first 8: %x) instead of an error", label, pv, len(out), head8(out)), input)
				if res, dcls, _, _ := DoUnmarshal(t.Info(byte(pv)), out, g); dcls == ClsOk && !orderFree {
					if dc, _, dok := DenoteDecoded(t, res); dok && !cvMatch(cv, dc) {
						o.Violate(-1, "roundtrip-different-value", "", fmt.Sprintf("%s on protocol %d: Marshal then Unmarshal gives a different value (lengths %s)", label, pv, lens(dc)), input)
					}
				}
			}
			return
		}
		if cls != ClsOk {
			o.Violate(-1, "marshal-rejects-encodable-value", "", fmt.Sprintf("%s on protocol %d: %s", label, pv, msg), input)
			return
		}
		w := 2
		if pv > 2 {
			w = 4
		}
		if orderFree {
			if len(out) != len(exp) || !bytes.Equal(out[:w], exp[:w]) {
				o.Violate(-1, "not-the-specified-bytes", "", fmt.Sprintf("%s: Marshal %d bytes, count field %x; specification %d bytes, count field %x", label, len(out), out[:w], len(exp), exp[:w]), input)
			}
		} else if !bytes.Equal(out, exp) {
			o.Violate(-1, "not-the-specified-bytes", "", fmt.Sprintf("%s: Marshal %d bytes, first 8 %x; specification: %d bytes, first 8 %x", label, len(out), head8(out), len(exp), head8(exp)), input)
		}
		if orderFree {
			return // reading 65536 map entries back is slow; the list / set cases cover the decode side
		}
		res, dcls, dmsg, _ := DoUnmarshal(t.Info(byte(pv)), out, g)
		if dcls != ClsOk {
			o.Violate(-1, "roundtrip-decode-fails", "", fmt.Sprintf("%s: %s", label, dmsg), input)
			return
		}
		dc, _, dok := DenoteDecoded(t, res)
		if !dok || !cvMatch(cv, dc) {
			o.Violate(-1, "roundtrip-different-value", "", fmt.Sprintf("%s decoded to something else (lengths %s)", label, lens(dc)), input)
		}
	}
	for _, pv := range []int{1, 2, 3} {
		// one element / map value / map key of n bytes
		for _, n := range []int{32767, 32768, 40000, 65535, 65536} {
			big := make([]byte, n)
			for i := range big {
				big[i] = byte(i*7 + n)
			}
			check(fmt.Sprintf("list<blob> with an element of %d bytes", n), pv, &Ty{K: "list", E: blob},
				VSlice(TK("bytes"), []*Val{VBytes(false, []byte{1}), VBytes(false, big), VBytes(false, []byte{2, 3})}), TSlice(TK("bytes")), false)
			check(fmt.Sprintf("map<text,blob> with a value of %d bytes", n), pv, &Ty{K: "map", Key: text, E: blob},
				VMapOf(TK("str"), TK("bytes"), [][2]*Val{{VStr(false, "k"), VBytes(false, big)}}, false), TMapOf(TK("str"), TPtr(TK("bytes"))), false)
			check(fmt.Sprintf("map<text,blob> with a key of %d bytes", n), pv, &Ty{K: "map", Key: text, E: blob},
				VMapOf(TK("str"), TK("bytes"), [][2]*Val{{VStr(false, string(big)), VBytes(false, []byte{5})}}, false), TMapOf(TK("str"), TK("bytes")), false)
		}
		// element counts at the limit of the 2-byte count field
		counts := []int{65535, 65536}
		if o.Tier == "thorough" {
			counts = []int{32767, 32768, 65535, 65536, 70000}
		}
		for _, cnt := range counts {
			items := make([]*Val, cnt)
			kv := make([][2]*Val, cnt)
			for i := range items {
				items[i] = VBytes(false, []byte{byte(i), byte(i >> 8)})
				kv[i] = [2]*Val{VInt64(I32, false, int64(i)), VInt64(I8, false, int64(i%100))}
			}
			check(fmt.Sprintf("list<blob> of %d elements", cnt), pv, &Ty{K: "list", E: blob}, VSlice(TK("bytes"), items), TSlice(TK("bytes")), false)
			check(fmt.Sprintf("set<blob> of %d elements", cnt), pv, &Ty{K: "set", E: blob}, VSlice(TK("bytes"), items), TSlice(TKN("bytes", true)), false)
			check(fmt.Sprintf("map<int,tinyint> of %d entries", cnt), pv, &Ty{K: "map", Key: Native(gocql.TypeInt), E: Native(gocql.TypeTinyInt)},
				VMapOf(TInt(I32, false), TInt(I8, false), kv, false), TMapOf(TInt(I32, false), TInt(I8, false)), true)
		}
	}
}

func head8(b []byte) []byte {
	if len(b) > 8 {
		return b[:8]
	}
	return b
}

func lens(c *CV) string {
	if c == nil {
		return "null"
	}
	s := ""
	for _, e := range c.L {
		if e == nil {
			s += "null "
		} else {
			s += fmt.Sprint(len(e.S)) + " "
		}
	}
	for _, kv := range c.KV {
		if kv[1] == nil {
			s += "null "
		} else {
			s += fmt.Sprint(len(kv[1].S)) + " "
		}
	}
	return s
}

// SizeFieldBoundaryCases: truncated collection values whose count / element size fields are 0x7fff, 0x8000,
// 0xffff (2-byte framing) or 0x7fffffff, 0x80000000, 0xffffffff (4-byte framing): small correspondence cases
// for the signedness of the size fields.
func (rn *Runner) SizeFieldBoundaryCases() {
	blob := Native(gocql.TypeBlob)
	lt := &Ty{K: "list", E: blob}
	mt := &Ty{K: "map", Key: blob, E: blob}
	for _, pv := range []int{1, 2, 3, 4} {
		var fields [][]byte
		if pv <= 2 {
			fields = [][]byte{{0x7f, 0xff}, {0x80, 0x00}, {0xff, 0xff}, {0x00, 0x01}}
		} else {
			fields = [][]byte{{0x7f, 0xff, 0xff, 0xff}, {0x80, 0, 0, 0}, {0xff, 0xff, 0xff, 0xff}, {0, 0, 0, 1}}
		}
		one := fields[3]
		for _, f := range fields[:3] {
			// count = f
			rn.DecodeCase("unmarshal-size-field-boundary", pv, lt, append(append([]byte{}, f...), 1, 2, 3, 4, 5, 6, 7, 8), TSlice(TK("bytes")), nil, false, false, "")
			// one element of size f, then a few bytes
			d := append(append(append([]byte{}, one...), f...), 9, 9, 9)
			rn.DecodeCase("unmarshal-size-field-boundary", pv, lt, d, TSlice(TPtr(TK("bytes"))), nil, false, false, "")
			rn.DecodeCase("unmarshal-size-field-boundary", pv, lt, d, TArray(1, TK("bytes")), nil, false, false, "")
			// map: one entry, key size f / value size f
			rn.DecodeCase("unmarshal-size-field-boundary", pv, mt, append(append(append([]byte{}, one...), f...), 9, 9, 9, 9, 9, 9, 9, 9), TMapOf(TK("str"), TPtr(TK("bytes"))), nil, false, false, "")
			dm := append(append(append(append([]byte{}, one...), one...), 7), f...)
			rn.DecodeCase("unmarshal-size-field-boundary", pv, mt, append(dm, 9, 9, 9, 9), TMapOf(TK("str"), TPtr(TK("bytes"))), nil, false, false, "")
		}
	}
}

// ShortUDTCases: UDT values that stop early (written before fields were added to the type) decoded into struct
// targets, tagged and untagged, at top level and as a list element: every prefix of the components. Each decode is
// a correspondence case and is repeated into a destination holding an earlier value (DestinationState), so the
// "remaining fields are null" rule is exercised on every run and not only when the random stream draws one.
func (rn *Runner) ShortUDTCases() {
	i32 := Native(gocql.TypeInt)
	text := Native(gocql.TypeVarchar)
	blob := Native(gocql.TypeBlob)
	ut := &Ty{K: "udt", Es: []*Ty{i32, text, blob}, Names: []string{"a", "b", "c"}}
	comps := [][]byte{{0, 0, 0, 4, 0, 0, 0, 7}, {0, 0, 0, 2, 'h', 'i'}, {0, 0, 0, 3, 1, 2, 3}}
	tagged := TStruct([]string{"G0", "G1", "G2"}, []string{"a", "b", "c"}, []*GTy{TInt(IInt, false), TK("str"), TK("bytes")})
	byName := TStruct([]string{"A", "B", "C"}, []string{"", "", ""}, []*GTy{TInt(IInt, false), TK("str"), TK("bytes")})
	ptrs := TStruct([]string{"G0", "G1", "G2"}, []string{"a", "b", "c"}, []*GTy{TPtr(TInt(IInt, false)), TPtr(TK("str")), TPtr(TK("bytes"))})
	utn := &Ty{K: "udt", Es: []*Ty{i32, text, blob}, Names: []string{"A", "B", "C"}}
	for _, pv := range []int{2, 3, 4} {
		for n := 1; n <= 3; n++ {
			var d []byte
			for _, c := range comps[:n] {
				d = append(d, c...)
			}
			rn.DecodeCase("unmarshal-udt-stops-early", pv, ut, d, tagged, nil, false, false, "")
			rn.DecodeCase("unmarshal-udt-stops-early", pv, ut, d, ptrs, nil, false, false, "")
			rn.DecodeCase("unmarshal-udt-stops-early", pv, utn, d, byName, nil, false, false, "")
			// as the only element of a list
			var l []byte
			if pv <= 2 {
				l = []byte{0, 1, 0, byte(len(d))}
			} else {
				l = []byte{0, 0, 0, 1, 0, 0, 0, byte(len(d))}
			}
			rn.DecodeCase("unmarshal-udt-stops-early", pv, &Ty{K: "list", E: ut}, append(l, d...), TSlice(tagged), nil, false, false, "")
		}
	}
}

// destKey: a decoded value up to the one documented dependence on the destination: a non-nil []byte buffer
// is reused, so an empty value stays an empty non-nil slice instead of nil
func destKey(v *Val) string {
	s := v.Coq()
	s = strings.ReplaceAll(s, "(GBytes false None)", "(GBytes false (Some []))")
	s = strings.ReplaceAll(s, "(GBytes true None)", "(GBytes true (Some []))")
	s = strings.ReplaceAll(s, "(GIP [])", "(GIP-empty)")
	return s
}

// DestinationState: the decode that just succeeded into a fresh zero destination is repeated into a destination
// that already holds a different value of the same type (non-nil map with other keys, longer slice, set
// pointers, struct with every field set, filled array); the result must be the decoded value alone.
func (rn *Runner) DestinationState(idx int, pv int, t *Ty, data []byte, g *GTy, fresh *Val) {
	res, cls, msg, _ := DoUnmarshalInto(t.Info(byte(pv)), data, g, t)
	rn.Stat["destination-state-decodes"]++
	input := map[string]string{"pv": fmt.Sprint(pv), "type": t.String(), "data": fmt.Sprintf("%x", data), "nil": fmt.Sprint(data == nil), "target": g.Coq()}
	if cls != ClsOk {
		rn.O.Violate(idx, "destination-state-changes-outcome", "", fmt.Sprintf("decoding into a zero destination succeeded, into a destination holding an earlier value it failed: %s", msg), input)
		return
	}
	if destKey(res) != destKey(fresh) {
		fid := ""
		if udtShortIntoStruct(pv, t, data, g) {
			fid = FUdtShortStale
		}
		rn.O.Violate(idx, "destination-state-leaks-into-result", fid,
			fmt.Sprintf("decoded into a zero destination: %s; into a destination holding an earlier value: %s", trunc300(fresh.Coq()), trunc300(res.Coq())), input)
	}
}

func trunc300(s string) string {
	if len(s) > 300 {
		return s[:300] + "..."
	}
	return s
}

const FUdtShortStale = "udt-short-value-keeps-stale-struct-fields"

func stripPtr(g *GTy) *GTy {
	for g != nil && g.K == "ptr" {
		g = g.E
	}
	return g
}

// udtShortIntoStruct: walking data with the framing of t, some UDT value read into a struct target has fewer
// components than the type has fields (the value "stops early"): the trigger of FUdtShortStale.
func udtShortIntoStruct(pv int, t *Ty, data []byte, g *GTy) bool {
	g = stripPtr(g)
	if data == nil || g == nil {
		return false
	}
	rd := func(p []byte, w int) (int, []byte, bool) {
		if len(p) < w {
			return 0, nil, false
		}
		n := 0
		for i := 0; i < w; i++ {
			n = n<<8 | int(p[i])
		}
		if w == 4 && n >= 1<<31 {
			n -= 1 << 32
		}
		return n, p[w:], true
	}
	w := 2
	if pv > 2 {
		w = 4
	}
	switch t.K {
	case "list", "set", "map":
		n, p, ok := rd(data, w)
		if !ok || n > 4096 {
			return false
		}
		per := 1
		if t.K == "map" {
			per = 2
		}
		for i := 0; i < n*per; i++ {
			m, q, ok := rd(p, w)
			if !ok {
				return false
			}
			p = q
			if m < 0 {
				continue
			}
			if m > len(p) {
				return false
			}
			et, eg := t.E, g.E
			if t.K == "map" && i%2 == 0 {
				et, eg = t.Key, g.Key
			}
			if eg != nil && udtShortIntoStruct(pv, et, p[:m], eg) {
				return true
			}
			p = p[m:]
		}
	case "tuple", "udt":
		p := data
		for i, et := range t.Es {
			if len(p) < 4 {
				// the value stops here
				return t.K == "udt" && g.K == "struct"
			}
			m, q, _ := rd(p, 4)
			p = q
			if m < 0 {
				continue
			}
			if m > len(p) {
				return false
			}
			var eg *GTy
			switch g.K {
			case "ifaces":
				if i < len(g.Ts) {
					eg = g.Ts[i]
				}
			case "struct":
				if t.K == "tuple" && i < len(g.Ts) {
					eg = g.Ts[i]
				}
				if t.K == "udt" {
					for j := range g.Ts {
						if g.Tags[j] == t.Names[i] || g.Names[j] == t.Names[i] {
							eg = g.Ts[j]
						}
					}
				}
			default:
				eg = GoTypeOf(et)
			}
			if eg != nil && udtShortIntoStruct(pv, et, p[:m], eg) {
				return true
			}
			p = p[m:]
		}
	}
	return false
}
