package mv

// Reference serializer written from the native protocol specification (section 6 of
// native_protocol_v4/v5.spec), independent of gocql, and the meaning ("denotation") the documentation
// table of gocql.Marshal gives to a Go value bound to a column of a given type.
// The Coq side has the same encoder as C12/Spec.v (proved against the model); CSpec correspondence
// cases check that this Go transcription and the Coq one agree.

import (
	"encoding/hex"
	"fmt"
	"math/big"
	"net"
	"strings"
	"time"

	"gocqlverif/hlib"
)

type CV struct {
	K     string // int bool bytes float dec dur list map tuple udt
	Z     *big.Int
	Scale int64
	B     bool
	S     []byte
	M, D  int64
	N     int64
	L     []*CV    // nil entry = null
	KV    [][2]*CV // map
	W     int      // float: 32 or 64
}

// HasNullElem: some list / set / map element or key of c is null (protocol versions 1 and 2 cannot
// express that)
func (c *CV) HasNullElem() bool {
	if c == nil {
		return false
	}
	switch c.K {
	case "list":
		for _, e := range c.L {
			if e == nil || e.HasNullElem() {
				return true
			}
		}
	case "map":
		for _, kv := range c.KV {
			if kv[0] == nil || kv[1] == nil || kv[0].HasNullElem() || kv[1].HasNullElem() {
				return true
			}
		}
	case "tuple", "udt":
		for _, e := range c.L {
			if e.HasNullElem() {
				return true
			}
		}
	}
	return false
}

func optCV(c *CV) string {
	if c == nil {
		return "None"
	}
	return "(Some " + c.Coq() + ")"
}

func (c *CV) Coq() string {
	switch c.K {
	case "absent":
		return "<no such field in the target struct>"
	case "int":
		return "(VInt " + zs(c.Z) + ")"
	case "bool":
		return "(VBool " + cb(c.B) + ")"
	case "bytes":
		return "(VBytes " + hlib.ZList(c.S) + ")"
	case "float":
		return "(VFloat " + zs(c.Z) + ")"
	case "dec":
		return fmt.Sprintf("(VDecimal %s %s)", zs(c.Z), hlib.Z(c.Scale))
	case "dur":
		return fmt.Sprintf("(VDuration %s %s %s)", hlib.Z(c.M), hlib.Z(c.D), hlib.Z(c.N))
	case "list", "tuple", "udt":
		ss := make([]string, len(c.L))
		for i, e := range c.L {
			ss[i] = optCV(e)
		}
		name := map[string]string{"list": "VList", "tuple": "VTuple", "udt": "VUdt"}[c.K]
		return "(" + name + " " + hlib.List(ss) + ")"
	case "map":
		ss := make([]string, len(c.KV))
		for i, e := range c.KV {
			ss[i] = hlib.Pair(optCV(e[0]), optCV(e[1]))
		}
		return "(VMap " + hlib.List(ss) + ")"
	}
	panic("CV.Coq")
}

var one = big.NewInt(1)

// w bytes big-endian of z mod 2^(8w)
func beFixed(w int, z *big.Int) []byte {
	m := new(big.Int).Lsh(one, uint(8*w))
	x := new(big.Int).Mod(z, m) // Euclidean: non-negative
	b := x.Bytes()
	out := make([]byte, w)
	copy(out[w-len(b):], b)
	return out
}

func fitsSigned(w int, z *big.Int) bool {
	lim := new(big.Int).Lsh(one, uint(8*w-1))
	return z.Cmp(new(big.Int).Neg(lim)) >= 0 && z.Cmp(lim) < 0
}
func fitsUnsigned(w int, z *big.Int) bool {
	return z.Sign() >= 0 && z.Cmp(new(big.Int).Lsh(one, uint(8*w))) < 0
}

func size2c(z *big.Int) int {
	m := new(big.Int).Set(z)
	if z.Sign() < 0 {
		m.Neg(z)
		m.Sub(m, one)
	}
	return (m.BitLen() + 8) / 8
}

func varintBytes(z *big.Int) []byte { return beFixed(size2c(z), z) }

func zigzag(z int64) *big.Int {
	b := big.NewInt(z)
	if z < 0 {
		b.Mul(b, big.NewInt(-2))
		return b.Sub(b, one)
	}
	return b.Mul(b, big.NewInt(2))
}

func uvint(u *big.Int) []byte {
	n := 8
	for k := 0; k < 8; k++ {
		if u.Cmp(new(big.Int).Lsh(one, uint(7*(k+1)))) < 0 {
			n = k
			break
		}
	}
	pre := new(big.Int).Lsh(one, uint(n))
	pre.Sub(pre, one)
	pre.Lsh(pre, uint(7*n+8))
	return beFixed(n+1, new(big.Int).Add(u, pre))
}
func vint(z int64) []byte { return uvint(zigzag(z)) }

func intBytes(x []byte, null bool) ([]byte, bool) {
	if null {
		return []byte{0xff, 0xff, 0xff, 0xff}, true
	}
	n := big.NewInt(int64(len(x)))
	if !fitsSigned(4, n) {
		return nil, false
	}
	return append(beFixed(4, n), x...), true
}

func collBytes(pv int, x []byte, null bool) ([]byte, bool) {
	if pv >= 3 {
		return intBytes(x, null)
	}
	if len(x) > 65535 {
		return nil, false
	}
	// protocol 1/2 cannot express a null element: the documented degradation is the empty value
	return append(beFixed(2, big.NewInt(int64(len(x)))), x...), true
}

func collCount(pv int, n int) ([]byte, bool) {
	if pv >= 3 {
		return beFixed(4, big.NewInt(int64(n))), n < 1<<31
	}
	return beFixed(2, big.NewInt(int64(n))), n <= 65535
}

// SpecEncode: the bytes the specification prescribes for value c of type t; ok=false when c is not a
// value of that type.
func SpecEncode(pv int, t *Ty, c *CV) ([]byte, bool) {
	switch t.K {
	case "native":
		return specNative(t.ID, c)
	case "list", "set":
		if c.K != "list" {
			return nil, false
		}
		out, ok := collCount(pv, len(c.L))
		if !ok {
			return nil, false
		}
		for _, e := range c.L {
			var eb []byte
			if e != nil {
				if eb, ok = SpecEncode(pv, t.E, e); !ok {
					return nil, false
				}
			}
			fb, ok := collBytes(pv, eb, e == nil)
			if !ok {
				return nil, false
			}
			out = append(out, fb...)
		}
		return out, true
	case "map":
		if c.K != "map" {
			return nil, false
		}
		out, ok := collCount(pv, len(c.KV))
		if !ok {
			return nil, false
		}
		for _, kv := range c.KV {
			for i, tt := range []*Ty{t.Key, t.E} {
				var eb []byte
				if kv[i] != nil {
					if eb, ok = SpecEncode(pv, tt, kv[i]); !ok {
						return nil, false
					}
				}
				fb, ok := collBytes(pv, eb, kv[i] == nil)
				if !ok {
					return nil, false
				}
				out = append(out, fb...)
			}
		}
		return out, true
	case "tuple", "udt":
		if c.K != t.K {
			return nil, false
		}
		if t.K == "tuple" && len(c.L) != len(t.Es) || len(c.L) > len(t.Es) {
			return nil, false
		}
		out := []byte{}
		for i, e := range c.L {
			var eb []byte
			ok := true
			if e != nil {
				if eb, ok = SpecEncode(pv, t.Es[i], e); !ok {
					return nil, false
				}
			}
			fb, ok := intBytes(eb, e == nil)
			if !ok {
				return nil, false
			}
			out = append(out, fb...)
		}
		return out, true
	}
	return nil, false
}

func specNative(id int, c *CV) ([]byte, bool) {
	fixed := func(w int) ([]byte, bool) {
		if !fitsSigned(w, c.Z) {
			return nil, false
		}
		return beFixed(w, c.Z), true
	}
	switch c.K {
	case "int":
		switch id {
		case 0x14:
			return fixed(1)
		case 0x13:
			return fixed(2)
		case 0x09:
			return fixed(4)
		case 0x02, 0x05, 0x12, 0x0B:
			return fixed(8)
		case 0x0E:
			return varintBytes(c.Z), true
		case 0x11:
			if !fitsSigned(4, c.Z) {
				return nil, false
			}
			return beFixed(4, new(big.Int).Add(c.Z, new(big.Int).Lsh(one, 31))), true
		}
	case "bool":
		if id == 0x04 {
			if c.B {
				return []byte{1}, true
			}
			return []byte{0}, true
		}
	case "bytes":
		switch id {
		case 0x01, 0x0A, 0x0D, 0x03:
			return append([]byte{}, c.S...), true
		case 0x0C, 0x0F:
			return append([]byte{}, c.S...), len(c.S) == 16
		case 0x10:
			return append([]byte{}, c.S...), len(c.S) == 4 || len(c.S) == 16
		}
	case "float":
		if id == 0x08 && fitsUnsigned(4, c.Z) {
			return beFixed(4, c.Z), true
		}
		if id == 0x07 && fitsUnsigned(8, c.Z) {
			return beFixed(8, c.Z), true
		}
	case "dec":
		if id == 0x06 && fitsSigned(4, big.NewInt(c.Scale)) {
			return append(beFixed(4, big.NewInt(c.Scale)), varintBytes(c.Z)...), true
		}
	case "dur":
		if id == 0x15 && fitsSigned(4, big.NewInt(c.M)) && fitsSigned(4, big.NewInt(c.D)) {
			return append(append(vint(c.M), vint(c.D)...), vint(c.N)...), true
		}
	}
	return nil, false
}

// ---- denotation ----------------------------------------------------------------------------------------

func floorDiv(a, b *big.Int) *big.Int {
	q, m := new(big.Int).DivMod(a, b, new(big.Int)) // Euclidean; b > 0 so this is floor
	_ = m
	return q
}

func isIntID(id int) bool {
	switch id {
	case 0x14, 0x13, 0x09, 0x02, 0x05, 0x0E:
		return true
	}
	return false
}

func parseDec(s []byte) (*big.Int, bool) {
	if len(s) == 0 {
		return nil, false
	}
	i := 0
	if s[0] == '-' || s[0] == '+' {
		i = 1
	}
	if i == len(s) {
		return nil, false
	}
	for _, c := range s[i:] {
		if c < '0' || c > '9' {
			return nil, false
		}
	}
	z, ok := new(big.Int).SetString(string(s), 10)
	return z, ok
}

func peel(v *Val) *Val {
	for v.K == "ptr" {
		if v.P == nil {
			return nil
		}
		v = v.P
	}
	return v
}

// Denote: what the value v means for a column of type t according to the documentation of
// gocql.Marshal.  null=true: CQL null.  ok=false: the table gives no meaning (unsupported combination,
// or a case deliberately left out of the modelled universe).
func Denote(t *Ty, v *Val) (c *CV, null bool, ok bool) { return denote(t, v, false) }

// DenoteDecoded: the same for a value read back from an Unmarshal target; UDT fields for which the
// target struct has no field are marked absent (the decoder skips them by design).
func DenoteDecoded(t *Ty, v *Val) (c *CV, null bool, ok bool) { return denote(t, v, true) }

func denote(t *Ty, v *Val, dec bool) (c *CV, null bool, ok bool) {
	v = peel(v)
	if v == nil || v.K == "nil" {
		return nil, true, true
	}
	if v.K == "unset" {
		return nil, false, false
	}
	switch t.K {
	case "native":
		return denoteNative(t.ID, v, dec)
	case "list", "set":
		var items []*Val
		switch v.K {
		case "slice":
			if v.Nil {
				return nil, true, true
			}
			items = v.L
		case "array", "ifaces":
			items = v.L
		case "setmap":
			items = v.L
		default:
			return nil, false, false
		}
		out := &CV{K: "list", L: make([]*CV, len(items))}
		for i, e := range items {
			ec, en, eok := denote(t.E, e, dec)
			if !eok {
				return nil, false, false
			}
			if !en {
				out.L[i] = ec
			}
		}
		return out, false, true
	case "map":
		if v.K != "map" {
			return nil, false, false
		}
		if v.Nil {
			return nil, true, true
		}
		out := &CV{K: "map"}
		for _, kv := range v.KV {
			kc, _, kok := denote(t.Key, kv[0], dec)
			vc, _, vok := denote(t.E, kv[1], dec)
			if !kok || !vok {
				return nil, false, false
			}
			out.KV = append(out.KV, [2]*CV{kc, vc})
		}
		return out, false, true
	case "tuple":
		var items []*Val
		switch v.K {
		case "ifaces", "array", "struct":
			items = v.L
		case "slice":
			if v.Nil {
				return nil, false, false
			}
			items = v.L
		default:
			return nil, false, false
		}
		if len(items) != len(t.Es) {
			return nil, false, false
		}
		out := &CV{K: "tuple", L: make([]*CV, len(items))}
		for i, e := range items {
			ec, en, eok := denote(t.Es[i], e, dec)
			if !eok {
				return nil, false, false
			}
			if !en {
				out.L[i] = ec
			}
		}
		return out, false, true
	case "udt":
		out := &CV{K: "udt", L: make([]*CV, len(t.Es))}
		for i, name := range t.Names {
			var f *Val
			switch v.K {
			case "strmap":
				for j, k := range v.SK {
					if k == name {
						f = v.L[j]
					}
				}
			case "struct":
				for j := range v.L {
					if v.T.Tags[j] != "" && v.T.Tags[j] == name {
						f = v.L[j]
					}
				}
				if f == nil {
					for j := range v.L {
						if v.T.Names[j] == name {
							f = v.L[j]
							break
						}
					}
				}
			default:
				return nil, false, false
			}
			if f == nil {
				if dec && v.K == "struct" {
					out.L[i] = &CV{K: "absent"}
				}
				continue // absent field: null
			}
			ec, en, eok := denote(t.Es[i], f, dec)
			if !eok {
				return nil, false, false
			}
			if !en {
				out.L[i] = ec
			}
		}
		return out, false, true
	}
	return nil, false, false
}

func denoteNative(id int, v *Val, dec bool) (*CV, bool, bool) {
	bad := func() (*CV, bool, bool) { return nil, false, false }
	switch {
	case id == 0x01 || id == 0x0A || id == 0x0D || id == 0x03: // ascii text varchar blob
		switch v.K {
		case "str":
			return &CV{K: "bytes", S: v.S}, false, true
		case "bytes":
			if v.Nil {
				if dec {
					// read back: a nil []byte in a non-nil position is what the decoder stores for an empty value
					// (and for null in a non-pointer target): it is not a null of its own
					return &CV{K: "bytes", S: []byte{}}, false, true
				}
				return nil, true, true
			}
			return &CV{K: "bytes", S: v.S}, false, true
		}
	case id == 0x04:
		if v.K == "bool" {
			return &CV{K: "bool", B: v.B}, false, true
		}
	case isIntID(id):
		switch v.K {
		case "int", "dur":
			return &CV{K: "int", Z: v.Z}, false, true
		case "big":
			if id == 0x02 || id == 0x05 || id == 0x0E {
				return &CV{K: "int", Z: v.Z}, false, true
			}
		case "str":
			if !v.T.Named {
				if z, ok := parseDec(v.S); ok {
					return &CV{K: "int", Z: z}, false, true
				}
			}
		}
	case id == 0x08:
		if v.K == "f32" {
			z := v.Z
			if v.T.Named {
				// a defined float32 type reaches the encoder through reflect's float64: IEEE 754 conversion of a
				// signalling NaN yields the quiet NaN with the same payload
				b := uint32(z.Uint64())
				if b&0x7f800000 == 0x7f800000 && b&0x007fffff != 0 {
					z = new(big.Int).SetUint64(uint64(b | 0x00400000))
				}
			}
			return &CV{K: "float", Z: z, W: 32}, false, true
		}
	case id == 0x07:
		if v.K == "f64" {
			return &CV{K: "float", Z: v.Z, W: 64}, false, true
		}
	case id == 0x06:
		if v.K == "dec" {
			return &CV{K: "dec", Z: v.Z, Scale: v.Scale}, false, true
		}
	case id == 0x12: // time: int64 nanoseconds, time.Duration
		if v.K == "dur" || v.K == "int" && v.T.IK == I64 {
			return &CV{K: "int", Z: v.Z}, false, true
		}
	case id == 0x0B: // timestamp: int64 ms, time.Time
		if v.K == "int" && v.T.IK == I64 {
			return &CV{K: "int", Z: v.Z}, false, true
		}
		if v.K == "time" && !v.isZeroTime() {
			return &CV{K: "int", Z: v.millis()}, false, true
		}
	case id == 0x11 && dec && v.K == "str" && !v.T.Named: // read back as "2006-01-02" (years 0..9999 only)
		if tm, err := time.Parse("2006-01-02", string(v.S)); err == nil {
			return &CV{K: "int", Z: floorDiv(big.NewInt(tm.Unix()), big.NewInt(86400))}, false, true
		}
		return bad()
	case id == 0x11: // date: int64 ms since epoch, time.Time -> day number, counted with floor
		if v.K == "int" && v.T.IK == I64 && !v.T.Named {
			return &CV{K: "int", Z: floorDiv(v.Z, big.NewInt(86400000))}, false, true
		}
		if v.K == "time" && !v.isZeroTime() {
			return &CV{K: "int", Z: floorDiv(v.millis(), big.NewInt(86400000))}, false, true
		}
	case id == 0x15: // duration: int64 ns, time.Duration, gocql.Duration
		if v.K == "dur" || v.K == "int" && v.T.IK == I64 {
			return &CV{K: "dur", N: v.Z.Int64()}, false, true
		}
		if v.K == "cqldur" {
			return &CV{K: "dur", M: v.M, D: v.D, N: v.N}, false, true
		}
	case id == 0x0C || id == 0x0F:
		if dec && v.K == "str" && !v.T.Named { // read back as the canonical text form
			h := strings.ReplaceAll(string(v.S), "-", "")
			if b, err := hex.DecodeString(h); err == nil && len(b) == 16 && len(v.S) == 36 {
				return &CV{K: "bytes", S: b}, false, true
			}
			return bad()
		}
		switch v.K {
		case "uuid", "arr16":
			return &CV{K: "bytes", S: v.S}, false, true
		case "bytes":
			if !v.T.Named && !v.Nil && len(v.S) == 16 {
				return &CV{K: "bytes", S: v.S}, false, true
			}
		}
	case id == 0x10:
		if dec && v.K == "str" && !v.T.Named {
			if ip := net.ParseIP(string(v.S)); ip != nil {
				if v4 := ip.To4(); v4 != nil {
					return &CV{K: "bytes", S: []byte(v4)}, false, true
				}
				return &CV{K: "bytes", S: []byte(ip.To16())}, false, true
			}
			return bad()
		}
		if !dec && v.K == "str" && !v.T.Named {
			// "inet | string | IPv4 or IPv6 address string": the address net.ParseIP reads, in its shortest form
			// (4 bytes for an IPv4 address however it is spelled, else 16), as for a net.IP source
			if ip := net.ParseIP(string(v.S)); ip != nil {
				if v4 := ip.To4(); v4 != nil {
					return &CV{K: "bytes", S: []byte(v4)}, false, true
				}
				return &CV{K: "bytes", S: []byte(ip.To16())}, false, true
			}
			return bad()
		}
		if v.K == "ip" {
			b := v.S
			if len(b) == 16 {
				mapped := b[10] == 0xff && b[11] == 0xff
				for i := 0; i < 10; i++ {
					mapped = mapped && b[i] == 0
				}
				if mapped {
					b = b[12:]
				}
			}
			if len(b) == 4 || len(b) == 16 {
				return &CV{K: "bytes", S: b}, false, true
			}
		}
	}
	return bad()
}

func (v *Val) isZeroTime() bool { return v.Sec == -62135596800 && v.Nsec == 0 }

// milliseconds since the epoch, rounded towards minus infinity
func (v *Val) millis() *big.Int {
	m := new(big.Int).Mul(big.NewInt(v.Sec), big.NewInt(1000))
	return m.Add(m, big.NewInt(v.Nsec/1000000))
}
